(* C17, lexing side: a start tag / end tag as the XML serializer writes it, read back by the TokIR
   interpreter of the regenerated xml tokenizer table (reference semantics, exact_errors = true). *)
From Coq Require Import List NArith Bool Lia.
From RecordUpdate Require Import RecordSet.
From HV Require Import TokIR.IR TokIR.Interp XmlNs.XLexBase XmlNs.XLex.
From HV Require XmlNs.XTreeModel XmlNs.XSerModel XmlNs.XSerSpec.
Import ListNotations RecordSetNotations.
Local Open Scope N_scope.

(* a character that get_char hands through unchanged and without a report *)
Definition ok_char (c : N) : bool := negb (c =? 13) && negb (c =? 0) && negb (bad_char c).
(* U+000D and U+0000 never reach a name, a comment or a processing instruction of a parsed tree (the input
   preprocessing turns them into U+000A and U+FFFD); a reported character (control character, noncharacter)
   is kept and costs one parse-error token *)
Definition pre_ok (c : N) : bool := negb (c =? 13) && negb (c =? 0).
Definition char_errs (c : N) : list token := if bad_char c then [TError] else [].
Definition bad_errs (s : list N) : list token := flat_map char_errs s.
Lemma rev_bad_cons : forall c s l, rev (bad_errs (c :: s)) ++ l = rev (bad_errs s) ++ char_errs c ++ l.
Proof. intros. unfold bad_errs. simpl. rewrite rev_app_distr, <- app_assoc. unfold char_errs. destruct (bad_char c); reflexivity. Qed.
Lemma bad_errs_app : forall a b, bad_errs (a ++ b) = bad_errs a ++ bad_errs b.
Proof. intros. unfold bad_errs. apply flat_map_app. Qed.

(* the characters the tokenizer accepts in the positions of a name *)
Definition tag_first (c : N) : bool :=
  pre_ok c && negb (memb c [33]) && negb (memb c [47]) && negb (memb c [63]) && negb (memb c [9; 10; 32; 58; 60; 62]).
Definition tag_rest (c : N) : bool :=
  pre_ok c && negb (memb c [9; 10; 32]) && negb (memb c [62]) && negb (memb c [47]).
Definition an_first (c : N) : bool :=
  pre_ok c && negb (memb c [9; 10; 32]) && negb (memb c [62]) && negb (memb c [47]) && negb (memb c [58]).
Definition an_rest (c : N) : bool :=
  pre_ok c && negb (memb c [61]) && negb (memb c [62]) && negb (memb c [9; 10; 32]) && negb (memb c [47]).
Definition etag_first (c : N) : bool :=
  pre_ok c && negb (memb c [62]) && negb (memb c [9; 10; 32; 60; 58]).
Definition etag_rest (c : N) : bool :=
  pre_ok c && negb (memb c [9; 10; 32]) && negb (memb c [47]) && negb (memb c [62]).

Lemma ok_char_parts : forall c, ok_char c = true -> (c =? 13) = false /\ (c =? 0) = false /\ bad_char c = false.
Proof.
  intros c H. unfold ok_char in H. apply andb_true_iff in H. destruct H as [H H3].
  apply andb_true_iff in H. destruct H as [H1 H2].
  apply negb_true_iff in H1, H2, H3. auto.
Qed.

Ltac split_class H :=
  repeat (let A := fresh "A" in apply andb_true_iff in H; destruct H as [H A]; apply negb_true_iff in A).

Section L.
Variable tb : table xstate.
Hypothesis TB : xml_bodies tb.
Variable simd : list N * list N * list N.
Variable ent : list N -> option (N * N).
Variable c1 : N -> option N.
Variable sk : sinkcfg.
Hypothesis E5 : ent_five ent.

Notation xstep := (xstep tb simd ent c1 sk).
Notation xsteps := (xsteps tb simd ent c1 sk).
Notation xsteps_trans := (xsteps_trans tb simd ent c1 sk).

Ltac bodies := rewrite ?(tb_data _ TB), ?(tb_tagstate _ TB), ?(tb_endtagstate _ TB), ?(tb_endtagname _ TB), ?(tb_tagname _ TB),
  ?(tb_anb _ TB), ?(tb_an _ TB), ?(tb_avb _ TB), ?(tb_dq _ TB).
Ltac one := eapply xs_step; [unfold XLexBase.xstep, step, mkM; cbn [mc cref st]; bodies; cbv -[N.add N.sub ent]; reflexivity|].
Ltac fin := unfold mkM; apply xs_refl.

(* one step on a symbolic ordinary character: get_char, then the arm selected by the membership tests;
   the class hypothesis has been split into its conjuncts *)
Ltac rw_all := repeat match goal with
  | E : (_ =? _) = false |- _ => rewrite E
  | E : bad_char _ = false |- _ => rewrite E
  | E : bad_char _ = true |- _ => rewrite E
  | E : memb _ _ = false |- _ => rewrite E
  end.
Ltac sym :=
  apply xsteps_one; unfold XLexBase.xstep, step, mkM; cbn [mc cref st]; bodies;
  cbn -[bad_char N.eqb N.add memb]; unfold CR, LF, REPL;
  repeat (rw_all; cbn -[bad_char N.eqb N.add memb]).
Ltac okc H := unfold pre_ok in H; split_class H; apply negb_true_iff in H.
Ltac cls H := split_class H; okc H.
(* one step that reads a symbolic character: with or without its parse error *)
Ltac rd := unfold char_errs; match goal with |- context [bad_char ?c] => destruct (bad_char c) eqn:BC end;
           do 2 eexists; (split; [sym; reflexivity|reflexivity]).

Lemma tagstate_first : forall b cu tk tn ta an av c q o k, tag_first c = true -> exists o' k',
  xsteps (mkM b XTagState false cu false None tk tn ta an av (c :: q) o k)
         (mkM b XTagName false c false None TStartTag [c] [] an av q o' k') /\
  otoks o' = char_errs c ++ otoks o.
Proof. intros b cu tk tn ta an av c q o k H. unfold tag_first in H. cls H. rd. Qed.


(* ---- finish_attribute (xml) in closed form *)
Definition fa_dup (ta : list (str * str)) (an : str) : bool :=
  negb (match an with [] => true | _ => false end) && existsb (fun a => str_eqb (fst a) an) ta.
Definition fa_front (an : str) : bool :=
  let '(p, l) := qname_split an in
  match p with Some p' => str_eqb p' xmlns_str | None => str_eqb l xmlns_str end.
Definition fa_ta (ta : list (str * str)) (an av : str) : list (str * str) :=
  match an with
  | [] => ta
  | _ => if fa_dup ta an then ta else if fa_front an then (an, av) :: ta else ta ++ [(an, av)]
  end.
Definition fa_av (an av : str) : str := match an with [] => av | _ => [] end.
Definition fa_errs (ta : list (str * str)) (an : str) : list token := if fa_dup ta an then [TError] else [].

Lemma finish_attribute_eq : forall s rc cu il bom tmp tk tn ts td ta an av co dn dp ds dq pt pd ls cr ln q o k,
  exists o',
  finish_attribute (S := xstate) (Q := list N) xml_flavour
    (mkmach (mkcfg s rc cu il bom tmp tk tn ts td ta an av co dn dp ds dq pt pd ls cr ln) q o k) =
  mkmach (mkcfg s rc cu il bom tmp tk tn ts td (fa_ta ta an av) [] (fa_av an av) co dn dp ds dq pt pd ls cr ln) q o' k /\
  otoks o' = fa_errs ta an ++ otoks o.
Proof.
  intros. unfold finish_attribute, fa_ta, fa_av, fa_errs, fa_dup, fa_front. cbn -[qname_split existsb str_eqb].
  destruct an as [|a an']; [eexists; split; reflexivity|]. cbn -[qname_split existsb str_eqb].
  destruct (existsb _ ta); [eexists; split; reflexivity|].
  destruct (qname_split (a :: an')) as [[p|] l]; cbn -[str_eqb];
    destruct (str_eqb _ xmlns_str); eexists; split; reflexivity.
Qed.


Ltac symf :=
  apply xsteps_one; unfold XLexBase.xstep, step, mkM; cbn [mc cref st]; bodies;
  cbn -[bad_char N.eqb N.add memb finish_attribute]; unfold CR, LF, REPL;
  repeat (rw_all; cbn -[bad_char N.eqb N.add memb finish_attribute]).
(* replace the (single) call of finish_attribute by its closed form: normalise its argument first *)
Ltac fa o1 T1 :=
  match goal with
  | |- context [finish_attribute xml_flavour ?m] =>
    let m' := eval cbv -[N.add N.sub xml_flavour b_bom b_temp b_self b_dup b_comment b_dn b_dp b_ds b_dq b_pt b_pd b_last b_line] in m in
    change m with m'
  end;
  match goal with
  | |- context [finish_attribute xml_flavour (mkmach (mkcfg ?s ?rc ?cu ?il ?bom ?tmp ?tk ?tn ?ts ?td ?ta ?an ?av ?co ?dn ?dp ?ds ?dq ?pt ?pd ?ls ?cr ?ln) ?q ?o ?k)] =>
    let E := fresh "E" in
    destruct (finish_attribute_eq s rc cu il bom tmp tk tn ts td ta an av co dn dp ds dq pt pd ls cr ln q o k) as (o1 & E & T1);
    rewrite E; clear E
  end.

(* ---- the states of a start tag, one character at a time *)
Lemma tagname_char : forall b cu tk tn ta an av c q o k, tag_rest c = true -> exists o' k',
  xsteps (mkM b XTagName false cu false None tk tn ta an av (c :: q) o k)
         (mkM b XTagName false c false None tk (tn ++ [c]) ta an av q o' k') /\
  otoks o' = char_errs c ++ otoks o.
Proof. intros b cu tk tn ta an av c q o k H. unfold tag_rest in H. cls H. rd. Qed.

Lemma tagname_chars : forall cs b cu tk tn ta an av q o k, forallb tag_rest cs = true -> exists cu' o' k',
  xsteps (mkM b XTagName false cu false None tk tn ta an av (cs ++ q) o k)
         (mkM b XTagName false cu' false None tk (tn ++ cs) ta an av q o' k') /\
  otoks o' = rev (bad_errs cs) ++ otoks o.
Proof.
  induction cs as [|c cs IH]; intros b cu tk tn ta an av q o k H.
  - exists cu, o, k. rewrite app_nil_r. split; [apply xs_refl|reflexivity].
  - simpl in H. apply andb_true_iff in H. destruct H as [H1 H2].
    destruct (tagname_char b cu tk tn ta an av c (cs ++ q) o k H1) as (o1 & k1 & S1 & T1).
    destruct (IH b c tk (tn ++ [c]) ta an av q o1 k1 H2) as (cu2 & o2 & k2 & S2 & T2).
    exists cu2, o2, k2. rewrite <- app_assoc in S2. split; [eapply xsteps_trans; [exact S1|exact S2]|].
    rewrite T2, T1, rev_bad_cons. reflexivity.
Qed.

Lemma tagname_space : forall b cu tk tn ta an av q o k, exists k',
  xsteps (mkM b XTagName false cu false None tk tn ta an av (32 :: q) o k)
         (mkM b XTagAttrNameBefore false 32 false None tk tn ta an av q o k').
Proof. intros. eexists. one. fin. Qed.

Lemma anb_space : forall b cu tk tn ta an av q o k, exists k',
  xsteps (mkM b XTagAttrNameBefore false cu false None tk tn ta an av (32 :: q) o k)
         (mkM b XTagAttrNameBefore false 32 false None tk tn ta an av q o k').
Proof. intros. eexists. one. fin. Qed.

(* the first character of an attribute name: the pending attribute is finished *)
Lemma anb_first : forall b cu tk tn ta an av c q o k, an_first c = true -> exists o' k',
  xsteps (mkM b XTagAttrNameBefore false cu false None tk tn ta an av (c :: q) o k)
         (mkM b XTagAttrName false c false None tk tn (fa_ta ta an av) [c] (fa_av an av) q o' k') /\
  otoks o' = fa_errs ta an ++ char_errs c ++ otoks o.
Proof.
  intros b cu tk tn ta an av c q o k H. unfold an_first in H. cls H.
  assert (X : exists o' k', xstep (mkM b XTagAttrNameBefore false cu false None tk tn ta an av (c :: q) o k) =
            (mkM b XTagAttrName false c false None tk tn (fa_ta ta an av) [c] (fa_av an av) q o' k', SContinue) /\
            otoks o' = fa_errs ta an ++ char_errs c ++ otoks o).
  { unfold char_errs. destruct (bad_char c) eqn:BC.
    all: unfold XLexBase.xstep, step, mkM; cbn [mc cref st]; bodies.
    all: cbn -[bad_char N.eqb N.add memb finish_attribute]; unfold CR, LF, REPL;
      repeat (rw_all; cbn -[bad_char N.eqb N.add memb finish_attribute]).
    all: fa o1 T1; cbn -[N.add]; do 2 eexists; (split; [reflexivity|exact T1]). }
  destruct X as (o' & k' & X & T). exists o', k'. split; auto. apply xsteps_one. exact X.
Qed.

Lemma aname_char : forall b cu tk tn ta an av c q o k, an_rest c = true -> exists o' k',
  xsteps (mkM b XTagAttrName false cu false None tk tn ta an av (c :: q) o k)
         (mkM b XTagAttrName false c false None tk tn ta (an ++ [c]) av q o' k') /\
  otoks o' = char_errs c ++ otoks o.
Proof. intros b cu tk tn ta an av c q o k H. unfold an_rest in H. cls H. rd. Qed.

Lemma aname_chars : forall cs b cu tk tn ta an av q o k, forallb an_rest cs = true -> exists cu' o' k',
  xsteps (mkM b XTagAttrName false cu false None tk tn ta an av (cs ++ q) o k)
         (mkM b XTagAttrName false cu' false None tk tn ta (an ++ cs) av q o' k') /\
  otoks o' = rev (bad_errs cs) ++ otoks o.
Proof.
  induction cs as [|c cs IH]; intros b cu tk tn ta an av q o k H.
  - exists cu, o, k. rewrite app_nil_r. split; [apply xs_refl|reflexivity].
  - simpl in H. apply andb_true_iff in H. destruct H as [H1 H2].
    destruct (aname_char b cu tk tn ta an av c (cs ++ q) o k H1) as (o1 & k1 & S1 & T1).
    destruct (IH b c tk tn ta (an ++ [c]) av q o1 k1 H2) as (cu2 & o2 & k2 & S2 & T2).
    exists cu2, o2, k2. rewrite <- app_assoc in S2. split; [eapply xsteps_trans; [exact S1|exact S2]|].
    rewrite T2, T1, rev_bad_cons. reflexivity.
Qed.

(* the equals sign and the opening quotation mark *)
Lemma aname_eq_quote : forall b cu tk tn ta an av q o k, exists k',
  xsteps (mkM b XTagAttrName false cu false None tk tn ta an av (61 :: 34 :: q) o k)
         (mkM b (XTagAttrValue KDoubleQuoted) false 34 false None tk tn ta an av q o k').
Proof. intros. eexists. one. one. fin. Qed.

(* '>' after the last attribute, or directly after the name: the tag is emitted *)
Lemma gt_emits : forall s, (s = XTagAttrNameBefore \/ s = XTagName) ->
  forall b cu tn ta an av q o k, exists o' k',
  xsteps (mkM b s false cu false None TStartTag tn ta an av (62 :: q) o k)
         (mkM b XData false 62 false None TStartTag [] [] [] (fa_av an av) q o' k') /\
  otoks o' = TTag TStartTag tn false (fa_ta ta an av) false :: fa_errs ta an ++ otoks o.
Proof.
  intros s Hs b cu tn ta an av q o k.
  assert (X : exists o' k', xstep (mkM b s false cu false None TStartTag tn ta an av (62 :: q) o k) =
            (mkM b XData false 62 false None TStartTag [] [] [] (fa_av an av) q o' k', SContinue) /\
            otoks o' = TTag TStartTag tn false (fa_ta ta an av) false :: fa_errs ta an ++ otoks o).
  { destruct Hs; subst s; unfold XLexBase.xstep, step, mkM; cbn [mc cref st]; bodies;
      cbn -[N.add finish_attribute]; fa o1 T1; cbn -[N.add];
      do 2 eexists; (split; [reflexivity|]); simpl; f_equal; exact T1. }
  destruct X as (o' & k' & X & T). exists o', k'. split; auto. apply xsteps_one. exact X.
Qed.


(* ---- names *)
Definition tag_name_ok (n : list N) : bool :=
  match n with [] => false | c :: r => tag_first c && forallb tag_rest r end.
Definition attr_name_ok (n : list N) : bool :=
  match n with [] => false | c :: r => an_first c && forallb an_rest r end.
Definition etag_name_ok (n : list N) : bool :=
  match n with [] => false | c :: r => etag_first c && forallb etag_rest r end.
Definition raw_ok (nv : list N * list N) : bool := attr_name_ok (fst nv) && no_nul (snd nv).

(* an attribute as the serializer writes it: space, name, equals sign, quoted escaped value *)
Definition render_raw (nv : list N * list N) : list N :=
  [32] ++ fst nv ++ [61; 34] ++ escape true (snd nv) ++ [34].

(* the attribute list of the tag under construction: [ta] finished attributes, (an, av) the pending one *)
Fixpoint pend (ta : list (str * str)) (an av : str) (l : list (str * str)) : list (str * str) * str * str :=
  match l with
  | [] => (ta, an, av)
  | (n, v) :: r => pend (fa_ta ta an av) n v r
  end.
(* the parse errors on the way, oldest first: reported characters of the names, duplicate attributes (found when
   the next name begins, after its first character has been read), reported characters of the values *)
Definition an_errs (ta : list (str * str)) (an : str) (n : str) : list token :=
  match n with [] => fa_errs ta an | c :: r => char_errs c ++ fa_errs ta an ++ bad_errs r end.
Fixpoint pend_errs (ta : list (str * str)) (an av : str) (l : list (str * str)) : list token :=
  match l with
  | [] => []
  | (n, v) :: r => an_errs ta an n ++ err_toks v ++ pend_errs (fa_ta ta an av) n v r
  end.

(* after the separating space: name="value" *)
Lemma attr_after_space : forall n v b cu tn ta an av rest o k,
  fa_av an av = [] -> raw_ok (n, v) = true ->
  exists cu' o' k',
    xsteps (mkM b XTagAttrNameBefore false cu false None TStartTag tn ta an av
                (n ++ [61; 34] ++ escape true v ++ [34] ++ rest) o k)
           (mkM b XTagAttrNameBefore false cu' false None TStartTag tn (fa_ta ta an av) n v rest o' k') /\
    otoks o' = rev (an_errs ta an n ++ err_toks v) ++ otoks o.
Proof.
  intros n v b cu tn ta an av rest o k PA OK. unfold raw_ok in OK. simpl in OK.
  apply andb_true_iff in OK. destruct OK as [NO VN].
  destruct n as [|c r]; [discriminate|]. simpl in NO. apply andb_true_iff in NO. destruct NO as [N1 N2].
  destruct (anb_first b cu TStartTag tn ta an av c (r ++ [61; 34] ++ escape true v ++ [34] ++ rest) o k N1)
    as (o1 & k1 & S1 & T1). rewrite PA in S1.
  destruct (aname_chars r b c TStartTag tn (fa_ta ta an av) [c] [] ([61; 34] ++ escape true v ++ [34] ++ rest) o1 k1 N2)
    as (cu2 & o2 & k2 & S2 & T2).
  destruct (aname_eq_quote b cu2 TStartTag tn (fa_ta ta an av) ([c] ++ r) [] (escape true v ++ [34] ++ rest) o2 k2)
    as (k3 & S3).
  destruct (attr_value_lex tb TB simd ent c1 sk E5 v b 34 TStartTag tn (fa_ta ta an av) ([c] ++ r) [] rest o2 k3 VN)
    as (cu4 & o4 & k4 & S4 & T4).
  destruct (attr_quote tb TB simd ent c1 sk b cu4 TStartTag tn (fa_ta ta an av) ([c] ++ r) ([] ++ v) rest o4 k4) as (k5 & S5).
  exists 34, o4, k5. split.
  - simpl app in *. eapply xsteps_trans; [exact S1|]. eapply xsteps_trans; [exact S2|].
    eapply xsteps_trans; [exact S3|]. eapply xsteps_trans; [exact S4|exact S5].
  - rewrite T4, T2, T1. cbn [an_errs]. rewrite !rev_app_distr, <- !app_assoc. f_equal. f_equal.
    unfold fa_errs, char_errs. destruct (fa_dup ta an), (bad_char c); reflexivity.
Qed.

Lemma attrs_loop : forall l b cu tn ta an av rest o k,
  fa_av an av = [] -> forallb raw_ok l = true ->
  exists cu' o' k',
    xsteps (mkM b XTagAttrNameBefore false cu false None TStartTag tn ta an av (flat_map render_raw l ++ rest) o k)
           (mkM b XTagAttrNameBefore false cu' false None TStartTag tn
                (fst (fst (pend ta an av l))) (snd (fst (pend ta an av l))) (snd (pend ta an av l)) rest o' k') /\
    otoks o' = rev (pend_errs ta an av l) ++ otoks o /\
    fa_av (snd (fst (pend ta an av l))) (snd (pend ta an av l)) = [].
Proof.
  induction l as [|[n v] l IH]; intros b cu tn ta an av rest o k PA OK.
  - exists cu, o, k. simpl. split; [apply xs_refl|auto].
  - simpl in OK. apply andb_true_iff in OK. destruct OK as [OK1 OK2].
    cbn [flat_map]. unfold render_raw at 1. cbn [fst snd]. rewrite <- !app_assoc.
    destruct (anb_space b cu TStartTag tn ta an av
                (n ++ [61; 34] ++ escape true v ++ [34] ++ flat_map render_raw l ++ rest) o k) as (k1 & S1).
    destruct (attr_after_space n v b 32 tn ta an av (flat_map render_raw l ++ rest) o k1 PA OK1)
      as (cu2 & o2 & k2 & S2 & T2).
    assert (PA' : fa_av n v = []).
    { unfold raw_ok in OK1. simpl in OK1. destruct n; [discriminate|reflexivity]. }
    destruct (IH b cu2 tn (fa_ta ta an av) n v rest o2 k2 PA' OK2) as (cu3 & o3 & k3 & S3 & T3 & P3).
    exists cu3, o3, k3. cbn [pend pend_errs]. split; [|split; auto].
    + simpl app. eapply xsteps_trans; [exact S1|]. eapply xsteps_trans; [exact S2|exact S3].
    + rewrite T3, T2. rewrite !rev_app_distr. rewrite <- !app_assoc. reflexivity.
Qed.

(* the attribute list a start tag token carries, and the parse errors before it *)
Definition tag_attrs_of (l : list (str * str)) : list (str * str) :=
  let '(ta, an, av) := pend [] [] [] l in fa_ta ta an av.
Definition tag_errs_of (nm : str) (l : list (str * str)) : list token :=
  bad_errs nm ++ (let '(ta, an, av) := pend [] [] [] l in pend_errs [] [] [] l ++ fa_errs ta an).

(* (c) a whole start tag *)
Theorem start_tag_lex : forall nm l b cu tk tn ta rest o k,
  tag_name_ok nm = true -> forallb raw_ok l = true ->
  exists o' k',
    xsteps (mkM b XData false cu false None tk tn ta [] []
                ([60] ++ nm ++ flat_map render_raw l ++ [62] ++ rest) o k)
           (mkM b XData false 62 false None TStartTag [] [] [] [] rest o' k') /\
    otoks o' = TTag TStartTag nm false (tag_attrs_of l) false :: rev (tag_errs_of nm l) ++ otoks o.
Proof.
  intros nm l b cu tk tn ta rest o k NO LO.
  destruct nm as [|c r]; [discriminate|]. simpl in NO. apply andb_true_iff in NO. destruct NO as [N1 N2].
  unfold tag_attrs_of, tag_errs_of.
  destruct l as [|[n v] l].
  - (* no attributes: '>' directly after the name *)
    set (Q1 := 62 :: rest).
    destruct (data_lt tb TB simd ent c1 sk b cu tk tn ta [] [] (c :: r ++ Q1) o k) as (k1 & S1).
    destruct (tagstate_first b 60 tk tn ta [] [] c (r ++ Q1) o k1 N1) as (o2 & k2 & S2 & T2).
    destruct (tagname_chars r b c TStartTag [c] [] [] [] Q1 o2 k2 N2) as (cu3 & o3 & k3 & S3 & T3).
    destruct (gt_emits XTagName (or_intror eq_refl) b cu3 ([c] ++ r) [] [] [] rest o3 k3) as (o4 & k4 & S4 & T4).
    exists o4, k4. split.
    + change ([60] ++ (c :: r) ++ flat_map render_raw [] ++ [62] ++ rest) with (60 :: c :: r ++ Q1).
      eapply xsteps_trans; [exact S1|]. eapply xsteps_trans; [exact S2|].
      eapply xsteps_trans; [exact S3|exact S4].
    + rewrite T4, T3, T2. cbn [pend pend_errs fa_errs fa_dup negb andb app]. rewrite app_nil_r, rev_bad_cons. reflexivity.
  - simpl in LO. apply andb_true_iff in LO. destruct LO as [LO1 LO2].
    set (Q3 := flat_map render_raw l ++ [62] ++ rest).
    set (Q2 := n ++ [61; 34] ++ escape true v ++ [34] ++ Q3).
    set (Q1 := 32 :: Q2).
    assert (EQ : [60] ++ (c :: r) ++ flat_map render_raw ((n, v) :: l) ++ [62] ++ rest = 60 :: c :: r ++ Q1).
    { unfold Q1, Q2, Q3. cbn [flat_map]. unfold render_raw at 1. cbn [fst snd]. rewrite <- !app_assoc. reflexivity. }
    rewrite EQ. clear EQ.
    destruct (data_lt tb TB simd ent c1 sk b cu tk tn ta [] [] (c :: r ++ Q1) o k) as (k1 & S1).
    destruct (tagstate_first b 60 tk tn ta [] [] c (r ++ Q1) o k1 N1) as (o2 & k2 & S2 & T2).
    destruct (tagname_chars r b c TStartTag [c] [] [] [] Q1 o2 k2 N2) as (cu3 & o3 & k3 & S3 & T3).
    destruct (tagname_space b cu3 TStartTag ([c] ++ r) [] [] [] Q2 o3 k3) as (k4 & S4).
    destruct (attr_after_space n v b 32 ([c] ++ r) [] [] [] Q3 o3 k4 eq_refl LO1)
      as (cu5 & o5 & k5 & S5 & T5).
    assert (PA' : fa_av n v = []).
    { unfold raw_ok in LO1. simpl in LO1. destruct n; [discriminate|reflexivity]. }
    destruct (attrs_loop l b cu5 ([c] ++ r) (fa_ta [] [] []) n v ([62] ++ rest) o5 k5 PA' LO2)
      as (cu6 & o6 & k6 & S6 & T6 & P6).
    cbn [pend pend_errs].
    destruct (pend (fa_ta [] [] []) n v l) as [[ta' an'] av'] eqn:PE. cbn [fst snd] in *.
    destruct (gt_emits XTagAttrNameBefore (or_introl eq_refl) b cu6 ([c] ++ r) ta' an' av' rest o6 k6)
      as (o7 & k7 & S7 & T7). rewrite P6 in S7.
    exists o7, k7. split.
    + eapply xsteps_trans; [exact S1|]. eapply xsteps_trans; [exact S2|]. eapply xsteps_trans; [exact S3|].
      eapply xsteps_trans; [exact S4|]. eapply xsteps_trans; [exact S5|]. eapply xsteps_trans; [exact S6|exact S7].
    + rewrite T7, T6, T5, T3, T2. f_equal.
      rewrite !rev_app_distr. rewrite <- !app_assoc.
      assert (RE : rev (fa_errs ta' an') = fa_errs ta' an') by (unfold fa_errs; destruct (fa_dup ta' an'); reflexivity).
      rewrite RE. do 3 f_equal. rewrite <- (rev_bad_cons c r (otoks o)). reflexivity.
Qed.


(* ---- end tags.  The scripted sink of the interpreter may answer an end tag with a script request,
   which suspends the loop; a sink without such answers is assumed here. *)
Hypothesis NoScript : sk_resp sk = [].

Lemma tagstate_slash : forall b cu tk tn ta an av q o k, exists k',
  xsteps (mkM b XTagState false cu false None tk tn ta an av (47 :: q) o k)
         (mkM b XEndTagState false 47 false None tk tn ta an av q o k').
Proof. intros. eexists. one. fin. Qed.

Lemma etag_first_step : forall b cu tk tn ta an av c q o k, etag_first c = true -> exists o' k',
  xsteps (mkM b XEndTagState false cu false None tk tn ta an av (c :: q) o k)
         (mkM b XEndTagName false c false None TEndTag [c] [] an av q o' k') /\
  otoks o' = char_errs c ++ otoks o.
Proof. intros b cu tk tn ta an av c q o k H. unfold etag_first in H. cls H. rd. Qed.

Lemma etagname_char : forall b cu tk tn ta an av c q o k, etag_rest c = true -> exists o' k',
  xsteps (mkM b XEndTagName false cu false None tk tn ta an av (c :: q) o k)
         (mkM b XEndTagName false c false None tk (tn ++ [c]) ta an av q o' k') /\
  otoks o' = char_errs c ++ otoks o.
Proof. intros b cu tk tn ta an av c q o k H. unfold etag_rest in H. cls H. rd. Qed.

Lemma etagname_chars : forall cs b cu tk tn ta an av q o k, forallb etag_rest cs = true -> exists cu' o' k',
  xsteps (mkM b XEndTagName false cu false None tk tn ta an av (cs ++ q) o k)
         (mkM b XEndTagName false cu' false None tk (tn ++ cs) ta an av q o' k') /\
  otoks o' = rev (bad_errs cs) ++ otoks o.
Proof.
  induction cs as [|c cs IH]; intros b cu tk tn ta an av q o k H.
  - exists cu, o, k. rewrite app_nil_r. split; [apply xs_refl|reflexivity].
  - simpl in H. apply andb_true_iff in H. destruct H as [H1 H2].
    destruct (etagname_char b cu tk tn ta an av c (cs ++ q) o k H1) as (o1 & k1 & S1 & T1).
    destruct (IH b c tk (tn ++ [c]) ta an av q o1 k1 H2) as (cu2 & o2 & k2 & S2 & T2).
    exists cu2, o2, k2. rewrite <- app_assoc in S2. split; [eapply xsteps_trans; [exact S1|exact S2]|].
    rewrite T2, T1, rev_bad_cons. reflexivity.
Qed.

Lemma etag_gt : forall b cu tn q o k, exists o' k',
  xsteps (mkM b XEndTagName false cu false None TEndTag tn [] [] [] (62 :: q) o k)
         (mkM b XData false 62 false None TEndTag [] [] [] [] q o' k') /\
  otoks o' = TTag TEndTag tn false [] false :: otoks o.
Proof.
  intros. do 2 eexists. split.
  - eapply xs_step; [unfold XLexBase.xstep, step, mkM; cbn [mc cref st]; bodies; cbn -[N.add]; rewrite NoScript; cbn -[N.add]; reflexivity|]. fin.
  - reflexivity.
Qed.

(* </name> *)
Theorem end_tag_lex : forall nm b cu tk tn ta rest o k, etag_name_ok nm = true ->
  exists o' k',
    xsteps (mkM b XData false cu false None tk tn ta [] [] ([60; 47] ++ nm ++ [62] ++ rest) o k)
           (mkM b XData false 62 false None TEndTag [] [] [] [] rest o' k') /\
    otoks o' = TTag TEndTag nm false [] false :: rev (bad_errs nm) ++ otoks o.
Proof.
  intros nm b cu tk tn ta rest o k NO.
  destruct nm as [|c r]; [discriminate|]. simpl in NO. apply andb_true_iff in NO. destruct NO as [N1 N2].
  set (Q1 := 62 :: rest).
  destruct (data_lt tb TB simd ent c1 sk b cu tk tn ta [] [] (47 :: c :: r ++ Q1) o k) as (k1 & S1).
  destruct (tagstate_slash b 60 tk tn ta [] [] (c :: r ++ Q1) o k1) as (k2 & S2).
  destruct (etag_first_step b 47 tk tn ta [] [] c (r ++ Q1) o k2 N1) as (o3 & k3 & S3 & T3).
  destruct (etagname_chars r b c TEndTag [c] [] [] [] Q1 o3 k3 N2) as (cu4 & o4 & k4 & S4 & T4).
  destruct (etag_gt b cu4 ([c] ++ r) rest o4 k4) as (o5 & k5 & S5 & T5).
  exists o5, k5. split; [|rewrite T5, T4, T3, rev_bad_cons; reflexivity].
  change ([60; 47] ++ (c :: r) ++ [62] ++ rest) with (60 :: 47 :: c :: r ++ Q1).
  eapply xsteps_trans; [exact S1|]. eapply xsteps_trans; [exact S2|]. eapply xsteps_trans; [exact S3|].
  eapply xsteps_trans; [exact S4|exact S5].
Qed.

End L.
