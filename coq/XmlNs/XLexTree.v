(* C17: serializer model, then the TokIR interpreter, then the tree builder model - the tree is rebuilt.
   The tokens the interpreter delivers are handed to the tree builder model the way the Rust tokenizer
   hands them to its sink ([conv_tok]); they differ from the tokens of the token-level round trip
   (XRoundTrip) by parse-error tokens, by the cutting of character data into one token per character
   (XSplit) and by the ghost source of tag tokens (XUnsrc). *)
From Coq Require Import List NArith Bool Lia.
From HV Require Import TokIR.IR TokIR.Interp XmlNs.XLexBase XmlNs.XLex XmlNs.XLexTag XmlNs.XLexMisc XmlNs.XLexSer XmlNs.XLexDoc.
From HV Require XmlNs.XTreeModel XmlNs.XSerModel XmlNs.XSerSpec XmlNs.XRoundTrip XmlNs.XSplit XmlNs.XUnsrc.
Import ListNotations.
Local Open Scope N_scope.

(* process_token of the tree builder on a token of the tokenizer: a parse error goes to the sink's error
   log, a tag carries its qualified names (emit_current_tag: process_qname on the tag name and on the
   attribute names); the ghost source is the raw tag as the tokenizer holds it *)
Definition conv_tok (t : token) : list TM.token :=
  match t with
  | TTag k n _ attrs _ => [TM.TTag (conv_kind k) (TM.process_qname n) (map conv_attr attrs) (n, attrs)]
  | TChars s => [TM.TChars s]
  | TComment s => [TM.TComment s]
  | TPi t d => [TM.TPi t d]
  | TDoctype n p s _ => [TM.TDoctype n p s]
  | TNull => [TM.TNull]
  | TEof => [TM.TEof]
  | TError => []
  end.
Definition conv_toks (l : list token) : list TM.token := flat_map conv_tok l.

Definition is_err (t : token) : bool := match t with TError => true | _ => false end.
Lemma errs_conv : forall l, forallb is_err l = true -> conv_toks l = [].
Proof. induction l as [|[] l IH]; simpl; intro H; try discriminate; auto. Qed.
Lemma forallb_app' : forall A (p : A -> bool) a b, forallb p a = true -> forallb p b = true -> forallb p (a ++ b) = true.
Proof. intros. rewrite forallb_app. apply andb_true_iff. auto. Qed.
Lemma fa_errs_err : forall ta an, forallb is_err (fa_errs ta an) = true.
Proof. intros. unfold fa_errs. destruct (fa_dup ta an); reflexivity. Qed.
Lemma err_toks_err : forall v, forallb is_err (err_toks v) = true.
Proof. induction v as [|c v IH]; simpl; auto. destruct (reported c); simpl; auto. Qed.
Lemma char_errs_err : forall c, forallb is_err (char_errs c) = true.
Proof. intro c. unfold char_errs. destruct (bad_char c); reflexivity. Qed.
Lemma bad_errs_err : forall s, forallb is_err (bad_errs s) = true.
Proof. induction s as [|c s IH]; simpl; auto. apply forallb_app'; [apply char_errs_err|exact IH]. Qed.
Lemma an_errs_err : forall ta an n, forallb is_err (an_errs ta an n) = true.
Proof.
  intros ta an [|c r]; simpl; [apply fa_errs_err|].
  apply forallb_app'; [apply char_errs_err|apply forallb_app'; [apply fa_errs_err|apply bad_errs_err]].
Qed.
Lemma pend_errs_err : forall l ta an av, forallb is_err (pend_errs ta an av l) = true.
Proof.
  induction l as [|[n v] l IH]; intros; simpl; auto.
  apply forallb_app'; [apply an_errs_err|apply forallb_app'; [apply err_toks_err|apply IH]].
Qed.
Lemma tag_errs_err : forall nm l, forallb is_err (tag_errs_of nm l) = true.
Proof.
  intros nm l. unfold tag_errs_of. apply forallb_app'; [apply bad_errs_err|].
  destruct (pend [] [] [] l) as [[ta an] av].
  apply forallb_app'; [apply pend_errs_err|apply fa_errs_err].
Qed.

Lemma cm_errs_err : forall s m B, forallb is_err (cm_errs m B s) = true.
Proof.
  induction s as [|c s IH]; intros m B; simpl.
  - destruct m; reflexivity.
  - destruct (cm_next m B c) as [[[m1 B1] e]|]; [|reflexivity].
    apply forallb_app'; [unfold char_errs; destruct (bad_char c); reflexivity|].
    apply forallb_app'; [destruct e; reflexivity|apply IH].
Qed.

Lemma conv_toks_app : forall a b, conv_toks (a ++ b) = conv_toks a ++ conv_toks b.
Proof. intros. unfold conv_toks. apply flat_map_app. Qed.

Lemma exp_text_conv : forall s, conv_toks (exp_text s) = map (fun c => TM.TChars [c]) s.
Proof.
  induction s as [|c s IH]; [reflexivity|]. unfold exp_text in *. simpl. rewrite conv_toks_app, IH.
  unfold exp_char. rewrite conv_toks_app. destruct (reported c); reflexivity.
Qed.

(* a nonempty text cut into one token per character *)
Lemma splits_chars : forall s l l', s <> [] -> XSplit.splits l l' ->
  XSplit.splits (TM.TChars s :: l) (map (fun c => TM.TChars [c]) s ++ l').
Proof.
  induction s as [|c s IH]; intros l l' NE H; [congruence|].
  destruct s as [|d s].
  - simpl. apply XSplit.sp_same. exact H.
  - change (c :: d :: s) with ([c] ++ (d :: s)). rewrite map_app, <- app_assoc.
    apply (XSplit.sp_cut [c] (d :: s)). apply IH; [discriminate|exact H].
Qed.

(* the text condition of the composition: no U+0000 (escape reversibility) and not empty (an empty text
   node writes nothing) *)
Definition item_ok2 (i : SM.item) : bool :=
  item_ok i && match i with SM.IText s => negb (TM.is_nil s) | _ => true end.

Definition toks (items : list SM.item) : list TM.token := map (fun i => TM.tokenize (SM.item_rtoken i)) items.

Lemma glue : forall items tl tl', forallb item_ok2 items = true ->
  XSplit.splits (map XUnsrc.unsrc_tok tl) (map XUnsrc.unsrc_tok tl') ->
  XSplit.splits (map XUnsrc.unsrc_tok (toks items ++ tl))
                (map XUnsrc.unsrc_tok (conv_toks (flat_map lex_item items) ++ tl')).
Proof.
  induction items as [|i r IH]; intros tl tl' OK H; [exact H|].
  simpl in OK. apply andb_true_iff in OK. destruct OK as [O1 O2]. specialize (IH tl tl' O2 H).
  unfold item_ok2 in O1. apply andb_true_iff in O1. destruct O1 as [O1 O1'].
  cbn [flat_map toks map]. fold (toks r). rewrite conv_toks_app, <- !app_assoc, !map_app. rewrite !map_app in IH.
  destruct i as [nm d a|nm|s|s|t dd|n]; cbn [lex_item SM.item_rtoken TM.tokenize].
  - rewrite conv_toks_app, (errs_conv _ (tag_errs_err _ _)). cbn [app conv_toks flat_map conv_tok map XUnsrc.unsrc_tok].
    simpl in O1. apply andb_true_iff in O1. destruct O1 as [_ LO].
    fold (XRoundTrip.item_raws d a). rewrite tag_attrs_same.
    + cbn [conv_kind]. apply XSplit.sp_same. exact IH.
    + apply forallb_forall. intros nv I. rewrite forallb_forall in LO. specialize (LO nv I).
      unfold raw_ok in LO. apply andb_true_iff in LO. destruct LO as [LO _].
      destruct nv as [n v]. simpl in *. destruct n; [discriminate LO|reflexivity].
  - rewrite conv_toks_app, (errs_conv _ (bad_errs_err _)).
    cbn [app conv_toks flat_map conv_tok map XUnsrc.unsrc_tok conv_kind]. apply XSplit.sp_same. exact IH.
  - rewrite exp_text_conv.
    assert (E : map XUnsrc.unsrc_tok (map (fun c => TM.TChars [c]) s) = map (fun c => TM.TChars [c]) s).
    { rewrite map_map. reflexivity. }
    rewrite E. cbn [map app XUnsrc.unsrc_tok]. apply splits_chars; [|exact IH].
    destruct s; [discriminate O1'|discriminate].
  - unfold comment_toks. rewrite conv_toks_app, (errs_conv _ (cm_errs_err _ _ _)).
    cbn [app conv_toks flat_map conv_tok map XUnsrc.unsrc_tok]. apply XSplit.sp_same. exact IH.
  - unfold pi_toks. rewrite !conv_toks_app, !(errs_conv _ (bad_errs_err _)).
    cbn [app conv_toks flat_map conv_tok map XUnsrc.unsrc_tok]. apply XSplit.sp_same. exact IH.
  - unfold doctype_toks. destruct n as [|n0 nr].
    + cbn [app conv_toks flat_map conv_tok map XUnsrc.unsrc_tok TM.ostr]. apply XSplit.sp_same. exact IH.
    + rewrite conv_toks_app, (errs_conv _ (bad_errs_err _)).
      cbn [app conv_toks flat_map conv_tok map XUnsrc.unsrc_tok]. apply XSplit.sp_same. exact IH.
Qed.

Lemma splits_refl : forall l, XSplit.splits l l.
Proof. induction l; constructor; auto. Qed.

Lemma unsrc_idem : forall l, map XUnsrc.unsrc_tok (map XUnsrc.unsrc_tok l) = map XUnsrc.unsrc_tok l.
Proof. intro l. rewrite map_map. apply map_ext. intros []; reflexivity. Qed.

(* what the interpreter delivers for the items builds the tree the items' own tokens build *)
Theorem lexed_tree : forall items, forallb item_ok2 items = true ->
  map TM.erase (TM.parse_tokens (conv_toks (flat_map lex_item items ++ [TEof]))) =
  map TM.erase (TM.parse_raw (map SM.item_rtoken items ++ [TM.REof])).
Proof.
  intros items OK. unfold TM.parse_raw. rewrite map_app, map_map. fold (toks items).
  rewrite conv_toks_app. change (conv_toks [TEof]) with [TM.TEof]. change (map TM.tokenize [TM.REof]) with [TM.TEof].
  pose proof (glue items [TM.TEof] [TM.TEof] OK (splits_refl _)) as G.
  destruct (XSplit.splits_parse _ _ G) as [P _].
  rewrite (XUnsrc.unsrc_parse (conv_toks (flat_map lex_item items) ++ [TM.TEof])
                              (map XUnsrc.unsrc_tok (conv_toks (flat_map lex_item items) ++ [TM.TEof])))
    by (rewrite unsrc_idem; reflexivity).
  rewrite (XUnsrc.unsrc_parse (toks items ++ [TM.TEof]) (map XUnsrc.unsrc_tok (toks items ++ [TM.TEof])))
    by (rewrite unsrc_idem; reflexivity).
  rewrite P. reflexivity.
Qed.
