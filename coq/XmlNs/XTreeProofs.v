(* C16: proofs about the tree builder model. *)
From Coq Require Import List NArith Bool Lia Arith.
From HV Require Import XmlNs.XTreeModel XmlNs.XTreeSpec.
Import ListNotations.
Local Open Scope N_scope.

(* ------------------------------------------------------------ strings *)

Lemma str_eqb_eq : forall a b, str_eqb a b = true <-> a = b.
Proof.
  induction a as [|x a IH]; destruct b as [|y b]; simpl; split; intro H; try congruence; try discriminate.
  - apply andb_true_iff in H. destruct H as [H1 H2]. apply N.eqb_eq in H1. apply IH in H2. congruence.
  - inversion H; subst. rewrite N.eqb_refl. simpl. apply IH. reflexivity.
Qed.

Lemma str_eqb_refl : forall a, str_eqb a a = true.
Proof. intro a. apply str_eqb_eq. reflexivity. Qed.

Lemma str_eqb_neq : forall a b, str_eqb a b = false <-> a <> b.
Proof.
  intros a b. split; intro H.
  - intro E. apply str_eqb_eq in E. congruence.
  - destruct (str_eqb a b) eqn:E; auto. apply str_eqb_eq in E. contradiction.
Qed.

Lemma str_eqb_sym : forall a b, str_eqb a b = str_eqb b a.
Proof.
  intros a b. destruct (str_eqb a b) eqn:E.
  - apply str_eqb_eq in E. subst. symmetry. apply str_eqb_refl.
  - symmetry. apply str_eqb_neq. apply str_eqb_neq in E. congruence.
Qed.

Lemma ostr_eqb_eq : forall a b, ostr_eqb a b = true <-> a = b.
Proof.
  destruct a, b; simpl; split; intro H; try congruence; try discriminate.
  - apply str_eqb_eq in H. congruence.
  - inversion H. apply str_eqb_refl.
Qed.

Lemma ostr_eqb_refl : forall a, ostr_eqb a a = true.
Proof. intro. apply ostr_eqb_eq. reflexivity. Qed.

Lemma ostr_eqb_neq : forall a b, ostr_eqb a b = false <-> a <> b.
Proof.
  intros a b. split; intro H.
  - intro E. apply ostr_eqb_eq in E. congruence.
  - destruct (ostr_eqb a b) eqn:E; auto. apply ostr_eqb_eq in E. contradiction.
Qed.

Lemma ostr_eqb_sym : forall a b, ostr_eqb a b = ostr_eqb b a.
Proof.
  intros a b. destruct (ostr_eqb a b) eqn:E.
  - apply ostr_eqb_eq in E. subst. symmetry. apply ostr_eqb_refl.
  - symmetry. apply ostr_eqb_neq. apply ostr_eqb_neq in E. congruence.
Qed.

(* ------------------------------------------------ QualNameTokenizer = split *)

Lemma q_after_colon_spec : forall l v,
  q_after_colon l v = if nocolon l then Some v else None.
Proof.
  induction l as [|c l IH]; intro v; simpl; auto.
  destruct (c =? colon); simpl; auto.
Qed.

Lemma q_in_name_spec : forall s cur,
  q_in_name s cur =
  match cut_at_colon s with
  | Some (p, l) => if negb (is_nil l) && nocolon l then Some (cur + length p)%nat else None
  | None => None
  end.
Proof.
  induction s as [|c r IH]; intro cur; simpl; auto.
  destruct (c =? colon) eqn:E; simpl.
  - destruct r as [|d r']; simpl.
    + reflexivity.
    + rewrite q_after_colon_spec. simpl. rewrite Nat.add_0_r.
      destruct (d =? colon); reflexivity.
  - rewrite IH. destruct (cut_at_colon r) as [[p l]|]; auto.
    simpl. replace (cur + S (length p))%nat with (S (cur + length p)) by lia. reflexivity.
Qed.

Lemma cut_at_colon_app : forall s p l, cut_at_colon s = Some (p, l) -> s = p ++ colon :: l.
Proof.
  induction s as [|c r IH]; intros p l H; simpl in H; try discriminate.
  destruct (c =? colon) eqn:E.
  - inversion H; subst. apply N.eqb_eq in E. subst. reflexivity.
  - destruct (cut_at_colon r) as [[p' l']|]; try discriminate.
    inversion H; subst. simpl. f_equal. apply IH. reflexivity.
Qed.

Lemma byte_len_ge : forall s, (N.of_nat (length s) <= byte_len s)%N.
Proof.
  induction s as [|c s IH]. simpl. lia.
  change (byte_len (c :: s)) with (u8len c + byte_len s).
  change (length (c :: s)) with (S (length s)). rewrite Nat2N.inj_succ.
  assert (1 <= u8len c) by (unfold u8len; destruct (c <? 128); [lia|]; destruct (c <? 2048); [lia|];
                            destruct (c <? 65536); lia).
  lia.
Qed.

Lemma firstn_app_exact : forall (A : Type) (p l : list A), firstn (length p) (p ++ l) = p.
Proof. intros. rewrite firstn_app, Nat.sub_diag, firstn_all. simpl. apply app_nil_r. Qed.

Lemma skipn_app_exact : forall (A : Type) (p : list A) x l, skipn (S (length p)) (p ++ x :: l) = l.
Proof. induction p; simpl; auto. Qed.

Theorem process_qname_spec : forall s,
  process_qname s = mkq (fst (spec_split s)) [] (snd (spec_split s)).
Proof.
  intro s. unfold process_qname, qname_split, spec_split.
  destruct (byte_len s <? 3) eqn:B.
  - (* short names never split *)
    destruct (cut_at_colon s) as [[p l]|] eqn:C; auto.
    destruct p as [|a p]; simpl; auto. destruct l as [|b l]; simpl; auto.
    exfalso. apply cut_at_colon_app in C. subst s. apply N.ltb_lt in B.
    pose proof (byte_len_ge ((a :: p) ++ colon :: b :: l)) as G.
    rewrite app_length in G. cbn [length] in G. lia.
  - destruct s as [|c r]; simpl; auto.
    destruct (c =? colon) eqn:E; simpl; auto.
    rewrite q_in_name_spec.
    destruct (cut_at_colon r) as [[p l]|] eqn:C; auto.
    destruct l as [|b l]; simpl; auto.
    destruct (negb (b =? colon) && nocolon l) eqn:NC; simpl; auto.
    apply cut_at_colon_app in C. subst r.
    rewrite firstn_app_exact.
    change (match p ++ colon :: b :: l with [] => [] | _ :: l0 => skipn (length p) l0 end)
      with (skipn (S (length p)) (p ++ colon :: b :: l)).
    rewrite skipn_app_exact. reflexivity.
Qed.

(* ------------------------------------------------------ facts about split *)

Definition local_of (n : str) : str := snd (spec_split n).
Definition prefix_of (n : str) : option str := fst (spec_split n).

Lemma qlocal_process : forall n, qlocal (process_qname n) = local_of n.
Proof. intro. rewrite process_qname_spec. reflexivity. Qed.
Lemma qprefix_process : forall n, qprefix (process_qname n) = prefix_of n.
Proof. intro. rewrite process_qname_spec. reflexivity. Qed.
Lemma qns_process : forall n, qns (process_qname n) = [].
Proof. intro. rewrite process_qname_spec. reflexivity. Qed.

Lemma nocolon_app : forall a b, nocolon (a ++ b) = nocolon a && nocolon b.
Proof. intros. unfold nocolon. apply forallb_app. Qed.

Lemma split_cases : forall n,
  (prefix_of n = None /\ local_of n = n) \/
  (exists p l, prefix_of n = Some p /\ local_of n = l /\ n = p ++ colon :: l /\
               p <> [] /\ l <> [] /\ nocolon l = true).
Proof.
  intro n. unfold prefix_of, local_of, spec_split.
  destruct (cut_at_colon n) as [[p l]|] eqn:C; [|left; auto].
  destruct (negb (is_nil p) && negb (is_nil l) && nocolon l) eqn:G; [|left; auto].
  right. exists p, l. apply andb_true_iff in G. destruct G as [G G3].
  apply andb_true_iff in G. destruct G as [G1 G2].
  simpl. repeat split; auto.
  - apply cut_at_colon_app; auto.
  - destruct p; simpl in G1; congruence.
  - destruct l; simpl in G2; congruence.
Qed.

Lemma prefixed_has_colon : forall n p, prefix_of n = Some p -> nocolon n = false.
Proof.
  intros n p H. destruct (split_cases n) as [[H1 _]|(p' & l & H1 & _ & E & _)]; [congruence|].
  rewrite E, nocolon_app. simpl. apply andb_false_r.
Qed.

(* the local part of m equals the raw name n only if m = n (and then n has no
   prefix) or if m is prefixed and n is colon-free *)
Lemma local_eq_cases : forall m n, local_of m = n ->
  (m = n /\ prefix_of n = None) \/ (prefix_of m <> None /\ nocolon n = true).
Proof.
  intros m n H. destruct (split_cases m) as [[H1 H2]|(p & l & H1 & H2 & E & _ & _ & NC)].
  - left. split; congruence.
  - right. split; [congruence|]. congruence.
Qed.

Lemma unprefixed_local : forall n, prefix_of n = None -> local_of n = n.
Proof.
  intros n H. destruct (split_cases n) as [[_ H2]|(p & l & H1 & _)]; congruence.
Qed.

(* --------------------------------------------- finish_attribute as a fold *)

Definition mk (nv : rawattr) : attr := mka (process_qname (fst nv)) (snd nv).
Definition xmlnsish (nv : rawattr) : bool := is_xmlns_attr (process_qname (fst nv)).

Definition fa_step (DO : list attr * list attr) (nv : rawattr) : list attr * list attr :=
  let (D, O) := DO in
  if is_nil (fst nv) then DO
  else if existsb (fun a => qname_eqb (aname a) (process_qname (fst nv))) (D ++ O) then DO
  else if xmlnsish nv then (D ++ [mk nv], O) else (D, O ++ [mk nv]).

Lemma existsb_rev : forall (A : Type) (f : A -> bool) l, existsb f (rev l) = existsb f l.
Proof.
  intros A f l. induction l as [|x l IH]; simpl; auto.
  rewrite existsb_app, IH. simpl. rewrite orb_false_r. apply orb_comm.
Qed.

Lemma finish_step : forall D O nv,
  finish_attribute (rev D ++ O) nv = (let (D', O') := fa_step (D, O) nv in rev D' ++ O').
Proof.
  intros D O [n v]. unfold finish_attribute, fa_step. simpl fst. simpl snd.
  destruct (is_nil n) eqn:En; [reflexivity|].
  rewrite existsb_app, existsb_rev, <- existsb_app.
  destruct (existsb _ (D ++ O)) eqn:Ex; [reflexivity|].
  unfold xmlnsish, mk. simpl fst. simpl snd.
  destruct (is_xmlns_attr (process_qname n)) eqn:X.
  - rewrite rev_app_distr. reflexivity.
  - rewrite app_assoc. reflexivity.
Qed.

Lemma finish_fold : forall raws D O,
  fold_left finish_attribute raws (rev D ++ O) =
  (let (D', O') := fold_left fa_step raws (D, O) in rev D' ++ O').
Proof.
  induction raws as [|nv raws IH]; intros D O; [reflexivity|]. cbn [fold_left].
  rewrite finish_step. destruct (fa_step (D, O) nv) as [D' O']. apply IH.
Qed.

Definition tk (raws : list rawattr) : list attr * list attr := fold_left fa_step raws ([], []).

Lemma tok_attrs_tk : forall raws, tok_attrs raws = rev (fst (tk raws)) ++ snd (tk raws).
Proof.
  intro raws. unfold tok_attrs, tk. change (@nil attr) with (rev (@nil attr) ++ []) at 1.
  rewrite finish_fold. destruct (fold_left fa_step raws ([], [])); reflexivity.
Qed.

(* the split is injective: the qualified name determines the raw name *)
Lemma process_qname_inj : forall m n, process_qname m = process_qname n -> m = n.
Proof.
  intros m n H. rewrite !process_qname_spec in H. inversion H as [[P L]].
  fold (prefix_of m) (prefix_of n) in P. fold (local_of m) (local_of n) in L.
  destruct (split_cases m) as [[Pm Lm]|(pm & lm & Pm & Lm & Em & _)];
  destruct (split_cases n) as [[Pn Ln]|(pn & ln & Pn & Ln & En & _)]; try congruence.
Qed.

Lemma qname_eqb_eq : forall a b, qname_eqb a b = true <-> a = b.
Proof.
  intros [p1 n1 l1] [p2 n2 l2]. unfold qname_eqb. simpl.
  rewrite !andb_true_iff, ostr_eqb_eq, !str_eqb_eq. split.
  - intros [[? ?] ?]. congruence.
  - intro H. inversion H. auto.
Qed.

Lemma existsb_str_In : forall n l, existsb (str_eqb n) l = true <-> In n l.
Proof.
  intros n l. rewrite existsb_exists. split.
  - intros (x & Hx & E). apply str_eqb_eq in E. subst. auto.
  - intro H. exists n. split; auto. apply str_eqb_refl.
Qed.

(* the attributes the tokenizer keeps: the first of each raw name *)
Fixpoint keptR (seen : list str) (raws : list rawattr) : list rawattr :=
  match raws with
  | [] => []
  | (n, v) :: r =>
    if is_nil n then keptR seen r
    else if existsb (str_eqb n) seen then keptR seen r
    else (n, v) :: keptR (n :: seen) r
  end.

Lemma tk_kept : forall post seen D O,
  (forall a, In a (D ++ O) -> exists m v, a = mk (m, v) /\ In m seen) ->
  (forall m, In m seen -> exists a, In a (D ++ O) /\ aname a = process_qname m) ->
  fold_left fa_step post (D, O) =
  (D ++ map mk (filter xmlnsish (keptR seen post)),
   O ++ map mk (filter (fun x => negb (xmlnsish x)) (keptR seen post))).
Proof.
  induction post as [|[n v] post IH]; intros seen D O I1 I2.
  - simpl. rewrite !app_nil_r. reflexivity.
  - cbn [fold_left keptR]. unfold fa_step at 2. simpl fst.
    destruct (is_nil n) eqn:En; [apply IH; auto|].
    assert (T : existsb (fun a => qname_eqb (aname a) (process_qname n)) (D ++ O) = existsb (str_eqb n) seen).
    { destruct (existsb (str_eqb n) seen) eqn:S.
      - apply existsb_str_In in S. destruct (I2 n S) as (a & Ha & E).
        apply existsb_exists. exists a. split; auto. apply qname_eqb_eq. auto.
      - destruct (existsb _ (D ++ O)) eqn:Ex; auto.
        apply existsb_exists in Ex. destruct Ex as (a & Ha & E). apply qname_eqb_eq in E.
        destruct (I1 a Ha) as (m & v' & -> & Hm). unfold mk in E. simpl in E.
        apply process_qname_inj in E. subst m.
        assert (existsb (str_eqb n) seen = true) by (apply existsb_str_In; auto). congruence. }
    rewrite T. destruct (existsb (str_eqb n) seen) eqn:S; [apply IH; auto|].
    destruct (xmlnsish (n, v)) eqn:X.
    + rewrite IH with (seen := n :: seen).
      * simpl filter. rewrite X. simpl. rewrite <- !app_assoc. reflexivity.
      * intros a Ha. rewrite <- app_assoc in Ha. apply in_app_or in Ha. destruct Ha as [Ha|Ha].
        -- destruct (I1 a (in_or_app _ _ _ (or_introl Ha))) as (m & v' & E & Hm). exists m, v'. split; auto. right; auto.
        -- simpl in Ha. destruct Ha as [Ha|Ha].
           ++ exists n, v. split; auto. left; auto.
           ++ destruct (I1 a (in_or_app _ _ _ (or_intror Ha))) as (m & v' & E & Hm). exists m, v'. split; auto. right; auto.
      * intros m [Hm|Hm].
        -- subst m. exists (mk (n, v)). split; [|reflexivity].
           apply in_or_app. left. apply in_or_app. right. left. reflexivity.
        -- destruct (I2 m Hm) as (a & Ha & L). exists a. split; auto.
           apply in_app_or in Ha. apply in_or_app. destruct Ha; [left; apply in_or_app; left; auto|right; auto].
    + rewrite IH with (seen := n :: seen).
      * simpl filter. rewrite X. simpl. rewrite <- !app_assoc. reflexivity.
      * intros a Ha. rewrite app_assoc in Ha. apply in_app_or in Ha. destruct Ha as [Ha|Ha].
        -- destruct (I1 a Ha) as (m & v' & E & Hm). exists m, v'. split; auto. right; auto.
        -- simpl in Ha. destruct Ha as [Ha|[]]. exists n, v. split; auto. left; auto.
      * intros m [Hm|Hm].
        -- subst m. exists (mk (n, v)). split; [|reflexivity].
           rewrite app_assoc. apply in_or_app. right. left. reflexivity.
        -- destruct (I2 m Hm) as (a & Ha & L). exists a. split; auto.
           rewrite app_assoc. apply in_or_app. left. auto.
Qed.

Lemma tk_spec : forall raws,
  tk raws = (map mk (filter xmlnsish (keptR [] raws)),
             map mk (filter (fun x => negb (xmlnsish x)) (keptR [] raws))).
Proof.
  intro raws. unfold tk. rewrite (tk_kept raws [] [] []); auto.
  - intros a [].
  - intros m [].
Qed.

(* ------------------------------------------------------------ NamespaceMap *)

Lemma nm_get_filter : forall m k k',
  nm_get (filter (fun kv => negb (ostr_eqb (fst kv) k)) m) k' =
  if ostr_eqb k k' then None else nm_get m k'.
Proof.
  induction m as [|[a b] m IH]; intros k k'; simpl.
  - destruct (ostr_eqb k k'); reflexivity.
  - destruct (ostr_eqb a k) eqn:E1; simpl.
    + apply ostr_eqb_eq in E1. subst a. rewrite IH. destruct (ostr_eqb k k'); reflexivity.
    + rewrite IH. destruct (ostr_eqb a k') eqn:E2; auto.
      apply ostr_eqb_eq in E2. subst a. rewrite ostr_eqb_sym, E1. reflexivity.
Qed.

Lemma nm_get_insert : forall m k v k',
  nm_get (nm_insert m k v) k' = if ostr_eqb k k' then Some v else nm_get m k'.
Proof.
  intros. unfold nm_insert. simpl. destruct (ostr_eqb k k') eqn:E; auto.
  rewrite nm_get_filter, E. reflexivity.
Qed.

(* ------------------------------------------- declarations, purely *)

Definition dstep (m : nsmap) (a : attr) : nsmap :=
  if is_xmlns_attr (aname a) then match insert_ns m a with Some m' => m' | None => m end else m.
Definition declare_map (m : nsmap) (attrs : list attr) : nsmap := fold_left dstep attrs m.

Definition core (s : tb) := (tphase s, topen s, tnss s, tdoc s, tpost s, tpanic s).

Lemma declare_all_spec : forall attrs s,
  core (declare_all s attrs) = core s /\ tcur (declare_all s attrs) = declare_map (tcur s) attrs.
Proof.
  induction attrs as [|a r IH]; intro s; simpl; auto.
  unfold declare_map. simpl. unfold dstep at 2.
  destruct (is_xmlns_attr (aname a)); [|apply IH].
  destruct (insert_ns (tcur s) a) as [m|].
  - destruct (IH (set_cur s m)) as [G1 G2]. split; auto.
  - destruct (IH (add_err s)) as [G1 G2]. split; auto.
Qed.

Lemma declare_map_app : forall a b m, declare_map m (a ++ b) = declare_map (declare_map m a) b.
Proof. intros. unfold declare_map. apply fold_left_app. Qed.

Lemma declare_map_skip : forall l m,
  forallb (fun a => negb (is_xmlns_attr (aname a))) l = true -> declare_map m l = m.
Proof.
  induction l as [|a l IH]; intros m H; simpl; auto.
  simpl in H. apply andb_true_iff in H. destruct H as [H1 H2].
  unfold declare_map. simpl. unfold dstep at 2. apply negb_true_iff in H1. rewrite H1. apply IH; auto.
Qed.

(* the map a tag contributes to the namespace stack *)
Definition dmap (raws : list rawattr) : nsmap := declare_map [] (tok_attrs raws).

(* how insert_ns reads an attribute, in terms of the declarative classification *)
Definition ins (m : nsmap) (key : option str) (v : str) : option nsmap :=
  if str_eqb v XMLNS_URI then None
  else let u := if is_nil v then None else Some v in
       if negb (is_none u) && nm_contains m key then None else Some (nm_insert m key u).

Lemma classify_default : forall n, classify_raw n = KDefaultDecl ->
  n = s_xmlns /\ prefix_of n = None /\ local_of n = s_xmlns.
Proof.
  intros n H. unfold classify_raw in H. fold (prefix_of n) in H.
  destruct (spec_split n) as [p l] eqn:S.
  assert (P : prefix_of n = p) by (unfold prefix_of; rewrite S; reflexivity).
  assert (L : local_of n = l) by (unfold local_of; rewrite S; reflexivity).
  destruct p.
  - destruct (str_eqb s s_xmlns); discriminate.
  - destruct (str_eqb l s_xmlns) eqn:E; [|discriminate]. apply str_eqb_eq in E. subst l.
    pose proof (unprefixed_local n P). repeat split; congruence.
Qed.

Lemma classify_prefixdecl : forall n p, classify_raw n = KPrefixDecl p ->
  n = s_xmlns ++ colon :: p /\ prefix_of n = Some s_xmlns /\ local_of n = p.
Proof.
  intros n p H. unfold classify_raw in H.
  destruct (spec_split n) as [q l] eqn:S.
  assert (P : prefix_of n = q) by (unfold prefix_of; rewrite S; reflexivity).
  assert (L : local_of n = l) by (unfold local_of; rewrite S; reflexivity).
  destruct q.
  - destruct (str_eqb s s_xmlns) eqn:E; [|discriminate]. inversion H; subst l. apply str_eqb_eq in E. subst s.
    destruct (split_cases n) as [[G1 _]|(p' & l' & G1 & G2 & E & _)]; [congruence|].
    repeat split; auto. congruence.
  - destruct (str_eqb l s_xmlns); discriminate.
Qed.

Lemma classify_other : forall n p l, classify_raw n = KOther p l ->
  prefix_of n = p /\ local_of n = l /\ p <> Some s_xmlns /\ (p = None -> l <> s_xmlns).
Proof.
  intros n p l H. unfold classify_raw in H.
  destruct (spec_split n) as [q l'] eqn:S.
  assert (P : prefix_of n = q) by (unfold prefix_of; rewrite S; reflexivity).
  assert (L : local_of n = l') by (unfold local_of; rewrite S; reflexivity).
  destruct q.
  - destruct (str_eqb s s_xmlns) eqn:E; [discriminate|]. inversion H; subst.
    apply str_eqb_neq in E. repeat split; auto; try congruence; try discriminate.
  - destruct (str_eqb l' s_xmlns) eqn:E; [discriminate|]. inversion H; subst.
    apply str_eqb_neq in E. repeat split; auto; try congruence; try discriminate.
Qed.

Lemma xmlnsish_classify : forall n v, xmlnsish (n, v) =
  match classify_raw n with
  | KOther _ _ => false
  | _ => true
  end.
Proof.
  intros n v. unfold xmlnsish, is_xmlns_attr. simpl fst. rewrite qlocal_process, qprefix_process.
  destruct (classify_raw n) as [| p | p l] eqn:C.
  - apply classify_default in C. destruct C as (_ & P & L). rewrite P, L, str_eqb_refl. reflexivity.
  - apply classify_prefixdecl in C. destruct C as (_ & P & L). rewrite P. simpl. reflexivity.
  - apply classify_other in C. destruct C as (P & L & NX & ND). rewrite P, L.
    destruct p as [p|].
    + simpl. apply str_eqb_neq. congruence.
    + simpl. rewrite orb_false_r. apply str_eqb_neq. auto.
Qed.

Lemma insert_ns_classify : forall m n v,
  insert_ns m (mk (n, v)) =
  match classify_raw n with
  | KDefaultDecl => ins m None v
  | KPrefixDecl p =>
    if str_eqb v XMLNS_URI then None
    else if str_eqb p s_xml then (if str_eqb v XML_URI then Some m else None)
    else if str_eqb p s_xmlns then None
    else ins m (Some p) v
  | KOther _ _ => None
  end.
Proof.
  intros m n v. unfold insert_ns, mk, ins. simpl avalue. simpl aname. simpl fst. simpl snd.
  rewrite qlocal_process, qprefix_process.
  destruct (str_eqb v XMLNS_URI) eqn:EV.
  { destruct (classify_raw n); auto. }
  destruct (classify_raw n) as [| p | p l] eqn:C.
  - apply classify_default in C. destruct C as (_ & P & L). rewrite P, L. simpl.
    destruct (is_nil v); reflexivity.
  - apply classify_prefixdecl in C. destruct C as (_ & P & L). rewrite P, L. simpl.
    destruct (str_eqb p s_xml) eqn:E1; [reflexivity|].
    destruct (str_eqb p s_xmlns) eqn:E2; [reflexivity|].
    destruct (is_nil v); reflexivity.
  - apply classify_other in C. destruct C as (P & L & NX & ND). rewrite P, L.
    destruct p as [p|]; simpl.
    + assert (E : str_eqb p s_xmlns = false) by (apply str_eqb_neq; congruence). rewrite E. reflexivity.
    + assert (E : str_eqb l s_xmlns = false) by (apply str_eqb_neq; auto). rewrite E. reflexivity.
Qed.

(* ------------------------------- the map of a tag = its declared bindings *)

Definition is_decl_name (n : str) : bool :=
  match classify_raw n with KOther _ _ => false | _ => true end.

(* two declarations with the same name (cannot survive the tokenizer) *)
Fixpoint dup_decl_from (seen : list str) (raws : list rawattr) : bool :=
  match raws with
  | [] => false
  | (n, _) :: r =>
    (is_decl_name n && existsb (str_eqb n) seen) || dup_decl_from (n :: seen) r
  end.

Lemma dup_decl_from_mono : forall r seen seen',
  (forall x, In x seen -> In x seen') -> dup_decl_from seen' r = false -> dup_decl_from seen r = false.
Proof.
  induction r as [|[n v] r IH]; intros seen seen' S H; simpl in *; auto.
  apply orb_false_iff in H. destruct H as [H1 H2]. apply orb_false_iff. split.
  - apply andb_false_iff in H1. apply andb_false_iff. destruct H1 as [H1|H1]; [left; auto|right].
    destruct (existsb (str_eqb n) seen) eqn:E; auto. apply existsb_str_In in E. apply S in E.
    apply existsb_str_In in E. congruence.
  - apply (IH (n :: seen) (n :: seen')); auto. intros x [Hx|Hx]; [left; auto|right; auto].
Qed.

Lemma dup_decl_from_notin : forall r seen, dup_decl_from seen r = false ->
  forall n v, In (n, v) r -> is_decl_name n = true -> ~ In n seen.
Proof.
  induction r as [|[n' v'] r IH]; intros seen H n v Hin D; simpl in *; [contradiction|].
  apply orb_false_iff in H. destruct H as [H1 H2]. destruct Hin as [Hin|Hin].
  - inversion Hin; subst. rewrite D in H1. simpl in H1. intro X. apply existsb_str_In in X. congruence.
  - intro X. apply (IH _ H2 n v Hin D). right. auto.
Qed.

Definition decl_key (n : str) : option (option str) :=
  match classify_raw n with
  | KDefaultDecl => Some None
  | KPrefixDecl p => Some (Some p)
  | KOther _ _ => None
  end.

Lemma decl_key_name : forall n n' k, decl_key n = Some k -> decl_key n' = Some k -> n = n'.
Proof.
  intros n n' k H H'. unfold decl_key in *.
  destruct (classify_raw n) eqn:C; destruct (classify_raw n') eqn:C'; try discriminate;
    inversion H; subst k; inversion H'; subst.
  - apply classify_default in C. apply classify_default in C'. destruct C, C'. congruence.
  - apply classify_prefixdecl in C. apply classify_prefixdecl in C'. destruct C, C'. congruence.
Qed.

Lemma first_decl_some : forall k r v, first_decl k r = Some v ->
  exists n, In (n, v) r /\ decl_key n = Some k.
Proof.
  induction r as [|[n v'] r IH]; intros v H; simpl in H; [discriminate|].
  unfold decl_key. destruct (classify_raw n) eqn:C.
  - destruct k; simpl in H.
    + destruct (IH _ H) as (n' & Hn & D). exists n'. split; [right; auto|auto].
    + inversion H; subst. exists n. split; [left; auto|]. rewrite C. reflexivity.
  - destruct (ostr_eqb k (Some p)) eqn:E.
    + apply ostr_eqb_eq in E. subst k. inversion H; subst. exists n. split; [left; auto|]. rewrite C. reflexivity.
    + destruct (IH _ H) as (n' & Hn & D). exists n'. split; [right; auto|auto].
  - destruct (IH _ H) as (n' & Hn & D). exists n'. split; [right; auto|auto].
Qed.

Lemma first_decl_fresh : forall n k r, decl_key n = Some k -> dup_decl_from [n] r = false ->
  first_decl k r = None.
Proof.
  intros n k r D H. destruct (first_decl k r) eqn:F; auto.
  destruct (first_decl_some _ _ _ F) as (n' & Hin & D').
  assert (n = n') by (eapply decl_key_name; eauto). subst n'.
  exfalso. eapply (dup_decl_from_notin r [n] H n s Hin).
  - unfold is_decl_name. unfold decl_key in D. destruct (classify_raw n); auto. discriminate.
  - left. reflexivity.
Qed.

Definition binding_of (v : str) : option (option str) :=
  if str_eqb v XMLNS_URI then None else if is_nil v then Some None else Some (Some v).

Lemma step_insert : forall M key v k, nm_get M key = None ->
  nm_get (match ins M key v with Some m' => m' | None => M end) k =
  if ostr_eqb key k then binding_of v else nm_get M k.
Proof.
  intros M key v k H. unfold ins, binding_of.
  destruct (str_eqb v XMLNS_URI).
  - destruct (ostr_eqb key k) eqn:E; auto. apply ostr_eqb_eq in E. subst. auto.
  - assert (C : nm_contains M key = false) by (unfold nm_contains; rewrite H; reflexivity).
    rewrite C, andb_false_r. rewrite nm_get_insert.
    destruct (ostr_eqb key k); auto. destruct (is_nil v); reflexivity.
Qed.

Lemma tag_binding_fixed : forall k r, is_fixed_prefix k = true -> tag_binding k r = None.
Proof. intros. unfold tag_binding. rewrite H. reflexivity. Qed.

Lemma decl_binding : forall raws, dup_decl_from [] raws = false ->
  forall k, nm_get (declare_map [] (rev (map mk (filter xmlnsish raws)))) k = tag_binding k raws.
Proof.
  induction raws as [|[n v] r IH]; intros H k.
  - simpl. unfold tag_binding. simpl. destruct (is_fixed_prefix k); reflexivity.
  - simpl in H. rewrite andb_false_r in H. simpl in H.
    assert (H0 : dup_decl_from [] r = false).
    { apply (dup_decl_from_mono r [] [n]); auto. intros x []. }
    specialize (IH H0).
    set (M := declare_map [] (rev (map mk (filter xmlnsish r)))) in *.
    simpl filter. destruct (xmlnsish (n, v)) eqn:X.
    + simpl map. simpl rev. rewrite declare_map_app. fold M.
      unfold declare_map at 1. simpl fold_left. unfold dstep.
      assert (XA : is_xmlns_attr (aname (mk (n, v))) = true) by exact X. rewrite XA.
      rewrite insert_ns_classify.
      rewrite xmlnsish_classify in X.
      destruct (classify_raw n) as [| p | p l] eqn:C.
      * (* xmlns="v" *)
        assert (F : first_decl None r = None) by (apply (first_decl_fresh n); auto; unfold decl_key; rewrite C; auto).
        assert (G : nm_get M None = None).
        { rewrite IH. unfold tag_binding. simpl. rewrite F. reflexivity. }
        rewrite step_insert; auto.
        unfold tag_binding. destruct (is_fixed_prefix k) eqn:FX.
        -- destruct k; [|discriminate]. simpl. rewrite IH. apply tag_binding_fixed; auto.
        -- cbn [first_decl]. rewrite C. destruct k as [q|]; simpl.
           ++ rewrite IH. unfold tag_binding. rewrite FX. reflexivity.
           ++ reflexivity.
      * (* xmlns:p="v" *)
        assert (F : first_decl (Some p) r = None) by (apply (first_decl_fresh n); auto; unfold decl_key; rewrite C; auto).
        assert (TB : forall k', ostr_eqb k' (Some p) = false -> tag_binding k' ((n, v) :: r) = tag_binding k' r).
        { intros k' E. unfold tag_binding. cbn [first_decl]. rewrite C, E. reflexivity. }
        assert (TP : tag_binding (Some p) ((n, v) :: r) =
                     if is_fixed_prefix (Some p) then None else binding_of v).
        { unfold tag_binding. cbn [first_decl]. rewrite C, ostr_eqb_refl. reflexivity. }
        assert (G : nm_get M (Some p) = None).
        { rewrite IH. unfold tag_binding. rewrite F. destruct (is_fixed_prefix (Some p)); reflexivity. }
        destruct (ostr_eqb k (Some p)) eqn:EK.
        -- apply ostr_eqb_eq in EK. subst k.
           transitivity (if is_fixed_prefix (Some p) then @None (option str) else binding_of v); [|symmetry; exact TP].
           destruct (str_eqb v XMLNS_URI) eqn:EV.
           { rewrite G. unfold binding_of. rewrite EV. destruct (is_fixed_prefix (Some p)); reflexivity. }
           destruct (str_eqb p s_xml) eqn:E1.
           { assert (FX : is_fixed_prefix (Some p) = true) by (unfold is_fixed_prefix; simpl; rewrite E1; reflexivity).
             rewrite FX. destruct (str_eqb v XML_URI); exact G. }
           destruct (str_eqb p s_xmlns) eqn:E2.
           { assert (FX : is_fixed_prefix (Some p) = true) by (unfold is_fixed_prefix; simpl; rewrite E2; apply orb_true_r).
             rewrite FX. exact G. }
           assert (FX : is_fixed_prefix (Some p) = false) by (unfold is_fixed_prefix; simpl; rewrite E1, E2; reflexivity).
           rewrite FX. rewrite step_insert; auto. rewrite ostr_eqb_refl. reflexivity.
        -- transitivity (tag_binding k r); [|symmetry; apply TB; auto]. rewrite <- IH.
           destruct (str_eqb v XMLNS_URI) eqn:EV; [reflexivity|].
           destruct (str_eqb p s_xml) eqn:E1; [destruct (str_eqb v XML_URI); reflexivity|].
           destruct (str_eqb p s_xmlns) eqn:E2; [reflexivity|].
           rewrite step_insert; auto. rewrite ostr_eqb_sym, EK. reflexivity.
      * discriminate X.
    + rewrite IH. unfold tag_binding. cbn [first_decl].
      rewrite xmlnsish_classify in X.
      destruct (classify_raw n) as [| p | p l] eqn:C; try discriminate. reflexivity.
Qed.

Lemma keptR_names : forall raws seen n v, In (n, v) (keptR seen raws) -> ~ In n seen /\ n <> [].
Proof.
  induction raws as [|[m w] r IH]; intros seen n v H; simpl in H; [contradiction|].
  destruct (is_nil m) eqn:En; [apply IH in H; auto|].
  destruct (existsb (str_eqb m) seen) eqn:S; [apply IH in H; auto|].
  destruct H as [H|H].
  - inversion H; subst. split.
    + intro X. apply existsb_str_In in X. congruence.
    + intro X. subst. discriminate.
  - apply IH in H. destruct H as [H1 H2]. split; auto. intro X. apply H1. right. auto.
Qed.

Lemma keptR_nodup_decl : forall raws seen, dup_decl_from seen (keptR seen raws) = false.
Proof.
  induction raws as [|[n v] r IH]; intro seen; simpl; auto.
  destruct (is_nil n); auto. destruct (existsb (str_eqb n) seen) eqn:S; auto.
  simpl. rewrite S, andb_false_r. simpl. apply IH.
Qed.

Lemma first_decl_skip : forall k n v r, decl_key n <> Some k -> first_decl k ((n, v) :: r) = first_decl k r.
Proof.
  intros k n v r H. cbn [first_decl]. unfold decl_key in H.
  destruct (classify_raw n) as [| p | p l]; auto.
  - destruct k; auto. exfalso. apply H. reflexivity.
  - destruct (ostr_eqb k (Some p)) eqn:E; auto. apply ostr_eqb_eq in E. subst k. exfalso. apply H. reflexivity.
Qed.

(* dropping later attributes with an already seen name does not change what the tag declares *)
Lemma first_decl_kept : forall k raws seen,
  (forall n, In n seen -> decl_key n <> Some k) ->
  first_decl k (keptR seen raws) = first_decl k raws.
Proof.
  induction raws as [|[n v] r IH]; intros seen H; [reflexivity|].
  cbn [keptR]. destruct (is_nil n) eqn:En.
  { destruct n; [|discriminate]. rewrite first_decl_skip; [apply IH; auto|]. vm_compute. discriminate. }
  destruct (existsb (str_eqb n) seen) eqn:S.
  - apply existsb_str_In in S. rewrite first_decl_skip; [apply IH; auto|apply H; auto].
  - destruct (decl_key n) as [k'|] eqn:DK.
    + destruct (ostr_eqb_eq k' k) as [_ E]. destruct (ostr_eqb k' k) eqn:EK.
      * apply ostr_eqb_eq in EK. subst k'. unfold decl_key in DK. cbn [first_decl].
        destruct (classify_raw n) as [| p | p l]; inversion DK; subst; cbn [is_none]; auto.
        rewrite ostr_eqb_refl. reflexivity.
      * assert (NK : decl_key n <> Some k) by (rewrite DK; intro X; inversion X; subst; rewrite ostr_eqb_refl in EK; discriminate).
        rewrite !first_decl_skip; auto. apply IH. intros m [Hm|Hm]; [subst; auto|auto].
    + assert (NK : decl_key n <> Some k) by (rewrite DK; discriminate).
      rewrite !first_decl_skip; auto. apply IH. intros m [Hm|Hm]; [subst; auto|auto].
Qed.

Lemma forallb_map_filter_neg : forall l,
  forallb (fun a => negb (is_xmlns_attr (aname a))) (map mk (filter (fun x => negb (xmlnsish x)) l)) = true.
Proof.
  induction l as [|x l IH]; simpl; auto.
  destruct (negb (xmlnsish x)) eqn:E; simpl; auto. rewrite IH, andb_true_r. exact E.
Qed.

(* the map a tag pushes is exactly what the tag declares - for EVERY tag *)
Theorem dmap_binding : forall raws k, nm_get (dmap raws) k = tag_binding k raws.
Proof.
  intros raws k. unfold dmap. rewrite tok_attrs_tk, tk_spec. simpl fst. simpl snd.
  rewrite declare_map_app. rewrite (declare_map_skip (map mk (filter _ _))) by apply forallb_map_filter_neg.
  rewrite decl_binding by apply keptR_nodup_decl.
  unfold tag_binding. rewrite first_decl_kept; auto.
Qed.

(* ------------------------------------- process_namespaces as a pure function *)

Definition bindq (maps : list nsmap) (q : qname) : qname :=
  match find_in maps (qprefix q) with
  | Some (Some u) => mkq (qprefix q) u (qlocal q)
  | Some None => mkq (qprefix q) [] (qlocal q)
  | None => q
  end.

Fixpoint bind_attrs_pure (maps : list nsmap) (present : list (str * str)) (attrs : list attr)
  : list attr :=
  match attrs with
  | [] => []
  | a :: r =>
    if is_xmlns_attr (aname a) then bind_attrs_pure maps present r
    else
      match qprefix (aname a) with
      | None => a :: bind_attrs_pure maps present r
      | Some _ =>
        let q := bindq maps (aname a) in
        let pair := (qns q, qlocal q) in
        if existsb (pair_eqb pair) present then bind_attrs_pure maps present r
        else mka q (avalue a) :: bind_attrs_pure maps (pair :: present) r
      end
  end.

Lemma bind_qname_fst : forall s q, fst (bind_qname s q) = bindq (tcur s :: tnss s) q.
Proof.
  intros s q. unfold bind_qname, bindq, find_uri.
  destruct (find_in (tcur s :: tnss s) (qprefix q)) as [[u|]|]; reflexivity.
Qed.

Lemma bind_attrs_spec : forall attrs s present,
  snd (bind_attrs s present attrs) = bind_attrs_pure (tcur s :: tnss s) present attrs /\
  core (fst (bind_attrs s present attrs)) = core s /\ tcur (fst (bind_attrs s present attrs)) = tcur s.
Proof.
  induction attrs as [|a r IH]; intros s present; simpl; auto.
  destruct (is_xmlns_attr (aname a)); [apply IH|].
  destruct (qprefix (aname a)) eqn:P.
  - pose proof (bind_qname_fst s (aname a)) as B.
    destruct (bind_qname s (aname a)) as [q err]. simpl in B. subst q.
    set (s1 := if err then add_err s else s).
    assert (S1 : core s1 = core s /\ tcur s1 = tcur s /\ tnss s1 = tnss s) by (unfold s1; destruct err; auto).
    destruct S1 as (S1 & S2 & S3).
    destruct (existsb _ present).
    + destruct (IH s1 present) as (I1 & I2 & I3). rewrite I1, I2, I3, S1, S2, S3. auto.
    + destruct (IH s1 ((qns (bindq (tcur s :: tnss s) (aname a)), qlocal (bindq (tcur s :: tnss s) (aname a))) :: present))
        as (I1 & I2 & I3).
      destruct (bind_attrs s1 _ r) as [s' out]. simpl in *. rewrite I1, I2, I3, S1, S2, S3. auto.
  - destruct (IH s present) as (I1 & I2 & I3). destruct (bind_attrs s present r) as [s' out].
    simpl in *. rewrite I1. auto.
Qed.

Definition keeps_map (k : tagkind) (name' : qname) : bool :=
  kind_eqb k StartTag || (kind_eqb k EmptyTag && str_eqb (qlocal name') s_script).

Lemma process_namespaces_spec : forall s k name attrs s' name' attrs',
  tcur s = [] -> process_namespaces s k name attrs = (s', name', attrs') ->
  let maps := declare_map [] attrs :: tnss s in
  name' = bindq maps name /\ attrs' = bind_attrs_pure maps [] attrs /\
  tcur s' = [] /\ tphase s' = tphase s /\ topen s' = topen s /\ tdoc s' = tdoc s /\
  tpost s' = tpost s /\ tpanic s' = tpanic s /\
  tnss s' = if keeps_map k name' then declare_map [] attrs :: tnss s else tnss s.
Proof.
  intros s k name attrs s' name' attrs' C H. unfold process_namespaces in H.
  destruct (declare_all_spec attrs s) as [D1 D2]. rewrite C in D2.
  set (s1 := declare_all s attrs) in *.
  destruct (bind_attrs_spec attrs s1 []) as (B1 & B2 & B3).
  destruct (bind_attrs s1 [] attrs) as [s2 out]. simpl in B1, B2, B3.
  pose proof (bind_qname_fst s2 name) as Q.
  destruct (bind_qname s2 name) as [nm err]. simpl in Q.
  assert (N1 : tnss s1 = tnss s) by (unfold core in D1; congruence).
  assert (N2 : tnss s2 = tnss s1) by (unfold core in B2; congruence).
  set (s3 := if err then add_err s2 else s2) in *.
  assert (S3 : core s3 = core s2 /\ tcur s3 = tcur s2) by (unfold s3; destruct err; auto).
  destruct S3 as [S3 S3c].
  inversion H; subst s' name' attrs'. clear H. unfold keeps_map.
  rewrite B3, D2, N2, N1 in Q. rewrite D2, N1 in B1.
  unfold core in *.
  destruct (kind_eqb k StartTag || kind_eqb k EmptyTag && str_eqb (qlocal nm) s_script); simpl;
    repeat split; auto; try congruence.
Qed.

(* ------------------------------------------------ the lexical-scope invariant *)

Definition ctx_of (fs : list frame) : list (list rawattr) := map (fun f => snd (fsrc f)) fs.
Definition maps_of (ctx : list (list rawattr)) : list nsmap := map dmap ctx ++ [nm_default].

(* an element's name and attributes are a function of its own tag and of the
   tags of its ancestors in the resulting tree - nothing else *)
Definition elem_lex (ctx : list (list rawattr)) (name : qname) (attrs : list attr) (src : tagsrc) : Prop :=
  name = bindq (maps_of (snd src :: ctx)) (process_qname (fst src)) /\
  attrs = bind_attrs_pure (maps_of (snd src :: ctx)) [] (tok_attrs (snd src)).

Lemma all_fix : forall P ctx kids,
  (fix all (l : list bnode) : Prop :=
     match l with [] => True | k :: r => all_elems P ctx k /\ all r end) kids <->
  Forall (all_elems P ctx) kids.
Proof.
  induction kids as [|k r IH]; split; intro H; auto.
  - destruct H as [H1 H2]. constructor; auto. apply IH; auto.
  - inversion H; subst. split; auto. apply IH; auto.
Qed.

Lemma all_elems_elem : forall P ctx name attrs src kids,
  all_elems P ctx (BElem name attrs src kids) <->
  P ctx name attrs src /\ Forall (all_elems P (snd src :: ctx)) kids.
Proof.
  intros. cbn [all_elems]. rewrite all_fix. tauto.
Qed.

Fixpoint frames_ok (fs : list frame) : Prop :=
  match fs with
  | [] => True
  | f :: r =>
    elem_lex (ctx_of r) (fname f) (fattrs f) (fsrc f) /\
    Forall (all_elems elem_lex (snd (fsrc f) :: ctx_of r)) (fkids f) /\ frames_ok r
  end.

Definition nss_ok (s : tb) : Prop := tnss s = maps_of (ctx_of (topen s)).

Definition docs_ok (s : tb) : Prop :=
  Forall (all_elems elem_lex []) (tdoc s) /\ Forall (all_elems elem_lex []) (tpost s).

Definition Live (s : tb) : Prop :=
  tpanic s = false /\ frames_ok (topen s) /\ docs_ok s /\ tcur s = [] /\ nss_ok s.

Definition Inv (s : tb) : Prop :=
  match tphase s with
  | PStart => Live s /\ topen s = []
  | PMain => Live s /\ topen s <> []
  | PEnd => tpanic s = false /\ frames_ok (topen s) /\ docs_ok s
  end.

Definition tok_wf (t : token) : Prop :=
  match t with
  | TTag _ name attrs src => name = process_qname (fst src) /\ attrs = tok_attrs (snd src)
  | _ => True
  end.

Lemma tokenize_wf : forall rt, tok_wf (tokenize rt).
Proof. destruct rt; simpl; auto. Qed.

Lemma Live_weaken : forall s, Live s -> tpanic s = false /\ frames_ok (topen s) /\ docs_ok s.
Proof. intros s (A & B & C & _). auto. Qed.

(* leaf nodes *)
Lemma leaf_ok : forall ctx n, (forall a b c d, n <> BElem a b c d) -> all_elems elem_lex ctx n.
Proof. intros ctx n H. destruct n; simpl; auto. exfalso. eapply H. reflexivity. Qed.

Lemma append_cur_live : forall s n, Live s -> topen s <> [] ->
  all_elems elem_lex (ctx_of (topen s)) n ->
  Live (append_cur s n) /\ tphase (append_cur s n) = tphase s /\
  map fname (topen (append_cur s n)) = map fname (topen s).
Proof.
  intros s n (P & F & D & C & N) NE H. unfold append_cur.
  destruct (topen s) as [|f r] eqn:O; [congruence|].
  simpl. split; [|split; auto].
  destruct F as (F1 & F2 & F3). destruct D as [D1 D2].
  unfold Live. simpl. split; [exact P|]. split.
  { split; [exact F1|]. split; [constructor; [exact H|exact F2]|exact F3]. }
  split. { split; assumption. }
  split; [exact C|]. unfold nss_ok in *. simpl. rewrite O in N. exact N.
Qed.

Lemma append_text_cur_live : forall s t, Live s -> topen s <> [] ->
  Live (append_text_cur s t) /\ tphase (append_text_cur s t) = tphase s /\
  map fname (topen (append_text_cur s t)) = map fname (topen s).
Proof.
  intros s t (P & F & D & C & N) NE. unfold append_text_cur.
  destruct (topen s) as [|f r] eqn:O; [congruence|].
  simpl. split; [|split; auto].
  destruct F as (F1 & F2 & F3). destruct D as [D1 D2].
  unfold Live. simpl. split; [exact P|]. split.
  { split; [exact F1|]. split; [|exact F3].
    unfold append_text_to. destruct (fkids f) as [|k ks]; [constructor; simpl; auto|].
    inversion F2; subst. destruct k; constructor; simpl; auto. }
  split. { split; assumption. }
  split; [exact C|]. unfold nss_ok in *. simpl. rewrite O in N. exact N.
Qed.

Lemma append_doc_ok : forall s n, all_elems elem_lex [] n ->
  tpanic s = false /\ frames_ok (topen s) /\ docs_ok s ->
  tpanic (append_doc s n) = false /\ frames_ok (topen (append_doc s n)) /\ docs_ok (append_doc s n).
Proof.
  intros s n H (P & F & D1 & D2). unfold append_doc, docs_ok.
  destruct (is_nil (topen s)); simpl; repeat split; auto.
Qed.

Lemma append_doc_fields : forall s n,
  tphase (append_doc s n) = tphase s /\ topen (append_doc s n) = topen s /\
  tcur (append_doc s n) = tcur s /\ tnss (append_doc s n) = tnss s.
Proof. intros. unfold append_doc. destruct (is_nil (topen s)); simpl; auto. Qed.

Lemma close_frame_ok : forall f r, frames_ok (f :: r) -> all_elems elem_lex (ctx_of r) (close_frame f).
Proof.
  intros f r (F1 & F2 & F3). unfold close_frame. apply all_elems_elem. split; auto.
  apply Forall_rev. auto.
Qed.

Lemma pop_live : forall s, Live s -> topen s <> [] ->
  Live (pop s) /\ tphase (pop s) = tphase s /\ map fname (topen (pop s)) = tl (map fname (topen s)).
Proof.
  intros s (P & F & (D1 & D2) & C & N) NE. unfold pop, detach_top. simpl topen.
  unfold nss_ok in N.
  destruct (topen s) as [|f [|g r]] eqn:O; [congruence| |].
  - simpl. split; [|auto]. unfold Live. simpl. split; [exact P|]. split; [exact I|].
    split. { split; [|exact D2]. simpl. constructor; auto. apply (close_frame_ok f []); auto. }
    split; [exact C|]. unfold nss_ok. simpl. rewrite N. reflexivity.
  - simpl. split; [|auto]. unfold Live. simpl. split; [exact P|].
    pose proof (close_frame_ok f (g :: r) F) as CF.
    destruct F as (F1 & F2 & G1 & G2 & G3). split.
    { split; [exact G1|]. split; [constructor; [exact CF|exact G2]|exact G3]. }
    split. { split; assumption. }
    split; [exact C|]. unfold nss_ok. simpl. rewrite N. reflexivity.
Qed.

Lemma pop_through_live : forall fuel s name, Live s ->
  (length (topen s) <= fuel)%nat ->
  existsb (fun g => expanded_eqb g name) (map fname (topen s)) = true ->
  Live (pop_through fuel s name) /\ tphase (pop_through fuel s name) = tphase s /\
  (length (topen (pop_through fuel s name)) < length (topen s))%nat.
Proof.
  induction fuel as [|fuel IH]; intros s name L Len Ex.
  - destruct (topen s); simpl in *; [discriminate|lia].
  - cbn [pop_through]. destruct (topen s) as [|f r] eqn:O; [simpl in Ex; discriminate|].
    assert (NE : topen s <> []) by (rewrite O; discriminate).
    destruct (pop_live s L NE) as (L' & Ph & Nm). rewrite O in Nm. simpl in Nm.
    assert (Ln : length (topen (pop s)) = length r).
    { rewrite <- (map_length fname), Nm, map_length. reflexivity. }
    destruct (expanded_eqb (fname f) name) eqn:E.
    + split; [exact L'|]. split; [exact Ph|]. rewrite Ln. simpl. lia.
    + simpl in Ex. rewrite E in Ex. simpl in Ex.
      destruct (IH (pop s) name L') as (A & B & C).
      * rewrite Ln. simpl in Len. lia.
      * rewrite Nm. exact Ex.
      * split; [exact A|]. split; [congruence|]. rewrite Ln in C. simpl. lia.
Qed.

Lemma existsb_map : forall (A B : Type) (f : A -> B) (p : B -> bool) l,
  existsb p (map f l) = existsb (fun x => p (f x)) l.
Proof. induction l; simpl; auto. rewrite IHl. reflexivity. Qed.

Lemma add_err_live : forall s, Live s -> Live (add_err s).
Proof. intros s H. exact H. Qed.

Lemma close_tag_live : forall s name, Live s -> topen s <> [] ->
  Live (close_tag s name) /\ tphase (close_tag s name) = tphase s.
Proof.
  intros s name L NE. unfold close_tag. destruct (topen s) as [|f r] eqn:O; [congruence|].
  set (s1 := if str_eqb (qlocal (fname f)) (qlocal name) then s else add_err s).
  assert (L1 : Live s1 /\ tphase s1 = tphase s /\ topen s1 = topen s) by (unfold s1; destruct (str_eqb _ _); auto).
  destruct L1 as (L1 & P1 & O1).
  destruct (existsb (fun g => expanded_eqb (fname g) name) (topen s1)) eqn:Ex; [|auto].
  destruct (pop_through_live (length (topen s1)) s1 name L1) as (A & B & C); auto.
  - rewrite existsb_map. exact Ex.
  - split; auto. congruence.
Qed.

Lemma Inv_start : forall s, tphase s = PStart -> Live s -> topen s = [] -> Inv s.
Proof. intros s H L O. unfold Inv. rewrite H. auto. Qed.
Lemma Inv_main : forall s, tphase s = PMain -> Live s -> topen s <> [] -> Inv s.
Proof. intros s H L O. unfold Inv. rewrite H. auto. Qed.
Lemma Inv_end : forall s, tphase s = PEnd ->
  tpanic s = false /\ frames_ok (topen s) /\ docs_ok s -> Inv s.
Proof. intros s H L. unfold Inv. rewrite H. auto. Qed.

Lemma maps_of_cons : forall raws ctx, maps_of (raws :: ctx) = dmap raws :: maps_of ctx.
Proof. reflexivity. Qed.

(* what process_namespaces computes for a tag, in a live state *)
Lemma pn_elem_lex : forall s k name attrs src s1 name' attrs',
  Live s -> tok_wf (TTag k name attrs src) ->
  process_namespaces s k name attrs = (s1, name', attrs') ->
  elem_lex (ctx_of (topen s)) name' attrs' src /\
  tcur s1 = [] /\ tphase s1 = tphase s /\ topen s1 = topen s /\ tdoc s1 = tdoc s /\
  tpost s1 = tpost s /\ tpanic s1 = tpanic s /\
  tnss s1 = if keeps_map k name' then dmap (snd src) :: tnss s else tnss s.
Proof.
  intros s k name attrs src s1 name' attrs' (P & F & D & C & N) [W1 W2] PN.
  destruct (process_namespaces_spec _ _ _ _ _ _ _ C PN) as (A1 & A2 & A3 & A4 & A5 & A6 & A7 & A8 & A9).
  unfold nss_ok in N. subst name attrs. fold (dmap (snd src)) in *.
  split; [|repeat split; auto].
  unfold elem_lex. rewrite maps_of_cons, <- N. auto.
Qed.

Lemma push_live : forall s s1 s2 k name attrs src name' attrs',
  Live s -> tok_wf (TTag k name attrs src) ->
  process_namespaces s k name attrs = (s1, name', attrs') -> keeps_map k name' = true ->
  topen s2 = topen s1 -> tnss s2 = tnss s1 -> tcur s2 = tcur s1 -> tdoc s2 = tdoc s1 ->
  tpost s2 = tpost s1 -> tpanic s2 = tpanic s1 ->
  Live (push_elem s2 name' attrs' src) /\ topen (push_elem s2 name' attrs' src) = mkf name' attrs' src [] :: topen s.
Proof.
  intros s s1 s2 k name attrs src name' attrs' L W PN K E1 E2 E3 E4 E5 E6.
  destruct (pn_elem_lex _ _ _ _ _ _ _ _ L W PN) as (EL & A3 & A4 & A5 & A6 & A7 & A8 & A9).
  rewrite K in A9. destruct L as (P & F & (D1 & D2) & C & N).
  unfold push_elem. simpl. split; [|congruence].
  unfold Live. simpl. split; [congruence|]. split.
  { rewrite E1, A5. split; [exact EL|]. split; [constructor|exact F]. }
  split. { unfold docs_ok. simpl. rewrite E4, E5, A6, A7. split; assumption. }
  split; [congruence|]. unfold nss_ok in *. simpl. rewrite E2, A9, E1, A5, N. reflexivity.
Qed.

Lemma nokeep_live : forall s s1 k name attrs src name' attrs',
  Live s -> tok_wf (TTag k name attrs src) ->
  process_namespaces s k name attrs = (s1, name', attrs') -> keeps_map k name' = false ->
  Live s1 /\ topen s1 = topen s /\ tphase s1 = tphase s.
Proof.
  intros s s1 k name attrs src name' attrs' L W PN K.
  destruct (pn_elem_lex _ _ _ _ _ _ _ _ L W PN) as (EL & A3 & A4 & A5 & A6 & A7 & A8 & A9).
  rewrite K in A9. destruct L as (P & F & (D1 & D2) & C & N).
  split; [|auto]. unfold Live, docs_ok, nss_ok in *. rewrite A5, A6, A7, A8, A9. auto.
Qed.

Lemma expanded_eqb_refl : forall q, expanded_eqb q q = true.
Proof. intro q. unfold expanded_eqb. rewrite !str_eqb_refl. reflexivity. Qed.

Lemma close_tag_top : forall s f r, topen s = f :: r -> close_tag s (fname f) = pop s.
Proof.
  intros s f r O. unfold close_tag. rewrite O. rewrite str_eqb_refl. rewrite O.
  simpl existsb. rewrite expanded_eqb_refl. simpl orb. cbn [length pop_through]. rewrite O.
  rewrite expanded_eqb_refl. reflexivity.
Qed.

Lemma append_doc_live : forall s n, Live s -> all_elems elem_lex [] n -> Live (append_doc s n).
Proof.
  intros s n (P & F & D & C & N) H.
  destruct (append_doc_ok s n H (conj P (conj F D))) as (A & B & D').
  destruct (append_doc_fields s n) as (E1 & E2 & E3 & E4).
  unfold Live. split; [exact A|]. split; [exact B|]. split; [exact D'|].
  split; [congruence|]. unfold nss_ok in *. congruence.
Qed.

Lemma map_nonnil : forall (A B : Type) (f : A -> B) l l', map f l = map f l' -> l' <> [] -> l <> [].
Proof. intros A B f l l' H N. destruct l; [destruct l'; [congruence|discriminate]|discriminate]. Qed.

Lemma end_if_empty_inv : forall s, tphase s = PMain -> Live s -> Inv (end_if_empty s).
Proof.
  intros s Ph L. unfold end_if_empty. destruct (topen s) eqn:O; simpl.
  - apply Inv_end; [reflexivity|]. simpl. rewrite O. destruct L as (P & F & D & _). rewrite O in F. auto.
  - apply Inv_main; auto. rewrite O. discriminate.
Qed.

Theorem step_inv : forall s t, Inv s -> tok_wf t -> Inv (step s t).
Proof.
  intros s t I W. unfold Inv in I. unfold step. destruct (tphase s) eqn:Ph.
  - (* Start *)
    destruct I as [L O].
    destruct t as [k name attrs src|c|c|tg d|n p sy| |]; try (apply Inv_start; auto; fail).
    + destruct k; try (apply Inv_start; auto; fail).
      * destruct (process_namespaces s StartTag name attrs) as [[s1 name'] attrs'] eqn:PN.
        destruct (push_live s s1 (set_phase s1 PMain) _ _ _ _ _ _ L W PN) as [L' O']; auto.
        apply Inv_main; auto. rewrite O'. discriminate.
      * destruct (process_namespaces s EmptyTag name attrs) as [[s1 name'] attrs'] eqn:PN.
        destruct (pn_elem_lex _ _ _ _ _ _ _ _ L W PN) as (EL & A3 & A4 & A5 & A6 & A7 & A8 & A9).
        destruct L as (P & F & (D1 & D2) & C & N).
        apply Inv_end; [reflexivity|]. simpl. rewrite A5, A8. split; [exact P|]. split; [exact F|].
        unfold docs_ok. simpl. rewrite A6, A7. split; [|exact D2]. constructor; [|exact D1].
        apply all_elems_elem. split; [|constructor]. rewrite O in EL. exact EL.
    + destruct (ws_only c); apply Inv_start; auto.
    + destruct (append_doc_fields s (BComment c)) as (E1 & E2 & E3 & E4).
      apply Inv_start; [congruence|apply append_doc_live; simpl; auto|congruence].
    + destruct (append_doc_fields s (BPi tg d)) as (E1 & E2 & E3 & E4).
      apply Inv_start; [congruence|apply append_doc_live; simpl; auto|congruence].
    + destruct (existsb is_doctype (tdoc s)); [apply Inv_start; auto|].
      destruct (append_doc_fields s (BDoctype (ostr n) (ostr p) (ostr sy))) as (E1 & E2 & E3 & E4).
      apply Inv_start; [congruence|apply append_doc_live; simpl; auto|congruence].
    + apply Inv_end; [reflexivity|]. apply (Live_weaken s L).
  - (* Main *)
    destruct I as [L O].
    destruct t as [k name attrs src|c|c|tg d|n p sy| |].
    + destruct k.
      * destruct (process_namespaces s StartTag name attrs) as [[s1 name'] attrs'] eqn:PN.
        destruct (pn_elem_lex _ _ _ _ _ _ _ _ L W PN) as (EL & A3 & A4 & A5 & A6 & A7 & A8 & A9).
        destruct (topen s1) eqn:O1; [congruence|].
        destruct (push_live s s1 s1 _ _ _ _ _ _ L W PN) as [L' O']; auto.
        apply Inv_main; [simpl; congruence|auto|]. rewrite O'. discriminate.
      * destruct (process_namespaces s EndTag name attrs) as [[s1 name'] attrs'] eqn:PN.
        destruct (nokeep_live _ _ _ _ _ _ _ _ L W PN) as (L1 & O1 & P1); auto.
        destruct (close_tag_live s1 name' L1) as [L2 P2]; [congruence|].
        apply end_if_empty_inv; auto. congruence.
      * destruct (process_namespaces s EmptyTag name attrs) as [[s1 name'] attrs'] eqn:PN.
        destruct (pn_elem_lex _ _ _ _ _ _ _ _ L W PN) as (EL & A3 & A4 & A5 & A6 & A7 & A8 & A9).
        destruct (str_eqb (qlocal name') s_script) eqn:SC.
        -- destruct (topen s1) eqn:O1; [congruence|].
           destruct (push_live s s1 s1 _ _ _ _ _ _ L W PN) as [L' O']; auto.
           change name' with (fname (mkf name' attrs' src [])) at 2.
           rewrite (close_tag_top _ _ _ O').
           destruct (pop_live _ L') as (L2 & P2 & N2); [rewrite O'; discriminate|].
           rewrite O' in N2. simpl in N2.
           apply Inv_main; [simpl in P2; congruence|auto|].
           eapply map_nonnil; eauto.
        -- destruct (nokeep_live _ _ _ _ _ _ _ _ L W PN) as (L1 & O1 & P1).
           { unfold keeps_map. rewrite SC. reflexivity. }
           destruct (append_cur_live s1 (BElem name' attrs' src []) L1) as (L2 & P2 & N2); [congruence| |].
           { apply all_elems_elem. split; [|constructor]. rewrite O1. exact EL. }
           apply Inv_main; [congruence|auto|]. eapply map_nonnil; eauto. congruence.
      * destruct (topen s) eqn:O'; [congruence|].
        destruct (pop_live s L) as (L2 & P2 & N2); [rewrite O'; discriminate|].
        apply end_if_empty_inv; auto. congruence.
    + destruct (append_text_cur_live s c L O) as (L2 & P2 & N2).
      apply Inv_main; [congruence|auto|]. eapply map_nonnil; eauto.
    + destruct (append_cur_live s (BComment c) L O) as (L2 & P2 & N2); [simpl; auto|].
      apply Inv_main; [congruence|auto|]. eapply map_nonnil; eauto.
    + destruct (append_cur_live s (BPi tg d) L O) as (L2 & P2 & N2); [simpl; auto|].
      apply Inv_main; [congruence|auto|]. eapply map_nonnil; eauto.
    + apply Inv_main; auto.
    + apply Inv_end; [reflexivity|]. apply (Live_weaken s L).
    + apply Inv_end; [reflexivity|]. apply (Live_weaken s L).
  - (* End *)
    destruct t as [k name attrs src|c|c|tg d|n p sy| |]; try (apply Inv_end; auto; fail).
    + destruct (ws_only c); apply Inv_end; auto.
    + destruct (append_doc_fields s (BComment c)) as (E1 & E2 & E3 & E4).
      apply Inv_end; [congruence|]. apply append_doc_ok; simpl; auto.
    + destruct (append_doc_fields s (BPi tg d)) as (E1 & E2 & E3 & E4).
      apply Inv_end; [congruence|]. apply append_doc_ok; simpl; auto.
Qed.

Lemma Inv_init : Inv tb_init.
Proof.
  apply Inv_start; auto. unfold Live, docs_ok, nss_ok. simpl. repeat split; auto.
Qed.

Lemma run_from_inv : forall toks s, Inv s -> Forall tok_wf toks -> Inv (run_from s toks).
Proof.
  induction toks as [|t r IH]; intros s I W; simpl; auto.
  inversion W; subst. apply IH; auto. apply step_inv; auto.
Qed.

Lemma Inv_parts : forall s, Inv s -> tpanic s = false /\ frames_ok (topen s) /\ docs_ok s.
Proof.
  intros s I. unfold Inv in I. destruct (tphase s); auto; destruct I as [L _]; apply Live_weaken; auto.
Qed.

Lemma close_all_ok : forall fs acc, frames_ok fs ->
  (forall n, acc = Some n -> all_elems elem_lex (ctx_of fs) n) ->
  match close_all fs acc with
  | Some n => all_elems elem_lex [] n
  | None => True
  end.
Proof.
  induction fs as [|f r IH]; intros acc F A; simpl.
  - destruct acc; auto.
  - destruct F as (F1 & F2 & F3). apply IH; auto.
    intros n E. inversion E; subst. apply all_elems_elem. split; auto.
    apply Forall_rev. destruct acc as [m|]; auto.
Qed.

Lemma document_ok : forall s, Inv s -> Forall (all_elems elem_lex []) (document s).
Proof.
  intros s I. destruct (Inv_parts s I) as (P & F & D1 & D2). unfold document.
  apply Forall_app. split; [apply Forall_rev; auto|]. apply Forall_app. split; [|apply Forall_rev; auto].
  pose proof (close_all_ok (topen s) None F) as C.
  destruct (close_all (topen s) None); auto. constructor; auto. apply C. intros n E. discriminate.
Qed.

Lemma map_tokenize_wf : forall rts, Forall tok_wf (map tokenize rts).
Proof. induction rts; simpl; constructor; auto. apply tokenize_wf. Qed.

(* every element's name and attributes are determined by its own tag and the
   tags of its ancestors in the resulting tree, for EVERY token stream *)
Theorem lexical_scope : forall rts, Forall (all_elems elem_lex []) (parse_raw rts).
Proof.
  intro rts. unfold parse_raw, parse_tokens. apply document_ok.
  apply run_from_inv; [apply Inv_init|apply map_tokenize_wf].
Qed.

Theorem stack_invariant : forall rts,
  let s := run (map tokenize rts) in
  tpanic s = false /\
  (tphase s <> PEnd ->
   tcur s = [] /\ tnss s = map (fun f => dmap (snd (fsrc f))) (topen s) ++ [nm_default]).
Proof.
  intros rts s. assert (I : Inv s) by (apply run_from_inv; [apply Inv_init|apply map_tokenize_wf]).
  split; [apply (Inv_parts s I)|]. intro NE. unfold Inv in I.
  destruct (tphase s); try congruence; destruct I as [(P & F & D & C & N) _]; split; auto;
    unfold nss_ok, maps_of, ctx_of in N; rewrite map_map in N; exact N.
Qed.

(* C04, xml tree builder: no expect()/unwrap()/panic site of XmlTreeBuilder is reached, whatever the token stream
   (the model records such a site as [tpanic]) *)
Corollary tree_builder_never_panics : forall rts, tpanic (run (map tokenize rts)) = false.
Proof. intro rts. exact (proj1 (stack_invariant rts)). Qed.

(* ------------------------------------------------- from the maps to the spec *)

Lemma find_in_app : forall a b k,
  find_in (a ++ b) k = match find_in a k with Some v => Some v | None => find_in b k end.
Proof.
  induction a as [|m a IH]; intros b k; simpl; auto.
  destruct (nm_get m k); auto.
Qed.

Lemma find_in_maps : forall ctx k, find_in (map dmap ctx) k = lookup k ctx.
Proof.
  induction ctx as [|t r IH]; intros k; simpl; auto.
  rewrite dmap_binding. destruct (tag_binding k t); auto.
Qed.

Local Opaque s_xml s_xmlns s_script XML_URI XMLNS_URI.

Lemma default_lookup : forall k,
  match nm_get nm_default k with Some (Some u) => u | _ => [] end = fixed_binding k /\
  (nm_get nm_default k = None -> fixed_binding k = []).
Proof.
  intro k. unfold nm_default, fixed_binding. simpl nm_get.
  rewrite (ostr_eqb_sym k (Some s_xml)), (ostr_eqb_sym k (Some s_xmlns)).
  destruct k as [q|]; simpl.
  - destruct (str_eqb s_xml q) eqn:E1; [split; [reflexivity|discriminate]|].
    destruct (str_eqb s_xmlns q) eqn:E2; [split; [reflexivity|discriminate]|]. auto.
  - auto.
Qed.

Lemma bindq_spec : forall ctx p l,
  bindq (maps_of ctx) (mkq p [] l) = mkq p (resolve p ctx) l.
Proof.
  intros ctx p l. unfold bindq, maps_of, resolve. simpl qprefix. simpl qlocal.
  rewrite find_in_app, find_in_maps.
  destruct (lookup p ctx) as [[u|]|]; auto.
  change (find_in [nm_default] p) with
    (match nm_get nm_default p with Some v => Some v | None => @None (option str) end).
  destruct (default_lookup p) as [D1 D2].
  destruct (nm_get nm_default p) as [[u|]|] eqn:G; try (rewrite <- D1; reflexivity).
Qed.

Theorem elem_name_spec : forall ctx name attrs src,
  elem_lex ctx name attrs src -> name_scoped ctx name attrs src.
Proof.
  intros ctx name attrs src [E _]. unfold name_scoped, spec_elem_name.
  rewrite E, process_qname_spec. rewrite bindq_spec.
  destruct (spec_split (fst src)); reflexivity.
Qed.

(* ----------------------------------------------------------- attributes *)

Definition nonx (x : rawattr) : bool := negb (xmlnsish x).

Lemma pair_eqb_eq' : forall a b, pair_eqb a b = true <-> a = b.
Proof.
  intros [a1 a2] [b1 b2]. unfold pair_eqb. simpl. rewrite andb_true_iff, !str_eqb_eq.
  split; [intros [? ?]; congruence|intro H; inversion H; auto].
Qed.

Lemma akey_eqb_eq' : forall a b, akey_eqb a b = true <-> a = b.
Proof.
  intros [a1 a2] [b1 b2]. unfold akey_eqb. simpl. rewrite andb_true_iff, pair_eqb_eq', Bool.eqb_true_iff.
  split; [intros [? ?]; congruence|intro H; inversion H; auto].
Qed.

Lemma bind_attrs_pure_skip : forall D maps P rest,
  forallb (fun a => is_xmlns_attr (aname a)) D = true ->
  bind_attrs_pure maps P (D ++ rest) = bind_attrs_pure maps P rest.
Proof.
  induction D as [|a D IH]; intros maps P rest H; simpl; auto.
  simpl in H. apply andb_true_iff in H. destruct H as [H1 H2]. rewrite H1. apply IH; auto.
Qed.

Definition Rel (scopes : list (list rawattr)) (seen : list str) (P : list (str * str))
           (S : list (bool * (str * str))) : Prop :=
  (forall n, classify_raw n = KOther None n ->
             existsb (str_eqb n) seen = existsb (akey_eqb (false, ([], n))) S) /\
  (forall pr, existsb (pair_eqb pr) P = existsb (akey_eqb (true, pr)) S) /\
  (forall n p l, classify_raw n = KOther (Some p) l -> In n seen ->
                 existsb (akey_eqb (true, (resolve (Some p) scopes, l))) S = true).

Lemma Rel_seen_decl : forall scopes n seen P S, Rel scopes seen P S ->
  (forall p l, classify_raw n <> KOther p l) -> Rel scopes (n :: seen) P S.
Proof.
  intros scopes n seen P S (R1 & R2 & R3) H. split; [|split]; auto.
  - intros n' C. simpl. rewrite R1; auto.
    assert (E : str_eqb n' n = false) by (apply str_eqb_neq; intro; subst; eapply H; eauto). rewrite E. reflexivity.
  - intros n' p l C [E|I]; [subst; exfalso; eapply H; eauto|eauto].
Qed.

Lemma process_qname_mk : forall n, process_qname n = mkq (prefix_of n) [] (local_of n).
Proof. intro n. apply process_qname_spec. Qed.

Lemma attrs_compose : forall scopes raws seen P S, Rel scopes seen P S ->
  bind_attrs_pure (maps_of scopes) P (map mk (filter nonx (keptR seen raws))) =
  dedup_from S (filter_map (spec_attr scopes) raws).
Proof.
  intros scopes. induction raws as [|[n v] r IH]; intros seen P S RL; [reflexivity|].
  cbn [keptR filter_map]. unfold spec_attr at 1. simpl fst. simpl snd.
  destruct (is_nil n) eqn:En; [apply IH; auto|].
  pose proof (xmlnsish_classify n v) as X.
  destruct (classify_raw n) as [| p | p l] eqn:C.
  - assert (RL' : Rel scopes (n :: seen) P S) by (apply Rel_seen_decl; auto; intros; congruence).
    destruct (existsb (str_eqb n) seen); [apply IH; auto|].
    cbn [filter]. unfold nonx at 1. rewrite X. simpl. apply IH; auto.
  - assert (RL' : Rel scopes (n :: seen) P S) by (apply Rel_seen_decl; auto; intros; congruence).
    destruct (existsb (str_eqb n) seen); [apply IH; auto|].
    cbn [filter]. unfold nonx at 1. rewrite X. simpl. apply IH; auto.
  - pose proof (classify_other _ _ _ C) as (PF & LC & NX & ND).
    destruct RL as (R1 & R2 & R3).
    destruct p as [p|].
    + (* prefixed attribute *)
      cbn [dedup_from]. unfold akey at 1. simpl negb. simpl qns. simpl qlocal. simpl snd.
      destruct (existsb (str_eqb n) seen) eqn:SN.
      * (* the tokenizer dropped it: an earlier attribute has the same name, hence the same expanded name *)
        apply existsb_str_In in SN. rewrite (R3 n p l C SN). apply IH. split; [|split]; auto.
      * cbn [filter]. unfold nonx at 1. rewrite X. simpl negb. cbn [map bind_attrs_pure].
        assert (XA : is_xmlns_attr (aname (mk (n, v))) = false) by exact X. rewrite XA.
        unfold mk at 1. simpl aname. rewrite process_qname_mk, PF, LC. simpl qprefix.
        rewrite bindq_spec. simpl qns. simpl qlocal. unfold mk. simpl avalue. simpl snd.
        rewrite R2.
        destruct (existsb (akey_eqb (true, (resolve (Some p) scopes, l))) S) eqn:EX.
        -- apply IH. split; [|split]; auto.
           ++ intros n' C'. simpl. rewrite R1; auto.
              assert (E : str_eqb n' n = false) by (apply str_eqb_neq; intro; subst; congruence).
              rewrite E. reflexivity.
           ++ intros n' p' l' C' [E|I]; [subst n'; rewrite C in C'; inversion C'; subst; exact EX|eauto].
        -- f_equal. apply IH. split; [|split].
           ++ intros n' C'. simpl. rewrite R1; auto.
              assert (E : str_eqb n' n = false) by (apply str_eqb_neq; intro; subst; congruence).
              rewrite E. reflexivity.
           ++ intro pr. simpl. rewrite R2. reflexivity.
           ++ intros n' p' l' C' [E|I].
              ** subst n'. rewrite C in C'. inversion C'; subst. simpl.
                 rewrite (proj2 (akey_eqb_eq' _ _) eq_refl). reflexivity.
              ** simpl. rewrite (R3 _ _ _ C' I). first [reflexivity|apply orb_true_r].
    + (* unprefixed attribute *)
      assert (LN : l = n) by (rewrite <- LC; apply unprefixed_local; auto). rewrite LN in *. clear LN.
      cbn [dedup_from].
      assert (EQ : existsb (str_eqb n) seen = existsb (akey_eqb (akey (mka (mkq None [] n) v))) S)
        by (rewrite (R1 n C); reflexivity).
      rewrite EQ. clear EQ.
      destruct (existsb (akey_eqb (akey (mka (mkq None [] n) v))) S) eqn:EX.
      * apply IH. split; [|split]; auto.
      * cbn [filter]. unfold nonx at 1. rewrite X. simpl negb. cbn [map bind_attrs_pure].
        assert (XA : is_xmlns_attr (aname (mk (n, v))) = false) by exact X. rewrite XA.
        unfold mk at 1. simpl aname. rewrite process_qname_mk, PF. simpl qprefix.
        unfold mk. simpl fst. simpl snd. rewrite process_qname_mk, PF, LC.
        f_equal. apply IH. split; [|split].
        -- intros n' C'. simpl. rewrite R1; auto.
        -- intro pr. simpl. rewrite R2. reflexivity.
        -- intros n' p' l' C' [E|I]; [subst; congruence|]. simpl. rewrite (R3 _ _ _ C' I). first [reflexivity|apply orb_true_r].
Qed.

Lemma forallb_rev_xmlnsish : forall l,
  forallb (fun a => is_xmlns_attr (aname a)) (rev (map mk (filter xmlnsish l))) = true.
Proof.
  intro l. rewrite forallb_forall. intros a H. apply in_rev in H. apply in_map_iff in H.
  destruct H as (x & E & Hx). apply filter_In in Hx. subst a. apply Hx.
Qed.

Theorem elem_attrs_spec : forall ctx name attrs src,
  elem_lex ctx name attrs src -> attrs_scoped ctx name attrs src.
Proof.
  intros ctx name attrs src [_ E]. unfold attrs_scoped.
  rewrite E, tok_attrs_tk, tk_spec. simpl fst. simpl snd.
  rewrite bind_attrs_pure_skip by apply forallb_rev_xmlnsish.
  unfold spec_attrs. apply attrs_compose.
  split; [|split]; intros; try reflexivity. contradiction.
Qed.

Lemma all_elems_mono : forall (P Q : list (list rawattr) -> qname -> list attr -> tagsrc -> Prop),
  (forall ctx n a s, P ctx n a s -> Q ctx n a s) ->
  forall n ctx, all_elems P ctx n -> all_elems Q ctx n.
Proof.
  intros P Q HPQ. fix IH 1. intros n ctx H. destruct n as [name attrs src kids| | | |]; simpl in *; auto.
  destruct H as [H1 H2]. split; auto.
  revert H2. generalize (snd src :: ctx). intro c.
  induction kids as [|k r IHr]; simpl; auto. intros [A B]. split; [apply IH; exact A|apply IHr; exact B].
Qed.

Theorem scope_all : forall rts, Forall (all_elems name_scoped []) (parse_raw rts).
Proof.
  intro rts. eapply Forall_impl; [|apply lexical_scope].
  intro n. apply all_elems_mono. apply elem_name_spec.
Qed.

Theorem attrs_all : forall rts, Forall (all_elems attrs_scoped []) (parse_raw rts).
Proof.
  intro rts. eapply Forall_impl; [|apply lexical_scope].
  intro n. apply all_elems_mono. apply elem_attrs_spec.
Qed.

(* ------------------------------------------- order independence of the rule *)
From Coq Require Import Permutation.

Lemma pair_eqb_eq : forall a b, pair_eqb a b = true <-> a = b.
Proof.
  intros [a1 a2] [b1 b2]. unfold pair_eqb. simpl. rewrite andb_true_iff, !str_eqb_eq.
  split; [intros [? ?]; congruence|intro H; inversion H; auto].
Qed.

Lemma akey_eqb_eq : forall a b, akey_eqb a b = true <-> a = b.
Proof.
  intros [a1 a2] [b1 b2]. unfold akey_eqb. simpl. rewrite andb_true_iff, pair_eqb_eq, Bool.eqb_true_iff.
  split; [intros [? ?]; congruence|intro H; inversion H; auto].
Qed.

Lemma existsb_akey_In : forall k seen, existsb (akey_eqb k) seen = true <-> In k seen.
Proof.
  intros k seen. rewrite existsb_exists. split.
  - intros (x & Hx & E). apply akey_eqb_eq in E. subst. auto.
  - intro H. exists k. split; auto. apply akey_eqb_eq. reflexivity.
Qed.

(* the expanded names that survive are exactly the expanded names present *)
Lemma dedup_from_keys : forall l seen k,
  In k (map akey (dedup_from seen l)) <-> (In k (map akey l) /\ ~ In k seen).
Proof.
  induction l as [|a l IH]; intros seen k; simpl.
  - tauto.
  - destruct (existsb (akey_eqb (akey a)) seen) eqn:E.
    + apply existsb_akey_In in E. rewrite IH. split.
      * intros [H1 H2]. auto.
      * intros [[H1|H1] H2]; [subst; contradiction|auto].
    + assert (NI : ~ In (akey a) seen) by (intro X; apply existsb_akey_In in X; congruence).
      simpl. rewrite IH. simpl. split.
      * intros [H|[H1 H2]]; [subst; auto|]. split; auto.
      * intros [[H1|H1] H2]; auto.
        destruct (akey_eqb (akey a) k) eqn:E2; [apply akey_eqb_eq in E2; auto|].
        right. split; auto. intros [X|X]; auto. subst. rewrite (proj2 (akey_eqb_eq _ _) eq_refl) in E2. discriminate.
Qed.

Lemma dedup_from_nodup : forall l seen, NoDup (map akey (dedup_from seen l)).
Proof.
  induction l as [|a l IH]; intro seen; simpl; [constructor|].
  destruct (existsb (akey_eqb (akey a)) seen); auto.
  simpl. constructor; auto. rewrite dedup_from_keys. intros [_ H]. apply H. left. reflexivity.
Qed.

Lemma filter_map_perm : forall (A B : Type) (f : A -> option B) l l',
  Permutation l l' -> Permutation (filter_map f l) (filter_map f l').
Proof.
  intros A B f l l' H. induction H; simpl; auto.
  - destruct (f x); auto.
  - destruct (f x), (f y); auto. apply perm_swap.
  - eapply perm_trans; eauto.
Qed.

(* which expanded names an element ends up with does not depend on the order
   in which the attributes were written (only WHICH of two equal names
   supplies the value does: the first) *)
Theorem spec_attrs_order_independent : forall scopes raws raws',
  Permutation raws raws' ->
  forall k, In k (map akey (spec_attrs scopes raws)) <-> In k (map akey (spec_attrs scopes raws')).
Proof.
  intros scopes raws raws' H k. unfold spec_attrs. rewrite !dedup_from_keys.
  pose proof (Permutation_map akey (filter_map_perm _ _ (spec_attr scopes) _ _ H)) as PM.
  split; intros [H1 H2]; split; auto.
  - eapply Permutation_in; eauto.
  - eapply Permutation_in; [apply Permutation_sym|]; eauto.
Qed.

(* ------------------------------------------- the former finding witnesses *)
Local Transparent s_xml s_xmlns s_script XML_URI XMLNS_URI.

(* <a p:x="1" x="2"/> : both attributes are kept (was DESIGN 6.3 row 8) *)
Definition w8 : list rtoken := [RTag EmptyTag [97] [([112;58;120], [49]); ([120], [50])]; REof].
(* <a p:xmlns="v" y="1"/> : p:xmlns is an attribute (was row 9) *)
Definition w9 : list rtoken := [RTag EmptyTag [97] [([112;58;120;109;108;110;115], [118]); ([121], [49])]; REof].
(* <a xmlns:p="u" xmlns:p="v"><p:b/></a> : the first declaration counts *)
Definition wdup : list rtoken :=
  [RTag StartTag [97] [([120;109;108;110;115;58;112], [117]); ([120;109;108;110;115;58;112], [118])];
   RTag EmptyTag [112;58;98] []; RTag EndTag [97] []; REof].

Example former_witnesses :
  map erase (parse_raw w8) =
    [XElem (mkq None [] [97]) [mka (mkq (Some [112]) [] [120]) [49]; mka (mkq None [] [120]) [50]] []] /\
  map erase (parse_raw w9) =
    [XElem (mkq None [] [97]) [mka (mkq (Some [112]) [] [120;109;108;110;115]) [118]; mka (mkq None [] [121]) [49]] []] /\
  map erase (parse_raw wdup) =
    [XElem (mkq None [] [97]) [] [XElem (mkq (Some [112]) [117] [98]) [] []]].
Proof. vm_compute. auto. Qed.
