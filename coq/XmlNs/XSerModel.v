(* Executable model of xml5ever/src/serialize/mod.rs (XmlSerializer) driven by
   the traversal of markup5ever_rcdom::SerializableHandle (rcdom/lib.rs:615-675,
   an explicit-stack preorder walk: start_elem, children, end_elem), as of the
   repairs 1365bbe, 94524fa, 90b86cd, cc87c47, e751ebf in /repo.

   The serializer's output is modelled in two steps: [ser_doc] yields the
   sequence of structured items exactly as the Serializer methods are called
   and with the declarations the namespace bookkeeping decided to write;
   [render] turns the items into the characters written.  No proofs here. *)
From Coq Require Import List NArith Bool.
From HV Require Import XmlNs.XTreeModel.
Import ListNotations.
Local Open Scope N_scope.

(* the serializer's NamespaceMapStack starts EMPTY (no xml/xmlns bindings);
   top of the stack = head of the list *)
Definition sstack := list nsmap.

(* the maps are BTreeMaps and start_elem writes the declarations in iteration
   order: keys sorted, None before Some, prefixes by str::cmp (bytewise on
   UTF-8, i.e. by code point) *)
Fixpoint str_cmp (a b : str) : comparison :=
  match a, b with
  | [], [] => Eq
  | [], _ => Lt
  | _, [] => Gt
  | x :: a', y :: b' => match x ?= y with Eq => str_cmp a' b' | c => c end
  end.

Definition okey_cmp (a b : option str) : comparison :=
  match a, b with
  | None, None => Eq
  | None, Some _ => Lt
  | Some _, None => Gt
  | Some x, Some y => str_cmp x y
  end.

Fixpoint bt_insert (m : nsmap) (k : option str) (v : option str) : nsmap :=
  match m with
  | [] => [(k, v)]
  | (k', v') :: r =>
    match okey_cmp k k' with
    | Lt => (k, v) :: m
    | Eq => (k, v) :: r
    | Gt => (k', v') :: bt_insert r k v
    end
  end.

(* NamespaceMap::insert(name): scope.insert(prefix, Some(ns)) *)
Definition sm_insert (m : nsmap) (q : qname) : nsmap :=
  bt_insert m (qprefix q) (Some (qns q)).

(* the prefixes xml and xmlns are bound by definition and are never declared *)
Definition fixed_name (q : qname) : bool :=
  (ostr_eqb (qprefix q) (Some s_xml) && str_eqb (qns q) XML_URI) ||
  (ostr_eqb (qprefix q) (Some s_xmlns) && str_eqb (qns q) XMLNS_URI).

(* the innermost map holding Some(uri) for the prefix *)
Fixpoint s_scope (st : sstack) (k : option str) : option str :=
  match st with
  | [] => None
  | m :: r =>
    match nm_get m k with
    | Some (Some el) => Some el
    | _ => s_scope r k
    end
  end.

(* XmlSerializer::find_uri: is the name's binding in scope?  With nothing
   declared for the prefix only an unprefixed name in no namespace is. *)
Definition s_find_uri (st : sstack) (q : qname) : bool :=
  fixed_name q ||
  match s_scope st (qprefix q) with
  | Some el => str_eqb el (qns q)
  | None => is_none (qprefix q) && is_nil (qns q)
  end.

Definition find_or_insert_ns (st : sstack) (q : qname) : sstack :=
  if s_find_uri st q then st
  else match st with
       | m :: r => sm_insert m q :: r          (* last_mut() *)
       | [] => []
       end.

Inductive item :=
| IStart (name : qname) (decls : nsmap) (attrs : list attr)
| IEnd (name : qname)
| IText (s : str) | IComment (s : str) | IPi (target data : str) | IDoctype (name : str).

(* only prefixed attribute names are looked up *)
Fixpoint reg_attrs (st : sstack) (attrs : list attr) : sstack :=
  match attrs with
  | [] => st
  | a :: r =>
    reg_attrs (if is_none (qprefix (aname a)) then st else find_or_insert_ns st (aname a)) r
  end.

(* start_elem: push an empty map, look up the element name and the prefixed
   attribute names, THEN write the declarations of the top map and the
   attributes *)
Definition start_elem (st : sstack) (name : qname) (attrs : list attr) : item * sstack :=
  let st1 := reg_attrs (find_or_insert_ns (nm_empty :: st) name) attrs in
  let decls := match st1 with m :: _ => m | [] => [] end in
  (IStart name decls attrs, st1).

(* end_elem: pop; the name is written without a lookup *)
Definition end_elem (st : sstack) (name : qname) : item * sstack :=
  (IEnd name, tl st).

Fixpoint ser_node (n : xnode) (st : sstack) : list item * sstack :=
  match n with
  | XElem name attrs kids =>
    let (i1, st1) := start_elem st name attrs in
    let (is, st2) :=
      (fix go (l : list xnode) (st : sstack) : list item * sstack :=
         match l with
         | [] => ([], st)
         | k :: r => let (a, st') := ser_node k st in
                     let (b, st'') := go r st' in (a ++ b, st'')
         end) kids st1 in
    let (i2, st3) := end_elem st2 name in
    (i1 :: is ++ [i2], st3)
  | XText s => ([IText s], st)
  | XComment s => ([IComment s], st)
  | XPi t d => ([IPi t d], st)
  | XDoctype n _ _ => ([IDoctype n], st)
  end.

Fixpoint ser_nodes (l : list xnode) (st : sstack) : list item * sstack :=
  match l with
  | [] => ([], st)
  | k :: r => let (a, st') := ser_node k st in
              let (b, st'') := ser_nodes r st' in (a ++ b, st'')
  end.

(* serialize(writer, &document, SerializeOpts::default()): ChildrenOnly *)
Definition ser_doc (kids : list xnode) : list item := fst (ser_nodes kids []).

(* ------------------------------------------------------------- rendering *)

(* write_to_buf_escaped *)
Definition escape_char (attr_mode : bool) (c : N) : str :=
  if c =? 38 then [38;97;109;112;59]                               (* &amp; *)
  else if (c =? 39) && attr_mode then [38;97;112;111;115;59]       (* &apos; *)
  else if (c =? 34) && attr_mode then [38;113;117;111;116;59]      (* &quot; *)
  else if (c =? 60) && negb attr_mode then [38;108;116;59]         (* &lt; *)
  else if (c =? 62) && negb attr_mode then [38;103;116;59]         (* &gt; *)
  else if c =? 13 then [38;35;49;51;59]                            (* &#13; *)
  else [c].

Definition escape (attr_mode : bool) (s : str) : str := flat_map (escape_char attr_mode) s.

(* write_qual_name *)
Definition qual (q : qname) : str :=
  match qprefix q with
  | Some p => p ++ [colon] ++ qlocal q
  | None => qlocal q
  end.

Definition render_decl (d : option str * option str) : str :=
  [32;120;109;108;110;115]                                          (* " xmlns" *)
  ++ (match fst d with Some p => colon :: p | None => [] end)
  ++ [61;34] ++ escape true (ostr (snd d)) ++ [34].                 (* escaped like a value *)

Definition render_attr (a : attr) : str :=
  [32] ++ qual (aname a) ++ [61;34] ++ escape true (avalue a) ++ [34].

Definition render_item (i : item) : str :=
  match i with
  | IStart name decls attrs =>
    [60] ++ qual name ++ flat_map render_decl decls ++ flat_map render_attr attrs ++ [62]
  | IEnd name => [60;47] ++ qual name ++ [62]
  | IText s => escape false s
  | IComment s => [60;33;45;45] ++ s ++ [45;45;62]
  | IPi t d => [60;63] ++ t ++ [32] ++ d ++ [63;62]
  | IDoctype n => [60;33;68;79;67;84;89;80;69;32] ++ n ++ [62]
  end.

Definition render (is : list item) : str := flat_map render_item is.

Definition serialize (kids : list xnode) : str := render (ser_doc kids).

(* --------------------------------------------------- what the items denote *)

(* the token an item is lexed back into (the raw tag the tokenizer collects
   from the item's characters); text is delivered piecewise by the real
   tokenizer, which RcDom's append merges again *)
Definition decl_rawattr (d : option str * option str) : rawattr :=
  (s_xmlns ++ (match fst d with Some p => colon :: p | None => [] end), ostr (snd d)).

Definition attr_rawattr (a : attr) : rawattr := (qual (aname a), avalue a).

Definition item_rtoken (i : item) : rtoken :=
  match i with
  | IStart name decls attrs =>
    RTag StartTag (qual name) (map decl_rawattr decls ++ map attr_rawattr attrs)
  | IEnd name => RTag EndTag (qual name) []
  | IText s => RChars s
  | IComment s => RComment s
  | IPi t d => RPi t d
  | IDoctype n => RDoctype (Some n) None None
  end.

(* ----------------------------------------------- character data, lexed back *)

(* The Data state of the XML tokenizer on the characters of a text node up to
   the next '<' (tokenizer/mod.rs Data + get_preprocessed_char + the five
   predefined entities of the character reference tokenizer):
   CR and CR LF become LF; "&name;" with a predefined name becomes its
   character, "&#13;" a CR; any other use of '&' and U+0000 are outside this
   model (None). *)
Definition entity (s : str) : option (N * str) :=
  match s with
  | 97 :: 109 :: 112 :: 59 :: r => Some (38, r)                 (* amp; *)
  | 108 :: 116 :: 59 :: r => Some (60, r)                       (* lt; *)
  | 103 :: 116 :: 59 :: r => Some (62, r)                       (* gt; *)
  | 113 :: 117 :: 111 :: 116 :: 59 :: r => Some (34, r)         (* quot; *)
  | 97 :: 112 :: 111 :: 115 :: 59 :: r => Some (39, r)          (* apos; *)
  | 35 :: 49 :: 51 :: 59 :: r => Some (13, r)                   (* #13; *)
  | _ => None
  end.

Fixpoint lex_text (fuel : nat) (s : str) : option (str * str) :=
  match fuel with
  | O => None
  | S n =>
    match s with
    | [] => Some ([], [])
    | c :: r =>
      if c =? 60 then Some ([], s)
      else if c =? 0 then None
      else if c =? 13 then
        let r' := match r with 10 :: r2 => r2 | _ => r end in
        match lex_text n r' with Some (t, rest) => Some (10 :: t, rest) | None => None end
      else if c =? 38 then
        match entity r with
        | Some (x, r') =>
          match lex_text n r' with Some (t, rest) => Some (x :: t, rest) | None => None end
        | None => None
        end
      else match lex_text n r with Some (t, rest) => Some (c :: t, rest) | None => None end
    end
  end.

(* TagAttrValue(DoubleQuoted) up to the closing quote.  A literal CR inside a
   value is outside this model (the serializer never writes one). *)
Fixpoint lex_attr_value (fuel : nat) (s : str) : option (str * str) :=
  match fuel with
  | O => None
  | S n =>
    match s with
    | [] => None
    | c :: r =>
      if c =? 34 then Some ([], r)
      else if (c =? 0) || (c =? 13) then None
      else if c =? 38 then
        match entity r with
        | Some (x, r') =>
          match lex_attr_value n r' with Some (t, rest) => Some (x :: t, rest) | None => None end
        | None => None
        end
      else match lex_attr_value n r with Some (t, rest) => Some (c :: t, rest) | None => None end
    end
  end.
