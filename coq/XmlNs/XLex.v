(* C17, lexing side: character data and attribute values written by the XML serializer
   (XSerModel.escape) are read back by the TokIR interpreter of the regenerated xml tokenizer
   table (reference semantics, exact_errors = true) as the same characters. *)
From Coq Require Import List NArith Bool Lia.
From RecordUpdate Require Import RecordSet.
From HV Require Import TokIR.IR TokIR.Interp XmlNs.XLexBase.
From HV Require XmlNs.XTreeModel XmlNs.XSerModel XmlNs.XSerSpec.
Import ListNotations RecordSetNotations.
Local Open Scope N_scope.

Notation escape := XSerModel.escape.
Notation no_nul := XSerSpec.no_nul.
Notation DQ := (XTagAttrValue KDoubleQuoted).

(* exact_errors reports control characters and non-characters where they are read; the
   reference &#13; is a parse error by itself.  Nothing else is reported. *)
Definition reported (c : N) : bool := (c =? 13) || bad_char c.
(* the tokens a text node is delivered as, oldest first: one character token per character *)
Definition exp_char (c : N) : list token := (if reported c then [TError] else []) ++ [TChars [c]].
Definition exp_text (s : list N) : list token := flat_map exp_char s.
(* an attribute value only leaves its parse errors in the token stream *)
Definition err_toks (s : list N) : list token := flat_map (fun c => if reported c then [TError] else []) s.

Section L.
Variable tb : table xstate.
Hypothesis TB : xml_bodies tb.
Variable simd : list N * list N * list N.
Variable ent : list N -> option (N * N).
Variable c1 : N -> option N.
Variable sk : sinkcfg.
Hypothesis E5 : ent_five ent.

Notation xstep := (xstep tb simd ent c1 sk).
Notation xsteps := (xsteps tb simd ent c1 sk).

Ltac bodies := rewrite ?(tb_data _ TB), ?(tb_tagstate _ TB), ?(tb_endtagstate _ TB), ?(tb_endtagname _ TB), ?(tb_tagname _ TB),
  ?(tb_anb _ TB), ?(tb_an _ TB), ?(tb_avb _ TB), ?(tb_dq _ TB).
Ltac one := eapply xs_step; [unfold XLexBase.xstep, step, mkM; cbn [mc cref st]; bodies; cbv -[N.add N.sub ent]; reflexivity|].
Ltac fin := unfold mkM; apply xs_refl.

(* ------------------------------------------------------------ Data state *)
Lemma data_plain : forall b cu tk tn ta an av c q o k,
  (c =? 38) = false -> (c =? 60) = false -> (c =? 13) = false -> (c =? 0) = false ->
  exists o' k', xsteps (mkM b XData false cu false None tk tn ta an av (c :: q) o k)
                       (mkM b XData false c false None tk tn ta an av q o' k') /\
                otoks o' = TChars [c] :: (if bad_char c then [TError] else []) ++ otoks o.
Proof.
  intros b cu tk tn ta an av c q o k N38 N60 N13 N0.
  assert (H : exists o' k', xstep (mkM b XData false cu false None tk tn ta an av (c :: q) o k) =
                            (mkM b XData false c false None tk tn ta an av q o' k', SContinue) /\
                            otoks o' = TChars [c] :: (if bad_char c then [TError] else []) ++ otoks o).
  { unfold XLexBase.xstep, step, mkM. cbn [mc cref st]. bodies. cbn -[bad_char N.eqb N.add]. unfold CR, LF, REPL.
    rewrite ?N13, ?N0. cbn -[bad_char N.eqb N.add]. rewrite ?N38, ?N60. cbn -[bad_char N.eqb N.add].
    destruct (bad_char c); cbn -[N.eqb N.add]; rewrite ?N0; do 2 eexists; split; reflexivity. }
  destruct H as (o' & k' & H & T). exists o', k'. split; auto. apply xsteps_one. exact H.
Qed.

Lemma data_lt : forall b cu tk tn ta an av q o k, exists k',
  xsteps (mkM b XData false cu false None tk tn ta an av (60 :: q) o k)
         (mkM b XTagState false 60 false None tk tn ta an av q o k').
Proof. intros. eexists. one. fin. Qed.

Lemma data_amp : forall b cu tk tn ta an av q o k, exists k',
  xsteps (mkM b XData false cu false None tk tn ta an av (38 :: q) o k)
         (mkM b XData false 38 false (Some (cr_new false None)) tk tn ta an av q o k').
Proof. intros. eexists. one. fin. Qed.

Lemma escape_cons : forall m c s, escape m (c :: s) = XSerModel.escape_char m c ++ escape m s.
Proof. reflexivity. Qed.

Lemma rev_exp_cons : forall c s l, rev (exp_text (c :: s)) ++ l = rev (exp_text s) ++ rev (exp_char c) ++ l.
Proof. intros. unfold exp_text. simpl. rewrite rev_app_distr, app_assoc. reflexivity. Qed.

(* (a) character data up to the next '<' *)
Lemma text_lex : forall s b cu tk tn ta an av rest o k, no_nul s = true ->
  exists cu' o' k',
    xsteps (mkM b XData false cu false None tk tn ta an av (escape false s ++ 60 :: rest) o k)
           (mkM b XData false cu' false None tk tn ta an av (60 :: rest) o' k') /\
    otoks o' = rev (exp_text s) ++ otoks o.
Proof.
  induction s as [|c s IH]; intros b cu tk tn ta an av rest o k NN.
  - exists cu, o, k. split; [apply xs_refl|reflexivity].
  - simpl in NN. apply andb_true_iff in NN. destruct NN as [N0 NN]. apply negb_true_iff in N0.
    rewrite escape_cons, <- app_assoc. rewrite rev_exp_cons.
    destruct (escape false s ++ 60 :: rest) as [|x q] eqn:EQ; [destruct (escape false s); discriminate|].
    unfold XSerModel.escape_char. simpl andb.
    destruct (c =? 38) eqn:E38.
    { apply N.eqb_eq in E38. subst c. simpl app.
      destruct (data_amp b cu tk tn ta an av (97 :: 109 :: 112 :: 59 :: x :: q) o k) as (k1 & S1).
      destruct (cr_data_amp tb simd ent c1 sk E5 b 38 tk tn ta an av x q o k1) as (cu2 & o2 & k2 & S2 & T2).
      destruct (IH b cu2 tk tn ta an av rest o2 k2 NN) as (cu3 & o3 & k3 & S3 & T3). rewrite EQ in S3.
      exists cu3, o3, k3. split; [eapply (xsteps_trans tb simd ent c1 sk); [exact S1|eapply (xsteps_trans tb simd ent c1 sk); [exact S2|exact S3]]|].
      rewrite T3, T2. reflexivity. }
    rewrite !andb_false_r. rewrite !andb_true_r.
    destruct (c =? 60) eqn:E60.
    { apply N.eqb_eq in E60. subst c. simpl app.
      destruct (data_amp b cu tk tn ta an av (108 :: 116 :: 59 :: x :: q) o k) as (k1 & S1).
      destruct (cr_data_lt tb simd ent c1 sk E5 b 38 tk tn ta an av x q o k1) as (cu2 & o2 & k2 & S2 & T2).
      destruct (IH b cu2 tk tn ta an av rest o2 k2 NN) as (cu3 & o3 & k3 & S3 & T3). rewrite EQ in S3.
      exists cu3, o3, k3. split; [eapply (xsteps_trans tb simd ent c1 sk); [exact S1|eapply (xsteps_trans tb simd ent c1 sk); [exact S2|exact S3]]|].
      rewrite T3, T2. reflexivity. }
    destruct (c =? 62) eqn:E62.
    { apply N.eqb_eq in E62. subst c. simpl app.
      destruct (data_amp b cu tk tn ta an av (103 :: 116 :: 59 :: x :: q) o k) as (k1 & S1).
      destruct (cr_data_gt tb simd ent c1 sk E5 b 38 tk tn ta an av x q o k1) as (cu2 & o2 & k2 & S2 & T2).
      destruct (IH b cu2 tk tn ta an av rest o2 k2 NN) as (cu3 & o3 & k3 & S3 & T3). rewrite EQ in S3.
      exists cu3, o3, k3. split; [eapply (xsteps_trans tb simd ent c1 sk); [exact S1|eapply (xsteps_trans tb simd ent c1 sk); [exact S2|exact S3]]|].
      rewrite T3, T2. reflexivity. }
    destruct (c =? 13) eqn:E13.
    { apply N.eqb_eq in E13. subst c. simpl app.
      destruct (data_amp b cu tk tn ta an av (35 :: 49 :: 51 :: 59 :: x :: q) o k) as (k1 & S1).
      destruct (cr_data_cr tb simd ent c1 sk b 38 tk tn ta an av (x :: q) o k1) as (cu2 & o2 & k2 & S2 & T2).
      destruct (IH b cu2 tk tn ta an av rest o2 k2 NN) as (cu3 & o3 & k3 & S3 & T3). rewrite EQ in S3.
      exists cu3, o3, k3. split; [eapply (xsteps_trans tb simd ent c1 sk); [exact S1|eapply (xsteps_trans tb simd ent c1 sk); [exact S2|exact S3]]|].
      rewrite T3, T2. reflexivity. }
    simpl app.
    destruct (data_plain b cu tk tn ta an av c (x :: q) o k E38 E60 E13 N0) as (o2 & k2 & S2 & T2).
    destruct (IH b c tk tn ta an av rest o2 k2 NN) as (cu3 & o3 & k3 & S3 & T3). rewrite EQ in S3.
    exists cu3, o3, k3. split; [eapply (xsteps_trans tb simd ent c1 sk); [exact S2|exact S3]|].
    rewrite T3, T2. unfold exp_char, reported. rewrite E13. simpl orb.
    destruct (bad_char c); reflexivity.
Qed.

(* ... and the tokenizer goes on in the tag state *)
Theorem text_then_tag : forall s b cu tk tn ta an av rest o k, no_nul s = true ->
  exists o' k',
    xsteps (mkM b XData false cu false None tk tn ta an av (escape false s ++ 60 :: rest) o k)
           (mkM b XTagState false 60 false None tk tn ta an av rest o' k') /\
    otoks o' = rev (exp_text s) ++ otoks o.
Proof.
  intros. destruct (text_lex s b cu tk tn ta an av rest o k H) as (cu1 & o1 & k1 & S1 & T1).
  destruct (data_lt b cu1 tk tn ta an av rest o1 k1) as (k2 & S2).
  exists o1, k2. split; auto. eapply (xsteps_trans tb simd ent c1 sk); [exact S1|exact S2].
Qed.

(* ------------------------------------------- double-quoted attribute value *)
Lemma attr_plain : forall b cu tk tn ta an av c q o k,
  (c =? 38) = false -> (c =? 34) = false -> (c =? 13) = false -> (c =? 0) = false ->
  exists o' k', xsteps (mkM b DQ false cu false None tk tn ta an av (c :: q) o k)
                       (mkM b DQ false c false None tk tn ta an (av ++ [c]) q o' k') /\
                otoks o' = (if bad_char c then [TError] else []) ++ otoks o.
Proof.
  intros b cu tk tn ta an av c q o k N38 N34 N13 N0.
  assert (H : exists o' k', xstep (mkM b DQ false cu false None tk tn ta an av (c :: q) o k) =
                            (mkM b DQ false c false None tk tn ta an (av ++ [c]) q o' k', SContinue) /\
                            otoks o' = (if bad_char c then [TError] else []) ++ otoks o).
  { unfold XLexBase.xstep, step, mkM. cbn [mc cref st]. bodies. cbn -[bad_char N.eqb N.add]. unfold CR, LF, REPL.
    rewrite ?N13, ?N0. cbn -[bad_char N.eqb N.add]. rewrite ?N38, ?N34. cbn -[bad_char N.eqb N.add].
    destruct (bad_char c); cbn -[N.eqb N.add]; do 2 eexists; split; reflexivity. }
  destruct H as (o' & k' & H & T). exists o', k'. split; auto. apply xsteps_one. exact H.
Qed.

Lemma attr_amp : forall b cu tk tn ta an av q o k, exists k',
  xsteps (mkM b DQ false cu false None tk tn ta an av (38 :: q) o k)
         (mkM b DQ false 38 false (Some (cr_new true (Some 34))) tk tn ta an av q o k').
Proof. intros. eexists. one. fin. Qed.

Lemma attr_quote : forall b cu tk tn ta an av q o k, exists k',
  xsteps (mkM b DQ false cu false None tk tn ta an av (34 :: q) o k)
         (mkM b XTagAttrNameBefore false 34 false None tk tn ta an av q o k').
Proof. intros. eexists. one. fin. Qed.

Lemma rev_err_cons : forall c s l,
  rev (err_toks (c :: s)) ++ l = rev (err_toks s) ++ (if reported c then [TError] else []) ++ l.
Proof.
  intros. unfold err_toks. simpl. rewrite rev_app_distr, <- app_assoc. f_equal.
  destruct (reported c); reflexivity.
Qed.

Lemma attr_value_lex : forall s b cu tk tn ta an av rest o k, no_nul s = true ->
  exists cu' o' k',
    xsteps (mkM b DQ false cu false None tk tn ta an av (escape true s ++ 34 :: rest) o k)
           (mkM b DQ false cu' false None tk tn ta an (av ++ s) (34 :: rest) o' k') /\
    otoks o' = rev (err_toks s) ++ otoks o.
Proof.
  induction s as [|c s IH]; intros b cu tk tn ta an av rest o k NN.
  - exists cu, o, k. rewrite app_nil_r. split; [apply xs_refl|reflexivity].
  - simpl in NN. apply andb_true_iff in NN. destruct NN as [N0 NN]. apply negb_true_iff in N0.
    rewrite escape_cons, <- app_assoc. rewrite rev_err_cons.
    replace (av ++ c :: s) with ((av ++ [c]) ++ s) by (rewrite <- app_assoc; reflexivity).
    destruct (escape true s ++ 34 :: rest) as [|x q] eqn:EQ; [destruct (escape true s); discriminate|].
    unfold XSerModel.escape_char. simpl negb.
    rewrite !andb_false_r. rewrite !andb_true_r.
    destruct (c =? 38) eqn:E38.
    { apply N.eqb_eq in E38. subst c. simpl app.
      destruct (attr_amp b cu tk tn ta an av (97 :: 109 :: 112 :: 59 :: x :: q) o k) as (k1 & S1).
      destruct (cr_attr_amp tb simd ent c1 sk E5 b 38 tk tn ta an av x q o k1) as (cu2 & o2 & k2 & S2 & T2).
      destruct (IH b cu2 tk tn ta an (av ++ [38]) rest o2 k2 NN) as (cu3 & o3 & k3 & S3 & T3). rewrite EQ in S3.
      exists cu3, o3, k3. split; [eapply (xsteps_trans tb simd ent c1 sk); [exact S1|eapply (xsteps_trans tb simd ent c1 sk); [exact S2|exact S3]]|].
      rewrite T3, T2. reflexivity. }
    destruct (c =? 39) eqn:E39.
    { apply N.eqb_eq in E39. subst c. simpl app.
      destruct (attr_amp b cu tk tn ta an av (97 :: 112 :: 111 :: 115 :: 59 :: x :: q) o k) as (k1 & S1).
      destruct (cr_attr_apos tb simd ent c1 sk E5 b 38 tk tn ta an av x q o k1) as (cu2 & o2 & k2 & S2 & T2).
      destruct (IH b cu2 tk tn ta an (av ++ [39]) rest o2 k2 NN) as (cu3 & o3 & k3 & S3 & T3). rewrite EQ in S3.
      exists cu3, o3, k3. split; [eapply (xsteps_trans tb simd ent c1 sk); [exact S1|eapply (xsteps_trans tb simd ent c1 sk); [exact S2|exact S3]]|].
      rewrite T3, T2. reflexivity. }
    destruct (c =? 34) eqn:E34.
    { apply N.eqb_eq in E34. subst c. simpl app.
      destruct (attr_amp b cu tk tn ta an av (113 :: 117 :: 111 :: 116 :: 59 :: x :: q) o k) as (k1 & S1).
      destruct (cr_attr_quot tb simd ent c1 sk E5 b 38 tk tn ta an av x q o k1) as (cu2 & o2 & k2 & S2 & T2).
      destruct (IH b cu2 tk tn ta an (av ++ [34]) rest o2 k2 NN) as (cu3 & o3 & k3 & S3 & T3). rewrite EQ in S3.
      exists cu3, o3, k3. split; [eapply (xsteps_trans tb simd ent c1 sk); [exact S1|eapply (xsteps_trans tb simd ent c1 sk); [exact S2|exact S3]]|].
      rewrite T3, T2. reflexivity. }
    destruct (c =? 13) eqn:E13.
    { apply N.eqb_eq in E13. subst c. simpl app.
      destruct (attr_amp b cu tk tn ta an av (35 :: 49 :: 51 :: 59 :: x :: q) o k) as (k1 & S1).
      destruct (cr_attr_cr tb simd ent c1 sk b 38 tk tn ta an av (x :: q) o k1) as (cu2 & o2 & k2 & S2 & T2).
      destruct (IH b cu2 tk tn ta an (av ++ [13]) rest o2 k2 NN) as (cu3 & o3 & k3 & S3 & T3). rewrite EQ in S3.
      exists cu3, o3, k3. split; [eapply (xsteps_trans tb simd ent c1 sk); [exact S1|eapply (xsteps_trans tb simd ent c1 sk); [exact S2|exact S3]]|].
      rewrite T3, T2. reflexivity. }
    simpl app.
    destruct (attr_plain b cu tk tn ta an av c (x :: q) o k E38 E34 E13 N0) as (o2 & k2 & S2 & T2).
    destruct (IH b c tk tn ta an (av ++ [c]) rest o2 k2 NN) as (cu3 & o3 & k3 & S3 & T3). rewrite EQ in S3.
    exists cu3, o3, k3. split; [eapply (xsteps_trans tb simd ent c1 sk); [exact S2|exact S3]|].
    rewrite T3, T2. unfold reported. rewrite E13. reflexivity.
Qed.

(* (b) <a b="..."> : one start tag a with the attribute b = s *)
Theorem attr_tag_lex : forall s b cu tk tn ta rest o k, no_nul s = true ->
  exists b' o' k',
    xsteps (mkM b XData false cu false None tk tn ta [] []
                ([60; 97; 32; 98; 61; 34] ++ escape true s ++ [34; 62] ++ rest) o k)
           (mkM b' XData false 62 false None TStartTag [] [] [] [] rest o' k') /\
    otoks o' = TTag TStartTag [97] false [([98], s)] false :: rev (err_toks s) ++ otoks o.
Proof.
  intros s b cu tk tn ta rest o k NN.
  destruct (attr_value_lex s b 34 TStartTag [97] [] [98] [] (62 :: rest) o (1 + (1 + (1 + (1 + (1 + (1 + k)))))) NN)
    as (cu1 & o1 & k1 & S1 & T1).
  do 3 eexists. split.
  - simpl app. do 6 one. eapply (xsteps_trans tb simd ent c1 sk); [exact S1|]. one. one. fin.
  - simpl. rewrite T1. reflexivity.
Qed.

End L.
