(* C17, lexing side: the serializer's character data and attribute values, read back by the
   XML tokenizer AS MODELLED IN TokIR (Interp.v interpreting the table regenerated from
   xml5ever/src/tokenizer/mod.rs, Gen/GenXmlTok.v), reference semantics: flat queue,
   exact_errors = true.  This file: machines in explicit form, the multi-step relation, the five
   predefined entities and &#13; in the character-reference sub-tokenizer. *)
From Coq Require Import List NArith Bool Lia.
From RecordUpdate Require Import RecordSet.
From HV Require Import TokIR.IR TokIR.Interp.
Import ListNotations RecordSetNotations.
Local Open Scope N_scope.

(* the fields of the tokenizer configuration that lexing text and start tags never touches *)
Record bg := mkbg { b_bom : bool; b_temp : str; b_self : bool; b_dup : bool; b_comment : str;
  b_dn : option str; b_dp : option str; b_ds : option str; b_dq : bool; b_pt : str; b_pd : str;
  b_last : option str; b_line : N }.

Definition mkM (b : bg) (s : xstate) (rc : bool) (cu : N) (il : bool) (cr : option crt)
  (tk : tagkind) (tn : str) (ta : list (str * str)) (an av : str)
  (q : list N) (o : list (token * N * N)) (k : N) : mach xstate (list N) :=
  mkmach (mkcfg s rc cu il (b_bom b) (b_temp b) tk tn (b_self b) (b_dup b) ta an av (b_comment b)
                (b_dn b) (b_dp b) (b_ds b) (b_dq b) (b_pt b) (b_pd b) (b_last b) cr (b_line b)) q o k.

(* every machine has that form *)
Lemma mkM_eta : forall m : mach xstate (list N), exists b s rc cu il cr tk tn ta an av q o k,
  m = mkM b s rc cu il cr tk tn ta an av q o k.
Proof.
  intros [[s rc cu il bom tmp tk tn ts td ta an av co dn dp ds dq pt pd ls cr ln] q o k].
  exists (mkbg bom tmp ts td co dn dp ds dq pt pd ls ln), s, rc, cu, il, cr, tk, tn, ta, an, av, q, o, k.
  reflexivity.
Qed.

(* the tokens delivered, without their line / position annotations (newest first) *)
Definition otoks (o : list (token * N * N)) : list token := map (fun x => fst (fst x)) o.

(* what the xml entity lookup has to say about the five predefined names (as web_atoms' table
   does: every prefix of a name is a key; "amp", "lt", "gt", "quot" are legacy names without the
   semicolon; nothing continues after the semicolon) *)
Record ent_five (ent : list N -> option (N * N)) : Prop := {
  e_a : ent [97] = Some (0, 0); e_am : ent [97;109] = Some (0, 0);
  e_amp : ent [97;109;112] = Some (38, 0); e_amp_ : ent [97;109;112;59] = Some (38, 0);
  e_amp_x : forall x, ent [97;109;112;59;x] = None;
  e_ap : ent [97;112] = Some (0, 0); e_apo : ent [97;112;111] = Some (0, 0);
  e_apos : ent [97;112;111;115] = Some (0, 0); e_apos_ : ent [97;112;111;115;59] = Some (39, 0);
  e_apos_x : forall x, ent [97;112;111;115;59;x] = None;
  e_l : ent [108] = Some (0, 0); e_lt : ent [108;116] = Some (60, 0); e_lt_ : ent [108;116;59] = Some (60, 0);
  e_lt_x : forall x, ent [108;116;59;x] = None;
  e_g : ent [103] = Some (0, 0); e_gt : ent [103;116] = Some (62, 0); e_gt_ : ent [103;116;59] = Some (62, 0);
  e_gt_x : forall x, ent [103;116;59;x] = None;
  e_q : ent [113] = Some (0, 0); e_qu : ent [113;117] = Some (0, 0); e_quo : ent [113;117;111] = Some (0, 0);
  e_quot : ent [113;117;111;116] = Some (34, 0); e_quot_ : ent [113;117;111;116;59] = Some (34, 0);
  e_quot_x : forall x, ent [113;117;111;116;59;x] = None }.

(* the arm bodies of the nine tokenizer states involved, as hypotheses on the step table: the
   theorems are generic in the table and are instantiated on the table REGENERATED from
   xml5ever/src/tokenizer/mod.rs in Inst/InstXmlLex.v (by reflexivity) *)
Record xml_bodies (tb : table xstate) : Prop := {
  tb_data : t_step tb XData =
    BPop [13; 0; 38; 60] false (BCmd EmitRun (BEnd Stay))
      (BIf (CIn [38]) (BEnd (ConsumeCharRef None))
        (BIf (CIn [60]) (BEnd (To XTagState)) (BCmd (Emit CCur) (BEnd Stay))));
  tb_tagstate : t_step tb XTagState =
    BRead RGet
      (BIf (CIn [33]) (BEnd (To XMarkupDecl))
        (BIf (CIn [47]) (BEnd (To XEndTagState))
          (BIf (CIn [63]) (BEnd (To XPi))
            (BIf (CIn [9; 10; 32; 58; 60; 62])
              (BCmd Error (BCmd (Emit (CLit 60)) (BEnd (Reconsume XData))))
              (BCmd (CreateTag TStartTag CCur) (BEnd (To XTagName)))))));
  tb_endtagstate : t_step tb XEndTagState =
    BRead RGet
      (BIf (CIn [62]) (BEnd (EmitKind TShortTag XData))
        (BIf (CIn [9; 10; 32; 60; 58])
          (BCmd Error (BCmd (Emit (CLit 60)) (BCmd (Emit (CLit 47)) (BEnd (Reconsume XData)))))
          (BCmd (CreateTag TEndTag CCur) (BEnd (To XEndTagName)))));
  tb_endtagname : t_step tb XEndTagName =
    BRead RGet
      (BIf (CIn [9; 10; 32]) (BEnd (To XEndTagNameAfter))
        (BIf (CIn [47]) (BCmd Error (BEnd (To XEndTagNameAfter)))
          (BIf (CIn [62]) (BEnd (EmitTag XData)) (BCmd (PushTag CCur) (BEnd Stay)))));
  tb_tagname : t_step tb XTagName =
    BRead RGet
      (BIf (CIn [9; 10; 32]) (BEnd (To XTagAttrNameBefore))
        (BIf (CIn [62]) (BEnd (EmitTag XData))
          (BIf (CIn [47]) (BCmd SetEmptyTag (BEnd (To XTagEmpty))) (BCmd (PushTag CCur) (BEnd Stay)))));
  tb_anb : t_step tb XTagAttrNameBefore =
    BRead RGet
      (BIf (CIn [9; 10; 32]) (BEnd Stay)
        (BIf (CIn [62]) (BEnd (EmitTag XData))
          (BIf (CIn [47]) (BCmd SetEmptyTag (BEnd (To XTagEmpty)))
            (BIf (CIn [58]) (BCmd Error (BEnd Stay))
              (BCmd (CreateAttr CCur) (BEnd (To XTagAttrName)))))));
  tb_an : t_step tb XTagAttrName =
    BRead RGet
      (BIf (CIn [61]) (BEnd (To XTagAttrValueBefore))
        (BIf (CIn [62]) (BEnd (EmitTag XData))
          (BIf (CIn [9; 10; 32]) (BEnd (To XTagAttrNameAfter))
            (BIf (CIn [47]) (BCmd SetEmptyTag (BEnd (To XTagEmpty))) (BCmd (PushName CCur) (BEnd Stay))))));
  tb_avb : t_step tb XTagAttrValueBefore =
    BRead RGet
      (BIf (CIn [9; 10; 32]) (BEnd Stay)
        (BIf (CIn [34]) (BEnd (To (XTagAttrValue KDoubleQuoted)))
          (BIf (CIn [39]) (BEnd (To (XTagAttrValue KSingleQuoted)))
            (BIf (CIn [38]) (BEnd (Reconsume (XTagAttrValue KUnquoted)))
              (BIf (CIn [62]) (BEnd (EmitTag XData))
                (BCmd (PushValue CCur) (BEnd (To (XTagAttrValue KUnquoted)))))))));
  tb_dq : t_step tb (XTagAttrValue KDoubleQuoted) =
    BPop [13; 0; 10; 34; 38] false (BCmd AppendValueRun (BEnd Stay))
      (BIf (CIn [34]) (BEnd (To XTagAttrNameBefore))
        (BIf (CIn [38]) (BEnd (ConsumeCharRef (Some 34))) (BCmd (PushValue CCur) (BEnd Stay)))) }.

Section L.
Variable tb : table xstate.
Hypothesis TB : xml_bodies tb.
Variable simd : list N * list N * list N.
Variable ent : list N -> option (N * N).
Variable c1 : N -> option N.
Variable sk : sinkcfg.
Hypothesis E5 : ent_five ent.

Notation M := (mach xstate (list N)).

(* one step / the fuelled loop of the reference semantics, not at end of input *)
Definition xstep : M -> M * sres :=
  step [] fq_next fq_peek (@app N) (fun q => q) fq_run1 xml_flavour true tb simd ent c1 sk false.
Definition xrun : nat -> M -> M * sres :=
  run [] fq_next fq_peek (@app N) (fun q => q) fq_run1 xml_flavour true tb simd ent c1 sk false.

Inductive xsteps : M -> M -> Prop :=
| xs_refl : forall m, xsteps m m
| xs_step : forall m m1 m2, xstep m = (m1, SContinue) -> xsteps m1 m2 -> xsteps m m2.

Lemma xsteps_trans : forall a b c, xsteps a b -> xsteps b c -> xsteps a c.
Proof. induction 1; intros; auto. eapply xs_step; eauto. Qed.

Lemma xsteps_one : forall a b, xstep a = (b, SContinue) -> xsteps a b.
Proof. intros. eapply xs_step; eauto. apply xs_refl. Qed.

(* the relation is the executable loop: with n more units of fuel the loop passes through m' *)
Lemma xsteps_run : forall m m', xsteps m m' -> exists n, forall fuel, xrun (n + fuel) m = xrun fuel m'.
Proof.
  induction 1 as [m|m m1 m2 H _ IH].
  - exists O. reflexivity.
  - destruct IH as [n IH]. exists (S n). intro fuel. unfold xrun in *. simpl. unfold xstep in H. rewrite H. apply IH.
Qed.

Ltac ents := rewrite ?(e_a _ E5), ?(e_am _ E5), ?(e_amp _ E5), ?(e_amp_ _ E5), ?(e_amp_x _ E5),
  ?(e_ap _ E5), ?(e_apo _ E5), ?(e_apos _ E5), ?(e_apos_ _ E5), ?(e_apos_x _ E5),
  ?(e_l _ E5), ?(e_lt _ E5), ?(e_lt_ _ E5), ?(e_lt_x _ E5), ?(e_g _ E5), ?(e_gt _ E5), ?(e_gt_ _ E5), ?(e_gt_x _ E5),
  ?(e_q _ E5), ?(e_qu _ E5), ?(e_quo _ E5), ?(e_quot _ E5), ?(e_quot_ _ E5), ?(e_quot_x _ E5).

(* compute one step of a machine whose next characters are explicit *)
Ltac bodies := rewrite ?(tb_data _ TB), ?(tb_tagstate _ TB), ?(tb_endtagstate _ TB), ?(tb_endtagname _ TB), ?(tb_tagname _ TB),
  ?(tb_anb _ TB), ?(tb_an _ TB), ?(tb_avb _ TB), ?(tb_dq _ TB).
Ltac one := eapply xs_step; [unfold xstep, step, mkM; cbn [mc cref st]; bodies; cbv -[N.add N.sub ent]; ents; cbv -[N.add N.sub ent]; reflexivity|].
Ltac onev := eapply xs_step; [unfold xstep, step, mkM; cbn [mc cref st]; vm_compute; reflexivity|].
Ltac fin := unfold mkM; apply xs_refl.

(* ---- the character-reference sub-tokenizer on the six references the serializer writes.
   [s] is the state the reference was met in (Data: attr = false, addnl = None; double-quoted
   attribute value: attr = true, addnl = Some 34); the machine has consumed the '&'. *)

(* in the Data state the resulting character is emitted *)
Lemma cr_data_amp : forall b cu tk tn ta an av x q o k, exists cu' o' k',
  xsteps (mkM b XData false cu false (Some (cr_new false None)) tk tn ta an av (97 :: 109 :: 112 :: 59 :: x :: q) o k)
         (mkM b XData false cu' false None tk tn ta an av (x :: q) o' k') /\ otoks o' = TChars [38] :: otoks o.
Proof. intros. do 3 eexists. split; [do 6 one; fin|reflexivity]. Qed.
Lemma cr_data_lt : forall b cu tk tn ta an av x q o k, exists cu' o' k',
  xsteps (mkM b XData false cu false (Some (cr_new false None)) tk tn ta an av (108 :: 116 :: 59 :: x :: q) o k)
         (mkM b XData false cu' false None tk tn ta an av (x :: q) o' k') /\ otoks o' = TChars [60] :: otoks o.
Proof. intros. do 3 eexists. split; [do 5 one; fin|reflexivity]. Qed.
Lemma cr_data_gt : forall b cu tk tn ta an av x q o k, exists cu' o' k',
  xsteps (mkM b XData false cu false (Some (cr_new false None)) tk tn ta an av (103 :: 116 :: 59 :: x :: q) o k)
         (mkM b XData false cu' false None tk tn ta an av (x :: q) o' k') /\ otoks o' = TChars [62] :: otoks o.
Proof. intros. do 3 eexists. split; [do 5 one; fin|reflexivity]. Qed.
(* &#13; : the numeric reference to a control character is a parse error and yields the character *)
Lemma cr_data_cr : forall b cu tk tn ta an av q o k, exists cu' o' k',
  xsteps (mkM b XData false cu false (Some (cr_new false None)) tk tn ta an av (35 :: 49 :: 51 :: 59 :: q) o k)
         (mkM b XData false cu' false None tk tn ta an av q o' k') /\ otoks o' = TChars [13] :: TError :: otoks o.
Proof. intros. do 3 eexists. split; [do 6 onev; fin|reflexivity]. Qed.

(* in an attribute value it is appended to the value *)
Notation DQ := (XTagAttrValue KDoubleQuoted).
Lemma cr_attr_amp : forall b cu tk tn ta an av x q o k, exists cu' o' k',
  xsteps (mkM b DQ false cu false (Some (cr_new true (Some 34))) tk tn ta an av (97 :: 109 :: 112 :: 59 :: x :: q) o k)
         (mkM b DQ false cu' false None tk tn ta an (av ++ [38]) (x :: q) o' k') /\ otoks o' = otoks o.
Proof. intros. do 3 eexists. split; [do 6 one; fin|reflexivity]. Qed.
Lemma cr_attr_apos : forall b cu tk tn ta an av x q o k, exists cu' o' k',
  xsteps (mkM b DQ false cu false (Some (cr_new true (Some 34))) tk tn ta an av (97 :: 112 :: 111 :: 115 :: 59 :: x :: q) o k)
         (mkM b DQ false cu' false None tk tn ta an (av ++ [39]) (x :: q) o' k') /\ otoks o' = otoks o.
Proof. intros. do 3 eexists. split; [do 7 one; fin|reflexivity]. Qed.
Lemma cr_attr_quot : forall b cu tk tn ta an av x q o k, exists cu' o' k',
  xsteps (mkM b DQ false cu false (Some (cr_new true (Some 34))) tk tn ta an av (113 :: 117 :: 111 :: 116 :: 59 :: x :: q) o k)
         (mkM b DQ false cu' false None tk tn ta an (av ++ [34]) (x :: q) o' k') /\ otoks o' = otoks o.
Proof. intros. do 3 eexists. split; [do 7 one; fin|reflexivity]. Qed.
Lemma cr_attr_cr : forall b cu tk tn ta an av q o k, exists cu' o' k',
  xsteps (mkM b DQ false cu false (Some (cr_new true (Some 34))) tk tn ta an av (35 :: 49 :: 51 :: 59 :: q) o k)
         (mkM b DQ false cu' false None tk tn ta an (av ++ [13]) q o' k') /\ otoks o' = TError :: otoks o.
Proof. intros. do 3 eexists. split; [do 6 onev; fin|reflexivity]. Qed.

End L.
