(* ========================================================================
   TreeInvDispatch.v - what a token must look like when the dispatch of a mode
   selects a given arm: facts about the kind and the name of the token derived
   from [first_match], by computation on the (regenerated) lists of heads.
   ======================================================================== *)
From Coq Require Import List NArith Bool Arith Lia String.
From HV Require Import Dom.DomSpec Tree.TreeTypes Tree.TreeTables Tree.TreeModelHelpers Tree.TreeModelRules
  Tree.TreeModel Tree.TreeHoare Tree.TreeInvBasic Tree.TreeInvDefs Tree.TreeInvSetters Tree.TreeInvPrims.
Import ListNotations.
Open Scope string_scope.
Open Scope list_scope.
Notation length := List.length (only parsing).

Definition is_start (t : tok) : bool := match t with KTag g => tagkind_eqb (tg_kind g) StartTag | _ => false end.
Definition is_end (t : tok) : bool := match t with KTag g => tagkind_eqb (tg_kind g) EndTag | _ => false end.
Definition is_chars (t : tok) : bool := match t with KChars _ _ => true | _ => false end.

(* a boolean property of tag names, lifted to atoms: unnamed atoms are judged by [dflt] *)
Definition atom_names (p : str -> bool) (dflt : bool) (a : atom) : bool :=
  match a with AStart n | AEnd n => p n | _ => dflt end.

(* if every named alternative of a head has a property, and the head has no unnamed alternative
   that a tag could match, then a tag matching the head has the property *)
Lemma head_named_prop p h t :
  forallb (atom_names p false) h = true -> head_matches t h = true ->
  exists g, t = KTag g /\ p (tg_name g) = true.
Proof.
  intros F M. unfold head_matches in M. apply existsb_exists in M. destruct M as (a & Hin & Ma).
  rewrite forallb_forall in F. specialize (F a Hin).
  destruct a; simpl in F; try discriminate; destruct t as [g| | | |]; simpl in Ma; try discriminate;
    exists g; split; try reflexivity; apply andb_true_iff in Ma; destruct Ma as [_ Ma]; apply str_eqb_eq in Ma; subst; exact F.
Qed.

(* kinds *)
Definition atom_is_start (a : atom) : bool := match a with AStart _ | AAnyStart => true | _ => false end.
Definition atom_is_end (a : atom) : bool := match a with AEnd _ | AAnyEnd => true | _ => false end.
Lemma head_all_start h t : forallb atom_is_start h = true -> head_matches t h = true -> is_start t = true.
Proof.
  intros F M. unfold head_matches in M. apply existsb_exists in M. destruct M as (a & Hin & Ma).
  rewrite forallb_forall in F. specialize (F a Hin).
  destruct a; simpl in F; try discriminate; destruct t as [g| | | |]; simpl in Ma; try discriminate; simpl.
  - apply andb_true_iff in Ma. tauto.
  - exact Ma.
Qed.
Lemma head_all_end h t : forallb atom_is_end h = true -> head_matches t h = true -> is_end t = true.
Proof.
  intros F M. unfold head_matches in M. apply existsb_exists in M. destruct M as (a & Hin & Ma).
  rewrite forallb_forall in F. specialize (F a Hin).
  destruct a; simpl in F; try discriminate; destruct t as [g| | | |]; simpl in Ma; try discriminate; simpl.
  - apply andb_true_iff in Ma. tauto.
  - exact Ma.
Qed.

(* a start tag that does not match a head does not have any of the start names of that head *)
Lemma unmatched_start h t n : head_matches t h = false -> In (AStart n) h -> is_start t = true -> tg_name (tk_tag t) <> n.
Proof.
  intros M Hin S E. unfold head_matches in M.
  assert (existsb (atom_matches t) h = true); [|congruence].
  apply existsb_exists. exists (AStart n). split; [exact Hin|].
  destruct t as [g| | | |]; simpl in S; try discriminate. simpl in *. rewrite S, <- E. simpl. apply str_eqb_refl.
Qed.
Lemma unmatched_end h t n : head_matches t h = false -> In (AEnd n) h -> is_end t = true -> tg_name (tk_tag t) <> n.
Proof.
  intros M Hin S E. unfold head_matches in M.
  assert (existsb (atom_matches t) h = true); [|congruence].
  apply existsb_exists. exists (AEnd n). split; [exact Hin|].
  destruct t as [g| | | |]; simpl in S; try discriminate. simpl in *. rewrite S, <- E. simpl. apply str_eqb_refl.
Qed.

(* character / comment / null / eof arms *)
Definition atom_is_chars (a : atom) : bool := match a with AChars _ => true | _ => false end.
Lemma head_all_chars h t : forallb atom_is_chars h = true -> head_matches t h = true -> is_chars t = true.
Proof.
  intros F M. unfold head_matches in M. apply existsb_exists in M. destruct M as (a & Hin & Ma).
  rewrite forallb_forall in F. specialize (F a Hin).
  destruct a as [[sp|]| | | | | | | | |]; simpl in F; try discriminate; destruct t; simpl in Ma; try discriminate; reflexivity.
Qed.

Lemma existsb_ext {A} (f g : A -> bool) l : (forall a, f a = g a) -> existsb f l = existsb g l.
Proof. intro E. induction l as [|x t IH]; simpl; [reflexivity|]. rewrite E, IH. reflexivity. Qed.

(* ---------- representatives: the dispatch only looks at the kind and the name ---------- *)
Definition rep_tag (k : tagkind) (n : str) : tok :=
  KTag {| tg_kind := k ; tg_name := n ; tg_self := false ; tg_attrs := [] ; tg_dup := false |}.

Lemma atom_matches_tag_ext g a :
  atom_matches (KTag g) a = atom_matches (rep_tag (tg_kind g) (tg_name g)) a.
Proof. destruct a; reflexivity. Qed.

Lemma first_match_tag_ext heads g :
  first_match heads (KTag g) = first_match heads (rep_tag (tg_kind g) (tg_name g)).
Proof.
  induction heads as [|h r IH]; simpl; [reflexivity|].
  replace (existsb (atom_matches (KTag g)) h) with (existsb (atom_matches (rep_tag (tg_kind g) (tg_name g))) h).
  - rewrite IH. reflexivity.
  - apply existsb_ext. intro a. symmetry. apply atom_matches_tag_ext.
Qed.

Lemma first_match_chars_ext heads sp s1 s2 : first_match heads (KChars sp s1) = first_match heads (KChars sp s2).
Proof.
  induction heads as [|h r IH]; simpl; [reflexivity|].
  replace (existsb (atom_matches (KChars sp s1)) h) with (existsb (atom_matches (KChars sp s2)) h).
  - rewrite IH. reflexivity.
  - apply existsb_ext. intro a. destruct a; reflexivity.
Qed.
Lemma first_match_comment_ext heads s1 s2 : first_match heads (KComment s1) = first_match heads (KComment s2).
Proof.
  induction heads as [|h r IH]; simpl; [reflexivity|].
  replace (existsb (atom_matches (KComment s1)) h) with (existsb (atom_matches (KComment s2)) h).
  - rewrite IH. reflexivity.
  - apply existsb_ext. intro a. destruct a; reflexivity.
Qed.

(* where the tags of a head land in another table *)
Definition lands (heads : list arm_head) (allowed : list nat) (a : atom) : bool :=
  match a with
  | AStart n => existsb (Nat.eqb (first_match heads (rep_tag StartTag n))) allowed
  | AEnd n => existsb (Nat.eqb (first_match heads (rep_tag EndTag n))) allowed
  | AChars (Some sp) => existsb (Nat.eqb (first_match heads (KChars sp []))) allowed
  | AComment => existsb (Nat.eqb (first_match heads (KComment []))) allowed
  | ANull => existsb (Nat.eqb (first_match heads KNull)) allowed
  | AEof => existsb (Nat.eqb (first_match heads KEof)) allowed
  | _ => false
  end.

Lemma lands_sound heads allowed h t :
  forallb (lands heads allowed) h = true -> head_matches t h = true -> In (first_match heads t) allowed.
Proof.
  intros F M. unfold head_matches in M. apply existsb_exists in M. destruct M as (a & Hin & Ma).
  rewrite forallb_forall in F. specialize (F a Hin).
  assert (X : forall k, existsb (Nat.eqb k) allowed = true -> In k allowed).
  { intros k E. apply existsb_exists in E. destruct E as (y & Hy & Ey). apply Nat.eqb_eq in Ey. subst. exact Hy. }
  destruct a as [[sp|]| | | |n|n| | | |]; simpl in F; try discriminate; destruct t as [g|c|sp' c| |]; simpl in Ma; try discriminate.
  - assert (sp = sp') by (destruct sp, sp'; simpl in Ma; try discriminate; reflexivity). subst sp'.
    rewrite (first_match_chars_ext heads sp c []). apply X. exact F.
  - apply X. exact F.
  - rewrite (first_match_comment_ext heads c []). apply X. exact F.
  - apply X. exact F.
  - apply andb_true_iff in Ma. destruct Ma as [Mk Mn]. apply str_eqb_eq in Mn.
    rewrite first_match_tag_ext. destruct (tg_kind g); simpl in Mk; try discriminate. rewrite <- Mn. apply X. exact F.
  - apply andb_true_iff in Ma. destruct Ma as [Mk Mn]. apply str_eqb_eq in Mn.
    rewrite first_match_tag_ext. destruct (tg_kind g); simpl in Mk; try discriminate. rewrite <- Mn. apply X. exact F.
Qed.

Definition atom_is_tag (a : atom) : bool :=
  match a with AStart _ | AEnd _ | AAnyStart | AAnyEnd => true | _ => false end.
Lemma head_all_tag h t : forallb atom_is_tag h = true -> head_matches t h = true -> exists g, t = KTag g.
Proof.
  intros F M. unfold head_matches in M. apply existsb_exists in M. destruct M as (a & Hin & Ma).
  rewrite forallb_forall in F. specialize (F a Hin).
  destruct a as [[sp|]| | | | | | | | |]; simpl in F; try discriminate; destruct t as [g| | | |]; simpl in Ma; try discriminate; eauto.
Qed.
Lemma head_tag_not_chars h t : forallb atom_is_tag h = true -> head_matches t h = true -> is_chars t = false.
Proof. intros F M. destruct (head_all_tag _ _ F M) as [g ->]. reflexivity. Qed.

Definition atom_not_chars (a : atom) : bool := match a with AChars _ | AWild => false | _ => true end.
Lemma head_not_chars h t : forallb atom_not_chars h = true -> head_matches t h = true -> is_chars t = false.
Proof.
  intros F M. unfold head_matches in M. apply existsb_exists in M. destruct M as (a & Hin & Ma).
  rewrite forallb_forall in F. specialize (F a Hin).
  destruct a as [[sp|]| | | | | | | | |]; simpl in F; try discriminate; destruct t as [g| | | |]; simpl in Ma; try discriminate; reflexivity.
Qed.
