(* ========================================================================
   TreeHoare.v - weakest-precondition calculus for the monad [M] of
   TreeTypes.v.

   [wp m Q s]  : running [m] from [s] ends with [Ok a s'] and [Q a s'] holds
                 (no Panic, no OutOfFuel).
   [wpl m Q s] : the same, except that OutOfFuel is tolerated (used for the
                 fuelled Reprocess loop, whose bound is not part of the
                 no-panic theorem).
   ======================================================================== *)
From Coq Require Import List NArith Bool Arith Lia.
From HV Require Import Dom.DomSpec Tree.TreeTypes.
Import ListNotations.
Open Scope list_scope.

Definition wp {A} (m : M A) (Q : A -> st -> Prop) (s : st) : Prop :=
  match m s with Ok a s' => Q a s' | Panic _ => False | OutOfFuel => False end.

Definition wpl {A} (m : M A) (Q : A -> st -> Prop) (s : st) : Prop :=
  match m s with Ok a s' => Q a s' | Panic _ => False | OutOfFuel => True end.

Lemma wp_wpl {A} (m : M A) Q s : wp m Q s -> wpl m Q s.
Proof. unfold wp, wpl. destruct (m s); auto. Qed.

(* ---------- structural rules ---------- *)
Lemma wp_ret {A} (a : A) Q s : wp (ret a) Q s <-> Q a s.
Proof. reflexivity. Qed.

Lemma wp_bind {A B} (m : M A) (k : A -> M B) Q s :
  wp (bind m k) Q s <-> wp m (fun a s' => wp (k a) Q s') s.
Proof. unfold wp, bind. destruct (m s); reflexivity. Qed.

Lemma wpl_bind {A B} (m : M A) (k : A -> M B) Q s :
  wpl m (fun a s' => wpl (k a) Q s') s -> wpl (bind m k) Q s.
Proof. unfold wpl, bind. destruct (m s); auto. Qed.

Lemma wp_mono {A} (m : M A) (Q Q' : A -> st -> Prop) s :
  wp m Q s -> (forall a s', Q a s' -> Q' a s') -> wp m Q' s.
Proof. unfold wp. destruct (m s); auto. Qed.

Lemma wpl_mono {A} (m : M A) (Q Q' : A -> st -> Prop) s :
  wpl m Q s -> (forall a s', Q a s' -> Q' a s') -> wpl m Q' s.
Proof. unfold wpl. destruct (m s); auto. Qed.

Lemma wp_conj {A} (m : M A) (Q1 Q2 : A -> st -> Prop) s :
  wp m Q1 s -> wp m Q2 s -> wp m (fun a s' => Q1 a s' /\ Q2 a s') s.
Proof. unfold wp. destruct (m s); auto. Qed.

Lemma wp_get Q s : wp get Q s <-> Q s s.
Proof. reflexivity. Qed.
Lemma wp_gets {A} (f : st -> A) Q s : wp (gets f) Q s <-> Q (f s) s.
Proof. reflexivity. Qed.
Lemma wp_modify f Q s : wp (modify f) Q s <-> Q tt (f s).
Proof. reflexivity. Qed.
Lemma wp_panic {A} n (Q : A -> st -> Prop) s : wp (panic n) Q s <-> False.
Proof. reflexivity. Qed.
Lemma wp_out_of_fuel {A} (Q : A -> st -> Prop) s : wp out_of_fuel Q s <-> False.
Proof. reflexivity. Qed.
Lemma wpl_out_of_fuel {A} (Q : A -> st -> Prop) s : wpl out_of_fuel Q s.
Proof. exact I. Qed.
Lemma wpl_ret {A} (a : A) Q s : wpl (ret a) Q s <-> Q a s.
Proof. reflexivity. Qed.

Lemma wp_emit op Q s : wp (emit op) Q s <-> Q tt (set_out (EvOp op :: out s) s).
Proof. reflexivity. Qed.
Lemma wp_log_arm m k Q s : wp (log_arm m k) Q s <-> Q tt (set_out (EvArm m k :: out s) s).
Proof. reflexivity. Qed.
Lemma wp_parse_error Q s : wp parse_error Q s <-> Q tt (set_out (EvOp OpParseError :: out s) s).
Proof. reflexivity. Qed.

Lemma wp_unwrap {A} (o : option A) n Q s : wp (unwrap o n) Q s <-> exists a, o = Some a /\ Q a s.
Proof.
  unfold wp, unwrap, ret, panic. destruct o; simpl; split.
  - intro H. exists a. auto.
  - intros [x [E H]]. injection E as <-. exact H.
  - intros [].
  - intros [x [E _]]. discriminate.
Qed.

Lemma wp_assert b n Q s : wp (assert b n) Q s <-> b = true /\ Q tt s.
Proof. unfold wp, assert, ret, panic. destruct b; simpl; split; try tauto. intros [E _]; discriminate. Qed.

Lemma wp_when b m Q s : wp (when b m) Q s <-> (if b then wp m Q s else Q tt s).
Proof. destruct b; reflexivity. Qed.

Lemma wp_if {A} (b : bool) (m1 m2 : M A) Q s :
  wp (if b then m1 else m2) Q s <-> (if b then wp m1 Q s else wp m2 Q s).
Proof. destruct b; reflexivity. Qed.

Lemma wp_mapM_ {A} (f : A -> M unit) (l : list A) (I : st -> Prop) s :
  I s -> (forall x s0, In x l -> I s0 -> wp (f x) (fun _ s1 => I s1) s0) ->
  wp (mapM_ f l) (fun _ s' => I s') s.
Proof.
  revert s. induction l as [|x t IH]; intros s Hs Hf; simpl.
  - exact Hs.
  - apply wp_bind. eapply wp_mono. { apply Hf; [left; reflexivity | exact Hs]. }
    intros u s1 H1. simpl in H1. apply IH; [exact H1|]. intros y s0 Hy. apply Hf. right; exact Hy.
Qed.

(* emitting a list of pops: the state afterwards is the state before with the
   events pushed *)
Lemma mapM_emit_eq (ops : list sinkop) s :
  mapM_ emit ops s = Ok tt (set_out (rev (map EvOp ops) ++ out s) s).
Proof.
  revert s. induction ops as [|o t IH]; intro s; simpl.
  - destruct s; reflexivity.
  - unfold bind. simpl. rewrite IH. simpl. rewrite <- app_assoc. simpl. destruct s; reflexivity.
Qed.

Lemma bind_assoc {A B C} (m : M A) (k : A -> M B) (k' : B -> M C) s :
  bind (bind m k) k' s = bind m (fun a => bind (k a) k') s.
Proof. unfold bind. destruct (m s); reflexivity. Qed.
Lemma wp_assoc {A B C} (m : M A) (k : A -> M B) (k' : B -> M C) Q s :
  wp (bind m (fun a => bind (k a) k')) Q s <-> wp (bind (bind m k) k') Q s.
Proof. unfold wp. rewrite bind_assoc. reflexivity. Qed.

(* ---------- tactics ---------- *)
(* one step of symbolic execution on a goal  wp (m ;; k) Q s  /  wp prim Q s *)
Ltac wp_prim :=
  first
    [ rewrite wp_ret | rewrite wp_get | rewrite wp_gets | rewrite wp_modify | rewrite wp_emit
    | rewrite wp_log_arm | rewrite wp_parse_error | rewrite wp_when | rewrite wp_assert
    | rewrite wp_unwrap | rewrite wp_panic | rewrite wp_out_of_fuel ].

Ltac wp_step := first [ rewrite wp_bind | wp_prim ].
Ltac wp_go := repeat wp_step.
