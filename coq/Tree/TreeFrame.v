(* ========================================================================
   TreeFrame.v - the event log of the tree-builder model is write-only: running any piece of the model from two
   states that differ only in their `out` field gives the same answer, the same new events and states that again
   differ only in `out` ([Frame]).  One lemma per definition of TreeModelHelpers.v / TreeModelRules.v / TreeModel.v,
   proved by a structural tactic; the recursive ones by induction.
   ======================================================================== *)
From Coq Require Import List NArith Bool Arith Lia String.
From HV Require Import Dom.DomSpec Tree.TreeTypes Tree.TreeTables Tree.TreeModelHelpers Tree.TreeModelRules Tree.TreeModel.
Import ListNotations.
Open Scope string_scope.
Open Scope list_scope.
Notation length := List.length (only parsing).

Definition Frame {A} (m : M A) : Prop :=
  forall s o,
    match m s with
    | Ok a t => exists evs, out t = evs ++ out s /\ m (set_out o s) = Ok a (set_out (evs ++ o) t)
    | Panic n => m (set_out o s) = Panic n
    | OutOfFuel => m (set_out o s) = OutOfFuel
    end.

Lemma Frame_ret {A} (a : A) : Frame (ret a).
Proof. intros s o. simpl. exists []. split; reflexivity. Qed.
Lemma Frame_panic {A} n : Frame (panic n : M A).
Proof. intros s o. reflexivity. Qed.
Lemma Frame_out_of_fuel {A} : Frame (out_of_fuel : M A).
Proof. intros s o. reflexivity. Qed.

Lemma Frame_bind {A B} (m : M A) (k : A -> M B) : Frame m -> (forall a, Frame (k a)) -> Frame (bind m k).
Proof.
  intros Hm Hk s o. specialize (Hm s o). unfold bind.
  destruct (m s) as [a t | n |]; [|rewrite Hm; reflexivity | rewrite Hm; reflexivity].
  destruct Hm as (evs & E & Hm). rewrite Hm. specialize (Hk a t (evs ++ o)).
  destruct (k a t) as [b u | n |]; [|exact Hk | exact Hk].
  destruct Hk as (evs2 & E2 & Hk). exists (evs2 ++ evs). split; [rewrite E2, E, app_assoc; reflexivity|].
  rewrite Hk, app_assoc. reflexivity.
Qed.

(* `get`: the continuation may only look at the state through functions that ignore the log *)
Lemma Frame_get {B} (k : st -> M B) :
  (forall c, Frame (k c)) -> (forall c oc t, k (set_out oc c) t = k c t) -> Frame (bind get k).
Proof.
  intros Hk He s o. unfold bind, get. rewrite He. exact (Hk s s o).
Qed.
Lemma Frame_gets {A B} (f : st -> A) (k : A -> M B) :
  (forall a, Frame (k a)) -> (forall c oc, f (set_out oc c) = f c) -> Frame (bind (gets f) k).
Proof. intros Hk He s o. unfold bind, gets. rewrite He. exact (Hk (f s) s o). Qed.

Lemma Frame_modify (f : st -> st) :
  (forall s o, f (set_out o s) = set_out o (f s)) -> (forall s, out (f s) = out s) -> Frame (modify f).
Proof.
  intros H1 H2 s o. unfold modify. exists []. split; [rewrite H2; reflexivity|]. rewrite H1. reflexivity.
Qed.
Lemma Frame_emit op : Frame (emit op).
Proof. intros s o. unfold emit, modify. exists [EvOp op]. split; reflexivity. Qed.
Lemma Frame_log_arm m k : Frame (log_arm m k).
Proof. intros s o. unfold log_arm, modify. exists [EvArm m k]. split; reflexivity. Qed.
Lemma Frame_parse_error : Frame parse_error.
Proof. apply Frame_emit. Qed.
Lemma Frame_probe k : Frame (probe k).
Proof. apply Frame_log_arm. Qed.
Lemma Frame_unwrap {A} (o : option A) n : Frame (unwrap o n).
Proof. destruct o; [apply Frame_ret | apply Frame_panic]. Qed.
Lemma Frame_assert b n : Frame (assert b n).
Proof. destruct b; [apply Frame_ret | apply Frame_panic]. Qed.
Lemma Frame_when b m : Frame m -> Frame (when b m).
Proof. intro H. destruct b; [exact H | apply Frame_ret]. Qed.
Lemma Frame_mapM_ {A} (f : A -> M unit) l : (forall x, Frame (f x)) -> Frame (mapM_ f l).
Proof. intro H. induction l as [|x t IH]; simpl; [apply Frame_ret | apply Frame_bind; [apply H | intros _; exact IH]]. Qed.

Create HintDb frame.
#[export] Hint Resolve Frame_ret Frame_panic Frame_out_of_fuel Frame_emit Frame_log_arm Frame_parse_error Frame_probe
  Frame_unwrap Frame_assert : frame.

(* ---------- pure functions of the state that ignore the log ---------- *)
Lemma bind_cong {A B} (m1 m2 : M A) (k1 k2 : A -> M B) t :
  m1 t = m2 t -> (forall a u, k1 a u = k2 a u) -> bind m1 k1 t = bind m2 k2 t.
Proof. intros E1 E2. unfold bind. rewrite E1. destruct (m2 t); [apply E2 | reflexivity | reflexivity]. Qed.
Lemma when_cong b1 b2 (m1 m2 : M unit) t : b1 = b2 -> (forall u, m1 u = m2 u) -> when b1 m1 t = when b2 m2 t.
Proof. intros -> E. destruct b2; [apply E | reflexivity]. Qed.
Lemma mapM__cong {A} (f1 f2 : A -> M unit) l : (forall x u, f1 x u = f2 x u) -> forall t, mapM_ f1 l t = mapM_ f2 l t.
Proof. intro E. induction l as [|x r IH]; intro t; simpl; [reflexivity|]. apply bind_cong; [apply E | intros _ u; apply IH]. Qed.

Lemma opts_out o c : opts (set_out o c) = opts c. Proof. reflexivity. Qed.
Lemma mode_out o c : mode (set_out o c) = mode c. Proof. reflexivity. Qed.
Lemma orig_mode_out o c : orig_mode (set_out o c) = orig_mode c. Proof. reflexivity. Qed.
Lemma template_modes_out o c : template_modes (set_out o c) = template_modes c. Proof. reflexivity. Qed.
Lemma pending_table_text_out o c : pending_table_text (set_out o c) = pending_table_text c. Proof. reflexivity. Qed.
Lemma quirks_mode_out o c : quirks_mode (set_out o c) = quirks_mode c. Proof. reflexivity. Qed.
Lemma open_elems_out o c : open_elems (set_out o c) = open_elems c. Proof. reflexivity. Qed.
Lemma active_formatting_out o c : active_formatting (set_out o c) = active_formatting c. Proof. reflexivity. Qed.
Lemma head_elem_out o c : head_elem (set_out o c) = head_elem c. Proof. reflexivity. Qed.
Lemma form_elem_out o c : form_elem (set_out o c) = form_elem c. Proof. reflexivity. Qed.
Lemma context_elem_out o c : context_elem (set_out o c) = context_elem c. Proof. reflexivity. Qed.
Lemma frameset_ok_out o c : frameset_ok (set_out o c) = frameset_ok c. Proof. reflexivity. Qed.
Lemma ignore_lf_out o c : ignore_lf (set_out o c) = ignore_lf c. Proof. reflexivity. Qed.
Lemma foster_parenting_out o c : foster_parenting (set_out o c) = foster_parenting c. Proof. reflexivity. Qed.
Lemma sv_out o c : sv (set_out o c) = sv c. Proof. reflexivity. Qed.
Lemma dev_on_out o c i : dev_on (set_out o c) i = dev_on c i. Proof. reflexivity. Qed.
Lemma next_handle_out o c : next_handle (set_out o c) = next_handle c. Proof. reflexivity. Qed.
Lemma einfo_of_out o c h : einfo_of (set_out o c) h = einfo_of c h. Proof. reflexivity. Qed.
Lemma ename_of_out o c h : ename_of (set_out o c) h = ename_of c h. Proof. reflexivity. Qed.
Lemma html_elem_named_b_out o c h n : html_elem_named_b (set_out o c) h n = html_elem_named_b c h n. Proof. reflexivity. Qed.
Lemma named_out o c h n : named (set_out o c) h n = named c h n. Proof. reflexivity. Qed.
Lemma is_mathml_ip_out o c h : is_mathml_ip (set_out o c) h = is_mathml_ip c h. Proof. reflexivity. Qed.
Lemma in_html_elem_named_out o c n : in_html_elem_named (set_out o c) n = in_html_elem_named c n. Proof. reflexivity. Qed.
Lemma scope_for_out o c l : scope_for (set_out o c) l = scope_for c l. Proof. reflexivity. Qed.
Lemma position_in_af_out o c h : position_in_af (set_out o c) h = position_in_af c h. Proof. reflexivity. Qed.
Lemma af_end_to_marker_out o c : af_end_to_marker (set_out o c) = af_end_to_marker c. Proof. reflexivity. Qed.
Lemma is_marker_or_open_out o c e : is_marker_or_open (set_out o c) e = is_marker_or_open c e. Proof. reflexivity. Qed.
Lemma is_special_out o c n : is_special (set_out o c) n = is_special c n. Proof. reflexivity. Qed.
Lemma foreign_stop_out o c h : foreign_stop (set_out o c) h = foreign_stop c h. Proof. reflexivity. Qed.
Lemma is_fragment_out o c : is_fragment (set_out o c) = is_fragment c. Proof. reflexivity. Qed.
#[export] Hint Rewrite opts_out mode_out orig_mode_out template_modes_out pending_table_text_out quirks_mode_out open_elems_out
  active_formatting_out head_elem_out form_elem_out context_elem_out frameset_ok_out ignore_lf_out foster_parenting_out sv_out
  dev_on_out next_handle_out einfo_of_out ename_of_out html_elem_named_b_out named_out is_mathml_ip_out in_html_elem_named_out
  scope_for_out position_in_af_out af_end_to_marker_out is_marker_or_open_out is_special_out foreign_stop_out is_fragment_out
  : outfree.
Lemma in_scope_l_out o c scope pred l : in_scope_l (set_out o c) scope pred l = in_scope_l c scope pred l.
Proof. induction l as [|n r IH]; simpl; [reflexivity | rewrite IH; reflexivity]. Qed.
Lemma implied_split_out o c set l : implied_split (set_out o c) set l = implied_split c set l.
Proof. induction l as [|e r IH]; simpl; [reflexivity | rewrite IH; reflexivity]. Qed.
Lemma drop_until_in_out o c set l : drop_until_in (set_out o c) set l = drop_until_in c set l.
Proof. induction l as [|e r IH]; simpl; [reflexivity | rewrite IH; reflexivity]. Qed.
Lemma pop_until_l_out o c pred l n : pop_until_l (set_out o c) pred l n = pop_until_l c pred l n.
Proof. revert n. induction l as [|e r IH]; intro n; simpl; [reflexivity | rewrite IH; reflexivity]. Qed.
Lemma recon_rewind_out o c idx : recon_rewind (set_out o c) idx = recon_rewind c idx.
Proof. induction idx as [|i IH]; simpl; [reflexivity | rewrite IH; reflexivity]. Qed.
Lemma end_tag_scan_out o c name l : end_tag_scan (set_out o c) name l = end_tag_scan c name l.
Proof. induction l as [|[i e] r IH]; simpl; [reflexivity | rewrite IH; reflexivity]. Qed.
Lemma find_special_from_out o c l : find_special_from (set_out o c) l = find_special_from c l.
Proof. induction l as [|[i e] r IH]; simpl; [reflexivity | rewrite IH; reflexivity]. Qed.
Lemma foreign_pop_split_out o c l : foreign_pop_split (set_out o c) l = foreign_pop_split c l.
Proof. induction l as [|e r IH]; simpl; [reflexivity | rewrite IH; reflexivity]. Qed.
Lemma li_scan_out o c b l : li_scan (set_out o c) b l = li_scan c b l.
Proof. induction l as [|e r IH]; simpl; [reflexivity | rewrite IH; reflexivity]. Qed.
Lemma in_scope_out o c scope pred : in_scope (set_out o c) scope pred = in_scope c scope pred.
Proof. unfold in_scope. apply in_scope_l_out. Qed.
Lemma in_scope_named_out o c scope name : in_scope_named (set_out o c) scope name = in_scope_named c scope name.
Proof. unfold in_scope_named. apply in_scope_out. Qed.
#[export] Hint Rewrite in_scope_out in_scope_named_out : outfree.
#[export] Hint Rewrite in_scope_l_out implied_split_out drop_until_in_out pop_until_l_out recon_rewind_out end_tag_scan_out
  find_special_from_out foreign_pop_split_out li_scan_out : outfree.

(* the structural tactic *)
Ltac fr_state_eq := intros; cbv beta; try reflexivity; autorewrite with outfree; try reflexivity.
(* extensional equality of two computations that differ only in which snapshot ([set_out oc c] or [c]) they read *)
Ltac eqm1 :=
  first
    [ reflexivity
    | progress autorewrite with outfree
    | lazymatch goal with
      | |- bind _ _ _ = bind _ _ _ => apply bind_cong; [ | intros ? ?]
      | |- when _ _ _ = when _ _ _ => apply when_cong; [ | intro]
      | |- mapM_ _ _ _ = mapM_ _ _ _ => apply mapM__cong; intros ? ?
      | |- (match ?x with _ => _ end) _ = (match ?y with _ => _ end) _ =>
          first [constr_eq x y | change x with y]; destruct y
      | |- (match ?x with _ => _ end) = (match ?y with _ => _ end) =>
          first [constr_eq x y | change x with y]; destruct y
      end ].
Ltac eqm := intros; cbv beta; repeat eqm1.
Ltac fr1 :=
  lazymatch goal with
  | |- Frame (ret _) => apply Frame_ret
  | |- Frame (panic _) => apply Frame_panic
  | |- Frame out_of_fuel => apply Frame_out_of_fuel
  | |- Frame (emit _) => apply Frame_emit
  | |- Frame (log_arm _ _) => apply Frame_log_arm
  | |- Frame parse_error => apply Frame_parse_error
  | |- Frame (probe _) => apply Frame_probe
  | |- Frame (unwrap _ _) => apply Frame_unwrap
  | |- Frame (assert _ _) => apply Frame_assert
  | |- Frame (when _ _) => apply Frame_when
  | |- Frame (mapM_ _ _) => apply Frame_mapM_; intro
  | |- Frame (modify _) => apply Frame_modify; [fr_state_eq | intros; reflexivity]
  | |- Frame (bind get _) => apply Frame_get; [intro | eqm]
  | |- Frame (bind (gets _) _) => apply Frame_gets; [intro | fr_state_eq]
  | |- Frame (bind _ _) => apply Frame_bind; [ | intro ]
  | |- Frame (if ?b then _ else _) => destruct b
  | |- Frame (match ?x with _ => _ end) => destruct x
  | |- Frame (let '(_, _) := ?x in _) => destruct x
  | |- Frame _ => solve [auto with frame]
  end.
Ltac fr := repeat fr1.

(* ---------- TreeModelHelpers.v ---------- *)
Ltac frame_of f := unfold f; fr.

Lemma Frame_sink_create_element name attrs dup : Frame (sink_create_element name attrs dup).
Proof. frame_of sink_create_element. Qed.
Lemma Frame_sink_create_comment text : Frame (sink_create_comment text).
Proof. frame_of sink_create_comment. Qed.
Lemma Frame_sink_get_template_contents t : Frame (sink_get_template_contents t).
Proof. frame_of sink_get_template_contents. Qed.
Lemma Frame_unexpected : Frame unexpected.
Proof. frame_of unexpected. Qed.
Lemma Frame_do_set_quirks q : Frame (do_set_quirks q).
Proof. frame_of do_set_quirks. Qed.
Lemma Frame_current_node : Frame current_node.
Proof. frame_of current_node. Qed.
#[export] Hint Resolve Frame_sink_create_element Frame_sink_create_comment Frame_sink_get_template_contents Frame_unexpected
  Frame_do_set_quirks Frame_current_node : frame.
Lemma Frame_adjusted_current_node : Frame adjusted_current_node.
Proof. frame_of adjusted_current_node. Qed.
Lemma Frame_current_node_in set : Frame (current_node_in set).
Proof. frame_of current_node_in. Qed.
Lemma Frame_current_node_named n : Frame (current_node_named n).
Proof. frame_of current_node_named. Qed.
Lemma Frame_push h : Frame (push h).
Proof. frame_of push. Qed.
Lemma Frame_pop : Frame pop.
Proof. frame_of pop. Qed.
Lemma Frame_remove_from_stack e : Frame (remove_from_stack e).
Proof. frame_of remove_from_stack. Qed.
#[export] Hint Resolve Frame_adjusted_current_node Frame_current_node_in Frame_current_node_named Frame_push Frame_pop
  Frame_remove_from_stack : frame.

Lemma foster_search_out o c l : foster_search (set_out o c) l = foster_search c l.
Proof. induction l as [|e r IH]; simpl; [reflexivity | rewrite IH; reflexivity]. Qed.
Lemma Frame_foster_search c l : Frame (foster_search c l).
Proof. induction l as [|e r IH]; simpl; fr. Qed.
#[export] Hint Rewrite foster_search_out : outfree.
#[export] Hint Resolve Frame_foster_search : frame.
Lemma Frame_appropriate_place o : Frame (appropriate_place o).
Proof. frame_of appropriate_place. Qed.
Lemma Frame_insert_at ip c : Frame (insert_at ip c).
Proof. frame_of insert_at. Qed.
#[export] Hint Resolve Frame_appropriate_place Frame_insert_at : frame.
Lemma Frame_insert_appropriately c o : Frame (insert_appropriately c o).
Proof. frame_of insert_appropriately. Qed.
Lemma Frame_generate_implied_end_tags set : Frame (generate_implied_end_tags set).
Proof. frame_of generate_implied_end_tags. Qed.
#[export] Hint Resolve Frame_insert_appropriately Frame_generate_implied_end_tags : frame.
Lemma Frame_generate_implied_end_except n : Frame (generate_implied_end_except n).
Proof. frame_of generate_implied_end_except. Qed.
Lemma Frame_pop_until_current set : Frame (pop_until_current set).
Proof. frame_of pop_until_current. Qed.
Lemma Frame_pop_until pred : Frame (pop_until pred).
Proof. frame_of pop_until. Qed.
#[export] Hint Resolve Frame_generate_implied_end_except Frame_pop_until_current Frame_pop_until : frame.
Lemma Frame_pop_until_named n : Frame (pop_until_named n).
Proof. frame_of pop_until_named. Qed.
#[export] Hint Resolve Frame_pop_until_named : frame.
Lemma Frame_expect_to_close n : Frame (expect_to_close n).
Proof. frame_of expect_to_close. Qed.
#[export] Hint Resolve Frame_expect_to_close : frame.
Lemma Frame_close_p_element : Frame close_p_element.
Proof. frame_of close_p_element. Qed.
#[export] Hint Resolve Frame_close_p_element : frame.
Lemma Frame_close_p_element_in_button_scope : Frame close_p_element_in_button_scope.
Proof. frame_of close_p_element_in_button_scope. Qed.
Lemma Frame_check_body_end : Frame check_body_end.
Proof. frame_of check_body_end. Qed.
Lemma Frame_clear_active_formatting_to_marker : Frame clear_active_formatting_to_marker.
Proof. frame_of clear_active_formatting_to_marker. Qed.
Lemma Frame_push_marker : Frame push_marker.
Proof. frame_of push_marker. Qed.
Lemma Frame_create_root attrs : Frame (create_root attrs).
Proof. frame_of create_root. Qed.
#[export] Hint Resolve Frame_close_p_element_in_button_scope Frame_check_body_end Frame_clear_active_formatting_to_marker
  Frame_push_marker Frame_create_root : frame.
Lemma Frame_insert_element p ns name attrs dup : Frame (insert_element p ns name attrs dup).
Proof. frame_of insert_element. Qed.
#[export] Hint Resolve Frame_insert_element : frame.
Lemma Frame_insert_element_for t : Frame (insert_element_for t).
Proof. frame_of insert_element_for. Qed.
Lemma Frame_insert_and_pop_element_for t : Frame (insert_and_pop_element_for t).
Proof. frame_of insert_and_pop_element_for. Qed.
Lemma Frame_insert_phantom n : Frame (insert_phantom n).
Proof. frame_of insert_phantom. Qed.
Lemma Frame_insert_foreign_element t ns b : Frame (insert_foreign_element t ns b).
Proof. frame_of insert_foreign_element. Qed.
Lemma Frame_should_attach t : Frame (should_attach_declarative_shadow t).
Proof. frame_of should_attach_declarative_shadow. Qed.
#[export] Hint Resolve Frame_insert_element_for Frame_insert_and_pop_element_for Frame_insert_phantom
  Frame_insert_foreign_element Frame_should_attach : frame.
Lemma Frame_append_text x : Frame (append_text x).
Proof. frame_of append_text. Qed.
Lemma Frame_append_comment x : Frame (append_comment x).
Proof. frame_of append_comment. Qed.
Lemma Frame_append_comment_to_doc x : Frame (append_comment_to_doc x).
Proof. frame_of append_comment_to_doc. Qed.
Lemma Frame_append_comment_to_html x : Frame (append_comment_to_html x).
Proof. frame_of append_comment_to_html. Qed.
Lemma Frame_to_raw_text_mode k : Frame (to_raw_text_mode k).
Proof. frame_of to_raw_text_mode. Qed.
#[export] Hint Resolve Frame_append_text Frame_append_comment Frame_append_comment_to_doc Frame_append_comment_to_html
  Frame_to_raw_text_mode : frame.
Lemma Frame_parse_raw_data t k : Frame (parse_raw_data t k).
Proof. frame_of parse_raw_data. Qed.
Lemma Frame_create_formatting_element_for t : Frame (create_formatting_element_for t).
Proof. frame_of create_formatting_element_for. Qed.
#[export] Hint Resolve Frame_parse_raw_data Frame_create_formatting_element_for : frame.

Lemma Frame_recon_create : forall fuel idx, Frame (recon_create fuel idx).
Proof. induction fuel as [|f IH]; intro idx; cbn [recon_create]; fr; try apply IH. Qed.
#[export] Hint Resolve Frame_recon_create : frame.
Lemma Frame_reconstruct : Frame reconstruct_active_formatting_elements.
Proof. frame_of reconstruct_active_formatting_elements. Qed.
Lemma Frame_process_end_tag_in_body n : Frame (process_end_tag_in_body n).
Proof. frame_of process_end_tag_in_body. Qed.
#[export] Hint Resolve Frame_reconstruct Frame_process_end_tag_in_body : frame.
Lemma Frame_aaa_inner : forall ni counter fe fb ln bm, Frame (aaa_inner ni counter fe fb ln bm).
Proof. induction ni as [|i IH]; intros; cbn [aaa_inner]; fr; try apply IH. Qed.
#[export] Hint Resolve Frame_aaa_inner : frame.
Lemma Frame_aaa_iteration subject : Frame (aaa_iteration subject).
Proof. frame_of aaa_iteration. Qed.
#[export] Hint Resolve Frame_aaa_iteration : frame.
Lemma Frame_aaa_outer : forall n subject, Frame (aaa_outer n subject).
Proof. induction n as [|i IH]; intros; cbn [aaa_outer]; fr; try apply IH. Qed.
#[export] Hint Resolve Frame_aaa_outer : frame.
Lemma Frame_adoption_agency subject : Frame (adoption_agency subject).
Proof. frame_of adoption_agency. Qed.
#[export] Hint Resolve Frame_adoption_agency : frame.
Lemma Frame_handle_misnested_a_tags : Frame handle_misnested_a_tags.
Proof. frame_of handle_misnested_a_tags. Qed.
Lemma reset_loop_out o c l : reset_loop (set_out o c) l = reset_loop c l.
Proof. induction l as [|e r IH]; cbn [reset_loop]; [reflexivity | rewrite IH; reflexivity]. Qed.
#[export] Hint Rewrite reset_loop_out : outfree.
Lemma Frame_reset_loop c l : Frame (reset_loop c l).
Proof. induction l as [|e r IH]; cbn [reset_loop]; fr; try exact IH. Qed.
#[export] Hint Resolve Frame_handle_misnested_a_tags Frame_reset_loop : frame.
Lemma Frame_reset_insertion_mode : Frame reset_insertion_mode.
Proof. frame_of reset_insertion_mode. Qed.
Lemma Frame_close_the_cell : Frame close_the_cell.
Proof. frame_of close_the_cell. Qed.
Lemma Frame_body_elem c : Frame (body_elem c).
Proof. frame_of body_elem. Qed.
Lemma Frame_is_foreign t : Frame (is_foreign t).
Proof. frame_of is_foreign. Qed.
#[export] Hint Resolve Frame_reset_insertion_mode Frame_close_the_cell Frame_body_elem Frame_is_foreign : frame.
Lemma Frame_enter_foreign t ns : Frame (enter_foreign t ns).
Proof. frame_of enter_foreign. Qed.
#[export] Hint Resolve Frame_enter_foreign : frame.
Lemma Frame_foreign_start_tag t : Frame (foreign_start_tag t).
Proof. frame_of foreign_start_tag. Qed.
Lemma Frame_pop_to_html_or_integration_point : Frame pop_to_html_or_integration_point.
Proof. frame_of pop_to_html_or_integration_point. Qed.
Lemma Frame_extract_encoding c : Frame (extract_encoding c).
Proof. frame_of extract_encoding. Qed.
#[export] Hint Resolve Frame_foreign_start_tag Frame_pop_to_html_or_integration_point Frame_extract_encoding : frame.
Lemma Frame_meta_like_result t : Frame (meta_like_result t).
Proof. frame_of meta_like_result. Qed.
#[export] Hint Resolve Frame_meta_like_result : frame.

(* ---------- TreeModelRules.v ---------- *)
Notation FrameB b := (forall t : tok, Frame (b t)).
Lemma Frame_nth_body k (bodies : list body) : Forall (fun b : body => FrameB b) bodies -> FrameB (nth k bodies (fun _ => panic 90)).
Proof.
  revert k. induction bodies as [|b r IH]; intros k H t.
  - destruct k; apply Frame_panic.
  - inversion H; subst. destruct k; simpl; [auto | apply IH; assumption].
Qed.
Lemma Frame_arm_dispatch mid heads bodies : Forall (fun b : body => FrameB b) bodies -> FrameB (arm_dispatch mid heads bodies).
Proof. intros H t. unfold arm_dispatch. apply Frame_bind; [apply Frame_log_arm | intros _; apply Frame_nth_body; exact H]. Qed.
Ltac fr_bodies := repeat (apply Forall_cons; [intro; fr | ]); try apply Forall_nil.
Ltac fr_step f bodies := intros; unfold f; apply Frame_arm_dispatch; unfold bodies; fr_bodies.

Lemma Frame_set_mode_m m : Frame (set_mode_m m).
Proof. frame_of set_mode_m. Qed.
Lemma Frame_set_frameset_not_ok : Frame set_frameset_not_ok.
Proof. frame_of set_frameset_not_ok. Qed.
Lemma Frame_b_split : FrameB b_split. Proof. intro; frame_of b_split. Qed.
Lemma Frame_b_done : FrameB b_done. Proof. intro; frame_of b_done. Qed.
Lemma Frame_b_unexpected : FrameB b_unexpected. Proof. intro; frame_of b_unexpected. Qed.
Lemma Frame_b_append_text : FrameB b_append_text. Proof. intro; frame_of b_append_text. Qed.
Lemma Frame_b_append_comment : FrameB b_append_comment. Proof. intro; frame_of b_append_comment. Qed.
Lemma Frame_b_comment_to_doc : FrameB b_comment_to_doc. Proof. intro; frame_of b_comment_to_doc. Qed.
Lemma Frame_b_comment_to_html : FrameB b_comment_to_html. Proof. intro; frame_of b_comment_to_html. Qed.
#[export] Hint Resolve Frame_set_mode_m Frame_set_frameset_not_ok Frame_b_split Frame_b_done Frame_b_unexpected Frame_b_append_text
  Frame_b_append_comment Frame_b_comment_to_doc Frame_b_comment_to_html : frame.

Lemma Frame_step_initial : FrameB step_initial.
Proof. fr_step step_initial bodies_initial. Qed.
Lemma Frame_before_html_anything_else : FrameB before_html_anything_else.
Proof. intro; frame_of before_html_anything_else. Qed.
#[export] Hint Resolve Frame_step_initial Frame_before_html_anything_else : frame.
Lemma Frame_step_before_html : FrameB step_before_html.
Proof. fr_step step_before_html bodies_before_html. Qed.
Lemma Frame_before_head_anything_else : FrameB before_head_anything_else.
Proof. intro; frame_of before_head_anything_else. Qed.
#[export] Hint Resolve Frame_step_before_html Frame_before_head_anything_else : frame.
Lemma Frame_step_before_head ib : FrameB ib -> FrameB (step_before_head ib).
Proof. fr_step step_before_head bodies_before_head. Qed.
Lemma Frame_in_head_anything_else : FrameB in_head_anything_else.
Proof. intro; frame_of in_head_anything_else. Qed.
Lemma Frame_in_head_template_start : FrameB in_head_template_start.
Proof. intro; frame_of in_head_template_start. Qed.
Lemma Frame_in_head_template_end : FrameB in_head_template_end.
Proof. intro; frame_of in_head_template_end. Qed.
#[export] Hint Resolve Frame_step_before_head Frame_in_head_anything_else Frame_in_head_template_start Frame_in_head_template_end : frame.
Lemma Frame_step_in_head_gen ib : FrameB ib -> FrameB (step_in_head_gen ib).
Proof. fr_step step_in_head_gen bodies_in_head_gen. Qed.
Lemma Frame_in_head_noscript_anything_else : FrameB in_head_noscript_anything_else.
Proof. intro; frame_of in_head_noscript_anything_else. Qed.
#[export] Hint Resolve Frame_step_in_head_gen Frame_in_head_noscript_anything_else : frame.
Lemma Frame_step_in_head_noscript ih ib : FrameB ih -> FrameB ib -> FrameB (step_in_head_noscript ih ib).
Proof. fr_step step_in_head_noscript bodies_in_head_noscript. Qed.
Lemma Frame_after_head_anything_else : FrameB after_head_anything_else.
Proof. intro; frame_of after_head_anything_else. Qed.
#[export] Hint Resolve Frame_step_in_head_noscript Frame_after_head_anything_else : frame.
Lemma Frame_step_after_head ih ib : FrameB ih -> FrameB ib -> FrameB (step_after_head ih ib).
Proof. fr_step step_after_head bodies_after_head. Qed.
#[export] Hint Resolve Frame_step_after_head : frame.
Lemma Frame_ib_block_start : FrameB ib_block_start. Proof. intro; frame_of ib_block_start. Qed.
Lemma Frame_ib_end_block : FrameB ib_end_block. Proof. intro; frame_of ib_end_block. Qed.
Lemma Frame_ib_form_end : FrameB ib_form_end. Proof. intro; frame_of ib_form_end. Qed.
Lemma Frame_ib_void : FrameB ib_void. Proof. intro; frame_of ib_void. Qed.
Lemma Frame_ib_any_end : FrameB ib_any_end. Proof. intro; frame_of ib_any_end. Qed.
#[export] Hint Resolve Frame_ib_block_start Frame_ib_end_block Frame_ib_form_end Frame_ib_void Frame_ib_any_end : frame.

Lemma Frame_ib_arm_0 ih it self : FrameB ih -> FrameB it -> FrameB self -> FrameB (ib_arm_0 ih it self).
Proof. intros; frame_of ib_arm_0. Qed.
Lemma Frame_ib_arm_1 ih it self : FrameB ih -> FrameB it -> FrameB self -> FrameB (ib_arm_1 ih it self).
Proof. intros; frame_of ib_arm_1. Qed.
Lemma Frame_ib_arm_2 ih it self : FrameB ih -> FrameB it -> FrameB self -> FrameB (ib_arm_2 ih it self).
Proof. intros; frame_of ib_arm_2. Qed.
Lemma Frame_ib_arm_3 ih it self : FrameB ih -> FrameB it -> FrameB self -> FrameB (ib_arm_3 ih it self).
Proof. intros; frame_of ib_arm_3. Qed.
Lemma Frame_ib_arm_4 ih it self : FrameB ih -> FrameB it -> FrameB self -> FrameB (ib_arm_4 ih it self).
Proof. intros; frame_of ib_arm_4. Qed.
Lemma Frame_ib_arm_5 ih it self : FrameB ih -> FrameB it -> FrameB self -> FrameB (ib_arm_5 ih it self).
Proof. intros; frame_of ib_arm_5. Qed.
Lemma Frame_ib_arm_6 ih it self : FrameB ih -> FrameB it -> FrameB self -> FrameB (ib_arm_6 ih it self).
Proof. intros; frame_of ib_arm_6. Qed.
Lemma Frame_ib_arm_7 ih it self : FrameB ih -> FrameB it -> FrameB self -> FrameB (ib_arm_7 ih it self).
Proof. intros; frame_of ib_arm_7. Qed.
Lemma Frame_ib_arm_8 ih it self : FrameB ih -> FrameB it -> FrameB self -> FrameB (ib_arm_8 ih it self).
Proof. intros; frame_of ib_arm_8. Qed.
Lemma Frame_ib_arm_9 ih it self : FrameB ih -> FrameB it -> FrameB self -> FrameB (ib_arm_9 ih it self).
Proof. intros; frame_of ib_arm_9. Qed.
Lemma Frame_ib_arm_10 ih it self : FrameB ih -> FrameB it -> FrameB self -> FrameB (ib_arm_10 ih it self).
Proof. intros; frame_of ib_arm_10. Qed.
Lemma Frame_ib_arm_11 ih it self : FrameB ih -> FrameB it -> FrameB self -> FrameB (ib_arm_11 ih it self).
Proof. intros; frame_of ib_arm_11. Qed.
Lemma Frame_ib_arm_12 ih it self : FrameB ih -> FrameB it -> FrameB self -> FrameB (ib_arm_12 ih it self).
Proof. intros; frame_of ib_arm_12. Qed.
Lemma Frame_ib_arm_13 ih it self : FrameB ih -> FrameB it -> FrameB self -> FrameB (ib_arm_13 ih it self).
Proof. intros; frame_of ib_arm_13. Qed.
Lemma Frame_ib_arm_14 ih it self : FrameB ih -> FrameB it -> FrameB self -> FrameB (ib_arm_14 ih it self).
Proof. intros; frame_of ib_arm_14. Qed.
Lemma Frame_ib_arm_15 ih it self : FrameB ih -> FrameB it -> FrameB self -> FrameB (ib_arm_15 ih it self).
Proof. intros; frame_of ib_arm_15. Qed.
Lemma Frame_ib_arm_16 ih it self : FrameB ih -> FrameB it -> FrameB self -> FrameB (ib_arm_16 ih it self).
Proof. intros; frame_of ib_arm_16. Qed.
Lemma Frame_ib_arm_17 ih it self : FrameB ih -> FrameB it -> FrameB self -> FrameB (ib_arm_17 ih it self).
Proof. intros; frame_of ib_arm_17. Qed.
Lemma Frame_ib_arm_18 ih it self : FrameB ih -> FrameB it -> FrameB self -> FrameB (ib_arm_18 ih it self).
Proof. intros; frame_of ib_arm_18. Qed.
Lemma Frame_ib_arm_19 ih it self : FrameB ih -> FrameB it -> FrameB self -> FrameB (ib_arm_19 ih it self).
Proof. intros; frame_of ib_arm_19. Qed.
Lemma Frame_ib_arm_20 ih it self : FrameB ih -> FrameB it -> FrameB self -> FrameB (ib_arm_20 ih it self).
Proof. intros; frame_of ib_arm_20. Qed.
Lemma Frame_ib_arm_21 ih it self : FrameB ih -> FrameB it -> FrameB self -> FrameB (ib_arm_21 ih it self).
Proof. intros; frame_of ib_arm_21. Qed.
Lemma Frame_ib_arm_22 ih it self : FrameB ih -> FrameB it -> FrameB self -> FrameB (ib_arm_22 ih it self).
Proof. intros; frame_of ib_arm_22. Qed.
Lemma Frame_ib_arm_23 ih it self : FrameB ih -> FrameB it -> FrameB self -> FrameB (ib_arm_23 ih it self).
Proof. intros; frame_of ib_arm_23. Qed.
Lemma Frame_ib_arm_24 ih it self : FrameB ih -> FrameB it -> FrameB self -> FrameB (ib_arm_24 ih it self).
Proof. intros; frame_of ib_arm_24. Qed.
Lemma Frame_ib_arm_25 ih it self : FrameB ih -> FrameB it -> FrameB self -> FrameB (ib_arm_25 ih it self).
Proof. intros; frame_of ib_arm_25. Qed.
Lemma Frame_ib_arm_26 ih it self : FrameB ih -> FrameB it -> FrameB self -> FrameB (ib_arm_26 ih it self).
Proof. intros; frame_of ib_arm_26. Qed.
Lemma Frame_ib_arm_27 ih it self : FrameB ih -> FrameB it -> FrameB self -> FrameB (ib_arm_27 ih it self).
Proof. intros; frame_of ib_arm_27. Qed.
Lemma Frame_ib_arm_28 ih it self : FrameB ih -> FrameB it -> FrameB self -> FrameB (ib_arm_28 ih it self).
Proof. intros; frame_of ib_arm_28. Qed.
Lemma Frame_ib_arm_29 ih it self : FrameB ih -> FrameB it -> FrameB self -> FrameB (ib_arm_29 ih it self).
Proof. intros; frame_of ib_arm_29. Qed.
Lemma Frame_ib_arm_30 ih it self : FrameB ih -> FrameB it -> FrameB self -> FrameB (ib_arm_30 ih it self).
Proof. intros; frame_of ib_arm_30. Qed.
Lemma Frame_ib_arm_31 ih it self : FrameB ih -> FrameB it -> FrameB self -> FrameB (ib_arm_31 ih it self).
Proof. intros; frame_of ib_arm_31. Qed.
Lemma Frame_ib_arm_32 ih it self : FrameB ih -> FrameB it -> FrameB self -> FrameB (ib_arm_32 ih it self).
Proof. intros; frame_of ib_arm_32. Qed.
Lemma Frame_ib_arm_33 ih it self : FrameB ih -> FrameB it -> FrameB self -> FrameB (ib_arm_33 ih it self).
Proof. intros; frame_of ib_arm_33. Qed.
Lemma Frame_ib_arm_34 ih it self : FrameB ih -> FrameB it -> FrameB self -> FrameB (ib_arm_34 ih it self).
Proof. intros; frame_of ib_arm_34. Qed.
Lemma Frame_ib_arm_35 ih it self : FrameB ih -> FrameB it -> FrameB self -> FrameB (ib_arm_35 ih it self).
Proof. intros; frame_of ib_arm_35. Qed.
Lemma Frame_ib_arm_36 ih it self : FrameB ih -> FrameB it -> FrameB self -> FrameB (ib_arm_36 ih it self).
Proof. intros; frame_of ib_arm_36. Qed.
Lemma Frame_ib_arm_37 ih it self : FrameB ih -> FrameB it -> FrameB self -> FrameB (ib_arm_37 ih it self).
Proof. intros; frame_of ib_arm_37. Qed.
Lemma Frame_ib_arm_38 ih it self : FrameB ih -> FrameB it -> FrameB self -> FrameB (ib_arm_38 ih it self).
Proof. intros; frame_of ib_arm_38. Qed.
Lemma Frame_ib_arm_39 ih it self : FrameB ih -> FrameB it -> FrameB self -> FrameB (ib_arm_39 ih it self).
Proof. intros; frame_of ib_arm_39. Qed.
Lemma Frame_ib_arm_40 ih it self : FrameB ih -> FrameB it -> FrameB self -> FrameB (ib_arm_40 ih it self).
Proof. intros; frame_of ib_arm_40. Qed.
Lemma Frame_ib_arm_41 ih it self : FrameB ih -> FrameB it -> FrameB self -> FrameB (ib_arm_41 ih it self).
Proof. intros; frame_of ib_arm_41. Qed.
Lemma Frame_ib_arm_42 ih it self : FrameB ih -> FrameB it -> FrameB self -> FrameB (ib_arm_42 ih it self).
Proof. intros; frame_of ib_arm_42. Qed.
Lemma Frame_ib_arm_43 ih it self : FrameB ih -> FrameB it -> FrameB self -> FrameB (ib_arm_43 ih it self).
Proof. intros; frame_of ib_arm_43. Qed.
Lemma Frame_ib_arm_44 ih it self : FrameB ih -> FrameB it -> FrameB self -> FrameB (ib_arm_44 ih it self).
Proof. intros; frame_of ib_arm_44. Qed.
Lemma Frame_ib_arm_45 ih it self : FrameB ih -> FrameB it -> FrameB self -> FrameB (ib_arm_45 ih it self).
Proof. intros; frame_of ib_arm_45. Qed.
Lemma Frame_ib_arm_46 ih it self : FrameB ih -> FrameB it -> FrameB self -> FrameB (ib_arm_46 ih it self).
Proof. intros; frame_of ib_arm_46. Qed.
Lemma Frame_ib_arm_47 ih it self : FrameB ih -> FrameB it -> FrameB self -> FrameB (ib_arm_47 ih it self).
Proof. intros; frame_of ib_arm_47. Qed.
Lemma Frame_ib_arm_48 ih it self : FrameB ih -> FrameB it -> FrameB self -> FrameB (ib_arm_48 ih it self).
Proof. intros; frame_of ib_arm_48. Qed.
Lemma Frame_ib_arm_49 ih it self : FrameB ih -> FrameB it -> FrameB self -> FrameB (ib_arm_49 ih it self).
Proof. intros; frame_of ib_arm_49. Qed.
Lemma Frame_ib_arm_50 ih it self : FrameB ih -> FrameB it -> FrameB self -> FrameB (ib_arm_50 ih it self).
Proof. intros; frame_of ib_arm_50. Qed.
#[export] Hint Resolve Frame_ib_arm_0 Frame_ib_arm_1 Frame_ib_arm_2 Frame_ib_arm_3 Frame_ib_arm_4 Frame_ib_arm_5 Frame_ib_arm_6 Frame_ib_arm_7 Frame_ib_arm_8 Frame_ib_arm_9 Frame_ib_arm_10 Frame_ib_arm_11 Frame_ib_arm_12 Frame_ib_arm_13 Frame_ib_arm_14 Frame_ib_arm_15 Frame_ib_arm_16 Frame_ib_arm_17 Frame_ib_arm_18 Frame_ib_arm_19 Frame_ib_arm_20 Frame_ib_arm_21 Frame_ib_arm_22 Frame_ib_arm_23 Frame_ib_arm_24 Frame_ib_arm_25 Frame_ib_arm_26 Frame_ib_arm_27 Frame_ib_arm_28 Frame_ib_arm_29 Frame_ib_arm_30 Frame_ib_arm_31 Frame_ib_arm_32 Frame_ib_arm_33 Frame_ib_arm_34 Frame_ib_arm_35 Frame_ib_arm_36 Frame_ib_arm_37 Frame_ib_arm_38 Frame_ib_arm_39 Frame_ib_arm_40 Frame_ib_arm_41 Frame_ib_arm_42 Frame_ib_arm_43 Frame_ib_arm_44 Frame_ib_arm_45 Frame_ib_arm_46 Frame_ib_arm_47 Frame_ib_arm_48 Frame_ib_arm_49 Frame_ib_arm_50 : frame.
Lemma Frame_step_in_body_gen ih it self : FrameB ih -> FrameB it -> FrameB self -> FrameB (step_in_body_gen ih it self).
Proof. fr_step step_in_body_gen bodies_in_body_gen. Qed.
Lemma Frame_switch_template_mode m : FrameB (switch_template_mode m).
Proof. intro; frame_of switch_template_mode. Qed.
#[export] Hint Resolve Frame_step_in_body_gen Frame_switch_template_mode : frame.
Lemma Frame_step_in_template_gen ih ib : FrameB ih -> FrameB ib -> FrameB (step_in_template_gen ih ib).
Proof. fr_step step_in_template_gen bodies_in_template_gen. Qed.
Lemma Frame_no_callee : FrameB no_callee. Proof. intro; apply Frame_out_of_fuel. Qed.
#[export] Hint Resolve Frame_step_in_template_gen Frame_no_callee : frame.
Lemma Frame_step_in_body_0 : FrameB step_in_body_0. Proof. unfold step_in_body_0; auto with frame. Qed.
#[export] Hint Resolve Frame_step_in_body_0 : frame.
Lemma Frame_step_in_head : FrameB step_in_head. Proof. unfold step_in_head; auto with frame. Qed.
Lemma Frame_step_in_template_0 : FrameB step_in_template_0. Proof. unfold step_in_template_0; auto with frame. Qed.
#[export] Hint Resolve Frame_step_in_head Frame_step_in_template_0 : frame.
Lemma Frame_step_in_body_1 : FrameB step_in_body_1. Proof. unfold step_in_body_1; auto with frame. Qed.
#[export] Hint Resolve Frame_step_in_body_1 : frame.
Lemma Frame_step_in_body : FrameB step_in_body. Proof. unfold step_in_body; auto with frame. Qed.
#[export] Hint Resolve Frame_step_in_body : frame.
Lemma Frame_step_in_template : FrameB step_in_template. Proof. unfold step_in_template; auto with frame. Qed.
#[export] Hint Resolve Frame_step_in_template : frame.
Lemma Frame_step_text : FrameB step_text.
Proof. fr_step step_text bodies_text. Qed.
Lemma Frame_foster_parent_in_body : FrameB foster_parent_in_body.
Proof. intro; frame_of foster_parent_in_body. Qed.
#[export] Hint Resolve Frame_step_text Frame_foster_parent_in_body : frame.
Lemma Frame_process_chars_in_table : FrameB process_chars_in_table.
Proof. intro; frame_of process_chars_in_table. Qed.
#[export] Hint Resolve Frame_process_chars_in_table : frame.
Lemma Frame_step_in_table : FrameB step_in_table.
Proof. fr_step step_in_table bodies_in_table. Qed.
#[export] Hint Resolve Frame_step_in_table : frame.
Lemma Frame_step_in_table_text : FrameB step_in_table_text.
Proof. fr_step step_in_table_text bodies_in_table_text. Qed.
#[export] Hint Resolve Frame_step_in_table_text : frame.
Lemma Frame_step_in_caption : FrameB step_in_caption.
Proof. fr_step step_in_caption bodies_in_caption. Qed.
#[export] Hint Resolve Frame_step_in_caption : frame.
Lemma Frame_step_in_column_group : FrameB step_in_column_group.
Proof. fr_step step_in_column_group bodies_in_column_group. Qed.
#[export] Hint Resolve Frame_step_in_column_group : frame.
Lemma Frame_step_in_table_body : FrameB step_in_table_body.
Proof. fr_step step_in_table_body bodies_in_table_body. Qed.
#[export] Hint Resolve Frame_step_in_table_body : frame.
Lemma Frame_close_row : Frame close_row.
Proof. frame_of close_row. Qed.
#[export] Hint Resolve Frame_close_row : frame.
#[export] Hint Resolve Frame_step_in_table Frame_step_in_table_text Frame_step_in_caption Frame_step_in_column_group
  Frame_step_in_table_body Frame_close_row : frame.
Lemma Frame_step_in_row : FrameB step_in_row.
Proof. fr_step step_in_row bodies_in_row. Qed.
#[export] Hint Resolve Frame_step_in_row : frame.
Lemma Frame_step_in_cell : FrameB step_in_cell.
Proof. fr_step step_in_cell bodies_in_cell. Qed.
#[export] Hint Resolve Frame_step_in_cell : frame.
Lemma Frame_step_after_body : FrameB step_after_body.
Proof. fr_step step_after_body bodies_after_body. Qed.
#[export] Hint Resolve Frame_step_after_body : frame.
Lemma Frame_step_in_frameset : FrameB step_in_frameset.
Proof. fr_step step_in_frameset bodies_in_frameset. Qed.
#[export] Hint Resolve Frame_step_in_frameset : frame.
Lemma Frame_step_after_frameset : FrameB step_after_frameset.
Proof. fr_step step_after_frameset bodies_after_frameset. Qed.
#[export] Hint Resolve Frame_step_after_frameset : frame.
Lemma Frame_step_after_after_body : FrameB step_after_after_body.
Proof. fr_step step_after_after_body bodies_after_after_body. Qed.
#[export] Hint Resolve Frame_step_after_after_body : frame.
Lemma Frame_step_after_after_frameset : FrameB step_after_after_frameset.
Proof. fr_step step_after_after_frameset bodies_after_after_frameset. Qed.
#[export] Hint Resolve Frame_step_after_after_frameset : frame.
#[export] Hint Resolve Frame_step_in_row Frame_step_in_cell Frame_step_after_body Frame_step_in_frameset Frame_step_after_frameset
  Frame_step_after_after_body Frame_step_after_after_frameset : frame.
Lemma Frame_step m : FrameB (step m).
Proof. intro t. destruct m; cbn [step]; auto with frame. Qed.
#[export] Hint Resolve Frame_step : frame.
#[export] Hint Resolve Frame_step : frame.
Lemma hshape_b_out o c : hshape_b (set_out o c) = hshape_b c.
Proof. unfold hshape_b. autorewrite with outfree. reflexivity. Qed.
#[export] Hint Rewrite hshape_b_out : outfree.
Lemma Frame_shape_check : Frame shape_check.
Proof. frame_of shape_check. Qed.
#[export] Hint Resolve Frame_shape_check : frame.
#[export] Hint Resolve Frame_shape_check : frame.
Lemma Frame_unexpected_start_tag_in_foreign_content : FrameB unexpected_start_tag_in_foreign_content.
Proof. intro; frame_of unexpected_start_tag_in_foreign_content. Qed.
#[export] Hint Resolve Frame_unexpected_start_tag_in_foreign_content : frame.
Lemma Frame_foreign_end_loop : forall i first, FrameB (foreign_end_loop i first).
Proof. induction i as [|i IH]; intros first t; cbn [foreign_end_loop]; fr. Qed.
#[export] Hint Resolve Frame_foreign_end_loop : frame.
#[export] Hint Resolve Frame_unexpected_start_tag_in_foreign_content Frame_foreign_end_loop : frame.
Lemma Frame_step_foreign : FrameB step_foreign.
Proof. fr_step step_foreign bodies_foreign. Qed.
#[export] Hint Resolve Frame_step_foreign : frame.
#[export] Hint Resolve Frame_step_foreign : frame.

(* ---------- TreeModel.v ---------- *)
Lemma Frame_init_fragment n a f : Frame (init_fragment n a f).
Proof. frame_of init_fragment. Qed.
Lemma Frame_tokenizer_state_for_context_elem b : Frame (tokenizer_state_for_context_elem b).
Proof. frame_of tokenizer_state_for_context_elem. Qed.
Lemma Frame_ptc_iter t more : Frame (ptc_iter t more).
Proof. frame_of ptc_iter. Qed.
#[export] Hint Resolve Frame_ptc_iter : frame.
Lemma Frame_ptc_loop : forall fuel t more, Frame (ptc_loop fuel t more).
Proof. induction fuel as [|f IH]; intros t more; cbn [ptc_loop]; fr. Qed.
#[export] Hint Resolve Frame_ptc_loop : frame.
Lemma ptc_fuel_out o c t : ptc_fuel (set_out o c) t = ptc_fuel c t.
Proof. reflexivity. Qed.
#[export] Hint Rewrite ptc_fuel_out : outfree.
Lemma Frame_process_to_completion t : Frame (process_to_completion t).
Proof. frame_of process_to_completion. Qed.
#[export] Hint Resolve Frame_process_to_completion : frame.
Lemma Frame_pt_prelude tk line : Frame (pt_prelude tk line).
Proof. frame_of pt_prelude. Qed.
#[export] Hint Resolve Frame_pt_prelude : frame.
Lemma Frame_process_token tk line : Frame (process_token tk line).
Proof. frame_of process_token. Qed.
Lemma Frame_tb_end : Frame tb_end.
Proof. frame_of tb_end. Qed.
Lemma Frame_adjusted_current_node_present_but_not_in_html_namespace :
  Frame adjusted_current_node_present_but_not_in_html_namespace.
Proof. frame_of adjusted_current_node_present_but_not_in_html_namespace. Qed.

(* ---------- the consequence used by TreeSplit.v: two states with the same core ---------- *)
Lemma same_core_repr s s' : set_out [] s = set_out [] s' -> s' = set_out (out s') s.
Proof.
  intro E. transitivity (set_out (out s') (set_out [] s')); [destruct s'; reflexivity|].
  rewrite <- E. reflexivity.
Qed.

Theorem Frame_two_states {A} (m : M A) : Frame m -> forall s s', set_out [] s = set_out [] s' ->
  match m s, m s' with
  | Ok a t, Ok a' t' => a = a' /\ set_out [] t = set_out [] t' /\ exists evs, out t = evs ++ out s /\ out t' = evs ++ out s'
  | Panic n, Panic n' => n = n'
  | OutOfFuel, OutOfFuel => True
  | _, _ => False
  end.
Proof.
  intros F s s' E. specialize (F s (out s')). pose proof (same_core_repr s s' E) as R.
  remember (out s') as o eqn:Eo'. clear Eo'. subst s'.
  destruct (m s) as [a t | n |]; [| rewrite F; reflexivity | rewrite F; exact I].
  destruct F as (evs & Eo & ->). split; [reflexivity|]. split; [reflexivity|].
  exists evs. split; [exact Eo | reflexivity].
Qed.

Theorem process_token_frame tk line : Frame (process_token tk line).
Proof. exact (Frame_process_token tk line). Qed.
