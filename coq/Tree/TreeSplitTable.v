(* ========================================================================
   TreeSplitTable.v - C03, tree-builder side, table text: the flush of the pending table text when it is white
   space only.

   In "in table" character tokens are queued in pending_table_text (one entry per token) and the next token that is
   not a character token flushes the queue (rules.rs:1145): if the queue holds a non-white-space character every entry
   is processed by the "in body" rules with foster parenting on, otherwise every entry is appended at the current node.
   A cut character token gives a queue with [(a); (b)] where the whole token gives [(a ++ b)].

   PROVED here
     * [flush_ws_eq]: the white-space branch of the flush in closed form (foster parenting off, the current node not
       a template element): one OpAppend per entry, nothing else changes.
     * [run_appends_split]: in DomSpec the appends of p ++ [a ++ b] ++ q and of p ++ [a; b] ++ q at the same parent
       build the same DOM.
     * [table_text_flush_ws_split]: the flush arm from two states that differ only in that one entry of the queue is
       cut in two gives the same answer, the same core and the same DOM, when the queue is white space only
       (the test itself does not depend on the cut: TreeSplit.pending_nonspace_split).
   NOT PROVED: the foster-parenting branch (needs the "in body" split theorem with foster parenting on and the merge
   of two OpAppendBasedOnParent of text in DomSpec); the queueing steps and the integration into the statement for
   whole token lists (between the cut token and the flush the two runs differ in pending_table_text, so the relation
   between the runs has to be weaker than [same_core] there).
   ======================================================================== *)
From Coq Require Import List NArith Bool Arith Lia String.
From HV Require Import Dom.DomSpec Dom.DomLemmas SinkSpec.Contract SinkSpec.ContractProofs.
From HV Require Import Tree.TreeTypes Tree.TreeTables Tree.TreeModelHelpers Tree.TreeModelRules Tree.TreeModel
  Tree.TreeHoare Tree.TreeInvBasic Tree.TreeInvDefs Tree.TreeInvSetters Tree.TreeInvPrims Tree.TreeInvHelpers Tree.TreeInvDispatch
  Tree.TreeInvRules Tree.TreeInvModes Tree.TreeInvMain Tree.TreeContract Tree.TreeSkeleton Tree.TreeContractRun
  Tree.TreeFrame Tree.TreeSplit.
Import ListNotations.
Open Scope string_scope.
Open Scope list_scope.
Notation length := List.length (only parsing).

(* ---------- the white-space branch in closed form ---------- *)
Definition flush_ws (l : list (split * str)) : M unit := mapM_ (fun x => _r <- append_text (snd x) ;; ret tt) l.

Fixpoint flush_events (target : handle) (l : list (split * str)) : list event :=
  match l with
  | [] => []
  | x :: r => flush_events target r ++ [EvOp (OpAppend target (inr (snd x))); EvArm 30 2]
  end.

Lemma flush_step_eq q x target :
  foster_parenting q = false -> vlast (open_elems q) = Some target -> named q target "template" = false ->
  (_r <- append_text x ;; ret tt) q = Ok tt (set_out (EvOp (OpAppend target (inr x)) :: EvArm 30 2 :: out q) q).
Proof. intros Fp V Nt. unfold bind. rewrite (append_text_eq q x target Fp V Nt). reflexivity. Qed.

Lemma flush_ws_eq target : forall l q,
  foster_parenting q = false -> vlast (open_elems q) = Some target -> named q target "template" = false ->
  flush_ws l q = Ok tt (set_out (flush_events target l ++ out q) q).
Proof.
  induction l as [|x r IH]; intros q Fp V Nt.
  - simpl. unfold ret. destruct q; reflexivity.
  - unfold flush_ws. cbn [mapM_]. unfold bind at 1. rewrite (flush_step_eq q (snd x) target Fp V Nt).
    fold (flush_ws r).
    rewrite (IH (set_out (EvOp (OpAppend target (inr (snd x))) :: EvArm 30 2 :: out q) q) Fp V Nt).
    cbn [flush_events out set_out]. rewrite <- app_assoc. reflexivity.
Qed.

Definition append_ops (target : handle) (l : list (split * str)) : list sinkop :=
  map (fun x => OpAppend target (inr (snd x))) l.

Lemma chron_flush_events target l : chron (flush_events target l) = append_ops target l.
Proof.
  induction l as [|x r IH]; [reflexivity|]. cbn [flush_events append_ops map]. rewrite chron_app, IH. reflexivity.
Qed.

(* ---------- the DOM ---------- *)
Definition bound (d : dom) (p : handle) : Prop := forall n, resolve d p = Some n -> n < size d.

Lemma ext_apply_append_text d p x : ext d (DomSpec.apply d (OpAppend p (inr x))).
Proof.
  cbn [DomSpec.apply]. unfold with1, with_child, do_append. destruct (resolve d p); [apply ext_append_text | apply ext_refl].
Qed.

Lemma bound_ext d d' p : ext d d' -> bound d p -> bound d' p.
Proof.
  intros (S & N & _) B n R. unfold resolve in R. rewrite N in R. fold (resolve d p) in R. specialize (B n R). lia.
Qed.

Lemma bound_run_appends p : forall l d, bound d p -> bound (run_from d (append_ops p l)) p.
Proof.
  induction l as [|x r IH]; intros d B; [exact B|]. cbn [append_ops map run_from fold_left].
  apply (IH (DomSpec.apply d (OpAppend p (inr (snd x))))). eapply bound_ext; [apply ext_apply_append_text | exact B].
Qed.

Theorem run_appends_split target pre post sp sp1 sp2 a b d : bound d target ->
  run_from d (append_ops target (pre ++ [(sp, a ++ b)] ++ post)) =
  run_from d (append_ops target (pre ++ [(sp1, a); (sp2, b)] ++ post)).
Proof.
  intro B. unfold append_ops. rewrite !map_app, !run_from_app. f_equal.
  cbn [map run_from fold_left snd]. symmetry. apply apply_append_text_twice.
  exact (bound_run_appends target pre d B).
Qed.

(* ---------- the flush arm ---------- *)
Definition flush_arm : body := nth 2 bodies_in_table_text (fun _ => panic 90).

Definition flushed_state (s : st) (target : handle) : st :=
  set_orig_mode None
    (set_out (flush_events target (pending_table_text s) ++ EvArm 30 53 :: out s) (set_pending_table_text [] s)).

Lemma flush_arm_ws s t target :
  foster_parenting s = false -> vlast (open_elems s) = Some target -> named s target "template" = false ->
  pending_contains_nonspace (pending_table_text s) = false ->
  flush_arm t s = match orig_mode s with
                  | Some om => Ok (Reprocess om t) (flushed_state s target)
                  | None => Panic 41
                  end.
Proof.
  intros Fp V Nt Ws. unfold flush_arm. cbn [nth bodies_in_table_text]. unfold bind at 1. unfold get. cbv zeta.
  unfold bind at 1. unfold modify at 1. rewrite Ws. unfold bind at 1. unfold bind at 1. unfold probe, log_arm, modify at 1.
  fold (flush_ws (pending_table_text s)).
  rewrite (flush_ws_eq target (pending_table_text s)); [|exact Fp | exact V | exact Nt].
  unfold bind at 1. unfold get. unfold bind at 1. cbn [orig_mode set_out set_pending_table_text].
  destruct (orig_mode s) as [om|]; [|reflexivity]. reflexivity.
Qed.

Theorem table_text_flush_ws_split s t pre post a b target :
  TInv s -> foster_parenting s = false -> vlast (open_elems s) = Some target -> named s target "template" = false ->
  pending_table_text s = pre ++ [(NotSplit, a ++ b)] ++ post ->
  pending_contains_nonspace (pending_table_text s) = false ->
  let s' := set_pending_table_text (pre ++ [(NotSplit, a); (NotSplit, b)] ++ post) s in
  match flush_arm t s, flush_arm t s' with
  | Ok r1 t1, Ok r2 t2 => r1 = r2 /\ same_core t1 t2 /\ dom_of t1 = dom_of t2
  | Panic n1, Panic n2 => n1 = n2
  | OutOfFuel, OutOfFuel => True
  | _, _ => False
  end.
Proof.
  intros I Fp V Nt Ep Ws s'.
  assert (Ws' : pending_contains_nonspace (pending_table_text s') = false).
  { unfold s'. cbn [pending_table_text set_pending_table_text]. rewrite <- pending_nonspace_split. rewrite <- Ep. exact Ws. }
  rewrite (flush_arm_ws s t target Fp V Nt Ws), (flush_arm_ws s' t target Fp V Nt Ws').
  change (orig_mode s') with (orig_mode s). destruct (orig_mode s) as [om|]; [|reflexivity].
  split; [reflexivity|]. split; [reflexivity|].
  unfold dom_of, flushed_state. cbn [out set_out set_orig_mode]. rewrite !chron_app, !run_from_app. rewrite !chron_flush_events.
  unfold s' at 1. cbn [pending_table_text set_pending_table_text out]. rewrite Ep.
  apply run_appends_split.
  rewrite chron_cons, run_from_app. cbn [run_from fold_left]. rewrite ?app_nil_r.
  intros n R. exact (sim_bound _ _ (TInv_sim s I) target n R).
Qed.

(* the same through the dispatch of "in table text": any token that selects the flush arm *)
Theorem step_in_table_text_flush_ws_split s t pre post a b target :
  TInv s -> foster_parenting s = false -> vlast (open_elems s) = Some target -> named s target "template" = false ->
  pending_table_text s = pre ++ [(NotSplit, a ++ b)] ++ post ->
  pending_contains_nonspace (pending_table_text s) = false ->
  first_match heads_in_table_text t = 2 ->
  let s' := set_pending_table_text (pre ++ [(NotSplit, a); (NotSplit, b)] ++ post) s in
  match step_in_table_text t s, step_in_table_text t s' with
  | Ok r1 t1, Ok r2 t2 => r1 = r2 /\ same_core t1 t2 /\ dom_of t1 = dom_of t2
  | Panic n1, Panic n2 => n1 = n2
  | OutOfFuel, OutOfFuel => True
  | _, _ => False
  end.
Proof.
  intros I Fp V Nt Ep Ws Fm s'. unfold step_in_table_text, arm_dispatch. cbv zeta. rewrite Fm.
  unfold bind, log_arm, modify. fold flush_arm.
  set (u := set_out (EvArm (mode_id InTableText) 2 :: out s) s).
  assert (Iu : TInv u) by (eapply TInv_core_eq; [apply core_eq_set_out; reflexivity | exact I]).
  exact (table_text_flush_ws_split u t pre post a b target Iu Fp V Nt Ep Ws).
Qed.
