(* ========================================================================
   TreeTables.v - the finite tables of the HTML tree builder as the model uses
   them: tag sets (tree_builder/tag_sets.rs and the local declare_tag_set! of
   mod.rs / rules.rs), the per-mode dispatch heads of rules.rs (one entry per
   match arm, IN THE RUST ORDER), the quirks tables of data.rs, the SVG / MathML
   / foreign adjustment maps of mod.rs.

   Every table is DEFINITIONALLY the regenerated one: coq/Gen/GenTagSets.v,
   GenDispatch.v, GenQuirks.v, GenAdjust.v (written by gen/gen_treetables.py
   from the Rust source on every run) converted from Coq strings to code-point
   lists.  coq/Inst/InstTreeTables.v relates the same Gen tables to the lists of
   the WHATWG standard.
   No proofs in this file.
   ======================================================================== *)
From Coq Require Import List NArith Bool Arith String.
From HV Require TreeTables.Types Gen.GenTagSets Gen.GenDispatch Gen.GenQuirks Gen.GenAdjust.
From HV Require Import Dom.DomSpec Tree.TreeTypes.
Import ListNotations.
Open Scope string_scope.
Open Scope list_scope.
Notation length := List.length (only parsing).

(* ---------- conversion from the vocabulary of TreeTables/Types.v ---------- *)
Definition conv_ns (n : HV.TreeTables.Types.ns) : str :=
  match n with
  | HV.TreeTables.Types.NsNone => ns_none
  | HV.TreeTables.Types.NsHtml => ns_html
  | HV.TreeTables.Types.NsMathml => ns_mathml
  | HV.TreeTables.Types.NsSvg => ns_svg
  | HV.TreeTables.Types.NsXlink => ns_xlink
  | HV.TreeTables.Types.NsXml => ns_xml
  | HV.TreeTables.Types.NsXmlns => ns_xmlns
  end.
Definition conv_en (e : HV.TreeTables.Types.ename) : ename := (conv_ns (fst e), nm (snd e)).
Definition conv_set (l : list HV.TreeTables.Types.ename) : list ename := map conv_en l.
Definition conv_qn (q : HV.TreeTables.Types.qname) : qualname :=
  {| q_prefix := option_map nm (fst (fst q)) ; q_ns := conv_ns (snd (fst q)) ; q_local := nm (snd q) |}.

(* ---------- tag sets ---------- *)
Definition foster_target : list ename := Eval vm_compute in conv_set GenTagSets.ts_appropriate_place_for_insertion__foster_target.
Definition html_default_scope : list ename := Eval vm_compute in conv_set GenTagSets.ts_html_default_scope.
Definition mathml_text_integration_point : list ename := Eval vm_compute in conv_set GenTagSets.ts_mathml_text_integration_point.
Definition svg_html_integration_point : list ename := Eval vm_compute in conv_set GenTagSets.ts_svg_html_integration_point.
Definition default_scope : list ename := Eval vm_compute in conv_set GenTagSets.ts_default_scope.
Definition list_item_scope : list ename := Eval vm_compute in conv_set GenTagSets.ts_list_item_scope.
Definition button_scope : list ename := Eval vm_compute in conv_set GenTagSets.ts_button_scope.
Definition table_scope : list ename := Eval vm_compute in conv_set GenTagSets.ts_table_scope.
Definition table_body_context : list ename := Eval vm_compute in conv_set GenTagSets.ts_table_body_context.
Definition table_row_context : list ename := Eval vm_compute in conv_set GenTagSets.ts_table_row_context.
Definition td_th : list ename := Eval vm_compute in conv_set GenTagSets.ts_td_th.
Definition cursory_implied_end : list ename := Eval vm_compute in conv_set GenTagSets.ts_cursory_implied_end.
Definition thorough_implied_end : list ename := Eval vm_compute in conv_set GenTagSets.ts_thorough_implied_end.
Definition heading_tag : list ename := Eval vm_compute in conv_set GenTagSets.ts_heading_tag.
Definition special_tag : list ename := Eval vm_compute in conv_set GenTagSets.ts_special_tag.
(* mod.rs check_body_end *)
Definition body_end_ok : list ename := Eval vm_compute in conv_set GenTagSets.ts_check_body_end__body_end_ok.
(* mod.rs insert_element *)
Definition form_associatable : list ename := Eval vm_compute in conv_set GenTagSets.ts_insert_element__form_associatable.
Definition listed : list ename := Eval vm_compute in conv_set GenTagSets.ts_insert_element__listed.
(* rules.rs <li> | <dd> | <dt> *)
Definition close_list : list ename := Eval vm_compute in conv_set GenTagSets.ts_step_InBody__close_list.
Definition close_defn : list ename := Eval vm_compute in conv_set GenTagSets.ts_step_InBody__close_defn.
(* extra_special = [special_tag] - "address" "div" "p": the subtracted names *)
Definition extra_special_list : list ename := Eval vm_compute in conv_set GenTagSets.ts_step_InBody__extra_special.
Definition extra_special_minus : list ename := Eval vm_compute in
  filter (fun n => negb (in_set extra_special_list n)) special_tag.
(* mod.rs process_chars_in_table *)
Definition table_outer_chars : list ename := Eval vm_compute in conv_set GenTagSets.ts_process_chars_in_table__table_outer.
(* rules.rs InTableBody *)
Definition table_outer_body : list ename := Eval vm_compute in conv_set GenTagSets.ts_step_InTableBody__table_outer.
(* mod.rs close_p_element: [cursory_implied_end] - "p" *)
Definition implied_minus_p_list : list ename := Eval vm_compute in conv_set GenTagSets.ts_close_p_element__implied.
Definition implied_minus_p (n : ename) : bool := in_set implied_minus_p_list n.

(* ---------- dispatch heads ---------- *)
Inductive atom :=
| AChars (s : option split)       (* None: Token::Characters(_, _) *)
| ANull | AComment | AEof
| AStart (n : str) | AEnd (n : str)
| AAnyStart | AAnyEnd
| AWild                           (* `token =>` / `_ =>` *)
| ANever.                         (* a pattern no tree-builder token has (DOCTYPE tokens never reach step) *)

Definition split_eqb (a b : split) : bool :=
  match a, b with NotSplit, NotSplit | Whitespace, Whitespace | NotWhitespace, NotWhitespace => true | _, _ => false end.

Definition atom_matches (t : tok) (a : atom) : bool :=
  match a, t with
  | AWild, _ => true
  | AChars None, KChars _ _ => true
  | AChars (Some s), KChars s' _ => split_eqb s s'
  | ANull, KNull | AComment, KComment _ | AEof, KEof => true
  | AStart n, KTag g => tagkind_eqb (tg_kind g) StartTag && str_eqb n (tg_name g)
  | AEnd n, KTag g => tagkind_eqb (tg_kind g) EndTag && str_eqb n (tg_name g)
  | AAnyStart, KTag g => tagkind_eqb (tg_kind g) StartTag
  | AAnyEnd, KTag g => tagkind_eqb (tg_kind g) EndTag
  | _, _ => false
  end.

Definition arm_head := list atom.
(* index of the first arm one of whose alternatives matches; [length heads] if none *)
Fixpoint first_match (heads : list arm_head) (t : tok) : nat :=
  match heads with
  | [] => 0
  | h :: r => if existsb (atom_matches t) h then 0 else S (first_match r t)
  end.

Definition conv_split (s : HV.TreeTables.Types.split) : split :=
  match s with
  | HV.TreeTables.Types.SpNotSplit => NotSplit
  | HV.TreeTables.Types.SpWs => Whitespace
  | HV.TreeTables.Types.SpNonWs => NotWhitespace
  end.
Definition conv_atom (a : HV.TreeTables.Types.atom) : atom :=
  match a with
  | HV.TreeTables.Types.AChars s => AChars (option_map conv_split s)
  | HV.TreeTables.Types.ANull => ANull
  | HV.TreeTables.Types.AComment => AComment
  | HV.TreeTables.Types.ADoctype => ANever
  | HV.TreeTables.Types.AEof => AEof
  | HV.TreeTables.Types.AStart n => AStart (nm n)
  | HV.TreeTables.Types.AEnd n => AEnd (nm n)
  | HV.TreeTables.Types.AAnyStart => AAnyStart
  | HV.TreeTables.Types.AAnyEnd => AAnyEnd
  | HV.TreeTables.Types.AWild => AWild
  end.
Definition conv_arms (l : list HV.TreeTables.Types.arm) : list arm_head := map (map conv_atom) l.

Definition heads_initial : list arm_head := Eval vm_compute in conv_arms GenDispatch.arms_Initial.
Definition heads_before_html : list arm_head := Eval vm_compute in conv_arms GenDispatch.arms_BeforeHtml.
Definition heads_before_head : list arm_head := Eval vm_compute in conv_arms GenDispatch.arms_BeforeHead.
Definition heads_in_head : list arm_head := Eval vm_compute in conv_arms GenDispatch.arms_InHead.
Definition heads_in_head_noscript : list arm_head := Eval vm_compute in conv_arms GenDispatch.arms_InHeadNoscript.
Definition heads_after_head : list arm_head := Eval vm_compute in conv_arms GenDispatch.arms_AfterHead.
Definition heads_in_body : list arm_head := Eval vm_compute in conv_arms GenDispatch.arms_InBody.
Definition heads_text : list arm_head := Eval vm_compute in conv_arms GenDispatch.arms_Text.
Definition heads_in_table : list arm_head := Eval vm_compute in conv_arms GenDispatch.arms_InTable.
Definition heads_in_table_text : list arm_head := Eval vm_compute in conv_arms GenDispatch.arms_InTableText.
Definition heads_in_caption : list arm_head := Eval vm_compute in conv_arms GenDispatch.arms_InCaption.
Definition heads_in_column_group : list arm_head := Eval vm_compute in conv_arms GenDispatch.arms_InColumnGroup.
Definition heads_in_table_body : list arm_head := Eval vm_compute in conv_arms GenDispatch.arms_InTableBody.
Definition heads_in_row : list arm_head := Eval vm_compute in conv_arms GenDispatch.arms_InRow.
Definition heads_in_cell : list arm_head := Eval vm_compute in conv_arms GenDispatch.arms_InCell.
Definition heads_in_template : list arm_head := Eval vm_compute in conv_arms GenDispatch.arms_InTemplate.
Definition heads_after_body : list arm_head := Eval vm_compute in conv_arms GenDispatch.arms_AfterBody.
Definition heads_in_frameset : list arm_head := Eval vm_compute in conv_arms GenDispatch.arms_InFrameset.
Definition heads_after_frameset : list arm_head := Eval vm_compute in conv_arms GenDispatch.arms_AfterFrameset.
Definition heads_after_after_body : list arm_head := Eval vm_compute in conv_arms GenDispatch.arms_AfterAfterBody.
Definition heads_after_after_frameset : list arm_head := Eval vm_compute in conv_arms GenDispatch.arms_AfterAfterFrameset.
(* step_foreign *)
Definition heads_foreign : list arm_head := Eval vm_compute in conv_arms GenDispatch.arms_Foreign.

(* ---------- adjustment maps (mod.rs) ---------- *)
Fixpoint assoc (k : str) (l : list (str * str)) : option str :=
  match l with
  | [] => None
  | (a, b) :: t => if str_eqb a k then Some b else assoc k t
  end.
Fixpoint assoc_q (k : str) (l : list (str * qualname)) : option qualname :=
  match l with
  | [] => None
  | (a, b) :: t => if str_eqb a k then Some b else assoc_q k t
  end.
Definition conv_qmap (l : list (string * HV.TreeTables.Types.qname)) : list (str * qualname) :=
  map (fun p => (nm (fst p), conv_qn (snd p))) l.

Definition svg_tag_names : list (str * str) := Eval vm_compute in
  map (fun p => (nm (fst p), nm (snd p))) GenAdjust.svg_tag_adjust.
Definition svg_attr_names : list (str * qualname) := Eval vm_compute in conv_qmap GenAdjust.svg_attr_adjust.
Definition mathml_attr_names : list (str * qualname) := Eval vm_compute in conv_qmap GenAdjust.mathml_attr_adjust.
(* adjust_foreign_attributes: local name -> (prefix, namespace, local); NB `xmlns` gets the EMPTY prefix *)
Definition foreign_attr_names : list (str * qualname) := Eval vm_compute in conv_qmap GenAdjust.foreign_attr_adjust.

(* ---------- data.rs ---------- *)
Definition quirky_public_prefixes : list str := Eval vm_compute in map nm GenQuirks.quirky_public_prefixes.
Definition quirky_public_matches : list str := Eval vm_compute in map nm GenQuirks.quirky_public_matches.
Definition quirky_system_matches : list str := Eval vm_compute in map nm GenQuirks.quirky_system_matches.
Definition limited_quirky_public_prefixes : list str := Eval vm_compute in map nm GenQuirks.limited_quirky_public_prefixes.
Definition html4_public_prefixes : list str := Eval vm_compute in map nm GenQuirks.html4_public_prefixes.
(* (name, public, system) combinations that are NOT an error *)
Definition ok_doctypes : list (option str * option str * option str) := Eval vm_compute in
  map (fun t => (option_map nm (fst (fst t)), option_map nm (snd (fst t)), option_map nm (snd t)))
      GenQuirks.doctype_ok_triples.
