(* ========================================================================
   TreeTables.v - the finite tables of the HTML tree builder as the model uses
   them: tag sets (tree_builder/tag_sets.rs and the local declare_tag_set! of
   mod.rs / rules.rs), the per-mode dispatch heads of rules.rs (one entry per
   match arm, IN THE RUST ORDER), the quirks tables of data.rs, the SVG / MathML
   / foreign adjustment maps of mod.rs.

   Hand-copied from the pinned source; TO BE REPLACED BY Gen (the regenerated
   coq/Gen/GenTagSets.v, GenDispatch.v, GenQuirks.v, GenAdjust.v): until then
   coq/Tree/TreeGenBridge.v (when present) checks these lists against the
   regenerated ones by computation.
   No proofs in this file.
   ======================================================================== *)
From Coq Require Import List NArith Bool Arith String.
From HV Require Import Dom.DomSpec Tree.TreeTypes.
Import ListNotations.
Open Scope string_scope.
Open Scope list_scope.
Notation length := List.length (only parsing).

(* ---------- tag sets (all in the HTML namespace unless said otherwise) ---------- *)
Definition foster_target : list ename := Eval vm_compute in html_names ["table"; "tbody"; "tfoot"; "thead"; "tr"].
Definition html_default_scope : list ename := Eval vm_compute in
  html_names ["applet"; "caption"; "html"; "table"; "td"; "th"; "marquee"; "object"; "select"; "template"].
Definition mathml_text_integration_point : list ename := Eval vm_compute in
  map (fun s => (ns_mathml, nm s)) ["mi"; "mo"; "mn"; "ms"; "mtext"].
Definition svg_html_integration_point : list ename := Eval vm_compute in
  map (fun s => (ns_svg, nm s)) ["foreignObject"; "desc"; "title"].
Definition default_scope : list ename := Eval vm_compute in
  html_default_scope ++ mathml_text_integration_point ++ svg_html_integration_point.
Definition list_item_scope : list ename := Eval vm_compute in default_scope ++ html_names ["ol"; "ul"].
Definition button_scope : list ename := Eval vm_compute in default_scope ++ html_names ["button"].
Definition table_scope : list ename := Eval vm_compute in html_names ["html"; "table"; "template"].
Definition table_body_context : list ename := Eval vm_compute in html_names ["tbody"; "tfoot"; "thead"; "template"; "html"].
Definition table_row_context : list ename := Eval vm_compute in html_names ["tr"; "template"; "html"].
Definition td_th : list ename := Eval vm_compute in html_names ["td"; "th"].
Definition cursory_implied_end : list ename := Eval vm_compute in
  html_names ["dd"; "dt"; "li"; "option"; "optgroup"; "p"; "rb"; "rp"; "rt"; "rtc"].
Definition thorough_implied_end : list ename := Eval vm_compute in
  cursory_implied_end ++ html_names ["caption"; "colgroup"; "tbody"; "td"; "tfoot"; "th"; "thead"; "tr"].
Definition heading_tag : list ename := Eval vm_compute in html_names ["h1"; "h2"; "h3"; "h4"; "h5"; "h6"].
Definition special_tag : list ename := Eval vm_compute in html_names
  ["address"; "applet"; "area"; "article"; "aside"; "base"; "basefont"; "bgsound"; "blockquote"; "body";
   "br"; "button"; "caption"; "center"; "col"; "colgroup"; "dd"; "details"; "dir"; "div"; "dl"; "dt"; "embed";
   "fieldset"; "figcaption"; "figure"; "footer"; "form"; "frame"; "frameset"; "h1"; "h2"; "h3"; "h4"; "h5";
   "h6"; "head"; "header"; "hgroup"; "hr"; "html"; "iframe"; "img"; "input"; "isindex"; "li"; "link";
   "listing"; "main"; "marquee"; "menu"; "meta"; "nav"; "noembed"; "noframes"; "noscript";
   "object"; "ol"; "p"; "param"; "plaintext"; "pre"; "script"; "section"; "select"; "source"; "style";
   "summary"; "table"; "tbody"; "td"; "template"; "textarea"; "tfoot"; "th"; "thead"; "title"; "tr"; "track";
   "ul"; "wbr"; "xmp"].
(* mod.rs check_body_end *)
Definition body_end_ok : list ename := Eval vm_compute in html_names
  ["dd"; "dt"; "li"; "optgroup"; "option"; "p"; "rp"; "rt"; "tbody"; "td"; "tfoot"; "th"; "thead"; "tr"; "body"; "html"].
(* mod.rs insert_element *)
Definition form_associatable : list ename := Eval vm_compute in html_names
  ["button"; "fieldset"; "input"; "object"; "output"; "select"; "textarea"; "img"].
Definition listed : list ename := Eval vm_compute in html_names
  ["button"; "fieldset"; "input"; "object"; "output"; "select"; "textarea"].
(* rules.rs <li> | <dd> | <dt> *)
Definition close_list : list ename := Eval vm_compute in html_names ["li"].
Definition close_defn : list ename := Eval vm_compute in html_names ["dd"; "dt"].
Definition extra_special_minus : list ename := Eval vm_compute in html_names ["address"; "div"; "p"].
Definition extra_special (n : ename) : bool := in_set special_tag n && negb (in_set extra_special_minus n).
(* mod.rs process_chars_in_table *)
Definition table_outer_chars : list ename := Eval vm_compute in html_names ["table"; "tbody"; "tfoot"; "thead"; "tr"].
(* rules.rs InTableBody *)
Definition table_outer_body : list ename := Eval vm_compute in html_names ["table"; "tbody"; "tfoot"].
(* mod.rs close_p_element: [cursory_implied_end] - "p" *)
Definition implied_minus_p (n : ename) : bool := in_set cursory_implied_end n && negb (ename_eqb n (ns_html, nm "p")).

(* ---------- dispatch heads ---------- *)
Inductive atom :=
| AChars (s : option split)       (* None: Token::Characters(_, _) *)
| ANull | AComment | AEof
| AStart (n : str) | AEnd (n : str)
| AAnyStart | AAnyEnd
| AWild.                          (* `token =>` / `_ =>` *)

Definition split_eqb (a b : split) : bool :=
  match a, b with NotSplit, NotSplit | Whitespace, Whitespace | NotWhitespace, NotWhitespace => true | _, _ => false end.

Definition atom_matches (t : tok) (a : atom) : bool :=
  match a, t with
  | AWild, _ => true
  | AChars None, KChars _ _ => true
  | AChars (Some s), KChars s' _ => split_eqb s s'
  | ANull, KNull | AComment, KComment _ | AEof, KEof => true
  | AStart n, KTag g => tagkind_eqb (tg_kind g) StartTag && str_eqb n (tg_name g)
  | AEnd n, KTag g => tagkind_eqb (tg_kind g) EndTag && str_eqb n (tg_name g)
  | AAnyStart, KTag g => tagkind_eqb (tg_kind g) StartTag
  | AAnyEnd, KTag g => tagkind_eqb (tg_kind g) EndTag
  | _, _ => false
  end.

Definition arm_head := list atom.
(* index of the first arm one of whose alternatives matches; [length heads] if none *)
Fixpoint first_match (heads : list arm_head) (t : tok) : nat :=
  match heads with
  | [] => 0
  | h :: r => if existsb (atom_matches t) h then 0 else S (first_match r t)
  end.

Definition starts (l : list string) : arm_head := map (fun s => AStart (nm s)) l.
Definition ends (l : list string) : arm_head := map (fun s => AEnd (nm s)) l.
Definition c_notsplit : arm_head := [AChars (Some NotSplit)].
Definition c_ws : arm_head := [AChars (Some Whitespace)].
Definition c_any : arm_head := [AChars None].

Definition heads_initial : list arm_head := Eval vm_compute in
  [ c_notsplit; c_ws; [AComment]; [AWild] ].

Definition heads_before_html : list arm_head := Eval vm_compute in
  [ [AComment]; c_notsplit; c_ws; starts ["html"]; ends ["head"; "body"; "html"; "br"]; [AAnyEnd]; [AWild] ].

Definition heads_before_head : list arm_head := Eval vm_compute in
  [ c_notsplit; c_ws; [AComment]; starts ["html"]; starts ["head"]; ends ["head"; "body"; "html"; "br"];
    [AAnyEnd]; [AWild] ].

Definition heads_in_head : list arm_head := Eval vm_compute in
  [ c_notsplit; c_ws; [AComment]; starts ["html"];
    starts ["base"; "basefont"; "bgsound"; "link"; "meta"];
    starts ["title"];
    starts ["noframes"; "style"; "noscript"];
    starts ["script"];
    ends ["head"];
    ends ["body"; "html"; "br"];
    starts ["template"];
    ends ["template"];
    starts ["head"] ++ [AAnyEnd];
    [AWild] ].

Definition heads_in_head_noscript : list arm_head := Eval vm_compute in
  [ starts ["html"]; ends ["noscript"]; c_notsplit; c_ws; [AComment];
    starts ["basefont"; "bgsound"; "link"; "meta"; "noframes"; "style"];
    ends ["br"];
    starts ["head"; "noscript"] ++ [AAnyEnd];
    [AWild] ].

Definition heads_after_head : list arm_head := Eval vm_compute in
  [ c_notsplit; c_ws; [AComment]; starts ["html"]; starts ["body"]; starts ["frameset"];
    starts ["base"; "basefont"; "bgsound"; "link"; "meta"; "noframes"; "script"; "style"; "template"; "title"];
    ends ["template"];
    ends ["body"; "html"; "br"];
    starts ["head"] ++ [AAnyEnd];
    [AWild] ].

Definition heads_in_body : list arm_head := Eval vm_compute in
  [ (* 0 *) [ANull];
    (* 1 *) c_any;
    (* 2 *) [AComment];
    (* 3 *) starts ["html"];
    (* 4 *) starts ["base"; "basefont"; "bgsound"; "link"; "meta"; "noframes"; "script"; "style"; "template"; "title"]
            ++ ends ["template"];
    (* 5 *) starts ["body"];
    (* 6 *) starts ["frameset"];
    (* 7 *) [AEof];
    (* 8 *) ends ["body"];
    (* 9 *) ends ["html"];
    (* 10 *) starts ["address"; "article"; "aside"; "blockquote"; "center"; "details"; "dialog"; "dir"; "div"; "dl";
                     "fieldset"; "figcaption"; "figure"; "footer"; "header"; "hgroup"; "main"; "nav"; "ol"; "p";
                     "search"; "section"; "summary"; "ul"];
    (* 11 *) starts ["menu"];
    (* 12 *) starts ["h1"; "h2"; "h3"; "h4"; "h5"; "h6"];
    (* 13 *) starts ["pre"; "listing"];
    (* 14 *) starts ["form"];
    (* 15 *) starts ["li"; "dd"; "dt"];
    (* 16 *) starts ["plaintext"];
    (* 17 *) starts ["button"];
    (* 18 *) ends ["address"; "article"; "aside"; "blockquote"; "button"; "center"; "details"; "dialog"; "dir"; "div";
                   "dl"; "fieldset"; "figcaption"; "figure"; "footer"; "header"; "hgroup"; "listing"; "main"; "menu";
                   "nav"; "ol"; "pre"; "search"; "section"; "select"; "summary"; "ul"];
    (* 19 *) ends ["form"];
    (* 20 *) ends ["option"];
    (* 21 *) ends ["p"];
    (* 22 *) ends ["li"; "dd"; "dt"];
    (* 23 *) ends ["h1"; "h2"; "h3"; "h4"; "h5"; "h6"];
    (* 24 *) starts ["a"];
    (* 25 *) starts ["b"; "big"; "code"; "em"; "font"; "i"; "s"; "small"; "strike"; "strong"; "tt"; "u"];
    (* 26 *) starts ["nobr"];
    (* 27 *) ends ["a"; "b"; "big"; "code"; "em"; "font"; "i"; "nobr"; "s"; "small"; "strike"; "strong"; "tt"; "u"];
    (* 28 *) starts ["applet"; "marquee"; "object"];
    (* 29 *) ends ["applet"; "marquee"; "object"];
    (* 30 *) starts ["table"];
    (* 31 *) ends ["br"];
    (* 32 *) starts ["area"; "br"; "embed"; "img"; "keygen"; "wbr"];
    (* 33 *) starts ["input"];
    (* 34 *) starts ["param"; "source"; "track"];
    (* 35 *) starts ["hr"];
    (* 36 *) starts ["image"];
    (* 37 *) starts ["textarea"];
    (* 38 *) starts ["xmp"];
    (* 39 *) starts ["iframe"];
    (* 40 *) starts ["noembed"];
    (* 41 *) starts ["select"];
    (* 42 *) starts ["option"];
    (* 43 *) starts ["optgroup"];
    (* 44 *) starts ["rb"; "rtc"];
    (* 45 *) starts ["rp"; "rt"];
    (* 46 *) starts ["math"];
    (* 47 *) starts ["svg"];
    (* 48 *) starts ["caption"; "col"; "colgroup"; "frame"; "head"; "tbody"; "td"; "tfoot"; "th"; "thead"; "tr"];
    (* 49 *) [AAnyStart];
    (* 50 *) [AAnyEnd] ].

Definition heads_text : list arm_head := Eval vm_compute in
  [ c_any; [AEof]; [AAnyEnd]; [AWild] ].

Definition heads_in_table : list arm_head := Eval vm_compute in
  [ (* 0 *) [ANull; AChars None];
    (* 1 *) [AComment];
    (* 2 *) starts ["caption"];
    (* 3 *) starts ["colgroup"];
    (* 4 *) starts ["col"];
    (* 5 *) starts ["tbody"; "tfoot"; "thead"];
    (* 6 *) starts ["td"; "th"; "tr"];
    (* 7 *) starts ["table"];
    (* 8 *) ends ["table"];
    (* 9 *) ends ["body"; "caption"; "col"; "colgroup"; "html"; "tbody"; "td"; "tfoot"; "th"; "thead"; "tr"];
    (* 10 *) starts ["style"; "script"; "template"] ++ ends ["template"];
    (* 11 *) starts ["input"];
    (* 12 *) starts ["form"];
    (* 13 *) [AEof];
    (* 14 *) [AWild] ].

Definition heads_in_table_text : list arm_head := Eval vm_compute in
  [ [ANull]; c_any; [AWild] ].

Definition heads_in_caption : list arm_head := Eval vm_compute in
  [ starts ["caption"; "col"; "colgroup"; "tbody"; "td"; "tfoot"; "th"; "thead"; "tr"] ++ ends ["table"; "caption"];
    ends ["body"; "col"; "colgroup"; "html"; "tbody"; "td"; "tfoot"; "th"; "thead"; "tr"];
    [AWild] ].

Definition heads_in_column_group : list arm_head := Eval vm_compute in
  [ c_notsplit; c_ws; [AComment]; starts ["html"]; starts ["col"]; ends ["colgroup"]; ends ["col"];
    starts ["template"] ++ ends ["template"]; [AEof]; [AWild] ].

Definition heads_in_table_body : list arm_head := Eval vm_compute in
  [ starts ["tr"]; starts ["th"; "td"]; ends ["tbody"; "tfoot"; "thead"];
    starts ["caption"; "col"; "colgroup"; "tbody"; "tfoot"; "thead"] ++ ends ["table"];
    ends ["body"; "caption"; "col"; "colgroup"; "html"; "td"; "th"; "tr"];
    [AWild] ].

Definition heads_in_row : list arm_head := Eval vm_compute in
  [ starts ["th"; "td"]; ends ["tr"];
    starts ["caption"; "col"; "colgroup"; "tbody"; "tfoot"; "thead"; "tr"] ++ ends ["table"];
    ends ["tbody"; "tfoot"; "thead"];
    ends ["body"; "caption"; "col"; "colgroup"; "html"; "td"; "th"];
    [AWild] ].

Definition heads_in_cell : list arm_head := Eval vm_compute in
  [ ends ["td"; "th"];
    starts ["caption"; "col"; "colgroup"; "tbody"; "td"; "tfoot"; "th"; "thead"; "tr"];
    ends ["body"; "caption"; "col"; "colgroup"; "html"];
    ends ["table"; "tbody"; "tfoot"; "thead"; "tr"];
    [AWild] ].

Definition heads_in_template : list arm_head := Eval vm_compute in
  [ c_any; [AComment];
    starts ["base"; "basefont"; "bgsound"; "link"; "meta"; "noframes"; "script"; "style"; "template"; "title"]
      ++ ends ["template"];
    starts ["caption"; "colgroup"; "tbody"; "tfoot"; "thead"];
    starts ["col"]; starts ["tr"]; starts ["td"; "th"]; [AEof]; [AAnyStart]; [AWild] ].

Definition heads_after_body : list arm_head := Eval vm_compute in
  [ c_notsplit; c_ws; [AComment]; starts ["html"]; ends ["html"]; [AEof]; [AWild] ].

Definition heads_in_frameset : list arm_head := Eval vm_compute in
  [ c_notsplit; c_ws; [AComment]; starts ["html"]; starts ["frameset"]; ends ["frameset"]; starts ["frame"];
    starts ["noframes"]; [AEof]; [AWild] ].

Definition heads_after_frameset : list arm_head := Eval vm_compute in
  [ c_notsplit; c_ws; [AComment]; starts ["html"]; ends ["html"]; starts ["noframes"]; [AEof]; [AWild] ].

Definition heads_after_after_body : list arm_head := Eval vm_compute in
  [ c_notsplit; c_ws; [AComment]; starts ["html"]; [AEof]; [AWild] ].

Definition heads_after_after_frameset : list arm_head := Eval vm_compute in
  [ c_notsplit; c_ws; [AComment]; starts ["html"]; [AEof]; starts ["noframes"]; [AWild] ].

(* step_foreign *)
Definition heads_foreign : list arm_head := Eval vm_compute in
  [ [ANull]; c_any; [AComment];
    starts ["b"; "big"; "blockquote"; "body"; "br"; "center"; "code"; "dd"; "div"; "dl";
            "dt"; "em"; "embed"; "h1"; "h2"; "h3"; "h4"; "h5"; "h6"; "head"; "hr"; "i";
            "img"; "li"; "listing"; "menu"; "meta"; "nobr"; "ol"; "p"; "pre"; "ruby";
            "s"; "small"; "span"; "strong"; "strike"; "sub"; "sup"; "table"; "tt";
            "u"; "ul"; "var"] ++ ends ["br"; "p"];
    starts ["font"];
    [AAnyStart]; [AAnyEnd]; [AEof] ].

(* ---------- adjustment maps (mod.rs) ---------- *)
Definition conv_pairs (l : list (string * string)) : list (str * str) := map (fun p => (nm (fst p), nm (snd p))) l.
Fixpoint assoc (k : str) (l : list (str * str)) : option str :=
  match l with
  | [] => None
  | (a, b) :: t => if str_eqb a k then Some b else assoc k t
  end.

Definition svg_tag_names : list (str * str) := Eval vm_compute in conv_pairs
  [
   ("altglyph", "altGlyph"); ("altglyphdef", "altGlyphDef"); ("altglyphitem", "altGlyphItem"); ("animatecolor", "animateColor");
   ("animatemotion", "animateMotion"); ("animatetransform", "animateTransform"); ("clippath", "clipPath"); ("feblend", "feBlend");
   ("fecolormatrix", "feColorMatrix"); ("fecomponenttransfer", "feComponentTransfer"); ("fecomposite", "feComposite"); ("feconvolvematrix", "feConvolveMatrix");
   ("fediffuselighting", "feDiffuseLighting"); ("fedisplacementmap", "feDisplacementMap"); ("fedistantlight", "feDistantLight"); ("fedropshadow", "feDropShadow");
   ("feflood", "feFlood"); ("fefunca", "feFuncA"); ("fefuncb", "feFuncB"); ("fefuncg", "feFuncG");
   ("fefuncr", "feFuncR"); ("fegaussianblur", "feGaussianBlur"); ("feimage", "feImage"); ("femerge", "feMerge");
   ("femergenode", "feMergeNode"); ("femorphology", "feMorphology"); ("feoffset", "feOffset"); ("fepointlight", "fePointLight");
   ("fespecularlighting", "feSpecularLighting"); ("fespotlight", "feSpotLight"); ("fetile", "feTile"); ("feturbulence", "feTurbulence");
   ("foreignobject", "foreignObject"); ("glyphref", "glyphRef"); ("lineargradient", "linearGradient"); ("radialgradient", "radialGradient");
   ("textpath", "textPath") ].

Definition svg_attr_names : list (str * str) := Eval vm_compute in conv_pairs
  [
   ("attributename", "attributeName"); ("attributetype", "attributeType"); ("basefrequency", "baseFrequency");
   ("baseprofile", "baseProfile"); ("calcmode", "calcMode"); ("clippathunits", "clipPathUnits");
   ("diffuseconstant", "diffuseConstant"); ("edgemode", "edgeMode"); ("filterunits", "filterUnits");
   ("glyphref", "glyphRef"); ("gradienttransform", "gradientTransform"); ("gradientunits", "gradientUnits");
   ("kernelmatrix", "kernelMatrix"); ("kernelunitlength", "kernelUnitLength"); ("keypoints", "keyPoints");
   ("keysplines", "keySplines"); ("keytimes", "keyTimes"); ("lengthadjust", "lengthAdjust");
   ("limitingconeangle", "limitingConeAngle"); ("markerheight", "markerHeight"); ("markerunits", "markerUnits");
   ("markerwidth", "markerWidth"); ("maskcontentunits", "maskContentUnits"); ("maskunits", "maskUnits");
   ("numoctaves", "numOctaves"); ("pathlength", "pathLength"); ("patterncontentunits", "patternContentUnits");
   ("patterntransform", "patternTransform"); ("patternunits", "patternUnits"); ("pointsatx", "pointsAtX");
   ("pointsaty", "pointsAtY"); ("pointsatz", "pointsAtZ"); ("preservealpha", "preserveAlpha");
   ("preserveaspectratio", "preserveAspectRatio"); ("primitiveunits", "primitiveUnits"); ("refx", "refX");
   ("refy", "refY"); ("repeatcount", "repeatCount"); ("repeatdur", "repeatDur");
   ("requiredextensions", "requiredExtensions"); ("requiredfeatures", "requiredFeatures"); ("specularconstant", "specularConstant");
   ("specularexponent", "specularExponent"); ("spreadmethod", "spreadMethod"); ("startoffset", "startOffset");
   ("stddeviation", "stdDeviation"); ("stitchtiles", "stitchTiles"); ("surfacescale", "surfaceScale");
   ("systemlanguage", "systemLanguage"); ("tablevalues", "tableValues"); ("targetx", "targetX");
   ("targety", "targetY"); ("textlength", "textLength"); ("viewbox", "viewBox");
   ("viewtarget", "viewTarget"); ("xchannelselector", "xChannelSelector"); ("ychannelselector", "yChannelSelector");
   ("zoomandpan", "zoomAndPan") ].

Definition mathml_attr_names : list (str * str) := Eval vm_compute in conv_pairs [("definitionurl", "definitionURL")].

(* adjust_foreign_attributes: local name -> (prefix, namespace, local) *)
Definition foreign_attr_names : list (str * qualname) := Eval vm_compute in
  [
   (nm "xlink:actuate", {| q_prefix := Some (nm "xlink") ; q_ns := ns_xlink ; q_local := nm "actuate" |});
   (nm "xlink:arcrole", {| q_prefix := Some (nm "xlink") ; q_ns := ns_xlink ; q_local := nm "arcrole" |});
   (nm "xlink:href", {| q_prefix := Some (nm "xlink") ; q_ns := ns_xlink ; q_local := nm "href" |});
   (nm "xlink:role", {| q_prefix := Some (nm "xlink") ; q_ns := ns_xlink ; q_local := nm "role" |});
   (nm "xlink:show", {| q_prefix := Some (nm "xlink") ; q_ns := ns_xlink ; q_local := nm "show" |});
   (nm "xlink:title", {| q_prefix := Some (nm "xlink") ; q_ns := ns_xlink ; q_local := nm "title" |});
   (nm "xlink:type", {| q_prefix := Some (nm "xlink") ; q_ns := ns_xlink ; q_local := nm "type" |});
   (nm "xml:lang", {| q_prefix := Some (nm "xml") ; q_ns := ns_xml ; q_local := nm "lang" |});
   (nm "xml:space", {| q_prefix := Some (nm "xml") ; q_ns := ns_xml ; q_local := nm "space" |});
   (nm "xmlns", {| q_prefix := Some [] (* qualname!("" xmlns "xmlns"): the EMPTY prefix, not None *) ; q_ns := ns_xmlns ; q_local := nm "xmlns" |});
   (nm "xmlns:xlink", {| q_prefix := Some (nm "xmlns") ; q_ns := ns_xmlns ; q_local := nm "xlink" |}) ].

Fixpoint assoc_q (k : str) (l : list (str * qualname)) : option qualname :=
  match l with
  | [] => None
  | (a, b) :: t => if str_eqb a k then Some b else assoc_q k t
  end.

(* ---------- data.rs ---------- *)
Definition quirky_public_prefixes : list str := Eval vm_compute in map nm
  [
   "-//advasoft ltd//dtd html 3.0 aswedit + extensions//";
   "-//as//dtd html 3.0 aswedit + extensions//";
   "-//ietf//dtd html 2.0 level 1//";
   "-//ietf//dtd html 2.0 level 2//";
   "-//ietf//dtd html 2.0 strict level 1//";
   "-//ietf//dtd html 2.0 strict level 2//";
   "-//ietf//dtd html 2.0 strict//";
   "-//ietf//dtd html 2.0//";
   "-//ietf//dtd html 2.1e//";
   "-//ietf//dtd html 3.0//";
   "-//ietf//dtd html 3.2 final//";
   "-//ietf//dtd html 3.2//";
   "-//ietf//dtd html 3//";
   "-//ietf//dtd html level 0//";
   "-//ietf//dtd html level 1//";
   "-//ietf//dtd html level 2//";
   "-//ietf//dtd html level 3//";
   "-//ietf//dtd html strict level 0//";
   "-//ietf//dtd html strict level 1//";
   "-//ietf//dtd html strict level 2//";
   "-//ietf//dtd html strict level 3//";
   "-//ietf//dtd html strict//";
   "-//ietf//dtd html//";
   "-//metrius//dtd metrius presentational//";
   "-//microsoft//dtd internet explorer 2.0 html strict//";
   "-//microsoft//dtd internet explorer 2.0 html//";
   "-//microsoft//dtd internet explorer 2.0 tables//";
   "-//microsoft//dtd internet explorer 3.0 html strict//";
   "-//microsoft//dtd internet explorer 3.0 html//";
   "-//microsoft//dtd internet explorer 3.0 tables//";
   "-//netscape comm. corp.//dtd html//";
   "-//netscape comm. corp.//dtd strict html//";
   "-//o'reilly and associates//dtd html 2.0//";
   "-//o'reilly and associates//dtd html extended 1.0//";
   "-//o'reilly and associates//dtd html extended relaxed 1.0//";
   "-//softquad software//dtd hotmetal pro 6.0::19990601::extensions to html 4.0//";
   "-//softquad//dtd hotmetal pro 4.0::19971010::extensions to html 4.0//";
   "-//spyglass//dtd html 2.0 extended//";
   "-//sq//dtd html 2.0 hotmetal + extensions//";
   "-//sun microsystems corp.//dtd hotjava html//";
   "-//sun microsystems corp.//dtd hotjava strict html//";
   "-//w3c//dtd html 3 1995-03-24//";
   "-//w3c//dtd html 3.2 draft//";
   "-//w3c//dtd html 3.2 final//";
   "-//w3c//dtd html 3.2//";
   "-//w3c//dtd html 3.2s draft//";
   "-//w3c//dtd html 4.0 frameset//";
   "-//w3c//dtd html 4.0 transitional//";
   "-//w3c//dtd html experimental 19960712//";
   "-//w3c//dtd html experimental 970421//";
   "-//w3c//dtd w3 html//";
   "-//w3o//dtd w3 html 3.0//";
   "-//webtechs//dtd mozilla html 2.0//";
   "-//webtechs//dtd mozilla html//" ].
Definition quirky_public_matches : list str := Eval vm_compute in map nm
  [
   "-//w3o//dtd w3 html strict 3.0//en//";
   "-/w3c/dtd html 4.0 transitional/en";
   "html" ].
Definition quirky_system_matches : list str := Eval vm_compute in map nm
  ["http://www.ibm.com/data/dtd/v11/ibmxhtml1-transitional.dtd"].
Definition limited_quirky_public_prefixes : list str := Eval vm_compute in map nm
  [
   "-//w3c//dtd xhtml 1.0 frameset//";
   "-//w3c//dtd xhtml 1.0 transitional//" ].
Definition html4_public_prefixes : list str := Eval vm_compute in map nm
  [
   "-//w3c//dtd html 4.01 frameset//";
   "-//w3c//dtd html 4.01 transitional//" ].
(* (name, public, system) combinations that are NOT an error *)
Definition ok_doctypes : list (option str * option str) := Eval vm_compute in
  [ (None, None);
    (None, Some (nm "about:legacy-compat"));
    (Some (nm "-//W3C//DTD HTML 4.0//EN"), None);
    (Some (nm "-//W3C//DTD HTML 4.0//EN"), Some (nm "http://www.w3.org/TR/REC-html40/strict.dtd"));
    (Some (nm "-//W3C//DTD HTML 4.01//EN"), None);
    (Some (nm "-//W3C//DTD HTML 4.01//EN"), Some (nm "http://www.w3.org/TR/html4/strict.dtd"));
    (Some (nm "-//W3C//DTD XHTML 1.0 Strict//EN"), Some (nm "http://www.w3.org/TR/xhtml1/DTD/xhtml1-strict.dtd"));
    (Some (nm "-//W3C//DTD XHTML 1.1//EN"), Some (nm "http://www.w3.org/TR/xhtml11/DTD/xhtml11.dtd")) ].
