(* ========================================================================
   TreeInvBody.v - the "in body" rules (rules.rs:414-1003) and the "in
   template" rules preserve [TInv]; stated without fixing the current mode
   (they are used by delegation from most other modes).
   ======================================================================== *)
From Coq Require Import List NArith Bool Arith Lia String.
From HV Require Import Dom.DomSpec Tree.TreeTypes Tree.TreeTables Tree.TreeModelHelpers Tree.TreeModelRules
  Tree.TreeModel Tree.TreeHoare Tree.TreeInvBasic Tree.TreeInvDefs Tree.TreeInvSetters Tree.TreeInvPrims
  Tree.TreeInvHelpers Tree.TreeInvAAA Tree.TreeInvDispatch Tree.TreeInvRules Tree.TreeInvHead.
Import ListNotations.
Open Scope string_scope.
Open Scope list_scope.
Notation length := List.length (only parsing).

(* result of an arm that is not a character arm *)
Definition plain_res (r : presult) : Prop :=
  r = Done \/ r = DoneAckSelfClosing \/ (exists k, r = ToRawData k) \/ r = ToPlaintext.

Definition tag_post (r : presult) (s' : st) : Prop := TInv s' /\ plain_res r.

Lemma tag_post_step t r s' : is_chars t = false -> tag_post r s' -> step_post t r s'.
Proof.
  intros C [I R].
  destruct R as [->|[->|[[k ->]| ->]]]; (split; [exact I | apply res_ok_nonchars; [exact C | exact Logic.I]]).
Qed.
Lemma tag_post_done r s' : is_done r s' -> tag_post r s'.
Proof. intros [I ->]. split; [exact I | left; reflexivity]. Qed.

(* ---------- small helpers ---------- *)
Lemma wp_pop_current_not_root s0 s (Q : handle -> st -> Prop) :
  keeps s0 s -> late s ->
  (exists h, vlast (open_elems s) = Some h /\ ename_of s h <> html_html) ->
  (forall e s', keeps s0 s' -> shrunk s s' -> Q e s') ->
  wp pop Q s.
Proof.
  intros K L (h & V & N) H. pose proof K as [I S].
  destruct (TInv_stack_nonempty _ I L) as (r & rest & Er & Nr).
  assert (Len : 2 <= length (open_elems s)).
  { destruct rest as [|a tl]; [|rewrite Er; simpl; lia]. exfalso. rewrite Er in V. simpl in V. injection V as <-. contradiction. }
  eapply wp_pop; [exact K | exact L | exact Len |].
  intros e s' K' _ E' _. apply H; [exact K'|]. exists (length (open_elems s) - 1). repeat split; [lia | lia | exact E'].
Qed.

Lemma TInv_set_form_elem s f :
  TInv s -> (forall x, f = Some x -> known s x /\ ename_of s x = (ns_html, nm "form")) -> TInv (set_form_elem f s).
Proof.
  intros [I1 I2 I3 I4 I5 I6 I7 I8 I9 I10 I11] F. constructor; try assumption.
  - destruct I2 as [A B]. split; [|exact B]. unfold state_handles in *. cbn [open_elems active_formatting head_elem form_elem context_elem set_form_elem].
    pose proof A as A1.
    apply Forall_app in A1. destruct A1 as [A1 A2]. apply Forall_app in A2. destruct A2 as [A2 A3].
    apply Forall_app in A3. destruct A3 as [A3 A4]. apply Forall_app in A4. destruct A4 as [_ A5].
    repeat (apply Forall_app; split); try assumption.
    destruct f as [x|]; simpl; [constructor; [apply F; reflexivity | constructor] | constructor].
  - destruct I10 as [A B]. split; [exact A|]. cbn [form_elem set_form_elem]. intros x E. apply F. exact E.
Qed.

Lemma keeps_set_form_elem s0 s f :
  keeps s0 s -> (forall x, f = Some x -> known s x /\ ename_of s x = (ns_html, nm "form")) ->
  TInv (set_form_elem f s).
Proof. intros [I _] F. apply TInv_set_form_elem; assumption. Qed.

(* generate_implied_end_tags followed by pop_until_named of a name that is not implied *)
Lemma wp_implied_then_pop_named s0 s set name (Q : nat -> st -> Prop) :
  keeps s0 s -> late s -> set html_html = false -> set (ns_html, name) = false -> name <> nm "html" ->
  (exists x, In x (open_elems s) /\ ename_of s x = (ns_html, name)) ->
  (forall n s', keeps s0 s' -> shrunk s s' -> Q n s') ->
  wp (generate_implied_end_tags set ;; pop_until_named name) Q s.
Proof.
  intros K L Hs Hn N (x & Hin & Hx) H. pose proof K as [I S]. rewrite wp_bind.
  eapply (wp_generate_implied_end_tags s); [apply keeps_refl; exact I | exact L | exact Hs |].
  intros s1 K1 Sh1 Keep.
  assert (L1 : late s1) by (eapply late_keeps; eassumption).
  eapply (wp_pop_until_named s); [exact K1 | exact L1 | exact N | |].
  - exists x. split; [apply Keep; [exact Hin | rewrite Hx; exact Hn]|].
    destruct K1 as [_ S1]. rewrite (stable_ename _ _ _ S1); [exact Hx|]. eapply TInv_stack_known; eassumption.
  - intros n s2 K2 Sh2. apply H; [eapply keeps_trans; eassumption | eapply shrunk_trans; eassumption].
Qed.

Lemma keeps_flag s0 s : keeps s0 s -> keeps s0 (set_frameset_ok false s).
Proof. apply keeps_set_frameset_ok. Qed.

Lemma wp_set_frameset_not_ok s0 s (Q : unit -> st -> Prop) :
  keeps s0 s -> (forall s', keeps s0 s' -> same_lists s s' -> Q tt s') -> wp set_frameset_not_ok Q s.
Proof. intros K H. unfold set_frameset_not_ok. rewrite wp_modify. apply H; [apply keeps_set_frameset_ok; exact K | split; reflexivity]. Qed.

(* set_mode at the end of an arm *)
Lemma wp_set_mode_done s0 s m :
  keeps s0 s -> late s0 -> saving_mode (mode s0) = false ->
  early_mode m = false -> saving_mode m = false -> head_needed m = false ->
  wp (set_mode_m m ;; ret Done) is_done s.
Proof.
  intros K L NS Em Sm Hm. pose proof K as [I S]. unfold set_mode_m. rewrite wp_bind, wp_modify, wp_ret. split; [|reflexivity].
  apply (keeps_set_mode s0); [exact K | eapply keeps_late; eassumption | rewrite (st_mode _ _ S); exact NS | exact Em | exact Sm | rewrite Hm; discriminate].
Qed.

(* ---------- the arms of "in body" that do not call back ---------- *)
Section Arms.
Context (ih it self : body).

Lemma ib_3_ok s t : TInv s -> late s -> wp (ib_arm_3 ih it self t) is_done s.
Proof.
  intros I L. unfold ib_arm_3. rewrite wp_bind, wp_parse_error, wp_bind, wp_get, wp_bind.
  set (s1 := set_out _ s). assert (I1 : TInv s1) by (eapply TInv_core_eq; [(apply core_eq_set_out; reflexivity) | exact I]).
  destruct (negb (in_html_elem_named s1 (nm "template"))).
  - rewrite wp_bind, wp_unwrap. destruct (TInv_stack_nonempty _ I1 L) as (r & rest & Er & _).
    exists r. split; [rewrite Er; reflexivity|]. rewrite wp_emit, wp_ret. split; [|reflexivity].
    apply TInv_emit; [exact I1 | reflexivity | reflexivity |]. cbn [op_okb]. apply known_v_elem.
    eapply TInv_stack_known; [exact I1 | rewrite Er; left; reflexivity].
  - rewrite wp_ret, wp_ret. split; [exact I1 | reflexivity].
Qed.

Lemma ib_5_ok s t : TInv s -> late s -> wp (ib_arm_5 ih it self t) is_done s.
Proof.
  intros I L. unfold ib_arm_5. rewrite wp_bind, wp_parse_error, wp_bind, wp_get, wp_bind.
  set (s1 := set_out _ s). assert (I1 : TInv s1) by (eapply TInv_core_eq; [(apply core_eq_set_out; reflexivity) | exact I]).
  apply wp_body_elem. intros b Hb. destruct b as [node|]; [|rewrite wp_ret; split; [exact I1 | reflexivity]].
  destruct (Hb node eq_refl) as [Enode _].
  assert (Knode : known s1 node) by (eapply TInv_stack_known; [exact I1 | eapply nth_error_In; exact Enode]).
  destruct (negb _ && negb _).
  - unfold set_frameset_not_ok. rewrite wp_bind, wp_modify, wp_bind, wp_emit, wp_ret. split; [|reflexivity].
    apply TInv_emit; [eapply TInv_core_eq; [apply core_eq_set_frameset_ok | exact I1] | reflexivity | reflexivity |].
    cbn [op_okb]. exact (known_v_elem _ _ Knode).
  - rewrite wp_ret. split; [exact I1 | reflexivity].
Qed.

Lemma ib_6_ok s t : TInv s -> late s -> saving_mode (mode s) = false ->
  tname t <> nm "html" -> (ns_html, tname t) <> (ns_html, nm "head") -> (ns_html, tname t) <> (ns_html, nm "template") ->
  wp (ib_arm_6 ih it self t) is_done s.
Proof.
  intros I L NS N0 N1 N2. unfold ib_arm_6. rewrite wp_bind, wp_parse_error, wp_bind, wp_get.
  set (s1 := set_out _ s). assert (I1 : TInv s1) by (eapply TInv_core_eq; [(apply core_eq_set_out; reflexivity) | exact I]).
  assert (K1 : keeps s s1) by ((apply keeps_set_out; [|reflexivity]); apply keeps_refl; exact I).
  destruct (negb (frameset_ok s1)); [rewrite wp_ret; split; [exact I1 | reflexivity]|].
  rewrite wp_bind. apply wp_body_elem. intros b Hb. destruct b as [body|]; [|rewrite wp_ret; split; [exact I1 | reflexivity]].
  destruct (Hb body eq_refl) as [Ebody _].
  assert (Kbody : known s1 body) by (eapply TInv_stack_known; [exact I1 | eapply nth_error_In; exact Ebody]).
  rewrite wp_bind, wp_emit, wp_bind, wp_modify, wp_bind. unfold insert_element_for.
  eapply (wp_insert_element_std s).
  - apply keeps_truncate; [apply keeps_emit; [exact K1 | reflexivity | reflexivity | cbn [op_okb]; exact (known_v_known _ _ Kbody)] | exact L | lia].
  - exact L.
  - exact N1.
  - exact N2.
  - intros h s2 K2 _ _ _ _. apply (wp_set_mode_done s); [exact K2 | exact L | exact NS | reflexivity | reflexivity | reflexivity].
Qed.

Lemma ib_8_ok s t : TInv s -> late s -> saving_mode (mode s) = false -> wp (ib_arm_8 ih it self t) is_done s.
Proof.
  intros I L NS. unfold ib_arm_8. rewrite wp_bind, wp_get.
  destruct (in_scope_named s default_scope (nm "body")).
  - rewrite wp_bind. eapply (wp_check_body_end s); [apply keeps_refl; exact I|]. intros s1 K1 _.
    apply (wp_set_mode_done s); [exact K1 | exact L | exact NS | reflexivity | reflexivity | reflexivity].
  - rewrite wp_bind, wp_parse_error, wp_ret. split; [eapply TInv_core_eq; [(apply core_eq_set_out; reflexivity) | exact I] | reflexivity].
Qed.

Lemma ib_9_ok s t : TInv s -> late s -> saving_mode (mode s) = false -> is_chars t = false ->
  wp (ib_arm_9 ih it self t) (step_post t) s.
Proof.
  intros I L NS C. unfold ib_arm_9. rewrite wp_bind, wp_get.
  destruct (in_scope_named s default_scope (nm "body")).
  - rewrite wp_bind. eapply (wp_check_body_end s); [apply keeps_refl; exact I|]. intros s1 K1 _. rewrite wp_ret.
    split; [|apply res_ok_reprocess]. split; [|discriminate]. pose proof K1 as [I1 S1].
    apply (keeps_set_mode s); [exact K1 | eapply keeps_late; eassumption | rewrite (st_mode _ _ S1); exact NS | reflexivity | reflexivity | discriminate].
  - rewrite wp_bind, wp_parse_error, wp_ret. apply is_done_post. split; [eapply TInv_core_eq; [(apply core_eq_set_out; reflexivity) | exact I] | reflexivity].
Qed.

(* close a p element, insert an element for the token *)
Lemma ib_block_start_ok s t : TInv s -> late s ->
  (ns_html, tname t) <> (ns_html, nm "head") -> (ns_html, tname t) <> (ns_html, nm "template") ->
  wp (ib_block_start t) is_done s.
Proof.
  intros I L N1 N2. unfold ib_block_start. rewrite wp_bind.
  eapply (wp_close_p_element_in_button_scope s); [apply keeps_refl; exact I | exact L |].
  intros s1 K1 _. rewrite wp_bind. unfold insert_element_for.
  eapply (wp_insert_element_std s); [exact K1 | eapply keeps_late; eassumption | exact N1 | exact N2 |].
  intros h s2 K2 _ _ _ _. rewrite wp_ret. split; [exact (keeps_TInv _ _ K2) | reflexivity].
Qed.

Lemma ib_12_ok s t : TInv s -> late s ->
  (ns_html, tname t) <> (ns_html, nm "head") -> (ns_html, tname t) <> (ns_html, nm "template") ->
  wp (ib_arm_12 ih it self t) is_done s.
Proof.
  intros I L N1 N2. unfold ib_arm_12. rewrite wp_bind.
  eapply (wp_close_p_element_in_button_scope s); [apply keeps_refl; exact I | exact L |].
  intros s1 K1 _. pose proof K1 as [I1 S1]. assert (L1 : late s1) by (eapply keeps_late; eassumption).
  rewrite wp_bind. unfold current_node_in. rewrite wp_bind.
  apply wp_current_node; [exact I1 | exact L1 |]. intros h V. rewrite wp_bind, wp_get, wp_ret, wp_bind.
  assert (Ins : forall s2, keeps s s2 -> wp (_e <- insert_element_for (tk_tag t) ;; ret Done) is_done s2).
  { intros s2 K2. rewrite wp_bind. unfold insert_element_for.
    eapply (wp_insert_element_std s); [exact K2 | eapply keeps_late; eassumption | exact N1 | exact N2 |].
    intros h' s3 K3 _ _ _ _. rewrite wp_ret. split; [exact (keeps_TInv _ _ K3) | reflexivity]. }
  destruct (in_set heading_tag (ename_of s1 h)) eqn:Hh.
  - rewrite wp_bind, wp_parse_error, wp_bind.
    eapply (wp_pop_current_not_root s).
    + (apply keeps_set_out; [|reflexivity]). exact K1.
    + exact L1.
    + exists h. split; [exact V|]. intro X. change (ename_of s1 h = html_html) in X. rewrite X in Hh. discriminate.
    + intros e s2 K2 _. rewrite wp_ret. apply Ins. exact K2.
  - rewrite wp_ret. apply Ins. exact K1.
Qed.

Lemma ib_13_ok s t : TInv s -> late s ->
  (ns_html, tname t) <> (ns_html, nm "head") -> (ns_html, tname t) <> (ns_html, nm "template") ->
  wp (ib_arm_13 ih it self t) is_done s.
Proof.
  intros I L N1 N2. unfold ib_arm_13. rewrite wp_bind.
  eapply (wp_close_p_element_in_button_scope s); [apply keeps_refl; exact I | exact L |].
  intros s1 K1 _. rewrite wp_bind. unfold insert_element_for.
  eapply (wp_insert_element_std s); [exact K1 | eapply keeps_late; eassumption | exact N1 | exact N2 |].
  intros h s2 K2 _ _ _ _. rewrite wp_bind, wp_modify. unfold set_frameset_not_ok. rewrite wp_bind, wp_modify, wp_ret.
  split; [|reflexivity]. apply (keeps_TInv s). apply keeps_set_frameset_ok. apply keeps_set_ignore_lf. exact K2.
Qed.
End Arms.

Section Arms2.
Context (ih it self : body).

Lemma form_not_html : nm "form" <> nm "html". Proof. discriminate. Qed.

Lemma ib_14_ok s t : TInv s -> late s -> tname t = nm "form" -> wp (ib_arm_14 ih it self t) is_done s.
Proof.
  intros I L N. unfold ib_arm_14. rewrite wp_bind, wp_get.
  destruct ((match form_elem s with Some _ => true | None => false end) && negb (in_html_elem_named s (nm "template"))).
  { rewrite wp_bind, wp_parse_error, wp_ret. split; [eapply TInv_core_eq; [(apply core_eq_set_out; reflexivity) | exact I] | reflexivity]. }
  rewrite wp_bind.
  eapply (wp_close_p_element_in_button_scope s); [apply keeps_refl; exact I | exact L |].
  intros s1 K1 _. rewrite wp_bind. unfold insert_element_for. unfold tname in N.
  eapply (wp_insert_element_std s); [exact K1 | eapply keeps_late; eassumption | rewrite N; discriminate | rewrite N; discriminate |].
  intros h s2 K2 _ _ Kn En. rewrite wp_bind, wp_get, wp_bind.
  destruct (negb (in_html_elem_named s2 (nm "template"))).
  - rewrite wp_modify, wp_ret. split; [|reflexivity]. eapply keeps_set_form_elem; [exact K2|].
    intros x E. injection E as <-. split; [exact Kn | rewrite En, N; reflexivity].
  - rewrite wp_ret, wp_ret. split; [exact (keeps_TInv _ _ K2) | reflexivity].
Qed.

(* the name found by the <li> / <dd> / <dt> walk *)
Lemma li_scan_some s b l name : li_scan s b l = Some name ->
  exists x, In x l /\ ename_of s x = (ns_html, name) /\ name <> nm "html".
Proof.
  induction l as [|node r IH]; [discriminate|].
  cbn [li_scan]. remember (ename_of s node) as nme eqn:En.
  destruct (if b then in_set close_list nme else in_set close_defn nme) eqn:C.
  - intro H. injection H as <-. exists node. split; [left; reflexivity|].
    destruct nme as [ns n]. cbn [snd].
    assert (X : in_set (close_list ++ close_defn) (ns, n) = true).
    { unfold in_set in *. rewrite existsb_app. destruct b; rewrite C; [reflexivity | apply orb_true_r]. }
    unfold in_set in X. apply existsb_exists in X. destruct X as (y & Hy & Ey). apply ename_eqb_eq in Ey. subst y.
    rewrite <- En.
    vm_compute in Hy. destruct Hy as [Hy|[Hy|[Hy|[]]]]; injection Hy as <- <-; split; try reflexivity; discriminate.
  - destruct (is_special s nme && negb (in_set extra_special_minus nme)); [discriminate|].
    intro H. destruct (IH H) as (x & A & B). exists x. split; [right; exact A | exact B].
Qed.

Lemma implied_except_self name : implied_except name (ns_html, name) = false.
Proof. unfold implied_except. rewrite ename_eqb_refl. reflexivity. Qed.

Lemma ib_15_ok s t : TInv s -> late s ->
  (is_n (tname t) "li" || is_n (tname t) "dd" || is_n (tname t) "dt") = true ->
  (ns_html, tname t) <> (ns_html, nm "head") -> (ns_html, tname t) <> (ns_html, nm "template") ->
  wp (ib_arm_15 ih it self t) is_done s.
Proof.
  intros I L Nm N1 N2. unfold ib_arm_15. rewrite wp_bind.
  assert (X : forall (Q : bool -> st -> Prop), (forall b, Q b s) ->
     wp (if is_n (tname t) "li" then ret true else if is_n (tname t) "dd" || is_n (tname t) "dt" then ret false else panic 36) Q s).
  { intros Q HQ. destruct (is_n (tname t) "li"); [rewrite wp_ret; apply HQ|]. simpl in Nm. rewrite Nm. rewrite wp_ret. apply HQ. }
  apply X. intro is_list. unfold set_frameset_not_ok. rewrite wp_bind, wp_modify, wp_bind, wp_get, wp_bind.
  set (s1 := set_frameset_ok false s).
  assert (K1 : keeps s s1) by (apply keeps_set_frameset_ok; apply keeps_refl; exact I).
  assert (Rest : forall s2, keeps s s2 -> wp (close_p_element_in_button_scope ;; _e <- insert_element_for (tk_tag t) ;; ret Done) is_done s2).
  { intros s2 K2. rewrite wp_bind.
    eapply (wp_close_p_element_in_button_scope s); [exact K2 | eapply keeps_late; eassumption |].
    intros s3 K3 _. rewrite wp_bind. unfold insert_element_for.
    eapply (wp_insert_element_std s); [exact K3 | eapply keeps_late; eassumption | exact N1 | exact N2 |].
    intros h s4 K4 _ _ _ _. rewrite wp_ret. split; [exact (keeps_TInv _ _ K4) | reflexivity]. }
  destruct (li_scan s1 is_list (rev (open_elems s1))) as [name|] eqn:E.
  - destruct (li_scan_some _ _ _ _ E) as (x & Hin & Hx & Nn). apply in_rev in Hin.
    eapply wp_mono; [|intros u s' H; exact H].
    change (generate_implied_end_except name) with (generate_implied_end_tags (implied_except name)).
    eapply (wp_implied_then_close s); [exact K1 | exact L | apply implied_except_html | apply implied_except_self | exact Nn | exists x; split; assumption |].
    intros s2 K2 _. apply Rest. exact K2.
  - rewrite wp_ret. apply Rest. exact K1.
Qed.

Lemma ib_16_ok s t : TInv s -> late s ->
  (ns_html, tname t) <> (ns_html, nm "head") -> (ns_html, tname t) <> (ns_html, nm "template") ->
  wp (ib_arm_16 ih it self t) tag_post s.
Proof.
  intros I L N1 N2. unfold ib_arm_16. rewrite wp_bind.
  eapply (wp_close_p_element_in_button_scope s); [apply keeps_refl; exact I | exact L |].
  intros s1 K1 _. rewrite wp_bind. unfold insert_element_for.
  eapply (wp_insert_element_std s); [exact K1 | eapply keeps_late; eassumption | exact N1 | exact N2 |].
  intros h s2 K2 _ _ _ _. rewrite wp_ret. split; [exact (keeps_TInv _ _ K2)|]. right; right; right; reflexivity.
Qed.

Lemma button_not_html : nm "button" <> nm "html". Proof. discriminate. Qed.

Lemma ib_17_ok s t : TInv s -> late s ->
  (ns_html, tname t) <> (ns_html, nm "head") -> (ns_html, tname t) <> (ns_html, nm "template") ->
  wp (ib_arm_17 ih it self t) is_done s.
Proof.
  intros I L N1 N2. unfold ib_arm_17. rewrite wp_bind, wp_get, wp_bind.
  assert (Rest : forall s2, keeps s s2 ->
     wp (reconstruct_active_formatting_elements ;; _e <- insert_element_for (tk_tag t) ;; set_frameset_not_ok ;; ret Done) is_done s2).
  { intros s2 K2. rewrite wp_bind.
    eapply (wp_reconstruct s); [exact K2 | eapply keeps_late; eassumption |]. intros s3 K3. rewrite wp_bind. unfold insert_element_for.
    eapply (wp_insert_element_std s); [exact K3 | eapply keeps_late; eassumption | exact N1 | exact N2 |].
    intros h s4 K4 _ _ _ _. unfold set_frameset_not_ok. rewrite wp_bind, wp_modify, wp_ret.
    split; [|reflexivity]. apply (keeps_TInv s). apply keeps_set_frameset_ok. exact K4. }
  destruct (in_scope_named s default_scope (nm "button")) eqn:Sc.
  - apply in_scope_named_In in Sc. rewrite wp_bind, wp_parse_error, wp_bind.
    eapply (wp_generate_implied_end_tags s); [(apply keeps_set_out; [|reflexivity]); apply keeps_refl; exact I | exact L | apply cursory_html |].
    intros s1 K1 Sh1 Keep. rewrite wp_bind.
    destruct Sc as (x & Hin & Hx).
    eapply (wp_pop_until_named s); [exact K1 | eapply keeps_late; eassumption | apply button_not_html | |].
    + exists x. split.
      * apply Keep; [exact Hin|]. change (in_set cursory_implied_end (ename_of s x) = false). rewrite Hx. reflexivity.
      * rewrite (keeps_name _ _ _ K1); [exact Hx | eapply TInv_stack_known; eassumption].
    + intros n s2 K2 _. rewrite wp_ret. apply Rest. exact K2.
  - rewrite wp_ret. apply Rest. apply keeps_refl. exact I.
Qed.

(* an end tag whose name is in scope: generate implied end tags, close it *)
Lemma ib_end_block_ok s t : TInv s -> late s ->
  tname t <> nm "html" -> in_set cursory_implied_end (ns_html, tname t) = false ->
  wp (ib_end_block t) is_done s.
Proof.
  intros I L N0 Nc. unfold ib_end_block. rewrite wp_bind, wp_get.
  destruct (negb (in_scope_named s default_scope (tname t))) eqn:Sc.
  { apply wp_unexpected. split; [eapply TInv_core_eq; [(apply core_eq_set_out; reflexivity) | exact I] | reflexivity]. }
  apply negb_false_iff in Sc. apply in_scope_named_In in Sc.
  rewrite wp_assoc, wp_bind.
  eapply (wp_implied_then_close s); [apply keeps_refl; exact I | exact L | apply cursory_html | exact Nc | exact N0 | exact Sc |].
  intros s1 K1 _. rewrite wp_ret. split; [exact (keeps_TInv _ _ K1) | reflexivity].
Qed.
End Arms2.

Section Arms3.
Context (ih it self : body).

Lemma wp_remove_from_stack_named s0 s node name (Q : unit -> st -> Prop) :
  keeps s0 s -> late s -> ename_of s node = (ns_html, name) -> name <> nm "html" ->
  (forall s', keeps s0 s' -> Q tt s') -> wp (remove_from_stack node) Q s.
Proof.
  intros K L En N H. unfold remove_from_stack. rewrite wp_bind, wp_get.
  destruct (rposition (same_node node) (open_elems s)) as [p|] eqn:Ep; [|rewrite wp_ret; apply H; exact K].
  apply rposition_some in Ep. destruct Ep as (y & Ey & Sy). unfold same_node in Sy. apply Nat.eqb_eq in Sy. subst y.
  pose proof K as [I S]. destruct (TInv_stack_nonempty _ I L) as (r & rest & Est & Nr).
  assert (Lp : 1 <= p) by (eapply named_not_root; eassumption).
  rewrite wp_bind, wp_modify, wp_emit. apply H.
  apply keeps_emit; [apply keeps_vremove_stack; assumption | reflexivity | reflexivity |]. cbn [op_okb].
  apply known_v_elem. change (known s node). eapply TInv_stack_known; [exact I | eapply nth_error_In; exact Ey].
Qed.

Lemma ib_form_end_ok s t : TInv s -> late s -> wp (ib_form_end t) is_done s.
Proof.
  intros I L. unfold ib_form_end. rewrite wp_bind, wp_get.
  assert (Err : forall s1, TInv s1 -> wp (parse_error ;; ret Done) is_done s1).
  { intros s1 I1. rewrite wp_bind, wp_parse_error, wp_ret. split; [eapply TInv_core_eq; [(apply core_eq_set_out; reflexivity) | exact I1] | reflexivity]. }
  destruct (negb (in_html_elem_named s (nm "template"))).
  - destruct (form_elem s) as [node|] eqn:Ef; [|apply Err; exact I].
    rewrite wp_bind, wp_modify.
    set (s1 := set_form_elem None s).
    assert (I1 : TInv s1) by (apply TInv_set_form_elem; [exact I | intros x E; discriminate]).
    assert (L1 : late s1) by exact L.
    assert (Nn : ename_of s1 node = (ns_html, nm "form")) by (apply (proj2 (inv_ptr _ I)); exact Ef).
    destruct (negb (in_scope s default_scope (fun n => same_node node n))); [apply Err; exact I1|].
    rewrite wp_bind.
    eapply (wp_generate_implied_end_tags s1); [apply keeps_refl; exact I1 | exact L1 | apply cursory_html |].
    intros s2 K2 _ _. pose proof K2 as [I2 S2]. assert (L2 : late s2) by (eapply keeps_late; eassumption).
    rewrite wp_bind. apply wp_current_node; [exact I2 | exact L2 |]. intros cur V. rewrite wp_bind.
    assert (Kn : known s1 node) by exact (known_handles_in s node (inv_known _ I) (in_handles_form _ _ Ef)).
    eapply (wp_remove_from_stack_named s1); [exact K2 | exact L2 | rewrite (keeps_name _ _ _ K2 Kn); exact Nn | apply form_not_html |].
    intros s3 K3. rewrite wp_bind, wp_when. destruct (negb (same_node cur node)).
    + rewrite wp_parse_error, wp_ret. split; [|reflexivity]. apply (keeps_TInv s1). (apply keeps_set_out; [|reflexivity]). exact K3.
    + rewrite wp_ret. split; [exact (keeps_TInv _ _ K3) | reflexivity].
  - destruct (negb (in_scope_named s default_scope (nm "form"))) eqn:Sc; [apply Err; exact I|].
    apply negb_false_iff in Sc. apply in_scope_named_In in Sc. destruct Sc as (x & Hin & Hx).
    rewrite wp_bind.
    eapply (wp_generate_implied_end_tags s); [apply keeps_refl; exact I | exact L | apply cursory_html |].
    intros s1 K1 _ Keep. pose proof K1 as [I1 S1]. assert (L1 : late s1) by (eapply keeps_late; eassumption).
    rewrite wp_bind. unfold current_node_named. rewrite wp_bind.
    apply wp_current_node; [exact I1 | exact L1 |]. intros cur V. rewrite wp_bind, wp_get, wp_ret, wp_bind.
    assert (Fin : forall s2, keeps s s2 -> open_elems s2 = open_elems s1 -> wp (_n <- pop_until_named (nm "form") ;; ret Done) is_done s2).
    { intros s2 K2 E2. rewrite wp_bind.
      eapply (wp_pop_until_named s); [exact K2 | eapply keeps_late; eassumption | apply form_not_html | |].
      - exists x. split; [rewrite E2; apply Keep; [exact Hin | rewrite Hx; reflexivity]|].
        rewrite (keeps_name _ _ _ K2); [exact Hx | eapply TInv_stack_known; eassumption].
      - intros n s3 K3 _. rewrite wp_ret. split; [exact (keeps_TInv _ _ K3) | reflexivity]. }
    rewrite wp_when. destruct (negb _).
    + rewrite wp_parse_error. apply Fin; [(apply keeps_set_out; [|reflexivity]); exact K1 | reflexivity].
    + apply Fin; [exact K1 | reflexivity].
Qed.

Lemma option_not_html : nm "option" <> nm "html". Proof. discriminate. Qed.

Lemma ib_20_ok s t : TInv s -> late s -> tname t <> nm "html" -> wp (ib_arm_20 ih it self t) is_done s.
Proof.
  intros I L N. unfold ib_arm_20. rewrite wp_bind, wp_get, wp_bind.
  eapply (wp_process_end_tag_in_body s); [apply keeps_refl; exact I | exact L | exact N |].
  intros s1 K1. rewrite wp_bind.
  destruct (find _ (open_elems s)) as [o|] eqn:Ef.
  - rewrite wp_bind, wp_get. destruct (negb _).
    + rewrite wp_bind. apply wp_probe. rewrite wp_emit, wp_ret. split; [|reflexivity].
      apply find_some in Ef. destruct Ef as [Ino No].
      assert (Ko : known s o) by (eapply TInv_stack_known; eassumption).
      apply (keeps_TInv s). apply keeps_emit; [(apply keeps_set_out; [|reflexivity]); exact K1 | reflexivity | reflexivity |].
      cbn [op_okb]. change (sv (set_out (EvArm 30 51 :: out s1) s1)) with (sv s1).
      rewrite (v_named_ename s1 o _ (stable_known _ _ _ (proj2 K1) Ko)), (stable_ename _ _ _ (proj2 K1) Ko).
      rewrite (named_ename _ _ _ No). reflexivity.
    + rewrite wp_ret, wp_ret. split; [exact (keeps_TInv _ _ K1) | reflexivity].
  - rewrite wp_ret, wp_ret. split; [exact (keeps_TInv _ _ K1) | reflexivity].
Qed.

Lemma ib_21_ok s t : TInv s -> late s -> wp (ib_arm_21 ih it self t) is_done s.
Proof.
  intros I L. unfold ib_arm_21. rewrite wp_bind, wp_get, wp_bind.
  assert (Fin : forall s1, keeps s s1 -> (exists x, In x (open_elems s1) /\ ename_of s1 x = (ns_html, nm "p")) ->
            wp (close_p_element ;; ret Done) is_done s1).
  { intros s1 K1 X. rewrite wp_bind. eapply (wp_close_p_element s); [exact K1 | eapply keeps_late; eassumption | exact X |].
    intros s2 K2 _. rewrite wp_ret. split; [exact (keeps_TInv _ _ K2) | reflexivity]. }
  destruct (negb (in_scope_named s button_scope (nm "p"))) eqn:Sc.
  - rewrite wp_bind, wp_parse_error, wp_bind. unfold insert_phantom.
    eapply (wp_insert_element_std s); [(apply keeps_set_out; [|reflexivity]); apply keeps_refl; exact I | exact L | discriminate | discriminate |].
    intros h s1 K1 E1 _ Kn En. rewrite wp_ret. apply Fin; [exact K1|].
    exists h. split; [rewrite E1; unfold vpush; apply in_or_app; right; left; reflexivity | exact En].
  - apply negb_false_iff in Sc. apply in_scope_named_In in Sc. rewrite wp_ret. apply Fin; [apply keeps_refl; exact I | exact Sc].
Qed.

Lemma ib_22_ok s t : TInv s -> late s -> tname t <> nm "html" -> wp (ib_arm_22 ih it self t) is_done s.
Proof.
  intros I L N. unfold ib_arm_22. rewrite wp_bind, wp_get.
  match goal with |- wp (if ?c then _ else _) _ _ => destruct c eqn:Sc end.
  - assert (X : exists x, In x (open_elems s) /\ ename_of s x = (ns_html, tname t)).
    { destruct (is_n (tname t) "li"); apply in_scope_named_In in Sc; exact Sc. }
    change (generate_implied_end_except (tname t)) with (generate_implied_end_tags (implied_except (tname t))).
    rewrite wp_assoc, wp_bind.
    eapply (wp_implied_then_close s); [apply keeps_refl; exact I | exact L | apply implied_except_html | apply implied_except_self | exact N | exact X |].
    intros s1 K1 _. rewrite wp_ret. split; [exact (keeps_TInv _ _ K1) | reflexivity].
  - rewrite wp_bind, wp_parse_error, wp_ret. split; [eapply TInv_core_eq; [(apply core_eq_set_out; reflexivity) | exact I] | reflexivity].
Qed.

Lemma heading_html : in_set heading_tag html_html = false. Proof. reflexivity. Qed.

Lemma ib_23_ok s t : TInv s -> late s -> wp (ib_arm_23 ih it self t) is_done s.
Proof.
  intros I L. unfold ib_arm_23. rewrite wp_bind, wp_get.
  destruct (in_scope s default_scope (fun n => in_set heading_tag (ename_of s n))) eqn:Sc.
  - apply in_scope_In in Sc. destruct Sc as (x & Hin & Hx).
    rewrite wp_bind.
    eapply (wp_generate_implied_end_tags s); [apply keeps_refl; exact I | exact L | apply cursory_html |].
    intros s1 K1 _ Keep. pose proof K1 as [I1 S1]. assert (L1 : late s1) by (eapply keeps_late; eassumption).
    rewrite wp_bind. unfold current_node_named. rewrite wp_bind.
    apply wp_current_node; [exact I1 | exact L1 |]. intros cur V. rewrite wp_bind, wp_get, wp_ret, wp_bind.
    assert (Hc : in_set cursory_implied_end (ename_of s x) = false).
    { unfold in_set in Hx. apply existsb_exists in Hx. destruct Hx as (y & Hy & Ey). apply ename_eqb_eq in Ey. rewrite Ey.
      vm_compute in Hy. repeat (destruct Hy as [<-|Hy]; [reflexivity|]). contradiction. }
    assert (Fin : forall s2, keeps s s2 -> open_elems s2 = open_elems s1 -> wp (_n <- pop_until (in_set heading_tag) ;; ret Done) is_done s2).
    { intros s2 K2 E2. rewrite wp_bind.
      eapply (wp_pop_until s); [exact K2 | eapply keeps_late; eassumption | apply heading_html | |].
      - exists x. split; [rewrite E2; apply Keep; [exact Hin | exact Hc]|].
        rewrite (keeps_name _ _ _ K2); [exact Hx | eapply TInv_stack_known; eassumption].
      - intros n s3 K3 _. rewrite wp_ret. split; [exact (keeps_TInv _ _ K3) | reflexivity]. }
    rewrite wp_when. destruct (negb _).
    + rewrite wp_parse_error. apply Fin; [(apply keeps_set_out; [|reflexivity]); exact K1 | reflexivity].
    + apply Fin; [exact K1 | reflexivity].
  - rewrite wp_bind, wp_parse_error, wp_ret. split; [eapply TInv_core_eq; [(apply core_eq_set_out; reflexivity) | exact I] | reflexivity].
Qed.
End Arms3.

Section Arms4.
Context (ih it self : body).

Lemma ib_24_ok s t : TInv s -> late s -> is_formatting (tname t) = true -> wp (ib_arm_24 ih it self t) is_done s.
Proof.
  intros I L F. unfold ib_arm_24. rewrite wp_bind.
  eapply (wp_handle_misnested_a_tags s); [apply keeps_refl; exact I | exact L |]. intros s1 K1. rewrite wp_bind.
  eapply (wp_reconstruct s); [exact K1 | eapply keeps_late; eassumption |]. intros s2 K2. rewrite wp_bind.
  eapply (wp_create_formatting_element_for s); [exact K2 | eapply keeps_late; eassumption | exact F |].
  intros h s3 K3. rewrite wp_ret. split; [exact (keeps_TInv _ _ K3) | reflexivity].
Qed.

Lemma ib_25_ok s t : TInv s -> late s -> is_formatting (tname t) = true -> wp (ib_arm_25 ih it self t) is_done s.
Proof.
  intros I L F. unfold ib_arm_25. rewrite wp_bind.
  eapply (wp_reconstruct s); [apply keeps_refl; exact I | exact L |]. intros s2 K2. rewrite wp_bind.
  eapply (wp_create_formatting_element_for s); [exact K2 | eapply keeps_late; eassumption | exact F |].
  intros h s3 K3. rewrite wp_ret. split; [exact (keeps_TInv _ _ K3) | reflexivity].
Qed.

Lemma ib_26_ok s t : TInv s -> late s -> is_formatting (tname t) = true -> wp (ib_arm_26 ih it self t) is_done s.
Proof.
  intros I L F. unfold ib_arm_26. rewrite wp_bind.
  eapply (wp_reconstruct s); [apply keeps_refl; exact I | exact L |]. intros s1 K1. rewrite wp_bind, wp_get, wp_bind.
  assert (Fin : forall s2, keeps s s2 -> wp (_e <- create_formatting_element_for (tk_tag t) ;; ret Done) is_done s2).
  { intros s2 K2. rewrite wp_bind.
    eapply (wp_create_formatting_element_for s); [exact K2 | eapply keeps_late; eassumption | exact F |].
    intros h s3 K3. rewrite wp_ret. split; [exact (keeps_TInv _ _ K3) | reflexivity]. }
  destruct (in_scope_named s1 default_scope (nm "nobr")).
  - rewrite wp_bind, wp_parse_error, wp_bind.
    eapply (wp_adoption_agency s); [(apply keeps_set_out; [|reflexivity]); exact K1 | exact (keeps_late _ _ K1 L) | reflexivity |].
    intros s2 K2. eapply (wp_reconstruct s); [exact K2 | eapply keeps_late; eassumption |]. intros s3 K3. apply Fin. exact K3.
  - rewrite wp_ret. apply Fin. exact K1.
Qed.

Lemma ib_27_ok s t : TInv s -> late s -> is_formatting (tname t) = true -> wp (ib_arm_27 ih it self t) is_done s.
Proof.
  intros I L F. unfold ib_arm_27. rewrite wp_bind.
  eapply (wp_adoption_agency s); [apply keeps_refl; exact I | exact L | exact F |].
  intros s1 K1. rewrite wp_ret. split; [exact (keeps_TInv _ _ K1) | reflexivity].
Qed.

Lemma ib_28_ok s t : TInv s -> late s ->
  (ns_html, tname t) <> (ns_html, nm "head") -> (ns_html, tname t) <> (ns_html, nm "template") ->
  wp (ib_arm_28 ih it self t) is_done s.
Proof.
  intros I L N1 N2. unfold ib_arm_28. rewrite wp_bind.
  eapply (wp_reconstruct s); [apply keeps_refl; exact I | exact L |]. intros s1 K1. rewrite wp_bind. unfold insert_element_for.
  eapply (wp_insert_element_std s); [exact K1 | eapply keeps_late; eassumption | exact N1 | exact N2 |].
  intros h s2 K2 _ _ _ _. rewrite wp_bind.
  eapply (wp_push_marker s); [exact K2|]. intros s3 K3 _.
  unfold set_frameset_not_ok. rewrite wp_bind, wp_modify, wp_ret. split; [|reflexivity].
  apply (keeps_TInv s). apply keeps_set_frameset_ok. exact K3.
Qed.

Lemma ib_29_ok s t : TInv s -> late s ->
  tname t <> nm "html" -> in_set cursory_implied_end (ns_html, tname t) = false ->
  wp (ib_arm_29 ih it self t) is_done s.
Proof.
  intros I L N0 Nc. unfold ib_arm_29. rewrite wp_bind, wp_get.
  destruct (negb (in_scope_named s default_scope (tname t))) eqn:Sc.
  { apply wp_unexpected. split; [eapply TInv_core_eq; [(apply core_eq_set_out; reflexivity) | exact I] | reflexivity]. }
  apply negb_false_iff in Sc. apply in_scope_named_In in Sc.
  rewrite wp_assoc, wp_bind.
  eapply (wp_implied_then_close s); [apply keeps_refl; exact I | exact L | apply cursory_html | exact Nc | exact N0 | exact Sc |].
  intros s1 K1 _. rewrite wp_bind.
  eapply (wp_clear_active_formatting_to_marker s); [exact K1|]. intros s2 K2 _.
  rewrite wp_ret. split; [exact (keeps_TInv _ _ K2) | reflexivity].
Qed.

Lemma ib_30_ok s t : TInv s -> late s -> saving_mode (mode s) = false ->
  (ns_html, tname t) <> (ns_html, nm "head") -> (ns_html, tname t) <> (ns_html, nm "template") ->
  wp (ib_arm_30 ih it self t) is_done s.
Proof.
  intros I L NS N1 N2. unfold ib_arm_30. rewrite wp_bind, wp_get, wp_bind.
  assert (Fin : forall s1, keeps s s1 ->
     wp (_e <- insert_element_for (tk_tag t) ;; set_frameset_not_ok ;; set_mode_m InTable ;; ret Done) is_done s1).
  { intros s1 K1. rewrite wp_bind. unfold insert_element_for.
    eapply (wp_insert_element_std s); [exact K1 | eapply keeps_late; eassumption | exact N1 | exact N2 |].
    intros h s2 K2 _ _ _ _. rewrite wp_bind.
    eapply (wp_set_frameset_not_ok s); [exact K2|]. intros s3 K3 _.
    apply (wp_set_mode_done s); [exact K3 | exact L | exact NS | reflexivity | reflexivity | reflexivity]. }
  destruct (negb (N.eqb (quirks_mode s) 0)).
  - eapply (wp_close_p_element_in_button_scope s); [apply keeps_refl; exact I | exact L |]. intros s1 K1 _. apply Fin. exact K1.
  - rewrite wp_ret. apply Fin. apply keeps_refl. exact I.
Qed.

Lemma ib_void_ok s t : TInv s -> late s ->
  (ns_html, tname t) <> (ns_html, nm "head") -> (ns_html, tname t) <> (ns_html, nm "template") ->
  wp (ib_void t) tag_post s.
Proof.
  intros I L N1 N2. unfold ib_void. rewrite wp_bind.
  eapply (wp_reconstruct s); [apply keeps_refl; exact I | exact L |]. intros s1 K1. rewrite wp_bind. unfold insert_and_pop_element_for.
  eapply (wp_insert_element_std s); [exact K1 | eapply keeps_late; eassumption | exact N1 | exact N2 |].
  intros h s2 K2 _ _ _ _. unfold set_frameset_not_ok. rewrite wp_bind, wp_modify, wp_ret.
  split; [apply (keeps_TInv s); apply keeps_set_frameset_ok; exact K2 | right; left; reflexivity].
Qed.

Lemma select_not_html : nm "select" <> nm "html". Proof. discriminate. Qed.

Lemma ib_33_ok s t : TInv s -> late s ->
  (ns_html, tname t) <> (ns_html, nm "head") -> (ns_html, tname t) <> (ns_html, nm "template") ->
  wp (ib_arm_33 ih it self t) tag_post s.
Proof.
  intros I L N1 N2. unfold ib_arm_33. rewrite wp_bind, wp_get, wp_bind.
  assert (Step2 : forall s1, keeps s s1 -> open_elems s1 = open_elems s ->
    wp ((if in_scope_named s default_scope (nm "select") then parse_error ;; _n <- pop_until_named (nm "select") ;; ret tt else ret tt) ;;
        (let hidden := is_type_hidden (tk_tag t) in
         reconstruct_active_formatting_elements ;;
         _e <- insert_and_pop_element_for (tk_tag t) ;;
         when (negb hidden) set_frameset_not_ok ;; ret DoneAckSelfClosing)) tag_post s1).
  { intros s1 K1 E1. rewrite wp_bind.
    assert (Fin : forall s2, keeps s s2 ->
       wp (reconstruct_active_formatting_elements ;; _e <- insert_and_pop_element_for (tk_tag t) ;;
           when (negb (is_type_hidden (tk_tag t))) set_frameset_not_ok ;; ret DoneAckSelfClosing) tag_post s2).
    { intros s2 K2. rewrite wp_bind.
      eapply (wp_reconstruct s); [exact K2 | eapply keeps_late; eassumption |]. intros s3 K3. rewrite wp_bind. unfold insert_and_pop_element_for.
      eapply (wp_insert_element_std s); [exact K3 | eapply keeps_late; eassumption | exact N1 | exact N2 |].
      intros h s4 K4 _ _ _ _. rewrite wp_bind, wp_when. destruct (negb _).
      - unfold set_frameset_not_ok. rewrite wp_modify, wp_ret. split; [apply (keeps_TInv s); apply keeps_set_frameset_ok; exact K4 | right; left; reflexivity].
      - rewrite wp_ret. split; [exact (keeps_TInv _ _ K4) | right; left; reflexivity]. }
    destruct (in_scope_named s default_scope (nm "select")) eqn:Sc.
    - apply in_scope_named_In in Sc. destruct Sc as (x & Hin & Hx).
      rewrite wp_bind, wp_parse_error, wp_bind.
      eapply (wp_pop_until_named s); [(apply keeps_set_out; [|reflexivity]); exact K1 | exact (keeps_late _ _ K1 L) | apply select_not_html | |].
      + exists x. split; [cbn [open_elems set_out]; rewrite E1; exact Hin|].
        change (ename_of s1 x = (ns_html, nm "select")). rewrite (keeps_name _ _ _ K1); [exact Hx | eapply TInv_stack_known; eassumption].
      + intros n s2 K2 _. rewrite wp_ret. apply Fin. exact K2.
    - rewrite wp_ret. apply Fin. exact K1. }
  destruct (is_fragment s) eqn:Fr.
  - rewrite wp_bind, wp_unwrap. unfold is_fragment in Fr. destruct (context_elem s) as [c|]; [|discriminate].
    exists c. split; [reflexivity|]. rewrite wp_when. destruct (named s c "select").
    + rewrite wp_parse_error. apply Step2; [(apply keeps_set_out; [|reflexivity]); apply keeps_refl; exact I | reflexivity].
    + apply Step2; [apply keeps_refl; exact I | reflexivity].
  - rewrite wp_ret. apply Step2; [apply keeps_refl; exact I | reflexivity].
Qed.

Lemma ib_34_ok s t : TInv s -> late s ->
  (ns_html, tname t) <> (ns_html, nm "head") -> (ns_html, tname t) <> (ns_html, nm "template") ->
  wp (ib_arm_34 ih it self t) tag_post s.
Proof.
  intros I L N1 N2. unfold ib_arm_34. rewrite wp_bind. unfold insert_and_pop_element_for.
  eapply (wp_insert_element_std s); [apply keeps_refl; exact I | exact L | exact N1 | exact N2 |].
  intros h s2 K2 _ _ _ _. rewrite wp_ret. split; [exact (keeps_TInv _ _ K2) | right; left; reflexivity].
Qed.

Lemma ib_35_ok s t : TInv s -> late s ->
  (ns_html, tname t) <> (ns_html, nm "head") -> (ns_html, tname t) <> (ns_html, nm "template") ->
  wp (ib_arm_35 ih it self t) tag_post s.
Proof.
  intros I L N1 N2. unfold ib_arm_35. rewrite wp_bind.
  eapply (wp_close_p_element_in_button_scope s); [apply keeps_refl; exact I | exact L |]. intros s1 K1 _.
  rewrite wp_bind, wp_get, wp_bind.
  assert (Fin : forall s2, keeps s s2 ->
     wp (_e <- insert_and_pop_element_for (tk_tag t) ;; set_frameset_not_ok ;; ret DoneAckSelfClosing) tag_post s2).
  { intros s2 K2. rewrite wp_bind. unfold insert_and_pop_element_for.
    eapply (wp_insert_element_std s); [exact K2 | eapply keeps_late; eassumption | exact N1 | exact N2 |].
    intros h s3 K3 _ _ _ _. unfold set_frameset_not_ok. rewrite wp_bind, wp_modify, wp_ret.
    split; [apply (keeps_TInv s); apply keeps_set_frameset_ok; exact K3 | right; left; reflexivity]. }
  destruct (in_scope_named s1 default_scope (nm "select")).
  - rewrite wp_bind.
    eapply (wp_generate_implied_end_tags s); [exact K1 | eapply keeps_late; eassumption | apply cursory_html |].
    intros s2 K2 _ _. rewrite wp_bind, wp_get, wp_when. destruct (_ || _).
    + rewrite wp_parse_error. apply Fin. (apply keeps_set_out; [|reflexivity]). exact K2.
    + apply Fin. exact K2.
  - rewrite wp_ret. apply Fin. exact K1.
Qed.
End Arms4.

Section Arms5.
Context (ih it self : body).

Lemma raw_post k s' : TInv s' -> tag_post (ToRawData k) s'.
Proof. intro I. split; [exact I | right; right; left; eauto]. Qed.

Lemma ib_37_ok s t : TInv s -> late s -> saving_mode (mode s) = false ->
  (ns_html, tname t) <> (ns_html, nm "head") -> (ns_html, tname t) <> (ns_html, nm "template") ->
  wp (ib_arm_37 ih it self t) tag_post s.
Proof.
  intros I L NS N1 N2. unfold ib_arm_37. rewrite wp_bind, wp_modify. unfold set_frameset_not_ok. rewrite wp_bind, wp_modify.
  eapply (wp_parse_raw_data s); [apply keeps_set_frameset_ok; apply keeps_set_ignore_lf; apply keeps_refl; exact I | exact L | exact NS | exact N1 | exact N2 |].
  intros s' I' _. apply raw_post. exact I'.
Qed.

Lemma ib_38_ok s t : TInv s -> late s -> saving_mode (mode s) = false ->
  (ns_html, tname t) <> (ns_html, nm "head") -> (ns_html, tname t) <> (ns_html, nm "template") ->
  wp (ib_arm_38 ih it self t) tag_post s.
Proof.
  intros I L NS N1 N2. unfold ib_arm_38. rewrite wp_bind.
  eapply (wp_close_p_element_in_button_scope s); [apply keeps_refl; exact I | exact L |]. intros s1 K1 _. rewrite wp_bind.
  eapply (wp_reconstruct s); [exact K1 | eapply keeps_late; eassumption |]. intros s2 K2.
  unfold set_frameset_not_ok. rewrite wp_bind, wp_modify. pose proof K2 as [_ S2].
  eapply (wp_parse_raw_data s); [apply keeps_set_frameset_ok; exact K2 | exact (keeps_late _ _ K2 L) | cbn; rewrite (st_mode _ _ S2); exact NS | exact N1 | exact N2 |].
  intros s' I' _. apply raw_post. exact I'.
Qed.

Lemma ib_39_ok s t : TInv s -> late s -> saving_mode (mode s) = false ->
  (ns_html, tname t) <> (ns_html, nm "head") -> (ns_html, tname t) <> (ns_html, nm "template") ->
  wp (ib_arm_39 ih it self t) tag_post s.
Proof.
  intros I L NS N1 N2. unfold ib_arm_39. unfold set_frameset_not_ok. rewrite wp_bind, wp_modify.
  eapply (wp_parse_raw_data s); [apply keeps_set_frameset_ok; apply keeps_refl; exact I | exact L | exact NS | exact N1 | exact N2 |].
  intros s' I' _. apply raw_post. exact I'.
Qed.

Lemma ib_40_ok s t : TInv s -> late s -> saving_mode (mode s) = false ->
  (ns_html, tname t) <> (ns_html, nm "head") -> (ns_html, tname t) <> (ns_html, nm "template") ->
  wp (ib_arm_40 ih it self t) tag_post s.
Proof.
  intros I L NS N1 N2. unfold ib_arm_40.
  eapply (wp_parse_raw_data s); [apply keeps_refl; exact I | exact L | exact NS | exact N1 | exact N2 |].
  intros s' I' _. apply raw_post. exact I'.
Qed.

Lemma ib_41_ok s t : TInv s -> late s ->
  (ns_html, tname t) <> (ns_html, nm "head") -> (ns_html, tname t) <> (ns_html, nm "template") ->
  wp (ib_arm_41 ih it self t) is_done s.
Proof.
  intros I L N1 N2. unfold ib_arm_41. rewrite wp_bind, wp_get, wp_bind.
  assert (X : forall (Q : bool -> st -> Prop), (forall b, Q b s) ->
     wp (if is_fragment s then ctx <- unwrap (context_elem s) 38 ;; ret (named s ctx "select") else ret false) Q s).
  { intros Q HQ. unfold is_fragment. destruct (context_elem s) as [c|].
    - rewrite wp_bind, wp_unwrap. exists c. split; [reflexivity|]. rewrite wp_ret. apply HQ.
    - rewrite wp_ret. apply HQ. }
  apply X. intros [|].
  - rewrite wp_bind, wp_parse_error, wp_ret. split; [eapply TInv_core_eq; [(apply core_eq_set_out; reflexivity) | exact I] | reflexivity].
  - destruct (in_scope_named s default_scope (nm "select")) eqn:Sc.
    + apply in_scope_named_In in Sc. rewrite wp_bind, wp_parse_error, wp_bind.
      eapply (wp_pop_until_named s); [(apply keeps_set_out; [|reflexivity]); apply keeps_refl; exact I | exact L | apply select_not_html | exact Sc |].
      intros n s1 K1 _. rewrite wp_ret. split; [exact (keeps_TInv _ _ K1) | reflexivity].
    + rewrite wp_bind.
      eapply (wp_reconstruct s); [apply keeps_refl; exact I | exact L |]. intros s1 K1. rewrite wp_bind. unfold insert_element_for.
      eapply (wp_insert_element_std s); [exact K1 | eapply keeps_late; eassumption | exact N1 | exact N2 |].
      intros h s2 K2 _ _ _ _. unfold set_frameset_not_ok. rewrite wp_bind, wp_modify, wp_ret.
      split; [apply (keeps_TInv s); apply keeps_set_frameset_ok; exact K2 | reflexivity].
Qed.

(* reconstruct, insert an element for the token *)
Lemma recon_insert_ok s0 s t : keeps s0 s -> late s ->
  (ns_html, tname t) <> (ns_html, nm "head") -> (ns_html, tname t) <> (ns_html, nm "template") ->
  wp (reconstruct_active_formatting_elements ;; _e <- insert_element_for (tk_tag t) ;; ret Done) is_done s.
Proof.
  intros K L N1 N2. rewrite wp_bind.
  eapply (wp_reconstruct s0); [exact K | exact L |]. intros s1 K1. rewrite wp_bind. unfold insert_element_for.
  eapply (wp_insert_element_std s0); [exact K1 | | exact N1 | exact N2 |].
  - destruct K as [_ S]. destruct K1 as [_ S1]. unfold late in *. rewrite (st_mode _ _ S1), <- (st_mode _ _ S). exact L.
  - intros h s2 K2 _ _ _ _. rewrite wp_ret. split; [exact (keeps_TInv _ _ K2) | reflexivity].
Qed.

Lemma wp_pop_if_option s0 s (Q : unit -> st -> Prop) :
  keeps s0 s -> late s -> (forall s', keeps s0 s' -> Q tt s') ->
  wp (b <- current_node_named (nm "option") ;; if b then _e <- pop ;; ret tt else ret tt) Q s.
Proof.
  intros K L H. pose proof K as [I S]. rewrite wp_bind. unfold current_node_named. rewrite wp_bind.
  apply wp_current_node; [exact I | exact L |]. intros cur V. rewrite wp_bind, wp_get, wp_ret.
  destruct (html_elem_named_b s cur (nm "option")) eqn:Nm.
  - rewrite wp_bind. eapply (wp_pop_current_not_root s0); [exact K | exact L | |].
    + exists cur. split; [exact V|]. apply ename_eqb_eq in Nm. rewrite Nm. discriminate.
    + intros e s' K' _. rewrite wp_ret. apply H. exact K'.
  - rewrite wp_ret. apply H. exact K.
Qed.

Lemma ib_42_ok s t : TInv s -> late s ->
  (ns_html, tname t) <> (ns_html, nm "head") -> (ns_html, tname t) <> (ns_html, nm "template") ->
  wp (ib_arm_42 ih it self t) is_done s.
Proof.
  intros I L N1 N2. unfold ib_arm_42. rewrite wp_bind, wp_get, wp_bind.
  destruct (in_scope_named s default_scope (nm "select")).
  - rewrite wp_bind. unfold generate_implied_end_except.
    eapply (wp_generate_implied_end_tags s); [apply keeps_refl; exact I | exact L | apply implied_except_html |].
    intros s1 K1 _ _. rewrite wp_bind, wp_get, wp_when.
    destruct (in_scope_named s1 default_scope (nm "option")).
    + rewrite wp_parse_error. apply (recon_insert_ok s); [(apply keeps_set_out; [|reflexivity]); exact K1 | exact (keeps_late _ _ K1 L) | exact N1 | exact N2].
    + apply (recon_insert_ok s); [exact K1 | exact (keeps_late _ _ K1 L) | exact N1 | exact N2].
  - eapply (wp_pop_if_option s); [apply keeps_refl; exact I | exact L |]. intros s1 K1.
    apply (recon_insert_ok s); [exact K1 | exact (keeps_late _ _ K1 L) | exact N1 | exact N2].
Qed.

Lemma ib_43_ok s t : TInv s -> late s ->
  (ns_html, tname t) <> (ns_html, nm "head") -> (ns_html, tname t) <> (ns_html, nm "template") ->
  wp (ib_arm_43 ih it self t) is_done s.
Proof.
  intros I L N1 N2. unfold ib_arm_43. rewrite wp_bind, wp_get, wp_bind.
  destruct (in_scope_named s default_scope (nm "select")).
  - rewrite wp_bind.
    eapply (wp_generate_implied_end_tags s); [apply keeps_refl; exact I | exact L | apply cursory_html |].
    intros s1 K1 _ _. rewrite wp_bind, wp_get, wp_when.
    destruct (_ || _).
    + rewrite wp_parse_error. apply (recon_insert_ok s); [(apply keeps_set_out; [|reflexivity]); exact K1 | exact (keeps_late _ _ K1 L) | exact N1 | exact N2].
    + apply (recon_insert_ok s); [exact K1 | exact (keeps_late _ _ K1 L) | exact N1 | exact N2].
  - eapply (wp_pop_if_option s); [apply keeps_refl; exact I | exact L |]. intros s1 K1.
    apply (recon_insert_ok s); [exact K1 | exact (keeps_late _ _ K1 L) | exact N1 | exact N2].
Qed.

Lemma insert_done_ok s0 s t : keeps s0 s -> late s ->
  (ns_html, tname t) <> (ns_html, nm "head") -> (ns_html, tname t) <> (ns_html, nm "template") ->
  wp (_e <- insert_element_for (tk_tag t) ;; ret Done) is_done s.
Proof.
  intros K L N1 N2. rewrite wp_bind. unfold insert_element_for.
  eapply (wp_insert_element_std s0); [exact K | exact L | exact N1 | exact N2 |].
  intros h s2 K2 _ _ _ _. rewrite wp_ret. split; [exact (keeps_TInv _ _ K2) | reflexivity].
Qed.

Lemma ib_44_ok s t : TInv s -> late s ->
  (ns_html, tname t) <> (ns_html, nm "head") -> (ns_html, tname t) <> (ns_html, nm "template") ->
  wp (ib_arm_44 ih it self t) is_done s.
Proof.
  intros I L N1 N2. unfold ib_arm_44. rewrite wp_bind, wp_get, wp_bind.
  assert (Fin : forall s1, keeps s s1 ->
     wp (b <- current_node_named (nm "ruby") ;; when (negb b) parse_error ;; _e <- insert_element_for (tk_tag t) ;; ret Done) is_done s1).
  { intros s1 K1. pose proof K1 as [I1 S1]. assert (L1 : late s1) by exact (keeps_late _ _ K1 L).
    rewrite wp_bind. unfold current_node_named. rewrite wp_bind.
    apply wp_current_node; [exact I1 | exact L1 |]. intros cur V. rewrite wp_bind, wp_get, wp_ret, wp_bind, wp_when.
    destruct (negb _).
    - rewrite wp_parse_error. apply (insert_done_ok s); [(apply keeps_set_out; [|reflexivity]); exact K1 | exact L1 | exact N1 | exact N2].
    - apply (insert_done_ok s); [exact K1 | exact L1 | exact N1 | exact N2]. }
  destruct (in_scope_named s default_scope (nm "ruby")).
  - eapply (wp_generate_implied_end_tags s); [apply keeps_refl; exact I | exact L | apply cursory_html |]. intros s1 K1 _ _. apply Fin. exact K1.
  - rewrite wp_ret. apply Fin. apply keeps_refl. exact I.
Qed.

Lemma ib_45_ok s t : TInv s -> late s ->
  (ns_html, tname t) <> (ns_html, nm "head") -> (ns_html, tname t) <> (ns_html, nm "template") ->
  wp (ib_arm_45 ih it self t) is_done s.
Proof.
  intros I L N1 N2. unfold ib_arm_45. rewrite wp_bind, wp_get, wp_bind.
  assert (Fin : forall s1, keeps s s1 ->
     wp (b1 <- current_node_named (nm "rtc") ;; b2 <- current_node_named (nm "ruby") ;;
         when (negb b1 && negb b2) parse_error ;; _e <- insert_element_for (tk_tag t) ;; ret Done) is_done s1).
  { intros s1 K1. pose proof K1 as [I1 S1]. assert (L1 : late s1) by exact (keeps_late _ _ K1 L).
    rewrite wp_bind. unfold current_node_named at 1. rewrite wp_bind.
    apply wp_current_node; [exact I1 | exact L1 |]. intros cur V. rewrite wp_bind, wp_get, wp_ret, wp_bind.
    unfold current_node_named. rewrite wp_bind.
    apply wp_current_node; [exact I1 | exact L1 |]. intros cur2 V2. rewrite wp_bind, wp_get, wp_ret, wp_bind, wp_when.
    destruct (_ && _).
    - rewrite wp_parse_error. apply (insert_done_ok s); [(apply keeps_set_out; [|reflexivity]); exact K1 | exact L1 | exact N1 | exact N2].
    - apply (insert_done_ok s); [exact K1 | exact L1 | exact N1 | exact N2]. }
  destruct (in_scope_named s default_scope (nm "ruby")).
  - unfold generate_implied_end_except.
    eapply (wp_generate_implied_end_tags s); [apply keeps_refl; exact I | exact L | apply implied_except_html |]. intros s1 K1 _ _. apply Fin. exact K1.
  - rewrite wp_ret. apply Fin. apply keeps_refl. exact I.
Qed.

Lemma ib_46_ok s t : TInv s -> late s -> wp (ib_arm_46 ih it self t) tag_post s.
Proof.
  intros I L. unfold ib_arm_46. rewrite wp_bind.
  eapply (wp_reconstruct s); [apply keeps_refl; exact I | exact L |]. intros s1 K1.
  eapply (wp_enter_foreign s); [exact K1 | exact (keeps_late _ _ K1 L) | apply ns_mathml_ne |].
  intros r s2 K2 [->| ->]; (split; [exact (keeps_TInv _ _ K2)|]); [left | right; left]; reflexivity.
Qed.
Lemma ib_47_ok s t : TInv s -> late s -> wp (ib_arm_47 ih it self t) tag_post s.
Proof.
  intros I L. unfold ib_arm_47. rewrite wp_bind.
  eapply (wp_reconstruct s); [apply keeps_refl; exact I | exact L |]. intros s1 K1.
  eapply (wp_enter_foreign s); [exact K1 | exact (keeps_late _ _ K1 L) | apply ns_svg_ne |].
  intros r s2 K2 [->| ->]; (split; [exact (keeps_TInv _ _ K2)|]); [left | right; left]; reflexivity.
Qed.

Lemma ib_49_ok s t : TInv s -> late s -> saving_mode (mode s) = false ->
  (ns_html, tname t) <> (ns_html, nm "head") -> (ns_html, tname t) <> (ns_html, nm "template") ->
  wp (ib_arm_49 ih it self t) tag_post s.
Proof.
  intros I L NS N1 N2. unfold ib_arm_49. rewrite wp_bind, wp_get.
  destruct (o_scripting (opts s) && is_n (tname t) "noscript").
  - eapply (wp_parse_raw_data s); [apply keeps_refl; exact I | exact L | exact NS | exact N1 | exact N2 |].
    intros s' I' _. apply raw_post. exact I'.
  - eapply wp_mono; [apply (recon_insert_ok s); [apply keeps_refl; exact I | exact L | exact N1 | exact N2] | intros; apply tag_post_done; assumption].
Qed.

Lemma ib_any_end_ok s t : TInv s -> late s -> tname t <> nm "html" -> wp (ib_any_end t) is_done s.
Proof.
  intros I L N. unfold ib_any_end. rewrite wp_bind.
  eapply (wp_process_end_tag_in_body s); [apply keeps_refl; exact I | exact L | exact N |].
  intros s1 K1. rewrite wp_ret. split; [exact (keeps_TInv _ _ K1) | reflexivity].
Qed.

Lemma ib_1_ok s t : TInv s -> late s -> wp (ib_arm_1 ih it self t) is_done s.
Proof.
  intros I L. unfold ib_arm_1. rewrite wp_bind.
  eapply (wp_reconstruct s); [apply keeps_refl; exact I | exact L |]. intros s1 K1. rewrite wp_bind, wp_when.
  assert (Fin : forall s2, keeps s s2 -> wp (append_text (tk_text t)) is_done s2).
  { intros s2 K2. eapply (wp_append_text s); [exact K2 | exact (keeps_late _ _ K2 L) |].
    intros s3 K3 _. split; [exact (keeps_TInv _ _ K3) | reflexivity]. }
  destruct (any_not_whitespace (tk_text t)).
  - unfold set_frameset_not_ok. rewrite wp_modify. apply Fin. apply keeps_set_frameset_ok. exact K1.
  - apply Fin. exact K1.
Qed.
End Arms5.

(* ---------- the dispatcher of "in body" ---------- *)
Definition ib_post (t : tok) (r : presult) (s' : st) : Prop := step_post t r s' /\ (is_chars t = true -> r = Done).

Definition end_block_name (n : str) : bool := negb (is_n n "html") && negb (in_set cursory_implied_end (ns_html, n)).
Lemma end_block_name_props n : end_block_name n = true -> n <> nm "html" /\ in_set cursory_implied_end (ns_html, n) = false.
Proof.
  unfold end_block_name. intro H. apply andb_true_iff in H. destruct H as [A B]. apply negb_true_iff in A, B.
  split; [apply is_n_false; exact A | exact B].
Qed.
Definition li_name (n : str) : bool := (is_n n "li" || is_n n "dd" || is_n n "dt") && safe_name n.
Definition form_name (n : str) : bool := is_n n "form".

Definition ib_safe_arms : list nat := [6; 10; 11; 12; 13; 16; 17; 20; 22; 28; 30; 32; 33; 34; 35; 37; 38; 39; 40; 41; 42; 43; 44; 45].
Definition ib_tag_arms : list nat := [3; 4; 5; 8; 9; 19; 21; 23; 31; 36; 46; 47; 48; 49; 50].

Lemma in_body_arm_facts :
  forallb (fun k => forallb (atom_names safe_name false) (nth k heads_in_body [])) ib_safe_arms = true /\
  forallb (fun k => forallb atom_is_tag (nth k heads_in_body [])) ib_tag_arms = true /\
  forallb (atom_names li_name false) (nth 15 heads_in_body []) = true /\
  forallb (atom_names form_name false) (nth 14 heads_in_body []) = true /\
  forallb (atom_names end_block_name false) (nth 18 heads_in_body []) = true /\
  forallb (atom_names end_block_name false) (nth 29 heads_in_body []) = true /\
  forallb (fun k => forallb (atom_names is_formatting false) (nth k heads_in_body [])) [24; 25; 26; 27] = true /\
  forallb (fun k => forallb atom_not_chars (nth k heads_in_body [])) [0; 2; 7] = true /\
  forallb atom_is_start (nth 31 heads_in_body []) = false /\
  forallb atom_is_start (nth 36 heads_in_body []) = true /\
  forallb atom_is_start (nth 49 heads_in_body []) = true /\
  forallb atom_is_end (nth 50 heads_in_body []) = true /\
  In (AStart (nm "html")) (nth 3 heads_in_body []) /\ In (AStart (nm "template")) (nth 4 heads_in_body []) /\
  In (AStart (nm "head")) (nth 48 heads_in_body []) /\ In (AEnd (nm "html")) (nth 9 heads_in_body []) /\
  forallb (atom_names (fun n => is_n n "br") false) (nth 31 heads_in_body []) = true /\
  forallb (atom_names (fun n => is_n n "image") false) (nth 36 heads_in_body []) = true.
Proof. repeat split; try reflexivity; vm_compute; tauto. Qed.

Lemma forallb_nth_in (p : nat -> bool) (l : list nat) k : forallb p l = true -> In k l -> p k = true.
Proof. intros F H. rewrite forallb_forall in F. apply F. exact H. Qed.

Ltac safe_arm Safe := let g := fresh "g" in let N0 := fresh "N0" in let N1 := fresh "N1" in let N2 := fresh "N2" in
    destruct Safe as (g & -> & N0 & N1 & N2); [simpl; tauto|].

(* what has to be shown of arm [k] with body [b] (callbacks as for the dispatcher) *)
Definition ib_cb (ih it self : body) : Prop :=
  (forall s t, TInv s -> late s -> saving_mode (mode s) = false -> scalar_tok t ->
               head_matches t (nth 4 heads_in_body []) = true -> wp (ih t) (step_post t) s) /\
  (forall s, TInv s -> late s -> saving_mode (mode s) = false -> wp (it KEof) (step_post KEof) s) /\
  (forall s t, TInv s -> late s -> saving_mode (mode s) = false -> scalar_tok t -> is_start t = true ->
               (tname t = nm "br" \/ tname t = nm "img") -> wp (self t) tag_post s).

Definition ib_arm_spec (k : nat) (b : body) : Prop :=
  forall s1 t, TInv s1 -> late s1 -> (saving_mode (mode s1) = false \/ is_chars t = true) -> scalar_tok t ->
    head_matches t (nth k heads_in_body []) = true ->
    (forall j, j < k -> head_matches t (nth j heads_in_body []) = false) ->
    wp (b t) (ib_post t) s1.

Ltac ib_setup :=
  intros [HIH [HIT HSelf]] s1 t I1 L1 NSC Sc Hm Hn;
  destruct in_body_arm_facts as (FS & FT & F15 & F14 & F18 & F29 & FF & FN & _ & F36 & F49 & F50 & A3 & A4 & A48 & A9 & F31 & F36n);
  assert (TagFin : is_chars t = false -> forall r s', tag_post r s' -> ib_post t r s')
    by (intros C r s' P; split; [apply tag_post_step; assumption | let X := fresh "X" in intro X; rewrite C in X; discriminate]);
  assert (DoneFin : forall r s', is_done r s' -> ib_post t r s')
    by (intros r s' [Is ->]; split; [apply step_post_done; exact Is | reflexivity]);
  assert (NSof : is_chars t = false -> saving_mode (mode s1) = false)
    by (let C := fresh "C" in let X := fresh "X" in intro C; destruct NSC as [X|X]; [exact X | rewrite C in X; discriminate]).

Lemma ib_spec_0 ih it self : ib_cb ih it self -> ib_arm_spec 0 (ib_arm_0 ih it self).
Proof.
  ib_setup.
  assert (Safe : In 0 ib_safe_arms -> exists g, t = KTag g /\ tg_name g <> nm "html" /\
            (ns_html, tg_name g) <> (ns_html, nm "head") /\ (ns_html, tg_name g) <> (ns_html, nm "template")).
  { intro Hk. apply (head_safe (nth 0 heads_in_body [])); [|exact Hm].
    exact (forallb_nth_in (fun k => forallb (atom_names safe_name false) (nth k heads_in_body [])) ib_safe_arms 0 FS Hk). }
  assert (Tag : In 0 ib_tag_arms -> exists g, t = KTag g).
  { intro Hk. apply (head_all_tag (nth 0 heads_in_body [])); [|exact Hm].
    exact (forallb_nth_in (fun k => forallb atom_is_tag (nth k heads_in_body [])) ib_tag_arms 0 FT Hk). }
  assert (Fmt : In 0 [24; 25; 26; 27] -> exists g, t = KTag g /\ is_formatting (tg_name g) = true).
  { intro Hk. apply (head_named_prop is_formatting (nth 0 heads_in_body [])); [|exact Hm].
    exact (forallb_nth_in (fun k => forallb (atom_names is_formatting false) (nth k heads_in_body [])) [24; 25; 26; 27] 0 FF Hk). }
  assert (NotC : In 0 [0; 2; 7] -> is_chars t = false).
  { intro Hk. apply (head_not_chars (nth 0 heads_in_body [])); [|exact Hm].
    exact (forallb_nth_in (fun k => forallb atom_not_chars (nth k heads_in_body [])) [0; 2; 7] 0 FN Hk). }
  unfold ib_arm_0. eapply wp_mono; [apply armd_unexpected; exact I1 | exact DoneFin].
Qed.

Lemma ib_spec_1 ih it self : ib_cb ih it self -> ib_arm_spec 1 (ib_arm_1 ih it self).
Proof.
  ib_setup.
  assert (Safe : In 1 ib_safe_arms -> exists g, t = KTag g /\ tg_name g <> nm "html" /\
            (ns_html, tg_name g) <> (ns_html, nm "head") /\ (ns_html, tg_name g) <> (ns_html, nm "template")).
  { intro Hk. apply (head_safe (nth 1 heads_in_body [])); [|exact Hm].
    exact (forallb_nth_in (fun k => forallb (atom_names safe_name false) (nth k heads_in_body [])) ib_safe_arms 1 FS Hk). }
  assert (Tag : In 1 ib_tag_arms -> exists g, t = KTag g).
  { intro Hk. apply (head_all_tag (nth 1 heads_in_body [])); [|exact Hm].
    exact (forallb_nth_in (fun k => forallb atom_is_tag (nth k heads_in_body [])) ib_tag_arms 1 FT Hk). }
  assert (Fmt : In 1 [24; 25; 26; 27] -> exists g, t = KTag g /\ is_formatting (tg_name g) = true).
  { intro Hk. apply (head_named_prop is_formatting (nth 1 heads_in_body [])); [|exact Hm].
    exact (forallb_nth_in (fun k => forallb (atom_names is_formatting false) (nth k heads_in_body [])) [24; 25; 26; 27] 1 FF Hk). }
  assert (NotC : In 1 [0; 2; 7] -> is_chars t = false).
  { intro Hk. apply (head_not_chars (nth 1 heads_in_body [])); [|exact Hm].
    exact (forallb_nth_in (fun k => forallb atom_not_chars (nth k heads_in_body [])) [0; 2; 7] 1 FN Hk). }
  eapply wp_mono; [apply ib_1_ok; assumption | exact DoneFin].
Qed.

Lemma ib_spec_2 ih it self : ib_cb ih it self -> ib_arm_spec 2 (ib_arm_2 ih it self).
Proof.
  ib_setup.
  assert (Safe : In 2 ib_safe_arms -> exists g, t = KTag g /\ tg_name g <> nm "html" /\
            (ns_html, tg_name g) <> (ns_html, nm "head") /\ (ns_html, tg_name g) <> (ns_html, nm "template")).
  { intro Hk. apply (head_safe (nth 2 heads_in_body [])); [|exact Hm].
    exact (forallb_nth_in (fun k => forallb (atom_names safe_name false) (nth k heads_in_body [])) ib_safe_arms 2 FS Hk). }
  assert (Tag : In 2 ib_tag_arms -> exists g, t = KTag g).
  { intro Hk. apply (head_all_tag (nth 2 heads_in_body [])); [|exact Hm].
    exact (forallb_nth_in (fun k => forallb atom_is_tag (nth k heads_in_body [])) ib_tag_arms 2 FT Hk). }
  assert (Fmt : In 2 [24; 25; 26; 27] -> exists g, t = KTag g /\ is_formatting (tg_name g) = true).
  { intro Hk. apply (head_named_prop is_formatting (nth 2 heads_in_body [])); [|exact Hm].
    exact (forallb_nth_in (fun k => forallb (atom_names is_formatting false) (nth k heads_in_body [])) [24; 25; 26; 27] 2 FF Hk). }
  assert (NotC : In 2 [0; 2; 7] -> is_chars t = false).
  { intro Hk. apply (head_not_chars (nth 2 heads_in_body [])); [|exact Hm].
    exact (forallb_nth_in (fun k => forallb atom_not_chars (nth k heads_in_body [])) [0; 2; 7] 2 FN Hk). }
  eapply wp_mono; [apply armd_append_comment; assumption | exact DoneFin].
Qed.

Lemma ib_spec_3 ih it self : ib_cb ih it self -> ib_arm_spec 3 (ib_arm_3 ih it self).
Proof.
  ib_setup.
  assert (Safe : In 3 ib_safe_arms -> exists g, t = KTag g /\ tg_name g <> nm "html" /\
            (ns_html, tg_name g) <> (ns_html, nm "head") /\ (ns_html, tg_name g) <> (ns_html, nm "template")).
  { intro Hk. apply (head_safe (nth 3 heads_in_body [])); [|exact Hm].
    exact (forallb_nth_in (fun k => forallb (atom_names safe_name false) (nth k heads_in_body [])) ib_safe_arms 3 FS Hk). }
  assert (Tag : In 3 ib_tag_arms -> exists g, t = KTag g).
  { intro Hk. apply (head_all_tag (nth 3 heads_in_body [])); [|exact Hm].
    exact (forallb_nth_in (fun k => forallb atom_is_tag (nth k heads_in_body [])) ib_tag_arms 3 FT Hk). }
  assert (Fmt : In 3 [24; 25; 26; 27] -> exists g, t = KTag g /\ is_formatting (tg_name g) = true).
  { intro Hk. apply (head_named_prop is_formatting (nth 3 heads_in_body [])); [|exact Hm].
    exact (forallb_nth_in (fun k => forallb (atom_names is_formatting false) (nth k heads_in_body [])) [24; 25; 26; 27] 3 FF Hk). }
  assert (NotC : In 3 [0; 2; 7] -> is_chars t = false).
  { intro Hk. apply (head_not_chars (nth 3 heads_in_body [])); [|exact Hm].
    exact (forallb_nth_in (fun k => forallb atom_not_chars (nth k heads_in_body [])) [0; 2; 7] 3 FN Hk). }
  eapply wp_mono; [apply ib_3_ok; assumption | exact DoneFin].
Qed.

Lemma ib_spec_4 ih it self : ib_cb ih it self -> ib_arm_spec 4 (ib_arm_4 ih it self).
Proof.
  ib_setup.
  assert (Safe : In 4 ib_safe_arms -> exists g, t = KTag g /\ tg_name g <> nm "html" /\
            (ns_html, tg_name g) <> (ns_html, nm "head") /\ (ns_html, tg_name g) <> (ns_html, nm "template")).
  { intro Hk. apply (head_safe (nth 4 heads_in_body [])); [|exact Hm].
    exact (forallb_nth_in (fun k => forallb (atom_names safe_name false) (nth k heads_in_body [])) ib_safe_arms 4 FS Hk). }
  assert (Tag : In 4 ib_tag_arms -> exists g, t = KTag g).
  { intro Hk. apply (head_all_tag (nth 4 heads_in_body [])); [|exact Hm].
    exact (forallb_nth_in (fun k => forallb atom_is_tag (nth k heads_in_body [])) ib_tag_arms 4 FT Hk). }
  assert (Fmt : In 4 [24; 25; 26; 27] -> exists g, t = KTag g /\ is_formatting (tg_name g) = true).
  { intro Hk. apply (head_named_prop is_formatting (nth 4 heads_in_body [])); [|exact Hm].
    exact (forallb_nth_in (fun k => forallb (atom_names is_formatting false) (nth k heads_in_body [])) [24; 25; 26; 27] 4 FF Hk). }
  assert (NotC : In 4 [0; 2; 7] -> is_chars t = false).
  { intro Hk. apply (head_not_chars (nth 4 heads_in_body [])); [|exact Hm].
    exact (forallb_nth_in (fun k => forallb atom_not_chars (nth k heads_in_body [])) [0; 2; 7] 4 FN Hk). }
  destruct Tag as [g ->]; [simpl; tauto|]. unfold ib_arm_4.
    eapply wp_mono; [apply HIH; [exact I1 | exact L1 | apply NSof; reflexivity | exact Sc | exact Hm]|].
    intros r s' P. split; [exact P | intro X; discriminate].
Qed.

Lemma ib_spec_5 ih it self : ib_cb ih it self -> ib_arm_spec 5 (ib_arm_5 ih it self).
Proof.
  ib_setup.
  assert (Safe : In 5 ib_safe_arms -> exists g, t = KTag g /\ tg_name g <> nm "html" /\
            (ns_html, tg_name g) <> (ns_html, nm "head") /\ (ns_html, tg_name g) <> (ns_html, nm "template")).
  { intro Hk. apply (head_safe (nth 5 heads_in_body [])); [|exact Hm].
    exact (forallb_nth_in (fun k => forallb (atom_names safe_name false) (nth k heads_in_body [])) ib_safe_arms 5 FS Hk). }
  assert (Tag : In 5 ib_tag_arms -> exists g, t = KTag g).
  { intro Hk. apply (head_all_tag (nth 5 heads_in_body [])); [|exact Hm].
    exact (forallb_nth_in (fun k => forallb atom_is_tag (nth k heads_in_body [])) ib_tag_arms 5 FT Hk). }
  assert (Fmt : In 5 [24; 25; 26; 27] -> exists g, t = KTag g /\ is_formatting (tg_name g) = true).
  { intro Hk. apply (head_named_prop is_formatting (nth 5 heads_in_body [])); [|exact Hm].
    exact (forallb_nth_in (fun k => forallb (atom_names is_formatting false) (nth k heads_in_body [])) [24; 25; 26; 27] 5 FF Hk). }
  assert (NotC : In 5 [0; 2; 7] -> is_chars t = false).
  { intro Hk. apply (head_not_chars (nth 5 heads_in_body [])); [|exact Hm].
    exact (forallb_nth_in (fun k => forallb atom_not_chars (nth k heads_in_body [])) [0; 2; 7] 5 FN Hk). }
  eapply wp_mono; [apply ib_5_ok; assumption | exact DoneFin].
Qed.

Lemma ib_spec_6 ih it self : ib_cb ih it self -> ib_arm_spec 6 (ib_arm_6 ih it self).
Proof.
  ib_setup.
  assert (Safe : In 6 ib_safe_arms -> exists g, t = KTag g /\ tg_name g <> nm "html" /\
            (ns_html, tg_name g) <> (ns_html, nm "head") /\ (ns_html, tg_name g) <> (ns_html, nm "template")).
  { intro Hk. apply (head_safe (nth 6 heads_in_body [])); [|exact Hm].
    exact (forallb_nth_in (fun k => forallb (atom_names safe_name false) (nth k heads_in_body [])) ib_safe_arms 6 FS Hk). }
  assert (Tag : In 6 ib_tag_arms -> exists g, t = KTag g).
  { intro Hk. apply (head_all_tag (nth 6 heads_in_body [])); [|exact Hm].
    exact (forallb_nth_in (fun k => forallb atom_is_tag (nth k heads_in_body [])) ib_tag_arms 6 FT Hk). }
  assert (Fmt : In 6 [24; 25; 26; 27] -> exists g, t = KTag g /\ is_formatting (tg_name g) = true).
  { intro Hk. apply (head_named_prop is_formatting (nth 6 heads_in_body [])); [|exact Hm].
    exact (forallb_nth_in (fun k => forallb (atom_names is_formatting false) (nth k heads_in_body [])) [24; 25; 26; 27] 6 FF Hk). }
  assert (NotC : In 6 [0; 2; 7] -> is_chars t = false).
  { intro Hk. apply (head_not_chars (nth 6 heads_in_body [])); [|exact Hm].
    exact (forallb_nth_in (fun k => forallb atom_not_chars (nth k heads_in_body [])) [0; 2; 7] 6 FN Hk). }
  safe_arm Safe. eapply wp_mono; [apply ib_6_ok; try assumption; apply NSof; reflexivity | exact DoneFin].
Qed.

Lemma ib_spec_7 ih it self : ib_cb ih it self -> ib_arm_spec 7 (ib_arm_7 ih it self).
Proof.
  ib_setup.
  assert (Safe : In 7 ib_safe_arms -> exists g, t = KTag g /\ tg_name g <> nm "html" /\
            (ns_html, tg_name g) <> (ns_html, nm "head") /\ (ns_html, tg_name g) <> (ns_html, nm "template")).
  { intro Hk. apply (head_safe (nth 7 heads_in_body [])); [|exact Hm].
    exact (forallb_nth_in (fun k => forallb (atom_names safe_name false) (nth k heads_in_body [])) ib_safe_arms 7 FS Hk). }
  assert (Tag : In 7 ib_tag_arms -> exists g, t = KTag g).
  { intro Hk. apply (head_all_tag (nth 7 heads_in_body [])); [|exact Hm].
    exact (forallb_nth_in (fun k => forallb atom_is_tag (nth k heads_in_body [])) ib_tag_arms 7 FT Hk). }
  assert (Fmt : In 7 [24; 25; 26; 27] -> exists g, t = KTag g /\ is_formatting (tg_name g) = true).
  { intro Hk. apply (head_named_prop is_formatting (nth 7 heads_in_body [])); [|exact Hm].
    exact (forallb_nth_in (fun k => forallb (atom_names is_formatting false) (nth k heads_in_body [])) [24; 25; 26; 27] 7 FF Hk). }
  assert (NotC : In 7 [0; 2; 7] -> is_chars t = false).
  { intro Hk. apply (head_not_chars (nth 7 heads_in_body [])); [|exact Hm].
    exact (forallb_nth_in (fun k => forallb atom_not_chars (nth k heads_in_body [])) [0; 2; 7] 7 FN Hk). }
  unfold ib_arm_7. rewrite wp_bind, wp_get.
    assert (C : is_chars t = false) by (apply NotC; simpl; tauto).
    assert (t = KEof).
    { assert (E7 : nth 7 heads_in_body [] = [AEof]) by reflexivity. rewrite E7 in Hm. unfold head_matches in Hm.
      destruct t; simpl in Hm; try discriminate. reflexivity. }
    subst t. destruct (template_modes s1).
    + rewrite wp_bind. eapply (wp_check_body_end s1); [apply keeps_refl; exact I1|]. intros s2 K2 _. rewrite wp_ret.
      apply DoneFin. split; [exact (keeps_TInv _ _ K2) | reflexivity].
    + eapply wp_mono; [apply HIT; [exact I1 | exact L1 | apply NSof; reflexivity]|]. intros r s' P. split; [exact P | intro X; discriminate].
Qed.

Lemma ib_spec_8 ih it self : ib_cb ih it self -> ib_arm_spec 8 (ib_arm_8 ih it self).
Proof.
  ib_setup.
  assert (Safe : In 8 ib_safe_arms -> exists g, t = KTag g /\ tg_name g <> nm "html" /\
            (ns_html, tg_name g) <> (ns_html, nm "head") /\ (ns_html, tg_name g) <> (ns_html, nm "template")).
  { intro Hk. apply (head_safe (nth 8 heads_in_body [])); [|exact Hm].
    exact (forallb_nth_in (fun k => forallb (atom_names safe_name false) (nth k heads_in_body [])) ib_safe_arms 8 FS Hk). }
  assert (Tag : In 8 ib_tag_arms -> exists g, t = KTag g).
  { intro Hk. apply (head_all_tag (nth 8 heads_in_body [])); [|exact Hm].
    exact (forallb_nth_in (fun k => forallb atom_is_tag (nth k heads_in_body [])) ib_tag_arms 8 FT Hk). }
  assert (Fmt : In 8 [24; 25; 26; 27] -> exists g, t = KTag g /\ is_formatting (tg_name g) = true).
  { intro Hk. apply (head_named_prop is_formatting (nth 8 heads_in_body [])); [|exact Hm].
    exact (forallb_nth_in (fun k => forallb (atom_names is_formatting false) (nth k heads_in_body [])) [24; 25; 26; 27] 8 FF Hk). }
  assert (NotC : In 8 [0; 2; 7] -> is_chars t = false).
  { intro Hk. apply (head_not_chars (nth 8 heads_in_body [])); [|exact Hm].
    exact (forallb_nth_in (fun k => forallb atom_not_chars (nth k heads_in_body [])) [0; 2; 7] 8 FN Hk). }
  destruct Tag as [g ->]; [simpl; tauto|]. eapply wp_mono; [apply ib_8_ok; try assumption; apply NSof; reflexivity | exact DoneFin].
Qed.

Lemma ib_spec_9 ih it self : ib_cb ih it self -> ib_arm_spec 9 (ib_arm_9 ih it self).
Proof.
  ib_setup.
  assert (Safe : In 9 ib_safe_arms -> exists g, t = KTag g /\ tg_name g <> nm "html" /\
            (ns_html, tg_name g) <> (ns_html, nm "head") /\ (ns_html, tg_name g) <> (ns_html, nm "template")).
  { intro Hk. apply (head_safe (nth 9 heads_in_body [])); [|exact Hm].
    exact (forallb_nth_in (fun k => forallb (atom_names safe_name false) (nth k heads_in_body [])) ib_safe_arms 9 FS Hk). }
  assert (Tag : In 9 ib_tag_arms -> exists g, t = KTag g).
  { intro Hk. apply (head_all_tag (nth 9 heads_in_body [])); [|exact Hm].
    exact (forallb_nth_in (fun k => forallb atom_is_tag (nth k heads_in_body [])) ib_tag_arms 9 FT Hk). }
  assert (Fmt : In 9 [24; 25; 26; 27] -> exists g, t = KTag g /\ is_formatting (tg_name g) = true).
  { intro Hk. apply (head_named_prop is_formatting (nth 9 heads_in_body [])); [|exact Hm].
    exact (forallb_nth_in (fun k => forallb (atom_names is_formatting false) (nth k heads_in_body [])) [24; 25; 26; 27] 9 FF Hk). }
  assert (NotC : In 9 [0; 2; 7] -> is_chars t = false).
  { intro Hk. apply (head_not_chars (nth 9 heads_in_body [])); [|exact Hm].
    exact (forallb_nth_in (fun k => forallb atom_not_chars (nth k heads_in_body [])) [0; 2; 7] 9 FN Hk). }
  destruct Tag as [g ->]; [simpl; tauto|]. eapply wp_mono; [apply ib_9_ok; try assumption; [apply NSof; reflexivity | reflexivity]|].
    intros r s' P. split; [exact P | intro X; discriminate].
Qed.

Lemma ib_spec_10 ih it self : ib_cb ih it self -> ib_arm_spec 10 (ib_arm_10 ih it self).
Proof.
  ib_setup.
  assert (Safe : In 10 ib_safe_arms -> exists g, t = KTag g /\ tg_name g <> nm "html" /\
            (ns_html, tg_name g) <> (ns_html, nm "head") /\ (ns_html, tg_name g) <> (ns_html, nm "template")).
  { intro Hk. apply (head_safe (nth 10 heads_in_body [])); [|exact Hm].
    exact (forallb_nth_in (fun k => forallb (atom_names safe_name false) (nth k heads_in_body [])) ib_safe_arms 10 FS Hk). }
  assert (Tag : In 10 ib_tag_arms -> exists g, t = KTag g).
  { intro Hk. apply (head_all_tag (nth 10 heads_in_body [])); [|exact Hm].
    exact (forallb_nth_in (fun k => forallb atom_is_tag (nth k heads_in_body [])) ib_tag_arms 10 FT Hk). }
  assert (Fmt : In 10 [24; 25; 26; 27] -> exists g, t = KTag g /\ is_formatting (tg_name g) = true).
  { intro Hk. apply (head_named_prop is_formatting (nth 10 heads_in_body [])); [|exact Hm].
    exact (forallb_nth_in (fun k => forallb (atom_names is_formatting false) (nth k heads_in_body [])) [24; 25; 26; 27] 10 FF Hk). }
  assert (NotC : In 10 [0; 2; 7] -> is_chars t = false).
  { intro Hk. apply (head_not_chars (nth 10 heads_in_body [])); [|exact Hm].
    exact (forallb_nth_in (fun k => forallb atom_not_chars (nth k heads_in_body [])) [0; 2; 7] 10 FN Hk). }
  safe_arm Safe. unfold ib_arm_10. eapply wp_mono; [apply ib_block_start_ok; assumption | exact DoneFin].
Qed.

Lemma ib_spec_11 ih it self : ib_cb ih it self -> ib_arm_spec 11 (ib_arm_11 ih it self).
Proof.
  ib_setup.
  assert (Safe : In 11 ib_safe_arms -> exists g, t = KTag g /\ tg_name g <> nm "html" /\
            (ns_html, tg_name g) <> (ns_html, nm "head") /\ (ns_html, tg_name g) <> (ns_html, nm "template")).
  { intro Hk. apply (head_safe (nth 11 heads_in_body [])); [|exact Hm].
    exact (forallb_nth_in (fun k => forallb (atom_names safe_name false) (nth k heads_in_body [])) ib_safe_arms 11 FS Hk). }
  assert (Tag : In 11 ib_tag_arms -> exists g, t = KTag g).
  { intro Hk. apply (head_all_tag (nth 11 heads_in_body [])); [|exact Hm].
    exact (forallb_nth_in (fun k => forallb atom_is_tag (nth k heads_in_body [])) ib_tag_arms 11 FT Hk). }
  assert (Fmt : In 11 [24; 25; 26; 27] -> exists g, t = KTag g /\ is_formatting (tg_name g) = true).
  { intro Hk. apply (head_named_prop is_formatting (nth 11 heads_in_body [])); [|exact Hm].
    exact (forallb_nth_in (fun k => forallb (atom_names is_formatting false) (nth k heads_in_body [])) [24; 25; 26; 27] 11 FF Hk). }
  assert (NotC : In 11 [0; 2; 7] -> is_chars t = false).
  { intro Hk. apply (head_not_chars (nth 11 heads_in_body [])); [|exact Hm].
    exact (forallb_nth_in (fun k => forallb atom_not_chars (nth k heads_in_body [])) [0; 2; 7] 11 FN Hk). }
  safe_arm Safe. unfold ib_arm_11. eapply wp_mono; [apply ib_block_start_ok; assumption | exact DoneFin].
Qed.

Lemma ib_spec_12 ih it self : ib_cb ih it self -> ib_arm_spec 12 (ib_arm_12 ih it self).
Proof.
  ib_setup.
  assert (Safe : In 12 ib_safe_arms -> exists g, t = KTag g /\ tg_name g <> nm "html" /\
            (ns_html, tg_name g) <> (ns_html, nm "head") /\ (ns_html, tg_name g) <> (ns_html, nm "template")).
  { intro Hk. apply (head_safe (nth 12 heads_in_body [])); [|exact Hm].
    exact (forallb_nth_in (fun k => forallb (atom_names safe_name false) (nth k heads_in_body [])) ib_safe_arms 12 FS Hk). }
  assert (Tag : In 12 ib_tag_arms -> exists g, t = KTag g).
  { intro Hk. apply (head_all_tag (nth 12 heads_in_body [])); [|exact Hm].
    exact (forallb_nth_in (fun k => forallb atom_is_tag (nth k heads_in_body [])) ib_tag_arms 12 FT Hk). }
  assert (Fmt : In 12 [24; 25; 26; 27] -> exists g, t = KTag g /\ is_formatting (tg_name g) = true).
  { intro Hk. apply (head_named_prop is_formatting (nth 12 heads_in_body [])); [|exact Hm].
    exact (forallb_nth_in (fun k => forallb (atom_names is_formatting false) (nth k heads_in_body [])) [24; 25; 26; 27] 12 FF Hk). }
  assert (NotC : In 12 [0; 2; 7] -> is_chars t = false).
  { intro Hk. apply (head_not_chars (nth 12 heads_in_body [])); [|exact Hm].
    exact (forallb_nth_in (fun k => forallb atom_not_chars (nth k heads_in_body [])) [0; 2; 7] 12 FN Hk). }
  safe_arm Safe. eapply wp_mono; [apply ib_12_ok; assumption | exact DoneFin].
Qed.

Lemma ib_spec_13 ih it self : ib_cb ih it self -> ib_arm_spec 13 (ib_arm_13 ih it self).
Proof.
  ib_setup.
  assert (Safe : In 13 ib_safe_arms -> exists g, t = KTag g /\ tg_name g <> nm "html" /\
            (ns_html, tg_name g) <> (ns_html, nm "head") /\ (ns_html, tg_name g) <> (ns_html, nm "template")).
  { intro Hk. apply (head_safe (nth 13 heads_in_body [])); [|exact Hm].
    exact (forallb_nth_in (fun k => forallb (atom_names safe_name false) (nth k heads_in_body [])) ib_safe_arms 13 FS Hk). }
  assert (Tag : In 13 ib_tag_arms -> exists g, t = KTag g).
  { intro Hk. apply (head_all_tag (nth 13 heads_in_body [])); [|exact Hm].
    exact (forallb_nth_in (fun k => forallb atom_is_tag (nth k heads_in_body [])) ib_tag_arms 13 FT Hk). }
  assert (Fmt : In 13 [24; 25; 26; 27] -> exists g, t = KTag g /\ is_formatting (tg_name g) = true).
  { intro Hk. apply (head_named_prop is_formatting (nth 13 heads_in_body [])); [|exact Hm].
    exact (forallb_nth_in (fun k => forallb (atom_names is_formatting false) (nth k heads_in_body [])) [24; 25; 26; 27] 13 FF Hk). }
  assert (NotC : In 13 [0; 2; 7] -> is_chars t = false).
  { intro Hk. apply (head_not_chars (nth 13 heads_in_body [])); [|exact Hm].
    exact (forallb_nth_in (fun k => forallb atom_not_chars (nth k heads_in_body [])) [0; 2; 7] 13 FN Hk). }
  safe_arm Safe. eapply wp_mono; [apply ib_13_ok; assumption | exact DoneFin].
Qed.

Lemma ib_spec_14 ih it self : ib_cb ih it self -> ib_arm_spec 14 (ib_arm_14 ih it self).
Proof.
  ib_setup.
  assert (Safe : In 14 ib_safe_arms -> exists g, t = KTag g /\ tg_name g <> nm "html" /\
            (ns_html, tg_name g) <> (ns_html, nm "head") /\ (ns_html, tg_name g) <> (ns_html, nm "template")).
  { intro Hk. apply (head_safe (nth 14 heads_in_body [])); [|exact Hm].
    exact (forallb_nth_in (fun k => forallb (atom_names safe_name false) (nth k heads_in_body [])) ib_safe_arms 14 FS Hk). }
  assert (Tag : In 14 ib_tag_arms -> exists g, t = KTag g).
  { intro Hk. apply (head_all_tag (nth 14 heads_in_body [])); [|exact Hm].
    exact (forallb_nth_in (fun k => forallb atom_is_tag (nth k heads_in_body [])) ib_tag_arms 14 FT Hk). }
  assert (Fmt : In 14 [24; 25; 26; 27] -> exists g, t = KTag g /\ is_formatting (tg_name g) = true).
  { intro Hk. apply (head_named_prop is_formatting (nth 14 heads_in_body [])); [|exact Hm].
    exact (forallb_nth_in (fun k => forallb (atom_names is_formatting false) (nth k heads_in_body [])) [24; 25; 26; 27] 14 FF Hk). }
  assert (NotC : In 14 [0; 2; 7] -> is_chars t = false).
  { intro Hk. apply (head_not_chars (nth 14 heads_in_body [])); [|exact Hm].
    exact (forallb_nth_in (fun k => forallb atom_not_chars (nth k heads_in_body [])) [0; 2; 7] 14 FN Hk). }
  destruct (head_named_prop _ _ _ F14 Hm) as (g & -> & Nf). apply is_n_eq in Nf.
    eapply wp_mono; [apply ib_14_ok; assumption | exact DoneFin].
Qed.

Lemma ib_spec_15 ih it self : ib_cb ih it self -> ib_arm_spec 15 (ib_arm_15 ih it self).
Proof.
  ib_setup.
  assert (Safe : In 15 ib_safe_arms -> exists g, t = KTag g /\ tg_name g <> nm "html" /\
            (ns_html, tg_name g) <> (ns_html, nm "head") /\ (ns_html, tg_name g) <> (ns_html, nm "template")).
  { intro Hk. apply (head_safe (nth 15 heads_in_body [])); [|exact Hm].
    exact (forallb_nth_in (fun k => forallb (atom_names safe_name false) (nth k heads_in_body [])) ib_safe_arms 15 FS Hk). }
  assert (Tag : In 15 ib_tag_arms -> exists g, t = KTag g).
  { intro Hk. apply (head_all_tag (nth 15 heads_in_body [])); [|exact Hm].
    exact (forallb_nth_in (fun k => forallb atom_is_tag (nth k heads_in_body [])) ib_tag_arms 15 FT Hk). }
  assert (Fmt : In 15 [24; 25; 26; 27] -> exists g, t = KTag g /\ is_formatting (tg_name g) = true).
  { intro Hk. apply (head_named_prop is_formatting (nth 15 heads_in_body [])); [|exact Hm].
    exact (forallb_nth_in (fun k => forallb (atom_names is_formatting false) (nth k heads_in_body [])) [24; 25; 26; 27] 15 FF Hk). }
  assert (NotC : In 15 [0; 2; 7] -> is_chars t = false).
  { intro Hk. apply (head_not_chars (nth 15 heads_in_body [])); [|exact Hm].
    exact (forallb_nth_in (fun k => forallb atom_not_chars (nth k heads_in_body [])) [0; 2; 7] 15 FN Hk). }
  destruct (head_named_prop _ _ _ F15 Hm) as (g & -> & Nl). unfold li_name in Nl. apply andb_true_iff in Nl. destruct Nl as [Nl Ns].
    destruct (safe_name_props _ Ns) as (N0 & N1 & N2).
    eapply wp_mono; [apply ib_15_ok; assumption | exact DoneFin].
Qed.

Lemma ib_spec_16 ih it self : ib_cb ih it self -> ib_arm_spec 16 (ib_arm_16 ih it self).
Proof.
  ib_setup.
  assert (Safe : In 16 ib_safe_arms -> exists g, t = KTag g /\ tg_name g <> nm "html" /\
            (ns_html, tg_name g) <> (ns_html, nm "head") /\ (ns_html, tg_name g) <> (ns_html, nm "template")).
  { intro Hk. apply (head_safe (nth 16 heads_in_body [])); [|exact Hm].
    exact (forallb_nth_in (fun k => forallb (atom_names safe_name false) (nth k heads_in_body [])) ib_safe_arms 16 FS Hk). }
  assert (Tag : In 16 ib_tag_arms -> exists g, t = KTag g).
  { intro Hk. apply (head_all_tag (nth 16 heads_in_body [])); [|exact Hm].
    exact (forallb_nth_in (fun k => forallb atom_is_tag (nth k heads_in_body [])) ib_tag_arms 16 FT Hk). }
  assert (Fmt : In 16 [24; 25; 26; 27] -> exists g, t = KTag g /\ is_formatting (tg_name g) = true).
  { intro Hk. apply (head_named_prop is_formatting (nth 16 heads_in_body [])); [|exact Hm].
    exact (forallb_nth_in (fun k => forallb (atom_names is_formatting false) (nth k heads_in_body [])) [24; 25; 26; 27] 16 FF Hk). }
  assert (NotC : In 16 [0; 2; 7] -> is_chars t = false).
  { intro Hk. apply (head_not_chars (nth 16 heads_in_body [])); [|exact Hm].
    exact (forallb_nth_in (fun k => forallb atom_not_chars (nth k heads_in_body [])) [0; 2; 7] 16 FN Hk). }
  safe_arm Safe. eapply wp_mono; [apply ib_16_ok; assumption | apply TagFin; reflexivity].
Qed.

Lemma ib_spec_17 ih it self : ib_cb ih it self -> ib_arm_spec 17 (ib_arm_17 ih it self).
Proof.
  ib_setup.
  assert (Safe : In 17 ib_safe_arms -> exists g, t = KTag g /\ tg_name g <> nm "html" /\
            (ns_html, tg_name g) <> (ns_html, nm "head") /\ (ns_html, tg_name g) <> (ns_html, nm "template")).
  { intro Hk. apply (head_safe (nth 17 heads_in_body [])); [|exact Hm].
    exact (forallb_nth_in (fun k => forallb (atom_names safe_name false) (nth k heads_in_body [])) ib_safe_arms 17 FS Hk). }
  assert (Tag : In 17 ib_tag_arms -> exists g, t = KTag g).
  { intro Hk. apply (head_all_tag (nth 17 heads_in_body [])); [|exact Hm].
    exact (forallb_nth_in (fun k => forallb atom_is_tag (nth k heads_in_body [])) ib_tag_arms 17 FT Hk). }
  assert (Fmt : In 17 [24; 25; 26; 27] -> exists g, t = KTag g /\ is_formatting (tg_name g) = true).
  { intro Hk. apply (head_named_prop is_formatting (nth 17 heads_in_body [])); [|exact Hm].
    exact (forallb_nth_in (fun k => forallb (atom_names is_formatting false) (nth k heads_in_body [])) [24; 25; 26; 27] 17 FF Hk). }
  assert (NotC : In 17 [0; 2; 7] -> is_chars t = false).
  { intro Hk. apply (head_not_chars (nth 17 heads_in_body [])); [|exact Hm].
    exact (forallb_nth_in (fun k => forallb atom_not_chars (nth k heads_in_body [])) [0; 2; 7] 17 FN Hk). }
  safe_arm Safe. eapply wp_mono; [apply ib_17_ok; assumption | exact DoneFin].
Qed.

Lemma ib_spec_18 ih it self : ib_cb ih it self -> ib_arm_spec 18 (ib_arm_18 ih it self).
Proof.
  ib_setup.
  assert (Safe : In 18 ib_safe_arms -> exists g, t = KTag g /\ tg_name g <> nm "html" /\
            (ns_html, tg_name g) <> (ns_html, nm "head") /\ (ns_html, tg_name g) <> (ns_html, nm "template")).
  { intro Hk. apply (head_safe (nth 18 heads_in_body [])); [|exact Hm].
    exact (forallb_nth_in (fun k => forallb (atom_names safe_name false) (nth k heads_in_body [])) ib_safe_arms 18 FS Hk). }
  assert (Tag : In 18 ib_tag_arms -> exists g, t = KTag g).
  { intro Hk. apply (head_all_tag (nth 18 heads_in_body [])); [|exact Hm].
    exact (forallb_nth_in (fun k => forallb atom_is_tag (nth k heads_in_body [])) ib_tag_arms 18 FT Hk). }
  assert (Fmt : In 18 [24; 25; 26; 27] -> exists g, t = KTag g /\ is_formatting (tg_name g) = true).
  { intro Hk. apply (head_named_prop is_formatting (nth 18 heads_in_body [])); [|exact Hm].
    exact (forallb_nth_in (fun k => forallb (atom_names is_formatting false) (nth k heads_in_body [])) [24; 25; 26; 27] 18 FF Hk). }
  assert (NotC : In 18 [0; 2; 7] -> is_chars t = false).
  { intro Hk. apply (head_not_chars (nth 18 heads_in_body [])); [|exact Hm].
    exact (forallb_nth_in (fun k => forallb atom_not_chars (nth k heads_in_body [])) [0; 2; 7] 18 FN Hk). }
  destruct (head_named_prop _ _ _ F18 Hm) as (g & -> & Nb). destruct (end_block_name_props _ Nb) as [N0 Nc].
    unfold ib_arm_18. eapply wp_mono; [apply ib_end_block_ok; assumption | exact DoneFin].
Qed.

Lemma ib_spec_19 ih it self : ib_cb ih it self -> ib_arm_spec 19 (ib_arm_19 ih it self).
Proof.
  ib_setup.
  assert (Safe : In 19 ib_safe_arms -> exists g, t = KTag g /\ tg_name g <> nm "html" /\
            (ns_html, tg_name g) <> (ns_html, nm "head") /\ (ns_html, tg_name g) <> (ns_html, nm "template")).
  { intro Hk. apply (head_safe (nth 19 heads_in_body [])); [|exact Hm].
    exact (forallb_nth_in (fun k => forallb (atom_names safe_name false) (nth k heads_in_body [])) ib_safe_arms 19 FS Hk). }
  assert (Tag : In 19 ib_tag_arms -> exists g, t = KTag g).
  { intro Hk. apply (head_all_tag (nth 19 heads_in_body [])); [|exact Hm].
    exact (forallb_nth_in (fun k => forallb atom_is_tag (nth k heads_in_body [])) ib_tag_arms 19 FT Hk). }
  assert (Fmt : In 19 [24; 25; 26; 27] -> exists g, t = KTag g /\ is_formatting (tg_name g) = true).
  { intro Hk. apply (head_named_prop is_formatting (nth 19 heads_in_body [])); [|exact Hm].
    exact (forallb_nth_in (fun k => forallb (atom_names is_formatting false) (nth k heads_in_body [])) [24; 25; 26; 27] 19 FF Hk). }
  assert (NotC : In 19 [0; 2; 7] -> is_chars t = false).
  { intro Hk. apply (head_not_chars (nth 19 heads_in_body [])); [|exact Hm].
    exact (forallb_nth_in (fun k => forallb atom_not_chars (nth k heads_in_body [])) [0; 2; 7] 19 FN Hk). }
  unfold ib_arm_19. eapply wp_mono; [apply ib_form_end_ok; assumption | exact DoneFin].
Qed.

Lemma ib_spec_20 ih it self : ib_cb ih it self -> ib_arm_spec 20 (ib_arm_20 ih it self).
Proof.
  ib_setup.
  assert (Safe : In 20 ib_safe_arms -> exists g, t = KTag g /\ tg_name g <> nm "html" /\
            (ns_html, tg_name g) <> (ns_html, nm "head") /\ (ns_html, tg_name g) <> (ns_html, nm "template")).
  { intro Hk. apply (head_safe (nth 20 heads_in_body [])); [|exact Hm].
    exact (forallb_nth_in (fun k => forallb (atom_names safe_name false) (nth k heads_in_body [])) ib_safe_arms 20 FS Hk). }
  assert (Tag : In 20 ib_tag_arms -> exists g, t = KTag g).
  { intro Hk. apply (head_all_tag (nth 20 heads_in_body [])); [|exact Hm].
    exact (forallb_nth_in (fun k => forallb atom_is_tag (nth k heads_in_body [])) ib_tag_arms 20 FT Hk). }
  assert (Fmt : In 20 [24; 25; 26; 27] -> exists g, t = KTag g /\ is_formatting (tg_name g) = true).
  { intro Hk. apply (head_named_prop is_formatting (nth 20 heads_in_body [])); [|exact Hm].
    exact (forallb_nth_in (fun k => forallb (atom_names is_formatting false) (nth k heads_in_body [])) [24; 25; 26; 27] 20 FF Hk). }
  assert (NotC : In 20 [0; 2; 7] -> is_chars t = false).
  { intro Hk. apply (head_not_chars (nth 20 heads_in_body [])); [|exact Hm].
    exact (forallb_nth_in (fun k => forallb atom_not_chars (nth k heads_in_body [])) [0; 2; 7] 20 FN Hk). }
  safe_arm Safe. eapply wp_mono; [apply ib_20_ok; assumption | exact DoneFin].
Qed.

Lemma ib_spec_21 ih it self : ib_cb ih it self -> ib_arm_spec 21 (ib_arm_21 ih it self).
Proof.
  ib_setup.
  assert (Safe : In 21 ib_safe_arms -> exists g, t = KTag g /\ tg_name g <> nm "html" /\
            (ns_html, tg_name g) <> (ns_html, nm "head") /\ (ns_html, tg_name g) <> (ns_html, nm "template")).
  { intro Hk. apply (head_safe (nth 21 heads_in_body [])); [|exact Hm].
    exact (forallb_nth_in (fun k => forallb (atom_names safe_name false) (nth k heads_in_body [])) ib_safe_arms 21 FS Hk). }
  assert (Tag : In 21 ib_tag_arms -> exists g, t = KTag g).
  { intro Hk. apply (head_all_tag (nth 21 heads_in_body [])); [|exact Hm].
    exact (forallb_nth_in (fun k => forallb atom_is_tag (nth k heads_in_body [])) ib_tag_arms 21 FT Hk). }
  assert (Fmt : In 21 [24; 25; 26; 27] -> exists g, t = KTag g /\ is_formatting (tg_name g) = true).
  { intro Hk. apply (head_named_prop is_formatting (nth 21 heads_in_body [])); [|exact Hm].
    exact (forallb_nth_in (fun k => forallb (atom_names is_formatting false) (nth k heads_in_body [])) [24; 25; 26; 27] 21 FF Hk). }
  assert (NotC : In 21 [0; 2; 7] -> is_chars t = false).
  { intro Hk. apply (head_not_chars (nth 21 heads_in_body [])); [|exact Hm].
    exact (forallb_nth_in (fun k => forallb atom_not_chars (nth k heads_in_body [])) [0; 2; 7] 21 FN Hk). }
  eapply wp_mono; [apply ib_21_ok; assumption | exact DoneFin].
Qed.

Lemma ib_spec_22 ih it self : ib_cb ih it self -> ib_arm_spec 22 (ib_arm_22 ih it self).
Proof.
  ib_setup.
  assert (Safe : In 22 ib_safe_arms -> exists g, t = KTag g /\ tg_name g <> nm "html" /\
            (ns_html, tg_name g) <> (ns_html, nm "head") /\ (ns_html, tg_name g) <> (ns_html, nm "template")).
  { intro Hk. apply (head_safe (nth 22 heads_in_body [])); [|exact Hm].
    exact (forallb_nth_in (fun k => forallb (atom_names safe_name false) (nth k heads_in_body [])) ib_safe_arms 22 FS Hk). }
  assert (Tag : In 22 ib_tag_arms -> exists g, t = KTag g).
  { intro Hk. apply (head_all_tag (nth 22 heads_in_body [])); [|exact Hm].
    exact (forallb_nth_in (fun k => forallb atom_is_tag (nth k heads_in_body [])) ib_tag_arms 22 FT Hk). }
  assert (Fmt : In 22 [24; 25; 26; 27] -> exists g, t = KTag g /\ is_formatting (tg_name g) = true).
  { intro Hk. apply (head_named_prop is_formatting (nth 22 heads_in_body [])); [|exact Hm].
    exact (forallb_nth_in (fun k => forallb (atom_names is_formatting false) (nth k heads_in_body [])) [24; 25; 26; 27] 22 FF Hk). }
  assert (NotC : In 22 [0; 2; 7] -> is_chars t = false).
  { intro Hk. apply (head_not_chars (nth 22 heads_in_body [])); [|exact Hm].
    exact (forallb_nth_in (fun k => forallb atom_not_chars (nth k heads_in_body [])) [0; 2; 7] 22 FN Hk). }
  safe_arm Safe. eapply wp_mono; [apply ib_22_ok; assumption | exact DoneFin].
Qed.

Lemma ib_spec_23 ih it self : ib_cb ih it self -> ib_arm_spec 23 (ib_arm_23 ih it self).
Proof.
  ib_setup.
  assert (Safe : In 23 ib_safe_arms -> exists g, t = KTag g /\ tg_name g <> nm "html" /\
            (ns_html, tg_name g) <> (ns_html, nm "head") /\ (ns_html, tg_name g) <> (ns_html, nm "template")).
  { intro Hk. apply (head_safe (nth 23 heads_in_body [])); [|exact Hm].
    exact (forallb_nth_in (fun k => forallb (atom_names safe_name false) (nth k heads_in_body [])) ib_safe_arms 23 FS Hk). }
  assert (Tag : In 23 ib_tag_arms -> exists g, t = KTag g).
  { intro Hk. apply (head_all_tag (nth 23 heads_in_body [])); [|exact Hm].
    exact (forallb_nth_in (fun k => forallb atom_is_tag (nth k heads_in_body [])) ib_tag_arms 23 FT Hk). }
  assert (Fmt : In 23 [24; 25; 26; 27] -> exists g, t = KTag g /\ is_formatting (tg_name g) = true).
  { intro Hk. apply (head_named_prop is_formatting (nth 23 heads_in_body [])); [|exact Hm].
    exact (forallb_nth_in (fun k => forallb (atom_names is_formatting false) (nth k heads_in_body [])) [24; 25; 26; 27] 23 FF Hk). }
  assert (NotC : In 23 [0; 2; 7] -> is_chars t = false).
  { intro Hk. apply (head_not_chars (nth 23 heads_in_body [])); [|exact Hm].
    exact (forallb_nth_in (fun k => forallb atom_not_chars (nth k heads_in_body [])) [0; 2; 7] 23 FN Hk). }
  eapply wp_mono; [apply ib_23_ok; assumption | exact DoneFin].
Qed.

Lemma ib_spec_24 ih it self : ib_cb ih it self -> ib_arm_spec 24 (ib_arm_24 ih it self).
Proof.
  ib_setup.
  assert (Safe : In 24 ib_safe_arms -> exists g, t = KTag g /\ tg_name g <> nm "html" /\
            (ns_html, tg_name g) <> (ns_html, nm "head") /\ (ns_html, tg_name g) <> (ns_html, nm "template")).
  { intro Hk. apply (head_safe (nth 24 heads_in_body [])); [|exact Hm].
    exact (forallb_nth_in (fun k => forallb (atom_names safe_name false) (nth k heads_in_body [])) ib_safe_arms 24 FS Hk). }
  assert (Tag : In 24 ib_tag_arms -> exists g, t = KTag g).
  { intro Hk. apply (head_all_tag (nth 24 heads_in_body [])); [|exact Hm].
    exact (forallb_nth_in (fun k => forallb atom_is_tag (nth k heads_in_body [])) ib_tag_arms 24 FT Hk). }
  assert (Fmt : In 24 [24; 25; 26; 27] -> exists g, t = KTag g /\ is_formatting (tg_name g) = true).
  { intro Hk. apply (head_named_prop is_formatting (nth 24 heads_in_body [])); [|exact Hm].
    exact (forallb_nth_in (fun k => forallb (atom_names is_formatting false) (nth k heads_in_body [])) [24; 25; 26; 27] 24 FF Hk). }
  assert (NotC : In 24 [0; 2; 7] -> is_chars t = false).
  { intro Hk. apply (head_not_chars (nth 24 heads_in_body [])); [|exact Hm].
    exact (forallb_nth_in (fun k => forallb atom_not_chars (nth k heads_in_body [])) [0; 2; 7] 24 FN Hk). }
  destruct Fmt as (g & -> & Fg); [simpl; tauto|]. eapply wp_mono; [apply ib_24_ok; assumption | exact DoneFin].
Qed.

Lemma ib_spec_25 ih it self : ib_cb ih it self -> ib_arm_spec 25 (ib_arm_25 ih it self).
Proof.
  ib_setup.
  assert (Safe : In 25 ib_safe_arms -> exists g, t = KTag g /\ tg_name g <> nm "html" /\
            (ns_html, tg_name g) <> (ns_html, nm "head") /\ (ns_html, tg_name g) <> (ns_html, nm "template")).
  { intro Hk. apply (head_safe (nth 25 heads_in_body [])); [|exact Hm].
    exact (forallb_nth_in (fun k => forallb (atom_names safe_name false) (nth k heads_in_body [])) ib_safe_arms 25 FS Hk). }
  assert (Tag : In 25 ib_tag_arms -> exists g, t = KTag g).
  { intro Hk. apply (head_all_tag (nth 25 heads_in_body [])); [|exact Hm].
    exact (forallb_nth_in (fun k => forallb atom_is_tag (nth k heads_in_body [])) ib_tag_arms 25 FT Hk). }
  assert (Fmt : In 25 [24; 25; 26; 27] -> exists g, t = KTag g /\ is_formatting (tg_name g) = true).
  { intro Hk. apply (head_named_prop is_formatting (nth 25 heads_in_body [])); [|exact Hm].
    exact (forallb_nth_in (fun k => forallb (atom_names is_formatting false) (nth k heads_in_body [])) [24; 25; 26; 27] 25 FF Hk). }
  assert (NotC : In 25 [0; 2; 7] -> is_chars t = false).
  { intro Hk. apply (head_not_chars (nth 25 heads_in_body [])); [|exact Hm].
    exact (forallb_nth_in (fun k => forallb atom_not_chars (nth k heads_in_body [])) [0; 2; 7] 25 FN Hk). }
  destruct Fmt as (g & -> & Fg); [simpl; tauto|]. eapply wp_mono; [apply ib_25_ok; assumption | exact DoneFin].
Qed.

Lemma ib_spec_26 ih it self : ib_cb ih it self -> ib_arm_spec 26 (ib_arm_26 ih it self).
Proof.
  ib_setup.
  assert (Safe : In 26 ib_safe_arms -> exists g, t = KTag g /\ tg_name g <> nm "html" /\
            (ns_html, tg_name g) <> (ns_html, nm "head") /\ (ns_html, tg_name g) <> (ns_html, nm "template")).
  { intro Hk. apply (head_safe (nth 26 heads_in_body [])); [|exact Hm].
    exact (forallb_nth_in (fun k => forallb (atom_names safe_name false) (nth k heads_in_body [])) ib_safe_arms 26 FS Hk). }
  assert (Tag : In 26 ib_tag_arms -> exists g, t = KTag g).
  { intro Hk. apply (head_all_tag (nth 26 heads_in_body [])); [|exact Hm].
    exact (forallb_nth_in (fun k => forallb atom_is_tag (nth k heads_in_body [])) ib_tag_arms 26 FT Hk). }
  assert (Fmt : In 26 [24; 25; 26; 27] -> exists g, t = KTag g /\ is_formatting (tg_name g) = true).
  { intro Hk. apply (head_named_prop is_formatting (nth 26 heads_in_body [])); [|exact Hm].
    exact (forallb_nth_in (fun k => forallb (atom_names is_formatting false) (nth k heads_in_body [])) [24; 25; 26; 27] 26 FF Hk). }
  assert (NotC : In 26 [0; 2; 7] -> is_chars t = false).
  { intro Hk. apply (head_not_chars (nth 26 heads_in_body [])); [|exact Hm].
    exact (forallb_nth_in (fun k => forallb atom_not_chars (nth k heads_in_body [])) [0; 2; 7] 26 FN Hk). }
  destruct Fmt as (g & -> & Fg); [simpl; tauto|]. eapply wp_mono; [apply ib_26_ok; assumption | exact DoneFin].
Qed.

Lemma ib_spec_27 ih it self : ib_cb ih it self -> ib_arm_spec 27 (ib_arm_27 ih it self).
Proof.
  ib_setup.
  assert (Safe : In 27 ib_safe_arms -> exists g, t = KTag g /\ tg_name g <> nm "html" /\
            (ns_html, tg_name g) <> (ns_html, nm "head") /\ (ns_html, tg_name g) <> (ns_html, nm "template")).
  { intro Hk. apply (head_safe (nth 27 heads_in_body [])); [|exact Hm].
    exact (forallb_nth_in (fun k => forallb (atom_names safe_name false) (nth k heads_in_body [])) ib_safe_arms 27 FS Hk). }
  assert (Tag : In 27 ib_tag_arms -> exists g, t = KTag g).
  { intro Hk. apply (head_all_tag (nth 27 heads_in_body [])); [|exact Hm].
    exact (forallb_nth_in (fun k => forallb atom_is_tag (nth k heads_in_body [])) ib_tag_arms 27 FT Hk). }
  assert (Fmt : In 27 [24; 25; 26; 27] -> exists g, t = KTag g /\ is_formatting (tg_name g) = true).
  { intro Hk. apply (head_named_prop is_formatting (nth 27 heads_in_body [])); [|exact Hm].
    exact (forallb_nth_in (fun k => forallb (atom_names is_formatting false) (nth k heads_in_body [])) [24; 25; 26; 27] 27 FF Hk). }
  assert (NotC : In 27 [0; 2; 7] -> is_chars t = false).
  { intro Hk. apply (head_not_chars (nth 27 heads_in_body [])); [|exact Hm].
    exact (forallb_nth_in (fun k => forallb atom_not_chars (nth k heads_in_body [])) [0; 2; 7] 27 FN Hk). }
  destruct Fmt as (g & -> & Fg); [simpl; tauto|]. eapply wp_mono; [apply ib_27_ok; assumption | exact DoneFin].
Qed.

Lemma ib_spec_28 ih it self : ib_cb ih it self -> ib_arm_spec 28 (ib_arm_28 ih it self).
Proof.
  ib_setup.
  assert (Safe : In 28 ib_safe_arms -> exists g, t = KTag g /\ tg_name g <> nm "html" /\
            (ns_html, tg_name g) <> (ns_html, nm "head") /\ (ns_html, tg_name g) <> (ns_html, nm "template")).
  { intro Hk. apply (head_safe (nth 28 heads_in_body [])); [|exact Hm].
    exact (forallb_nth_in (fun k => forallb (atom_names safe_name false) (nth k heads_in_body [])) ib_safe_arms 28 FS Hk). }
  assert (Tag : In 28 ib_tag_arms -> exists g, t = KTag g).
  { intro Hk. apply (head_all_tag (nth 28 heads_in_body [])); [|exact Hm].
    exact (forallb_nth_in (fun k => forallb atom_is_tag (nth k heads_in_body [])) ib_tag_arms 28 FT Hk). }
  assert (Fmt : In 28 [24; 25; 26; 27] -> exists g, t = KTag g /\ is_formatting (tg_name g) = true).
  { intro Hk. apply (head_named_prop is_formatting (nth 28 heads_in_body [])); [|exact Hm].
    exact (forallb_nth_in (fun k => forallb (atom_names is_formatting false) (nth k heads_in_body [])) [24; 25; 26; 27] 28 FF Hk). }
  assert (NotC : In 28 [0; 2; 7] -> is_chars t = false).
  { intro Hk. apply (head_not_chars (nth 28 heads_in_body [])); [|exact Hm].
    exact (forallb_nth_in (fun k => forallb atom_not_chars (nth k heads_in_body [])) [0; 2; 7] 28 FN Hk). }
  safe_arm Safe. eapply wp_mono; [apply ib_28_ok; assumption | exact DoneFin].
Qed.

Lemma ib_spec_29 ih it self : ib_cb ih it self -> ib_arm_spec 29 (ib_arm_29 ih it self).
Proof.
  ib_setup.
  assert (Safe : In 29 ib_safe_arms -> exists g, t = KTag g /\ tg_name g <> nm "html" /\
            (ns_html, tg_name g) <> (ns_html, nm "head") /\ (ns_html, tg_name g) <> (ns_html, nm "template")).
  { intro Hk. apply (head_safe (nth 29 heads_in_body [])); [|exact Hm].
    exact (forallb_nth_in (fun k => forallb (atom_names safe_name false) (nth k heads_in_body [])) ib_safe_arms 29 FS Hk). }
  assert (Tag : In 29 ib_tag_arms -> exists g, t = KTag g).
  { intro Hk. apply (head_all_tag (nth 29 heads_in_body [])); [|exact Hm].
    exact (forallb_nth_in (fun k => forallb atom_is_tag (nth k heads_in_body [])) ib_tag_arms 29 FT Hk). }
  assert (Fmt : In 29 [24; 25; 26; 27] -> exists g, t = KTag g /\ is_formatting (tg_name g) = true).
  { intro Hk. apply (head_named_prop is_formatting (nth 29 heads_in_body [])); [|exact Hm].
    exact (forallb_nth_in (fun k => forallb (atom_names is_formatting false) (nth k heads_in_body [])) [24; 25; 26; 27] 29 FF Hk). }
  assert (NotC : In 29 [0; 2; 7] -> is_chars t = false).
  { intro Hk. apply (head_not_chars (nth 29 heads_in_body [])); [|exact Hm].
    exact (forallb_nth_in (fun k => forallb atom_not_chars (nth k heads_in_body [])) [0; 2; 7] 29 FN Hk). }
  destruct (head_named_prop _ _ _ F29 Hm) as (g & -> & Nb). destruct (end_block_name_props _ Nb) as [N0 Nc].
    eapply wp_mono; [apply ib_29_ok; assumption | exact DoneFin].
Qed.

Lemma ib_spec_30 ih it self : ib_cb ih it self -> ib_arm_spec 30 (ib_arm_30 ih it self).
Proof.
  ib_setup.
  assert (Safe : In 30 ib_safe_arms -> exists g, t = KTag g /\ tg_name g <> nm "html" /\
            (ns_html, tg_name g) <> (ns_html, nm "head") /\ (ns_html, tg_name g) <> (ns_html, nm "template")).
  { intro Hk. apply (head_safe (nth 30 heads_in_body [])); [|exact Hm].
    exact (forallb_nth_in (fun k => forallb (atom_names safe_name false) (nth k heads_in_body [])) ib_safe_arms 30 FS Hk). }
  assert (Tag : In 30 ib_tag_arms -> exists g, t = KTag g).
  { intro Hk. apply (head_all_tag (nth 30 heads_in_body [])); [|exact Hm].
    exact (forallb_nth_in (fun k => forallb atom_is_tag (nth k heads_in_body [])) ib_tag_arms 30 FT Hk). }
  assert (Fmt : In 30 [24; 25; 26; 27] -> exists g, t = KTag g /\ is_formatting (tg_name g) = true).
  { intro Hk. apply (head_named_prop is_formatting (nth 30 heads_in_body [])); [|exact Hm].
    exact (forallb_nth_in (fun k => forallb (atom_names is_formatting false) (nth k heads_in_body [])) [24; 25; 26; 27] 30 FF Hk). }
  assert (NotC : In 30 [0; 2; 7] -> is_chars t = false).
  { intro Hk. apply (head_not_chars (nth 30 heads_in_body [])); [|exact Hm].
    exact (forallb_nth_in (fun k => forallb atom_not_chars (nth k heads_in_body [])) [0; 2; 7] 30 FN Hk). }
  safe_arm Safe. eapply wp_mono; [apply ib_30_ok; try assumption; apply NSof; reflexivity | exact DoneFin].
Qed.

Lemma ib_spec_31 ih it self : ib_cb ih it self -> ib_arm_spec 31 (ib_arm_31 ih it self).
Proof.
  ib_setup.
  assert (Safe : In 31 ib_safe_arms -> exists g, t = KTag g /\ tg_name g <> nm "html" /\
            (ns_html, tg_name g) <> (ns_html, nm "head") /\ (ns_html, tg_name g) <> (ns_html, nm "template")).
  { intro Hk. apply (head_safe (nth 31 heads_in_body [])); [|exact Hm].
    exact (forallb_nth_in (fun k => forallb (atom_names safe_name false) (nth k heads_in_body [])) ib_safe_arms 31 FS Hk). }
  assert (Tag : In 31 ib_tag_arms -> exists g, t = KTag g).
  { intro Hk. apply (head_all_tag (nth 31 heads_in_body [])); [|exact Hm].
    exact (forallb_nth_in (fun k => forallb atom_is_tag (nth k heads_in_body [])) ib_tag_arms 31 FT Hk). }
  assert (Fmt : In 31 [24; 25; 26; 27] -> exists g, t = KTag g /\ is_formatting (tg_name g) = true).
  { intro Hk. apply (head_named_prop is_formatting (nth 31 heads_in_body [])); [|exact Hm].
    exact (forallb_nth_in (fun k => forallb (atom_names is_formatting false) (nth k heads_in_body [])) [24; 25; 26; 27] 31 FF Hk). }
  assert (NotC : In 31 [0; 2; 7] -> is_chars t = false).
  { intro Hk. apply (head_not_chars (nth 31 heads_in_body [])); [|exact Hm].
    exact (forallb_nth_in (fun k => forallb atom_not_chars (nth k heads_in_body [])) [0; 2; 7] 31 FN Hk). }
  destruct (head_named_prop _ _ _ F31 Hm) as (g & -> & Nbr). apply is_n_eq in Nbr.
    unfold ib_arm_31. rewrite wp_bind, wp_parse_error. cbn [tk_tag].
    eapply wp_mono; [apply HSelf; [eapply TInv_core_eq; [(apply core_eq_set_out; reflexivity) | exact I1] | exact L1 | apply NSof; reflexivity | constructor | reflexivity | left; exact Nbr]|].
    intros r s' P. apply TagFin; [reflexivity | exact P].
Qed.

Lemma ib_spec_32 ih it self : ib_cb ih it self -> ib_arm_spec 32 (ib_arm_32 ih it self).
Proof.
  ib_setup.
  assert (Safe : In 32 ib_safe_arms -> exists g, t = KTag g /\ tg_name g <> nm "html" /\
            (ns_html, tg_name g) <> (ns_html, nm "head") /\ (ns_html, tg_name g) <> (ns_html, nm "template")).
  { intro Hk. apply (head_safe (nth 32 heads_in_body [])); [|exact Hm].
    exact (forallb_nth_in (fun k => forallb (atom_names safe_name false) (nth k heads_in_body [])) ib_safe_arms 32 FS Hk). }
  assert (Tag : In 32 ib_tag_arms -> exists g, t = KTag g).
  { intro Hk. apply (head_all_tag (nth 32 heads_in_body [])); [|exact Hm].
    exact (forallb_nth_in (fun k => forallb atom_is_tag (nth k heads_in_body [])) ib_tag_arms 32 FT Hk). }
  assert (Fmt : In 32 [24; 25; 26; 27] -> exists g, t = KTag g /\ is_formatting (tg_name g) = true).
  { intro Hk. apply (head_named_prop is_formatting (nth 32 heads_in_body [])); [|exact Hm].
    exact (forallb_nth_in (fun k => forallb (atom_names is_formatting false) (nth k heads_in_body [])) [24; 25; 26; 27] 32 FF Hk). }
  assert (NotC : In 32 [0; 2; 7] -> is_chars t = false).
  { intro Hk. apply (head_not_chars (nth 32 heads_in_body [])); [|exact Hm].
    exact (forallb_nth_in (fun k => forallb atom_not_chars (nth k heads_in_body [])) [0; 2; 7] 32 FN Hk). }
  safe_arm Safe. unfold ib_arm_32. eapply wp_mono; [apply ib_void_ok; assumption | apply TagFin; reflexivity].
Qed.

Lemma ib_spec_33 ih it self : ib_cb ih it self -> ib_arm_spec 33 (ib_arm_33 ih it self).
Proof.
  ib_setup.
  assert (Safe : In 33 ib_safe_arms -> exists g, t = KTag g /\ tg_name g <> nm "html" /\
            (ns_html, tg_name g) <> (ns_html, nm "head") /\ (ns_html, tg_name g) <> (ns_html, nm "template")).
  { intro Hk. apply (head_safe (nth 33 heads_in_body [])); [|exact Hm].
    exact (forallb_nth_in (fun k => forallb (atom_names safe_name false) (nth k heads_in_body [])) ib_safe_arms 33 FS Hk). }
  assert (Tag : In 33 ib_tag_arms -> exists g, t = KTag g).
  { intro Hk. apply (head_all_tag (nth 33 heads_in_body [])); [|exact Hm].
    exact (forallb_nth_in (fun k => forallb atom_is_tag (nth k heads_in_body [])) ib_tag_arms 33 FT Hk). }
  assert (Fmt : In 33 [24; 25; 26; 27] -> exists g, t = KTag g /\ is_formatting (tg_name g) = true).
  { intro Hk. apply (head_named_prop is_formatting (nth 33 heads_in_body [])); [|exact Hm].
    exact (forallb_nth_in (fun k => forallb (atom_names is_formatting false) (nth k heads_in_body [])) [24; 25; 26; 27] 33 FF Hk). }
  assert (NotC : In 33 [0; 2; 7] -> is_chars t = false).
  { intro Hk. apply (head_not_chars (nth 33 heads_in_body [])); [|exact Hm].
    exact (forallb_nth_in (fun k => forallb atom_not_chars (nth k heads_in_body [])) [0; 2; 7] 33 FN Hk). }
  safe_arm Safe. eapply wp_mono; [apply ib_33_ok; assumption | apply TagFin; reflexivity].
Qed.

Lemma ib_spec_34 ih it self : ib_cb ih it self -> ib_arm_spec 34 (ib_arm_34 ih it self).
Proof.
  ib_setup.
  assert (Safe : In 34 ib_safe_arms -> exists g, t = KTag g /\ tg_name g <> nm "html" /\
            (ns_html, tg_name g) <> (ns_html, nm "head") /\ (ns_html, tg_name g) <> (ns_html, nm "template")).
  { intro Hk. apply (head_safe (nth 34 heads_in_body [])); [|exact Hm].
    exact (forallb_nth_in (fun k => forallb (atom_names safe_name false) (nth k heads_in_body [])) ib_safe_arms 34 FS Hk). }
  assert (Tag : In 34 ib_tag_arms -> exists g, t = KTag g).
  { intro Hk. apply (head_all_tag (nth 34 heads_in_body [])); [|exact Hm].
    exact (forallb_nth_in (fun k => forallb atom_is_tag (nth k heads_in_body [])) ib_tag_arms 34 FT Hk). }
  assert (Fmt : In 34 [24; 25; 26; 27] -> exists g, t = KTag g /\ is_formatting (tg_name g) = true).
  { intro Hk. apply (head_named_prop is_formatting (nth 34 heads_in_body [])); [|exact Hm].
    exact (forallb_nth_in (fun k => forallb (atom_names is_formatting false) (nth k heads_in_body [])) [24; 25; 26; 27] 34 FF Hk). }
  assert (NotC : In 34 [0; 2; 7] -> is_chars t = false).
  { intro Hk. apply (head_not_chars (nth 34 heads_in_body [])); [|exact Hm].
    exact (forallb_nth_in (fun k => forallb atom_not_chars (nth k heads_in_body [])) [0; 2; 7] 34 FN Hk). }
  safe_arm Safe. eapply wp_mono; [apply ib_34_ok; assumption | apply TagFin; reflexivity].
Qed.

Lemma ib_spec_35 ih it self : ib_cb ih it self -> ib_arm_spec 35 (ib_arm_35 ih it self).
Proof.
  ib_setup.
  assert (Safe : In 35 ib_safe_arms -> exists g, t = KTag g /\ tg_name g <> nm "html" /\
            (ns_html, tg_name g) <> (ns_html, nm "head") /\ (ns_html, tg_name g) <> (ns_html, nm "template")).
  { intro Hk. apply (head_safe (nth 35 heads_in_body [])); [|exact Hm].
    exact (forallb_nth_in (fun k => forallb (atom_names safe_name false) (nth k heads_in_body [])) ib_safe_arms 35 FS Hk). }
  assert (Tag : In 35 ib_tag_arms -> exists g, t = KTag g).
  { intro Hk. apply (head_all_tag (nth 35 heads_in_body [])); [|exact Hm].
    exact (forallb_nth_in (fun k => forallb atom_is_tag (nth k heads_in_body [])) ib_tag_arms 35 FT Hk). }
  assert (Fmt : In 35 [24; 25; 26; 27] -> exists g, t = KTag g /\ is_formatting (tg_name g) = true).
  { intro Hk. apply (head_named_prop is_formatting (nth 35 heads_in_body [])); [|exact Hm].
    exact (forallb_nth_in (fun k => forallb (atom_names is_formatting false) (nth k heads_in_body [])) [24; 25; 26; 27] 35 FF Hk). }
  assert (NotC : In 35 [0; 2; 7] -> is_chars t = false).
  { intro Hk. apply (head_not_chars (nth 35 heads_in_body [])); [|exact Hm].
    exact (forallb_nth_in (fun k => forallb atom_not_chars (nth k heads_in_body [])) [0; 2; 7] 35 FN Hk). }
  safe_arm Safe. eapply wp_mono; [apply ib_35_ok; assumption | apply TagFin; reflexivity].
Qed.

Lemma ib_spec_36 ih it self : ib_cb ih it self -> ib_arm_spec 36 (ib_arm_36 ih it self).
Proof.
  ib_setup.
  assert (Safe : In 36 ib_safe_arms -> exists g, t = KTag g /\ tg_name g <> nm "html" /\
            (ns_html, tg_name g) <> (ns_html, nm "head") /\ (ns_html, tg_name g) <> (ns_html, nm "template")).
  { intro Hk. apply (head_safe (nth 36 heads_in_body [])); [|exact Hm].
    exact (forallb_nth_in (fun k => forallb (atom_names safe_name false) (nth k heads_in_body [])) ib_safe_arms 36 FS Hk). }
  assert (Tag : In 36 ib_tag_arms -> exists g, t = KTag g).
  { intro Hk. apply (head_all_tag (nth 36 heads_in_body [])); [|exact Hm].
    exact (forallb_nth_in (fun k => forallb atom_is_tag (nth k heads_in_body [])) ib_tag_arms 36 FT Hk). }
  assert (Fmt : In 36 [24; 25; 26; 27] -> exists g, t = KTag g /\ is_formatting (tg_name g) = true).
  { intro Hk. apply (head_named_prop is_formatting (nth 36 heads_in_body [])); [|exact Hm].
    exact (forallb_nth_in (fun k => forallb (atom_names is_formatting false) (nth k heads_in_body [])) [24; 25; 26; 27] 36 FF Hk). }
  assert (NotC : In 36 [0; 2; 7] -> is_chars t = false).
  { intro Hk. apply (head_not_chars (nth 36 heads_in_body [])); [|exact Hm].
    exact (forallb_nth_in (fun k => forallb atom_not_chars (nth k heads_in_body [])) [0; 2; 7] 36 FN Hk). }
  destruct (head_named_prop _ _ _ F36n Hm) as (g & -> & Nim).
    pose proof (head_all_start _ _ F36 Hm) as St.
    unfold ib_arm_36. rewrite wp_bind, wp_parse_error.
    eapply wp_mono; [apply HSelf; [eapply TInv_core_eq; [(apply core_eq_set_out; reflexivity) | exact I1] | exact L1 | apply NSof; reflexivity | exact Sc | exact St | right; reflexivity]|].
    intros r s' P. apply TagFin; [reflexivity | exact P].
Qed.

Lemma ib_spec_37 ih it self : ib_cb ih it self -> ib_arm_spec 37 (ib_arm_37 ih it self).
Proof.
  ib_setup.
  assert (Safe : In 37 ib_safe_arms -> exists g, t = KTag g /\ tg_name g <> nm "html" /\
            (ns_html, tg_name g) <> (ns_html, nm "head") /\ (ns_html, tg_name g) <> (ns_html, nm "template")).
  { intro Hk. apply (head_safe (nth 37 heads_in_body [])); [|exact Hm].
    exact (forallb_nth_in (fun k => forallb (atom_names safe_name false) (nth k heads_in_body [])) ib_safe_arms 37 FS Hk). }
  assert (Tag : In 37 ib_tag_arms -> exists g, t = KTag g).
  { intro Hk. apply (head_all_tag (nth 37 heads_in_body [])); [|exact Hm].
    exact (forallb_nth_in (fun k => forallb atom_is_tag (nth k heads_in_body [])) ib_tag_arms 37 FT Hk). }
  assert (Fmt : In 37 [24; 25; 26; 27] -> exists g, t = KTag g /\ is_formatting (tg_name g) = true).
  { intro Hk. apply (head_named_prop is_formatting (nth 37 heads_in_body [])); [|exact Hm].
    exact (forallb_nth_in (fun k => forallb (atom_names is_formatting false) (nth k heads_in_body [])) [24; 25; 26; 27] 37 FF Hk). }
  assert (NotC : In 37 [0; 2; 7] -> is_chars t = false).
  { intro Hk. apply (head_not_chars (nth 37 heads_in_body [])); [|exact Hm].
    exact (forallb_nth_in (fun k => forallb atom_not_chars (nth k heads_in_body [])) [0; 2; 7] 37 FN Hk). }
  safe_arm Safe. eapply wp_mono; [apply ib_37_ok; try assumption; apply NSof; reflexivity | apply TagFin; reflexivity].
Qed.

Lemma ib_spec_38 ih it self : ib_cb ih it self -> ib_arm_spec 38 (ib_arm_38 ih it self).
Proof.
  ib_setup.
  assert (Safe : In 38 ib_safe_arms -> exists g, t = KTag g /\ tg_name g <> nm "html" /\
            (ns_html, tg_name g) <> (ns_html, nm "head") /\ (ns_html, tg_name g) <> (ns_html, nm "template")).
  { intro Hk. apply (head_safe (nth 38 heads_in_body [])); [|exact Hm].
    exact (forallb_nth_in (fun k => forallb (atom_names safe_name false) (nth k heads_in_body [])) ib_safe_arms 38 FS Hk). }
  assert (Tag : In 38 ib_tag_arms -> exists g, t = KTag g).
  { intro Hk. apply (head_all_tag (nth 38 heads_in_body [])); [|exact Hm].
    exact (forallb_nth_in (fun k => forallb atom_is_tag (nth k heads_in_body [])) ib_tag_arms 38 FT Hk). }
  assert (Fmt : In 38 [24; 25; 26; 27] -> exists g, t = KTag g /\ is_formatting (tg_name g) = true).
  { intro Hk. apply (head_named_prop is_formatting (nth 38 heads_in_body [])); [|exact Hm].
    exact (forallb_nth_in (fun k => forallb (atom_names is_formatting false) (nth k heads_in_body [])) [24; 25; 26; 27] 38 FF Hk). }
  assert (NotC : In 38 [0; 2; 7] -> is_chars t = false).
  { intro Hk. apply (head_not_chars (nth 38 heads_in_body [])); [|exact Hm].
    exact (forallb_nth_in (fun k => forallb atom_not_chars (nth k heads_in_body [])) [0; 2; 7] 38 FN Hk). }
  safe_arm Safe. eapply wp_mono; [apply ib_38_ok; try assumption; apply NSof; reflexivity | apply TagFin; reflexivity].
Qed.

Lemma ib_spec_39 ih it self : ib_cb ih it self -> ib_arm_spec 39 (ib_arm_39 ih it self).
Proof.
  ib_setup.
  assert (Safe : In 39 ib_safe_arms -> exists g, t = KTag g /\ tg_name g <> nm "html" /\
            (ns_html, tg_name g) <> (ns_html, nm "head") /\ (ns_html, tg_name g) <> (ns_html, nm "template")).
  { intro Hk. apply (head_safe (nth 39 heads_in_body [])); [|exact Hm].
    exact (forallb_nth_in (fun k => forallb (atom_names safe_name false) (nth k heads_in_body [])) ib_safe_arms 39 FS Hk). }
  assert (Tag : In 39 ib_tag_arms -> exists g, t = KTag g).
  { intro Hk. apply (head_all_tag (nth 39 heads_in_body [])); [|exact Hm].
    exact (forallb_nth_in (fun k => forallb atom_is_tag (nth k heads_in_body [])) ib_tag_arms 39 FT Hk). }
  assert (Fmt : In 39 [24; 25; 26; 27] -> exists g, t = KTag g /\ is_formatting (tg_name g) = true).
  { intro Hk. apply (head_named_prop is_formatting (nth 39 heads_in_body [])); [|exact Hm].
    exact (forallb_nth_in (fun k => forallb (atom_names is_formatting false) (nth k heads_in_body [])) [24; 25; 26; 27] 39 FF Hk). }
  assert (NotC : In 39 [0; 2; 7] -> is_chars t = false).
  { intro Hk. apply (head_not_chars (nth 39 heads_in_body [])); [|exact Hm].
    exact (forallb_nth_in (fun k => forallb atom_not_chars (nth k heads_in_body [])) [0; 2; 7] 39 FN Hk). }
  safe_arm Safe. eapply wp_mono; [apply ib_39_ok; try assumption; apply NSof; reflexivity | apply TagFin; reflexivity].
Qed.

Lemma ib_spec_40 ih it self : ib_cb ih it self -> ib_arm_spec 40 (ib_arm_40 ih it self).
Proof.
  ib_setup.
  assert (Safe : In 40 ib_safe_arms -> exists g, t = KTag g /\ tg_name g <> nm "html" /\
            (ns_html, tg_name g) <> (ns_html, nm "head") /\ (ns_html, tg_name g) <> (ns_html, nm "template")).
  { intro Hk. apply (head_safe (nth 40 heads_in_body [])); [|exact Hm].
    exact (forallb_nth_in (fun k => forallb (atom_names safe_name false) (nth k heads_in_body [])) ib_safe_arms 40 FS Hk). }
  assert (Tag : In 40 ib_tag_arms -> exists g, t = KTag g).
  { intro Hk. apply (head_all_tag (nth 40 heads_in_body [])); [|exact Hm].
    exact (forallb_nth_in (fun k => forallb atom_is_tag (nth k heads_in_body [])) ib_tag_arms 40 FT Hk). }
  assert (Fmt : In 40 [24; 25; 26; 27] -> exists g, t = KTag g /\ is_formatting (tg_name g) = true).
  { intro Hk. apply (head_named_prop is_formatting (nth 40 heads_in_body [])); [|exact Hm].
    exact (forallb_nth_in (fun k => forallb (atom_names is_formatting false) (nth k heads_in_body [])) [24; 25; 26; 27] 40 FF Hk). }
  assert (NotC : In 40 [0; 2; 7] -> is_chars t = false).
  { intro Hk. apply (head_not_chars (nth 40 heads_in_body [])); [|exact Hm].
    exact (forallb_nth_in (fun k => forallb atom_not_chars (nth k heads_in_body [])) [0; 2; 7] 40 FN Hk). }
  safe_arm Safe. eapply wp_mono; [apply ib_40_ok; try assumption; apply NSof; reflexivity | apply TagFin; reflexivity].
Qed.

Lemma ib_spec_41 ih it self : ib_cb ih it self -> ib_arm_spec 41 (ib_arm_41 ih it self).
Proof.
  ib_setup.
  assert (Safe : In 41 ib_safe_arms -> exists g, t = KTag g /\ tg_name g <> nm "html" /\
            (ns_html, tg_name g) <> (ns_html, nm "head") /\ (ns_html, tg_name g) <> (ns_html, nm "template")).
  { intro Hk. apply (head_safe (nth 41 heads_in_body [])); [|exact Hm].
    exact (forallb_nth_in (fun k => forallb (atom_names safe_name false) (nth k heads_in_body [])) ib_safe_arms 41 FS Hk). }
  assert (Tag : In 41 ib_tag_arms -> exists g, t = KTag g).
  { intro Hk. apply (head_all_tag (nth 41 heads_in_body [])); [|exact Hm].
    exact (forallb_nth_in (fun k => forallb atom_is_tag (nth k heads_in_body [])) ib_tag_arms 41 FT Hk). }
  assert (Fmt : In 41 [24; 25; 26; 27] -> exists g, t = KTag g /\ is_formatting (tg_name g) = true).
  { intro Hk. apply (head_named_prop is_formatting (nth 41 heads_in_body [])); [|exact Hm].
    exact (forallb_nth_in (fun k => forallb (atom_names is_formatting false) (nth k heads_in_body [])) [24; 25; 26; 27] 41 FF Hk). }
  assert (NotC : In 41 [0; 2; 7] -> is_chars t = false).
  { intro Hk. apply (head_not_chars (nth 41 heads_in_body [])); [|exact Hm].
    exact (forallb_nth_in (fun k => forallb atom_not_chars (nth k heads_in_body [])) [0; 2; 7] 41 FN Hk). }
  safe_arm Safe. eapply wp_mono; [apply ib_41_ok; assumption | exact DoneFin].
Qed.

Lemma ib_spec_42 ih it self : ib_cb ih it self -> ib_arm_spec 42 (ib_arm_42 ih it self).
Proof.
  ib_setup.
  assert (Safe : In 42 ib_safe_arms -> exists g, t = KTag g /\ tg_name g <> nm "html" /\
            (ns_html, tg_name g) <> (ns_html, nm "head") /\ (ns_html, tg_name g) <> (ns_html, nm "template")).
  { intro Hk. apply (head_safe (nth 42 heads_in_body [])); [|exact Hm].
    exact (forallb_nth_in (fun k => forallb (atom_names safe_name false) (nth k heads_in_body [])) ib_safe_arms 42 FS Hk). }
  assert (Tag : In 42 ib_tag_arms -> exists g, t = KTag g).
  { intro Hk. apply (head_all_tag (nth 42 heads_in_body [])); [|exact Hm].
    exact (forallb_nth_in (fun k => forallb atom_is_tag (nth k heads_in_body [])) ib_tag_arms 42 FT Hk). }
  assert (Fmt : In 42 [24; 25; 26; 27] -> exists g, t = KTag g /\ is_formatting (tg_name g) = true).
  { intro Hk. apply (head_named_prop is_formatting (nth 42 heads_in_body [])); [|exact Hm].
    exact (forallb_nth_in (fun k => forallb (atom_names is_formatting false) (nth k heads_in_body [])) [24; 25; 26; 27] 42 FF Hk). }
  assert (NotC : In 42 [0; 2; 7] -> is_chars t = false).
  { intro Hk. apply (head_not_chars (nth 42 heads_in_body [])); [|exact Hm].
    exact (forallb_nth_in (fun k => forallb atom_not_chars (nth k heads_in_body [])) [0; 2; 7] 42 FN Hk). }
  safe_arm Safe. eapply wp_mono; [apply ib_42_ok; assumption | exact DoneFin].
Qed.

Lemma ib_spec_43 ih it self : ib_cb ih it self -> ib_arm_spec 43 (ib_arm_43 ih it self).
Proof.
  ib_setup.
  assert (Safe : In 43 ib_safe_arms -> exists g, t = KTag g /\ tg_name g <> nm "html" /\
            (ns_html, tg_name g) <> (ns_html, nm "head") /\ (ns_html, tg_name g) <> (ns_html, nm "template")).
  { intro Hk. apply (head_safe (nth 43 heads_in_body [])); [|exact Hm].
    exact (forallb_nth_in (fun k => forallb (atom_names safe_name false) (nth k heads_in_body [])) ib_safe_arms 43 FS Hk). }
  assert (Tag : In 43 ib_tag_arms -> exists g, t = KTag g).
  { intro Hk. apply (head_all_tag (nth 43 heads_in_body [])); [|exact Hm].
    exact (forallb_nth_in (fun k => forallb atom_is_tag (nth k heads_in_body [])) ib_tag_arms 43 FT Hk). }
  assert (Fmt : In 43 [24; 25; 26; 27] -> exists g, t = KTag g /\ is_formatting (tg_name g) = true).
  { intro Hk. apply (head_named_prop is_formatting (nth 43 heads_in_body [])); [|exact Hm].
    exact (forallb_nth_in (fun k => forallb (atom_names is_formatting false) (nth k heads_in_body [])) [24; 25; 26; 27] 43 FF Hk). }
  assert (NotC : In 43 [0; 2; 7] -> is_chars t = false).
  { intro Hk. apply (head_not_chars (nth 43 heads_in_body [])); [|exact Hm].
    exact (forallb_nth_in (fun k => forallb atom_not_chars (nth k heads_in_body [])) [0; 2; 7] 43 FN Hk). }
  safe_arm Safe. eapply wp_mono; [apply ib_43_ok; assumption | exact DoneFin].
Qed.

Lemma ib_spec_44 ih it self : ib_cb ih it self -> ib_arm_spec 44 (ib_arm_44 ih it self).
Proof.
  ib_setup.
  assert (Safe : In 44 ib_safe_arms -> exists g, t = KTag g /\ tg_name g <> nm "html" /\
            (ns_html, tg_name g) <> (ns_html, nm "head") /\ (ns_html, tg_name g) <> (ns_html, nm "template")).
  { intro Hk. apply (head_safe (nth 44 heads_in_body [])); [|exact Hm].
    exact (forallb_nth_in (fun k => forallb (atom_names safe_name false) (nth k heads_in_body [])) ib_safe_arms 44 FS Hk). }
  assert (Tag : In 44 ib_tag_arms -> exists g, t = KTag g).
  { intro Hk. apply (head_all_tag (nth 44 heads_in_body [])); [|exact Hm].
    exact (forallb_nth_in (fun k => forallb atom_is_tag (nth k heads_in_body [])) ib_tag_arms 44 FT Hk). }
  assert (Fmt : In 44 [24; 25; 26; 27] -> exists g, t = KTag g /\ is_formatting (tg_name g) = true).
  { intro Hk. apply (head_named_prop is_formatting (nth 44 heads_in_body [])); [|exact Hm].
    exact (forallb_nth_in (fun k => forallb (atom_names is_formatting false) (nth k heads_in_body [])) [24; 25; 26; 27] 44 FF Hk). }
  assert (NotC : In 44 [0; 2; 7] -> is_chars t = false).
  { intro Hk. apply (head_not_chars (nth 44 heads_in_body [])); [|exact Hm].
    exact (forallb_nth_in (fun k => forallb atom_not_chars (nth k heads_in_body [])) [0; 2; 7] 44 FN Hk). }
  safe_arm Safe. eapply wp_mono; [apply ib_44_ok; assumption | exact DoneFin].
Qed.

Lemma ib_spec_45 ih it self : ib_cb ih it self -> ib_arm_spec 45 (ib_arm_45 ih it self).
Proof.
  ib_setup.
  assert (Safe : In 45 ib_safe_arms -> exists g, t = KTag g /\ tg_name g <> nm "html" /\
            (ns_html, tg_name g) <> (ns_html, nm "head") /\ (ns_html, tg_name g) <> (ns_html, nm "template")).
  { intro Hk. apply (head_safe (nth 45 heads_in_body [])); [|exact Hm].
    exact (forallb_nth_in (fun k => forallb (atom_names safe_name false) (nth k heads_in_body [])) ib_safe_arms 45 FS Hk). }
  assert (Tag : In 45 ib_tag_arms -> exists g, t = KTag g).
  { intro Hk. apply (head_all_tag (nth 45 heads_in_body [])); [|exact Hm].
    exact (forallb_nth_in (fun k => forallb atom_is_tag (nth k heads_in_body [])) ib_tag_arms 45 FT Hk). }
  assert (Fmt : In 45 [24; 25; 26; 27] -> exists g, t = KTag g /\ is_formatting (tg_name g) = true).
  { intro Hk. apply (head_named_prop is_formatting (nth 45 heads_in_body [])); [|exact Hm].
    exact (forallb_nth_in (fun k => forallb (atom_names is_formatting false) (nth k heads_in_body [])) [24; 25; 26; 27] 45 FF Hk). }
  assert (NotC : In 45 [0; 2; 7] -> is_chars t = false).
  { intro Hk. apply (head_not_chars (nth 45 heads_in_body [])); [|exact Hm].
    exact (forallb_nth_in (fun k => forallb atom_not_chars (nth k heads_in_body [])) [0; 2; 7] 45 FN Hk). }
  safe_arm Safe. eapply wp_mono; [apply ib_45_ok; assumption | exact DoneFin].
Qed.

Lemma ib_spec_46 ih it self : ib_cb ih it self -> ib_arm_spec 46 (ib_arm_46 ih it self).
Proof.
  ib_setup.
  assert (Safe : In 46 ib_safe_arms -> exists g, t = KTag g /\ tg_name g <> nm "html" /\
            (ns_html, tg_name g) <> (ns_html, nm "head") /\ (ns_html, tg_name g) <> (ns_html, nm "template")).
  { intro Hk. apply (head_safe (nth 46 heads_in_body [])); [|exact Hm].
    exact (forallb_nth_in (fun k => forallb (atom_names safe_name false) (nth k heads_in_body [])) ib_safe_arms 46 FS Hk). }
  assert (Tag : In 46 ib_tag_arms -> exists g, t = KTag g).
  { intro Hk. apply (head_all_tag (nth 46 heads_in_body [])); [|exact Hm].
    exact (forallb_nth_in (fun k => forallb atom_is_tag (nth k heads_in_body [])) ib_tag_arms 46 FT Hk). }
  assert (Fmt : In 46 [24; 25; 26; 27] -> exists g, t = KTag g /\ is_formatting (tg_name g) = true).
  { intro Hk. apply (head_named_prop is_formatting (nth 46 heads_in_body [])); [|exact Hm].
    exact (forallb_nth_in (fun k => forallb (atom_names is_formatting false) (nth k heads_in_body [])) [24; 25; 26; 27] 46 FF Hk). }
  assert (NotC : In 46 [0; 2; 7] -> is_chars t = false).
  { intro Hk. apply (head_not_chars (nth 46 heads_in_body [])); [|exact Hm].
    exact (forallb_nth_in (fun k => forallb atom_not_chars (nth k heads_in_body [])) [0; 2; 7] 46 FN Hk). }
  destruct Tag as [g ->]; [simpl; tauto|]. eapply wp_mono; [apply ib_46_ok; assumption | apply TagFin; reflexivity].
Qed.

Lemma ib_spec_47 ih it self : ib_cb ih it self -> ib_arm_spec 47 (ib_arm_47 ih it self).
Proof.
  ib_setup.
  assert (Safe : In 47 ib_safe_arms -> exists g, t = KTag g /\ tg_name g <> nm "html" /\
            (ns_html, tg_name g) <> (ns_html, nm "head") /\ (ns_html, tg_name g) <> (ns_html, nm "template")).
  { intro Hk. apply (head_safe (nth 47 heads_in_body [])); [|exact Hm].
    exact (forallb_nth_in (fun k => forallb (atom_names safe_name false) (nth k heads_in_body [])) ib_safe_arms 47 FS Hk). }
  assert (Tag : In 47 ib_tag_arms -> exists g, t = KTag g).
  { intro Hk. apply (head_all_tag (nth 47 heads_in_body [])); [|exact Hm].
    exact (forallb_nth_in (fun k => forallb atom_is_tag (nth k heads_in_body [])) ib_tag_arms 47 FT Hk). }
  assert (Fmt : In 47 [24; 25; 26; 27] -> exists g, t = KTag g /\ is_formatting (tg_name g) = true).
  { intro Hk. apply (head_named_prop is_formatting (nth 47 heads_in_body [])); [|exact Hm].
    exact (forallb_nth_in (fun k => forallb (atom_names is_formatting false) (nth k heads_in_body [])) [24; 25; 26; 27] 47 FF Hk). }
  assert (NotC : In 47 [0; 2; 7] -> is_chars t = false).
  { intro Hk. apply (head_not_chars (nth 47 heads_in_body [])); [|exact Hm].
    exact (forallb_nth_in (fun k => forallb atom_not_chars (nth k heads_in_body [])) [0; 2; 7] 47 FN Hk). }
  destruct Tag as [g ->]; [simpl; tauto|]. eapply wp_mono; [apply ib_47_ok; assumption | apply TagFin; reflexivity].
Qed.

Lemma ib_spec_48 ih it self : ib_cb ih it self -> ib_arm_spec 48 (ib_arm_48 ih it self).
Proof.
  ib_setup.
  assert (Safe : In 48 ib_safe_arms -> exists g, t = KTag g /\ tg_name g <> nm "html" /\
            (ns_html, tg_name g) <> (ns_html, nm "head") /\ (ns_html, tg_name g) <> (ns_html, nm "template")).
  { intro Hk. apply (head_safe (nth 48 heads_in_body [])); [|exact Hm].
    exact (forallb_nth_in (fun k => forallb (atom_names safe_name false) (nth k heads_in_body [])) ib_safe_arms 48 FS Hk). }
  assert (Tag : In 48 ib_tag_arms -> exists g, t = KTag g).
  { intro Hk. apply (head_all_tag (nth 48 heads_in_body [])); [|exact Hm].
    exact (forallb_nth_in (fun k => forallb atom_is_tag (nth k heads_in_body [])) ib_tag_arms 48 FT Hk). }
  assert (Fmt : In 48 [24; 25; 26; 27] -> exists g, t = KTag g /\ is_formatting (tg_name g) = true).
  { intro Hk. apply (head_named_prop is_formatting (nth 48 heads_in_body [])); [|exact Hm].
    exact (forallb_nth_in (fun k => forallb (atom_names is_formatting false) (nth k heads_in_body [])) [24; 25; 26; 27] 48 FF Hk). }
  assert (NotC : In 48 [0; 2; 7] -> is_chars t = false).
  { intro Hk. apply (head_not_chars (nth 48 heads_in_body [])); [|exact Hm].
    exact (forallb_nth_in (fun k => forallb atom_not_chars (nth k heads_in_body [])) [0; 2; 7] 48 FN Hk). }
  destruct Tag as [g ->]; [simpl; tauto|]. unfold ib_arm_48. eapply wp_mono; [apply armd_unexpected; exact I1 | exact DoneFin].
Qed.

Lemma ib_spec_49 ih it self : ib_cb ih it self -> ib_arm_spec 49 (ib_arm_49 ih it self).
Proof.
  ib_setup.
  assert (Safe : In 49 ib_safe_arms -> exists g, t = KTag g /\ tg_name g <> nm "html" /\
            (ns_html, tg_name g) <> (ns_html, nm "head") /\ (ns_html, tg_name g) <> (ns_html, nm "template")).
  { intro Hk. apply (head_safe (nth 49 heads_in_body [])); [|exact Hm].
    exact (forallb_nth_in (fun k => forallb (atom_names safe_name false) (nth k heads_in_body [])) ib_safe_arms 49 FS Hk). }
  assert (Tag : In 49 ib_tag_arms -> exists g, t = KTag g).
  { intro Hk. apply (head_all_tag (nth 49 heads_in_body [])); [|exact Hm].
    exact (forallb_nth_in (fun k => forallb atom_is_tag (nth k heads_in_body [])) ib_tag_arms 49 FT Hk). }
  assert (Fmt : In 49 [24; 25; 26; 27] -> exists g, t = KTag g /\ is_formatting (tg_name g) = true).
  { intro Hk. apply (head_named_prop is_formatting (nth 49 heads_in_body [])); [|exact Hm].
    exact (forallb_nth_in (fun k => forallb (atom_names is_formatting false) (nth k heads_in_body [])) [24; 25; 26; 27] 49 FF Hk). }
  assert (NotC : In 49 [0; 2; 7] -> is_chars t = false).
  { intro Hk. apply (head_not_chars (nth 49 heads_in_body [])); [|exact Hm].
    exact (forallb_nth_in (fun k => forallb atom_not_chars (nth k heads_in_body [])) [0; 2; 7] 49 FN Hk). }
  destruct Tag as [g ->]; [simpl; tauto|]. pose proof (head_all_start _ _ F49 Hm) as St.
    assert (N0 : tname (KTag g) <> nm "html") by (apply (unmatched_start _ _ _ (Hn 3 ltac:(lia)) A3 St)).
    assert (N1 : tname (KTag g) <> nm "head") by (apply (unmatched_start _ _ _ (Hn 48 ltac:(lia)) A48 St)).
    assert (N2 : tname (KTag g) <> nm "template") by (apply (unmatched_start _ _ _ (Hn 4 ltac:(lia)) A4 St)).
    eapply wp_mono; [apply ib_49_ok; try assumption; [apply NSof; reflexivity | intro E; injection E; exact N1 | intro E; injection E; exact N2] | apply TagFin; reflexivity].
Qed.

Lemma ib_spec_50 ih it self : ib_cb ih it self -> ib_arm_spec 50 (ib_arm_50 ih it self).
Proof.
  ib_setup.
  assert (Safe : In 50 ib_safe_arms -> exists g, t = KTag g /\ tg_name g <> nm "html" /\
            (ns_html, tg_name g) <> (ns_html, nm "head") /\ (ns_html, tg_name g) <> (ns_html, nm "template")).
  { intro Hk. apply (head_safe (nth 50 heads_in_body [])); [|exact Hm].
    exact (forallb_nth_in (fun k => forallb (atom_names safe_name false) (nth k heads_in_body [])) ib_safe_arms 50 FS Hk). }
  assert (Tag : In 50 ib_tag_arms -> exists g, t = KTag g).
  { intro Hk. apply (head_all_tag (nth 50 heads_in_body [])); [|exact Hm].
    exact (forallb_nth_in (fun k => forallb atom_is_tag (nth k heads_in_body [])) ib_tag_arms 50 FT Hk). }
  assert (Fmt : In 50 [24; 25; 26; 27] -> exists g, t = KTag g /\ is_formatting (tg_name g) = true).
  { intro Hk. apply (head_named_prop is_formatting (nth 50 heads_in_body [])); [|exact Hm].
    exact (forallb_nth_in (fun k => forallb (atom_names is_formatting false) (nth k heads_in_body [])) [24; 25; 26; 27] 50 FF Hk). }
  assert (NotC : In 50 [0; 2; 7] -> is_chars t = false).
  { intro Hk. apply (head_not_chars (nth 50 heads_in_body [])); [|exact Hm].
    exact (forallb_nth_in (fun k => forallb atom_not_chars (nth k heads_in_body [])) [0; 2; 7] 50 FN Hk). }
  destruct Tag as [g ->]; [simpl; tauto|]. pose proof (head_all_end _ _ F50 Hm) as En.
    assert (N0 : tname (KTag g) <> nm "html") by (apply (unmatched_end _ _ _ (Hn 9 ltac:(lia)) A9 En)).
    unfold ib_arm_50. eapply wp_mono; [apply ib_any_end_ok; assumption | exact DoneFin].
Qed.

Lemma in_body_specs ih it self : ib_cb ih it self ->
  Forall (fun kb => ib_arm_spec (fst kb) (snd kb))
         (combine (seq 0 (length (bodies_in_body_gen ih it self))) (bodies_in_body_gen ih it self)).
Proof.
  intro CB. unfold bodies_in_body_gen. cbn [length seq combine].
  repeat apply Forall_cons; try apply Forall_nil; cbn [fst snd].
  - apply ib_spec_0; exact CB.
  - apply ib_spec_1; exact CB.
  - apply ib_spec_2; exact CB.
  - apply ib_spec_3; exact CB.
  - apply ib_spec_4; exact CB.
  - apply ib_spec_5; exact CB.
  - apply ib_spec_6; exact CB.
  - apply ib_spec_7; exact CB.
  - apply ib_spec_8; exact CB.
  - apply ib_spec_9; exact CB.
  - apply ib_spec_10; exact CB.
  - apply ib_spec_11; exact CB.
  - apply ib_spec_12; exact CB.
  - apply ib_spec_13; exact CB.
  - apply ib_spec_14; exact CB.
  - apply ib_spec_15; exact CB.
  - apply ib_spec_16; exact CB.
  - apply ib_spec_17; exact CB.
  - apply ib_spec_18; exact CB.
  - apply ib_spec_19; exact CB.
  - apply ib_spec_20; exact CB.
  - apply ib_spec_21; exact CB.
  - apply ib_spec_22; exact CB.
  - apply ib_spec_23; exact CB.
  - apply ib_spec_24; exact CB.
  - apply ib_spec_25; exact CB.
  - apply ib_spec_26; exact CB.
  - apply ib_spec_27; exact CB.
  - apply ib_spec_28; exact CB.
  - apply ib_spec_29; exact CB.
  - apply ib_spec_30; exact CB.
  - apply ib_spec_31; exact CB.
  - apply ib_spec_32; exact CB.
  - apply ib_spec_33; exact CB.
  - apply ib_spec_34; exact CB.
  - apply ib_spec_35; exact CB.
  - apply ib_spec_36; exact CB.
  - apply ib_spec_37; exact CB.
  - apply ib_spec_38; exact CB.
  - apply ib_spec_39; exact CB.
  - apply ib_spec_40; exact CB.
  - apply ib_spec_41; exact CB.
  - apply ib_spec_42; exact CB.
  - apply ib_spec_43; exact CB.
  - apply ib_spec_44; exact CB.
  - apply ib_spec_45; exact CB.
  - apply ib_spec_46; exact CB.
  - apply ib_spec_47; exact CB.
  - apply ib_spec_48; exact CB.
  - apply ib_spec_49; exact CB.
  - apply ib_spec_50; exact CB.
Qed.

Lemma step_in_body_gen_ok (ih it self : body) : ib_cb ih it self ->
  forall s t, TInv s -> late s -> (saving_mode (mode s) = false \/ is_chars t = true) -> scalar_tok t ->
  wp (step_in_body_gen ih it self t) (ib_post t) s.
Proof.
  intros CB s t I L NSC Sc. unfold step_in_body_gen.
  eapply (wp_dispatch_specs _ _ _ ib_arm_spec); [apply total_in_body | apply (aligned_all ih it self) | apply in_body_specs; exact CB |].
  intros k b Sp Ek Hm Hn. apply Sp; try assumption.
  eapply TInv_core_eq; [(apply core_eq_set_out; reflexivity) | exact I].
Qed.

(* ---------- "in template" ---------- *)
Definition it_cb (ih ib : body) : Prop :=
  (forall s t, TInv s -> late s -> saving_mode (mode s) = false -> scalar_tok t ->
               head_matches t (nth 2 heads_in_template []) = true -> wp (ih t) (step_post t) s) /\
  (forall s t, TInv s -> late s -> (saving_mode (mode s) = false \/ is_chars t = true) -> scalar_tok t ->
               (is_chars t = true \/ exists c, t = KComment c) -> wp (ib t) (ib_post t) s).

Lemma TInv_switch_template_mode s m : TInv s -> template_mode m = true ->
  TInv (set_template_modes (vpush (vpop (template_modes s)) m) s).
Proof.
  intros [I1 I2 I3 I4 I5 I6 I7 I8 I9 I10 I11] T. constructor; try assumption.
  - unfold tm_ok, tcount in *. cbn [open_elems context_elem template_modes set_template_modes].
    change (is_template (set_template_modes (vpush (vpop (template_modes s)) m) s)) with (is_template s).
    unfold vpush, vpop. rewrite app_length, removelast_firstn, firstn_length. cbn [List.length]. lia.
  - unfold tmodes_ok in *. cbn [template_modes set_template_modes]. unfold vpush, vpop. apply Forall_app. split.
    + rewrite removelast_firstn. rewrite Forall_forall in *. intros x Hx. apply I11. eapply In_firstn; exact Hx.
    + constructor; [exact T | constructor].
Qed.

Lemma wp_switch_template_mode s t m :
  TInv s -> late s -> saving_mode (mode s) = false -> template_mode m = true -> is_chars t = false ->
  wp (switch_template_mode m t) (step_post t) s.
Proof.
  intros I L NS T C. unfold switch_template_mode. rewrite wp_bind, wp_modify, wp_ret.
  pose proof (TInv_switch_template_mode s m I T) as I1.
  destruct (template_mode_props m T) as (Em & Sm & Hm).
  split; [|apply res_ok_reprocess]. split; [|intro X; rewrite X in Sm; discriminate].
  apply (keeps_set_mode (set_template_modes (vpush (vpop (template_modes s)) m) s)); [apply keeps_refl; exact I1 | exact L | exact NS | exact Em | exact Sm | rewrite Hm; discriminate].
Qed.

Lemma in_template_arm_facts :
  forallb atom_is_chars (nth 0 heads_in_template []) = true /\
  nth 1 heads_in_template [] = [AComment] /\
  forallb atom_is_tag (nth 2 heads_in_template []) = true /\
  forallb (fun k => forallb atom_is_tag (nth k heads_in_template [])) [3; 4; 5; 6; 8] = true /\
  nth 7 heads_in_template [] = [AEof].
Proof. repeat split; reflexivity. Qed.

Lemma step_in_template_gen_ok (ih ib : body) : it_cb ih ib ->
  forall s t, TInv s -> late s -> (saving_mode (mode s) = false \/ is_chars t = true) -> scalar_tok t ->
  wp (step_in_template_gen ih ib t) (step_post t) s.
Proof.
  intros [HIH HIB] s t I L NSC Sc. unfold step_in_template_gen.
  apply wp_arm_dispatch; [apply total_in_template | apply (aligned_all ih ib ib) |].
  intros k b Ek Eb Hm Hn.
  pose proof (TInv_arm s (mode_id InTemplate) k I) as I1. set (s1 := set_out _ s) in *.
  assert (L1 : late s1) by exact L.
  destruct in_template_arm_facts as (F0 & F1 & F2 & FT & F7).
  assert (NSof : is_chars t = false -> saving_mode (mode s1) = false).
  { intro C. destruct NSC as [X|X]; [exact X | rewrite C in X; discriminate]. }
  assert (Tag : In k [3; 4; 5; 6; 8] -> is_chars t = false).
  { intro Hk. apply (head_tag_not_chars (nth k heads_in_template [])); [|exact Hm].
    exact (forallb_nth_in (fun k => forallb atom_is_tag (nth k heads_in_template [])) [3; 4; 5; 6; 8] k FT Hk). }
  arm_cases k Eb.
  - (* 0 chars *) pose proof (head_all_chars _ _ F0 Hm) as C.
    eapply wp_mono; [apply HIB; [exact I1 | exact L1 | right; exact C | exact Sc | left; exact C]|]. intros r s' [P _]. exact P.
  - (* 1 comment *) rewrite F1 in Hm. unfold head_matches in Hm. destruct t as [g|c|sp c| |]; simpl in Hm; try discriminate.
    eapply wp_mono; [apply HIB; [exact I1 | exact L1 | left; apply NSof; reflexivity | exact Sc | right; eauto]|]. intros r s' [P _]. exact P.
  - (* 2 *) pose proof (head_tag_not_chars _ _ F2 Hm) as C. apply HIH; [exact I1 | exact L1 | apply NSof; exact C | exact Sc | exact Hm].
  - (* 3 *) assert (C : is_chars t = false) by (apply Tag; simpl; tauto). apply wp_switch_template_mode; [exact I1 | exact L1 | apply NSof; exact C | reflexivity | exact C].
  - (* 4 *) assert (C : is_chars t = false) by (apply Tag; simpl; tauto). apply wp_switch_template_mode; [exact I1 | exact L1 | apply NSof; exact C | reflexivity | exact C].
  - (* 5 *) assert (C : is_chars t = false) by (apply Tag; simpl; tauto). apply wp_switch_template_mode; [exact I1 | exact L1 | apply NSof; exact C | reflexivity | exact C].
  - (* 6 *) assert (C : is_chars t = false) by (apply Tag; simpl; tauto). apply wp_switch_template_mode; [exact I1 | exact L1 | apply NSof; exact C | reflexivity | exact C].
  - (* 7 Eof *) rewrite F7 in Hm. unfold head_matches in Hm. destruct t as [g|c|sp c| |]; simpl in Hm; try discriminate.
    assert (NS1 : saving_mode (mode s1) = false) by (apply NSof; reflexivity).
    rewrite wp_bind, wp_get.
    destruct (negb (in_html_elem_named s1 (nm "template"))) eqn:Neg.
    { rewrite wp_ret. apply step_post_done. exact I1. }
    apply negb_false_iff in Neg. unfold in_html_elem_named in Neg. apply existsb_exists in Neg. destruct Neg as (x & Hin & Hx).
    apply ename_eqb_eq in Hx.
    rewrite wp_bind, wp_parse_error, wp_bind. unfold pop_until_named.
    set (s2 := set_out _ s1). assert (I2 : TInv s2) by (eapply TInv_core_eq; [(apply core_eq_set_out; reflexivity) | exact I1]).
    eapply (wp_pop_until_strong s2); [apply keeps_refl; exact I2 | exact L1 | reflexivity | |].
    { exists x. split; [exact Hin|]. change (ename_eqb (ename_of s1 x) (ns_html, nm "template") = true). rewrite Hx. apply ename_eqb_refl. }
    intros n s3 K3 _ (k & e & Lk & E3 & Ee & Pe). pose proof K3 as [I3 S3].
    assert (T3 : tcount s3 + 1 <= length (template_modes s3)).
    { assert (F3 : Forall (known s2) (open_elems s3)).
      { rewrite E3. apply Forall_forall. intros h Hh. eapply TInv_stack_known; [exact I2 | eapply In_firstn; exact Hh]. }
      rewrite (tcount_as_of s2 s3 I2 S3 F3), (st_tm _ _ S3). unfold tcount_of. rewrite E3.
      pose proof (inv_tm _ I2) as T2. unfold tm_ok, tcount in T2.
      assert (Te : is_template s2 e = true) by exact Pe.
      pose proof (filter_length_firstn_lt (is_template s2) (open_elems s2) k e Ee Te). lia. }
    rewrite wp_bind.
    eapply (wp_clear_active_formatting_to_marker s3); [apply keeps_refl; exact I3|]. intros s4 K4 E4. pose proof K4 as [I4 S4].
    rewrite wp_bind, wp_modify.
    assert (T4 : tcount s4 + 1 <= length (template_modes s4)).
    { rewrite (tcount_stable s3 s4 I3 S4 E4), (st_tm _ _ S4). exact T3. }
    pose proof (TInv_pop_template_mode s4 I4 T4) as I5. set (s5 := set_template_modes _ s4) in *.
    assert (M5 : mode s5 = mode s1) by (cbn; rewrite (st_mode _ _ S4), (st_mode _ _ S3); reflexivity).
    assert (L5 : late s5) by (unfold late; rewrite M5; exact L1).
    rewrite wp_bind.
    eapply (wp_reset_insertion_mode s5); [apply keeps_refl; exact I5 | exact L5 |].
    intros m s6 K6 _ Em Sm Hm'. unfold set_mode_m. rewrite wp_bind, wp_modify, wp_bind.
    pose proof K6 as [I6 S6].
    assert (I7 : TInv (set_mode m s6)).
    { apply (keeps_set_mode s5); [exact K6 | eapply keeps_late; eassumption | rewrite (st_mode _ _ S6), M5; exact NS1 | exact Em | exact Sm |].
      intro Hn'. rewrite (st_head _ _ S6). apply Hm'. exact Hn'. }
    set (s7 := set_mode m s6) in *.
    assert (L7 : late s7) by exact Em.
    eapply (wp_reset_insertion_mode s7); [apply keeps_refl; exact I7 | exact L7 |].
    intros m2 s8 K8 _ Em2 Sm2 Hm2. rewrite wp_ret. split; [|apply res_ok_reprocess].
    split; [|intro X; rewrite X in Sm2; discriminate]. pose proof K8 as [I8 S8].
    apply (keeps_set_mode s7); [exact K8 | eapply keeps_late; eassumption | rewrite (st_mode _ _ S8); exact Sm | exact Em2 | exact Sm2 |].
    intro Hn'. rewrite (st_head _ _ S8). apply Hm2. exact Hn'.
  - (* 8 any start *) assert (C : is_chars t = false) by (apply Tag; simpl; tauto). apply wp_switch_template_mode; [exact I1 | exact L1 | apply NSof; exact C | reflexivity | exact C].
  - (* 9 *) apply arm_unexpected. exact I1.
Qed.
