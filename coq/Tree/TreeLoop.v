(* ========================================================================
   TreeLoop.v - the Reprocess loop of process_to_completion and its fuel.

   The loop of the model carries a fuel counter (Coq needs a structural argument); html5ever's loop has none.
   PROVED here: the fuel is irrelevant once the loop answers - an answer Ok / Panic obtained with some fuel is the
   answer with any larger fuel ([ptc_loop_mono]), two fuels that both suffice give the same answer and state
   ([ptc_loop_det]), and process_to_completion / process_token agree with any run of the loop that answers, unless
   their own fuel (ptc_fuel) runs out ([process_to_completion_of_loop]).
   This is step 0 of the plan in the header of TreeSplitEarly.v (the loops of a ++ b, a and b get different fuel).
   Also: the last match of ptc_iter is the only place that looks at the queue ([ptc_iter_split]), and while the
   current token answers Reprocess two runs that differ only in the queue stay in lock step ([ptc_iter_reprocess_queue]).
   ======================================================================== *)
From Coq Require Import List NArith Bool Arith Lia String.
From HV Require Import Dom.DomSpec Tree.TreeTypes Tree.TreeTables Tree.TreeModelHelpers Tree.TreeModelRules Tree.TreeModel.
Import ListNotations.
Open Scope list_scope.
Notation length := List.length (only parsing).

Definition answered {A} (r : res A) : Prop := match r with OutOfFuel => False | _ => True end.

Lemma ptc_loop_mono : forall f t more s, answered (ptc_loop f t more s) ->
  forall k, ptc_loop (f + k) t more s = ptc_loop f t more s.
Proof.
  induction f as [|f IH]; intros t more s A k; [destruct A|].
  cbn [ptc_loop Nat.add] in *. unfold bind in *.
  destruct (ptc_iter t more s) as [[res | [t' m']] s1 | n |]; try reflexivity.
  apply IH. exact A.
Qed.

Theorem ptc_loop_det f1 f2 t more s :
  answered (ptc_loop f1 t more s) -> answered (ptc_loop f2 t more s) ->
  ptc_loop f1 t more s = ptc_loop f2 t more s.
Proof.
  intros A1 A2. destruct (Nat.le_ge_cases f1 f2) as [L|L].
  - replace f2 with (f1 + (f2 - f1)) by lia. symmetry. apply ptc_loop_mono. exact A1.
  - replace f1 with (f2 + (f1 - f2)) by lia. apply ptc_loop_mono. exact A2.
Qed.

Theorem process_to_completion_of_loop f t s :
  answered (ptc_loop f t [] s) -> answered (process_to_completion t s) ->
  process_to_completion t s = ptc_loop f t [] s.
Proof.
  unfold process_to_completion, bind, get. intros A1 A2. apply ptc_loop_det; assumption.
Qed.

(* ---------- the queue is only looked at after the step ---------- *)
Definition iter_core (t : tok) : M presult :=
  shape_check ;;
  foreign <- is_foreign t ;;
  (if foreign then step_foreign t else s <- get ;; step (mode s) t).

Definition iter_fin (t : tok) (more_tokens : list tok) (result : presult) : M (sink_result + tok * list tok) :=
  match result with
  | Done =>
    (if is_self_closing_start t then probe 44 ;; parse_error else ret tt) ;;
    match more_tokens with
    | [] => ret (inl SContinue)
    | t' :: m' => ret (inr (t', m'))
    end
  | DoneAckSelfClosing =>
    match more_tokens with
    | [] => ret (inl SContinue)
    | t' :: m' => ret (inr (t', m'))
    end
  | Reprocess m t' => set_mode_m m ;; ret (inr (t', more_tokens))
  | ReprocessForeign t' => ret (inr (t', more_tokens))
  | SplitWhitespace buf =>
    match pop_front_char_run buf with
    | None => ret (inl SContinue)
    | Some (first, is_ws, rest) =>
      let t' := KChars (if is_ws then Whitespace else NotWhitespace) first in
      let more' := match rest with [] => more_tokens | _ :: _ => more_tokens ++ [KChars NotSplit rest] end in
      when (negb (is_nil rest)) (probe 43) ;;
      ret (inr (t', more'))
    end
  | PScript node => assert (is_nil more_tokens) 2 ;; ret (inl (SScript node))
  | ToPlaintext => assert (is_nil more_tokens) 3 ;; ret (inl SPlaintext)
  | ToRawData k => assert (is_nil more_tokens) 4 ;; ret (inl (SRawData k))
  | PEncoding e => ret (inl (SEncoding e))
  end.

Theorem ptc_iter_split t more s : ptc_iter t more s = bind (iter_core t) (iter_fin t more) s.
Proof.
  unfold ptc_iter, iter_core. cbv zeta. unfold bind.
  destruct (shape_check s) as [[] s1 | n |]; [|reflexivity | reflexivity].
  destruct (is_foreign t s1) as [fo s2 | n |]; [|reflexivity | reflexivity].
  destruct fo.
  - destruct (step_foreign t s2) as [r s3 | n |]; [|reflexivity | reflexivity]. destruct r; reflexivity.
  - unfold get. destruct (step (mode s2) t s2) as [r s3 | n |]; [|reflexivity | reflexivity]. destruct r; reflexivity.
Qed.

(* while the current token answers Reprocess, the queue is carried along untouched *)
Theorem ptc_iter_reprocess_queue t more s m t' s1 :
  iter_core t s = Ok (Reprocess m t') s1 ->
  forall more2, ptc_iter t more2 s = Ok (inr (t', more2)) (set_mode m s1) /\
                ptc_iter t more s = Ok (inr (t', more)) (set_mode m s1).
Proof.
  intros E more2. rewrite !ptc_iter_split. unfold bind. rewrite E. cbn [iter_fin].
  unfold set_mode_m, modify, ret. split; reflexivity.
Qed.

(* when it answers Done, a run with a queued token goes on with that token from the state where the run with the empty
   queue stops with SContinue *)
Theorem ptc_iter_done_queue t s s1 q qs :
  iter_core t s = Ok Done s1 ->
  exists s2, ptc_iter t [] s = Ok (inl SContinue) s2 /\ ptc_iter t (q :: qs) s = Ok (inr (q, qs)) s2.
Proof.
  intro E. rewrite !ptc_iter_split. unfold bind. rewrite E. cbn [iter_fin]. unfold bind.
  destruct (is_self_closing_start t).
  - unfold probe, log_arm, parse_error, emit, modify, ret. eexists. split; reflexivity.
  - unfold ret. eexists. split; reflexivity.
Qed.

(* ---------- queue decomposition ---------- *)
(* the run of t from s answers, within f iterations, only Reprocess / ReprocessForeign and finally Done /
   DoneAckSelfClosing (in particular no SplitWhitespace: SplitWhitespace [] would answer SContinue and DROP the queue) *)
Fixpoint plain (f : nat) (t : tok) (s : st) : Prop :=
  match f with
  | 0 => False
  | S f' =>
    match iter_core t s with
    | Ok Done _ | Ok DoneAckSelfClosing _ => True
    | Ok (Reprocess m t') s1 => plain f' t' (set_mode m s1)
    | Ok (ReprocessForeign t') s1 => plain f' t' s1
    | _ => False
    end
  end.

Fixpoint plainb (f : nat) (t : tok) (s : st) : bool :=
  match f with
  | 0 => false
  | S f' =>
    match iter_core t s with
    | Ok Done _ | Ok DoneAckSelfClosing _ => true
    | Ok (Reprocess m t') s1 => plainb f' t' (set_mode m s1)
    | Ok (ReprocessForeign t') s1 => plainb f' t' s1
    | _ => false
    end
  end.

Lemma plainb_sound : forall f t s, plainb f t s = true -> plain f t s.
Proof.
  induction f as [|f IH]; intros t s H; cbn [plain plainb] in *; [discriminate|].
  destruct (iter_core t s) as [r s1 | n |]; try discriminate. destruct r; try discriminate; try exact I; apply IH; exact H.
Qed.

Lemma ptc_iter_ack_queue t s s1 q qs :
  iter_core t s = Ok DoneAckSelfClosing s1 ->
  ptc_iter t [] s = Ok (inl SContinue) s1 /\ ptc_iter t (q :: qs) s = Ok (inr (q, qs)) s1.
Proof. intro E. rewrite !ptc_iter_split. unfold bind. rewrite E. split; reflexivity. Qed.

Lemma ptc_iter_reprocess_foreign_queue t s t' s1 more :
  iter_core t s = Ok (ReprocessForeign t') s1 -> ptc_iter t more s = Ok (inr (t', more)) s1.
Proof. intro E. rewrite ptc_iter_split. unfold bind. rewrite E. reflexivity. Qed.

(* the loop over [t; q] is the loop over t followed by the loop over q *)
Theorem loop_queue q : forall f t s, plain f t s ->
  exists k s1, 1 <= k <= f /\
    (forall g, ptc_loop (k + g) t [] s = Ok SContinue s1) /\
    (forall g, ptc_loop (k + g) t [q] s = ptc_loop g q [] s1).
Proof.
  induction f as [|f IH]; intros t s P; cbn [plain] in P; [destruct P|].
  destruct (iter_core t s) as [r s0 | n |] eqn:E; try destruct P.
  destruct r; try destruct P.
  - (* Done *)
    destruct (ptc_iter_done_queue t s s0 q [] E) as (s2 & E1 & E2). exists 1, s2. split; [lia|].
    split; intro g; cbn [Nat.add ptc_loop]; unfold bind; [rewrite E1 | rewrite E2]; reflexivity.
  - (* DoneAckSelfClosing *)
    destruct (ptc_iter_ack_queue t s s0 q [] E) as (E1 & E2). exists 1, s0. split; [lia|].
    split; intro g; cbn [Nat.add ptc_loop]; unfold bind; [rewrite E1 | rewrite E2]; reflexivity.
  - (* Reprocess *)
    destruct (IH _ _ P) as (k & s1 & Lk & H1 & H2). exists (S k), s1. split; [lia|].
    destruct (ptc_iter_reprocess_queue t [] s m t0 s0 E [q]) as [Eq Enil].
    split; intro g; cbn [Nat.add ptc_loop]; unfold bind; [rewrite Enil; apply H1 | rewrite Eq; apply H2].
  - (* ReprocessForeign *)
    destruct (IH _ _ P) as (k & s1 & Lk & H1 & H2). exists (S k), s1. split; [lia|].
    split; intro g; cbn [Nat.add ptc_loop]; unfold bind;
      [rewrite (ptc_iter_reprocess_foreign_queue t s t0 s0 [] E); apply H1
      | rewrite (ptc_iter_reprocess_foreign_queue t s t0 s0 [q] E); apply H2].
Qed.

Lemma answered_iff {A} (r : res A) : answered r <-> r <> OutOfFuel.
Proof. destruct r; simpl; split; intro H; try exact I; try discriminate; [destruct H | apply H; reflexivity]. Qed.

Theorem loop_answer_fuel_independent f1 f2 t more s :
  ptc_loop f1 t more s <> OutOfFuel -> ptc_loop f2 t more s <> OutOfFuel ->
  ptc_loop f1 t more s = ptc_loop f2 t more s.
Proof. intros A1 A2. apply ptc_loop_det; apply answered_iff; assumption. Qed.
