(* ========================================================================
   TreeInvHelpers.v - specifications of the composite helpers of
   TreeModelHelpers.v (insert_element, active-formatting list, any-other-end-
   tag, adoption agency, reset the insertion mode, foreign content ...) with
   respect to [TInv].
   ======================================================================== *)
From Coq Require Import List NArith Bool Arith Lia String.
From HV Require Import Dom.DomSpec Tree.TreeTypes Tree.TreeTables Tree.TreeModelHelpers Tree.TreeModelRules
  Tree.TreeModel Tree.TreeHoare Tree.TreeInvDefs Tree.TreeInvSetters Tree.TreeInvPrims.
Import ListNotations.
Open Scope string_scope.
Open Scope list_scope.
Notation length := List.length (only parsing).

(* ---------- the list of active formatting elements ---------- *)
Definition af_entry_ok (s : st) (e : fentry) : Prop :=
  match e with
  | FMarker => True
  | FElem h t => known s h /\ ename_of s h = (ns_html, tg_name t) /\ is_formatting (tg_name t) = true
  end.

Lemma TInv_af_entries s : TInv s -> Forall (af_entry_ok s) (active_formatting s).
Proof.
  intro I. apply Forall_forall. intros [|h t] H; simpl; [exact Coq.Init.Logic.I|].
  destruct (inv_af _ I _ _ H) as [A B]. split; [|split; assumption].
  eapply known_handles_in; [apply inv_known; exact I | eapply in_handles_af; exact H].
Qed.

Lemma af_handles_known s af : Forall (af_entry_ok s) af -> Forall (known s) (af_handles af).
Proof.
  induction af as [|e t IH]; intro F; simpl; [constructor|]. inversion F as [|x l Fx Ft]; subst.
  destruct e as [|h tg]; simpl; [apply IH; exact Ft|]. constructor; [apply Fx | apply IH; exact Ft].
Qed.

Lemma TInv_set_af s af' : TInv s -> Forall (af_entry_ok s) af' -> TInv (set_active_formatting af' s).
Proof.
  intros [I1 I2 I3 I4 I5 I6 I7 I8 I9 I10 I11] F. constructor; try assumption.
  - destruct I2 as [A B]. split; [|exact B]. unfold state_handles in *. simpl.
    pose proof A as A1.
    apply Forall_app in A1. destruct A1 as [A1 A2]. apply Forall_app in A2. destruct A2 as [_ A3].
    apply Forall_app. split; [exact A1|]. apply Forall_app. split; [apply af_handles_known; exact F | exact A3].
  - unfold af_ok. simpl. intros h t H. rewrite Forall_forall in F. apply F in H. simpl in H. tauto.
Qed.

Lemma keeps_set_af s0 s af' : keeps s0 s -> Forall (af_entry_ok s) af' -> keeps s0 (set_active_formatting af' s).
Proof.
  intros [I S] F. split; [apply TInv_set_af; assumption|].
  eapply stable_trans; [exact S|]. apply stable_eqs; reflexivity.
Qed.

Lemma Forall_vremove {A} (P : A -> Prop) k l : Forall P l -> Forall P (vremove k l).
Proof. intro F. rewrite Forall_forall in *. intros x H. apply F. eapply In_vremove; exact H. Qed.
Lemma Forall_rev' {A} (P : A -> Prop) l : Forall P l -> Forall P (rev l).
Proof. intro F. rewrite Forall_forall in *. intros x H. apply F. apply in_rev. exact H. Qed.
Lemma Forall_vset {A} (P : A -> Prop) k x l : Forall P l -> P x -> Forall P (vset k x l).
Proof.
  intros F Px. unfold vset. apply Forall_app. split.
  - rewrite Forall_forall in *. intros y H. apply F. eapply In_firstn; exact H.
  - constructor; [exact Px|]. rewrite Forall_forall in *. intros y H. apply F. eapply In_skipn; exact H.
Qed.
Lemma Forall_vinsert {A} (P : A -> Prop) k x l : Forall P l -> P x -> Forall P (vinsert k x l).
Proof.
  intros F Px. unfold vinsert. apply Forall_app. split.
  - rewrite Forall_forall in *. intros y H. apply F. eapply In_firstn; exact H.
  - constructor; [exact Px|]. rewrite Forall_forall in *. intros y H. apply F. eapply In_skipn; exact H.
Qed.

Lemma clear_to_marker_sub l : forall x, In x (clear_to_marker_l l) -> In x l.
Proof. induction l as [|e t IH]; simpl; [tauto|]. destruct e; intros x H; [right; exact H | right; apply IH; exact H]. Qed.

Lemma wp_clear_active_formatting_to_marker s0 s (Q : unit -> st -> Prop) :
  keeps s0 s -> (forall s', keeps s0 s' -> open_elems s' = open_elems s -> Q tt s') ->
  wp clear_active_formatting_to_marker Q s.
Proof.
  intros K H. unfold clear_active_formatting_to_marker. rewrite wp_modify. apply H; [|reflexivity].
  apply keeps_set_af; [exact K|]. destruct K as [I _]. pose proof (TInv_af_entries _ I) as F.
  rewrite Forall_forall in *. intros x Hx. apply F. apply in_rev in Hx. apply clear_to_marker_sub in Hx. apply in_rev. exact Hx.
Qed.

Lemma wp_push_marker s0 s (Q : unit -> st -> Prop) :
  keeps s0 s -> (forall s', keeps s0 s' -> open_elems s' = open_elems s -> Q tt s') -> wp push_marker Q s.
Proof.
  intros K H. unfold push_marker. rewrite wp_modify. apply H; [|reflexivity].
  apply keeps_set_af; [exact K|]. destruct K as [I _]. unfold vpush. apply Forall_app. split; [apply TInv_af_entries; exact I|].
  constructor; [exact Coq.Init.Logic.I | constructor].
Qed.

(* ---------- insert_element ---------- *)
(* general form: the element is created and inserted; the push is left to the caller's lemma *)
(* [created_inserted s1 h name attrs]: the newest events are the insertion of h, preceded (possibly after a form
   association) by its creation with the given name and attributes *)
Definition created_inserted (s1 : st) (h : handle) (name : qualname) (attrs : list dattr) : Prop :=
  exists ins mid tm ip dup older,
    out s1 = EvOp ins :: mid ++ EvOp (OpCreateElement h name attrs tm ip dup) :: older /\ inserts ins (inl h).

Lemma wp_insert_element_gen s0 s (do_push : bool) ns name attrs dup (Q : handle -> st -> Prop) :
  keeps s0 s -> late s ->
  (forall h s1, keeps s0 s1 -> same_lists s s1 -> known s1 h -> ename_of s1 h = (ns, name) ->
       created_inserted s1 h (qn_elem ns name) attrs ->
       Q h (if do_push then set_open_elems (vpush (open_elems s1) h) s1 else s1)) ->
  wp (insert_element do_push ns name attrs dup) Q s.
Proof.
  intros K L H. unfold insert_element. rewrite wp_bind.
  eapply wp_appropriate_place; [exact K | exact L | discriminate |]. intros ip s1 K1 SL1 Ok1.
  destruct (ip_nodes ip) as [node1 node2] eqn:Eip. rewrite wp_bind, wp_get, wp_bind.
  unfold wp at 1. rewrite sink_create_element_eq.
  set (h := next_handle s1). set (s2 := new_elem_state _ _ _ s1).
  assert (K2 : keeps s0 s2) by (apply new_elem_keeps; exact K1).
  assert (I1 : TInv s1) by (destruct K1; assumption).
  assert (I2 : TInv s2) by (destruct K2; assumption).
  assert (S12 : stable s1 s2) by (exact (proj2 (new_elem_keeps s1 s1 _ _ _ (keeps_refl _ I1)))).
  assert (SL2 : same_lists s s2) by (eapply same_lists_trans; [exact SL1 | split; reflexivity]).
  assert (Kn : known s2 h) by apply new_elem_known.
  assert (En : ename_of s2 h = (ns, name)) by apply new_elem_name.
  assert (Ok2 : ip_ok s2 true ip) by (apply (ip_ok_stable s1 s2); [exact I1 | exact S12 | reflexivity | exact Ok1]).
  (* from here on relative to s2 *)
  assert (O2 : exists tm ip0, out s2 = EvOp (OpCreateElement h (qn_elem ns name) attrs tm ip0 dup) :: out s1) by (eexists; eexists; reflexivity).
  assert (X : forall s3, keeps s2 s3 -> same_lists s2 s3 -> (exists mid, out s3 = mid ++ out s2) ->
          wp (insert_at ip (inl h) ;; (if do_push then push h else ret tt) ;; ret h) Q s3).
  { intros s3 K3 SL3 [mid O3]. rewrite wp_bind. pose proof K3 as [I3 S3].
    eapply (wp_insert_at s2 s3 true); [exact K3 | apply (ip_ok_stable s2 s3); [exact I2 | exact S3 | exact (proj1 SL3) | exact Ok2]
                                       | apply known_child_ok; [exact I3 | eapply stable_known; eassumption] |].
    intros s4 K4 SL4 (ins & O4 & Ins4).
    assert (CI : created_inserted s4 h (qn_elem ns name) attrs).
    { destruct O2 as (tm & ip0 & O2). exists ins, mid, tm, ip0, dup, (out s1). rewrite O4, O3, O2. split; [reflexivity | exact Ins4]. }
    assert (SL : same_lists s s4) by (eapply same_lists_trans; [exact SL2 | eapply same_lists_trans; eassumption]).
    assert (K04 : keeps s0 s4) by (eapply keeps_trans; eassumption).
    assert (Kn4 : known s4 h) by (destruct K4 as [_ S4]; eapply stable_known; eassumption).
    assert (En4 : ename_of s4 h = (ns, name)) by (destruct K4 as [_ S4]; rewrite (stable_ename _ _ _ S4 Kn); exact En).
    specialize (H h s4 K04 SL Kn4 En4 CI).
    destruct do_push.
    - rewrite wp_bind. unfold push. rewrite wp_modify, wp_ret. exact H.
    - rewrite wp_bind, wp_ret, wp_ret. exact H. }
  rewrite wp_bind.
  destruct (form_elem s1) as [f|] eqn:Ef.
  2:{ rewrite andb_false_r. cbn [andb]. rewrite wp_ret. apply X; [apply keeps_refl; exact I2 | apply same_lists_refl | exists []; reflexivity]. }
  match goal with |- wp (if ?c then _ else _) _ _ => destruct c eqn:Cnd end.
  - rewrite wp_bind. apply wp_probe. rewrite wp_bind, wp_unwrap. exists f. split; [reflexivity|].
    rewrite wp_emit. apply X; [| split; reflexivity | eexists [_; _]; reflexivity].
    apply andb_true_iff in Cnd. destruct Cnd as [Cnd _]. apply andb_true_iff in Cnd. destruct Cnd as [Cnd NoT].
    apply andb_true_iff in Cnd. destruct Cnd as [Assoc _]. apply negb_true_iff in NoT.
    (* the insertion point holds elements: no template is open *)
    assert (N1 : known s2 node1 /\ match node2 with Some x => known s2 x | None => True end).
    { destruct ip as [p|sb|e p]; simpl in Eip; injection Eip as <- <-; simpl in Ok1.
      - split; [|exact Logic.I]. destruct Ok1 as [Kp|[_ Ct]]; [eapply stable_known; eassumption|].
        rewrite (Ct eq_refl) in NoT. discriminate.
      - destruct Ok1.
      - destruct Ok1 as [A B]. split; eapply stable_known; eassumption. }
    destruct N1 as [N1 N2].
    assert (Kf : known s1 f) by (eapply known_handles_in; [apply inv_known; exact I1 | apply in_handles_form; exact Ef]).
    assert (Nf : ename_of s1 f = (ns_html, nm "form")) by (apply (proj2 (inv_ptr _ I1)); exact Ef).
    set (s2' := set_out _ s2).
    assert (K2' : keeps s2 s2') by ((apply keeps_set_out; [|reflexivity]); apply keeps_refl; exact I2).
    apply keeps_emit; [exact K2' | reflexivity | reflexivity |]. cbn [op_okb].
    change (sv s2') with (sv s2).
    rewrite (v_named_ename s2 h _ Kn), En, Assoc.
    rewrite (v_named_ename s2 f _ (stable_known _ _ _ S12 Kf)), (stable_ename _ _ _ S12 Kf), Nf.
    rewrite (known_v_elem _ _ N1). cbn [andb in_set form_name_l existsb].
    replace (ename_eqb (ns_html, nm "form") (ns_html, nm "form")) with true by reflexivity. cbn [orb andb].
    destruct node2 as [x|]; [exact (known_v_elem _ _ N2) | reflexivity].
  - rewrite wp_ret. apply X; [apply keeps_refl; exact I2 | apply same_lists_refl | exists []; reflexivity].
Qed.

Lemma wp_insert_element s0 s (do_push : bool) ns name attrs dup (Q : handle -> st -> Prop) :
  keeps s0 s -> late s ->
  (forall h s1, keeps s0 s1 -> same_lists s s1 -> known s1 h -> ename_of s1 h = (ns, name) ->
       Q h (if do_push then set_open_elems (vpush (open_elems s1) h) s1 else s1)) ->
  wp (insert_element do_push ns name attrs dup) Q s.
Proof. intros K L H. apply (wp_insert_element_gen s0 s); [exact K | exact L |]. intros h s1 K1 SL Kn En _. apply H; assumption. Qed.


Lemma keeps_push s0 s h :
  keeps s0 s -> late s -> known s h ->
  ename_of s h <> (ns_html, nm "head") -> ename_of s h <> (ns_html, nm "template") ->
  keeps s0 (set_open_elems (vpush (open_elems s) h) s).
Proof.
  intros [I S] L K N1 N2. split; [apply TInv_push; assumption|].
  eapply stable_trans; [exact S|]. apply stable_eqs; reflexivity.
Qed.

(* the usual use: no push, or push of an element that is neither `head` nor `template` *)
Lemma wp_insert_element_std s0 s (do_push : bool) ns name attrs dup (Q : handle -> st -> Prop) :
  keeps s0 s -> late s ->
  (ns, name) <> (ns_html, nm "head") -> (ns, name) <> (ns_html, nm "template") ->
  (forall h s', keeps s0 s' ->
       open_elems s' = (if do_push then vpush (open_elems s) h else open_elems s) ->
       active_formatting s' = active_formatting s -> known s' h -> ename_of s' h = (ns, name) -> Q h s') ->
  wp (insert_element do_push ns name attrs dup) Q s.
Proof.
  intros K L N1 N2 H. eapply wp_insert_element; [exact K | exact L |].
  intros h s1 K1 [E1 E2] Kn En. destruct do_push.
  - apply H; [| simpl; rewrite E1; reflexivity | exact E2 | exact Kn | exact En].
    apply keeps_push; [exact K1 | eapply late_keeps; [exact K1|] | exact Kn | rewrite En; exact N1 | rewrite En; exact N2].
    destruct K as [_ S]. unfold late in *. rewrite <- (st_mode _ _ S). exact L.
  - apply H; assumption.
Qed.

(* ---------- formatting names ---------- *)
Lemma is_formatting_neq n m : is_formatting n = true -> is_formatting m = false -> n <> m.
Proof. intros A B E. subst. congruence. Qed.
Lemma formatting_not_head n : is_formatting n = true -> (ns_html, n) <> (ns_html, nm "head").
Proof. intros F E. injection E as E. revert E. apply is_formatting_neq; [exact F | reflexivity]. Qed.
Lemma formatting_not_template n : is_formatting n = true -> (ns_html, n) <> (ns_html, nm "template").
Proof. intros F E. injection E as E. revert E. apply is_formatting_neq; [exact F | reflexivity]. Qed.
Lemma formatting_not_html n : is_formatting n = true -> (ns_html, n) <> html_html.
Proof. intros F E. injection E as E. revert E. apply is_formatting_neq; [exact F | reflexivity]. Qed.

(* ---------- reconstruct the active formatting elements ---------- *)
Lemma recon_rewind_some s idx :
  idx <= length (active_formatting s) -> exists r, recon_rewind s idx = Some r /\ r <= idx /\
    (forall j, r <= j -> j < idx -> exists e, nth_error (active_formatting s) j = Some e /\ is_marker_or_open s e = false).
Proof.
  induction idx as [|i IH]; intro L; simpl.
  - exists 0. repeat split; [lia|]. intros j A B. lia.
  - destruct (nth_error (active_formatting s) i) as [e|] eqn:E.
    2:{ apply nth_error_None in E. lia. }
    destruct (is_marker_or_open s e) eqn:M.
    + exists (S i). repeat split; [lia|]. intros j A B. lia.
    + destruct (IH ltac:(lia)) as (r & Er & Lr & Hr). exists r. repeat split; [exact Er | lia |].
      intros j A B. destruct (Nat.eq_dec j i) as [->|N]; [exists e; split; assumption | apply Hr; lia].
Qed.

Lemma vset_length {A} k (x : A) l : k < length l -> length (vset k x l) = length l.
Proof.
  intro L. unfold vset. rewrite app_length.
  change (List.length (x :: skipn (S k) l)) with (S (List.length (skipn (S k) l))).
  rewrite firstn_length, skipn_length. lia.
Qed.
Lemma nth_error_firstn_lt {A} (l : list A) : forall k j, j < k -> nth_error (firstn k l) j = nth_error l j.
Proof.
  induction l as [|a t IH]; intros [|k] [|j] H; simpl; try lia; try reflexivity. apply IH. lia.
Qed.
Lemma nth_error_skipn_add {A} (l : list A) : forall k j, nth_error (skipn k l) j = nth_error l (k + j).
Proof. induction l as [|a t IH]; intros [|k] j; simpl; try reflexivity; [destruct j; reflexivity | apply IH]. Qed.
Lemma nth_error_vset_other {A} k (x : A) l j : j <> k -> k < length l -> nth_error (vset k x l) j = nth_error l j.
Proof.
  intros N L. unfold vset.
  destruct (Nat.lt_ge_cases j k) as [Lt|Ge].
  - rewrite nth_error_app1; [|rewrite firstn_length; lia]. apply nth_error_firstn_lt. exact Lt.
  - rewrite nth_error_app2; [|rewrite firstn_length; lia]. rewrite firstn_length, Nat.min_l; [|lia].
    destruct (j - k) as [|d] eqn:D; [lia|].
    change (nth_error (x :: skipn (S k) l) (S d)) with (nth_error (skipn (S k) l) d).
    rewrite nth_error_skipn_add. f_equal. lia.
Qed.

Lemma wp_recon_create s0 (Q : unit -> st -> Prop) :
  forall fuel idx s, keeps s0 s -> late s ->
  idx < length (active_formatting s) -> length (active_formatting s) - idx < fuel ->
  (forall j, idx <= j -> j < length (active_formatting s) ->
             exists h t, nth_error (active_formatting s) j = Some (FElem h t)) ->
  (forall s', keeps s0 s' -> Q tt s') ->
  wp (recon_create fuel idx) Q s.
Proof.
  induction fuel as [|f IH]; intros idx s K L Li Lf NM H; [lia|]. simpl.
  rewrite wp_bind, wp_get, wp_bind, wp_unwrap.
  destruct (NM idx ltac:(lia) Li) as (h0 & t & E). exists (FElem h0 t). split; [exact E|].
  pose proof K as [I S].
  destruct (inv_af _ I _ _ (nth_error_In _ _ E)) as [_ Ft].
  rewrite wp_bind.
  eapply wp_insert_element_std; [exact K | exact L | apply formatting_not_head; exact Ft | apply formatting_not_template; exact Ft |].
  intros new s1 K1 E1 E2 Kn En.
  rewrite wp_bind, wp_get, wp_bind, wp_assert. rewrite E2. split; [apply Nat.ltb_lt; exact Li|].
  rewrite wp_bind, wp_modify.
  assert (K2 : keeps s0 (set_active_formatting (vset idx (FElem new t) (active_formatting s1)) s1)).
  { apply keeps_set_af; [exact K1|]. apply Forall_vset; [destruct K1 as [I1 _]; apply TInv_af_entries; exact I1|].
    simpl. repeat split; assumption. }
  rewrite E2 in K2 |- *.
  destruct (Nat.eqb idx (length (active_formatting s) - 1)) eqn:Eq.
  - rewrite wp_ret. apply H. exact K2.
  - apply Nat.eqb_neq in Eq. apply IH; [exact K2 | | | | | exact H].
    + eapply late_keeps; [exact K2|]. destruct K as [_ S0]. unfold late in *. rewrite <- (st_mode _ _ S0). exact L.
    + cbn [active_formatting set_active_formatting]. rewrite vset_length; lia.
    + cbn [active_formatting set_active_formatting]. rewrite vset_length; lia.
    + cbn [active_formatting set_active_formatting]. intros j A B. rewrite vset_length in B; [|exact Li].
      rewrite nth_error_vset_other; [apply NM; lia | lia | exact Li].
Qed.

Lemma vlast_nth_error {A} (l : list A) x : vlast l = Some x -> nth_error l (length l - 1) = Some x.
Proof.
  intro V. rewrite (vlast_some_split _ _ V) at 1 2. rewrite app_length. simpl.
  rewrite nth_error_app2; [|lia]. replace (length (removelast l) + 1 - 1 - length (removelast l)) with 0 by lia. reflexivity.
Qed.

Lemma wp_reconstruct s0 s (Q : unit -> st -> Prop) :
  keeps s0 s -> late s -> (forall s', keeps s0 s' -> Q tt s') ->
  wp reconstruct_active_formatting_elements Q s.
Proof.
  intros K L H. unfold reconstruct_active_formatting_elements. rewrite wp_bind, wp_get.
  destruct (vlast (active_formatting s)) as [last|] eqn:V; [|rewrite wp_ret; apply H; exact K].
  destruct (is_marker_or_open s last) eqn:M; [apply wp_probe; apply H; (apply keeps_set_out; [|reflexivity]); exact K|].
  rewrite wp_bind. apply wp_probe. rewrite wp_bind, wp_unwrap.
  set (s1 := set_out _ s).
  assert (Len : 1 <= length (active_formatting s)).
  { destruct (active_formatting s); [discriminate | simpl; lia]. }
  destruct (recon_rewind_some s (length (active_formatting s) - 1) ltac:(lia)) as (r & Er & Lr & Hr).
  exists r. split; [exact Er|].
  assert (K1 : keeps s0 s1) by ((apply keeps_set_out; [|reflexivity]); exact K).
  apply (wp_recon_create s0); [exact K1 | exact L | simpl; lia | simpl; lia | | exact H].
  intros j A B. cbn [active_formatting s1 set_out] in *.
  destruct (Nat.eq_dec j (length (active_formatting s) - 1)) as [->|N].
  - pose proof (vlast_nth_error _ _ V) as E. destruct last as [|h t]; [discriminate|]. exists h, t. exact E.
  - destruct (Hr j A ltac:(lia)) as (e & Ee & Me). destruct e as [|h t]; [discriminate|]. exists h, t. exact Ee.
Qed.

(* ---------- indexed views of the two lists ---------- *)
Lemma In_combine_seq {A} (l : list A) : forall a i e, In (i, e) (combine (seq a (length l)) l) ->
  a <= i /\ nth_error l (i - a) = Some e.
Proof.
  induction l as [|x t IH]; intros a i e H; simpl in H; [contradiction|].
  destruct H as [H|H].
  - injection H as <- <-. split; [lia|]. rewrite Nat.sub_diag. reflexivity.
  - apply IH in H. destruct H as [L E]. split; [lia|]. replace (i - a) with (S (i - S a)) by lia. exact E.
Qed.

Lemma af_to_marker_In l : forall i h t, In (i, h, t) (af_to_marker l) -> In (i, FElem h t) l.
Proof.
  induction l as [|[j e] r IH]; intros i h t H; simpl in H; [contradiction|].
  destruct e as [|h' t']; [contradiction|]. destruct H as [H|H].
  - injection H as <- <- <-. left; reflexivity.
  - right. apply IH. exact H.
Qed.

Lemma af_end_to_marker_nth s i h t :
  In (i, h, t) (af_end_to_marker s) -> nth_error (active_formatting s) i = Some (FElem h t).
Proof.
  unfold af_end_to_marker. intro H. apply af_to_marker_In in H. apply in_rev in H.
  apply In_combine_seq in H. destruct H as [_ E]. rewrite Nat.sub_0_r in E. exact E.
Qed.

Lemma nth_error_lt {A} (l : list A) i x : nth_error l i = Some x -> i < length l.
Proof. intro H. apply nth_error_Some. congruence. Qed.

Lemma indexed_rev_nth {A} (l : list A) i e : In (i, e) (indexed_rev l) -> nth_error l i = Some e.
Proof.
  unfold indexed_rev. intro H. apply in_rev in H. apply In_combine_seq in H. destruct H as [_ E].
  rewrite Nat.sub_0_r in E. exact E.
Qed.

(* ---------- Noah's ark ---------- *)
Lemma noah_scan_first t l : forall fm n fm' n', fold_left (fun (acc : option nat * nat) (x : nat * handle * tag) =>
               if equiv_modulo_attr_order t (snd x) then (Some (fst (fst x)), S (snd acc)) else acc) l (fm, n) = (fm', n') ->
  n <= n' /\ (n < n' -> exists x, In x l /\ fm' = Some (fst (fst x))).
Proof.
  induction l as [|x r IH]; intros fm n fm' n' E; simpl in E.
  - injection E as <- <-. split; [lia|]. intro; lia.
  - destruct (equiv_modulo_attr_order t (snd x)).
    + destruct (IH _ _ _ _ E) as [A B]. simpl in A. split; [lia|]. intros _.
      destruct (Nat.eq_dec (S n) n') as [Eq|Ne].
      * (* no later match: the fold kept (Some (fst (fst x)), S n) *)
        clear B. exists x. split; [left; reflexivity|].
        assert (G : forall l fm n, (forall fm' n', fold_left (fun (acc : option nat * nat) (x : nat * handle * tag) =>
               if equiv_modulo_attr_order t (snd x) then (Some (fst (fst x)), S (snd acc)) else acc) l (fm, n) = (fm', n') ->
               n' = n -> fm' = fm)).
        { clear. induction l as [|y r IH]; intros fm n fm' n' E Hn; simpl in E; [congruence|].
          destruct (equiv_modulo_attr_order t (snd y)).
          - exfalso. assert (S n <= n').
            { clear -E. revert E. generalize (Some (fst (fst y))) (S n). induction r as [|z r IH]; intros a b E; simpl in E; [injection E; lia|].
              destruct (equiv_modulo_attr_order t (snd z)); [apply IH in E; simpl in E; lia | apply IH in E; exact E]. }
            lia.
          - eapply IH; eassumption. }
        eapply G; [exact E | simpl; lia].
      * destruct (B ltac:(simpl; lia)) as (y & Hy & Ey). exists y. split; [right; exact Hy | exact Ey].
    + destruct (IH _ _ _ _ E) as [A B]. split; [exact A|]. intro Lt. destruct (B Lt) as (y & Hy & Ey).
      exists y. split; [right; exact Hy | exact Ey].
Qed.

Lemma wp_create_formatting_element_for s0 s t (Q : handle -> st -> Prop) :
  keeps s0 s -> late s -> is_formatting (tg_name t) = true ->
  (forall h s', keeps s0 s' -> Q h s') ->
  wp (create_formatting_element_for t) Q s.
Proof.
  intros K L F H. unfold create_formatting_element_for. rewrite wp_bind, wp_get.
  destruct (noah_scan t (af_end_to_marker s)) as [first_match matches] eqn:E.
  rewrite wp_bind.
  assert (X : forall s1, keeps s0 s1 -> late s1 ->
     wp (elem <- insert_element true ns_html (tg_name t) (tg_attrs t) (tg_dup t) ;;
         modify (fun s => set_active_formatting (vpush (active_formatting s) (FElem elem t)) s) ;; ret elem) Q s1).
  { intros s1 K1 L1. rewrite wp_bind.
    eapply wp_insert_element_std; [exact K1 | exact L1 | apply formatting_not_head; exact F | apply formatting_not_template; exact F |].
    intros h s2 K2 E1 E2 Kn En. rewrite wp_bind, wp_modify, wp_ret. apply H.
    apply keeps_set_af; [exact K2|]. unfold vpush. apply Forall_app. split; [destruct K2 as [I2 _]; apply TInv_af_entries; exact I2|].
    constructor; [|constructor]. simpl. repeat split; assumption. }
  destruct (Nat.leb 3 matches) eqn:M.
  - rewrite wp_bind. apply wp_probe. rewrite wp_bind, wp_unwrap.
    unfold noah_scan in E. destruct (noah_scan_first _ _ _ _ _ _ E) as [_ B].
    apply Nat.leb_le in M. destruct (B ltac:(lia)) as (x & Hx & Ex).
    exists (fst (fst x)). split; [exact Ex|].
    destruct x as [[i h] tg]. apply af_end_to_marker_nth in Hx. simpl.
    rewrite wp_bind, wp_assert. split; [apply Nat.ltb_lt; eapply nth_error_lt; exact Hx|].
    rewrite wp_modify. apply X; [| exact L].
    apply keeps_set_af; [(apply keeps_set_out; [|reflexivity]); exact K|]. apply Forall_vremove.
    pose proof K as [I _]. pose proof (TInv_af_entries _ I) as FA. exact FA.
  - rewrite wp_ret. apply X; assumption.
Qed.

(* ---------- any other end tag ---------- *)
Lemma end_tag_scan_match s name l i : end_tag_scan s name l = EsMatch i ->
  exists e, In (i, e) l /\ html_elem_named_b s e name = true.
Proof.
  induction l as [|[j e] r IH]; simpl; [discriminate|].
  destruct (html_elem_named_b s e name) eqn:N.
  - intro H. injection H as <-. exists e. split; [left; reflexivity | exact N].
  - destruct (is_special s (ename_of s e)); [discriminate|]. intro H. destruct (IH H) as (x & A & B).
    exists x. split; [right; exact A | exact B].
Qed.

Lemma keeps_truncate s0 s k : keeps s0 s -> late s -> 1 <= k -> keeps s0 (set_open_elems (vtruncate k (open_elems s)) s).
Proof. apply keeps_shrink. Qed.

Lemma named_not_root s st r rest i e name :
  st = r :: rest -> ename_of s r = html_html -> nth_error st i = Some e ->
  ename_of s e = (ns_html, name) -> name <> nm "html" -> 1 <= i.
Proof.
  intros E Nr Ni Ne Nn. destruct i as [|i]; [|lia]. exfalso. rewrite E in Ni. simpl in Ni. injection Ni as <-.
  rewrite Nr in Ne. unfold html_html in Ne. injection Ne as X. congruence.
Qed.

Lemma implied_except_html except : implied_except except html_html = false.
Proof.
  unfold implied_except. destruct (ename_eqb html_html (ns_html, except)); [reflexivity | reflexivity].
Qed.

Lemma wp_process_end_tag_in_body s0 s name (Q : unit -> st -> Prop) :
  keeps s0 s -> late s -> name <> nm "html" ->
  (forall s', keeps s0 s' -> Q tt s') ->
  wp (process_end_tag_in_body name) Q s.
Proof.
  intros K L N H. unfold process_end_tag_in_body. rewrite wp_bind, wp_get.
  destruct (end_tag_scan s name (indexed_rev (open_elems s))) as [i| |] eqn:E.
  - destruct (end_tag_scan_match _ _ _ _ E) as (e & Hin & Ne).
    apply indexed_rev_nth in Hin. pose proof K as [I S].
    destruct (TInv_stack_nonempty _ I L) as (r & rest & Er & Nr).
    assert (Li : 1 <= i).
    { eapply named_not_root; [exact Er | exact Nr | exact Hin | apply ename_eqb_eq; exact Ne | exact N]. }
    rewrite wp_bind. unfold generate_implied_end_except.
    eapply wp_generate_implied_end_tags; [exact K | exact L | apply implied_except_html |].
    intros s1 K1 Sh1 _. rewrite wp_bind, wp_get, wp_bind.
    assert (L1 : late s1) by (eapply late_keeps; [exact K1|]; destruct K as [_ S0]; unfold late in *; rewrite <- (st_mode _ _ S0); exact L).
    assert (Fin : forall s2, keeps s0 s2 -> late s2 ->
              wp (modify (fun s => set_open_elems (vtruncate i (open_elems s)) s)) Q s2).
    { intros s2 K2 L2. rewrite wp_modify. apply H. apply keeps_truncate; assumption. }
    rewrite wp_when. destruct (negb _).
    + rewrite wp_bind. apply wp_probe. rewrite wp_parse_error. apply Fin; [(apply keeps_set_out; [|reflexivity]); (apply keeps_set_out; [|reflexivity]); exact K1 | exact L1].
    + apply Fin; assumption.
  - rewrite wp_bind. apply wp_probe. rewrite wp_parse_error. apply H. (apply keeps_set_out; [|reflexivity]). (apply keeps_set_out; [|reflexivity]). exact K.
  - rewrite wp_bind. apply wp_probe. rewrite wp_parse_error. apply H. (apply keeps_set_out; [|reflexivity]). (apply keeps_set_out; [|reflexivity]). exact K.
Qed.

(* ---------- raw text ---------- *)
Lemma TInv_to_text s :
  TInv s -> late s -> saving_mode (mode s) = false ->
  TInv (set_mode Text (set_orig_mode (Some (mode s)) s)).
Proof.
  intros I L N. pose proof I as [I1 I2 I3 I4 I5 I6 I7 I8 I9 I10 I11]. constructor; try assumption.
  - unfold root_ok in *. simpl. unfold late in L. rewrite L in I3. exact I3.
  - unfold orig_ok. simpl. repeat split; [exact N | exact L].
  - unfold pending_ok. simpl. intros _. apply pending_nil_of_nonsaving; assumption.
  - unfold head_ok in *. simpl. intros [A|(m & Em & Hm)]; [discriminate|]. injection Em as <-. apply I8. left. exact Hm.
Qed.

Definition text_entered (s s' : st) : Prop :=
  mode s' = Text /\ orig_mode s' = Some (mode s) /\ template_modes s' = template_modes s /\
  head_elem s' = head_elem s /\ form_elem s' = form_elem s /\ context_elem s' = context_elem s.

Lemma wp_to_raw_text_mode s k (Q : presult -> st -> Prop) :
  TInv s -> late s -> saving_mode (mode s) = false ->
  (forall s', TInv s' -> text_entered s s' -> Q (ToRawData k) s') ->
  wp (to_raw_text_mode k) Q s.
Proof.
  intros I L N H. unfold to_raw_text_mode. rewrite wp_bind, wp_modify, wp_ret.
  apply H; [apply TInv_to_text; assumption | repeat split].
Qed.

Lemma wp_parse_raw_data s0 s t k (Q : presult -> st -> Prop) :
  keeps s0 s -> late s -> saving_mode (mode s) = false ->
  (ns_html, tg_name t) <> (ns_html, nm "head") -> (ns_html, tg_name t) <> (ns_html, nm "template") ->
  (forall s', TInv s' -> text_entered s0 s' -> Q (ToRawData k) s') ->
  wp (parse_raw_data t k) Q s.
Proof.
  intros K L N N1 N2 H. unfold parse_raw_data. rewrite wp_bind. unfold insert_element_for.
  eapply wp_insert_element_std; [exact K | exact L | exact N1 | exact N2 |].
  intros h s1 K1 _ _ _ _. pose proof K1 as [I1 S1]. pose proof K as [_ S].
  assert (Em : mode s1 = mode s0) by (apply (st_mode _ _ S1)).
  assert (Em0 : mode s = mode s0) by (apply (st_mode _ _ S)).
  apply wp_to_raw_text_mode; [exact I1 | unfold late in *; congruence | congruence |].
  intros s' I' (A1 & A2 & A3 & A4 & A5 & A6). apply H; [exact I'|].
  repeat split; try congruence.
  - rewrite A3. apply (st_tm _ _ S1).
  - rewrite A4. apply (st_head _ _ S1).
  - rewrite A5. apply (st_form _ _ S1).
  - rewrite A6. apply (st_ctx _ _ S1).
Qed.

(* ---------- body_elem, check_body_end ---------- *)
Lemma wp_body_elem s (Q : option handle -> st -> Prop) :
  (forall b, (forall n, b = Some n -> nth_error (open_elems s) 1 = Some n /\ named s n "body" = true) -> Q b s) ->
  wp (body_elem s) Q s.
Proof.
  intro H. unfold body_elem. destruct (Nat.leb (length (open_elems s)) 1) eqn:Le.
  - rewrite wp_ret. apply H. intros n E; discriminate.
  - apply Nat.leb_gt in Le. rewrite wp_bind, wp_unwrap.
    destruct (nth_error (open_elems s) 1) as [n|] eqn:E; [|apply nth_error_None in E; lia].
    exists n. split; [reflexivity|]. destruct (named s n "body") eqn:Nb; rewrite wp_ret; apply H.
    + intros m Em. injection Em as <-. split; [reflexivity | exact Nb].
    + intros m Em; discriminate.
Qed.

Lemma wp_check_body_end s0 s (Q : unit -> st -> Prop) :
  keeps s0 s -> (forall s', keeps s0 s' -> same_lists s s' -> Q tt s') -> wp check_body_end Q s.
Proof.
  intros K H. unfold check_body_end. rewrite wp_bind, wp_get, wp_when. destruct (existsb _ _).
  - rewrite wp_parse_error. apply H; [(apply keeps_set_out; [|reflexivity]); exact K | split; reflexivity].
  - apply H; [exact K | apply same_lists_refl].
Qed.

(* ---------- close_p_element, close_the_cell ---------- *)
Lemma implied_minus_p_html : implied_minus_p html_html = false.
Proof. reflexivity. Qed.
Lemma cursory_html : in_set cursory_implied_end html_html = false.
Proof. reflexivity. Qed.
Lemma thorough_html : in_set thorough_implied_end html_html = false.
Proof. reflexivity. Qed.

Lemma late_of_keeps s0 s : keeps s0 s -> late s0 -> late s.
Proof. apply late_keeps. Qed.

(* generate_implied_end_tags followed by expect_to_close of a name that is not implied *)
Lemma wp_implied_then_close s0 s set name (Q : unit -> st -> Prop) :
  keeps s0 s -> late s -> set html_html = false -> set (ns_html, name) = false -> name <> nm "html" ->
  (exists x, In x (open_elems s) /\ ename_of s x = (ns_html, name)) ->
  (forall s', keeps s0 s' -> shrunk s s' -> Q tt s') ->
  wp (generate_implied_end_tags set ;; expect_to_close name) Q s.
Proof.
  intros K L Hs Hn N (x & Hin & Hx) H. pose proof K as [I S]. rewrite wp_bind.
  eapply (wp_generate_implied_end_tags s); [apply keeps_refl; exact I | exact L | exact Hs |].
  intros s1 K1 Sh1 Keep.
  assert (L1 : late s1) by (eapply late_keeps; eassumption).
  eapply (wp_expect_to_close s); [exact K1 | exact L1 | exact N | |].
  - exists x. split; [apply Keep; [exact Hin | rewrite Hx; exact Hn]|].
    destruct K1 as [_ S1]. rewrite (stable_ename _ _ _ S1); [exact Hx|]. eapply TInv_stack_known; eassumption.
  - intros s2 K2 Sh2. apply H; [eapply keeps_trans; eassumption | eapply shrunk_trans; eassumption].
Qed.

Lemma p_not_html : nm "p" <> nm "html". Proof. discriminate. Qed.

Lemma wp_close_p_element s0 s (Q : unit -> st -> Prop) :
  keeps s0 s -> late s ->
  (exists x, In x (open_elems s) /\ ename_of s x = (ns_html, nm "p")) ->
  (forall s', keeps s0 s' -> shrunk s s' -> Q tt s') ->
  wp close_p_element Q s.
Proof.
  intros K L X H. unfold close_p_element.
  eapply wp_implied_then_close; [exact K | exact L | apply implied_minus_p_html | reflexivity | apply p_not_html | exact X | exact H].
Qed.

Lemma wp_close_p_element_in_button_scope s0 s (Q : unit -> st -> Prop) :
  keeps s0 s -> late s ->
  (forall s', keeps s0 s' -> shrunk s s' -> Q tt s') ->
  wp close_p_element_in_button_scope Q s.
Proof.
  intros K L H. unfold close_p_element_in_button_scope. rewrite wp_bind, wp_get, wp_when.
  destruct (in_scope_named s button_scope (nm "p")) eqn:E.
  - apply in_scope_named_In in E. eapply wp_close_p_element; eassumption.
  - apply H; [exact K|]. destruct K as [I _]. apply shrunk_refl; assumption.
Qed.

Lemma td_th_html : in_set td_th html_html = false. Proof. reflexivity. Qed.

Lemma wp_close_the_cell s0 s (Q : unit -> st -> Prop) :
  keeps s0 s -> late s ->
  (exists x, In x (open_elems s) /\ in_set td_th (ename_of s x) = true) ->
  (forall s', keeps s0 s' -> shrunk s s' -> Q tt s') ->
  wp close_the_cell Q s.
Proof.
  intros K L (x & Hin & Hx) H. pose proof K as [I S]. unfold close_the_cell. rewrite wp_bind.
  eapply (wp_generate_implied_end_tags s); [apply keeps_refl; exact I | exact L | apply cursory_html |].
  intros s1 K1 Sh1 Keep. assert (L1 : late s1) by (eapply late_keeps; eassumption).
  rewrite wp_bind.
  eapply (wp_pop_until s); [exact K1 | exact L1 | apply td_th_html | |].
  - exists x. split.
    + apply Keep; [exact Hin|]. destruct (ename_of s x) as [a b] eqn:En.
      (* td / th are not implied end tags *)
      unfold in_set in Hx. apply existsb_exists in Hx. destruct Hx as (y & Hy & Ey). apply ename_eqb_eq in Ey. subst y.
      vm_compute in Hy. destruct Hy as [Hy|[Hy|[]]]; injection Hy as <- <-; reflexivity.
    + destruct K1 as [_ S1]. rewrite (stable_ename _ _ _ S1); [exact Hx|]. eapply TInv_stack_known; eassumption.
  - intros n s2 K2 Sh2. rewrite wp_bind.
    assert (Y : forall s3, keeps s s3 -> shrunk s s3 -> wp clear_active_formatting_to_marker Q s3).
    { intros s3 K3 Sh3. eapply wp_clear_active_formatting_to_marker; [exact K3|]. intros s4 K4 E4.
      apply H; [eapply keeps_trans; eassumption | eapply shrunk_stack_eq; eassumption]. }
    assert (Sh : shrunk s s2) by (eapply shrunk_trans; eassumption).
    rewrite wp_when. destruct (negb _).
    + rewrite wp_parse_error. apply Y; [(apply keeps_set_out; [|reflexivity]); exact K2 | eapply shrunk_stack_eq; [exact Sh | reflexivity]].
    + apply Y; assumption.
Qed.

(* ---------- reset the insertion mode appropriately ---------- *)
Lemma filter_In_length {A} (f : A -> bool) (l : list A) x : In x l -> f x = true -> 1 <= length (filter f l).
Proof.
  intros H F. assert (In x (filter f l)) by (apply filter_In; split; assumption).
  destruct (filter f l); [contradiction | simpl; lia].
Qed.

Lemma template_mode_props m : template_mode m = true -> early_mode m = false /\ saving_mode m = false /\ head_needed m = false.
Proof. destruct m; simpl; intro H; try discriminate; repeat split. Qed.

Lemma vlast_In' {A} (l : list A) x : vlast l = Some x -> In x l.
Proof. apply vlast_In. Qed.

Lemma wp_reset_loop s0 s (Q : imode -> st -> Prop) :
  keeps s0 s -> late s ->
  (forall m s', keeps s0 s' -> same_lists s s' -> early_mode m = false -> saving_mode m = false ->
                (head_needed m = true -> head_elem s <> None) -> Q m s') ->
  forall l, (exists pre, rev (open_elems s) = pre ++ l) -> wp (reset_loop s l) Q s.
Proof.
  intros K L H. pose proof K as [I S].
  assert (R : forall m k, early_mode m = false -> saving_mode m = false -> (head_needed m = true -> head_elem s <> None) ->
              wp (probe k ;; ret m) Q s).
  { intros m k A B C. rewrite wp_bind. apply wp_probe. rewrite wp_ret. apply H; try assumption; [(apply keeps_set_out; [|reflexivity]); exact K | split; reflexivity]. }
  induction l as [|node0 r IH]; intros [pre E]; cbn [reset_loop].
  - apply R; try reflexivity; try discriminate.
  - set (last := match r with [] => true | _ :: _ => false end).
    set (node := match last, context_elem s with true, Some ctx => ctx | _, _ => node0 end).
    destruct (ename_of s node) as [ns name] eqn:En.
    assert (Rec : wp (reset_loop s r) Q s) by (apply IH; exists (pre ++ [node0]); rewrite <- app_assoc; exact E).
    destruct (negb (str_eqb ns ns_html)) eqn:Nh; [exact Rec|].
    apply negb_false_iff in Nh. apply str_eqb_eq in Nh. subst ns.
    assert (In0 : In node0 (open_elems s)).
    { apply in_rev. rewrite E. apply in_or_app. right. left. reflexivity. }
    destruct ((is_n name "td" || is_n name "th") && negb last); [apply R; try reflexivity; try discriminate|].
    destruct (is_n name "tr"); [apply R; try reflexivity; try discriminate|].
    destruct (is_n name "tbody" || is_n name "thead" || is_n name "tfoot"); [apply R; try reflexivity; try discriminate|].
    destruct (is_n name "caption"); [apply R; try reflexivity; try discriminate|].
    destruct (is_n name "colgroup"); [apply R; try reflexivity; try discriminate|].
    destruct (is_n name "table"); [apply R; try reflexivity; try discriminate|].
    destruct (is_n name "template") eqn:Nt.
    { unfold is_n in Nt. apply str_eqb_eq in Nt. subst name.
      rewrite wp_bind. apply wp_probe. rewrite wp_unwrap.
      (* a template on the stack (or as context) => the stack of template modes is not empty *)
      assert (T1 : 1 <= tcount s).
      { unfold tcount. unfold node in En. destruct last eqn:El.
        - destruct (context_elem s) as [c|] eqn:Ec.
          + assert (is_template s c = true) by (unfold is_template, html_elem_named_b; rewrite En; apply ename_eqb_refl).
            rewrite H0. lia.
          + assert (1 <= length (filter (is_template s) (open_elems s))); [|lia].
            eapply filter_In_length; [exact In0|]. unfold is_template, html_elem_named_b. rewrite En. apply ename_eqb_refl.
        - assert (1 <= length (filter (is_template s) (open_elems s))); [|lia].
          eapply filter_In_length; [exact In0|]. unfold is_template, html_elem_named_b. rewrite En. apply ename_eqb_refl. }
      pose proof (inv_tm _ I) as Tm. unfold tm_ok in Tm.
      destruct (vlast (template_modes s)) as [m|] eqn:V.
      2:{ apply vlast_none in V. rewrite V in Tm. simpl in Tm. lia. }
      exists m. split; [reflexivity|].
      pose proof (inv_tmodes _ I) as TM. unfold tmodes_ok in TM. rewrite Forall_forall in TM.
      destruct (template_mode_props m (TM _ (vlast_In _ _ V))) as (A & B & C).
      apply H; try assumption; [(apply keeps_set_out; [|reflexivity]); exact K | split; reflexivity | rewrite C; discriminate]. }
    destruct (is_n name "head") eqn:Nhd.
    { destruct (negb last) eqn:Nl; [|exact Rec].
      apply R; try reflexivity. intros _. apply (inv_headstack _ I). exists node0. split; [exact In0|].
      unfold node in En. apply negb_true_iff in Nl. rewrite Nl in En. rewrite En.
      unfold is_n in Nhd. apply str_eqb_eq in Nhd. subst name. reflexivity. }
    destruct (is_n name "body"); [apply R; try reflexivity; try discriminate|].
    destruct (is_n name "frameset"); [apply R; try reflexivity; try discriminate|].
    destruct (is_n name "html"); [|exact Rec].
    destruct (head_elem s) eqn:Hd; apply R; try reflexivity; try discriminate.
Qed.

Lemma wp_reset_insertion_mode s0 s (Q : imode -> st -> Prop) :
  keeps s0 s -> late s ->
  (forall m s', keeps s0 s' -> same_lists s s' -> early_mode m = false -> saving_mode m = false ->
                (head_needed m = true -> head_elem s <> None) -> Q m s') ->
  wp reset_insertion_mode Q s.
Proof.
  intros K L H. unfold reset_insertion_mode. rewrite wp_bind, wp_get.
  apply (wp_reset_loop s0); [exact K | exact L | exact H | exists []; reflexivity].
Qed.

(* ---------- foreign content ---------- *)
Lemma wp_adjusted_current_node s (Q : handle -> st -> Prop) :
  TInv s -> late s -> (forall h, Q h s) -> wp adjusted_current_node Q s.
Proof.
  intros I L H. unfold adjusted_current_node. rewrite wp_bind, wp_get.
  destruct (open_elems s) as [|a [|b t]] eqn:E.
  - destruct (TInv_stack_nonempty _ I L) as (r & rest & Er & _). congruence.
  - destruct (context_elem s); [rewrite wp_ret; apply H | apply wp_current_node; [exact I | exact L | intros; apply H]].
  - destruct (context_elem s); apply wp_current_node; try assumption; intros; apply H.
Qed.

(* the namespace of the adjusted current node *)
Definition adjusted_ns (s : st) : str :=
  match open_elems s, context_elem s with
  | [_], Some ctx => fst (ename_of s ctx)
  | l, _ => match vlast l with Some h => fst (ename_of s h) | None => [] end
  end.

Lemma current_node_eq s h : vlast (open_elems s) = Some h -> current_node s = Ok h s.
Proof. intro V. unfold current_node, bind, get, unwrap. rewrite V. reflexivity. Qed.

Lemma adjusted_current_node_eq s : TInv s -> late s ->
  exists h, adjusted_current_node s = Ok h s /\ fst (ename_of s h) = adjusted_ns s.
Proof.
  intros I L. destruct (TInv_vlast _ I L) as [h V]. pose proof (current_node_eq _ _ V) as C.
  unfold adjusted_current_node, adjusted_ns, bind, get.
  destruct (open_elems s) as [|a [|b t]] eqn:E; [discriminate| |].
  - destruct (context_elem s) as [c|].
    + exists c. split; reflexivity.
    + exists h. split; [exact C|]. rewrite V. reflexivity.
  - destruct (context_elem s); exists h; (split; [exact C|]); rewrite V; reflexivity.
Qed.

Lemma wp_is_foreign s t (Q : bool -> st -> Prop) :
  TInv s -> late s ->
  (forall b, (b = true -> adjusted_ns s <> ns_html) -> Q b s) ->
  wp (is_foreign t) Q s.
Proof.
  intros I L H. unfold is_foreign.
  assert (F : Q false s) by (apply H; discriminate).
  destruct t; try (rewrite wp_ret; exact F).
  all: rewrite wp_bind, wp_get; destruct (open_elems s) as [|a l] eqn:E; [rewrite wp_ret; exact F|];
    rewrite wp_bind; destruct (adjusted_current_node_eq s I L) as (h & Eh & Ens);
    unfold wp at 1; rewrite Eh;
    destruct (str_eqb (fst (ename_of s h)) ns_html) eqn:Eq; [rewrite wp_ret; exact F|];
    assert (NH : adjusted_ns s <> ns_html) by (rewrite <- Ens; intro X; rewrite X, str_eqb_refl in Eq; discriminate);
    repeat match goal with
    | |- wp (if ?c then _ else _) _ _ => destruct c
    | |- wp (ret false) _ _ => rewrite wp_ret; exact F
    | |- wp (ret _) _ _ => rewrite wp_ret; apply H; intros _; exact NH
    end.
Qed.

Lemma ns_mathml_ne : ns_mathml <> ns_html. Proof. discriminate. Qed.
Lemma ns_svg_ne : ns_svg <> ns_html. Proof. discriminate. Qed.

Lemma wp_insert_element_foreign s0 s (do_push : bool) ns name attrs dup (Q : handle -> st -> Prop) :
  keeps s0 s -> late s -> ns <> ns_html ->
  (forall h s', keeps s0 s' -> Q h s') ->
  wp (insert_element do_push ns name attrs dup) Q s.
Proof.
  intros K L N H. eapply wp_insert_element_std; [exact K | exact L | | |].
  - intro E. injection E as E _. contradiction.
  - intro E. injection E as E _. contradiction.
  - intros h s' K' _ _ _ _. apply H. exact K'.
Qed.

Lemma wp_enter_foreign s0 s t ns (Q : presult -> st -> Prop) :
  keeps s0 s -> late s -> ns <> ns_html ->
  (forall r s', keeps s0 s' -> r = Done \/ r = DoneAckSelfClosing -> Q r s') ->
  wp (enter_foreign t ns) Q s.
Proof.
  intros K L N H. unfold enter_foreign. rewrite wp_bind, wp_get.
  destruct (tg_self t); rewrite wp_bind; (eapply wp_insert_element_foreign; [exact K | exact L | exact N |]);
    intros h s' K'; rewrite wp_ret; apply H; auto.
Qed.

Lemma wp_foreign_start_tag s0 s t (Q : presult -> st -> Prop) :
  keeps s0 s -> late s -> adjusted_ns s <> ns_html ->
  (forall r s', keeps s0 s' -> r = Done \/ r = DoneAckSelfClosing -> Q r s') ->
  wp (foreign_start_tag t) Q s.
Proof.
  intros K L N H. pose proof K as [I S]. unfold foreign_start_tag. rewrite wp_bind.
  destruct (adjusted_current_node_eq s I L) as (h & Eh & Ens). unfold wp at 1. rewrite Eh.
  rewrite wp_bind, wp_get. rewrite Ens.
  destruct (tg_self t); rewrite wp_bind; (eapply wp_insert_element_foreign; [exact K | exact L | exact N |]);
    intros h' s' K'; rewrite wp_ret; apply H; auto.
Qed.

Lemma foreign_pop_split_app s l : forall p q, foreign_pop_split s l = Some (p, q) ->
  l = p ++ q /\ Forall (fun h => fst (ename_of s h) <> ns_html) p.
Proof.
  induction l as [|e r IH]; intros p q E; simpl in E; [discriminate|].
  destruct (foreign_stop s e) eqn:F.
  - injection E as <- <-. split; [reflexivity | constructor].
  - destruct (foreign_pop_split s r) as [[p' q']|] eqn:E'; [|discriminate]. injection E as <- <-.
    destruct (IH _ _ eq_refl) as [A B]. split; [simpl; rewrite A; reflexivity|]. constructor; [|exact B].
    unfold foreign_stop in F. intro X. rewrite X, str_eqb_refl in F. discriminate.
Qed.
Lemma foreign_pop_split_some s l : (exists x, In x l /\ fst (ename_of s x) = ns_html) -> exists pq, foreign_pop_split s l = Some pq.
Proof.
  induction l as [|e r IH]; intros (x & Hin & Hx); [contradiction|]. simpl.
  destruct (foreign_stop s e) eqn:F; [eauto|].
  destruct Hin as [->|Hin].
  - unfold foreign_stop in F. rewrite Hx, str_eqb_refl in F. discriminate.
  - destruct (IH (ex_intro _ x (conj Hin Hx))) as [[p q] E]. rewrite E. eauto.
Qed.

Lemma wp_pop_to_html_or_integration_point s0 s (Q : unit -> st -> Prop) :
  keeps s0 s -> late s -> (forall s', keeps s0 s' -> shrunk s s' -> Q tt s') ->
  wp pop_to_html_or_integration_point Q s.
Proof.
  intros K L H. pose proof K as [I S]. unfold pop_to_html_or_integration_point. rewrite wp_bind, wp_get.
  destruct (TInv_stack_nonempty _ I L) as (r & tl & Er & Nr).
  destruct (foreign_pop_split_some s (rev (open_elems s))) as [[popped rest] E].
  { exists r. split; [rewrite Er, rev_root; apply in_or_app; right; left; reflexivity | rewrite Nr; reflexivity]. }
  rewrite E. destruct (foreign_pop_split_app _ _ _ _ E) as [A B].
  assert (Lq : 1 <= length rest).
  { rewrite Er in A. eapply (suffix_keeps_root (fun h => fst (ename_of s h) <> ns_html)); [exact A | exact B |].
    rewrite Nr. intro X. apply X. reflexivity. }
  pose proof (rev_suffix_prefix _ _ _ A) as P.
  assert (Kr : keeps s0 (set_open_elems (rev rest) s)) by (rewrite P; apply keeps_shrink; assumption).
  assert (Fin : forall s1, keeps s0 s1 -> same_lists (set_open_elems (rev rest) s) s1 ->
           wp (modify (set_open_elems (rev rest)) ;; mapM_ (fun e => emit (OpPop e)) popped) Q s1 -> True) by (intros; exact Logic.I).
  clear Fin.
  assert (Sh : forall s', same_lists (set_open_elems (rev rest) s) s' -> shrunk s s').
  { intros s' [E1 _]. exists (length rest). repeat split; [exact Lq | | rewrite E1; exact P].
    apply (f_equal (@length _)) in A. rewrite rev_length, app_length in A. lia. }
  assert (Fp : Forall (known s) popped).
  { apply Forall_forall. intros h Hh. eapply TInv_stack_known; [exact I|].
    apply in_rev. rewrite A. apply in_or_app. left. exact Hh. }
  rewrite wp_bind, wp_when. destruct (negb _).
  - apply wp_probe. rewrite wp_bind, wp_modify.
    eapply wp_mapM_pops.
    + assert (keeps s0 (set_open_elems (rev rest) (set_out (EvArm 30 39 :: out s) s))).
      { rewrite P. apply (keeps_shrink s0 (set_out (EvArm 30 39 :: out s) s)); [(apply keeps_set_out; [|reflexivity]); exact K | exact L | exact Lq]. }
      exact H0.
    + exact Fp.
    + intros s' K' SL. apply H; [exact K'|]. apply Sh. destruct SL as [E1 E2]. split; [exact E1 | exact E2].
  - rewrite wp_bind, wp_modify. eapply wp_mapM_pops; [exact Kr | exact Fp |]. intros s' K' SL. apply H; [exact K' | apply Sh; exact SL].
Qed.

(* ---------- the <meta> inspection ---------- *)
From HV Require Base.Utf8 Meta.MetaModel Meta.MetaSpec Meta.MetaProofs.

Definition scalar_tag (t : tag) : Prop := Forall (fun a => Utf8.scalars (d_value a)) (tg_attrs t).

(* the model's extraction is the WHATWG algorithm on the characters of the attribute value *)
Lemma wp_extract_encoding s c (Q : option str -> st -> Prop) :
  Utf8.scalars c -> Q (MetaSpec.extract_spec c) s -> wp (extract_encoding c) Q s.
Proof.
  intros Sc H. unfold extract_encoding.
  rewrite (MetaProofs.extract_impl_correct_match c Sc).
  destruct (MetaSpec.extract_spec c) as [l|] eqn:E; [|rewrite wp_ret; exact H].
  assert (Sl : Utf8.scalars l).
  { unfold MetaSpec.extract_spec in E. eapply MetaProofs.extract_loop_P; [exact Sc | exact E]. }
  rewrite (Utf8.decs_encs l Sl). rewrite wp_ret. exact H.
Qed.

Lemma get_attribute_scalars t n v : scalar_tag t -> get_attribute t n = Some v -> Utf8.scalars v.
Proof.
  unfold scalar_tag, get_attribute. intros F E. destruct (find (attr_is n) (tg_attrs t)) as [a|] eqn:Fa; [|discriminate].
  injection E as <-. apply find_some in Fa. destruct Fa as [Hin _]. rewrite Forall_forall in F. apply F. exact Hin.
Qed.

(* the label a meta-like start tag declares (WHATWG "a start tag whose tag name is meta", steps 1-2 without the
   encoding lookup / confidence tests): the charset attribute's value; otherwise, with http-equiv ~ content-type
   and a content attribute, the result of "extracting a character encoding from a meta element" *)
Definition model_label (t : tag) : option str :=
  match get_attribute t (nm "charset") with
  | Some c => Some c
  | None =>
    if match get_attribute t (nm "http-equiv") with Some v => eq_ignore_ascii_case v (nm "content-type") | None => false end
    then match get_attribute t (nm "content") with Some c => MetaSpec.extract_spec c | None => None end
    else None
  end.

(* the result is the indicator exactly when there is a label, and then one probe (49 / 50) was logged *)
Lemma wp_meta_like_result_out s0 s t (Q : presult -> st -> Prop) :
  keeps s0 s -> scalar_tag t ->
  (forall r s', keeps s0 s' ->
     ((r = DoneAckSelfClosing /\ model_label t = None /\ out s' = out s) \/
      (exists l k, r = PEncoding l /\ model_label t = Some l /\ (k = 49 \/ k = 50) /\ out s' = EvArm 30 k :: out s)) -> Q r s') ->
  wp (meta_like_result t) Q s.
Proof.
  intros K Sc H. unfold meta_like_result, model_label in *.
  destruct (get_attribute t (nm "charset")) as [cs|].
  { rewrite wp_bind. apply wp_probe. rewrite wp_ret. apply H; [(apply keeps_set_out; [|reflexivity]); exact K | right].
    exists cs, 49. split; [reflexivity | split; [reflexivity | split; [left; reflexivity | reflexivity]]]. }
  destruct (match get_attribute t (nm "http-equiv") with Some v => _ | None => false end).
  2:{ rewrite wp_ret. apply H; [exact K | left; repeat split]. }
  destruct (get_attribute t (nm "content")) as [c|] eqn:Ec.
  2:{ rewrite wp_ret. apply H; [exact K | left; repeat split]. }
  rewrite wp_bind. apply wp_extract_encoding; [eapply get_attribute_scalars; eassumption|].
  destruct (MetaSpec.extract_spec c) as [e|].
  - rewrite wp_bind. apply wp_probe. rewrite wp_ret. apply H; [(apply keeps_set_out; [|reflexivity]); exact K | right].
    exists e, 50. split; [reflexivity | split; [reflexivity | split; [right; reflexivity | reflexivity]]].
  - rewrite wp_ret. apply H; [exact K | left; repeat split].
Qed.

Lemma wp_meta_like_result s0 s t (Q : presult -> st -> Prop) :
  keeps s0 s -> scalar_tag t ->
  (forall r s', keeps s0 s' -> (r = DoneAckSelfClosing \/ exists l, r = PEncoding l) -> Q r s') ->
  wp (meta_like_result t) Q s.
Proof.
  intros K Sc H. apply (wp_meta_like_result_out s0 s t Q K Sc). intros r s' K' [(R & _)|(l & k & R & _)]; apply H; eauto.
Qed.
