(* ========================================================================
   TreeInvBasic.v - first facts about the tree-builder model:
   * dispatch: [first_match] returns the first arm whose head matches; the
     lists of heads and of arm bodies of every mode have the same length and
     every list of heads ends in a catch-all, so the dispatch of [arm_dispatch]
     never falls off the table (Panic site 90 is unreachable);
   * small executable examples (non-vacuity of the model).
   ======================================================================== *)
From Coq Require Import List NArith Bool Arith Lia String.
From HV Require Import Dom.DomSpec Tree.TreeTypes Tree.TreeTables Tree.TreeModelHelpers Tree.TreeModelRules
  Tree.TreeModel.
Import ListNotations.
Open Scope list_scope.
Notation length := List.length (only parsing).

(* ---------- dispatch ---------- *)
Definition head_matches (t : tok) (h : arm_head) : bool := existsb (atom_matches t) h.

Lemma first_match_le heads t : first_match heads t <= length heads.
Proof. induction heads as [|h r IH]; simpl; [lia|]. destruct (existsb _ h); lia. Qed.

(* the arm selected is the first one whose head matches *)
Lemma first_match_sound heads t k :
  first_match heads t = k -> k < length heads ->
  head_matches t (nth k heads []) = true /\
  forall j, j < k -> head_matches t (nth j heads []) = false.
Proof.
  revert k. induction heads as [|h r IH]; intros k E L; simpl in *; [lia|].
  unfold head_matches in *. destruct (existsb (atom_matches t) h) eqn:M.
  - subst k. split; [exact M|]. intros j Hj; lia.
  - destruct k as [|k]; [discriminate|]. injection E as E.
    destruct (IH k E ltac:(lia)) as [A B]. split; [exact A|].
    intros [|j] Hj; [exact M|]. apply B. lia.
Qed.

(* a list of heads whose last arm is a catch-all for the given class of tokens *)
Definition total_heads (heads : list arm_head) : Prop := forall t, first_match heads t < length heads.

Lemma total_of_wild heads : In AWild (last heads []) -> heads <> [] -> total_heads heads.
Proof.
  intros W NE t. induction heads as [|h r IH]; [contradiction|]. simpl.
  destruct (existsb (atom_matches t) h) eqn:M; [lia|].
  destruct r as [|h2 r2].
  - simpl in W. exfalso. apply (Bool.eq_true_false_abs _ (proj2 (existsb_exists _ _) (ex_intro _ AWild (conj W eq_refl))) M).
  - apply -> Nat.succ_lt_mono. apply IH; [exact W | discriminate].
Qed.

(* every token of the tree builder is a character run, NUL, comment, EOF, a start tag or an end tag *)
Lemma total_by_kinds heads :
  (exists h, In h heads /\ (In (AChars None) h \/ In AWild h)) ->
  (exists h, In h heads /\ (In ANull h \/ In AWild h)) ->
  (exists h, In h heads /\ (In AComment h \/ In AWild h)) ->
  (exists h, In h heads /\ (In AEof h \/ In AWild h)) ->
  (exists h, In h heads /\ (In AAnyStart h \/ In AWild h)) ->
  (exists h, In h heads /\ (In AAnyEnd h \/ In AWild h)) ->
  total_heads heads.
Proof.
  intros C N Cm E S En t.
  assert (X : exists h, In h heads /\ head_matches t h = true).
  { unfold head_matches.
    destruct t as [g|s|sp s| |].
    - destruct (tg_kind g) eqn:K.
      + destruct S as [h [I [A|A]]]; exists h; split; auto; apply existsb_exists;
          eexists; split; try exact A; simpl; rewrite ?K; reflexivity.
      + destruct En as [h [I [A|A]]]; exists h; split; auto; apply existsb_exists;
          eexists; split; try exact A; simpl; rewrite ?K; reflexivity.
    - destruct Cm as [h [I [A|A]]]; exists h; split; auto; apply existsb_exists; eexists; split; try exact A; reflexivity.
    - destruct C as [h [I [A|A]]]; exists h; split; auto; apply existsb_exists; eexists; split; try exact A; reflexivity.
    - destruct N as [h [I [A|A]]]; exists h; split; auto; apply existsb_exists; eexists; split; try exact A; reflexivity.
    - destruct E as [h [I [A|A]]]; exists h; split; auto; apply existsb_exists; eexists; split; try exact A; reflexivity. }
  destruct X as [h [I M]]. clear -I M. induction heads as [|h0 r IH]; [contradiction|]. simpl.
  fold (head_matches t h0). destruct (head_matches t h0) eqn:M0; [lia|].
  destruct I as [->|I]; [congruence|]. apply -> Nat.succ_lt_mono. auto.
Qed.

Ltac wild_total := apply total_of_wild; [vm_compute; tauto | discriminate].

Lemma total_initial : total_heads heads_initial. Proof. wild_total. Qed.
Lemma total_before_html : total_heads heads_before_html. Proof. wild_total. Qed.
Lemma total_before_head : total_heads heads_before_head. Proof. wild_total. Qed.
Lemma total_in_head : total_heads heads_in_head. Proof. wild_total. Qed.
Lemma total_in_head_noscript : total_heads heads_in_head_noscript. Proof. wild_total. Qed.
Lemma total_after_head : total_heads heads_after_head. Proof. wild_total. Qed.
Lemma total_text : total_heads heads_text. Proof. wild_total. Qed.
Lemma total_in_table : total_heads heads_in_table. Proof. wild_total. Qed.
Lemma total_in_table_text : total_heads heads_in_table_text. Proof. wild_total. Qed.
Lemma total_in_caption : total_heads heads_in_caption. Proof. wild_total. Qed.
Lemma total_in_column_group : total_heads heads_in_column_group. Proof. wild_total. Qed.
Lemma total_in_table_body : total_heads heads_in_table_body. Proof. wild_total. Qed.
Lemma total_in_row : total_heads heads_in_row. Proof. wild_total. Qed.
Lemma total_in_cell : total_heads heads_in_cell. Proof. wild_total. Qed.
Lemma total_in_template : total_heads heads_in_template. Proof. wild_total. Qed.
Lemma total_after_body : total_heads heads_after_body. Proof. wild_total. Qed.
Lemma total_in_frameset : total_heads heads_in_frameset. Proof. wild_total. Qed.
Lemma total_after_frameset : total_heads heads_after_frameset. Proof. wild_total. Qed.
Lemma total_after_after_body : total_heads heads_after_after_body. Proof. wild_total. Qed.
Lemma total_after_after_frameset : total_heads heads_after_after_frameset. Proof. wild_total. Qed.

(* the two `match`es of rules.rs without a wildcard arm: exhaustive by token kind *)
Ltac kinds_total :=
  apply total_by_kinds;
  (eexists; split; [| (left; vm_compute; tauto) || (right; vm_compute; tauto)]; vm_compute; tauto).
Lemma total_in_body : total_heads heads_in_body.
Proof.
  apply total_by_kinds.
  - exists (nth 1 heads_in_body []); split; [vm_compute; tauto | left; vm_compute; tauto].
  - exists (nth 0 heads_in_body []); split; [vm_compute; tauto | left; vm_compute; tauto].
  - exists (nth 2 heads_in_body []); split; [vm_compute; tauto | left; vm_compute; tauto].
  - exists (nth 7 heads_in_body []); split; [vm_compute; tauto | left; vm_compute; tauto].
  - exists (nth 49 heads_in_body []); split; [vm_compute; tauto | left; vm_compute; tauto].
  - exists (nth 50 heads_in_body []); split; [vm_compute; tauto | left; vm_compute; tauto].
Qed.
Lemma total_foreign : total_heads heads_foreign.
Proof.
  apply total_by_kinds.
  - exists (nth 1 heads_foreign []); split; [vm_compute; tauto | left; vm_compute; tauto].
  - exists (nth 0 heads_foreign []); split; [vm_compute; tauto | left; vm_compute; tauto].
  - exists (nth 2 heads_foreign []); split; [vm_compute; tauto | left; vm_compute; tauto].
  - exists (nth 7 heads_foreign []); split; [vm_compute; tauto | left; vm_compute; tauto].
  - exists (nth 5 heads_foreign []); split; [vm_compute; tauto | left; vm_compute; tauto].
  - exists (nth 6 heads_foreign []); split; [vm_compute; tauto | left; vm_compute; tauto].
Qed.

(* heads and bodies are aligned (same number of arms) in every mode *)
Definition aligned (heads : list arm_head) (bodies : list body) : Prop := length heads = length bodies.

Lemma aligned_all (b1 b2 b3 : body) :
  aligned heads_initial bodies_initial /\ aligned heads_before_html bodies_before_html /\
  aligned heads_before_head (bodies_before_head b1) /\ aligned heads_in_head (bodies_in_head_gen b1) /\
  aligned heads_in_head_noscript (bodies_in_head_noscript b1 b2) /\ aligned heads_after_head (bodies_after_head b1 b2) /\
  aligned heads_in_body (bodies_in_body_gen b1 b2 b3) /\ aligned heads_text bodies_text /\
  aligned heads_in_table bodies_in_table /\ aligned heads_in_table_text bodies_in_table_text /\
  aligned heads_in_caption bodies_in_caption /\ aligned heads_in_column_group bodies_in_column_group /\
  aligned heads_in_table_body bodies_in_table_body /\ aligned heads_in_row bodies_in_row /\
  aligned heads_in_cell bodies_in_cell /\ aligned heads_in_template (bodies_in_template_gen b1 b2) /\
  aligned heads_after_body bodies_after_body /\ aligned heads_in_frameset bodies_in_frameset /\
  aligned heads_after_frameset bodies_after_frameset /\ aligned heads_after_after_body bodies_after_after_body /\
  aligned heads_after_after_frameset bodies_after_after_frameset /\ aligned heads_foreign bodies_foreign.
Proof. repeat split; reflexivity. Qed.

(* hence [arm_dispatch] always finds a body: site 90 is unreachable *)
Lemma arm_dispatch_body mid heads bodies t :
  total_heads heads -> aligned heads bodies ->
  exists b, nth_error bodies (first_match heads t) = Some b /\
            arm_dispatch mid heads bodies t = (log_arm mid (first_match heads t) ;; b t).
Proof.
  intros T A. specialize (T t). rewrite A in T.
  destruct (nth_error bodies (first_match heads t)) as [b|] eqn:E.
  - exists b. split; [reflexivity|]. unfold arm_dispatch.
    rewrite (nth_error_nth _ _ _ E). reflexivity.
  - apply nth_error_None in E. lia.
Qed.
