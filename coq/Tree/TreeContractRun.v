(* ========================================================================
   TreeContractRun.v - C05 for runs of the tree-builder model: on every token
   run that respects the tokenizer protocol, the TreeSink operations emitted
   can only break the uncovered clauses of the contract (TreeContract.v).
   ======================================================================== *)
From Coq Require Import List NArith Bool Arith Lia String.
From HV Require Import Dom.DomSpec SinkSpec.Contract.
From HV Require Import Tree.TreeTypes Tree.TreeModelHelpers Tree.TreeModelRules Tree.TreeModel
  Tree.TreeInvDefs Tree.TreeInvMain Tree.TreeContract Tree.TreeSkeleton.
Import ListNotations.

(* the recorded calls of a state of the model: its operations, oldest first *)
Definition calls_of (s : st) : list call := map Op (chron (out s)).

Theorem TInv_contract s : TInv s ->
  forall k c, In (k, c) (monitor_all 0 DomSpec.init (calls_of s)) -> covered c = false.
Proof. intro I. apply trace_contract. apply TInv_trace_okb. exact I. Qed.

(* ops_respect_contract_partial.
   Full statement wanted: monitor init (calls_of s') = None for the final state s' of every run.
   Proved: every breach [monitor_all] (hence [monitor]) can report is a breach of one of the clauses NOT covered
   (covered = false): duplicate attribute names, child already has a parent, cycle, second doctype / doctype after
   an element, clone model sanity. *)
Theorem ops_respect_contract_partial o toks :
  protocol (init_state o) toks ->
  match run_tokens (init_state o) toks [] with
  | RunOk s' _ => forall k c, In (k, c) (monitor_all 0 DomSpec.init (calls_of s')) -> covered c = false
  | RunPanic n => n = shape_site
  | RunFuel => True
  end.
Proof.
  intro P. pose proof (tree_no_panic_document_partial o toks P) as H.
  destruct (run_tokens (init_state o) toks []); [apply TInv_contract; exact H | exact H | exact H].
Qed.

Theorem ops_respect_contract_fragment_partial o name attrs with_form toks :
  match init_fragment name attrs with_form (init_state o) with
  | Ok _ s0 =>
    protocol s0 toks ->
    match run_tokens s0 toks [] with
    | RunOk s' _ => forall k c, In (k, c) (monitor_all 0 DomSpec.init (calls_of s')) -> covered c = false
    | RunPanic n => n = shape_site
    | RunFuel => True
    end
  | _ => False
  end.
Proof.
  pose proof (tree_no_panic_fragment_partial o name attrs with_form toks) as H.
  destruct (init_fragment name attrs with_form (init_state o)) as [u s0 | n |]; [|exact H | exact H].
  intro P. specialize (H P). destruct (run_tokens s0 toks []); [apply TInv_contract; exact H | exact H | exact H].
Qed.

(* the sink view of the model and the abstract DOM built from its operations agree on every handle *)
Theorem TInv_sim s : TInv s -> Sim (run_from DomSpec.init (chron (out s))) (sv s).
Proof.
  intro I. pose proof (trace_sim (out s) (TInv_trace_okb s I)) as S.
  rewrite <- tsv_sig in S. rewrite (inv_sync _ I) in S. exact S.
Qed.

(* skeleton_leaves_partial: of the six clauses of SinkSpec.Skeleton.Skeleton, the last one (only containers have
   children, on every node of the arena) holds of the DOM built from the operations of every run *)
Definition dom_of (s : st) : dom := run_from DomSpec.init (chron (out s)).

Theorem skeleton_leaves_partial o toks :
  protocol (init_state o) toks ->
  match run_tokens (init_state o) toks [] with
  | RunOk s' _ => forall n, kids (dom_of s') n <> [] -> is_container (data_of (dom_of s') n) = true
  | RunPanic n => n = shape_site
  | RunFuel => True
  end.
Proof.
  intro P. pose proof (tree_no_panic_document_partial o toks P) as H.
  destruct (run_tokens (init_state o) toks []); [apply TInv_leaves; exact H | exact H | exact H].
Qed.

(* the stack of open elements seen in the DOM: its bottom entry is an HTML `html` element node, the head pointer
   an HTML `head` element node (both created by the sink) *)
Theorem skeleton_root_and_head_partial s : TInv s -> early_mode (mode s) = false ->
  exists r rest n nm at_ tm ip, open_elems s = r :: rest /\ resolve (dom_of s) r = Some n /\
    data_of (dom_of s) n = Element nm at_ tm ip /\ q_ns nm = ns_html /\ q_local nm = TreeTypes.nm "html".
Proof.
  intros I L. destruct (stack_bottom_is_html s I L) as (r & rest & E & N).
  assert (K : known s r).
  { destruct (inv_known _ I) as [A _]. rewrite Forall_forall in A. apply A. unfold state_handles. rewrite E. left. reflexivity. }
  destruct K as [e He]. pose proof (TInv_sim s I) as Sm.
  destruct (sim_elem _ _ Sm r e He) as (n & nm & at_ & tm & Nn & D & R1 & R2 & _).
  unfold ename_of in N. rewrite He in N. injection N as N1 N2.
  exists r, rest, n, nm, at_, tm, (e_ip e). repeat split; [exact E | exact Nn | exact D | rewrite R1; exact N1 | rewrite R2; exact N2].
Qed.

(* non-vacuity: the example run of TreeInvMain emits 20-odd operations and the judge accepts all of them *)
Example ex_contract_accepts :
  match run_tokens (init_state ex_opts) ex_tokens [] with
  | RunOk s' _ => Nat.leb 10 (List.length (calls_of s')) = true /\ monitor DomSpec.init (calls_of s') = None
  | _ => False
  end.
Proof. vm_compute. split; reflexivity. Qed.
(* and the partial check is not trivially true: an append below a comment is rejected by op_okb *)
Example ex_op_okb_rejects :
  trace_okb [EvOp (OpAppend 1 (inr [])); EvOp (OpCreateComment 1 [])] = false /\
  monitor DomSpec.init [Op (OpCreateComment 1 []); Op (OpAppend 1 (inr []))] = Some (1, CParentNotContainer).
Proof. vm_compute. split; reflexivity. Qed.
