(* ========================================================================
   TreeInvDefs.v - the invariant [TInv] of the tree-builder model, the handle
   bookkeeping for C18, and the elementary facts about how the state setters
   act on them.

   TInv s  (between any two steps of the Reprocess loop):
     sv_ok        the sink view is consistent: the `template` flag of an element is set
                  exactly for HTML `template` elements
     known_ok     every handle the tree builder holds has been handed out by the sink
     root_ok      in modes Initial / BeforeHtml the stack of open elements is empty;
                  in every other mode it is non-empty and its bottom is an HTML `html`
     orig_ok      orig_mode = Some _ exactly in modes Text / InTableText, and the saved mode
                  is neither of the two
     pending_ok   pending_table_text = [] outside InTableText
     af_ok        every element entry of the list of active formatting elements is an HTML
                  element whose name is the name of its tag, a formatting name
     tm_ok        #open HTML templates (+1 for a template context) <= |template_modes|
     head_ok      in InHead / InHeadNoscript / AfterHead (also as saved mode) the head pointer is set
     headstack_ok an HTML `head` on the stack of open elements => the head pointer is set
     ptr_ok       the head pointer names an HTML `head`, the form pointer an HTML `form`
     tmodes_ok    the stack of template insertion modes only holds InTemplate, InTable,
                  InColumnGroup, InTableBody, InRow, InBody
     sync_ok      the sink view is the one determined by the operations emitted so far
     trace_ok     every operation emitted so far was allowed by [op_okb] in the sink view of the moment
                  it was emitted (handles handed out before use and numbered consecutively, element-only
                  arguments are elements of the right kind, children go below containers, ...)
   ======================================================================== *)
From Coq Require Import List NArith Bool Arith Lia String.
From HV Require Import Dom.DomSpec Tree.TreeTypes Tree.TreeTables Tree.TreeModelHelpers Tree.TreeModelRules
  Tree.TreeModel Tree.TreeHoare.
Import ListNotations.
Open Scope string_scope.
Open Scope list_scope.
Notation length := List.length (only parsing).

(* keep [simpl] / [cbn] from turning string literals into code-point lists *)
Arguments nm _ : simpl never.

(* ---------- names ---------- *)
Definition html_html : ename := (ns_html, nm "html").
Definition formatting_names : list str := Eval vm_compute in
  map nm ["a"; "b"; "big"; "code"; "em"; "font"; "i"; "nobr"; "s"; "small"; "strike"; "strong"; "tt"; "u"].
Definition is_formatting (n : str) : bool := existsb (str_eqb n) formatting_names.

(* ---------- handles (C18) ---------- *)
Definition af_handles (l : list fentry) : list handle :=
  flat_map (fun e => match e with FElem h _ => [h] | FMarker => [] end) l.
Definition opt_list {A} (o : option A) : list A := match o with Some x => [x] | None => [] end.

(* every Handle-typed component of the tree-builder state (doc_handle = 0) *)
Definition state_handles (s : st) : list handle :=
  open_elems s ++ af_handles (active_formatting s) ++ opt_list (head_elem s) ++ opt_list (form_elem s)
    ++ opt_list (context_elem s).
Definition handles_of (s : st) : list handle := 0 :: state_handles s.

(* mirror of TreeBuilder::trace_handles (mod.rs:269-292): the order of the calls *)
Definition trace (s : st) : list handle :=
  [0] ++ open_elems s ++ af_handles (active_formatting s) ++ opt_list (head_elem s) ++ opt_list (form_elem s)
      ++ opt_list (context_elem s).

(* ---------- components ---------- *)
Definition sv_ok (s : st) : Prop :=
  forall h e, einfo_of s h = Some e ->
    e_tmpl e = ename_eqb (e_ns e, e_local e) (ns_html, nm "template").

(* [known s h]: h is an element the sink created (every handle the tree builder stores is one) *)
Definition known (s : st) (h : handle) : Prop := exists e, einfo_of s h = Some e.
Definition known_ok (s : st) : Prop := Forall (known s) (state_handles s) /\ 1 <= next_handle s.

Definition early_mode (m : imode) : bool := match m with Initial | BeforeHtml => true | _ => false end.
Definition root_ok (s : st) : Prop :=
  if early_mode (mode s) then open_elems s = []
  else exists r rest, open_elems s = r :: rest /\ ename_of s r = html_html.

Definition saving_mode (m : imode) : bool := match m with Text | InTableText => true | _ => false end.
Definition orig_ok (s : st) : Prop :=
  match orig_mode s with
  | Some m => saving_mode (mode s) = true /\ saving_mode m = false /\ early_mode m = false
  | None => saving_mode (mode s) = false
  end.

Definition pending_ok (s : st) : Prop :=
  mode s <> InTableText -> pending_table_text s = [].

Definition af_ok (s : st) : Prop :=
  forall h t, In (FElem h t) (active_formatting s) ->
    ename_of s h = (ns_html, tg_name t) /\ is_formatting (tg_name t) = true.

Definition is_template (s : st) (h : handle) : bool := html_elem_named_b s h (nm "template").
Definition tcount (s : st) : nat :=
  length (filter (is_template s) (open_elems s)) +
  match context_elem s with Some c => if is_template s c then 1 else 0 | None => 0 end.
Definition tm_ok (s : st) : Prop := tcount s <= length (template_modes s).

Definition head_needed (m : imode) : bool :=
  match m with InHead | InHeadNoscript | AfterHead => true | _ => false end.
Definition head_ok (s : st) : Prop :=
  (head_needed (mode s) = true \/ exists m, orig_mode s = Some m /\ head_needed m = true) ->
  head_elem s <> None.
Definition headstack_ok (s : st) : Prop :=
  (exists h, In h (open_elems s) /\ ename_of s h = (ns_html, nm "head")) -> head_elem s <> None.
Definition ptr_ok (s : st) : Prop :=
  (forall h, head_elem s = Some h -> ename_of s h = (ns_html, nm "head")) /\
  (forall f, form_elem s = Some f -> ename_of s f = (ns_html, nm "form")).

Definition template_mode (m : imode) : bool :=
  match m with InTemplate | InTable | InColumnGroup | InTableBody | InRow | InBody => true | _ => false end.
Definition tmodes_ok (s : st) : Prop := Forall (fun m => template_mode m = true) (template_modes s).

(* ---------- the emitted operations ---------- *)
(* operations without a handle argument: nothing to check, no effect on the sink view *)
Definition significant (ev : event) : bool :=
  match ev with
  | EvArm _ _ => false
  | EvOp op => match op with OpParseError | OpSetLine _ | OpSetQuirks _ | OpAppendDoctype _ _ _ => false | _ => true end
  end.
Definition sig (evs : list event) : list event := filter significant evs.

(* the sink view after the events [evs] (newest first): mirrors sink_create_element / sink_create_comment /
   sink_get_template_contents *)
Definition ev_sv (ev : event) (v : sview) : sview :=
  match ev with
  | EvOp (OpCreateElement _ name _ tmpl ip _) =>
    sv_push (Some {| e_ns := q_ns name ; e_local := q_local name ; e_ip := ip ; e_tmpl := tmpl |}) v
  | EvOp (OpCreateComment _ _) | EvOp (OpCreatePi _ _ _) => sv_push None v
  | EvOp (OpGetTemplateContents t r) =>
    if Nat.eqb r (length (sv_elems v)) then {| sv_elems := sv_elems v ++ [None] ; sv_tmpl := (t, r) :: sv_tmpl v |} else v
  | _ => v
  end.
Fixpoint tsv (evs : list event) : sview :=
  match evs with [] => init_sv | ev :: r => ev_sv ev (tsv r) end.

(* what a handle is, according to a sink view *)
Definition v_info (v : sview) (h : handle) : option einfo := nth h (sv_elems v) None.
Definition v_known (v : sview) (h : handle) : bool := Nat.ltb h (length (sv_elems v)).
Definition v_elem (v : sview) (h : handle) : bool := match v_info v h with Some _ => true | None => false end.
Definition v_named (v : sview) (h : handle) (names : list ename) : bool :=
  match v_info v h with Some e => in_set names (e_ns e, e_local e) | None => false end.
Definition v_contents (v : sview) (h : handle) : bool := existsb (fun p => Nat.eqb (snd p) h) (sv_tmpl v).
(* the Document, an element, or the contents fragment of a template *)
Definition v_container (v : sview) (h : handle) : bool := Nat.eqb h 0 || v_elem v h || v_contents v h.
(* an element or a comment: a known handle that is none of the documents / fragments *)
Definition v_created (v : sview) (h : handle) : bool :=
  v_known v h && negb (Nat.eqb h 0) && negb (v_contents v h).
Definition v_child (v : sview) (c : child) : bool := match c with inl h => v_created v h | inr _ => true end.

Definition template_name : list ename := [(ns_html, nm "template")].
Definition script_name : list ename := [(ns_html, nm "script")].
Definition form_name_l : list ename := [(ns_html, nm "form")].
Definition option_name : list ename := [(ns_html, nm "option")].
Definition annotation_xml_name : list ename := [(ns_mathml, nm "annotation-xml")].

(* the clauses of the TreeSink contract (SinkSpec.Contract.check_op) that need no knowledge of the tree:
   evaluated in the sink view [v] of the moment the operation is emitted *)
Definition op_okb (v : sview) (op : sinkop) : bool :=
  match op with
  | OpCreateElement h name _ tmpl ip _ =>
    Nat.eqb h (length (sv_elems v)) &&
    Bool.eqb tmpl (in_set template_name (q_ns name, q_local name)) &&
    implb ip (in_set annotation_xml_name (q_ns name, q_local name))
  | OpCreateComment h _ | OpCreatePi h _ _ => Nat.eqb h (length (sv_elems v))
  | OpAppend p c => v_container v p && v_child v c
  | OpAppendBeforeSibling _ _ => false      (* never emitted: insertion points are LastChild / TableFoster *)
  | OpAppendBasedOnParent e p c => v_elem v e && v_elem v p && v_child v c
  | OpAddAttrsIfMissing t _ => v_elem v t
  | OpRemoveFromParent t => v_known v t
  | OpReparentChildren a b => v_elem v a && v_elem v b
  | OpGetTemplateContents t r =>
    v_named v t template_name &&
    match find (fun p => Nat.eqb (fst p) t) (sv_tmpl v) with
    | Some p => Nat.eqb r (snd p)
    | None => Nat.eqb r (length (sv_elems v))
    end
  | OpMarkScriptStarted h => v_named v h script_name
  | OpPop h | OpElemName h | OpIsMathmlIp h => v_elem v h
  | OpAssociateForm t f e pe =>
    v_named v t form_associatable && v_named v f form_name_l && v_elem v e &&
    match pe with Some x => v_elem v x | None => true end
  | OpCloneOption o => v_named v o option_name
  | OpAppendDoctype _ _ _ | OpSetQuirks _ | OpSetLine _ | OpParseError => true
  end.
Definition ev_okb (v : sview) (ev : event) : bool :=
  match ev with EvOp op => op_okb v op | EvArm _ _ => true end.

(* every event was allowed when it was emitted ([evs] newest first) *)
Fixpoint trace_okb (evs : list event) : bool :=
  match evs with [] => true | ev :: r => ev_okb (tsv r) ev && trace_okb r end.

Definition sync_ok (s : st) : Prop := tsv (sig (out s)) = sv s.
Definition trace_ok (s : st) : Prop := trace_okb (sig (out s)) = true.

Record TInv (s : st) : Prop := {
  inv_sv : sv_ok s ;
  inv_known : known_ok s ;
  inv_root : root_ok s ;
  inv_orig : orig_ok s ;
  inv_pending : pending_ok s ;
  inv_af : af_ok s ;
  inv_tm : tm_ok s ;
  inv_head : head_ok s ;
  inv_headstack : headstack_ok s ;
  inv_ptr : ptr_ok s ;
  inv_tmodes : tmodes_ok s ;
  inv_sync : sync_ok s ;
  inv_trace : trace_ok s
}.

(* the part of the state the invariant talks about; everything else (opts, quirks,
   flags, emitted events) is irrelevant *)
Definition core_eq (s s' : st) : Prop :=
  mode s' = mode s /\ orig_mode s' = orig_mode s /\ template_modes s' = template_modes s /\
  pending_table_text s' = pending_table_text s /\ open_elems s' = open_elems s /\
  active_formatting s' = active_formatting s /\ head_elem s' = head_elem s /\ form_elem s' = form_elem s /\
  context_elem s' = context_elem s /\ sv s' = sv s /\ sig (out s') = sig (out s).

Lemma core_eq_refl s : core_eq s s.
Proof. repeat split. Qed.

Lemma core_eq_einfo s s' h : core_eq s s' -> einfo_of s' h = einfo_of s h.
Proof. intros (_ & _ & _ & _ & _ & _ & _ & _ & _ & E & _). unfold einfo_of. rewrite E. reflexivity. Qed.
Lemma core_eq_ename s s' h : core_eq s s' -> ename_of s' h = ename_of s h.
Proof. intro C. unfold ename_of. rewrite (core_eq_einfo _ _ _ C). reflexivity. Qed.
Lemma core_eq_next s s' : core_eq s s' -> next_handle s' = next_handle s.
Proof. intros (_ & _ & _ & _ & _ & _ & _ & _ & _ & E & _). unfold next_handle. rewrite E. reflexivity. Qed.
Lemma core_eq_handles s s' : core_eq s s' -> state_handles s' = state_handles s.
Proof. intros (_ & _ & _ & _ & E1 & E2 & E3 & E4 & E5 & _). unfold state_handles. rewrite E1, E2, E3, E4, E5. reflexivity. Qed.

Lemma TInv_core_eq s s' : core_eq s s' -> TInv s -> TInv s'.
Proof.
  intros C [I1 I2 I3 I4 I5 I6 I7 I8 I9 I10 I11 I12 I13].
  assert (EN : forall h, ename_of s' h = ename_of s h) by (intro; apply core_eq_ename; exact C).
  assert (EI : forall h, einfo_of s' h = einfo_of s h) by (intro; apply core_eq_einfo; exact C).
  destruct C as (Em & Eo & Et & Ep & Est & Eaf & Eh & Ef & Ec & Esv & Eout).
  assert (C : core_eq s s') by (repeat split; assumption).
  constructor.
  - intros h e H. rewrite EI in H. apply I1 in H. exact H.
  - destruct I2 as [A B]. split.
    + rewrite (core_eq_handles _ _ C). eapply Forall_impl; [|exact A]. intros h [e He]. exists e. rewrite EI. exact He.
    + rewrite (core_eq_next _ _ C). exact B.
  - unfold root_ok in *. rewrite Em, Est. destruct (early_mode (mode s)); [exact I3|].
    destruct I3 as (r & rest & E & N). exists r, rest. split; [exact E|]. rewrite EN. exact N.
  - unfold orig_ok in *. rewrite Eo, Em. exact I4.
  - unfold pending_ok in *. rewrite Em, Ep. exact I5.
  - unfold af_ok in *. rewrite Eaf. intros h t H. rewrite EN. apply I6. exact H.
  - unfold tm_ok, tcount, is_template, html_elem_named_b in *. rewrite Est, Et, Ec.
    replace (filter (fun h => ename_eqb (ename_of s' h) (ns_html, nm "template")) (open_elems s))
      with (filter (fun h => ename_eqb (ename_of s h) (ns_html, nm "template")) (open_elems s)).
    2:{ apply filter_ext. intro a. rewrite EN. reflexivity. }
    destruct (context_elem s) as [c|]; [rewrite EN|]; exact I7.
  - unfold head_ok in *. rewrite Em, Eo, Eh. exact I8.
  - unfold headstack_ok in *. rewrite Est, Eh. intros (h & A & B). apply I9. exists h. split; [exact A|].
    rewrite <- EN. exact B.
  - destruct I10 as [A B]. split.
    + intros h H. rewrite Eh in H. rewrite EN. apply A. exact H.
    + intros f H. rewrite Ef in H. rewrite EN. apply B. exact H.
  - unfold tmodes_ok in *. rewrite Et. exact I11.
  - unfold sync_ok in *. rewrite Eout, Esv. exact I12.
  - unfold trace_ok in *. rewrite Eout. exact I13.
Qed.

(* setters that do not touch the core *)
Lemma core_eq_set_out v s : sig v = sig (out s) -> core_eq s (set_out v s). Proof. intro H. repeat split. exact H. Qed.
Lemma core_eq_set_frameset_ok v s : core_eq s (set_frameset_ok v s). Proof. repeat split. Qed.
Lemma core_eq_set_ignore_lf v s : core_eq s (set_ignore_lf v s). Proof. repeat split. Qed.
Lemma core_eq_set_foster_parenting v s : core_eq s (set_foster_parenting v s). Proof. repeat split. Qed.
Lemma core_eq_set_quirks_mode v s : core_eq s (set_quirks_mode v s). Proof. repeat split. Qed.
Lemma core_eq_trans a b c : core_eq a b -> core_eq b c -> core_eq a c.
Proof.
  intros (A1 & A2 & A3 & A4 & A5 & A6 & A7 & A8 & A9 & A10 & A11) (B1 & B2 & B3 & B4 & B5 & B6 & B7 & B8 & B9 & B10 & B11).
  repeat split; congruence.
Qed.

(* ---------- emitted events and the invariant ---------- *)
Lemma sig_cons_sig ev l : significant ev = true -> sig (ev :: l) = ev :: sig l.
Proof. intro H. unfold sig. simpl. rewrite H. reflexivity. Qed.
Lemma sig_cons_insig ev l : significant ev = false -> sig (ev :: l) = sig l.
Proof. intro H. unfold sig. simpl. rewrite H. reflexivity. Qed.

(* the contents handles recorded by a checked trace are known handles *)
Lemma tsv_tmpl_lt : forall evs, trace_okb evs = true ->
  forall p, In p (sv_tmpl (tsv evs)) -> snd p < length (sv_elems (tsv evs)).
Proof.
  induction evs as [|ev r IH]; simpl; intros T p Hp; [contradiction|].
  apply andb_true_iff in T. destruct T as [Te Tr]. specialize (IH Tr).
  assert (Mono : forall v', sv_tmpl v' = sv_tmpl (tsv r) -> length (sv_elems (tsv r)) <= length (sv_elems v') ->
                 In p (sv_tmpl v') -> snd p < length (sv_elems v')).
  { intros v' E L H. rewrite E in H. specialize (IH p H). lia. }
  destruct ev as [op|a b]; [|apply IH; exact Hp].
  destruct op; simpl in Hp |- *; try (apply IH; exact Hp);
    try (unfold sv_push in *; simpl in *; rewrite app_length; simpl; specialize (IH p Hp); lia).
  destruct (Nat.eqb result (length (sv_elems (tsv r)))) eqn:E; [|apply IH; exact Hp].
  simpl in *. rewrite app_length. simpl. destruct Hp as [<-|Hp]; [apply Nat.eqb_eq in E; simpl; lia | specialize (IH p Hp); lia].
Qed.

(* emitting an operation that passes the check and creates nothing *)
Lemma TInv_emit s op :
  TInv s -> significant (EvOp op) = true -> ev_sv (EvOp op) (sv s) = sv s -> op_okb (sv s) op = true ->
  TInv (set_out (EvOp op :: out s) s).
Proof.
  intros [I1 I2 I3 I4 I5 I6 I7 I8 I9 I10 I11 I12 I13] Sg Esv Ok. constructor; try assumption.
  - unfold sync_ok in *. cbn [out set_out sv]. rewrite (sig_cons_sig _ _ Sg). cbn [tsv]. rewrite I12. exact Esv.
  - unfold trace_ok in *. cbn [out set_out]. rewrite (sig_cons_sig _ _ Sg). cbn [trace_okb ev_okb].
    unfold sync_ok in I12. rewrite I12, Ok, I13. reflexivity.
Qed.

(* views of [einfo_of] / [known] through the sink view *)
Lemma v_info_einfo s h : v_info (sv s) h = einfo_of s h. Proof. reflexivity. Qed.
Lemma known_v_elem s h : known s h -> v_elem (sv s) h = true.
Proof. intros [e H]. unfold v_elem. rewrite v_info_einfo, H. reflexivity. Qed.
Lemma known_v_known s h : known s h -> v_known (sv s) h = true.
Proof.
  intros [e H]. unfold v_known. apply Nat.ltb_lt. unfold einfo_of in H.
  destruct (Nat.lt_ge_cases h (length (sv_elems (sv s)))) as [L|L]; [exact L|].
  rewrite nth_overflow in H by exact L. discriminate.
Qed.
Lemma known_lt s h : known s h -> h < next_handle s.
Proof. intro K. apply known_v_known in K. apply Nat.ltb_lt in K. exact K. Qed.
Lemma v_named_of s h n names : einfo_of s h = Some n -> in_set names (e_ns n, e_local n) = true -> v_named (sv s) h names = true.
Proof. intros H N. unfold v_named. rewrite v_info_einfo, H. exact N. Qed.

(* handle 0 is the Document in every sink view of a trace; contents handles are not elements *)
Lemma tsv_head : forall evs, exists l, sv_elems (tsv evs) = None :: l.
Proof.
  induction evs as [|ev r [l IH]]; simpl; [exists []; reflexivity|].
  destruct ev as [op|a b]; [|exists l; exact IH].
  destruct op; simpl; try (exists l; exact IH); try (rewrite IH; eexists; simpl; reflexivity).
  destruct (Nat.eqb _ _); simpl; [rewrite IH; eexists; simpl; reflexivity | exists l; exact IH].
Qed.

Lemma nth_app_keep {A} (l m : list A) d i : i < length l -> nth i (l ++ m) d = nth i l d.
Proof. intro H. apply app_nth1. exact H. Qed.

Lemma tsv_tmpl_none : forall evs, trace_okb evs = true ->
  forall p, In p (sv_tmpl (tsv evs)) -> nth (snd p) (sv_elems (tsv evs)) None = None.
Proof.
  induction evs as [|ev r IH]; simpl; intros T p Hp; [contradiction|].
  apply andb_true_iff in T. destruct T as [Te Tr]. specialize (IH Tr).
  pose proof (tsv_tmpl_lt r Tr) as Lt.
  destruct ev as [op|a b]; [|apply IH; exact Hp].
  destruct op; simpl in Hp |- *; try (apply IH; exact Hp);
    try (unfold sv_push in *; simpl in *; rewrite nth_app_keep; [apply IH; exact Hp | apply Lt; exact Hp]).
  destruct (Nat.eqb result (length (sv_elems (tsv r)))) eqn:E; [|apply IH; exact Hp].
  simpl in *. destruct Hp as [<-|Hp].
  - apply Nat.eqb_eq in E. simpl. rewrite E. rewrite app_nth2; [|lia]. rewrite Nat.sub_diag. reflexivity.
  - rewrite nth_app_keep; [apply IH; exact Hp | apply Lt; exact Hp].
Qed.

Lemma v_contents_false v h : v_contents v h = false -> forall q, In q (sv_tmpl v) -> snd q <> h.
Proof.
  unfold v_contents. intros H q Hin E.
  assert (X : existsb (fun p => Nat.eqb (snd p) h) (sv_tmpl v) = true).
  { apply existsb_exists. exists q. split; [exact Hin | apply Nat.eqb_eq; exact E]. }
  rewrite X in H. discriminate.
Qed.
Lemma v_contents_true v h : v_contents v h = true -> exists q, In q (sv_tmpl v) /\ snd q = h.
Proof.
  unfold v_contents. intro H. apply existsb_exists in H. destruct H as (q & Hin & Hq). apply Nat.eqb_eq in Hq. eauto.
Qed.
Lemma v_contents_intro v h q : In q (sv_tmpl v) -> snd q = h -> v_contents v h = true.
Proof. intros Hin E. unfold v_contents. apply existsb_exists. exists q. split; [exact Hin | apply Nat.eqb_eq; exact E]. Qed.
