(* ========================================================================
   TreeInvDefs.v - the invariant [TInv] of the tree-builder model, the handle
   bookkeeping for C18, and the elementary facts about how the state setters
   act on them.

   TInv s  (between any two steps of the Reprocess loop):
     sv_ok        the sink view is consistent: the `template` flag of an element is set
                  exactly for HTML `template` elements
     known_ok     every handle the tree builder holds has been handed out by the sink
     root_ok      in modes Initial / BeforeHtml the stack of open elements is empty;
                  in every other mode it is non-empty and its bottom is an HTML `html`
     orig_ok      orig_mode = Some _ exactly in modes Text / InTableText, and the saved mode
                  is neither of the two
     pending_ok   pending_table_text = [] outside InTableText
     af_ok        every element entry of the list of active formatting elements is an HTML
                  element whose name is the name of its tag, a formatting name
     tm_ok        #open HTML templates (+1 for a template context) <= |template_modes|
     head_ok      in InHead / InHeadNoscript / AfterHead (also as saved mode) the head pointer is set
     headstack_ok an HTML `head` on the stack of open elements => the head pointer is set
     ptr_ok       the head pointer names an HTML `head`, the form pointer an HTML `form`
     tmodes_ok    the stack of template insertion modes only holds InTemplate, InTable,
                  InColumnGroup, InTableBody, InRow, InBody
   ======================================================================== *)
From Coq Require Import List NArith Bool Arith Lia String.
From HV Require Import Dom.DomSpec Tree.TreeTypes Tree.TreeTables Tree.TreeModelHelpers Tree.TreeModelRules
  Tree.TreeModel Tree.TreeHoare.
Import ListNotations.
Open Scope string_scope.
Open Scope list_scope.
Notation length := List.length (only parsing).

(* keep [simpl] / [cbn] from turning string literals into code-point lists *)
Arguments nm _ : simpl never.

(* ---------- names ---------- *)
Definition html_html : ename := (ns_html, nm "html").
Definition formatting_names : list str := Eval vm_compute in
  map nm ["a"; "b"; "big"; "code"; "em"; "font"; "i"; "nobr"; "s"; "small"; "strike"; "strong"; "tt"; "u"].
Definition is_formatting (n : str) : bool := existsb (str_eqb n) formatting_names.

(* ---------- handles (C18) ---------- *)
Definition af_handles (l : list fentry) : list handle :=
  flat_map (fun e => match e with FElem h _ => [h] | FMarker => [] end) l.
Definition opt_list {A} (o : option A) : list A := match o with Some x => [x] | None => [] end.

(* every Handle-typed component of the tree-builder state (doc_handle = 0) *)
Definition handles_of (s : st) : list handle :=
  0 :: open_elems s ++ af_handles (active_formatting s) ++ opt_list (head_elem s) ++ opt_list (form_elem s)
    ++ opt_list (context_elem s).

(* mirror of TreeBuilder::trace_handles (mod.rs:269-292): the order of the calls *)
Definition trace (s : st) : list handle :=
  [0] ++ open_elems s ++ af_handles (active_formatting s) ++ opt_list (head_elem s) ++ opt_list (form_elem s)
      ++ opt_list (context_elem s).

(* ---------- components ---------- *)
Definition sv_ok (s : st) : Prop :=
  forall h e, einfo_of s h = Some e ->
    e_tmpl e = ename_eqb (e_ns e, e_local e) (ns_html, nm "template").

Definition known (s : st) (h : handle) : Prop := h < next_handle s.
Definition known_ok (s : st) : Prop := Forall (known s) (handles_of s) /\ 1 <= next_handle s.

Definition early_mode (m : imode) : bool := match m with Initial | BeforeHtml => true | _ => false end.
Definition root_ok (s : st) : Prop :=
  if early_mode (mode s) then open_elems s = []
  else exists r rest, open_elems s = r :: rest /\ ename_of s r = html_html.

Definition saving_mode (m : imode) : bool := match m with Text | InTableText => true | _ => false end.
Definition orig_ok (s : st) : Prop :=
  match orig_mode s with
  | Some m => saving_mode (mode s) = true /\ saving_mode m = false /\ early_mode m = false
  | None => saving_mode (mode s) = false
  end.

Definition pending_ok (s : st) : Prop :=
  mode s <> InTableText -> pending_table_text s = [].

Definition af_ok (s : st) : Prop :=
  forall h t, In (FElem h t) (active_formatting s) ->
    ename_of s h = (ns_html, tg_name t) /\ is_formatting (tg_name t) = true.

Definition is_template (s : st) (h : handle) : bool := html_elem_named_b s h (nm "template").
Definition tcount (s : st) : nat :=
  length (filter (is_template s) (open_elems s)) +
  match context_elem s with Some c => if is_template s c then 1 else 0 | None => 0 end.
Definition tm_ok (s : st) : Prop := tcount s <= length (template_modes s).

Definition head_needed (m : imode) : bool :=
  match m with InHead | InHeadNoscript | AfterHead => true | _ => false end.
Definition head_ok (s : st) : Prop :=
  (head_needed (mode s) = true \/ exists m, orig_mode s = Some m /\ head_needed m = true) ->
  head_elem s <> None.
Definition headstack_ok (s : st) : Prop :=
  (exists h, In h (open_elems s) /\ ename_of s h = (ns_html, nm "head")) -> head_elem s <> None.
Definition ptr_ok (s : st) : Prop :=
  (forall h, head_elem s = Some h -> ename_of s h = (ns_html, nm "head")) /\
  (forall f, form_elem s = Some f -> ename_of s f = (ns_html, nm "form")).

Definition template_mode (m : imode) : bool :=
  match m with InTemplate | InTable | InColumnGroup | InTableBody | InRow | InBody => true | _ => false end.
Definition tmodes_ok (s : st) : Prop := Forall (fun m => template_mode m = true) (template_modes s).

Record TInv (s : st) : Prop := {
  inv_sv : sv_ok s ;
  inv_known : known_ok s ;
  inv_root : root_ok s ;
  inv_orig : orig_ok s ;
  inv_pending : pending_ok s ;
  inv_af : af_ok s ;
  inv_tm : tm_ok s ;
  inv_head : head_ok s ;
  inv_headstack : headstack_ok s ;
  inv_ptr : ptr_ok s ;
  inv_tmodes : tmodes_ok s
}.

(* the part of the state the invariant talks about; everything else (opts, quirks,
   flags, emitted events) is irrelevant *)
Definition core_eq (s s' : st) : Prop :=
  mode s' = mode s /\ orig_mode s' = orig_mode s /\ template_modes s' = template_modes s /\
  pending_table_text s' = pending_table_text s /\ open_elems s' = open_elems s /\
  active_formatting s' = active_formatting s /\ head_elem s' = head_elem s /\ form_elem s' = form_elem s /\
  context_elem s' = context_elem s /\ sv s' = sv s.

Lemma core_eq_refl s : core_eq s s.
Proof. repeat split. Qed.

Lemma core_eq_einfo s s' h : core_eq s s' -> einfo_of s' h = einfo_of s h.
Proof. intros (_ & _ & _ & _ & _ & _ & _ & _ & _ & E). unfold einfo_of. rewrite E. reflexivity. Qed.
Lemma core_eq_ename s s' h : core_eq s s' -> ename_of s' h = ename_of s h.
Proof. intro C. unfold ename_of. rewrite (core_eq_einfo _ _ _ C). reflexivity. Qed.
Lemma core_eq_next s s' : core_eq s s' -> next_handle s' = next_handle s.
Proof. intros (_ & _ & _ & _ & _ & _ & _ & _ & _ & E). unfold next_handle. rewrite E. reflexivity. Qed.
Lemma core_eq_handles s s' : core_eq s s' -> handles_of s' = handles_of s.
Proof. intros (_ & _ & _ & _ & E1 & E2 & E3 & E4 & E5 & _). unfold handles_of. rewrite E1, E2, E3, E4, E5. reflexivity. Qed.

Lemma TInv_core_eq s s' : core_eq s s' -> TInv s -> TInv s'.
Proof.
  intros C [I1 I2 I3 I4 I5 I6 I7 I8 I9 I10 I11].
  assert (EN : forall h, ename_of s' h = ename_of s h) by (intro; apply core_eq_ename; exact C).
  assert (EI : forall h, einfo_of s' h = einfo_of s h) by (intro; apply core_eq_einfo; exact C).
  destruct C as (Em & Eo & Et & Ep & Est & Eaf & Eh & Ef & Ec & Esv).
  assert (C : core_eq s s') by (repeat split; assumption).
  constructor.
  - intros h e H. rewrite EI in H. apply I1 in H. exact H.
  - destruct I2 as [A B]. split.
    + rewrite (core_eq_handles _ _ C). unfold known. rewrite (core_eq_next _ _ C). exact A.
    + rewrite (core_eq_next _ _ C). exact B.
  - unfold root_ok in *. rewrite Em, Est. destruct (early_mode (mode s)); [exact I3|].
    destruct I3 as (r & rest & E & N). exists r, rest. split; [exact E|]. rewrite EN. exact N.
  - unfold orig_ok in *. rewrite Eo, Em. exact I4.
  - unfold pending_ok in *. rewrite Em, Ep. exact I5.
  - unfold af_ok in *. rewrite Eaf. intros h t H. rewrite EN. apply I6. exact H.
  - unfold tm_ok, tcount, is_template, html_elem_named_b in *. rewrite Est, Et, Ec.
    replace (filter (fun h => ename_eqb (ename_of s' h) (ns_html, nm "template")) (open_elems s))
      with (filter (fun h => ename_eqb (ename_of s h) (ns_html, nm "template")) (open_elems s)).
    2:{ apply filter_ext. intro a. rewrite EN. reflexivity. }
    destruct (context_elem s) as [c|]; [rewrite EN|]; exact I7.
  - unfold head_ok in *. rewrite Em, Eo, Eh. exact I8.
  - unfold headstack_ok in *. rewrite Est, Eh. intros (h & A & B). apply I9. exists h. split; [exact A|].
    rewrite <- EN. exact B.
  - destruct I10 as [A B]. split.
    + intros h H. rewrite Eh in H. rewrite EN. apply A. exact H.
    + intros f H. rewrite Ef in H. rewrite EN. apply B. exact H.
  - unfold tmodes_ok in *. rewrite Et. exact I11.
Qed.

(* setters that do not touch the core *)
Lemma core_eq_set_out v s : core_eq s (set_out v s). Proof. repeat split. Qed.
Lemma core_eq_set_frameset_ok v s : core_eq s (set_frameset_ok v s). Proof. repeat split. Qed.
Lemma core_eq_set_ignore_lf v s : core_eq s (set_ignore_lf v s). Proof. repeat split. Qed.
Lemma core_eq_set_foster_parenting v s : core_eq s (set_foster_parenting v s). Proof. repeat split. Qed.
Lemma core_eq_set_quirks_mode v s : core_eq s (set_quirks_mode v s). Proof. repeat split. Qed.
Lemma core_eq_trans a b c : core_eq a b -> core_eq b c -> core_eq a c.
Proof.
  intros (A1 & A2 & A3 & A4 & A5 & A6 & A7 & A8 & A9 & A10) (B1 & B2 & B3 & B4 & B5 & B6 & B7 & B8 & B9 & B10).
  repeat split; congruence.
Qed.
