(* ========================================================================
   TreeSplit.v - the tree builder's side of chunking independence (C03):
   delivering a run of text as one character token or as several does not
   change the tree.

   PROVED
   * [apply_append_text_twice]  abstract DOM: two append-text operations on the same parent are one append of the
     concatenation (DomSpec.append_text merges with a trailing text node) - the source of every equality below.
   * [text_mode_split]  in "text" mode (RCDATA / RAWTEXT / script data / PLAINTEXT: title, textarea, style, script,
     ...; where long text normally arrives) processing TChars (a ++ b) and processing TChars a then TChars b, from
     the same state, give the same answers and states that agree on every field except the event log
     ([same_core]: mode, saved mode, stacks, pointers, flags incl. ignore_lf - a leading LF after <textarea> / <pre>
     is dropped from the first piece in both runs -, quirks mode, sink view) and have the same DOM.
     Hypotheses: TInv, the ghost shape facts, foster parenting off, current node not a template (it never is in this
     mode, but the invariant does not say so).
   * [pending_nonspace_split]  table text: the whole-pending-text whitespace test is invariant under splitting.
   * [process_token_text], [append_text_eq]: the equations of the model the above rest on.
   * [log_irrelevant_holds]  the rest of a run cannot see the event log: processing a token from two states with the
     same core and the same DOM gives the same answer and again states with the same core and the same DOM
     (from TreeFrame.v: one frame lemma per definition of the model); [run_tokens_same_core] for whole runs.
   CONTINUED IN
   * TreeSplitBody.v: the split theorem for "in body" and the modes "in caption" / "in template" / "in cell" that
     delegate character tokens to it (reconstruct-the-active-formatting-elements is a no-op the second time, frameset-ok is
     the OR over the pieces).
   * TreeSplitForeign.v: the split theorem for character tokens handled by the foreign-content rules.
   * TreeSplitEarly.v: tokens of white space only in the modes that cut character tokens into runs.
   * TreeSplitRun.v: whole token lists related by [splits], under the side condition that every cut token is
     processed in a covered state ([tree_split_run_partial]); the list of what is not covered is in its header.
   * TreeSplitTable.v: the flush of the pending table text when it is white space only.
   NOT PROVED
   * the rest of the table-text machinery (the pending lists differ by [(a++b)] / [a; b]: the relation between the
     two runs has to identify them between the cut and the flush; the foster-parenting branch of the flush);
     tokens with other characters than white space in the early modes that split off leading white space
     (SplitWhitespace: the runs of a ++ b are not the runs of a followed by the runs of b when a run spans the cut); foster parenting,
     template current nodes.  NUL characters are separate tokens.
   ======================================================================== *)
From Coq Require Import List NArith Bool Arith Lia String.
From HV Require Import Dom.DomSpec Dom.DomLemmas SinkSpec.Contract SinkSpec.ContractProofs.
From HV Require Import Tree.TreeTypes Tree.TreeTables Tree.TreeModelHelpers Tree.TreeModelRules Tree.TreeModel
  Tree.TreeHoare Tree.TreeInvBasic Tree.TreeInvDefs Tree.TreeInvPrims Tree.TreeInvHelpers Tree.TreeInvDispatch
  Tree.TreeInvRules Tree.TreeInvModes Tree.TreeInvMain Tree.TreeContract Tree.TreeSkeleton Tree.TreeContractRun Tree.TreeFrame.
Import ListNotations.
Open Scope string_scope.
Open Scope list_scope.
Notation length := List.length (only parsing).

(* ---------- the abstract DOM: two appends of text = one append of the concatenation ---------- *)
Lemma upd_upd {A} i (f g : A -> A) l : upd i f (upd i g l) = upd i (fun x => f (g x)) l.
Proof.
  revert i. induction l as [|y t IH]; intro i; [destruct i; reflexivity|].
  destruct i as [|i]; simpl; [reflexivity | rewrite IH; reflexivity].
Qed.
Lemma upd_ext {A} i (f g : A -> A) l : (forall x, f x = g x) -> upd i f l = upd i g l.
Proof.
  intro H. revert i. induction l as [|y t IH]; intro i; [destruct i; reflexivity|].
  destruct i as [|i]; simpl; [rewrite H; reflexivity | rewrite IH; reflexivity].
Qed.
Lemma upd_app_old {A} i (f : A -> A) l x : i < length l -> upd i f (l ++ [x]) = upd i f l ++ [x].
Proof.
  revert i. induction l as [|y t IH]; intros i H; simpl in *; [lia|].
  destruct i as [|i]; [reflexivity|]. simpl. rewrite IH by lia. reflexivity.
Qed.
Lemma upd_app_new {A} (f : A -> A) l x : upd (length l) f (l ++ [x]) = l ++ [f x].
Proof. induction l as [|y t IH]; simpl; [reflexivity | rewrite IH; reflexivity]. Qed.
Lemma upd_comm {A} i j (f g : A -> A) l : i <> j -> upd i f (upd j g l) = upd j g (upd i f l).
Proof.
  revert i j. induction l as [|y t IH]; intros i j N; [destruct i, j; reflexivity|].
  destruct i as [|i], j as [|j]; simpl; try reflexivity; [contradiction | rewrite IH by lia; reflexivity].
Qed.

Lemma set_data_twice d l x y : set_data (set_data d l x) l y = set_data d l y.
Proof.
  unfold set_data, set_nodes. simpl. f_equal. rewrite upd_upd. apply upd_ext. intro n. reflexivity.
Qed.

Lemma last_some_app (ks : list nid) x : last (map Some (ks ++ [x])) None = Some x.
Proof. rewrite map_app. simpl. apply last_last. Qed.

Lemma append_text_twice d pn a b : pn < size d ->
  DomSpec.append_text (DomSpec.append_text d pn a) pn b = DomSpec.append_text d pn (a ++ b).
Proof.
  intro Lp. unfold DomSpec.append_text at 2 3.
  assert (Fresh : DomSpec.append_text (append_node (alloc d (DomSpec.Text a) []) pn (size d)) pn b =
                  append_node (alloc d (DomSpec.Text (a ++ b)) []) pn (size d)).
  { unfold DomSpec.append_text, append_node.
    assert (Kp : kids (alloc d (DomSpec.Text a) []) pn = kids d pn).
    { rewrite kids_alloc. replace (Nat.eqb pn (size d)) with false by (symmetry; apply Nat.eqb_neq; lia). reflexivity. }
    rewrite Kp. rewrite kids_set_kids. rewrite size_alloc.
    rewrite Nat.eqb_refl. replace (Nat.ltb pn (S (size d))) with true by (symmetry; apply Nat.ltb_lt; lia). cbn [andb].
    rewrite last_some_app. rewrite data_set_kids, data_alloc_new.
    (* both sides as node lists *)
    assert (Kp' : kids (alloc d (DomSpec.Text (a ++ b)) []) pn = kids d pn).
    { rewrite kids_alloc. replace (Nat.eqb pn (size d)) with false by (symmetry; apply Nat.eqb_neq; lia). reflexivity. }
    rewrite Kp'. unfold set_data, set_kids, set_nodes, alloc, set_nodes, size in *. simpl. f_equal.
    rewrite upd_comm by lia. rewrite upd_app_new. rewrite (upd_app_old pn) by exact Lp. rewrite (upd_app_old pn) by exact Lp.
    reflexivity. }
  destruct (last (map Some (kids d pn)) None) as [l|] eqn:El; [|exact Fresh].
  destruct (data_of d l) eqn:Ed; try exact Fresh.
  (* the last child is a text node: both appends extend it *)
  assert (Ll : l < size d).
  { destruct (Nat.lt_ge_cases l (size d)) as [L|G]; [exact L|]. rewrite data_oob in Ed by exact G. discriminate Ed. }
  unfold DomSpec.append_text. rewrite kids_set_data, El, data_set_data, Nat.eqb_refl.
  replace (Nat.ltb l (size d)) with true by (symmetry; apply Nat.ltb_lt; exact Ll). cbn [andb].
  rewrite set_data_twice, <- app_assoc. reflexivity.
Qed.

Lemma names_append_text d pn a : d_names (DomSpec.append_text d pn a) = d_names d.
Proof. exact (proj1 (proj2 (ext_append_text d pn a))). Qed.

Theorem apply_append_text_twice d p a b :
  (forall n, resolve d p = Some n -> n < size d) ->
  DomSpec.apply (DomSpec.apply d (OpAppend p (inr a))) (OpAppend p (inr b)) = DomSpec.apply d (OpAppend p (inr (a ++ b))).
Proof.
  intro B. cbn [DomSpec.apply]. unfold with1, with_child, do_append.
  destruct (resolve d p) as [pn|] eqn:R; [|rewrite R; reflexivity].
  unfold resolve. rewrite names_append_text. fold (resolve d p). rewrite R.
  apply append_text_twice. apply B. reflexivity.
Qed.

(* ---------- the model: appending text at the current node ---------- *)
Lemma append_text_eq s x target :
  foster_parenting s = false -> vlast (open_elems s) = Some target -> named s target "template" = false ->
  append_text x s = Ok Done (set_out (EvOp (OpAppend target (inr x)) :: EvArm 30 2 :: out s) s).
Proof.
  intros Fp V Nt. unfold append_text, insert_appropriately, appropriate_place, current_node.
  unfold bind, get, unwrap. rewrite V. unfold ret. cbn beta iota. rewrite Fp, Nt. reflexivity.
Qed.

(* what a character token does in "text" mode (RCDATA / RAWTEXT / script data / PLAINTEXT) *)
Definition strip_lf (ign : bool) (x : str) : str :=
  match x with c :: r => if ign && N.eqb c 0x0A then r else x | [] => x end.

Definition line_state (line : N) (s : st) : st :=
  if negb (N.eqb line 1) then set_out (EvOp (OpSetLine line) :: out s) s else s.

Definition text_token_state (s : st) (line : N) (x : str) (target : handle) : st :=
  let s0 := set_ignore_lf false (line_state line s) in
  let x' := strip_lf (ignore_lf s) x in
  let s1 := if negb (Nat.eqb (length x') (length x)) then set_out (EvArm 30 45 :: out s0) s0 else s0 in
  match x' with
  | [] => s1
  | _ :: _ => set_out (EvOp (OpAppend target (inr x')) :: EvArm 30 2 :: EvArm (mode_id Text) 0 :: out s1) s1
  end.

Lemma is_foreign_chars_html s sp x : TInv s -> late s -> adjusted_ns s = ns_html -> is_foreign (KChars sp x) s = Ok false s.
Proof.
  intros I L A. unfold is_foreign, bind, get.
  destruct (TInv_stack_nonempty _ I L) as (r & rest & E & _). rewrite E.
  destruct (adjusted_current_node_eq s I L) as (h & Eh & Nh). rewrite Eh. cbn beta iota.
  rewrite Nh, A. replace (str_eqb ns_html ns_html) with true by reflexivity. reflexivity.
Qed.

Lemma shape_check_ok s : Hshape s -> shape_check s = Ok tt s.
Proof. intro H. unfold shape_check, bind, get. unfold Hshape in H. rewrite H. reflexivity. Qed.

Lemma text_adjusted_html s : Hshape s -> mode s = Text -> adjusted_ns s = ns_html.
Proof.
  intros Sh Em. destruct (DomSpec.str_eqb (adjusted_ns s) ns_html) eqn:E; [apply DomLemmas.str_eqb_eq; exact E|].
  exfalso. apply (foreign_not_text s Sh); [|exact Em]. intro X. rewrite X in E.
  replace (DomSpec.str_eqb ns_html ns_html) with true in E by reflexivity. discriminate E.
Qed.

(* states that differ at most in what the rest of the run cannot observe: the event log *)
Definition same_core (s s' : st) : Prop := set_out [] s = set_out [] s'.

Lemma hshape_same_core s s' : same_core s s' -> hshape_b s' = hshape_b s.
Proof.
  intro C. rewrite <- (hshape_b_set_out [] s), <- (hshape_b_set_out [] s'). unfold same_core in C. rewrite C. reflexivity.
Qed.

Definition prelude_state (s : st) (line : N) (x : str) : st :=
  let s0 := set_ignore_lf false (line_state line s) in
  if negb (Nat.eqb (length (strip_lf (ignore_lf s) x)) (length x)) then set_out (EvArm 30 45 :: out s0) s0 else s0.

Lemma pt_prelude_chars s line x :
  pt_prelude (TChars x) line s =
  Ok (match strip_lf (ignore_lf s) x with [] => inl SContinue | c :: r => inr (KChars NotSplit (c :: r)) end)
     (prelude_state s line x).
Proof.
  unfold pt_prelude, prelude_state, line_state, when, emit, probe, log_arm, modify, bind, get, ret.
  destruct (negb (N.eqb line 1)); cbn beta iota zeta; cbn [ignore_lf set_out];
    fold (strip_lf (ignore_lf s) x);
    destruct (negb (Nat.eqb (length (strip_lf (ignore_lf s) x)) (length x)));
    destruct (strip_lf (ignore_lf s) x); reflexivity.
Qed.

Lemma first_match_text_chars sp x : first_match heads_text (KChars sp x) = 0.
Proof. rewrite (first_match_chars_ext _ sp x []). destruct sp; reflexivity. Qed.

Lemma ptc_text s x target :
  TInv s -> mode s = Text -> Hshape s -> foster_parenting s = false ->
  vlast (open_elems s) = Some target -> named s target "template" = false ->
  process_to_completion (KChars NotSplit x) s =
  Ok SContinue (set_out (EvOp (OpAppend target (inr x)) :: EvArm 30 2 :: EvArm (mode_id Text) 0 :: out s) s).
Proof.
  intros I Em Sh Fp V Nt. assert (L : late s) by (unfold late; rewrite Em; reflexivity).
  unfold process_to_completion. unfold bind at 1. unfold get.
  unfold ptc_fuel. change (64 + 4 * length (tk_text (KChars NotSplit x)) + 4 * length (open_elems s) + 4 * length (template_modes s))
    with (S (63 + 4 * length (tk_text (KChars NotSplit x)) + 4 * length (open_elems s) + 4 * length (template_modes s))).
  cbn [ptc_loop]. unfold ptc_iter. cbv zeta.
  unfold bind at 1. unfold bind at 1. rewrite (shape_check_ok s Sh).
  unfold bind at 1. rewrite (is_foreign_chars_html s NotSplit x I L (text_adjusted_html s Sh Em)).
  unfold bind at 1. unfold bind at 1. unfold get. rewrite Em. cbn [step]. unfold step_text, arm_dispatch. cbv zeta.
  rewrite first_match_text_chars. unfold bind at 1. unfold log_arm, modify. cbn [nth bodies_text]. unfold b_append_text.
  cbn [tk_text].
  rewrite (append_text_eq _ x target); [reflexivity | exact Fp | exact V | exact Nt].
Qed.

Lemma hshape_b_set_ignore_lf v s : hshape_b (set_ignore_lf v s) = hshape_b s.
Proof.
  unfold hshape_b, in_scope.
  change (mode (set_ignore_lf v s)) with (mode s). change (open_elems (set_ignore_lf v s)) with (open_elems s).
  change (dev_on (set_ignore_lf v s) 11) with (dev_on s 11). change (ename_of (set_ignore_lf v s)) with (ename_of s).
  change (scope_for (set_ignore_lf v s)) with (scope_for s).
  rewrite (in_scope_l_ext s (set_ignore_lf v s)); [reflexivity | intro h; reflexivity].
Qed.

Lemma prelude_state_ok s line x : TInv s -> Hshape s ->
  TInv (prelude_state s line x) /\ Hshape (prelude_state s line x).
Proof.
  intros I Sh. unfold prelude_state, line_state.
  assert (A : forall s0, TInv s0 /\ Hshape s0 -> forall ev, significant ev = false -> TInv (set_out (ev :: out s0) s0) /\ Hshape (set_out (ev :: out s0) s0)).
  { intros s0 [I0 S0] ev Hev. split; [eapply TInv_core_eq; [apply core_eq_set_out; apply sig_cons_insig; exact Hev | exact I0] | apply Hshape_set_out; exact S0]. }
  assert (B : forall s0, TInv s0 /\ Hshape s0 -> TInv (set_ignore_lf false s0) /\ Hshape (set_ignore_lf false s0)).
  { intros s0 [I0 S0]. split; [eapply TInv_core_eq; [apply core_eq_set_ignore_lf | exact I0] | unfold Hshape; rewrite hshape_b_set_ignore_lf; exact S0]. }
  destruct (negb (N.eqb line 1)); destruct (negb (Nat.eqb _ _)); repeat (first [apply A; [|reflexivity] | apply B]); split; assumption.
Qed.

Theorem process_token_text s line x target :
  TInv s -> mode s = Text -> Hshape s -> foster_parenting s = false ->
  vlast (open_elems s) = Some target -> named s target "template" = false ->
  process_token (TChars x) line s = Ok SContinue (text_token_state s line x target).
Proof.
  intros I Em Sh Fp V Nt. unfold process_token. unfold bind. rewrite pt_prelude_chars.
  unfold text_token_state. fold (prelude_state s line x).
  destruct (strip_lf (ignore_lf s) x) as [|c r] eqn:Ex; [reflexivity|].
  destruct (prelude_state_ok s line x I Sh) as [I1 S1].
  rewrite (ptc_text (prelude_state s line x) (c :: r) target); [reflexivity | exact I1 | | exact S1 | | |].
  all: unfold prelude_state, line_state; destruct (negb (N.eqb line 1)); destruct (negb (Nat.eqb _ _)); assumption.
Qed.

(* the DOM after a character token in "text" mode *)
Lemma dom_of_cons_op s ev (s' : st) : out s' = ev :: out s ->
  dom_of s' = match ev with EvOp op => DomSpec.apply (dom_of s) op | EvArm _ _ => dom_of s end.
Proof.
  intro E. unfold dom_of. rewrite E, chron_cons, run_from_app. destruct ev; [reflexivity|].
  simpl. reflexivity.
Qed.

Lemma dom_of_same_out s s' : out s' = out s -> dom_of s' = dom_of s.
Proof. intro E. unfold dom_of. rewrite E. reflexivity. Qed.

Lemma dom_prelude_state s line x : dom_of (prelude_state s line x) = dom_of s.
Proof.
  unfold prelude_state, line_state, dom_of.
  destruct (negb (N.eqb line 1)); destruct (negb (Nat.eqb _ _)); cbn [out set_out set_ignore_lf];
    rewrite ?chron_cons, ?run_from_app; cbn [run_from fold_left DomSpec.apply]; rewrite ?app_nil_r; reflexivity.
Qed.

Lemma dom_text_token_state s line x target :
  dom_of (text_token_state s line x target) =
  match strip_lf (ignore_lf s) x with
  | [] => dom_of s
  | c :: r => DomSpec.apply (dom_of s) (OpAppend target (inr (c :: r)))
  end.
Proof.
  unfold text_token_state. fold (prelude_state s line x).
  destruct (strip_lf (ignore_lf s) x) as [|c r]; [apply dom_prelude_state|].
  rewrite <- (dom_prelude_state s line x). unfold dom_of. cbn [out set_out].
  rewrite !chron_cons, !run_from_app. cbn [run_from fold_left]. rewrite ?app_nil_r. reflexivity.
Qed.

Lemma strip_lf_app ign a b : a <> [] -> strip_lf ign (a ++ b) = strip_lf ign a ++ b.
Proof. destruct a as [|c r]; [contradiction|]. intros _. simpl. destruct (ign && N.eqb c 10); reflexivity. Qed.
Lemma strip_lf_false b : strip_lf false b = b.
Proof. destruct b; reflexivity. Qed.

Lemma text_token_state_fields s line x target :
  let s' := text_token_state s line x target in
  mode s' = mode s /\ foster_parenting s' = foster_parenting s /\ open_elems s' = open_elems s /\
  ignore_lf s' = false /\ (forall h n, named s' h n = named s h n) /\
  same_core s' (set_ignore_lf false s).
Proof.
  unfold text_token_state, line_state.
  destruct (negb (N.eqb line 1)); destruct (negb (Nat.eqb _ _)); destruct (strip_lf (ignore_lf s) x);
    repeat split; reflexivity.
Qed.

(* C03, tree-builder side, "text" mode: one character token or two *)
Theorem text_mode_split_gen s line line' a b target :
  TInv s -> mode s = Text -> Hshape s -> foster_parenting s = false ->
  vlast (open_elems s) = Some target -> named s target "template" = false ->
  a <> [] ->
  exists s1 sa s2,
    process_token (TChars (a ++ b)) line s = Ok SContinue s1 /\
    process_token (TChars a) line s = Ok SContinue sa /\
    process_token (TChars b) line' sa = Ok SContinue s2 /\
    same_core s1 s2 /\ dom_of s1 = dom_of s2 /\ TInv s1 /\ TInv s2.
Proof.
  intros I Em Sh Fp V Nt Na.
  set (s1 := text_token_state s line (a ++ b) target). set (sa := text_token_state s line a target).
  set (s2 := text_token_state sa line' b target).
  destruct (text_token_state_fields s line a target) as (Ma & Fa & Oa & Ia & Na' & Ca). fold sa in Ma, Fa, Oa, Ia, Na', Ca.
  assert (E1 : process_token (TChars (a ++ b)) line s = Ok SContinue s1) by (apply process_token_text; assumption).
  assert (Ea : process_token (TChars a) line s = Ok SContinue sa) by (apply process_token_text; assumption).
  (* the intermediate state satisfies the hypotheses again *)
  assert (TOa : token_ok s (TChars a)) by (intros _; exact Logic.I).
  pose proof (process_token_ok s (TChars a) line I TOa Logic.I) as Wa. unfold wps in Wa. rewrite Ea in Wa.
  assert (Sha : Hshape sa).
  { unfold Hshape. rewrite (hshape_same_core (set_ignore_lf false s) sa); [rewrite hshape_b_set_ignore_lf; exact Sh|].
    unfold same_core in *. symmetry. exact Ca. }
  assert (E2 : process_token (TChars b) line' sa = Ok SContinue s2).
  { apply process_token_text; [exact Wa | rewrite Ma; exact Em | exact Sha | rewrite Fa; exact Fp | rewrite Oa; exact V | rewrite Na'; exact Nt]. }
  assert (TO1 : token_ok s (TChars (a ++ b))) by (intros _; exact Logic.I).
  pose proof (process_token_ok s (TChars (a ++ b)) line I TO1 Logic.I) as W1. unfold wps in W1. rewrite E1 in W1.
  assert (TO2 : token_ok sa (TChars b)) by (intros _; exact Logic.I).
  pose proof (process_token_ok sa (TChars b) line' Wa TO2 Logic.I) as W2. unfold wps in W2. rewrite E2 in W2.
  exists s1, sa, s2. split; [exact E1 | split; [exact Ea | split; [exact E2|]]].
  split.
  { destruct (text_token_state_fields s line (a ++ b) target) as (_ & _ & _ & _ & _ & C1). fold s1 in C1.
    destruct (text_token_state_fields sa line' b target) as (_ & _ & _ & _ & _ & C2). fold s2 in C2.
    unfold same_core in *. rewrite C1, C2.
    pose proof (f_equal (set_ignore_lf false) Ca) as X. symmetry. exact X. }
  split; [|split; assumption].
  (* the DOMs *)
  unfold s1, s2. rewrite !dom_text_token_state. rewrite Ia, strip_lf_false.
  rewrite (strip_lf_app _ a b Na). unfold sa. rewrite dom_text_token_state.
  destruct (strip_lf (ignore_lf s) a) as [|c r] eqn:Ea'.
  - simpl. destruct b; reflexivity.
  - destruct b as [|cb rb]; [rewrite app_nil_r; reflexivity|].
    change ((c :: r) ++ cb :: rb) with ((c :: r) ++ (cb :: rb)). cbn [app].
    change (c :: r ++ cb :: rb) with ((c :: r) ++ (cb :: rb)).
    symmetry. apply apply_append_text_twice.
    intros n R. exact (sim_bound _ _ (TInv_sim s I) target n R).
Qed.

Theorem text_mode_split s line line' a b target :
  TInv s -> mode s = Text -> Hshape s -> foster_parenting s = false ->
  vlast (open_elems s) = Some target -> named s target "template" = false ->
  Utf8.scalars (a ++ b) -> a <> [] ->
  exists s1 sa s2,
    process_token (TChars (a ++ b)) line s = Ok SContinue s1 /\
    process_token (TChars a) line s = Ok SContinue sa /\
    process_token (TChars b) line' sa = Ok SContinue s2 /\
    same_core s1 s2 /\ dom_of s1 = dom_of s2 /\ TInv s1 /\ TInv s2.
Proof. intros I Em Sh Fp V Nt _ Na. apply (text_mode_split_gen s line line' a b target); assumption. Qed.

(* ---------- pending table text: the all-whitespace test is over the whole pending text ---------- *)
Lemma any_not_whitespace_app a b : any_not_whitespace (a ++ b) = any_not_whitespace a || any_not_whitespace b.
Proof. unfold any_not_whitespace. apply existsb_app. Qed.

(* the test that decides between "insert the characters" and "foster-parent them" gives the same answer whether a
   piece of text was queued as one token or as two (a seeded change that tested the pieces separately was caught by
   ./check C02; this is the property it broke) *)
Theorem pending_nonspace_split p q a b :
  pending_contains_nonspace (p ++ [(NotSplit, a ++ b)] ++ q) =
  pending_contains_nonspace (p ++ [(NotSplit, a); (NotSplit, b)] ++ q).
Proof.
  unfold pending_contains_nonspace. rewrite !existsb_app. cbn [existsb fst snd].
  rewrite any_not_whitespace_app, !orb_false_r. destruct (existsb _ p); [reflexivity|]. cbn [orb].
  rewrite <- orb_assoc. reflexivity.
Qed.

(* ---------- token lists that differ by the splitting of character tokens ---------- *)
Inductive splits : list (token * N) -> list (token * N) -> Prop :=
| splits_nil : splits [] []
| splits_same tk l r r' : splits r r' -> splits ((tk, l) :: r) ((tk, l) :: r')
| splits_chars a b l l1 l2 r r' : a <> [] -> b <> [] -> splits ((TChars b, l2) :: r) r' ->
    splits ((TChars (a ++ b), l) :: r) ((TChars a, l1) :: r').

(* what the full statement needs besides the per-mode split theorems: processing a token from two states with the
   same core and the same DOM gives again states with the same core and the same DOM, and the same answer.  The event
   log is write-only in the model; as a property of all its code it is proved in TreeFrame.v ([log_irrelevant_holds]
   below). *)
Definition log_irrelevant : Prop :=
  forall tk line s s', same_core s s' -> dom_of s = dom_of s' ->
    match process_token tk line s, process_token tk line s' with
    | Ok r1 t1, Ok r2 t2 => r1 = r2 /\ same_core t1 t2 /\ dom_of t1 = dom_of t2
    | Panic n1, Panic n2 => n1 = n2
    | OutOfFuel, OutOfFuel => True
    | _, _ => False
    end.

(* for statements in files that do not open string_scope *)
Definition is_template_node (s : st) (h : handle) : bool := named s h "template".

(* ---------- the event log is write-only (TreeFrame.v): [log_irrelevant] holds ---------- *)
Lemma chron_app e1 e2 : chron (e1 ++ e2) = chron e2 ++ chron e1.
Proof. unfold chron, TreeModel.ops_of. rewrite rev_app_distr, flat_map_app. reflexivity. Qed.

Lemma dom_of_app_out s t evs : out t = evs ++ out s -> dom_of t = run_from (dom_of s) (chron evs).
Proof. intro E. unfold dom_of. rewrite E, chron_app, run_from_app. reflexivity. Qed.

(* any piece of the model, from two states with the same core and the same DOM *)
Theorem frame_same_core_dom {A} (m : M A) : Frame m -> forall s s', same_core s s' -> dom_of s = dom_of s' ->
  match m s, m s' with
  | Ok r1 t1, Ok r2 t2 => r1 = r2 /\ same_core t1 t2 /\ dom_of t1 = dom_of t2
  | Panic n1, Panic n2 => n1 = n2
  | OutOfFuel, OutOfFuel => True
  | _, _ => False
  end.
Proof.
  intros F s s' C D. pose proof (Frame_two_states m F s s' C) as H.
  destruct (m s) as [a t | n |], (m s') as [a' t' | n' |]; try exact H.
  destruct H as (Ea & Ct & evs & E1 & E2). split; [exact Ea|]. split; [exact Ct|].
  rewrite (dom_of_app_out s t evs E1), (dom_of_app_out s' t' evs E2), D. reflexivity.
Qed.

Theorem log_irrelevant_holds : log_irrelevant.
Proof. intros tk line s s' C D. exact (frame_same_core_dom _ (process_token_frame tk line) s s' C D). Qed.

(* whole runs: the states of two runs over the same tokens stay related *)
Definition run_sim (r1 r2 : run_res) : Prop :=
  match r1, r2 with
  | RunOk t1 _, RunOk t2 _ => same_core t1 t2 /\ dom_of t1 = dom_of t2
  | RunPanic n1, RunPanic n2 => n1 = n2
  | RunFuel, RunFuel => True
  | _, _ => False
  end.

Lemma run_sim_refl r : run_sim r r.
Proof. destruct r; simpl; [split; reflexivity | reflexivity | exact I]. Qed.
Lemma run_sim_trans r1 r2 r3 : run_sim r1 r2 -> run_sim r2 r3 -> run_sim r1 r3.
Proof.
  destruct r1, r2, r3; simpl; try tauto; try congruence.
  intros [C1 D1] [C2 D2]. unfold same_core in *. split; congruence.
Qed.
Lemma run_sim_sym r1 r2 : run_sim r1 r2 -> run_sim r2 r1.
Proof. destruct r1, r2; simpl; try tauto; try congruence. intros [C D]. unfold same_core in *. split; congruence. Qed.

Theorem run_tokens_same_core toks : forall s s' acc acc', same_core s s' -> dom_of s = dom_of s' ->
  run_sim (run_tokens s toks acc) (run_tokens s' toks acc').
Proof.
  induction toks as [|[tk line] r IH]; intros s s' acc acc' C D; cbn [run_tokens]; [split; assumption|].
  pose proof (log_irrelevant_holds tk line s s' C D) as H.
  destruct (process_token tk line s) as [a t | n |], (process_token tk line s') as [a' t' | n' |]; try exact H; try contradiction.
  destruct H as (_ & Ct & Dt). apply IH; assumption.
Qed.
