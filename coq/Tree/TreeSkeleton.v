(* ========================================================================
   TreeSkeleton.v - C06, the part that follows from the covered clauses of
   the calling contract: in the abstract DOM built from the operations of the
   tree-builder model, only containers (the document, template contents,
   elements) have children - clause [sk_leaves] of SinkSpec.Skeleton.Skeleton,
   on every node of the arena, for every run (documents and fragments).
   ======================================================================== *)
From Coq Require Import List NArith Bool Arith Lia String.
From HV Require Import Dom.DomSpec Dom.DomLemmas SinkSpec.Contract SinkSpec.ContractProofs.
From HV Require Import Tree.TreeTypes Tree.TreeModelHelpers Tree.TreeModelRules Tree.TreeModel
  Tree.TreeInvDefs Tree.TreeContract.
Import ListNotations.
Open Scope list_scope.
Notation length := List.length (only parsing).

Definition LInv (d : dom) : Prop :=
  data_of d 0 = Document /\ forall n, kids d n <> [] -> is_container (data_of d n) = true.

(* ---------- children after the primitive updates ---------- *)
Lemma kids_set_kids d n l m : kids (set_kids d n l) m = if Nat.eqb m n && Nat.ltb n (size d) then l else kids d m.
Proof.
  unfold kids, set_kids, set_nodes, size. simpl.
  destruct (Nat.eq_dec n m) as [->|N].
  - rewrite Nat.eqb_refl. simpl. destruct (Nat.lt_ge_cases m (length (d_nodes d))) as [L|G].
    + rewrite nth_upd_eq by exact L. replace (Nat.ltb m (length (d_nodes d))) with true by (symmetry; apply Nat.ltb_lt; exact L). reflexivity.
    + rewrite upd_oob by exact G. replace (Nat.ltb m (length (d_nodes d))) with false by (symmetry; apply Nat.ltb_ge; exact G). reflexivity.
  - rewrite nth_upd_neq by exact N. replace (Nat.eqb m n) with false by (symmetry; apply Nat.eqb_neq; auto). reflexivity.
Qed.
Lemma kids_set_data d n x m : kids (set_data d n x) m = kids d m.
Proof.
  unfold kids, set_data, set_nodes. simpl.
  destruct (Nat.eq_dec n m) as [->|N].
  - destruct (Nat.lt_ge_cases m (length (d_nodes d))) as [L|G].
    + rewrite nth_upd_eq by exact L. reflexivity.
    + rewrite upd_oob by exact G. reflexivity.
  - rewrite nth_upd_neq by exact N. reflexivity.
Qed.
Lemma kids_alloc d x ks m : kids (alloc d x ks) m = if Nat.eqb m (size d) then ks else kids d m.
Proof.
  unfold kids, alloc, set_nodes, size. simpl. destruct (Nat.eqb m (length (d_nodes d))) eqn:E.
  - apply Nat.eqb_eq in E. subst m. rewrite app_nth2 by lia. rewrite Nat.sub_diag. reflexivity.
  - apply Nat.eqb_neq in E. destruct (Nat.lt_ge_cases m (length (d_nodes d))) as [L|G].
    + rewrite app_nth1 by exact L. reflexivity.
    + rewrite !nth_overflow; [reflexivity | lia | rewrite app_length; simpl; lia].
Qed.
Lemma data_alloc d x ks m : data_of (alloc d x ks) m = if Nat.eqb m (size d) then x else data_of d m.
Proof.
  destruct (Nat.eqb m (size d)) eqn:E.
  - apply Nat.eqb_eq in E. subst m. apply data_alloc_new.
  - apply Nat.eqb_neq in E. destruct (Nat.lt_ge_cases m (size d)) as [L|G]; [apply data_alloc_old; exact L|].
    unfold data_of, alloc, set_nodes, size in *. simpl. rewrite !nth_overflow; [reflexivity | lia | rewrite app_length; simpl; lia].
Qed.
Lemma kids_oob' d n : size d <= n -> kids d n = [].
Proof. intro H. unfold kids, size in *. rewrite nth_overflow by exact H. reflexivity. Qed.
Lemma data_oob d n : size d <= n -> data_of d n = Document.
Proof. intro H. unfold data_of, size in *. rewrite nth_overflow by exact H. reflexivity. Qed.

(* ---------- the invariant under the primitive updates ---------- *)
Lemma LInv_set_kids d n l : LInv d -> (l <> [] -> is_container (data_of d n) = true) -> LInv (set_kids d n l).
Proof.
  intros [A B] H. split; [rewrite data_set_kids; exact A|]. intros m K. rewrite data_set_kids. rewrite kids_set_kids in K.
  destruct (Nat.eqb m n && Nat.ltb n (size d)) eqn:E; [|apply B; exact K].
  apply andb_true_iff in E. destruct E as [E _]. apply Nat.eqb_eq in E. subst m. apply H. exact K.
Qed.
Lemma LInv_set_data d n x : LInv d -> kind x = kind (data_of d n) -> LInv (set_data d n x).
Proof.
  intros [A B] K.
  assert (F : forall m, is_container (data_of (set_data d n x) m) = is_container (data_of d m) /\
                        (data_of d m = Document -> data_of (set_data d n x) m = Document)).
  { intro m. rewrite data_set_data. destruct (Nat.eqb m n && Nat.ltb n (size d)) eqn:E; [|split; auto].
    apply andb_true_iff in E. destruct E as [E _]. apply Nat.eqb_eq in E. subst m.
    destruct (kind_flags _ _ K) as (_ & _ & C). split; [exact C|]. intro Dd. rewrite Dd in K. destruct x; simpl in K; try discriminate. reflexivity. }
  split; [apply (proj2 (F 0)); exact A|]. intros m Km. rewrite kids_set_data in Km. rewrite (proj1 (F m)). apply B. exact Km.
Qed.
Lemma size_pos_of_LInv_alloc d x ks : LInv d -> (ks <> [] -> is_container x = true) -> (size d = 0 -> x = Document) -> LInv (alloc d x ks).
Proof.
  intros [A B] H Z. split.
  - rewrite data_alloc. destruct (Nat.eqb 0 (size d)) eqn:E; [apply Nat.eqb_eq in E; apply Z; symmetry; exact E | exact A].
  - intros m K. rewrite kids_alloc in K. rewrite data_alloc. destruct (Nat.eqb m (size d)); [apply H; exact K | apply B; exact K].
Qed.
(* the arena is never empty (node 0 is the document) in the states we reach; carried separately *)
Definition LInv1 (d : dom) : Prop := LInv d /\ 1 <= size d.
Lemma LInv1_alloc d x ks : LInv1 d -> (ks <> [] -> is_container x = true) -> LInv1 (alloc d x ks).
Proof. intros [I P] H. split; [apply size_pos_of_LInv_alloc; [exact I | exact H | lia] | rewrite size_alloc; lia]. Qed.
Lemma LInv1_set_kids d n l : LInv1 d -> (l <> [] -> is_container (data_of d n) = true) -> LInv1 (set_kids d n l).
Proof. intros [I P] H. split; [apply LInv_set_kids; assumption | rewrite size_set_kids; exact P]. Qed.
Lemma LInv1_set_data d n x : LInv1 d -> kind x = kind (data_of d n) -> LInv1 (set_data d n x).
Proof. intros [I P] H. split; [apply LInv_set_data; assumption | rewrite size_set_data; exact P]. Qed.

Lemma parent_container d n p : LInv1 d -> parent_of d n = Some p -> is_container (data_of d p) = true.
Proof.
  intros [[_ B] _] H. unfold parent_of in H. apply find_some in H. destruct H as [_ M]. apply mem_In in M.
  apply B. intro E. rewrite E in M. contradiction.
Qed.

Lemma LInv1_detach d n : LInv1 d -> LInv1 (detach d n).
Proof.
  intro I. unfold detach. destruct (parent_of d n) as [p|] eqn:E; [|exact I].
  apply LInv1_set_kids; [exact I | intros _; eapply parent_container; eassumption].
Qed.
Lemma LInv1_append_node d p c : LInv1 d -> is_container (data_of d p) = true -> LInv1 (append_node d p c).
Proof. intros I C. apply LInv1_set_kids; [exact I | intros _; exact C]. Qed.
Lemma LInv1_append_text d p s : LInv1 d -> p < size d -> is_container (data_of d p) = true -> LInv1 (DomSpec.append_text d p s).
Proof.
  intros I Lp C. unfold DomSpec.append_text.
  assert (F : LInv1 (append_node (alloc d (DomSpec.Text s) []) p (size d))).
  { apply LInv1_append_node; [apply LInv1_alloc; [exact I | intro X; contradiction]|].
    rewrite data_alloc_old by exact Lp. exact C. }
  destruct (last _ None) as [l|]; [|exact F].
  destruct (data_of d l) eqn:E; try exact F. apply LInv1_set_data; [exact I | rewrite E; reflexivity].
Qed.

Lemma parent_lt d n p : parent_of d n = Some p -> p < size d.
Proof. intro H. unfold parent_of in H. apply find_some in H. destruct H as [Hin _]. apply in_seq in Hin. lia. Qed.

Lemma LInv1_before_node d sb c : LInv1 d -> LInv1 (before_node d sb c).
Proof.
  intro I. unfold before_node. pose proof (LInv1_detach d c I) as I1.
  destruct (parent_of (detach d c) sb) as [p|] eqn:E; [|exact I1].
  apply LInv1_set_kids; [exact I1 | intros _; eapply parent_container; eassumption].
Qed.
Lemma LInv1_before_text d sb s : LInv1 d -> LInv1 (before_text d sb s).
Proof.
  intro I. unfold before_text. destruct (parent_of d sb) as [p|] eqn:E; [|exact I].
  assert (F : LInv1 (set_kids (alloc d (DomSpec.Text s) []) p (insert_before sb (size d) (kids d p)))).
  { apply LInv1_set_kids; [apply LInv1_alloc; [exact I | intro X; contradiction]|]. intros _.
    rewrite data_alloc_old by (eapply parent_lt; exact E). eapply parent_container; eassumption. }
  destruct (prev_of sb (kids d p)) as [q|]; [|exact F].
  destruct (data_of d q) eqn:Eq; try exact F. apply LInv1_set_data; [exact I | rewrite Eq; reflexivity].
Qed.
Lemma LInv1_do_before d sb c : LInv1 d -> LInv1 (do_before d sb c).
Proof. intro I. destruct c; [apply LInv1_before_node | apply LInv1_before_text]; exact I. Qed.
Lemma LInv1_do_append d p c : LInv1 d -> p < size d -> is_container (data_of d p) = true -> LInv1 (do_append d p c).
Proof. intros I L C. destruct c; [apply LInv1_append_node | apply LInv1_append_text]; assumption. Qed.
Lemma LInv1_reparent d a b : LInv1 d -> is_container (data_of d b) = true -> LInv1 (reparent d a b).
Proof.
  intros I C. unfold reparent. apply LInv1_set_kids; [apply LInv1_set_kids; [exact I | intros _; exact C] | intro X; contradiction].
Qed.

(* ----- deep copies ----- *)
Lemma LInv1_ext_container d d' n : ext d d' -> n < size d -> is_container (data_of d' n) = is_container (data_of d n).
Proof. intros (_ & _ & K) L. destruct (kind_flags _ _ (K n L)) as (_ & _ & C). exact C. Qed.

Lemma fold_copy_inv (f : dom -> nid -> dom * nid) :
  (forall d k, LInv1 d -> LInv1 (fst (f d k))) ->
  forall l d acc, LInv1 d ->
    let r := fold_left (fun (a : dom * list nid) k => let '(d', k') := f (fst a) k in (d', snd a ++ [k'])) l (d, acc) in
    LInv1 (fst r) /\ length (snd r) = length acc + length l.
Proof.
  intros H. induction l as [|k t IH]; intros d acc I; simpl; [split; [exact I | lia]|].
  specialize (H d k I). destruct (f d k) as [d' k'] eqn:E. simpl in H.
  destruct (IH d' (acc ++ [k']) H) as [A B]. split; [exact A|]. rewrite B, app_length. simpl. lia.
Qed.

Lemma LInv1_copy : forall fuel d n, LInv1 d -> LInv1 (fst (copy fuel d n)).
Proof.
  induction fuel as [|f IH]; intros d n I; simpl; [exact I|].
  destruct (fold_copy_inv (copy f) IH (kids d n) d [] I) as [F Len].
  pose proof (ext_fold_copy (copy f) (ext_copy f) (kids d n) d []) as X.
  destruct (fold_left _ (kids d n) (d, [])) as [d1 ks] eqn:E. simpl in F, Len, X.
  assert (Ks : ks <> [] -> is_container (data_of d n) = true).
  { intro Hk. apply (proj2 (proj1 I)). intro Z. rewrite Z in Len. simpl in Len. destruct ks; [contradiction | discriminate Len]. }
  destruct (data_of d n) as [| | | |nm at_ tm ip|] eqn:Ed; try (simpl; apply LInv1_alloc; [exact F | exact Ks]).
  destruct tm as [t|]; [|simpl; apply LInv1_alloc; [exact F | intros _; reflexivity]].
  pose proof (IH d1 t F) as G. destruct (copy f d1 t) as [d2 t'] eqn:E2. simpl in G |- *.
  apply LInv1_alloc; [exact G | intros _; reflexivity].
Qed.
Lemma LInv1_copy_all d l : LInv1 d -> LInv1 (fst (copy_all d l)).
Proof. intro I. unfold copy_all. exact (proj1 (fold_copy_inv (copy (S (size d))) (LInv1_copy (S (size d))) l d [] I)). Qed.

Lemma first_in_tree_order_sat d p : forall fuel stack n, first_in_tree_order d p fuel stack = Some n -> p (data_of d n) = true.
Proof.
  induction fuel as [|f IH]; intros stack n H; simpl in H; [discriminate|].
  destruct stack as [|m rest]; [discriminate|]. destruct (p (data_of d m)) eqn:E; [injection H as <-; exact E | eapply IH; exact H].
Qed.

Lemma LInv1_clone_option d o : LInv1 d -> LInv1 (clone_option d o).
Proof.
  intro I. unfold clone_option. destruct (nearest_select _ _ _ _) as [sel|]; [|exact I].
  destruct (has_attr_local _ _); [exact I|].
  destruct (first_in_tree_order _ _ _ _) as [sc|] eqn:Ef; [|exact I].
  destruct (has_attr_local _ _); [|exact I].
  pose proof (LInv1_copy_all d (kids d o) I) as F. pose proof (ext_copy_all d (kids d o)) as X.
  destruct (copy_all d (kids d o)) as [d1 ks]. simpl in F, X.
  apply LInv1_set_kids; [exact F|]. intros _.
  apply first_in_tree_order_sat in Ef.
  destruct (Nat.lt_ge_cases sc (size d)) as [L|G].
  - rewrite (LInv1_ext_container d d1 sc X L). destruct (data_of d sc); try discriminate Ef; reflexivity.
  - rewrite data_oob in Ef by exact G. discriminate Ef.
Qed.

(* ---------- every operation accepted by op_okb keeps the invariant ---------- *)
Lemma LInv1_add_name d n : LInv1 d -> LInv1 (add_name d n).
Proof. intro I. exact I. Qed.

Lemma LInv1_with_child d c k : LInv1 d -> (forall x, LInv1 (k x)) -> LInv1 (with_child d c k).
Proof. intros I H. unfold with_child. destruct c as [h|s]; [destruct (resolve d h); [apply H | exact I] | apply H]. Qed.

Theorem LInv1_apply d v op : Sim d v -> LInv1 d -> op_okb v op = true -> LInv1 (DomSpec.apply d op).
Proof.
  intros S I Ok. destruct op; cbn [DomSpec.apply op_okb] in *; try exact I.
  - destruct template.
    + apply LInv1_add_name. apply LInv1_alloc; [apply LInv1_alloc; [exact I | intro X; contradiction] | intro X; contradiction].
    + apply LInv1_add_name. apply LInv1_alloc; [exact I | intro X; contradiction].
  - apply LInv1_add_name. apply LInv1_alloc; [exact I | intro X; contradiction].
  - apply LInv1_add_name. apply LInv1_alloc; [exact I | intro X; contradiction].
  - apply andb_true_iff in Ok. destruct Ok as [Cp _]. destruct (sim_res_container d v S parent Cp) as (pn & N & C).
    unfold with1. rewrite N. apply LInv1_with_child; [exact I|]. intro x.
    apply LInv1_do_append; [exact I | exact (sim_bound _ _ S parent pn N) | exact C].
  - unfold with1. destruct (resolve d sibling) as [sn|]; [|exact I]. apply LInv1_with_child; [exact I|]. intro x. apply LInv1_do_before. exact I.
  - apply andb_true_iff in Ok. destruct Ok as [Ok _]. apply andb_true_iff in Ok. destruct Ok as [_ Ep].
    destruct (sim_res_elem d v S prev_element Ep) as (pn & Np & Ipn).
    unfold with1. destruct (resolve d element) as [en|]; [|exact I]. rewrite Np.
    apply LInv1_with_child; [exact I|]. intro x. destruct (parent_of d en); [apply LInv1_do_before; exact I|].
    apply LInv1_do_append; [exact I | exact (sim_bound _ _ S prev_element pn Np) | destruct (data_of d pn); try discriminate; reflexivity].
  - destruct I as [[A B] P]. apply LInv1_append_node; [apply LInv1_alloc; [split; [split|]; assumption | intro X; contradiction]|].
    rewrite data_alloc_old by lia. rewrite A. reflexivity.
  - unfold with1. destruct (resolve d target) as [tn|]; [|exact I]. destruct (data_of d tn) eqn:E; try exact I.
    apply LInv1_set_data; [exact I | rewrite E; reflexivity].
  - unfold with1. destruct (resolve d target) as [tn|]; [|exact I]. apply LInv1_detach. exact I.
  - apply andb_true_iff in Ok. destruct Ok as [_ Eb]. destruct (sim_res_elem d v S new_parent Eb) as (bn & Nb & Ib).
    unfold with1. destruct (resolve d nd) as [an|]; [|exact I]. rewrite Nb.
    apply LInv1_reparent; [exact I | destruct (data_of d bn); try discriminate; reflexivity].
  - unfold with1. destruct (resolve d target) as [tn|]; [|exact I]. destruct (data_of d tn); try exact I.
    destruct tmpl as [c|]; [|exact I]. destruct (Nat.eqb result (List.length (d_names d))); [apply (LInv1_add_name d c)|]; exact I.
  - unfold with1. destruct (resolve d opt) as [n|]; [|exact I]. apply LInv1_clone_option. exact I.
Qed.

Lemma LInv1_init : LInv1 DomSpec.init.
Proof.
  split; [split; [reflexivity|] | unfold size; simpl; lia].
  intros n K. destruct n as [|[|n]]; simpl in K; contradiction || (exfalso; apply K; reflexivity).
Qed.

Theorem trace_leaves : forall evs, trace_okb evs = true -> LInv1 (run_from DomSpec.init (chron evs)).
Proof.
  induction evs as [|ev r IH]; intro T; [exact LInv1_init|].
  simpl in T. apply andb_true_iff in T. destruct T as [Te Tr]. specialize (IH Tr).
  rewrite chron_cons, run_from_app. destruct ev as [op|a b]; simpl; [|exact IH].
  eapply LInv1_apply; [apply trace_sim; exact Tr | exact IH | exact Te].
Qed.

(* clause sk_leaves of SinkSpec.Skeleton.Skeleton for the DOM of every state of the model *)
Theorem TInv_leaves s : TInv s ->
  forall n, kids (run_from DomSpec.init (chron (out s))) n <> [] ->
            is_container (data_of (run_from DomSpec.init (chron (out s))) n) = true.
Proof. intros I. exact (proj2 (proj1 (trace_leaves (out s) (TInv_trace_okb s I)))). Qed.
