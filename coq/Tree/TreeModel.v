(* ========================================================================
   TreeModel.v - the TokenSink face of the tree-builder model:
   TreeBuilder::new / new_for_fragment (+ driver.rs parse_fragment),
   tokenizer_state_for_context_elem, process_token, process_to_completion,
   end, adjusted_current_node_present_but_not_in_html_namespace
   (html5ever/src/tree_builder/mod.rs:144-265, 332-409, 470-556).

   [process_token tk line : M sink_result]: the emitted events (sink
   operations and arm-coverage markers) are appended to the [out] field, newest
   first; [take_out] hands them over in chronological order.
   No proofs in this file.
   ======================================================================== *)
From Coq Require Import List NArith Bool Arith String.
From HV Require Import Dom.DomSpec Tree.TreeTypes Tree.TreeTables Tree.TreeModelHelpers Tree.TreeModelRules.
Import ListNotations.
Open Scope string_scope.
Open Scope list_scope.
Notation length := List.length (only parsing).

(* ---------- construction ---------- *)
Definition init_sv : sview := {| sv_elems := [None] ; sv_tmpl := [] |}.   (* handle 0 = the Document *)

(* TreeBuilder::new *)
Definition init_state (o : topts) : st :=
  {| opts := o ; mode := Initial ; orig_mode := None ; template_modes := [] ; pending_table_text := [] ;
     quirks_mode := o_quirks o ; open_elems := [] ; active_formatting := [] ; head_elem := None ;
     form_elem := None ; context_elem := None ; frameset_ok := true ; ignore_lf := false ;
     foster_parenting := false ; sv := init_sv ; out := [] |}.

(* driver.rs parse_fragment (create_element for the context; the harness optionally
   creates a <form> element to pass as the form pointer) + TreeBuilder::new_for_fragment *)
Definition init_fragment (ctx_name : qualname) (ctx_attrs : list dattr) (with_form : bool) : M unit :=
  ctx <- sink_create_element ctx_name ctx_attrs false ;;
  form <- (if with_form then f <- sink_create_element (qn_elem ns_html (nm "form")) [] false ;; ret (Some f)
           else ret None) ;;
  s <- get ;;
  let context_is_template := ename_eqb (ename_of s ctx) (ns_html, nm "template") in
  modify (fun s => set_template_modes (if context_is_template then [InTemplate] else [])
                     (set_form_elem form (set_context_elem (Some ctx) s))) ;;
  create_root [] ;;
  m <- reset_insertion_mode ;;
  set_mode_m m.

(* fn tokenizer_state_for_context_elem *)
Inductive tokstate := TsData | TsRawData (k : rawkind) | TsPlaintext.
Definition tokenizer_state_for_context_elem (context_element_allows_scripting : bool) : M tokstate :=
  s <- get ;;
  elem <- unwrap (context_elem s) 1 ;;
  let '(ns, name) := ename_of s elem in
  if negb (str_eqb ns ns_html) then ret TsData
  else if is_n name "title" || is_n name "textarea" then ret (TsRawData Rcdata)
  else if is_n name "style" || is_n name "xmp" || is_n name "iframe" || is_n name "noembed" || is_n name "noframes"
  then ret (TsRawData Rawtext)
  else if is_n name "script" then ret (TsRawData ScriptData)
  else if is_n name "noscript" then
    (if context_element_allows_scripting then ret (TsRawData Rawtext) else ret TsData)
  else if is_n name "plaintext" then ret TsPlaintext
  else ret TsData.

(* ---------- process_to_completion (mod.rs:332-409) ---------- *)
Definition is_self_closing_start (t : tok) : bool :=
  match t with KTag g => tg_self g && tagkind_eqb (tg_kind g) StartTag | _ => false end.

Definition is_nil {A} (l : list A) : bool := match l with [] => true | _ => false end.

(* one iteration of the loop: either the TokenSinkResult, or the next token and queue *)
Definition ptc_iter (t : tok) (more_tokens : list tok) : M (sink_result + tok * list tok) :=
  let should_have_acknowledged_self_closing_flag := is_self_closing_start t in
  shape_check ;;
  foreign <- is_foreign t ;;
  result <- (if foreign then step_foreign t else s <- get ;; step (mode s) t) ;;
  match result with
  | Done =>
    (if should_have_acknowledged_self_closing_flag then probe 44 ;; parse_error else ret tt) ;;
    match more_tokens with
    | [] => ret (inl SContinue)
    | t' :: m' => ret (inr (t', m'))
    end
  | DoneAckSelfClosing =>
    match more_tokens with
    | [] => ret (inl SContinue)
    | t' :: m' => ret (inr (t', m'))
    end
  | Reprocess m t' => set_mode_m m ;; ret (inr (t', more_tokens))
  | ReprocessForeign t' => ret (inr (t', more_tokens))
  | SplitWhitespace buf =>
    match pop_front_char_run buf with
    | None => ret (inl SContinue)
    | Some (first, is_ws, rest) =>
      let t' := KChars (if is_ws then Whitespace else NotWhitespace) first in
      let more' := match rest with [] => more_tokens | _ :: _ => more_tokens ++ [KChars NotSplit rest] end in
      when (negb (is_nil rest)) (probe 43) ;;
      ret (inr (t', more'))
    end
  | PScript node => assert (is_nil more_tokens) 2 ;; ret (inl (SScript node))
  | ToPlaintext => assert (is_nil more_tokens) 3 ;; ret (inl SPlaintext)
  | ToRawData k => assert (is_nil more_tokens) 4 ;; ret (inl (SRawData k))
  | PEncoding e => ret (inl (SEncoding e))
  end.

Fixpoint ptc_loop (fuel : nat) (t : tok) (more_tokens : list tok) : M sink_result :=
  match fuel with
  | 0 => out_of_fuel
  | S f =>
    r <- ptc_iter t more_tokens ;;
    match r with
    | inl res => ret res
    | inr (t', m') => ptc_loop f t' m'
    end
  end.

(* iterations the loop can need: every iteration either finishes, consumes a run of
   a character token, pops an element / template mode, or moves along the (acyclic)
   Reprocess edges of the mode graph *)
Definition ptc_fuel (s : st) (t : tok) : nat :=
  64 + 4 * length (tk_text t) + 4 * length (open_elems s) + 4 * length (template_modes s).

Definition process_to_completion (t : tok) : M sink_result :=
  s <- get ;; ptc_loop (ptc_fuel s t) t [].

(* ---------- TokenSink::process_token (mod.rs:477-544) ---------- *)
Definition or_empty (o : option str) : str := match o with Some x => x | None => [] end.
Definition conv_attrs (l : list (str * str)) : list dattr :=
  map (fun p => {| d_name := qn_plain (fst p) ; d_value := snd p |}) l.

(* the part of process_token before process_to_completion: either the result, or the converted token *)
Definition pt_prelude (tk : token) (line_number : N) : M (sink_result + tok) :=
  (* current_line is initialised to 1 and never written *)
  when (negb (N.eqb line_number 1)) (emit (OpSetLine line_number)) ;;
  s <- get ;;
  let ign := ignore_lf s in
  (* deviation 1: `ignore_lf.take()` runs before the ParseError early return *)
  modify (set_ignore_lf (match tk with TError => negb (dev_on s 1) && ign | _ => false end)) ;;
  match tk with
  | TError => parse_error ;; ret (inl SContinue)
  | TDoctype name pub sys force_quirks =>
    if mode_eqb (mode s) Initial then
      probe 46 ;;
      let '(err, quirk) := doctype_error_and_quirks (negb (dev_on s 8)) (negb (dev_on s 13)) name pub sys force_quirks
                                                    (o_iframe_srcdoc (opts s)) in
      when err parse_error ;;
      when (negb (o_drop_doctype (opts s)))
           (emit (OpAppendDoctype (or_empty name) (or_empty pub) (or_empty sys))) ;;
      do_set_quirks quirk ;;
      set_mode_m BeforeHtml ;;
      ret (inl SContinue)
    else probe 47 ;; parse_error ;; ret (inl SContinue)
  | TTag k name self_closing attrs had_dup =>
    ret (inr (KTag {| tg_kind := k ; tg_name := name ; tg_self := self_closing ; tg_attrs := conv_attrs attrs ;
                      tg_dup := had_dup |}))
  | TComment x => ret (inr (KComment x))
  | TNull => ret (inr KNull)
  | TEof => ret (inr KEof)
  | TChars x =>
    let x' := match x with c :: r => if ign && N.eqb c 0x0A then r else x | [] => x end in
    when (negb (Nat.eqb (length x') (length x))) (probe 45) ;;
    match x' with
    | [] => ret (inl SContinue)
    | _ :: _ => ret (inr (KChars NotSplit x'))
    end
  end.

Definition process_token (tk : token) (line_number : N) : M sink_result :=
  r <- pt_prelude tk line_number ;;
  match r with
  | inl res => ret res
  | inr t => process_to_completion t
  end.

(* TokenSink::end (mod.rs:546-550) *)
Definition tb_end : M unit :=
  s <- get ;;
  mapM_ (fun e => emit (OpPop e)) (rev (open_elems s)) ;;
  modify (set_open_elems []).

(* TokenSink::adjusted_current_node_present_but_not_in_html_namespace (mod.rs:552-555) *)
Definition adjusted_current_node_present_but_not_in_html_namespace : M bool :=
  s <- get ;;
  match open_elems s with
  | [] => ret false
  | _ :: _ =>
    cur <- adjusted_current_node ;;
    ret (negb (str_eqb (fst (ename_of s cur)) ns_html))
  end.

(* ---------- arm census (for the coverage report) ---------- *)
Definition arm_counts : list (nat * nat) :=
  [ (mode_id Initial, length heads_initial); (mode_id BeforeHtml, length heads_before_html);
    (mode_id BeforeHead, length heads_before_head); (mode_id InHead, length heads_in_head);
    (mode_id InHeadNoscript, length heads_in_head_noscript); (mode_id AfterHead, length heads_after_head);
    (mode_id InBody, length heads_in_body); (mode_id Text, length heads_text);
    (mode_id InTable, length heads_in_table); (mode_id InTableText, length heads_in_table_text);
    (mode_id InCaption, length heads_in_caption); (mode_id InColumnGroup, length heads_in_column_group);
    (mode_id InTableBody, length heads_in_table_body); (mode_id InRow, length heads_in_row);
    (mode_id InCell, length heads_in_cell); (mode_id InTemplate, length heads_in_template);
    (mode_id AfterBody, length heads_after_body); (mode_id InFrameset, length heads_in_frameset);
    (mode_id AfterFrameset, length heads_after_frameset); (mode_id AfterAfterBody, length heads_after_after_body);
    (mode_id AfterAfterFrameset, length heads_after_after_frameset); (foreign_id, length heads_foreign);
    (30, 54) (* helper probes, TreeModelHelpers.probe *) ].

(* ---------- running ---------- *)
Definition take_out (s : st) : list event * st := (rev (out s), set_out [] s).

(* whole token sequences: results and events of every token, in order; stops at the
   first Panic / OutOfFuel *)
Inductive run_res := RunOk (s : st) (results : list sink_result) | RunPanic (site : N) | RunFuel.
Fixpoint run_tokens (s : st) (toks : list (token * N)) (acc : list sink_result) : run_res :=
  match toks with
  | [] => RunOk s (rev acc)
  | (tk, line) :: r =>
    match process_token tk line s with
    | Ok res s' => run_tokens s' r (res :: acc)
    | Panic n => RunPanic n
    | OutOfFuel => RunFuel
    end
  end.

Definition ops_of (evs : list event) : list sinkop :=
  flat_map (fun e => match e with EvOp op => [op] | EvArm _ _ => [] end) evs.
