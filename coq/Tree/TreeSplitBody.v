(* ========================================================================
   TreeSplitBody.v - C03, tree-builder side, the "in body" rule for character tokens: one token or two.

   rules.rs:417 (arm 1 of "in body"): reconstruct the active formatting elements; frameset_ok := false when the
   text holds a non-white-space character; append the text at the appropriate place.

   PROVED here
     * [Flg]: reconstruct_active_formatting_elements (and everything under it) leaves the flags foster_parenting
       and ignore_lf alone (structural, one lemma per definition, like TreeFrame.v).
     * [wp_reconstruct_post]: after reconstruct the last entry of the list of active formatting elements (if any)
       is a marker or an open element, the current node is not a template element when it was not before
       (formatting elements are never templates) and the adjusted current node is still an HTML element.
     * [reconstruct_noop]: from such a state reconstruct does nothing (it logs its coverage probe).
     * [process_token_body] / [body_mode_split]: with them a character token in "in body" has a closed form relative
       to the state reconstruct leaves, and a token a ++ b gives the same core and the same DOM as a followed by b:
       the second reconstruct is a no-op, frameset_ok is an OR over the pieces, the two appends merge
       (TreeSplit.apply_append_text_twice).
   Hypotheses of the split theorem (the side condition of the list-level statement in TreeSplitRun.v):
       mode = "in body", "in caption", "in template" or "in cell" (the last three delegate to "in body"; the shape
       assumption of "in cell" - a td / th element is open - is carried through reconstruct), or mode = "after body",
       "after after body", "after after frameset" with a token of white space only (cut into runs by the loop:
       two iterations, then "in body"; [xok]), foster parenting off, the adjusted current node is an HTML element (the token is not
       handled by the foreign-content rules) and the current node is not a template element.
   ======================================================================== *)
From Coq Require Import List NArith Bool Arith Lia String.
From HV Require Import Dom.DomSpec Dom.DomLemmas SinkSpec.Contract SinkSpec.ContractProofs.
From HV Require Import Tree.TreeTypes Tree.TreeTables Tree.TreeModelHelpers Tree.TreeModelRules Tree.TreeModel
  Tree.TreeHoare Tree.TreeInvBasic Tree.TreeInvDefs Tree.TreeInvSetters Tree.TreeInvPrims Tree.TreeInvHelpers Tree.TreeInvDispatch
  Tree.TreeInvRules Tree.TreeInvModes Tree.TreeInvMain Tree.TreeContract Tree.TreeSkeleton Tree.TreeContractRun
  Tree.TreeFrame Tree.TreeSplit.
Import ListNotations.
Open Scope string_scope.
Open Scope list_scope.
Notation length := List.length (only parsing).

(* ---------- the flags reconstruct does not touch ---------- *)
Definition Flg {A} (m : M A) : Prop :=
  forall s, match m s with
            | Ok _ t => foster_parenting t = foster_parenting s /\ ignore_lf t = ignore_lf s
            | _ => True
            end.

Lemma Flg_ret {A} (a : A) : Flg (ret a).
Proof. intro s. split; reflexivity. Qed.
Lemma Flg_panic {A} n : Flg (panic n : M A).
Proof. intro s. exact I. Qed.
Lemma Flg_out_of_fuel {A} : Flg (out_of_fuel : M A).
Proof. intro s. exact I. Qed.
Lemma Flg_bind {A B} (m : M A) (k : A -> M B) : Flg m -> (forall a, Flg (k a)) -> Flg (bind m k).
Proof.
  intros Hm Hk s. specialize (Hm s). unfold bind. destruct (m s) as [a t | n |]; [|exact I | exact I].
  specialize (Hk a t). destruct (k a t) as [b u | n |]; [|exact I | exact I].
  destruct Hm as [A1 A2], Hk as [B1 B2]. split; congruence.
Qed.
Lemma Flg_get {B} (k : st -> M B) : (forall c, Flg (k c)) -> Flg (bind get k).
Proof. intros Hk s. unfold bind, get. exact (Hk s s). Qed.
Lemma Flg_modify f : (forall s, foster_parenting (f s) = foster_parenting s /\ ignore_lf (f s) = ignore_lf s) -> Flg (modify f).
Proof. intros H s. exact (H s). Qed.
Lemma Flg_emit op : Flg (emit op).
Proof. intro s. split; reflexivity. Qed.
Lemma Flg_log_arm m k : Flg (log_arm m k).
Proof. intro s. split; reflexivity. Qed.
Lemma Flg_probe k : Flg (probe k).
Proof. apply Flg_log_arm. Qed.
Lemma Flg_unwrap {A} (o : option A) n : Flg (unwrap o n).
Proof. destruct o; [apply Flg_ret | apply Flg_panic]. Qed.
Lemma Flg_assert b n : Flg (assert b n).
Proof. destruct b; [apply Flg_ret | apply Flg_panic]. Qed.

Create HintDb flg.
Ltac fl1 :=
  lazymatch goal with
  | |- Flg (ret _) => apply Flg_ret
  | |- Flg (panic _) => apply Flg_panic
  | |- Flg out_of_fuel => apply Flg_out_of_fuel
  | |- Flg (emit _) => apply Flg_emit
  | |- Flg (log_arm _ _) => apply Flg_log_arm
  | |- Flg (probe _) => apply Flg_probe
  | |- Flg (unwrap _ _) => apply Flg_unwrap
  | |- Flg (assert _ _) => apply Flg_assert
  | |- Flg (modify _) => apply Flg_modify; intro; split; reflexivity
  | |- Flg (bind get _) => apply Flg_get; intro
  | |- Flg (bind _ _) => apply Flg_bind; [ | intro ]
  | |- Flg (if ?b then _ else _) => destruct b
  | |- Flg (match ?x with _ => _ end) => destruct x
  | |- Flg _ => solve [auto with flg]
  end.
Ltac fl := repeat fl1.
Ltac flg_of f := unfold f; fl.

Lemma Flg_sink_create_element n a d : Flg (sink_create_element n a d).
Proof. flg_of sink_create_element. Qed.
Lemma Flg_sink_get_template_contents t : Flg (sink_get_template_contents t).
Proof. flg_of sink_get_template_contents. Qed.
Lemma Flg_current_node : Flg current_node.
Proof. flg_of current_node. Qed.
Lemma Flg_push h : Flg (push h).
Proof. flg_of push. Qed.
#[local] Hint Resolve Flg_sink_create_element Flg_sink_get_template_contents Flg_current_node Flg_push : flg.
Lemma Flg_foster_search c : forall l, Flg (foster_search c l).
Proof. induction l as [|e r IH]; cbn [foster_search]; fl. Qed.
#[local] Hint Resolve Flg_foster_search : flg.
Lemma Flg_appropriate_place o : Flg (appropriate_place o).
Proof. flg_of appropriate_place. Qed.
Lemma Flg_insert_at ip c : Flg (insert_at ip c).
Proof. flg_of insert_at. Qed.
#[local] Hint Resolve Flg_appropriate_place Flg_insert_at : flg.
Lemma Flg_insert_element p ns n a d : Flg (insert_element p ns n a d).
Proof. flg_of insert_element. Qed.
#[local] Hint Resolve Flg_insert_element : flg.
Lemma Flg_recon_create : forall fuel idx, Flg (recon_create fuel idx).
Proof. induction fuel as [|f IH]; intro idx; cbn [recon_create]; fl. Qed.
#[local] Hint Resolve Flg_recon_create : flg.
Lemma Flg_reconstruct : Flg reconstruct_active_formatting_elements.
Proof. flg_of reconstruct_active_formatting_elements. Qed.

(* ---------- what reconstruct establishes ---------- *)
Definition lastopen (s : st) : Prop :=
  match vlast (active_formatting s) with Some e => is_marker_or_open s e = true | None => True end.

Definition RPost (s : st) : Prop :=
  lastopen s /\ adjusted_ns s = ns_html /\
  exists h, vlast (open_elems s) = Some h /\ named s h "template" = false.

Lemma vset_snoc {A} (x y : A) r : vset (length r) x (r ++ [y]) = r ++ [x].
Proof. unfold vset. induction r as [|a r IH]; [reflexivity|]. cbn [length app firstn skipn]. cbn [skipn] in IH. rewrite IH. reflexivity. Qed.
Lemma vlast_vset_last {A} (x : A) l : 1 <= length l -> vlast (vset (length l - 1) x l) = Some x.
Proof.
  intro L. destruct (vlast l) as [y|] eqn:V; [|apply vlast_none in V; subst; simpl in L; lia].
  rewrite (vlast_some_split _ _ V). rewrite app_length. cbn [length].
  replace (length (removelast l) + 1 - 1) with (length (removelast l)) by lia.
  rewrite vset_snoc. apply vlast_app.
Qed.

Lemma named_false_of_ename s h n e : ename_of s h = e -> e <> (ns_html, nm n) -> named s h n = false.
Proof.
  intros E N. unfold named, html_elem_named_b. rewrite E.
  destruct (ename_eqb e (ns_html, nm n)) eqn:X; [|reflexivity]. apply ename_eqb_eq in X. contradiction.
Qed.

Lemma adjusted_ns_push s (l : list handle) h a rest :
  open_elems s = (a :: rest) ++ [h] -> fst (ename_of s h) = ns_html -> adjusted_ns s = ns_html.
Proof.
  intros E N. unfold adjusted_ns. rewrite E.
  assert (V : vlast ((a :: rest) ++ [h]) = Some h) by apply vlast_app.
  destruct rest as [|b r]; cbn [app] in *; rewrite V; exact N.
Qed.

Lemma wp_recon_create_post s0 (Q : unit -> st -> Prop) :
  forall fuel idx s, keeps s0 s -> late s ->
  idx < length (active_formatting s) -> length (active_formatting s) - idx < fuel ->
  (forall j, idx <= j -> j < length (active_formatting s) ->
             exists h t, nth_error (active_formatting s) j = Some (FElem h t)) ->
  (forall s', keeps s0 s' -> RPost s' -> incl (open_elems s) (open_elems s') -> Q tt s') ->
  wp (recon_create fuel idx) Q s.
Proof.
  induction fuel as [|f IH]; intros idx s K L Li Lf NM H; [lia|]. simpl.
  rewrite wp_bind, wp_get, wp_bind, wp_unwrap.
  destruct (NM idx ltac:(lia) Li) as (h0 & t & E). exists (FElem h0 t). split; [exact E|].
  pose proof K as [I S].
  destruct (inv_af _ I _ _ (nth_error_In _ _ E)) as [_ Ft].
  rewrite wp_bind.
  eapply wp_insert_element_std; [exact K | exact L | apply formatting_not_head; exact Ft | apply formatting_not_template; exact Ft |].
  intros new s1 K1 E1 E2 Kn En.
  rewrite wp_bind, wp_get, wp_bind, wp_assert. rewrite E2. split; [apply Nat.ltb_lt; exact Li|].
  rewrite wp_bind, wp_modify.
  assert (K2 : keeps s0 (set_active_formatting (vset idx (FElem new t) (active_formatting s1)) s1)).
  { apply keeps_set_af; [exact K1|]. apply Forall_vset; [destruct K1 as [I1 _]; apply TInv_af_entries; exact I1|].
    simpl. repeat split; assumption. }
  rewrite E2 in K2 |- *.
  destruct (Nat.eqb idx (length (active_formatting s) - 1)) eqn:Eq.
  - rewrite wp_ret. apply H; [exact K2| |cbn [open_elems set_active_formatting]; rewrite E1; unfold vpush; apply incl_appl; apply incl_refl]. apply Nat.eqb_eq in Eq.
    destruct (TInv_stack_nonempty _ I L) as (a & rest & Eo & _).
    unfold RPost, lastopen. cbn [active_formatting open_elems set_active_formatting].
    split; [|split].
    + rewrite Eq, vlast_vset_last by lia. cbn [is_marker_or_open open_elems set_active_formatting].
      rewrite E1. unfold vpush. rewrite existsb_app. cbn [existsb]. unfold same_node. rewrite Nat.eqb_refl.
      rewrite orb_true_r. reflexivity.
    + apply (adjusted_ns_push _ (open_elems s) new a rest).
      * cbn [open_elems set_active_formatting]. rewrite E1, Eo. reflexivity.
      * change (fst (ename_of s1 new) = ns_html). rewrite En. reflexivity.
    + exists new. split; [rewrite E1; apply vlast_app|].
      apply (named_false_of_ename _ _ _ (ns_html, tg_name t)); [exact En | apply formatting_not_template; exact Ft].
  - apply Nat.eqb_neq in Eq. apply IH; [exact K2 | | | | |].
    5:{ intros s' K' P' Inc. apply H; [exact K' | exact P'|]. eapply incl_tran; [|exact Inc].
        cbn [open_elems set_active_formatting]. rewrite E1. unfold vpush. apply incl_appl. apply incl_refl. }
    + eapply late_keeps; [exact K2|]. destruct K as [_ S0]. unfold late in *. rewrite <- (st_mode _ _ S0). exact L.
    + cbn [active_formatting set_active_formatting]. rewrite vset_length; lia.
    + cbn [active_formatting set_active_formatting]. rewrite vset_length; lia.
    + cbn [active_formatting set_active_formatting]. intros j A B. rewrite vset_length in B; [|exact Li].
      rewrite nth_error_vset_other; [apply NM; lia | lia | exact Li].
Qed.

Lemma RPost_set_out v s : RPost s -> RPost (set_out v s).
Proof. intro H. exact H. Qed.

Lemma wp_reconstruct_post s0 s (Q : unit -> st -> Prop) :
  keeps s0 s -> late s -> adjusted_ns s = ns_html ->
  (exists h, vlast (open_elems s) = Some h /\ named s h "template" = false) ->
  (forall s', keeps s0 s' -> RPost s' -> incl (open_elems s) (open_elems s') -> Q tt s') ->
  wp reconstruct_active_formatting_elements Q s.
Proof.
  intros K L A Nt H. unfold reconstruct_active_formatting_elements. rewrite wp_bind, wp_get.
  destruct (vlast (active_formatting s)) as [last|] eqn:V.
  2:{ rewrite wp_ret. apply H; [exact K| |apply incl_refl]. unfold RPost, lastopen. rewrite V. split; [exact I | split; assumption]. }
  destruct (is_marker_or_open s last) eqn:M.
  { apply wp_probe. apply H; [(apply keeps_set_out; [|reflexivity]); exact K| |apply incl_refl].
    apply RPost_set_out. unfold RPost, lastopen. rewrite V. split; [exact M | split; assumption]. }
  rewrite wp_bind. apply wp_probe. rewrite wp_bind, wp_unwrap.
  set (s1 := set_out _ s).
  assert (Len : 1 <= length (active_formatting s)).
  { destruct (active_formatting s); [discriminate | simpl; lia]. }
  destruct (recon_rewind_some s (length (active_formatting s) - 1) ltac:(lia)) as (r & Er & Lr & Hr).
  exists r. split; [exact Er|].
  assert (K1 : keeps s0 s1) by ((apply keeps_set_out; [|reflexivity]); exact K).
  apply (wp_recon_create_post s0); [exact K1 | exact L | simpl; lia | simpl; lia | | exact H].
  intros j A' B. cbn [active_formatting s1 set_out] in *.
  destruct (Nat.eq_dec j (length (active_formatting s) - 1)) as [->|N].
  - pose proof (vlast_nth_error _ _ V) as E. destruct last as [|h t]; [discriminate|]. exists h, t. exact E.
  - destruct (Hr j A' ltac:(lia)) as (e & Ee & Me). destruct e as [|h t]; [discriminate|]. exists h, t. exact Ee.
Qed.

(* from such a state reconstruct is a no-op (it only logs its probe) *)
Definition recon_noop_state (s : st) : st :=
  match vlast (active_formatting s) with Some _ => set_out (EvArm 30 8 :: out s) s | None => s end.

Lemma reconstruct_noop s : lastopen s -> reconstruct_active_formatting_elements s = Ok tt (recon_noop_state s).
Proof.
  unfold lastopen, recon_noop_state, reconstruct_active_formatting_elements, bind, get.
  destruct (vlast (active_formatting s)) as [e|]; [|reflexivity]. intros ->. reflexivity.
Qed.

(* ---------- closed forms ---------- *)
(* the modes whose character arm is the one of "in body" (in cell is left out: its shape assumption would have to be
   carried through reconstruct) *)
Definition dmode (m : imode) : Prop :=
  m = InBody \/ m = InCaption \/ m = InTemplate \/ m = InCell \/ m = AfterBody \/ m = AfterAfterBody \/ m = AfterAfterFrameset.
(* the three "after" modes hand only WHITE SPACE to "in body" (after cutting the token into runs: SplitWhitespace) *)
Definition xok (m : imode) (x : str) : Prop :=
  match m with
  | AfterBody | AfterAfterBody | AfterAfterFrameset => x <> [] /\ any_not_whitespace x = false
  | _ => True
  end.

Definition bodyhyp (s : st) : Prop :=
  TInv s /\ dmode (mode s) /\ Hshape s /\ foster_parenting s = false /\ adjusted_ns s = ns_html /\
  exists h, vlast (open_elems s) = Some h /\ named s h "template" = false.

(* the shape assumption says nothing in three of the modes; in "in cell": a td or th element is open *)
Lemma hshape_in_body s : mode s = InBody \/ mode s = InCaption \/ mode s = InTemplate \/
  mode s = AfterBody \/ mode s = AfterAfterBody \/ mode s = AfterAfterFrameset -> Hshape s.
Proof. intros [E|[E|[E|[E|[E|E]]]]]; unfold Hshape, hshape_b; rewrite E; reflexivity. Qed.
Lemma dmode_late s : dmode (mode s) -> late s.
Proof. intros [E|[E|[E|[E|[E|[E|E]]]]]]; unfold late; rewrite E; reflexivity. Qed.
Lemma hshape_in_cell s : mode s = InCell ->
  hshape_b s = existsb (fun x => in_set td_th (ename_of s x)) (open_elems s).
Proof.
  intro E. unfold hshape_b. rewrite E. cbn [is_mode mode_eqb mode_id Nat.eqb orb andb].
  rewrite andb_true_r. reflexivity.
Qed.
(* the shape assumption survives anything that keeps the mode, only adds open elements and keeps their names *)
Lemma hshape_transfer q sr : dmode (mode q) -> mode sr = mode q -> Hshape q ->
  incl (open_elems q) (open_elems sr) -> (forall x, In x (open_elems q) -> ename_of sr x = ename_of q x) -> Hshape sr.
Proof.
  intros [E|[E|[E|[E|[E|[E|E]]]]]] Em Sh Inc En; try (apply hshape_in_body; rewrite Em; tauto).
  unfold Hshape in *. rewrite hshape_in_cell in * by congruence.
  apply existsb_exists in Sh. destruct Sh as (x & Hx & Tx). apply existsb_exists. exists x.
  split; [apply Inc; exact Hx | rewrite (En x Hx); exact Tx].
Qed.

Definition pre_arm (m : imode) : list event :=
  match m with
  | InCell => [EvArm (mode_id InCell) 4]
  | AfterBody => [EvArm (mode_id AfterBody) 1; EvArm (mode_id AfterBody) 0]
  | AfterAfterBody => [EvArm (mode_id AfterAfterBody) 1; EvArm (mode_id AfterAfterBody) 0]
  | AfterAfterFrameset => [EvArm (mode_id AfterAfterFrameset) 1; EvArm (mode_id AfterAfterFrameset) 0]
  | InCaption => [EvArm (mode_id InCaption) 2]
  | InTemplate => [EvArm (mode_id InTemplate) 0]
  | _ => []
  end.
Definition arm_state_m (m : imode) (s : st) : st := set_out (EvArm (mode_id InBody) 1 :: pre_arm m ++ out s) s.
Definition arm_state (s : st) : st := arm_state_m (mode s) s.

Definition body_fin (x : str) (sr : st) (target : handle) : st :=
  let sf := if any_not_whitespace x then set_frameset_ok false sr else sr in
  set_out (EvOp (OpAppend target (inr x)) :: EvArm 30 2 :: out sf) sf.

Lemma body_tail_eq sr x target :
  foster_parenting sr = false -> vlast (open_elems sr) = Some target -> named sr target "template" = false ->
  (when (any_not_whitespace x) set_frameset_not_ok ;; append_text x) sr = Ok Done (body_fin x sr target).
Proof.
  intros Fp V Nt. unfold body_fin. unfold bind at 1. unfold when, set_frameset_not_ok, modify, ret.
  destruct (any_not_whitespace x); cbv beta iota; apply append_text_eq; assumption.
Qed.

Lemma first_match_body_chars sp x : first_match heads_in_body (KChars sp x) = 1.
Proof. rewrite (first_match_chars_ext _ sp x []). destruct sp; reflexivity. Qed.

Lemma first_match_caption_chars sp x : first_match heads_in_caption (KChars sp x) = 2.
Proof. rewrite (first_match_chars_ext _ sp x []). destruct sp; reflexivity. Qed.
Lemma first_match_cell_chars sp x : first_match heads_in_cell (KChars sp x) = 4.
Proof. rewrite (first_match_chars_ext _ sp x []). destruct sp; reflexivity. Qed.
Lemma first_match_template_chars sp x : first_match heads_in_template (KChars sp x) = 0.
Proof. rewrite (first_match_chars_ext _ sp x []). destruct sp; reflexivity. Qed.

Lemma step_in_body_chars q sp x sr target :
  reconstruct_active_formatting_elements (set_out (EvArm (mode_id InBody) 1 :: out q) q) = Ok tt sr ->
  foster_parenting sr = false -> vlast (open_elems sr) = Some target -> named sr target "template" = false ->
  step_in_body (KChars sp x) q = Ok Done (body_fin x sr target).
Proof.
  intros R Fp V Nt. unfold step_in_body, step_in_body_gen, arm_dispatch. cbv zeta.
  rewrite first_match_body_chars. unfold bind at 1. unfold log_arm, modify. cbn [nth bodies_in_body_gen]. unfold ib_arm_1.
  cbn [tk_text]. unfold bind at 1. rewrite R. apply body_tail_eq; assumption.
Qed.

(* a token of white space only in a mode that cuts character tokens into runs: two iterations of the loop *)
Lemma span_all_ws x : any_not_whitespace x = false -> span (fun c => Bool.eqb (is_ascii_ws c) true) x = (x, []).
Proof.
  induction x as [|c r IH]; intro H; [reflexivity|]. unfold any_not_whitespace in H. cbn [existsb] in H.
  apply orb_false_iff in H. destruct H as [Hc Hr]. cbn [span].
  destruct (is_ascii_ws c); [|discriminate]. cbn [Bool.eqb]. rewrite (IH Hr). reflexivity.
Qed.

Lemma pop_all_ws x : x <> [] -> any_not_whitespace x = false -> pop_front_char_run x = Some (x, true, []).
Proof.
  intros N H. destruct x as [|c r]; [contradiction|]. unfold pop_front_char_run.
  assert (Wc : is_ascii_ws c = true).
  { unfold any_not_whitespace in H. cbn [existsb] in H. apply orb_false_iff in H. destruct H as [Hc _].
    destruct (is_ascii_ws c); [reflexivity | discriminate]. }
  rewrite Wc. rewrite (span_all_ws (c :: r) H). reflexivity.
Qed.

Definition alog (m : imode) (k : nat) (q : st) : st := set_out (EvArm (mode_id m) k :: out q) q.

Lemma ptc_ws_gen s x k0 s' :
  Hshape s -> x <> [] -> any_not_whitespace x = false ->
  is_foreign (KChars NotSplit x) s = Ok false s ->
  is_foreign (KChars Whitespace x) (alog (mode s) k0 s) = Ok false (alog (mode s) k0 s) ->
  step (mode s) (KChars NotSplit x) s = Ok (SplitWhitespace x) (alog (mode s) k0 s) ->
  step (mode s) (KChars Whitespace x) (alog (mode s) k0 s) = Ok Done s' ->
  process_to_completion (KChars NotSplit x) s = Ok SContinue s'.
Proof.
  intros Sh Nx Ws F1 F2 E1 E2.
  unfold process_to_completion. unfold bind at 1. unfold get.
  unfold ptc_fuel. change (64 + 4 * length (tk_text (KChars NotSplit x)) + 4 * length (open_elems s) + 4 * length (template_modes s))
    with (S (S (62 + 4 * length (tk_text (KChars NotSplit x)) + 4 * length (open_elems s) + 4 * length (template_modes s)))).
  cbn [ptc_loop]. unfold ptc_iter at 1. cbv zeta.
  unfold bind at 1. unfold bind at 1. rewrite (shape_check_ok s Sh).
  unfold bind at 1. rewrite F1.
  unfold bind at 1. unfold bind at 1. unfold get. rewrite E1. rewrite (pop_all_ws x Nx Ws).
  cbn [is_nil negb when]. unfold bind at 1. unfold ret at 1. unfold ret at 1.
  unfold ptc_iter. cbv zeta.
  unfold bind at 1. unfold bind at 1.
  rewrite (shape_check_ok (alog (mode s) k0 s) (Hshape_set_out _ s Sh)).
  unfold bind at 1. rewrite F2.
  unfold bind at 1. unfold bind at 1. unfold get.
  change (mode (alog (mode s) k0 s)) with (mode s). rewrite E2. reflexivity.
Qed.

Ltac fm_rw :=
  match goal with
  | |- context [first_match ?H (KChars ?sp ?x)] =>
      let v := eval vm_compute in (first_match H (KChars sp [])) in
      replace (first_match H (KChars sp x)) with v
        by (rewrite (first_match_chars_ext H sp x []); vm_compute; reflexivity)
  end.

Lemma ptc_body s x sr target :
  TInv s -> dmode (mode s) -> xok (mode s) x -> Hshape s -> adjusted_ns s = ns_html ->
  reconstruct_active_formatting_elements (arm_state s) = Ok tt sr ->
  foster_parenting sr = false -> vlast (open_elems sr) = Some target -> named sr target "template" = false ->
  process_to_completion (KChars NotSplit x) s = Ok SContinue (body_fin x sr target).
Proof.
  intros I Dm Xok Sh A R Fp V Nt. assert (L : late s) by (apply dmode_late; exact Dm).
  assert (After : forall k0, (mode s = AfterBody \/ mode s = AfterAfterBody \/ mode s = AfterAfterFrameset) ->
            x <> [] -> any_not_whitespace x = false ->
            step (mode s) (KChars NotSplit x) s = Ok (SplitWhitespace x) (alog (mode s) k0 s) ->
            step (mode s) (KChars Whitespace x) (alog (mode s) k0 s) = Ok Done (body_fin x sr target) ->
            process_to_completion (KChars NotSplit x) s = Ok SContinue (body_fin x sr target)).
  { intros k0 _ Nx Ws E1 E2. apply (ptc_ws_gen s x k0); try assumption.
    - apply is_foreign_chars_html; assumption.
    - apply is_foreign_chars_html; [eapply TInv_core_eq; [apply core_eq_set_out; reflexivity | exact I] | exact L | exact A]. }
  unfold arm_state in R.
  destruct Dm as [Em|[Em|[Em|[Em|Em]]]].
  5:{ assert (Xok' : x <> [] /\ any_not_whitespace x = false) by (destruct Em as [Em|[Em|Em]]; rewrite Em in Xok; exact Xok).
      destruct Xok' as [Nx Ws]. apply (After 0 Em Nx Ws); destruct Em as [Em|[Em|Em]]; rewrite Em in R |- *; cbn [step];
        unfold step_after_body, step_after_after_body, step_after_after_frameset, arm_dispatch; cbv zeta; fm_rw;
        unfold bind at 1; unfold log_arm, modify;
        cbn [nth bodies_after_body bodies_after_after_body bodies_after_after_frameset]; try reflexivity;
        apply (step_in_body_chars _ Whitespace x sr target); assumption. }
  all: unfold process_to_completion; unfold bind at 1; unfold get; unfold ptc_fuel;
    change (64 + 4 * length (tk_text (KChars NotSplit x)) + 4 * length (open_elems s) + 4 * length (template_modes s))
      with (S (63 + 4 * length (tk_text (KChars NotSplit x)) + 4 * length (open_elems s) + 4 * length (template_modes s)));
    cbn [ptc_loop]; unfold ptc_iter; cbv zeta;
    unfold bind at 1; unfold bind at 1; rewrite (shape_check_ok s Sh);
    unfold bind at 1; rewrite (is_foreign_chars_html s NotSplit x I L A);
    unfold bind at 1; unfold bind at 1; unfold get;
    rewrite Em in R |- *; cbn [step].
  - rewrite (step_in_body_chars s NotSplit x sr target R Fp V Nt). reflexivity.
  - unfold step_in_caption, arm_dispatch. cbv zeta. rewrite first_match_caption_chars.
    unfold bind at 1. unfold log_arm, modify. cbn [nth bodies_in_caption].
    rewrite (step_in_body_chars (set_out (EvArm (mode_id InCaption) 2 :: out s) s) NotSplit x sr target R Fp V Nt). reflexivity.
  - unfold step_in_template, step_in_template_gen, arm_dispatch. cbv zeta. rewrite first_match_template_chars.
    unfold bind at 1. unfold log_arm, modify. cbn [nth bodies_in_template_gen].
    rewrite (step_in_body_chars (set_out (EvArm (mode_id InTemplate) 0 :: out s) s) NotSplit x sr target R Fp V Nt). reflexivity.
  - unfold step_in_cell, arm_dispatch. cbv zeta. rewrite first_match_cell_chars.
    unfold bind at 1. unfold log_arm, modify. cbn [nth bodies_in_cell].
    rewrite (step_in_body_chars (set_out (EvArm (mode_id InCell) 4 :: out s) s) NotSplit x sr target R Fp V Nt). reflexivity.
Qed.

Lemma sig_arm m evs : sig (EvArm (mode_id InBody) 1 :: pre_arm m ++ evs) = sig evs.
Proof. destruct m; reflexivity. Qed.

(* everything known about the state reconstruct leaves *)
Lemma body_closed q : bodyhyp q ->
  exists sr target,
    reconstruct_active_formatting_elements (arm_state q) = Ok tt sr /\
    TInv sr /\ mode sr = mode q /\ Hshape sr /\ RPost sr /\ foster_parenting sr = false /\ ignore_lf sr = ignore_lf q /\
    vlast (open_elems sr) = Some target /\ named sr target "template" = false /\
    forall x, xok (mode q) x -> process_to_completion (KChars NotSplit x) q = Ok SContinue (body_fin x sr target).
Proof.
  intros (I & Em & Sh & Fp & A & Nt).
  assert (L : late (arm_state q)) by (exact (dmode_late q Em)).
  assert (K : keeps (arm_state q) (arm_state q)).
  { apply keeps_refl. eapply TInv_core_eq; [apply core_eq_set_out; apply sig_arm | exact I]. }
  pose proof (wp_reconstruct_post (arm_state q) (arm_state q)
                (fun _ s' => keeps (arm_state q) s' /\ RPost s' /\ incl (open_elems q) (open_elems s')) K L A Nt
                (fun s' K' P' Inc => conj K' (conj P' Inc))) as W.
  pose proof (Flg_reconstruct (arm_state q)) as Fl.
  unfold wp in W. destruct (reconstruct_active_formatting_elements (arm_state q)) as [[] sr | n |] eqn:R; [|destruct W | destruct W].
  destruct W as ([Ir Sr] & P & Inc). destruct Fl as [F1 F2].
  assert (Shr : Hshape sr).
  { apply (hshape_transfer q sr Em (st_mode _ _ Sr) Sh Inc). intros x Hx.
    apply (stable_ename (arm_state q) sr x Sr). apply (TInv_stack_known q x I Hx). }
  pose proof P as (_ & _ & target & V & Ntr).
  assert (Fr : foster_parenting sr = false) by (rewrite F1; exact Fp).
  exists sr, target. split; [reflexivity|]. split; [exact Ir|]. split; [exact (st_mode _ _ Sr)|].
  split; [exact Shr|]. split; [exact P|]. split; [exact Fr|]. split; [rewrite F2; reflexivity|]. split; [exact V|]. split; [exact Ntr|].
  intros x Xok. apply ptc_body; assumption.
Qed.

(* ---------- the prelude of process_token on a character token ---------- *)
Lemma process_token_chars s line x :
  process_token (TChars x) line s =
  match strip_lf (ignore_lf s) x with
  | [] => Ok SContinue (prelude_state s line x)
  | c :: r => process_to_completion (KChars NotSplit (c :: r)) (prelude_state s line x)
  end.
Proof. unfold process_token, bind. rewrite pt_prelude_chars. destruct (strip_lf (ignore_lf s) x); reflexivity. Qed.

Lemma prelude_state_app s line a b : a <> [] -> prelude_state s line (a ++ b) = prelude_state s line a.
Proof.
  intro Na. unfold prelude_state. rewrite (strip_lf_app _ a b Na), !app_length.
  replace (Nat.eqb (length (strip_lf (ignore_lf s) a) + length b) (length a + length b))
    with (Nat.eqb (length (strip_lf (ignore_lf s) a)) (length a)); [reflexivity|].
  destruct (Nat.eqb (length (strip_lf (ignore_lf s) a)) (length a)) eqn:E.
  - apply Nat.eqb_eq in E. symmetry. apply Nat.eqb_eq. lia.
  - apply Nat.eqb_neq in E. symmetry. apply Nat.eqb_neq. lia.
Qed.

Lemma prelude_state_cases s line x (P : st -> Prop) :
  (forall evs, P (set_out (evs ++ out s) (set_ignore_lf false s))) -> P (prelude_state s line x).
Proof.
  intro H. unfold prelude_state, line_state.
  destruct (negb (N.eqb line 1)); destruct (negb (Nat.eqb _ _)).
  - exact (H [EvArm 30 45; EvOp (OpSetLine line)]).
  - exact (H [EvOp (OpSetLine line)]).
  - exact (H [EvArm 30 45]).
  - exact (H []).
Qed.

Lemma bodyhyp_prelude s line x : bodyhyp s -> bodyhyp (prelude_state s line x) /\ ignore_lf (prelude_state s line x) = false.
Proof.
  intros (I & Em & Sh & Fp & A & Nt).
  destruct (prelude_state_ok s line x I Sh) as [I' Sh'].
  revert I' Sh'. apply prelude_state_cases. intros evs I' Sh'. split; [|reflexivity].
  split; [exact I'|]. split; [exact Em|]. split; [exact Sh'|]. split; [exact Fp|]. split; [exact A | exact Nt].
Qed.

Lemma same_core_prelude s line x : same_core (prelude_state s line x) (set_ignore_lf false s).
Proof. apply prelude_state_cases. intro evs. reflexivity. Qed.

Lemma same_core_open s s' : same_core s s' -> open_elems s = open_elems s'.
Proof. intro C. exact (f_equal open_elems C). Qed.

(* ---------- the DOM and the core after the rule ---------- *)
Lemma dom_body_fin x sr target : dom_of (body_fin x sr target) = DomSpec.apply (dom_of sr) (OpAppend target (inr x)).
Proof.
  unfold body_fin, dom_of. destruct (any_not_whitespace x); cbn [out set_out set_frameset_ok];
    rewrite !chron_cons, !run_from_app; cbn [run_from fold_left]; rewrite ?app_nil_r; reflexivity.
Qed.

Lemma same_core_body_fin x sr sr' target : same_core sr sr' -> same_core (body_fin x sr target) (body_fin x sr' target).
Proof.
  unfold same_core, body_fin. intro C. destruct (any_not_whitespace x).
  - exact (f_equal (set_frameset_ok false) C).
  - exact C.
Qed.

Lemma dom_arm_state s : dom_of (arm_state s) = dom_of s.
Proof.
  unfold dom_of, arm_state, arm_state_m. cbn [out set_out]. rewrite chron_cons, run_from_app.
  destruct (mode s); cbn [pre_arm app]; rewrite ?chron_cons, ?run_from_app; simpl; reflexivity.
Qed.

Lemma set_ignore_lf_same s : ignore_lf s = false -> set_ignore_lf false s = s.
Proof. destruct s. simpl. intros ->. reflexivity. Qed.

(* the second piece, from the state the first piece leaves *)
Definition second_state (a b : str) (sr : st) (target : handle) (line' : N) : st :=
  body_fin b (recon_noop_state (arm_state (prelude_state (body_fin a sr target) line' b))) target.

Lemma second_state_core a b sr target line' : ignore_lf sr = false ->
  same_core (body_fin (a ++ b) sr target) (second_state a b sr target line').
Proof.
  intro Il. unfold second_state.
  apply (prelude_state_cases (body_fin a sr target) line' b
           (fun p => same_core (body_fin (a ++ b) sr target) (body_fin b (recon_noop_state (arm_state p)) target))).
  intro evs. unfold same_core, body_fin, recon_noop_state, arm_state. rewrite any_not_whitespace_app.
  destruct sr as [o m om tm ptt qm oe af he fe ce fo il fp v ou]. cbn [ignore_lf] in Il. subst il.
  destruct (any_not_whitespace a), (any_not_whitespace b); cbn -[vlast]; destruct (vlast _); reflexivity.
Qed.

Lemma second_state_dom a b sr target line' :
  dom_of (second_state a b sr target line') =
  DomSpec.apply (DomSpec.apply (dom_of sr) (OpAppend target (inr a))) (OpAppend target (inr b)).
Proof.
  unfold second_state. rewrite dom_body_fin. f_equal.
  rewrite <- (dom_body_fin a sr target).
  assert (X : forall q, dom_of (recon_noop_state (arm_state q)) = dom_of q).
  { intro q. unfold recon_noop_state. destruct (vlast _); [|apply dom_arm_state].
    rewrite <- (dom_arm_state q). unfold dom_of. cbn [out set_out]. rewrite chron_cons, run_from_app. simpl. reflexivity. }
  rewrite X. apply dom_prelude_state.
Qed.

Lemma same_core_arm_prelude p line' x : ignore_lf p = false -> same_core (arm_state p) (arm_state (prelude_state p line' x)).
Proof.
  intro Il. apply (prelude_state_cases p line' x). intro evs. unfold same_core, arm_state.
  destruct p as [o m om tm ptt qm oe af he fe ce fo il fp v ou]. cbn [ignore_lf] in Il. subst il. reflexivity.
Qed.

Lemma hshape_b_set_frameset_ok v s : hshape_b (set_frameset_ok v s) = hshape_b s.
Proof.
  unfold hshape_b, in_scope.
  change (mode (set_frameset_ok v s)) with (mode s). change (open_elems (set_frameset_ok v s)) with (open_elems s).
  change (dev_on (set_frameset_ok v s) 11) with (dev_on s 11). change (ename_of (set_frameset_ok v s)) with (ename_of s).
  change (scope_for (set_frameset_ok v s)) with (scope_for s).
  rewrite (in_scope_l_ext s (set_frameset_ok v s)); [reflexivity | intro h; reflexivity].
Qed.

Lemma recon_noop_cases q (P : st -> Prop) : (forall evs, P (set_out (evs ++ out q) q)) -> P (recon_noop_state (arm_state q)).
Proof.
  intro H. unfold recon_noop_state, arm_state, arm_state_m. destruct (vlast _).
  - exact (H (EvArm 30 8 :: EvArm (mode_id InBody) 1 :: pre_arm (mode q))).
  - exact (H (EvArm (mode_id InBody) 1 :: pre_arm (mode q))).
Qed.

Lemma TInv_after_chars s line x r t : TInv s -> process_token (TChars x) line s = Ok r t -> TInv t.
Proof.
  intros I E. assert (TO : token_ok s (TChars x)) by (intros _; exact Logic.I).
  pose proof (process_token_ok s (TChars x) line I TO Logic.I) as W. unfold wps in W. rewrite E in W. exact W.
Qed.

(* C03, tree-builder side, "in body": one character token or two *)
Lemma mode_prelude s line x : mode (prelude_state s line x) = mode s.
Proof. apply (prelude_state_cases s line x). intro evs. reflexivity. Qed.

Lemma xok_pieces m a b : xok m (a ++ b) -> a <> [] -> b <> [] -> xok m a /\ xok m b.
Proof.
  intros H Na Nb. destruct m; try (split; exact I); destruct H as [_ W]; rewrite any_not_whitespace_app in W;
    apply orb_false_iff in W; destruct W as [Wa Wb]; repeat split; assumption.
Qed.
Lemma xok_app m a b : xok m a -> xok m b -> xok m (a ++ b).
Proof.
  intros Ha Hb. destruct m; try exact I; destruct Ha as [Na Wa], Hb as [Nb Wb];
    (split; [destruct a; [contradiction | discriminate] | rewrite any_not_whitespace_app, Wa, Wb; reflexivity]).
Qed.
Lemma xok_strip m ign a c r : xok m a -> strip_lf ign a = c :: r -> xok m (c :: r).
Proof.
  intros Ha E. destruct m; try exact I; destruct Ha as [Na Wa]; (split; [discriminate|]); rewrite <- E;
    destruct a as [|c0 r0]; try contradiction; unfold strip_lf; destruct (ign && N.eqb c0 10); try exact Wa;
    unfold any_not_whitespace in *; cbn [existsb] in Wa; apply orb_false_iff in Wa; exact (proj2 Wa).
Qed.

Theorem body_mode_split s line line' a b :
  bodyhyp s -> xok (mode s) (a ++ b) -> a <> [] -> b <> [] ->
  exists s1 sa s2,
    process_token (TChars (a ++ b)) line s = Ok SContinue s1 /\
    process_token (TChars a) line s = Ok SContinue sa /\
    process_token (TChars b) line' sa = Ok SContinue s2 /\
    same_core s1 s2 /\ dom_of s1 = dom_of s2 /\ TInv s1 /\ TInv s2.
Proof.
  intros Hs Xab Na Nb. pose proof Hs as (I & _).
  destruct (xok_pieces _ _ _ Xab Na Nb) as [Xa Xb].
  destruct (bodyhyp_prelude s line a Hs) as [Hp Ilp]. set (p := prelude_state s line a) in *.
  assert (Mp : mode p = mode s) by apply mode_prelude.
  destruct (body_closed p Hp) as (sr & target & R & Ir & Emr & Shr & P & Fr & Ilr & V & Nt & G).
  rewrite Ilp in Ilr. rewrite Mp in G.
  assert (Core : exists s1 sa s2,
    process_token (TChars (a ++ b)) line s = Ok SContinue s1 /\
    process_token (TChars a) line s = Ok SContinue sa /\
    process_token (TChars b) line' sa = Ok SContinue s2 /\
    same_core s1 s2 /\ dom_of s1 = dom_of s2).
  2:{ destruct Core as (s1 & sa & s2 & E1 & Ea & E2 & C & D). exists s1, sa, s2.
      repeat (split; [assumption|]). split.
      - exact (TInv_after_chars _ _ _ _ _ I E1).
      - exact (TInv_after_chars _ _ _ _ _ (TInv_after_chars _ _ _ _ _ I Ea) E2). }
  destruct b as [|cb rb]; [contradiction|].
  rewrite !process_token_chars, (strip_lf_app _ a _ Na), (prelude_state_app _ _ a _ Na). fold p.
  destruct (strip_lf (ignore_lf s) a) as [|c r'] eqn:Ea.
  - (* the first piece is a line feed that is dropped *)
    cbn [app]. exists (body_fin (cb :: rb) sr target), p.
    rewrite process_token_chars, Ilp, strip_lf_false.
    destruct (bodyhyp_prelude p line' (cb :: rb) Hp) as [Hp2 _]. set (p2 := prelude_state p line' (cb :: rb)) in *.
    destruct (body_closed p2 Hp2) as (sr2 & target2 & R2 & _ & _ & _ & _ & _ & _ & V2 & _ & G2).
    assert (Cp : same_core (arm_state p) (arm_state p2)).
    { unfold p2. apply same_core_arm_prelude. exact Ilp. }
    pose proof (Frame_two_states _ Frame_reconstruct _ _ Cp) as Fr2. rewrite R, R2 in Fr2.
    destruct Fr2 as (_ & Csr & evs & O1 & O2). fold (same_core sr sr2) in Csr.
    assert (Et : target2 = target).
    { pose proof (same_core_open _ _ Csr) as Eo. rewrite Eo in V. congruence. }
    subst target2. exists (body_fin (cb :: rb) sr2 target).
    split; [apply G; exact Xb|]. split; [reflexivity|].
    split; [apply G2; unfold p2; rewrite mode_prelude, Mp; exact Xb|].
    split; [apply same_core_body_fin; exact Csr|].
    rewrite !dom_body_fin. f_equal.
    rewrite (dom_of_app_out _ _ _ O1), (dom_of_app_out _ _ _ O2), !dom_arm_state. unfold p2. rewrite dom_prelude_state. reflexivity.
  - (* the general case *)
    cbn [app]. change (c :: r' ++ cb :: rb) with ((c :: r') ++ (cb :: rb)).
    set (a' := c :: r') in *. set (b := cb :: rb) in *.
    set (sa := body_fin a' sr target).
    assert (Xa' : xok (mode s) a') by (apply (xok_strip _ (ignore_lf s) a c r' Xa Ea)).
    exists (body_fin (a' ++ b) sr target), sa, (second_state a' b sr target line').
    split; [apply G; apply xok_app; assumption|]. split; [apply G; exact Xa'|].
    assert (Isa : TInv sa).
    { apply (TInv_after_chars s line a SContinue sa I). rewrite process_token_chars, Ea. apply G. exact Xa'. }
    assert (Dmr : dmode (mode sr)) by (rewrite Emr; destruct Hp as (_ & Dp & _); exact Dp).
    assert (Hsa : bodyhyp sa).
    { destruct P as (_ & Ar & _). unfold sa, body_fin in *.
      destruct (any_not_whitespace a'); (split; [exact Isa|]); (split; [exact Dmr|]);
        (split; [first [apply Hshape_set_out; unfold Hshape; rewrite hshape_b_set_frameset_ok; exact Shr | apply Hshape_set_out; exact Shr]|]);
        (split; [exact Fr|]);
        (split; [exact Ar|]); exists target; split; assumption. }
    assert (Ilsa : ignore_lf sa = false) by (unfold sa, body_fin; destruct (any_not_whitespace a'); exact Ilr).
    destruct (bodyhyp_prelude sa line' b Hsa) as [(Ip2 & Em2 & Sh2 & _ & A2 & _) _]. set (p2 := prelude_state sa line' b) in *.
    split.
    { rewrite process_token_chars, Ilsa, strip_lf_false. unfold b at 1. fold b. fold p2.
      unfold second_state. fold sa. fold p2.
      assert (M2 : mode p2 = mode s).
      { unfold p2. rewrite mode_prelude. unfold sa, body_fin. destruct (any_not_whitespace a'); cbn [mode set_out set_frameset_ok]; congruence. }
      apply ptc_body; [exact Ip2 | exact Em2 | rewrite M2; exact Xb | exact Sh2 | exact A2 | | | |].
      - apply reconstruct_noop. destruct P as (Lo & _). unfold p2. apply (prelude_state_cases sa line' b). intro evs.
        unfold sa, body_fin. destruct (any_not_whitespace a'); exact Lo.
      - apply recon_noop_cases. intro evs0. unfold p2. apply (prelude_state_cases sa line' b). intro evs.
        unfold sa, body_fin. destruct (any_not_whitespace a'); exact Fr.
      - apply recon_noop_cases. intro evs0. unfold p2. apply (prelude_state_cases sa line' b). intro evs.
        unfold sa, body_fin. destruct (any_not_whitespace a'); exact V.
      - apply recon_noop_cases. intro evs0. unfold p2. apply (prelude_state_cases sa line' b). intro evs.
        unfold sa, body_fin. destruct (any_not_whitespace a'); exact Nt. }
    split; [apply second_state_core; exact Ilr|].
    rewrite second_state_dom, dom_body_fin. symmetry. apply apply_append_text_twice.
    intros n Rn. exact (sim_bound _ _ (TInv_sim sr Ir) target n Rn).
Qed.

(* the same with the hypotheses spelled out *)
Theorem body_mode_split_explicit s line line' a b target :
  TInv s ->
  mode s = InBody \/ mode s = InCaption \/ mode s = InTemplate \/ (mode s = InCell /\ Hshape s) \/
  ((mode s = AfterBody \/ mode s = AfterAfterBody \/ mode s = AfterAfterFrameset) /\ any_not_whitespace (a ++ b) = false) ->
  foster_parenting s = false -> adjusted_ns s = ns_html ->
  vlast (open_elems s) = Some target -> is_template_node s target = false ->
  a <> [] -> b <> [] ->
  exists s1 sa s2,
    process_token (TChars (a ++ b)) line s = Ok SContinue s1 /\
    process_token (TChars a) line s = Ok SContinue sa /\
    process_token (TChars b) line' sa = Ok SContinue s2 /\
    same_core s1 s2 /\ dom_of s1 = dom_of s2 /\ TInv s1 /\ TInv s2.
Proof.
  intros I Dm Fp A V Nt Na Nb.
  assert (Sh : Hshape s).
  { destruct Dm as [E|[E|[E|[[_ Sh]|[E _]]]]]; try exact Sh; apply hshape_in_body; tauto. }
  assert (Dm' : dmode (mode s)) by (unfold dmode; tauto).
  assert (Xab : xok (mode s) (a ++ b)).
  { destruct Dm as [E|[E|[E|[[E _]|[[E|[E|E]] W]]]]]; rewrite E; cbn [xok]; try exact Logic.I;
      (split; [destruct a; [contradiction | discriminate] | exact W]). }
  apply body_mode_split; [|exact Xab | exact Na | exact Nb].
  split; [exact I|]. split; [exact Dm'|]. split; [exact Sh|]. split; [exact Fp|]. split; [exact A|]. exists target. split; [exact V | exact Nt].
Qed.
