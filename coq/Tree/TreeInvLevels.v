(* ========================================================================
   TreeInvLevels.v - tying the knot between the "in body", "in head" and "in
   template" rules: the levels of TreeModelRules.v (step_in_body_0,
   step_in_head, step_in_template_0, step_in_body_1, step_in_body,
   step_in_template) satisfy their specifications, and the OutOfFuel of the
   level-0 callees is never reached.
   ======================================================================== *)
From Coq Require Import List NArith Bool Arith Lia String.
From HV Require Import Dom.DomSpec Tree.TreeTypes Tree.TreeTables Tree.TreeModelHelpers Tree.TreeModelRules
  Tree.TreeModel Tree.TreeHoare Tree.TreeInvBasic Tree.TreeInvDefs Tree.TreeInvSetters Tree.TreeInvPrims
  Tree.TreeInvHelpers Tree.TreeInvAAA Tree.TreeInvDispatch Tree.TreeInvRules Tree.TreeInvHead Tree.TreeInvBody.
Import ListNotations.
Open Scope string_scope.
Open Scope list_scope.
Notation length := List.length (only parsing).

(* the dispatch when the selected arm is known *)
Lemma wp_arm_dispatch_at mid heads bodies t k b (Q : presult -> st -> Prop) s :
  first_match heads t = k -> nth_error bodies k = Some b ->
  wp (b t) Q (set_out (EvArm mid k :: out s) s) -> wp (arm_dispatch mid heads bodies t) Q s.
Proof.
  intros E N H. unfold arm_dispatch. cbv zeta. rewrite E. rewrite wp_bind, wp_log_arm.
  rewrite (nth_error_nth _ _ _ N). exact H.
Qed.

Lemma In_singleton {A} (x y : A) : In x [y] -> x = y.
Proof. intros [H|[]]; auto. Qed.

(* ---------- level 0 of "in body": <html> ---------- *)
Lemma in_body_0_html s t : TInv s -> late s -> head_matches t (nth 3 heads_in_head []) = true ->
  wp (step_in_body_0 t) (fun r s' => step_post t r s' /\ is_reprocess r = false) s.
Proof.
  intros I L Hm.
  assert (E : first_match heads_in_body t = 3).
  { apply In_singleton. apply (lands_sound heads_in_body [3] (nth 3 heads_in_head [])); [reflexivity | exact Hm]. }
  unfold step_in_body_0, step_in_body_gen.
  eapply (wp_arm_dispatch_at _ _ _ _ 3); [exact E | reflexivity |].
  eapply wp_mono; [apply ib_3_ok; [eapply TInv_core_eq; [(apply core_eq_set_out; reflexivity) | exact I] | exact L]|].
  intros r s' [Is ->]. split; [apply step_post_done; exact Is | reflexivity].
Qed.

(* ---------- "in head" ---------- *)
Lemma step_in_head_ok s t : TInv s -> late s -> saving_mode (mode s) = false -> scalar_tok t -> ih_pre s t ->
  wp (step_in_head t) (ih_post t) s.
Proof. intros. unfold step_in_head. apply step_in_head_gen_ok; try assumption. intros; apply in_body_0_html; assumption. Qed.

(* "in head" as the rules of the current mode (the <html> arm goes to the full in-body rules) *)
Lemma step_in_head_top_ok (ib : body) :
  (forall s t, TInv s -> late s -> head_matches t (nth 3 heads_in_head []) = true ->
               wp (ib t) (fun r s' => step_post t r s' /\ is_reprocess r = false) s) ->
  forall s t, TInv s -> late s -> saving_mode (mode s) = false -> scalar_tok t -> ih_pre s t ->
  wp (step_in_head_gen ib t) (ih_post t) s.
Proof. intros. apply step_in_head_gen_ok; assumption. Qed.

(* delegation to "in head": the tokens that other modes pass on never reach the arms with a precondition *)
Definition not_noscript (n : str) : bool := negb (is_n n "noscript").
Lemma ih_pre_of_lands s t h :
  forallb (lands heads_in_head [0; 1; 2; 3; 4; 5; 6; 7; 10; 11; 12]) h = true ->
  forallb (atom_names not_noscript true) h = true ->
  head_matches t h = true -> ih_pre s t.
Proof.
  intros F N Hm. pose proof (lands_sound _ _ _ _ F Hm) as Hl. split.
  - intro X. exfalso. destruct X as [X|[X|[X|[]]]]; rewrite <- X in Hl; simpl in Hl; intuition discriminate.
  - intros _ Nn. exfalso.
    unfold head_matches in Hm. apply existsb_exists in Hm. destruct Hm as (a & Hin & Ma).
    rewrite forallb_forall in N, F. specialize (N a Hin). specialize (F a Hin).
    unfold tname in Nn.
    destruct a as [[sp|]| | | |n|n| | | |]; simpl in F; try discriminate;
      destruct t as [g|c|sp' c| |]; simpl in Ma; try discriminate; simpl in Nn; try discriminate.
    + apply andb_true_iff in Ma. destruct Ma as [_ Mn]. apply str_eqb_eq in Mn. simpl in N. unfold not_noscript in N.
      rewrite <- Mn in Nn. rewrite Nn in N. discriminate.
    + apply andb_true_iff in Ma. destruct Ma as [_ Mn]. apply str_eqb_eq in Mn. simpl in N. unfold not_noscript in N.
      rewrite <- Mn in Nn. rewrite Nn in N. discriminate.
Qed.

Lemma in_head_from_body s t : TInv s -> late s -> saving_mode (mode s) = false -> scalar_tok t ->
  head_matches t (nth 4 heads_in_body []) = true -> wp (step_in_head t) (step_post t) s.
Proof.
  intros I L NS Sc Hm. eapply wp_mono; [apply step_in_head_ok; try assumption|].
  - apply (ih_pre_of_lands s t (nth 4 heads_in_body [])); [reflexivity | reflexivity | exact Hm].
  - intros r s' [P _]. exact P.
Qed.

(* ---------- level 0 of "in template": EOF ---------- *)
Lemma b_done_cb_it : it_cb b_done b_done.
Proof.
  split.
  - intros s t I _ _ _ _. apply arm_done. exact I.
  - intros s t I _ _ _ _. unfold b_done. rewrite wp_ret. split; [apply step_post_done; exact I | reflexivity].
Qed.

Lemma in_template_0_eof s : TInv s -> late s -> saving_mode (mode s) = false ->
  wp (step_in_template_0 KEof) (step_post KEof) s.
Proof.
  intros I L NS.
  assert (E : step_in_template_0 KEof = step_in_template_gen b_done b_done KEof) by reflexivity.
  unfold wp. rewrite E. apply (step_in_template_gen_ok b_done b_done b_done_cb_it); [exact I | exact L | left; exact NS | exact Logic.I].
Qed.

(* ---------- level 1 of "in body": <br> and <img> ---------- *)
Lemma ib_cb_level (self : body) :
  (forall s t, TInv s -> late s -> saving_mode (mode s) = false -> scalar_tok t -> is_start t = true ->
               (tname t = nm "br" \/ tname t = nm "img") -> wp (self t) tag_post s) ->
  ib_cb step_in_head step_in_template_0 self.
Proof.
  intro H. split; [|split].
  - intros. apply in_head_from_body; assumption.
  - intros. apply in_template_0_eof; assumption.
  - exact H.
Qed.

Lemma in_body_1_void s t : TInv s -> late s -> saving_mode (mode s) = false -> scalar_tok t -> is_start t = true ->
  (tname t = nm "br" \/ tname t = nm "img") -> wp (step_in_body_1 t) tag_post s.
Proof.
  intros I L NS Sc St Nm.
  assert (E : first_match heads_in_body t = 32).
  { destruct t as [g| | | |]; try discriminate. rewrite first_match_tag_ext. simpl in St. unfold tname in Nm. simpl in Nm.
    destruct (tg_kind g); [|discriminate]. destruct Nm as [-> | ->]; reflexivity. }
  unfold step_in_body_1, step_in_body_gen.
  eapply (wp_arm_dispatch_at _ _ _ _ 32); [exact E | reflexivity |].
  unfold ib_arm_32.
  assert (C : is_chars t = false) by (destruct t; try discriminate; reflexivity).
  apply ib_void_ok; [eapply TInv_core_eq; [(apply core_eq_set_out; reflexivity) | exact I] | exact L | |].
  - destruct Nm as [-> | ->]; discriminate.
  - destruct Nm as [-> | ->]; discriminate.
Qed.

(* ---------- the full "in body" and "in template" rules ---------- *)
Lemma step_in_body_ok s t : TInv s -> late s -> (saving_mode (mode s) = false \/ is_chars t = true) -> scalar_tok t ->
  wp (step_in_body t) (ib_post t) s.
Proof.
  intros I L NSC Sc. unfold step_in_body. apply step_in_body_gen_ok; try assumption.
  apply ib_cb_level. intros; apply in_body_1_void; assumption.
Qed.

Lemma in_head_from_template s t : TInv s -> late s -> saving_mode (mode s) = false -> scalar_tok t ->
  head_matches t (nth 2 heads_in_template []) = true -> wp (step_in_head t) (step_post t) s.
Proof.
  intros I L NS Sc Hm. eapply wp_mono; [apply step_in_head_ok; try assumption|].
  - apply (ih_pre_of_lands s t (nth 2 heads_in_template [])); [reflexivity | reflexivity | exact Hm].
  - intros r s' [P _]. exact P.
Qed.

Lemma step_in_template_ok s t : TInv s -> late s -> (saving_mode (mode s) = false \/ is_chars t = true) -> scalar_tok t ->
  wp (step_in_template t) (step_post t) s.
Proof.
  intros I L NSC Sc. unfold step_in_template. apply step_in_template_gen_ok; try assumption. split.
  - intros. apply in_head_from_template; assumption.
  - intros. apply step_in_body_ok; assumption.
Qed.

(* the <html> start tag through the full in-body rules (used by the modes that delegate it) *)
Lemma in_body_html s t h : TInv s -> late s -> scalar_tok t ->
  forallb (lands heads_in_body [3]) h = true -> head_matches t h = true ->
  wp (step_in_body t) (fun r s' => step_post t r s' /\ is_reprocess r = false) s.
Proof.
  intros I L Sc F Hm.
  assert (E : first_match heads_in_body t = 3) by (apply In_singleton; apply (lands_sound heads_in_body [3] h t F Hm)).
  unfold step_in_body, step_in_body_gen.
  eapply (wp_arm_dispatch_at _ _ _ _ 3); [exact E | reflexivity |].
  eapply wp_mono; [apply ib_3_ok; [eapply TInv_core_eq; [(apply core_eq_set_out; reflexivity) | exact I] | exact L]|].
  intros r s' [Is ->]. split; [apply step_post_done; exact Is | reflexivity].
Qed.
