(* ========================================================================
   TreeTypes.v - vocabulary of the HTML tree-builder model (C02 C04 C05 C06 C18 C19).

   Mirrors html5ever/src/tree_builder/types.rs, the fields of `TreeBuilder`
   (mod.rs:84-142), tokenizer/interface.rs (Token, Tag, TokenSinkResult) and
   the part of the TreeSink the tree builder can observe.

   * names / strings are [str] = list of code points (DomSpec.str);
     [nm "div"] converts a Coq string literal.
   * handles are the integers of harness/src/tracesink.rs = DomSpec.handle:
     0 = Document, every create_element / create_comment gets the next number,
     the first get_template_contents of a template gets the next number.
   * [sview] is what the tree builder can learn from the sink through queries
     (elem_name, is_mathml_annotation_xml_integration_point, same_node,
     get_template_contents): the name and flags of every element handle and the
     template -> contents table.  It is updated by the same operations that are
     emitted as [sinkop]s; DomSpec.apply on the emitted ops yields the DOM
     (relation proved in TreeInv*.v, not needed to run the model).
   * [st] : tree-builder state; Vec-typed fields keep the Rust order (index 0 =
     first pushed; `push` appends at the END) so that every index computation of
     the Rust code can be mirrored literally.
   * [M] : state + error monad.  Emitted events are accumulated (reversed) in
     the [out] field.  [Panic site] = an unwrap / expect / assert / unreachable /
     panic / slice index of the Rust code (census in TreeModel.v); [OutOfFuel] =
     a loop bound of the model was exhausted (model artefact).
   No proofs in this file.
   ======================================================================== *)
From Coq Require Import List NArith Bool Arith String Ascii.
From HV Require Import Dom.DomSpec.
Import ListNotations.
Open Scope string_scope.
Open Scope list_scope.
Notation length := List.length (only parsing).

(* ---------- names ---------- *)
Fixpoint nm (s : string) : str :=
  match s with
  | EmptyString => []
  | String c r => N_of_ascii c :: nm r
  end.

Definition ns_html : str := Eval vm_compute in nm "http://www.w3.org/1999/xhtml".
Definition ns_mathml : str := Eval vm_compute in nm "http://www.w3.org/1998/Math/MathML".
Definition ns_svg : str := Eval vm_compute in nm "http://www.w3.org/2000/svg".
Definition ns_xlink : str := Eval vm_compute in nm "http://www.w3.org/1999/xlink".
Definition ns_xml : str := Eval vm_compute in nm "http://www.w3.org/XML/1998/namespace".
Definition ns_xmlns : str := Eval vm_compute in nm "http://www.w3.org/2000/xmlns/".
Definition ns_none : str := [].

(* expanded name = (namespace, local name) *)
Definition ename := (str * str)%type.
Definition ename_eqb (a b : ename) : bool := str_eqb (fst a) (fst b) && str_eqb (snd a) (snd b).
Definition in_set (set : list ename) (n : ename) : bool := existsb (ename_eqb n) set.
Definition html_names (l : list string) : list ename := map (fun s => (ns_html, nm s)) l.

(* ---------- tokens ---------- *)
Inductive tagkind := StartTag | EndTag.
Definition tagkind_eqb (a b : tagkind) : bool :=
  match a, b with StartTag, StartTag | EndTag, EndTag => true | _, _ => false end.

(* tokenizer::Token (same shape as TokIR.Interp.token) *)
Inductive token :=
| TDoctype (name pub sys : option str) (force_quirks : bool)
| TTag (k : tagkind) (name : str) (self_closing : bool) (attrs : list (str * str)) (had_dup : bool)
| TComment (s : str) | TChars (s : str) | TNull | TEof | TError.

(* tokenizer::Tag inside the tree builder: attribute names are QualNames *)
Record tag := { tg_kind : tagkind ; tg_name : str ; tg_self : bool ; tg_attrs : list dattr ; tg_dup : bool }.

Inductive split := NotSplit | Whitespace | NotWhitespace.

(* tree_builder::types::Token *)
Inductive tok :=
| KTag (t : tag) | KComment (s : str) | KChars (sp : split) (s : str) | KNull | KEof.

Inductive imode :=
| Initial | BeforeHtml | BeforeHead | InHead | InHeadNoscript | AfterHead | InBody | Text
| InTable | InTableText | InCaption | InColumnGroup | InTableBody | InRow | InCell | InTemplate
| AfterBody | InFrameset | AfterFrameset | AfterAfterBody | AfterAfterFrameset.

Definition mode_id (m : imode) : nat :=
  match m with
  | Initial => 0 | BeforeHtml => 1 | BeforeHead => 2 | InHead => 3 | InHeadNoscript => 4 | AfterHead => 5
  | InBody => 6 | Text => 7 | InTable => 8 | InTableText => 9 | InCaption => 10 | InColumnGroup => 11
  | InTableBody => 12 | InRow => 13 | InCell => 14 | InTemplate => 15 | AfterBody => 16 | InFrameset => 17
  | AfterFrameset => 18 | AfterAfterBody => 19 | AfterAfterFrameset => 20
  end.
Definition foreign_id : nat := 21.
Definition mode_eqb (a b : imode) : bool := Nat.eqb (mode_id a) (mode_id b).

(* tokenizer::states::RawKind as far as the tree builder uses it *)
Inductive rawkind := Rcdata | Rawtext | ScriptData.

(* tree_builder::types::ProcessResult *)
Inductive presult :=
| Done | DoneAckSelfClosing | SplitWhitespace (s : str) | Reprocess (m : imode) (t : tok)
| ReprocessForeign (t : tok) | PScript (h : handle) | ToPlaintext | ToRawData (k : rawkind)
| PEncoding (l : str).

(* tokenizer::TokenSinkResult *)
Inductive sink_result :=
| SContinue | SScript (h : handle) | SPlaintext | SRawData (k : rawkind) | SEncoding (l : str).

(* tree_builder::types::FormatEntry *)
Inductive fentry := FMarker | FElem (h : handle) (t : tag).

(* tree_builder::types::InsertionPoint *)
Inductive ipoint := LastChild (h : handle) | BeforeSibling (h : handle) | TableFoster (element prev : handle).

(* ---------- options ---------- *)
Record topts := {
  o_exact_errors : bool ;        (* only changes parse-error messages, which are not modelled *)
  o_scripting : bool ;
  o_iframe_srcdoc : bool ;
  o_drop_doctype : bool ;
  o_quirks : N ;                 (* initial quirks mode: 0 Quirks, 1 LimitedQuirks, 2 NoQuirks (DomSpec) *)
  o_allow_dsr : bool ;           (* answer of TreeSink::allow_declarative_shadow_roots (default impl: true) *)
  o_attach_ok : bool ;           (* answer of TreeSink::attach_declarative_shadow (default impl: false) *)
  o_dev : list bool              (* deviation switches, see [dev_on]; [] = html5ever as it is *)
}.

(* ---------- what the sink tells about handles ---------- *)
Record einfo := { e_ns : str ; e_local : str ; e_ip : bool ; e_tmpl : bool }.
Record sview := {
  sv_elems : list (option einfo) ;       (* index = handle; None = not an element *)
  sv_tmpl : list (handle * handle)       (* template element -> its contents fragment *)
}.

(* ---------- events ---------- *)
Inductive event :=
| EvOp (op : sinkop)
| EvArm (mode_or_foreign : nat) (arm : nat).   (* coverage marker: arm [arm] of step(mode) fired *)

(* ---------- state ---------- *)
Record st := {
  opts : topts ;
  mode : imode ;
  orig_mode : option imode ;
  template_modes : list imode ;
  pending_table_text : list (split * str) ;
  quirks_mode : N ;
  open_elems : list handle ;
  active_formatting : list fentry ;
  head_elem : option handle ;
  form_elem : option handle ;
  context_elem : option handle ;
  frameset_ok : bool ;
  ignore_lf : bool ;
  foster_parenting : bool ;
  sv : sview ;
  out : list event
}.

Definition set_mode (v : _) (s : st) : st :=
  {| opts := opts s ; mode := v ; orig_mode := orig_mode s ; template_modes := template_modes s ; pending_table_text := pending_table_text s ; quirks_mode := quirks_mode s ; open_elems := open_elems s ; active_formatting := active_formatting s ; head_elem := head_elem s ; form_elem := form_elem s ; context_elem := context_elem s ; frameset_ok := frameset_ok s ; ignore_lf := ignore_lf s ; foster_parenting := foster_parenting s ; sv := sv s ; out := out s |}.
Definition set_orig_mode (v : _) (s : st) : st :=
  {| opts := opts s ; mode := mode s ; orig_mode := v ; template_modes := template_modes s ; pending_table_text := pending_table_text s ; quirks_mode := quirks_mode s ; open_elems := open_elems s ; active_formatting := active_formatting s ; head_elem := head_elem s ; form_elem := form_elem s ; context_elem := context_elem s ; frameset_ok := frameset_ok s ; ignore_lf := ignore_lf s ; foster_parenting := foster_parenting s ; sv := sv s ; out := out s |}.
Definition set_template_modes (v : _) (s : st) : st :=
  {| opts := opts s ; mode := mode s ; orig_mode := orig_mode s ; template_modes := v ; pending_table_text := pending_table_text s ; quirks_mode := quirks_mode s ; open_elems := open_elems s ; active_formatting := active_formatting s ; head_elem := head_elem s ; form_elem := form_elem s ; context_elem := context_elem s ; frameset_ok := frameset_ok s ; ignore_lf := ignore_lf s ; foster_parenting := foster_parenting s ; sv := sv s ; out := out s |}.
Definition set_pending_table_text (v : _) (s : st) : st :=
  {| opts := opts s ; mode := mode s ; orig_mode := orig_mode s ; template_modes := template_modes s ; pending_table_text := v ; quirks_mode := quirks_mode s ; open_elems := open_elems s ; active_formatting := active_formatting s ; head_elem := head_elem s ; form_elem := form_elem s ; context_elem := context_elem s ; frameset_ok := frameset_ok s ; ignore_lf := ignore_lf s ; foster_parenting := foster_parenting s ; sv := sv s ; out := out s |}.
Definition set_quirks_mode (v : _) (s : st) : st :=
  {| opts := opts s ; mode := mode s ; orig_mode := orig_mode s ; template_modes := template_modes s ; pending_table_text := pending_table_text s ; quirks_mode := v ; open_elems := open_elems s ; active_formatting := active_formatting s ; head_elem := head_elem s ; form_elem := form_elem s ; context_elem := context_elem s ; frameset_ok := frameset_ok s ; ignore_lf := ignore_lf s ; foster_parenting := foster_parenting s ; sv := sv s ; out := out s |}.
Definition set_open_elems (v : _) (s : st) : st :=
  {| opts := opts s ; mode := mode s ; orig_mode := orig_mode s ; template_modes := template_modes s ; pending_table_text := pending_table_text s ; quirks_mode := quirks_mode s ; open_elems := v ; active_formatting := active_formatting s ; head_elem := head_elem s ; form_elem := form_elem s ; context_elem := context_elem s ; frameset_ok := frameset_ok s ; ignore_lf := ignore_lf s ; foster_parenting := foster_parenting s ; sv := sv s ; out := out s |}.
Definition set_active_formatting (v : _) (s : st) : st :=
  {| opts := opts s ; mode := mode s ; orig_mode := orig_mode s ; template_modes := template_modes s ; pending_table_text := pending_table_text s ; quirks_mode := quirks_mode s ; open_elems := open_elems s ; active_formatting := v ; head_elem := head_elem s ; form_elem := form_elem s ; context_elem := context_elem s ; frameset_ok := frameset_ok s ; ignore_lf := ignore_lf s ; foster_parenting := foster_parenting s ; sv := sv s ; out := out s |}.
Definition set_head_elem (v : _) (s : st) : st :=
  {| opts := opts s ; mode := mode s ; orig_mode := orig_mode s ; template_modes := template_modes s ; pending_table_text := pending_table_text s ; quirks_mode := quirks_mode s ; open_elems := open_elems s ; active_formatting := active_formatting s ; head_elem := v ; form_elem := form_elem s ; context_elem := context_elem s ; frameset_ok := frameset_ok s ; ignore_lf := ignore_lf s ; foster_parenting := foster_parenting s ; sv := sv s ; out := out s |}.
Definition set_form_elem (v : _) (s : st) : st :=
  {| opts := opts s ; mode := mode s ; orig_mode := orig_mode s ; template_modes := template_modes s ; pending_table_text := pending_table_text s ; quirks_mode := quirks_mode s ; open_elems := open_elems s ; active_formatting := active_formatting s ; head_elem := head_elem s ; form_elem := v ; context_elem := context_elem s ; frameset_ok := frameset_ok s ; ignore_lf := ignore_lf s ; foster_parenting := foster_parenting s ; sv := sv s ; out := out s |}.
Definition set_context_elem (v : _) (s : st) : st :=
  {| opts := opts s ; mode := mode s ; orig_mode := orig_mode s ; template_modes := template_modes s ; pending_table_text := pending_table_text s ; quirks_mode := quirks_mode s ; open_elems := open_elems s ; active_formatting := active_formatting s ; head_elem := head_elem s ; form_elem := form_elem s ; context_elem := v ; frameset_ok := frameset_ok s ; ignore_lf := ignore_lf s ; foster_parenting := foster_parenting s ; sv := sv s ; out := out s |}.
Definition set_frameset_ok (v : _) (s : st) : st :=
  {| opts := opts s ; mode := mode s ; orig_mode := orig_mode s ; template_modes := template_modes s ; pending_table_text := pending_table_text s ; quirks_mode := quirks_mode s ; open_elems := open_elems s ; active_formatting := active_formatting s ; head_elem := head_elem s ; form_elem := form_elem s ; context_elem := context_elem s ; frameset_ok := v ; ignore_lf := ignore_lf s ; foster_parenting := foster_parenting s ; sv := sv s ; out := out s |}.
Definition set_ignore_lf (v : _) (s : st) : st :=
  {| opts := opts s ; mode := mode s ; orig_mode := orig_mode s ; template_modes := template_modes s ; pending_table_text := pending_table_text s ; quirks_mode := quirks_mode s ; open_elems := open_elems s ; active_formatting := active_formatting s ; head_elem := head_elem s ; form_elem := form_elem s ; context_elem := context_elem s ; frameset_ok := frameset_ok s ; ignore_lf := v ; foster_parenting := foster_parenting s ; sv := sv s ; out := out s |}.
Definition set_foster_parenting (v : _) (s : st) : st :=
  {| opts := opts s ; mode := mode s ; orig_mode := orig_mode s ; template_modes := template_modes s ; pending_table_text := pending_table_text s ; quirks_mode := quirks_mode s ; open_elems := open_elems s ; active_formatting := active_formatting s ; head_elem := head_elem s ; form_elem := form_elem s ; context_elem := context_elem s ; frameset_ok := frameset_ok s ; ignore_lf := ignore_lf s ; foster_parenting := v ; sv := sv s ; out := out s |}.
Definition set_sv (v : _) (s : st) : st :=
  {| opts := opts s ; mode := mode s ; orig_mode := orig_mode s ; template_modes := template_modes s ; pending_table_text := pending_table_text s ; quirks_mode := quirks_mode s ; open_elems := open_elems s ; active_formatting := active_formatting s ; head_elem := head_elem s ; form_elem := form_elem s ; context_elem := context_elem s ; frameset_ok := frameset_ok s ; ignore_lf := ignore_lf s ; foster_parenting := foster_parenting s ; sv := v ; out := out s |}.
Definition set_out (v : _) (s : st) : st :=
  {| opts := opts s ; mode := mode s ; orig_mode := orig_mode s ; template_modes := template_modes s ; pending_table_text := pending_table_text s ; quirks_mode := quirks_mode s ; open_elems := open_elems s ; active_formatting := active_formatting s ; head_elem := head_elem s ; form_elem := form_elem s ; context_elem := context_elem s ; frameset_ok := frameset_ok s ; ignore_lf := ignore_lf s ; foster_parenting := foster_parenting s ; sv := sv s ; out := v |}.

(* ---------- the monad ---------- *)
Inductive res (A : Type) :=
| Ok (a : A) (s : st)
| Panic (site : N)
| OutOfFuel.
Arguments Ok {A} a s.
Arguments Panic {A} site.
Arguments OutOfFuel {A}.

Definition M (A : Type) := st -> res A.
Definition ret {A} (a : A) : M A := fun s => Ok a s.
Definition bind {A B} (m : M A) (k : A -> M B) : M B :=
  fun s => match m s with Ok a s' => k a s' | Panic n => Panic n | OutOfFuel => OutOfFuel end.
Definition panic {A} (site : N) : M A := fun _ => Panic site.
Definition out_of_fuel {A} : M A := fun _ => OutOfFuel.
Definition get : M st := fun s => Ok s s.
Definition gets {A} (f : st -> A) : M A := fun s => Ok (f s) s.
Definition modify (f : st -> st) : M unit := fun s => Ok tt (f s).

Notation "x <- m ;; k" := (bind m (fun x => k)) (at level 61, m at next level, right associativity).
Notation "m ;; k" := (bind m (fun _ => k)) (at level 61, right associativity).

Definition when (b : bool) (m : M unit) : M unit := if b then m else ret tt.
Definition unwrap {A} (o : option A) (site : N) : M A :=
  match o with Some a => ret a | None => panic site end.
Definition assert (b : bool) (site : N) : M unit := if b then ret tt else panic site.

Fixpoint mapM_ {A} (f : A -> M unit) (l : list A) : M unit :=
  match l with
  | [] => ret tt
  | x :: t => f x ;; mapM_ f t
  end.

(* ---------- Vec operations (Rust order: push appends at the end) ---------- *)
Fixpoint vlast {A} (l : list A) : option A :=
  match l with
  | [] => None
  | [x] => Some x
  | _ :: t => vlast t
  end.
Definition vpush {A} (l : list A) (x : A) : list A := l ++ [x].
Definition vpop {A} (l : list A) : list A := removelast l.
Definition vtruncate {A} (n : nat) (l : list A) : list A := firstn n l.
(* Vec::remove(i), Vec::insert(i, x), v[i] = x : callers check the bounds *)
Definition vremove {A} (i : nat) (l : list A) : list A := firstn i l ++ skipn (S i) l.
Definition vinsert {A} (i : nat) (x : A) (l : list A) : list A := firstn i l ++ x :: skipn i l.
Definition vset {A} (i : nat) (x : A) (l : list A) : list A := firstn i l ++ x :: skipn (S i) l.
(* Iterator::position / rposition *)
Fixpoint position {A} (p : A -> bool) (l : list A) : option nat :=
  match l with
  | [] => None
  | x :: t => if p x then Some 0 else option_map S (position p t)
  end.
Fixpoint rposition {A} (p : A -> bool) (l : list A) : option nat :=
  match l with
  | [] => None
  | x :: t =>
    match rposition p t with
    | Some i => Some (S i)
    | None => if p x then Some 0 else None
    end
  end.

(* ---------- characters ---------- *)
(* char::is_ascii_whitespace: U+0020, U+0009, U+000A, U+000C, U+000D *)
Definition is_ascii_ws (c : N) : bool :=
  (c =? 0x20)%N || (c =? 0x09)%N || (c =? 0x0A)%N || (c =? 0x0C)%N || (c =? 0x0D)%N.
Definition any_not_whitespace (s : str) : bool := existsb (fun c => negb (is_ascii_ws c)) s.
Definition ascii_lower (c : N) : N := if (0x41 <=? c)%N && (c <=? 0x5A)%N then (c + 0x20)%N else c.
Fixpoint eq_ignore_ascii_case (a b : str) : bool :=
  match a, b with
  | [], [] => true
  | x :: a', y :: b' => (ascii_lower x =? ascii_lower y)%N && eq_ignore_ascii_case a' b'
  | _, _ => false
  end.
Definition to_ascii_lowercase (s : str) : str := map ascii_lower s.
Fixpoint starts_with (s pfx : str) : bool :=
  match pfx, s with
  | [], _ => true
  | p :: pfx', c :: s' => (p =? c)%N && starts_with s' pfx'
  | _ :: _, [] => false
  end.
(* StrTendril::pop_front_char_run: the maximal prefix on which [p] is constant *)
Fixpoint span {A} (p : A -> bool) (l : list A) : list A * list A :=
  match l with
  | [] => ([], [])
  | x :: t => if p x then let '(a, b) := span p t in (x :: a, b) else ([], l)
  end.
Definition pop_front_char_run (s : str) : option (str * bool * str) :=
  match s with
  | [] => None
  | c :: _ =>
    let w := is_ascii_ws c in
    let '(a, b) := span (fun x => Bool.eqb (is_ascii_ws x) w) s in
    Some (a, w, b)
  end.

(* ---------- accessors ---------- *)
Definition dummy_tag : tag :=
  {| tg_kind := StartTag ; tg_name := [] ; tg_self := false ; tg_attrs := [] ; tg_dup := false |}.
Definition tk_tag (t : tok) : tag := match t with KTag g => g | _ => dummy_tag end.
Definition tk_text (t : tok) : str := match t with KChars _ s | KComment s => s | _ => [] end.
Definition tk_split (t : tok) : split := match t with KChars sp _ => sp | _ => NotSplit end.

Definition qn_plain (local : str) : qualname := {| q_prefix := None ; q_ns := ns_none ; q_local := local |}.
Definition qn_elem (ns local : str) : qualname := {| q_prefix := None ; q_ns := ns ; q_local := local |}.
(* attr.name.expanded() == expanded_name!("", local) *)
Definition attr_is (local : str) (a : dattr) : bool :=
  str_eqb (q_ns (d_name a)) ns_none && str_eqb (q_local (d_name a)) local.
(* Tag::get_attribute *)
Definition get_attribute (t : tag) (local : str) : option str :=
  option_map d_value (find (attr_is local) (tg_attrs t)).

(* ---------- events / sink view ---------- *)
Definition emit (op : sinkop) : M unit := modify (fun s => set_out (EvOp op :: out s) s).
Definition log_arm (m k : nat) : M unit := modify (fun s => set_out (EvArm m k :: out s) s).
Definition parse_error : M unit := emit OpParseError.

(* DEVIATION SWITCHES.  Where html5ever departs from the WHATWG tree-construction
   text as transcribed here, the model has both behaviours; [dev_on s i] = true
   selects what html5ever does (the default: the list may be shorter than the
   index), false selects the WHATWG behaviour.  The correspondence run uses
   o_dev = []; the C02 oracle compares the implementation with the all-false
   variant and classifies every difference by the switches that explain it.
     1  `ignore_lf` (LF after <pre>/<listing>/<textarea>) is dropped by an intervening ParseError token
     2  "has an element in scope" lists lack MathML annotation-xml
     3  the special category lacks `search`
     4  the special category contains `isindex`
     5  the special category lacks MathML mi mo mn ms mtext annotation-xml and SVG foreignObject desc title
     6  the break-out pop loop in foreign content does not stop at an annotation-xml HTML integration point
     7  <base>/<basefont>/<bgsound>/<link> with a charset attribute raise an EncodingIndicator like <meta>
     8  DOCTYPE: force-quirks / name other than html win over iframe_srcdoc
     9  characters in table: `template` is missing from the current-node test
    10  the foreign attribute `xmlns` gets the prefix Some("") instead of no prefix
    11  in table body, <caption>/<col>/<colgroup>/<tbody>/<tfoot>/<thead>/</table>: the scope test looks for
        table/tbody/tfoot instead of tbody/thead/tfoot
    12  declarative shadow root: "adjusted current node is not the topmost element" read as "stack has > 1 element"
    13  DOCTYPE: the quirks public-id prefix "+//Silmaril//dtd html Pro v0r11 19970101//" is missing *)
Definition dev_on (s : st) (i : nat) : bool := nth i (o_dev (opts s)) true.

Definition next_handle (s : st) : handle := length (sv_elems (sv s)).
Definition einfo_of (s : st) (h : handle) : option einfo := nth h (sv_elems (sv s)) None.
(* TreeSink::elem_name(h).expanded(); the default is never used on a handle the
   tree builder holds (TreeInv: every stored handle is an element) *)
Definition ename_of (s : st) (h : handle) : ename :=
  match einfo_of s h with Some e => (e_ns e, e_local e) | None => ([], []) end.
Definition sv_push (e : option einfo) (v : sview) : sview :=
  {| sv_elems := sv_elems v ++ [e] ; sv_tmpl := sv_tmpl v |}.
