(* ========================================================================
   TreeSplitEarly.v - C03, tree-builder side, the insertion modes whose character arm answers SplitWhitespace:
   WHITE-SPACE-ONLY character tokens (the white space between the tags at the start of a document).

   In these modes process_to_completion cuts a character token into its maximal runs of white space / other
   characters and processes the runs one after the other.  A token of white space only is one run; the run is
     - ignored            in "initial", "before html", "before head";
     - appended as text   in "in head", "in head noscript" (through "in head"), "after head", "in column group",
                          "in frameset", "after frameset".
   ("after body", "after after body", "after after frameset" hand the run to "in body": TreeSplitBody.v.)

   PROVED
     * [ptc_ws]: the two iterations of the loop for such a token, for any mode given the two dispatch equations.
     * [ptc_early]: the closed form in the nine modes above ([ws_info]: the coverage markers logged, append or not).
     * [early_mode_split]: TChars (a ++ b) against TChars a followed by TChars b for a ++ b of white space only: same
       answers, same core, same DOM.  Hypotheses: TInv, the shape assumption, the token is not handled by the
       foreign rules ([nfchars]); in the appending modes also foster parenting off and a current node that is not a
       template element.
   NOT PROVED: tokens with other characters in these modes (the cut can fall inside the leading white-space run,
   inside the rest or at the boundary).  Worked-out plan (no file of the invariant chain is needed, but it is a
   development of its own, estimated at more than a thousand lines; DONE of it: step 0's fuel lemma and the queue
   decomposition of step 1 in TreeLoop.v, the case "r1 = a" of step 2 in TreeSplitBoundary.v):
     0. The statement has to be conditional: "if the three process_token calls answer Ok, the answers agree and the
        states have the same core and DOM" - the loop fuel of a ++ b, a and b differs and loop termination is open
        (TreeFuel.v).  Needed first: an Ok answer of ptc_loop does not depend on the fuel
        (ptc_loop f1 .. = Ok r1 s1 -> ptc_loop f2 .. = Ok r2 s2 -> r1 = r2 /\ s1 = s2), and "the loop continuing with
        the queued rest" against "a fresh process_token on the rest" (prelude + TreeFrame + that lemma).
     1. Queue insensitivity: ptc_iter t more s depends on [more] only in the last match (Done: next token or
        SContinue; Reprocess: queue kept; SplitWhitespace: rest appended; else: assert is_nil more).  Two runs with
        the same current token and state but queues [NotSplit (a2 ++ b)] and [NotSplit a2] (or []) stay in lock step
        until the current token answers Done.  Pitfall: SplitWhitespace [] answers SContinue and DROPS the queue; the
        side condition (checked by running the model) has to exclude a SplitWhitespace answer for a class-tagged run.
     2. Main claim by induction on the first piece, in a state whose NotSplit arm is b_split and that is not foreign;
        r1 = first run of a ++ b:  r1 shorter than a: lock step on r1, then the claim for (a2, b);  r1 = a: lock step,
        then step 0;  r1 = a ++ u: the current tokens differ ((c, a ++ u) against (c, a)).
     3. r1 = a ++ u, white space: the run is processed at once in the same mode; [early_fin] / TreeSplitBody.body_fin
        and the second-state lemmas of this file / TreeSplitBody.v compare the states; then the rests by TreeFrame.
     4. r1 = a ++ u, other characters: the arms "anything else" do not look at the text (they answer Reprocess with
        the token they got, or Done after `unexpected`): a table blind_at mode class with
        step m (KChars c x) s = Ok r s' -> step m (KChars c y) s = Ok (r with y) s'.  Both runs share the cascade
        (same states) until a mode whose arm uses the text: "in body" (loop-level version of ptc_body for a tagged
        token), then body (a ++ u); body rest against body a; body (u ++ rest): two uses of the "in body" split lemma.
        "in column group" cascades into "in table": not covered.
     5. Base cases in the non-splitting modes: the closed forms behind text_mode_split_gen, body_mode_split,
        foreign_mode_split restated for process_to_completion from a state with ignore_lf = false.
     6. The side condition becomes a recursive predicate over the iterations (mirrored by a checker that runs
        ptc_iter), the list theorem gets a second, weaker form (both runs RunOk -> same core and DOM).
   ======================================================================== *)
From Coq Require Import List NArith Bool Arith Lia String.
From HV Require Import Dom.DomSpec Dom.DomLemmas SinkSpec.Contract SinkSpec.ContractProofs.
From HV Require Import Tree.TreeTypes Tree.TreeTables Tree.TreeModelHelpers Tree.TreeModelRules Tree.TreeModel
  Tree.TreeHoare Tree.TreeInvBasic Tree.TreeInvDefs Tree.TreeInvSetters Tree.TreeInvPrims Tree.TreeInvHelpers Tree.TreeInvDispatch
  Tree.TreeInvRules Tree.TreeInvModes Tree.TreeInvMain Tree.TreeContract Tree.TreeSkeleton Tree.TreeContractRun
  Tree.TreeFrame Tree.TreeSplit Tree.TreeSplitTable Tree.TreeSplitBody Tree.TreeSplitForeign.
Import ListNotations.
Open Scope string_scope.
Open Scope list_scope.
Notation length := List.length (only parsing).

(* ---------- not handled by the foreign rules ---------- *)
Definition nfchars (s : st) : Prop :=
  match adjusted_node s with Some h => foreignb s h = false | None => open_elems s = [] end.

Lemma is_foreign_chars_nf s sp x : nfchars s -> is_foreign (KChars sp x) s = Ok false s.
Proof.
  unfold nfchars. destruct (adjusted_node s) as [h|] eqn:A.
  - intro F. rewrite (is_foreign_chars_val s sp x h A), F. reflexivity.
  - intro E. unfold is_foreign, bind, get. rewrite E. reflexivity.
Qed.

(* the two iterations of the loop (TreeSplitBody.ptc_ws_gen) *)
Lemma ptc_ws s x k0 s' :
  Hshape s -> nfchars s -> x <> [] -> any_not_whitespace x = false ->
  step (mode s) (KChars NotSplit x) s = Ok (SplitWhitespace x) (alog (mode s) k0 s) ->
  step (mode s) (KChars Whitespace x) (alog (mode s) k0 s) = Ok Done s' ->
  process_to_completion (KChars NotSplit x) s = Ok SContinue s'.
Proof.
  intros Sh Nf Nx Ws E1 E2. apply (ptc_ws_gen s x k0); try assumption.
  - apply is_foreign_chars_nf. exact Nf.
  - apply is_foreign_chars_nf. exact Nf.
Qed.

(* ---------- the nine modes ---------- *)
Definition ws_info (m : imode) : option (list event * bool) :=
  match m with
  | Initial => Some ([EvArm (mode_id Initial) 1; EvArm (mode_id Initial) 0], false)
  | BeforeHtml => Some ([EvArm (mode_id BeforeHtml) 2; EvArm (mode_id BeforeHtml) 1], false)
  | BeforeHead => Some ([EvArm (mode_id BeforeHead) 1; EvArm (mode_id BeforeHead) 0], false)
  | InHead => Some ([EvArm (mode_id InHead) 1; EvArm (mode_id InHead) 0], true)
  | InHeadNoscript =>
      Some ([EvArm (mode_id InHead) 1; EvArm (mode_id InHeadNoscript) 3; EvArm (mode_id InHeadNoscript) 2], true)
  | AfterHead => Some ([EvArm (mode_id AfterHead) 1; EvArm (mode_id AfterHead) 0], true)
  | InColumnGroup => Some ([EvArm (mode_id InColumnGroup) 1; EvArm (mode_id InColumnGroup) 0], true)
  | InFrameset => Some ([EvArm (mode_id InFrameset) 1; EvArm (mode_id InFrameset) 0], true)
  | AfterFrameset => Some ([EvArm (mode_id AfterFrameset) 1; EvArm (mode_id AfterFrameset) 0], true)
  | _ => None
  end.

Definition early_fin (evs : list event) (app : bool) (x : str) (q : st) (target : handle) : st :=
  let q1 := set_out (evs ++ out q) q in
  if app then set_out (EvOp (OpAppend target (inr x)) :: EvArm 30 2 :: out q1) q1 else q1.

Ltac dispatch_eq :=
  cbn [step]; unfold step_initial, step_before_html, step_before_head, step_in_head_gen, step_in_head_noscript,
    step_after_head, step_in_column_group, step_in_frameset, step_after_frameset, arm_dispatch; cbv zeta; fm_rw;
  unfold bind at 1; unfold log_arm, modify;
  cbn [nth bodies_initial bodies_before_html bodies_before_head bodies_in_head_gen bodies_in_head_noscript
           bodies_after_head bodies_in_column_group bodies_in_frameset bodies_after_frameset].

Lemma ptc_early s x evs app target :
  ws_info (mode s) = Some (evs, app) -> Hshape s -> nfchars s -> x <> [] -> any_not_whitespace x = false ->
  (app = true -> foster_parenting s = false /\ vlast (open_elems s) = Some target /\ named s target "template" = false) ->
  process_to_completion (KChars NotSplit x) s = Ok SContinue (early_fin evs app x s target).
Proof.
  intros Wi Sh Nf Nx Ws Ha.
  destruct (mode s) eqn:Em; cbn [ws_info] in Wi; try discriminate; injection Wi as <- <-;
    try (destruct (Ha eq_refl) as (Fp & V & Nt)).
  - apply (ptc_ws s x 0); try assumption; rewrite Em; dispatch_eq; reflexivity.
  - apply (ptc_ws s x 1); try assumption; rewrite Em; dispatch_eq; reflexivity.
  - apply (ptc_ws s x 0); try assumption; rewrite Em; dispatch_eq; reflexivity.
  - apply (ptc_ws s x 0); try assumption; rewrite Em; dispatch_eq; [reflexivity|].
    unfold b_append_text. cbn [tk_text]. apply append_text_eq; assumption.
  - apply (ptc_ws s x 2); try assumption; rewrite Em; dispatch_eq; [reflexivity|].
    unfold step_in_head. dispatch_eq. unfold b_append_text. cbn [tk_text]. apply append_text_eq; assumption.
  - apply (ptc_ws s x 0); try assumption; rewrite Em; dispatch_eq; [reflexivity|].
    unfold b_append_text. cbn [tk_text]. apply append_text_eq; assumption.
  - apply (ptc_ws s x 0); try assumption; rewrite Em; dispatch_eq; [reflexivity|].
    unfold b_append_text. cbn [tk_text]. apply append_text_eq; assumption.
  - apply (ptc_ws s x 0); try assumption; rewrite Em; dispatch_eq; [reflexivity|].
    unfold b_append_text. cbn [tk_text]. apply append_text_eq; assumption.
  - apply (ptc_ws s x 0); try assumption; rewrite Em; dispatch_eq; [reflexivity|].
    unfold b_append_text. cbn [tk_text]. apply append_text_eq; assumption.
Qed.

(* ---------- the split theorem ---------- *)
Definition cur (s : st) : handle := match vlast (open_elems s) with Some t => t | None => 0 end.

Definition earlyhyp (s : st) : Prop :=
  TInv s /\ Hshape s /\ nfchars s /\
  exists evs app, ws_info (mode s) = Some (evs, app) /\
    (app = true -> foster_parenting s = false /\ exists t, vlast (open_elems s) = Some t /\ named s t "template" = false).

Lemma ws_info_arms m evs app : ws_info m = Some (evs, app) -> chron evs = [].
Proof. destruct m; cbn [ws_info]; intro H; try discriminate; injection H as <- <-; reflexivity. Qed.

Lemma early_closed q : earlyhyp q ->
  exists evs app, ws_info (mode q) = Some (evs, app) /\ (app = true -> bound (dom_of q) (cur q)) /\
    forall x, x <> [] -> any_not_whitespace x = false ->
      process_to_completion (KChars NotSplit x) q = Ok SContinue (early_fin evs app x q (cur q)).
Proof.
  intros (I & Sh & Nf & evs & app & Wi & Ha). exists evs, app. split; [exact Wi|]. split.
  - intros _ n R. exact (sim_bound _ _ (TInv_sim q I) (cur q) n R).
  - intros x Nx Ws. apply ptc_early; try assumption.
    intro Ea. destruct (Ha Ea) as (Fp & t & V & Nt). unfold cur. rewrite V. repeat split; assumption.
Qed.

Lemma earlyhyp_prelude s line x : earlyhyp s -> earlyhyp (prelude_state s line x) /\ ignore_lf (prelude_state s line x) = false.
Proof.
  intros (I & Sh & Nf & W).
  destruct (prelude_state_ok s line x I Sh) as [I' Sh'].
  revert I' Sh'. apply prelude_state_cases. intros evs I' Sh'. split; [|reflexivity].
  split; [exact I'|]. split; [exact Sh'|]. split; [exact Nf | exact W].
Qed.

Lemma early_fin_core evs app x q t : same_core (early_fin evs app x q t) q.
Proof. unfold same_core, early_fin. destruct app; reflexivity. Qed.

Lemma dom_early_fin evs app x q t : chron evs = [] ->
  dom_of (early_fin evs app x q t) = if app then DomSpec.apply (dom_of q) (OpAppend t (inr x)) else dom_of q.
Proof.
  intro Ce. unfold early_fin, dom_of. destruct app; cbn [out set_out].
  - rewrite !chron_cons, !run_from_app, chron_app, Ce, run_from_app. cbn [run_from fold_left app]. reflexivity.
  - rewrite chron_app, Ce, run_from_app. reflexivity.
Qed.

Lemma earlyhyp_early_fin evs app x q t : earlyhyp q -> TInv (early_fin evs app x q t) -> earlyhyp (early_fin evs app x q t).
Proof.
  intros (I & Sh & Nf & W) I'. unfold early_fin in *.
  destruct app; (split; [exact I'|]); (split; [|split; [exact Nf | exact W]]).
  - apply Hshape_set_out. apply Hshape_set_out. exact Sh.
  - apply Hshape_set_out. exact Sh.
Qed.

Lemma all_ws_strip ign a : any_not_whitespace a = false -> any_not_whitespace (strip_lf ign a) = false.
Proof.
  intro H. destruct a as [|c r]; [exact H|]. unfold strip_lf. destruct (ign && N.eqb c 10); [|exact H].
  unfold any_not_whitespace in *. cbn [existsb] in H. apply orb_false_iff in H. exact (proj2 H).
Qed.

Theorem early_mode_split s line line' a b :
  earlyhyp s -> any_not_whitespace (a ++ b) = false -> a <> [] -> b <> [] ->
  exists s1 sa s2,
    process_token (TChars (a ++ b)) line s = Ok SContinue s1 /\
    process_token (TChars a) line s = Ok SContinue sa /\
    process_token (TChars b) line' sa = Ok SContinue s2 /\
    same_core s1 s2 /\ dom_of s1 = dom_of s2 /\ TInv s1 /\ TInv s2.
Proof.
  intros Hs Wab Na Nb. pose proof Hs as (I & _).
  rewrite any_not_whitespace_app in Wab. apply orb_false_iff in Wab. destruct Wab as [Wa Wb].
  destruct (earlyhyp_prelude s line a Hs) as [Hp Ilp]. set (p := prelude_state s line a) in *.
  destruct (early_closed p Hp) as (evs & ap & Wi & Bd & G). pose proof (ws_info_arms _ _ _ Wi) as Ce.
  assert (Core : exists s1 sa s2,
    process_token (TChars (a ++ b)) line s = Ok SContinue s1 /\
    process_token (TChars a) line s = Ok SContinue sa /\
    process_token (TChars b) line' sa = Ok SContinue s2 /\
    same_core s1 s2 /\ dom_of s1 = dom_of s2).
  2:{ destruct Core as (s1 & sa & s2 & E1 & Ea & E2 & C & D). exists s1, sa, s2.
      repeat (split; [assumption|]). split.
      - exact (TInv_after_chars _ _ _ _ _ I E1).
      - exact (TInv_after_chars _ _ _ _ _ (TInv_after_chars _ _ _ _ _ I Ea) E2). }
  destruct b as [|cb rb]; [contradiction|].
  rewrite !process_token_chars, (strip_lf_app _ a _ Na), (prelude_state_app _ _ a _ Na). fold p.
  pose proof (all_ws_strip (ignore_lf s) a Wa) as Wa'.
  destruct (strip_lf (ignore_lf s) a) as [|c r'] eqn:Ea.
  - (* the first piece is a line feed that is dropped *)
    cbn [app]. exists (early_fin evs ap (cb :: rb) p (cur p)), p.
    rewrite process_token_chars, Ilp, strip_lf_false.
    destruct (earlyhyp_prelude p line' (cb :: rb) Hp) as [Hp2 _]. set (p2 := prelude_state p line' (cb :: rb)) in *.
    destruct (early_closed p2 Hp2) as (evs2 & app2 & Wi2 & _ & G2).
    assert (Em2 : mode p2 = mode p) by (unfold p2; apply (prelude_state_cases p line' (cb :: rb)); intro; reflexivity).
    assert (Ec2 : cur p2 = cur p) by (unfold p2; apply (prelude_state_cases p line' (cb :: rb)); intro; reflexivity).
    rewrite Em2, Wi in Wi2. injection Wi2 as <- <-. rewrite Ec2 in G2.
    exists (early_fin evs ap (cb :: rb) p2 (cur p)).
    split; [apply G; [discriminate | exact Wb]|]. split; [reflexivity|]. split; [apply G2; [discriminate | exact Wb]|].
    assert (Cp : same_core p p2).
    { unfold p2. apply (prelude_state_cases p line' (cb :: rb)). intro e. unfold same_core.
      destruct p as [o m om tm ptt qm oe af he fe ce fo il fp v ou]. cbn [ignore_lf] in Ilp. subst il. reflexivity. }
    split.
    + unfold same_core in *. rewrite (early_fin_core evs ap (cb :: rb) p (cur p)), (early_fin_core evs ap (cb :: rb) p2 (cur p)). exact Cp.
    + rewrite !dom_early_fin by exact Ce. unfold p2. rewrite dom_prelude_state. reflexivity.
  - (* the general case *)
    cbn [app]. change (c :: r' ++ cb :: rb) with ((c :: r') ++ (cb :: rb)).
    set (a' := c :: r') in *. set (b := cb :: rb) in *.
    assert (Wab' : any_not_whitespace (a' ++ b) = false) by (rewrite any_not_whitespace_app, Wa', Wb; reflexivity).
    set (sa := early_fin evs ap a' p (cur p)).
    assert (Ga : process_to_completion (KChars NotSplit a') p = Ok SContinue sa) by (apply G; [discriminate | exact Wa']).
    assert (Isa : TInv sa).
    { apply (TInv_after_chars s line a SContinue sa I). rewrite process_token_chars, Ea. exact Ga. }
    pose proof (earlyhyp_early_fin evs ap a' p (cur p) Hp Isa) as Hsa. fold sa in Hsa.
    assert (Ilsa : ignore_lf sa = false) by (unfold sa, early_fin; destruct ap; exact Ilp).
    destruct (earlyhyp_prelude sa line' b Hsa) as [Hp2 _]. set (p2 := prelude_state sa line' b) in *.
    destruct (early_closed p2 Hp2) as (evs2 & app2 & Wi2 & _ & G2).
    assert (Em2 : mode p2 = mode p).
    { unfold p2. apply (prelude_state_cases sa line' b). intro. unfold sa, early_fin. destruct ap; reflexivity. }
    assert (Ec2 : cur p2 = cur p).
    { unfold p2. apply (prelude_state_cases sa line' b). intro. unfold sa, early_fin. destruct ap; reflexivity. }
    rewrite Em2, Wi in Wi2. injection Wi2 as <- <-. rewrite Ec2 in G2.
    exists (early_fin evs ap (a' ++ b) p (cur p)), sa, (early_fin evs ap b p2 (cur p)).
    split; [apply G; [discriminate | exact Wab']|]. split; [exact Ga|].
    split; [rewrite process_token_chars, Ilsa, strip_lf_false; unfold b at 1; fold b; fold p2; apply G2; [discriminate | exact Wb]|].
    assert (Cp : same_core p p2).
    { unfold p2. apply (prelude_state_cases sa line' b). intro e. unfold same_core, sa, early_fin.
      destruct p as [o m om tm ptt qm oe af he fe ce fo il fp v ou]. cbn [ignore_lf] in Ilp. subst il. destruct ap; reflexivity. }
    split.
    + unfold same_core in *. rewrite (early_fin_core evs ap (a' ++ b) p (cur p)), (early_fin_core evs ap b p2 (cur p)). exact Cp.
    + rewrite !dom_early_fin by exact Ce. unfold p2. rewrite dom_prelude_state. unfold sa. rewrite dom_early_fin by exact Ce.
      destruct ap; [|reflexivity]. symmetry. apply apply_append_text_twice. exact (Bd eq_refl).
Qed.
