(* ========================================================================
   TreeInvMain.v - the foreign-content rules, the Reprocess loop of
   process_to_completion, process_token and whole runs: the invariant [TInv]
   is preserved and the only Panic site the model can reach is the ghost
   assertion 99 (TreeModelRules.shape_check).

   [wps m Q s] : running [m] from [s] either ends with [Ok a s'] and [Q a s'],
                 or stops at Panic site 99, or runs out of fuel (the fuel of
                 ptc_loop; its sufficiency is not part of this theorem).
   ======================================================================== *)
From Coq Require Import List NArith Bool Arith Lia String.
From HV Require Import Dom.DomSpec Tree.TreeTypes Tree.TreeTables Tree.TreeModelHelpers Tree.TreeModelRules
  Tree.TreeModel Tree.TreeHoare Tree.TreeInvBasic Tree.TreeInvDefs Tree.TreeInvSetters Tree.TreeInvPrims
  Tree.TreeInvHelpers Tree.TreeInvAAA Tree.TreeInvDispatch Tree.TreeInvRules Tree.TreeInvHead Tree.TreeInvBody
  Tree.TreeInvLevels Tree.TreeInvModes.
Import ListNotations.
Open Scope string_scope.
Open Scope list_scope.
Notation length := List.length (only parsing).

Definition shape_site : N := 99%N.

(* [tol] = whether running out of fuel is tolerated: True for the statements about the whole Reprocess loop (whose
   fuel bound is not proved), False for everything inside one iteration (TreeFuel.v) *)
Section Tol.
Variable tol : Prop.
Definition wps {A} (m : M A) (Q : A -> st -> Prop) (s : st) : Prop :=
  match m s with Ok a s' => Q a s' | Panic n => n = shape_site | OutOfFuel => tol end.

Lemma wp_wps {A} (m : M A) (Q : A -> st -> Prop) s : wp m Q s -> wps m Q s.
Proof. unfold wp, wps. destruct (m s); [auto | intros [] | intros []]. Qed.

Lemma wps_bind {A B} (m : M A) (k : A -> M B) (Q : B -> st -> Prop) s :
  wps m (fun a s' => wps (k a) Q s') s -> wps (bind m k) Q s.
Proof. unfold wps, bind. destruct (m s); auto. Qed.

Lemma wps_bind_wp {A B} (m : M A) (k : A -> M B) (Q : B -> st -> Prop) s :
  wp m (fun a s' => wps (k a) Q s') s -> wps (bind m k) Q s.
Proof. intro H. apply wps_bind. apply wp_wps. exact H. Qed.

Lemma wps_mono {A} (m : M A) (Q Q' : A -> st -> Prop) s :
  wps m Q s -> (forall a s', Q a s' -> Q' a s') -> wps m Q' s.
Proof. unfold wps. destruct (m s); auto. Qed.

Lemma wps_ret {A} (a : A) (Q : A -> st -> Prop) s : Q a s -> wps (ret a) Q s.
Proof. intro H. exact H. Qed.

Lemma wps_shape_check (Q : unit -> st -> Prop) s : (Hshape s -> Q tt s) -> wps shape_check Q s.
Proof.
  intro H. unfold wps, shape_check, bind, get. destruct (hshape_b s) eqn:E.
  - apply H. exact E.
  - reflexivity.
Qed.

Lemma wps_arm_dispatch mid heads bodies t (Q : presult -> st -> Prop) s :
  total_heads heads -> aligned heads bodies ->
  (forall k b, first_match heads t = k -> nth_error bodies k = Some b ->
       head_matches t (nth k heads []) = true ->
       (forall j, j < k -> head_matches t (nth j heads []) = false) ->
       wps (b t) Q (set_out (EvArm mid k :: out s) s)) ->
  wps (arm_dispatch mid heads bodies t) Q s.
Proof.
  intros T A H. destruct (arm_dispatch_body mid heads bodies t T A) as (b & Eb & Ed).
  rewrite Ed. apply wps_bind_wp. rewrite wp_log_arm.
  pose proof (T t) as Lk. destruct (first_match_sound heads t _ eq_refl Lk) as [Hm Hn].
  eapply H; [reflexivity | exact Eb | exact Hm | exact Hn].
Qed.

(* ---------- the foreign-content rules ---------- *)
Lemma tok_ok_not_text s t : mode s <> Text -> tok_ok s t.
Proof. intros N X. contradiction. Qed.

Lemma foreign_end_loop_ok t : scalar_tok t ->
  forall i first s, TInv s -> late s -> Hshape s -> mode s <> Text -> i < length (open_elems s) ->
  wp (foreign_end_loop i first t) (step_post t) s.
Proof.
  intro Sc. induction i as [|i IH]; intros first s I L Sh NT Hi; cbn [foreign_end_loop].
  - rewrite wp_bind. apply wp_probe. rewrite wp_ret. apply step_post_done.
    eapply TInv_core_eq; [(apply core_eq_set_out; reflexivity) | exact I].
  - rewrite wp_bind, wp_get, wp_bind, wp_unwrap.
    destruct (nth_error (open_elems s) (S i)) as [node|] eqn:En; [|apply nth_error_None in En; lia].
    exists node. split; [reflexivity|]. cbv zeta.
    assert (Io : forall ev, significant ev = false -> TInv (set_out (ev :: out s) s)) by (intros ev Hev; eapply TInv_core_eq; [apply core_eq_set_out; apply sig_cons_insig; exact Hev | exact I]).
    destruct (negb first && str_eqb (fst (ename_of s node)) ns_html).
    + rewrite wp_bind. apply wp_probe.
      apply (step_ok (set_out (EvArm 30 40 :: out s) s) t); [apply Io; reflexivity | apply Hshape_set_out; exact Sh | apply tok_ok_not_text; exact NT | exact Sc].
    + destruct (eq_ignore_ascii_case (snd (ename_of s node)) (tname t)).
      * rewrite wp_bind. apply wp_probe. rewrite wp_bind, wp_modify, wp_ret. apply step_post_done.
        apply keeps_TInv with (s0 := set_out (EvArm 30 41 :: out s) s).
        apply keeps_truncate; [apply keeps_refl; apply Io; reflexivity | exact L | lia].
      * rewrite wp_bind. destruct first.
        -- rewrite wp_parse_error. apply IH; [apply Io; reflexivity | exact L | apply Hshape_set_out; exact Sh | exact NT | cbn; lia].
        -- rewrite wp_ret. apply IH; [exact I | exact L | exact Sh | exact NT | lia].
Qed.

Lemma unexpected_start_ok s t : TInv s -> late s -> mode s <> Text -> scalar_tok t ->
  wps (unexpected_start_tag_in_foreign_content t) (step_post t) s.
Proof.
  intros I L NT Sc. unfold unexpected_start_tag_in_foreign_content.
  apply wps_bind_wp. rewrite wp_parse_error. set (s2 := set_out _ s).
  assert (I2 : TInv s2) by (eapply TInv_core_eq; [(apply core_eq_set_out; reflexivity) | exact I]).
  apply wps_bind_wp.
  eapply (wp_pop_to_html_or_integration_point s2 s2); [apply keeps_refl; exact I2 | exact L |].
  intros s3 K3 _. pose proof K3 as [I3 S3].
  apply wps_bind. apply wps_shape_check. intro Sh3. apply wp_wps. rewrite wp_bind, wp_get.
  apply (step_ok s3 t); [exact I3 | exact Sh3 | | exact Sc].
  apply tok_ok_not_text. rewrite (st_mode _ _ S3). exact NT.
Qed.

Lemma foreign_facts :
  forallb atom_is_tag (nth 5 heads_foreign []) = true /\
  forallb atom_is_tag (nth 4 heads_foreign []) = true.
Proof. split; reflexivity. Qed.

Lemma step_foreign_ok s t :
  TInv s -> late s -> Hshape s -> mode s <> Text -> adjusted_ns s <> ns_html -> scalar_tok t -> t <> KEof ->
  wps (step_foreign t) (step_post t) s.
Proof.
  intros I L Sh NT NH Sc NE. unfold step_foreign.
  apply wps_arm_dispatch; [apply total_foreign | apply (aligned_all b_done b_done b_done) |].
  intros k b Ek Eb Hm Hn. pose proof (TInv_arm s foreign_id k I) as I1. set (s1 := set_out _ s) in *.
  assert (L1 : late s1) by exact L. assert (NT1 : mode s1 <> Text) by exact NT.
  assert (Sh1 : Hshape s1) by (apply Hshape_set_out; exact Sh).
  assert (NH1 : adjusted_ns s1 <> ns_html) by exact NH.
  assert (K1 : keeps s1 s1) by (apply keeps_refl; exact I1).
  destruct foreign_facts as (F5 & F4).
  assert (Start : forall g, t = KTag g -> wp (foreign_start_tag g) (step_post t) s1).
  { intros g ->. eapply (wp_foreign_start_tag s1 s1); [exact K1 | exact L1 | exact NH1 |].
    intros r s' K' R. split; [|apply res_ok_nonchars; [reflexivity | destruct R as [-> | ->]; exact Logic.I]].
    destruct R as [-> | ->]; exact (keeps_TInv _ _ K'). }
  arm_cases k Eb.
  - apply wp_wps. rewrite wp_bind, wp_parse_error.
    eapply (wp_append_text s1); [(apply keeps_set_out; [|reflexivity]); exact K1 | exact L1 |].
    intros s' K' _. apply step_post_done. exact (keeps_TInv _ _ K').
  - apply wp_wps. rewrite wp_bind, wp_when.
    assert (Fin : forall s2, keeps s1 s2 -> wp (append_text (tk_text t)) (step_post t) s2).
    { intros s2 K2. eapply (wp_append_text s1); [exact K2 | eapply keeps_late; eassumption |].
      intros s' K' _. apply step_post_done. exact (keeps_TInv _ _ K'). }
    destruct (any_not_whitespace (tk_text t)).
    + eapply (wp_set_frameset_not_ok s1); [exact K1|]. intros s2 K2 _. apply Fin. exact K2.
    + apply Fin. exact K1.
  - apply wp_wps. apply arm_append_comment; assumption.
  - apply unexpected_start_ok; assumption.
  - destruct (head_all_tag _ _ F4 Hm) as [g Eg].
    destruct (existsb _ (tg_attrs (tk_tag t))).
    + apply unexpected_start_ok; assumption.
    + apply wp_wps. rewrite Eg. cbn [tk_tag]. rewrite <- Eg. apply Start. exact Eg.
  - destruct (head_all_tag _ _ F5 Hm) as [g Eg]. apply wp_wps. rewrite Eg. cbn [tk_tag]. rewrite <- Eg. apply Start. exact Eg.
  - apply wp_wps. rewrite wp_bind, wp_get.
    destruct (TInv_stack_nonempty _ I1 L1) as (r & rest & Er & _). rewrite Er.
    apply foreign_end_loop_ok; [exact Sc | exact I1 | exact L1 | exact Sh1 | exact NT1 | rewrite Er; simpl; lia].
  - exfalso.
    pose proof (Hn 0 ltac:(lia)) as H0. pose proof (Hn 1 ltac:(lia)) as H1. pose proof (Hn 2 ltac:(lia)) as H2.
    pose proof (Hn 5 ltac:(lia)) as H5. pose proof (Hn 6 ltac:(lia)) as H6.
    destruct t as [g|c|sp c| |].
    + unfold head_matches in H5, H6. simpl in H5, H6. destruct (tg_kind g); simpl in H5, H6; discriminate.
    + unfold head_matches in H2. simpl in H2. discriminate H2.
    + unfold head_matches in H1. simpl in H1. discriminate H1.
    + unfold head_matches in H0. simpl in H0. discriminate H0.
    + apply NE. reflexivity.
Qed.

(* ---------- is_foreign ---------- *)
Lemma wp_is_foreign_full s t (Q : bool -> st -> Prop) :
  TInv s ->
  (forall b, (b = true -> late s /\ adjusted_ns s <> ns_html /\ t <> KEof) -> Q b s) ->
  wp (is_foreign t) Q s.
Proof.
  intros I H. assert (F : Q false s) by (apply H; discriminate).
  destruct (early_mode (mode s)) eqn:E.
  - pose proof (inv_root _ I) as R. unfold root_ok in R. rewrite E in R.
    unfold is_foreign. destruct t; try (rewrite wp_ret; exact F); rewrite wp_bind, wp_get, R, wp_ret; exact F.
  - destruct t as [g|c|sp c| |].
    5:{ unfold is_foreign. rewrite wp_ret. exact F. }
    all: apply wp_is_foreign; [exact I | exact E |]; intros b Hb; apply H; intro X;
      (split; [exact E | split; [apply Hb; exact X | discriminate]]).
Qed.

Lemma foreign_not_text s : Hshape s -> adjusted_ns s <> ns_html -> mode s <> Text.
Proof.
  intros Sh NH Em. destruct (Hshape_text s Sh Em) as (h & V & Nh).
  pose proof (Hshape_depth s Sh (or_intror (or_intror Em))) as Len.
  apply NH. unfold adjusted_ns. destruct (open_elems s) as [|a [|b l]] eqn:Es; [simpl in Len; lia | simpl in Len; lia |].
  rewrite V. exact Nh.
Qed.

(* ---------- one iteration of the Reprocess loop ---------- *)
Definition all_chars (l : list tok) : Prop := Forall (fun x => is_chars x = true) l.
(* the queue of process_to_completion only ever holds the pieces of a split character token *)
Definition queue_ok (t : tok) (more : list tok) : Prop := more = [] \/ (is_chars t = true /\ all_chars more).
(* [t0] = the token process_to_completion was called with: the loop only ever sees it or pieces of split text *)
Definition LI (t0 : tok) (s : st) (t : tok) (more : list tok) : Prop :=
  TInv s /\ tok_ok s t /\ scalar_tok t /\ queue_ok t more /\ (t = t0 \/ is_chars t = true).

(* what an EncodingIndicator result means (C19) *)
Definition enc_res (t0 : tok) (res : sink_result) (s' : st) : Prop :=
  forall l, res = SEncoding l -> enc_from t0 l /\ enc_tail t0 s' l.
Definition res_post (t0 : tok) (res : sink_result) (s' : st) : Prop := TInv s' /\ enc_res t0 res s'.

Definition iter_post (t0 : tok) (r : sink_result + tok * list tok) (s' : st) : Prop :=
  match r with inl res => res_post t0 res s' | inr (t', m') => LI t0 s' t' m' end.

Lemma res_post_plain t0 res s' : TInv s' -> match res with SEncoding _ => False | _ => True end -> res_post t0 res s'.
Proof. intros I H. split; [exact I|]. intros l E. subst res. contradiction. Qed.

Lemma chars_tok_ok s t : is_chars t = true -> tok_ok s t /\ scalar_tok t.
Proof. destruct t; simpl; intro H; try discriminate. split; [intros _; reflexivity | exact Logic.I]. Qed.

Lemma queue_all_chars t more : queue_ok t more -> all_chars more.
Proof. intros [-> | [_ H]]; [apply Forall_nil | exact H]. Qed.

Lemma queue_nil_of_nonchars t more r : queue_ok t more -> chars_ok t r ->
  match r with Done | SplitWhitespace _ | Reprocess _ _ => False | _ => True end -> more = [].
Proof.
  intros [-> | [C _]] CO R; [reflexivity|]. exfalso. specialize (CO C). destruct r; try contradiction.
Qed.

Lemma iter_next t0 s more t : TInv s -> queue_ok t more ->
  wp (match more with [] => ret (inl SContinue) | t' :: m' => ret (inr (t', m')) end) (iter_post t0) s.
Proof.
  intros I Q. destruct more as [|t' m']; rewrite wp_ret; [apply res_post_plain; [exact I | exact Logic.I]|].
  destruct Q as [Q | [_ Q]]; [discriminate|]. inversion Q as [|x l Ct Cm]; subst.
  destruct (chars_tok_ok s t' Ct) as [A B].
  split; [exact I | split; [exact A | split; [exact B | split; [right; split; assumption | right; exact Ct]]]].
Qed.

Lemma ptc_iter_ok t0 s t more : LI t0 s t more -> wps (ptc_iter t more) (iter_post t0) s.
Proof.
  intros (I & TO & Sc & Q & T0). unfold ptc_iter. cbv zeta.
  apply wps_bind. apply wps_shape_check. intro Sh.
  apply wps_bind_wp. apply wp_is_foreign_full; [exact I|]. intros foreign Hf.
  apply wps_bind.
  assert (Step : wps (if foreign then step_foreign t else s0 <- get ;; step (mode s0) t) (step_post t) s).
  { destruct foreign.
    - destruct (Hf eq_refl) as (L & NH & NE).
      apply step_foreign_ok; [exact I | exact L | exact Sh | apply foreign_not_text; assumption | exact NH | exact Sc | exact NE].
    - apply wp_wps. rewrite wp_bind, wp_get. apply step_ok; assumption. }
  eapply wps_mono; [exact Step|]. intros r s1 [TR [ST CO]]. apply wp_wps.
  assert (Io : forall ev sx, significant ev = false -> TInv sx -> TInv (set_out (ev :: out sx) sx)) by (intros ev sx Hev X; eapply TInv_core_eq; [apply core_eq_set_out; apply sig_cons_insig; exact Hev | exact X]).
  destruct r as [| |buf|m t'|t'|node| |k|e]; simpl in TR, ST.
  - (* Done *)
    rewrite wp_bind. destruct (is_self_closing_start t).
    + rewrite wp_bind. apply wp_probe. rewrite wp_parse_error. apply (iter_next t0 _ more t); [do 2 (apply Io; [reflexivity|]); exact TR | exact Q].
    + rewrite wp_ret. apply (iter_next t0 _ more t); [exact TR | exact Q].
  - apply (iter_next t0 _ more t); [exact TR | exact Q].
  - (* SplitWhitespace *)
    destruct (pop_front_char_run buf) as [[[first ws] rest]|]; [|rewrite wp_ret; apply res_post_plain; [exact TR | exact Logic.I]].
    rewrite wp_bind, wp_when.
    assert (Fin : forall s2, TInv s2 -> iter_post t0
              (inr (KChars (if ws then Whitespace else NotWhitespace) first,
                    match rest with [] => more | _ :: _ => more ++ [KChars NotSplit rest] end)) s2).
    { intros s2 I2. split; [exact I2 | split; [intros _; reflexivity | split; [exact Logic.I | split; [right; split; [reflexivity|] | right; reflexivity]]]].
      pose proof (queue_all_chars _ _ Q) as A. destruct rest; [exact A|].
      apply Forall_app. split; [exact A | constructor; [reflexivity | constructor]]. }
    destruct (negb (is_nil rest)).
    + apply wp_probe. rewrite wp_ret. apply Fin. apply Io; [reflexivity | exact TR].
    + rewrite wp_ret. apply Fin. exact TR.
  - (* Reprocess *)
    destruct TR as [TR NT]. subst t'. unfold set_mode_m. rewrite wp_bind, wp_modify, wp_ret.
    split; [exact TR | split; [intro X; contradiction | split; [exact Sc | split; [exact Q | exact T0]]]].
  - destruct TR.
  - rewrite (queue_nil_of_nonchars t more _ Q CO Logic.I). rewrite wp_bind, wp_assert. split; [reflexivity|]. rewrite wp_ret. apply res_post_plain; [exact TR | exact Logic.I].
  - rewrite (queue_nil_of_nonchars t more _ Q CO Logic.I). rewrite wp_bind, wp_assert. split; [reflexivity|]. rewrite wp_ret. apply res_post_plain; [exact TR | exact Logic.I].
  - rewrite (queue_nil_of_nonchars t more _ Q CO Logic.I). rewrite wp_bind, wp_assert. split; [reflexivity|]. rewrite wp_ret. apply res_post_plain; [exact TR | exact Logic.I].
  - (* the EncodingIndicator: the token is the one the loop started with *)
    rewrite wp_ret. destruct TR as [TR Et]. split; [exact TR|]. intros l El. injection El as <-.
    destruct T0 as [<- | C]; [split; [exact ST | exact Et]|]. destruct ST as (g & -> & _). discriminate C.
Qed.

End Tol.

Lemma ptc_loop_ok t0 : forall fuel t more s, LI t0 s t more -> wps True (ptc_loop fuel t more) (res_post t0) s.
Proof.
  induction fuel as [|f IH]; intros t more s H; cbn [ptc_loop].
  - exact Logic.I.
  - apply wps_bind. eapply wps_mono; [apply ptc_iter_ok; exact H|].
    intros [res | [t' m']] s1 P; simpl in P.
    + apply wps_ret. exact P.
    + apply IH. exact P.
Qed.

Lemma process_to_completion_ok s t : TInv s -> tok_ok s t -> scalar_tok t ->
  wps True (process_to_completion t) (res_post t) s.
Proof.
  intros I TO Sc. unfold process_to_completion. apply wps_bind_wp. rewrite wp_get.
  apply ptc_loop_ok. split; [exact I | split; [exact TO | split; [exact Sc | split; [left; reflexivity | left; reflexivity]]]].
Qed.

(* ---------- process_token ---------- *)
(* what the tokenizer delivers while the tree builder is in "text" mode (RCDATA / RAWTEXT / script data /
   PLAINTEXT): characters, end tags, EOF, parse errors *)
Definition token_ok (s : st) (tk : token) : Prop :=
  mode s = Text ->
  match tk with
  | TChars _ | TEof | TError => True
  | TTag k _ _ _ _ => k = EndTag
  | _ => False
  end.
(* attribute values are sequences of Unicode scalar values (they are StrTendrils) *)
Definition scalar_token (tk : token) : Prop :=
  match tk with TTag _ _ _ attrs _ => Forall (fun p => Utf8.scalars (snd p)) attrs | _ => True end.

Definition prelude_post (r : sink_result + tok) (s' : st) : Prop :=
  TInv s' /\ match r with inl _ => True | inr t => tok_ok s' t /\ scalar_tok t end.

Lemma pt_prelude_ok s tk line : TInv s -> token_ok s tk -> scalar_token tk ->
  wp (pt_prelude tk line) prelude_post s.
Proof.
  intros I TO Sc. unfold pt_prelude. rewrite wp_bind, wp_when.
  assert (Rest : forall s1, core_eq s s1 -> opts s1 = opts s ->
     wp (s0 <- get ;;
         modify (set_ignore_lf (match tk with TError => negb (dev_on s0 1) && ignore_lf s0 | _ => false end)) ;;
         match tk with
         | TError => parse_error ;; ret (inl SContinue)
         | TDoctype name pub sys force_quirks =>
           if mode_eqb (mode s0) Initial then
             probe 46 ;;
             let '(err, quirk) := doctype_error_and_quirks (negb (dev_on s0 8)) (negb (dev_on s0 13)) name pub sys force_quirks
                                                           (o_iframe_srcdoc (opts s0)) in
             when err parse_error ;;
             when (negb (o_drop_doctype (opts s0)))
                  (emit (OpAppendDoctype (or_empty name) (or_empty pub) (or_empty sys))) ;;
             do_set_quirks quirk ;;
             set_mode_m BeforeHtml ;;
             ret (inl SContinue)
           else probe 47 ;; parse_error ;; ret (inl SContinue)
         | TTag k name self_closing attrs had_dup =>
           ret (inr (KTag {| tg_kind := k ; tg_name := name ; tg_self := self_closing ; tg_attrs := conv_attrs attrs ;
                             tg_dup := had_dup |}))
         | TComment x => ret (inr (KComment x))
         | TNull => ret (inr KNull)
         | TEof => ret (inr KEof)
         | TChars x =>
           let x' := match x with c :: r => if ignore_lf s0 && N.eqb c 0x0A then r else x | [] => x end in
           when (negb (Nat.eqb (length x') (length x))) (probe 45) ;;
           match x' with
           | [] => ret (inl SContinue)
           | _ :: _ => ret (inr (KChars NotSplit x'))
           end
         end) prelude_post s1).
  { intros s1 C1 O1. assert (I1 : TInv s1) by (eapply TInv_core_eq; eassumption).
    assert (M1 : mode s1 = mode s) by (destruct C1 as (A & _); exact A).
    rewrite wp_bind, wp_get, wp_bind, wp_modify.
    set (s2 := set_ignore_lf _ s1).
    assert (I2 : TInv s2) by (eapply TInv_core_eq; [apply core_eq_set_ignore_lf | exact I1]).
    assert (M2 : mode s2 = mode s) by exact M1.
    assert (Io : forall ev sx, significant ev = false -> TInv sx -> TInv (set_out (ev :: out sx) sx)) by (intros ev sx Hev X; eapply TInv_core_eq; [apply core_eq_set_out; apply sig_cons_insig; exact Hev | exact X]).
    destruct tk as [name pub sys fq|k name sc attrs dup|x|x| | |].
    - (* doctype *)
      destruct (mode_eqb (mode s1) Initial) eqn:Em.
      + apply mode_eqb_eq in Em. rewrite wp_bind. apply wp_probe.
        destruct (doctype_error_and_quirks _ _ name pub sys fq _) as [err quirk].
        rewrite wp_bind, wp_when.
        assert (Fin : forall s3, TInv s3 -> mode s3 = Initial ->
           wp (when (negb (o_drop_doctype (opts s1))) (emit (OpAppendDoctype (or_empty name) (or_empty pub) (or_empty sys))) ;;
               do_set_quirks quirk ;; set_mode_m BeforeHtml ;; ret (inl SContinue)) prelude_post s3).
        { intros s3 I3 M3. rewrite wp_bind, wp_when.
          assert (Fin2 : forall s4, TInv s4 -> mode s4 = Initial ->
             wp (do_set_quirks quirk ;; set_mode_m BeforeHtml ;; ret (inl SContinue)) prelude_post s4).
          { intros s4 I4 M4. unfold do_set_quirks, set_mode_m. rewrite wp_bind, wp_bind, wp_modify, wp_emit, wp_bind, wp_modify, wp_ret.
            split; [|exact Logic.I].
            apply TInv_set_mode_early; [apply Io; [reflexivity|]; eapply TInv_core_eq; [apply core_eq_set_quirks_mode | exact I4] | | reflexivity].
            cbn. rewrite M4. reflexivity. }
          destruct (negb (o_drop_doctype (opts s1))).
          - rewrite wp_emit. apply Fin2; [apply Io; [reflexivity|]; exact I3 | exact M3].
          - apply Fin2; assumption. }
        destruct err.
        * rewrite wp_parse_error. apply Fin; [do 2 (apply Io; [reflexivity|]); exact I2 | exact Em].
        * apply Fin; [apply Io; [reflexivity|]; exact I2 | exact Em].
      + rewrite wp_bind. apply wp_probe. rewrite wp_bind, wp_parse_error, wp_ret. split; [do 2 (apply Io; [reflexivity|]); exact I2 | exact Logic.I].
    - (* tag *)
      rewrite wp_ret. split; [exact I2|]. split.
      + intro X. rewrite M2 in X. specialize (TO X). simpl in TO. subst k. reflexivity.
      + simpl in Sc. unfold scalar_tok, scalar_tag. cbn [tg_attrs]. unfold conv_attrs. apply Forall_map.
        eapply Forall_impl; [|exact Sc]. intros p Hp. exact Hp.
    - (* comment *)
      rewrite wp_ret. split; [exact I2|]. split; [|exact Logic.I].
      intro X. rewrite M2 in X. specialize (TO X). simpl in TO. contradiction.
    - (* chars *)
      cbv zeta. rewrite wp_bind, wp_when.
      match goal with |- (if ?c then _ else _) => destruct c end.
      + apply wp_probe. match goal with |- wp (match ?l with [] => _ | _ :: _ => _ end) _ _ => destruct l end;
          rewrite wp_ret; (split; [apply Io; [reflexivity|]; exact I2 | first [exact Logic.I | split; [intros _; reflexivity | exact Logic.I]]]).
      + match goal with |- wp (match ?l with [] => _ | _ :: _ => _ end) _ _ => destruct l end;
          rewrite wp_ret; (split; [exact I2 | first [exact Logic.I | split; [intros _; reflexivity | exact Logic.I]]]).
    - (* null *)
      rewrite wp_ret. split; [exact I2|]. split; [|exact Logic.I].
      intro X. rewrite M2 in X. specialize (TO X). simpl in TO. contradiction.
    - (* eof *)
      rewrite wp_ret. split; [exact I2|]. split; [intros _; reflexivity | exact Logic.I].
    - (* parse error *)
      rewrite wp_bind, wp_parse_error, wp_ret. split; [apply Io; [reflexivity|]; exact I2 | exact Logic.I]. }
  destruct (negb (N.eqb line 1)).
  - rewrite wp_emit. apply Rest; [(apply core_eq_set_out; reflexivity) | reflexivity].
  - apply Rest; [apply core_eq_refl | reflexivity].
Qed.

(* which tree-builder token a tokenizer token becomes *)
Definition tag_of_token (k : tagkind) (name : str) (sc : bool) (attrs : list (str * str)) (dup : bool) : tag :=
  {| tg_kind := k ; tg_name := name ; tg_self := sc ; tg_attrs := conv_attrs attrs ; tg_dup := dup |}.
Definition conv_rel (tk : token) (r : sink_result + tok) : Prop :=
  match r with
  | inl res => res = SContinue
  | inr t => match tk with
             | TTag k name sc attrs dup => t = KTag (tag_of_token k name sc attrs dup)
             | _ => forall g, t <> KTag g
             end
  end.
Lemma pt_prelude_conv s tk line : wp (pt_prelude tk line) (fun r _ => conv_rel tk r) s.
Proof.
  unfold pt_prelude. rewrite wp_bind, wp_when.
  assert (Rest : forall s1, wp (s0 <- get ;;
         modify (set_ignore_lf (match tk with TError => negb (dev_on s0 1) && ignore_lf s0 | _ => false end)) ;;
         match tk with
         | TError => parse_error ;; ret (inl SContinue)
         | TDoctype name pub sys force_quirks =>
           if mode_eqb (mode s0) Initial then
             probe 46 ;;
             let '(err, quirk) := doctype_error_and_quirks (negb (dev_on s0 8)) (negb (dev_on s0 13)) name pub sys force_quirks
                                                           (o_iframe_srcdoc (opts s0)) in
             when err parse_error ;;
             when (negb (o_drop_doctype (opts s0)))
                  (emit (OpAppendDoctype (or_empty name) (or_empty pub) (or_empty sys))) ;;
             do_set_quirks quirk ;;
             set_mode_m BeforeHtml ;;
             ret (inl SContinue)
           else probe 47 ;; parse_error ;; ret (inl SContinue)
         | TTag k name self_closing attrs had_dup =>
           ret (inr (KTag {| tg_kind := k ; tg_name := name ; tg_self := self_closing ; tg_attrs := conv_attrs attrs ;
                             tg_dup := had_dup |}))
         | TComment x => ret (inr (KComment x))
         | TNull => ret (inr KNull)
         | TEof => ret (inr KEof)
         | TChars x =>
           let x' := match x with c :: r => if ignore_lf s0 && N.eqb c 0x0A then r else x | [] => x end in
           when (negb (Nat.eqb (length x') (length x))) (probe 45) ;;
           match x' with
           | [] => ret (inl SContinue)
           | _ :: _ => ret (inr (KChars NotSplit x'))
           end
         end) (fun r _ => conv_rel tk r) s1).
  { intro s1. rewrite wp_bind, wp_get, wp_bind, wp_modify.
    destruct tk as [name pub sys fq|k name sc attrs dup|x|x| | |].
    - destruct (mode_eqb (mode s1) Initial).
      + rewrite wp_bind. apply wp_probe. destruct (doctype_error_and_quirks _ _ name pub sys fq _) as [err quirk].
        unfold do_set_quirks, set_mode_m. rewrite wp_bind, wp_when.
        destruct err; [rewrite wp_parse_error|]; rewrite wp_bind, wp_when;
          (destruct (negb (o_drop_doctype (opts s1))); [rewrite wp_emit|]);
          rewrite wp_bind, wp_bind, wp_modify, wp_emit, wp_bind, wp_modify, wp_ret; reflexivity.
      + rewrite wp_bind. apply wp_probe. rewrite wp_bind, wp_parse_error, wp_ret. reflexivity.
    - rewrite wp_ret. reflexivity.
    - rewrite wp_ret. intros g X. discriminate X.
    - cbv zeta. rewrite wp_bind, wp_when.
      match goal with |- (if ?c then _ else _) => destruct c end; [apply wp_probe|];
        (match goal with |- wp (match ?l with [] => _ | _ :: _ => _ end) _ _ => destruct l end; rewrite wp_ret;
         [reflexivity | intros g X; discriminate X]).
    - rewrite wp_ret. intros g X. discriminate X.
    - rewrite wp_ret. intros g X. discriminate X.
    - rewrite wp_bind, wp_parse_error, wp_ret. reflexivity. }
  destruct (negb (N.eqb line 1)); [rewrite wp_emit|]; apply Rest.
Qed.

(* C19, soundness: an EncodingIndicator comes from a start tag of the charset / http-equiv arm of the "in head"
   rules, with the label its attributes declare, after the element was created and inserted *)
Definition token_enc (tk : token) (res : sink_result) (s' : st) : Prop :=
  forall l, res = SEncoding l ->
    exists k name sc attrs dup, tk = TTag k name sc attrs dup /\
      enc_from (KTag (tag_of_token k name sc attrs dup)) l /\ enc_tail (KTag (tag_of_token k name sc attrs dup)) s' l.

Theorem process_token_enc_ok s tk line : TInv s -> token_ok s tk -> scalar_token tk ->
  wps True (process_token tk line) (fun res s' => TInv s' /\ token_enc tk res s') s.
Proof.
  intros I TO Sc. unfold process_token. apply wps_bind_wp.
  eapply wp_mono; [apply wp_conj; [apply pt_prelude_ok; assumption | apply pt_prelude_conv]|].
  intros [res | t] s1 [[I1 P] Cv]; simpl in Cv.
  - apply wps_ret. split; [exact I1|]. intros l El. rewrite Cv in El. discriminate El.
  - destruct P as [TO1 Sc1]. eapply wps_mono; [apply process_to_completion_ok; assumption|].
    intros res s' [I' En]. split; [exact I'|]. intros l El. destruct (En l El) as [Ef Et].
    destruct tk as [name pub sys fq|k name sc attrs dup|x|x| | |];
      try (destruct Ef as (g & Eg & _); exfalso; exact (Cv g Eg)).
    exists k, name, sc, attrs, dup. subst t. split; [reflexivity | split; assumption].
Qed.

Theorem process_token_ok s tk line : TInv s -> token_ok s tk -> scalar_token tk ->
  wps True (process_token tk line) (fun _ s' => TInv s') s.
Proof.
  intros I TO Sc. eapply wps_mono; [apply process_token_enc_ok; assumption|]. intros res s' [I' _]. exact I'.
Qed.

(* ---------- the initial state, whole runs ---------- *)
Lemma TInv_init o : TInv (init_state o).
Proof.
  constructor.
  - intros h e H. unfold einfo_of, init_state in H. cbn in H. destruct h as [|[|h]]; discriminate H.
  - split; [|unfold next_handle; cbn; lia]. unfold state_handles. cbn. constructor.
  - reflexivity.
  - reflexivity.
  - intros _. reflexivity.
  - intros h t [].
  - unfold tm_ok, tcount. cbn. lia.
  - intros [H | (m & H & _)]; discriminate H.
  - intros (h & [] & _).
  - split; intros x H; discriminate H.
  - constructor.
  - reflexivity.
  - reflexivity.
Qed.

(* ---------- fragment parsing: TreeBuilder::new_for_fragment ---------- *)
(* reset_insertion_mode does not read the insertion mode *)
Definition lift_mode (X : imode) {A} (r : res A) : res A :=
  match r with Ok a s' => Ok a (set_mode X s') | Panic n => Panic n | OutOfFuel => OutOfFuel end.
Lemma reset_loop_set_mode X s : forall l s0, reset_loop (set_mode X s) l (set_mode X s0) = lift_mode X (reset_loop s l s0).
Proof.
  induction l as [|node0 r IH]; intro s0; cbn [reset_loop]; [reflexivity|].
  change (context_elem (set_mode X s)) with (context_elem s). change (ename_of (set_mode X s)) with (ename_of s).
  change (template_modes (set_mode X s)) with (template_modes s). change (head_elem (set_mode X s)) with (head_elem s).
  destruct (ename_of s _) as [ns name].
  repeat match goal with
  | |- (if ?c then _ else _) _ = lift_mode _ ((if ?c then _ else _) _) => destruct c
  end; try reflexivity; try apply IH.
  destruct (vlast (template_modes s)); reflexivity.
Qed.

Lemma reset_any_mode X s (Q : imode -> st -> Prop) :
  wp reset_insertion_mode Q (set_mode X s) -> wp reset_insertion_mode (fun m s' => Q m (set_mode X s')) s.
Proof.
  unfold wp, reset_insertion_mode, bind, get. change (open_elems (set_mode X s)) with (open_elems s).
  rewrite reset_loop_set_mode. destruct (reset_loop s (rev (open_elems s)) s); simpl; auto.
Qed.

Lemma TInv_fragment_setup s ctx form :
  TInv s -> early_mode (mode s) = true -> known s ctx ->
  (forall f, form = Some f -> known s f /\ ename_of s f = (ns_html, nm "form")) ->
  TInv (set_template_modes (if ename_eqb (ename_of s ctx) (ns_html, nm "template") then [InTemplate] else [])
          (set_form_elem form (set_context_elem (Some ctx) s))).
Proof.
  intros I E Kc Hf. pose proof I as [I1 I2 I3 I4 I5 I6 I7 I8 I9 I10 I11].
  assert (Es : open_elems s = []) by (unfold root_ok in I3; rewrite E in I3; exact I3).
  constructor; try assumption.
  - destruct I2 as [A B]. split; [|exact B]. unfold state_handles in *.
    cbn [open_elems active_formatting head_elem form_elem context_elem set_template_modes set_form_elem set_context_elem].
    pose proof A as A1.
    apply Forall_app in A1. destruct A1 as [A1 A2]. apply Forall_app in A2. destruct A2 as [A2 A3].
    apply Forall_app in A3. destruct A3 as [A3 _].
    repeat (apply Forall_app; split); try assumption.
    + destruct form as [f|]; [constructor; [exact (proj1 (Hf f eq_refl)) | constructor] | constructor].
    + constructor; [exact Kc | constructor].
  - unfold tm_ok, tcount.
    cbn [open_elems context_elem template_modes set_template_modes set_form_elem set_context_elem]. rewrite Es. cbn [filter List.length].
    unfold is_template, html_elem_named_b.
    match goal with |- context [ename_eqb (ename_of ?s' ctx) _] => change (ename_of s' ctx) with (ename_of s ctx) end.
    destruct (ename_eqb (ename_of s ctx) (ns_html, nm "template")); simpl; lia.
  - destruct I10 as [A B]. split; [exact A|]. cbn [form_elem set_template_modes set_form_elem]. intros f Ef.
    exact (proj2 (Hf f Ef)).
  - unfold tmodes_ok. cbn [template_modes set_template_modes].
    destruct (ename_eqb (ename_of s ctx) (ns_html, nm "template")); [constructor; [reflexivity | constructor] | constructor].
Qed.

Lemma init_fragment_ok o name attrs with_form :
  wp (init_fragment name attrs with_form) (fun _ s' => TInv s') (init_state o).
Proof.
  pose proof (TInv_init o) as I0. set (s0 := init_state o) in *.
  unfold init_fragment. rewrite wp_bind. unfold wp at 1. rewrite sink_create_element_eq.
  set (ctx := next_handle s0). set (s1 := new_elem_state name attrs false s0).
  assert (K1 : keeps s0 s1) by (apply new_elem_keeps; apply keeps_refl; exact I0).
  assert (Kc1 : known s1 ctx) by apply new_elem_known.
  rewrite wp_bind.
  assert (Rest : forall s2 form, keeps s0 s2 -> known s2 ctx ->
            (forall f, form = Some f -> known s2 f /\ ename_of s2 f = (ns_html, nm "form")) ->
            wp (s <- get ;;
                modify (fun s3 => set_template_modes (if ename_eqb (ename_of s ctx) (ns_html, nm "template") then [InTemplate] else [])
                                    (set_form_elem form (set_context_elem (Some ctx) s3))) ;;
                create_root [] ;; m <- reset_insertion_mode ;; set_mode_m m)
               (fun _ s' => TInv s') s2).
  { intros s2 form K2 Kc Hf. pose proof K2 as [I2 S2].
    assert (E2 : early_mode (mode s2) = true) by (rewrite (st_mode _ _ S2); reflexivity).
    rewrite wp_bind, wp_get, wp_bind, wp_modify.
    pose proof (TInv_fragment_setup s2 ctx form I2 E2 Kc Hf) as I3. set (s3 := set_template_modes _ _) in *.
    rewrite wp_bind.
    apply (wp_create_root s3 [] InBody); [exact I3 | exact E2 | reflexivity | reflexivity | reflexivity |].
    intros s5 I5. rewrite wp_bind.
    eapply wp_mono.
    { apply (reset_any_mode InBody s5).
      eapply (wp_reset_insertion_mode (set_mode InBody s5) (set_mode InBody s5)); [apply keeps_refl; exact I5 | reflexivity |].
      intros m s6 K6 _ Em Sm Hm. pose proof K6 as [I6 S6].
      apply (keeps_set_mode (set_mode InBody s5) s6 m); [exact K6 | eapply keeps_late; [exact K6 | reflexivity]
                                                         | rewrite (st_mode _ _ S6); reflexivity | exact Em | exact Sm |].
      intro X. rewrite (st_head _ _ S6). apply Hm. exact X. }
    intros m s6 I6. unfold set_mode_m. rewrite wp_modify. exact I6. }
  destruct with_form.
  - rewrite wp_bind. unfold wp at 1. rewrite sink_create_element_eq.
    set (f := next_handle s1). set (s2 := new_elem_state _ _ _ s1).
    rewrite wp_ret. apply (Rest s2 (Some f)); [apply new_elem_keeps; exact K1 | | ].
    + unfold s2. eapply stable_known; [apply new_elem_stable | exact Kc1].
    + intros f' E. injection E as <-. split; [apply new_elem_known | apply new_elem_name].
  - rewrite wp_ret. apply (Rest s1 None); [exact K1 | exact Kc1 | intros f E; discriminate E].
Qed.

(* the tokenizer protocol along a run: token_ok / scalar_token for every token, in the state in which it arrives *)
Fixpoint protocol (s : st) (toks : list (token * N)) : Prop :=
  match toks with
  | [] => True
  | (tk, line) :: r =>
    token_ok s tk /\ scalar_token tk /\
    match process_token tk line s with Ok _ s' => protocol s' r | _ => True end
  end.

(* tree_no_panic_partial.
   The full statement wanted is:
       TInv s -> protocol s toks -> exists s' results, run_tokens s toks acc = RunOk s' results /\ TInv s'
   i.e. no Panic site at all and no OutOfFuel.  What is proved: the run never stops at any of the Panic sites
   1..48, 90 of the census (TreeModelHelpers.v) - every unwrap / expect / assert / index / unreachable of the
   tree builder; the two outcomes that remain possible besides RunOk are
     - RunPanic 99 : the ghost assertion TreeModelRules.shape_check failed (the four mode-versus-stack facts of
       hshape_b, which the proof assumes instead of deriving them), and
     - RunFuel     : the fuel of ptc_loop (TreeModel.ptc_fuel) ran out; its sufficiency is not proved.
   Both are observable in the differential check (the model prints PANIC 99 / FUEL where html5ever does
   neither), so every correspondence run tests exactly the part that is not proved. *)
Theorem tree_no_panic_partial s toks acc :
  TInv s -> protocol s toks ->
  match run_tokens s toks acc with
  | RunOk s' _ => TInv s'
  | RunPanic n => n = shape_site
  | RunFuel => True
  end.
Proof.
  revert s acc. induction toks as [|[tk line] r IH]; intros s acc I P; cbn [run_tokens].
  - exact I.
  - destruct P as (TO & Sc & P). pose proof (process_token_ok s tk line I TO Sc) as W. unfold wps in W.
    destruct (process_token tk line s) as [res s' | n |]; [apply IH; assumption | exact W | exact Logic.I].
Qed.

Corollary tree_no_panic_document_partial o toks :
  protocol (init_state o) toks ->
  match run_tokens (init_state o) toks [] with
  | RunOk s' _ => TInv s'
  | RunPanic n => n = shape_site
  | RunFuel => True
  end.
Proof. apply tree_no_panic_partial. apply TInv_init. Qed.

(* fragment parsing: the state built by TreeBuilder::new_for_fragment satisfies the invariant, whatever the
   context element, and the run theorem applies from there *)
Corollary tree_no_panic_fragment_partial o name attrs with_form toks :
  match init_fragment name attrs with_form (init_state o) with
  | Ok _ s0 =>
    protocol s0 toks ->
    match run_tokens s0 toks [] with
    | RunOk s' _ => TInv s'
    | RunPanic n => n = shape_site
    | RunFuel => True
    end
  | _ => False
  end.
Proof.
  pose proof (init_fragment_ok o name attrs with_form) as W. unfold wp in W.
  destruct (init_fragment name attrs with_form (init_state o)) as [u s0 | n |]; [|exact W | exact W].
  intro P. apply tree_no_panic_partial; assumption.
Qed.

(* the remaining entry points of the TokenSink *)
Lemma tb_end_no_panic s : wp tb_end (fun _ _ => True) s.
Proof.
  unfold tb_end. rewrite wp_bind, wp_get, wp_bind.
  eapply wp_mono; [apply (wp_mapM_ _ _ (fun _ => True)); [exact Logic.I | intros x s0 _ _; rewrite wp_emit; exact Logic.I]|].
  intros _u s1 _. rewrite wp_modify. exact Logic.I.
Qed.

Lemma adjusted_current_node_query_no_panic s : TInv s ->
  wp adjusted_current_node_present_but_not_in_html_namespace (fun _ _ => True) s.
Proof.
  intro I. unfold adjusted_current_node_present_but_not_in_html_namespace. rewrite wp_bind, wp_get.
  destruct (open_elems s) as [|a l] eqn:E; [rewrite wp_ret; exact Logic.I|]. rewrite wp_bind.
  assert (L : late s).
  { unfold late. destruct (early_mode (mode s)) eqn:Em; [|reflexivity]. pose proof (inv_root _ I) as R. unfold root_ok in R.
    rewrite Em in R. congruence. }
  apply wp_adjusted_current_node; [exact I | exact L |]. intro h. rewrite wp_ret. exact Logic.I.
Qed.

Lemma tokenizer_state_for_context_elem_no_panic s b : context_elem s <> None ->
  wp (tokenizer_state_for_context_elem b) (fun _ _ => True) s.
Proof.
  intro C. unfold tokenizer_state_for_context_elem. rewrite wp_bind, wp_get, wp_bind, wp_unwrap.
  destruct (context_elem s) as [c|]; [|contradiction]. exists c. split; [reflexivity|].
  destruct (ename_of s c) as [ns name].
  repeat match goal with |- wp (if ?c then _ else _) _ _ => destruct c end; rewrite wp_ret; exact Logic.I.
Qed.

(* ---------- C18: the handles the tree builder holds ---------- *)
Lemma In_opt_list {A} (o : option A) x : In x (opt_list o) <-> o = Some x.
Proof. destruct o; simpl; split; intro H; try discriminate; try contradiction; [destruct H as [->|[]]; reflexivity | injection H as ->; left; reflexivity]. Qed.
Lemma In_af_handles l h : In h (af_handles l) <-> exists t, In (FElem h t) l.
Proof.
  unfold af_handles. rewrite in_flat_map. split.
  - intros (e & Hin & He). destruct e as [|h' t]; [contradiction|]. destruct He as [->|[]]. exists t. exact Hin.
  - intros (t & Hin). exists (FElem h t). split; [exact Hin | left; reflexivity].
Qed.

(* [trace] (the calls of TreeBuilder::trace_handles, mod.rs:269-292) visits exactly the handles stored in the
   state, and all of them were handed out by the sink *)
Theorem handles_traced s h :
  In h (trace s) <->
  h = 0 \/ In h (open_elems s) \/ (exists t, In (FElem h t) (active_formatting s)) \/
  head_elem s = Some h \/ form_elem s = Some h \/ context_elem s = Some h.
Proof.
  unfold trace. rewrite !in_app_iff, !In_opt_list, In_af_handles. simpl. intuition.
Qed.

(* every traced handle is the Document or an element the sink created *)
Theorem traced_handles_known s : TInv s -> forall h, In h (trace s) -> h = 0 \/ known s h.
Proof.
  intros I h [H|H]; [left; symmetry; exact H | right].
  pose proof (proj1 (inv_known _ I)) as F. rewrite Forall_forall in F. apply F. exact H.
Qed.

(* ---------- C06 skeleton: what the invariant says about the stack and the pointers ---------- *)
Theorem stack_bottom_is_html s : TInv s -> early_mode (mode s) = false ->
  exists r rest, open_elems s = r :: rest /\ ename_of s r = html_html.
Proof. intros I L. exact (TInv_stack_nonempty s I L). Qed.

Theorem stack_empty_before_html s : TInv s -> early_mode (mode s) = true -> open_elems s = [].
Proof. intros I E. pose proof (inv_root _ I) as R. unfold root_ok in R. rewrite E in R. exact R. Qed.

Theorem pointers_named s : TInv s ->
  (forall h, head_elem s = Some h -> ename_of s h = (ns_html, nm "head")) /\
  (forall f, form_elem s = Some f -> ename_of s f = (ns_html, nm "form")).
Proof. intro I. exact (inv_ptr _ I). Qed.

Theorem formatting_entries_named s h t : TInv s -> In (FElem h t) (active_formatting s) ->
  ename_of s h = (ns_html, tg_name t) /\ is_formatting (tg_name t) = true.
Proof. intros I H. exact (inv_af _ I h t H). Qed.

(* ---------- refinements of helpers (e) ---------- *)
(* "has an element in a specific scope" (WHATWG 13.2.4.2): walking the stack from the top, an element
   satisfying [pred] is met before any element of the scope list *)
Theorem in_scope_l_spec s scope pred l :
  in_scope_l s scope pred l = true <->
  exists pre x post, l = pre ++ x :: post /\ pred x = true /\
    Forall (fun y => pred y = false /\ scope (ename_of s y) = false) pre.
Proof.
  induction l as [|n r IH]; simpl.
  - split; [discriminate|]. intros (pre & x & post & E & _). destruct pre; discriminate E.
  - destruct (pred n) eqn:Pn.
    + split; [|reflexivity]. intros _. exists [], n, r. repeat split; [exact Pn | constructor].
    + destruct (scope (ename_of s n)) eqn:Sn.
      * split; [discriminate|]. intros (pre & x & post & E & Px & F).
        destruct pre as [|a pre]; simpl in E; injection E as -> E'.
        -- congruence.
        -- inversion F as [|y l' [_ Fy] _]; subst. congruence.
      * rewrite IH. split.
        -- intros (pre & x & post & -> & Px & F). exists (n :: pre), x, post. repeat split; [exact Px | constructor; [split; assumption | exact F]].
        -- intros (pre & x & post & E & Px & F). destruct pre as [|a pre]; simpl in E; injection E as -> E'.
           ++ congruence.
           ++ inversion F; subst. exists pre, x, post. repeat split; assumption.
Qed.

(* generate_implied_end_tags pops exactly the maximal run of elements of the set on top of the stack *)
Theorem implied_split_spec s set l p q : implied_split s set l = (p, q) ->
  l = p ++ q /\ Forall (fun h => set (ename_of s h) = true) p /\
  match q with [] => True | h :: _ => set (ename_of s h) = false end.
Proof.
  revert p q. induction l as [|e t IH]; intros p q E; simpl in E.
  - injection E as <- <-. repeat split. constructor.
  - destruct (set (ename_of s e)) eqn:Se.
    + destruct (implied_split s set t) as [p' q'] eqn:E'. injection E as <- <-.
      destruct (IH _ _ eq_refl) as (A & B & C). repeat split; [simpl; rewrite A; reflexivity | constructor; assumption | exact C].
    + injection E as <- <-. repeat split; [constructor | exact Se].
Qed.

(* ---------- non-vacuity ---------- *)
Definition ex_opts : topts :=
  {| o_exact_errors := false ; o_scripting := true ; o_iframe_srcdoc := false ; o_drop_doctype := false ;
     o_quirks := 2%N ; o_allow_dsr := true ; o_attach_ok := false ; o_dev := [] |}.
(* <!DOCTYPE html><title>x</title><table><td>y<svg><p>z EOF : visits Initial .. InBody, Text, the table modes,
   foreign content with a break-out, and ends; the protocol holds and the run is RunOk *)
Definition ex_tokens : list (token * N) :=
  [ (TDoctype (Some (nm "html")) None None false, 1%N);
    (TTag StartTag (nm "title") false [] false, 1%N);
    (TChars (nm "x"), 1%N);
    (TTag EndTag (nm "title") false [] false, 1%N);
    (TTag StartTag (nm "table") false [] false, 1%N);
    (TTag StartTag (nm "td") false [(nm "a", nm "b")] false, 1%N);
    (TChars (nm "y"), 1%N);
    (TTag StartTag (nm "svg") false [] false, 1%N);
    (TTag StartTag (nm "p") false [] false, 1%N);
    (TChars (nm "z"), 1%N);
    (TEof, 1%N) ].
Example ex_run_ok :
  match run_tokens (init_state ex_opts) ex_tokens [] with RunOk s' res => length res = 11 /\ mode s' = InCell | _ => False end.
Proof. vm_compute. split; reflexivity. Qed.
(* a decision procedure for [protocol], to exhibit a run that satisfies the hypothesis of the theorem *)
Definition token_ok_b (s : st) (tk : token) : bool :=
  if is_mode (mode s) Text then
    match tk with
    | TChars _ | TEof | TError => true
    | TTag k _ _ _ _ => tagkind_eqb k EndTag
    | _ => false
    end
  else true.
Definition scalar_token_b (tk : token) : bool :=
  match tk with TTag _ _ _ attrs _ => forallb (fun p => forallb Utf8.is_scalar (snd p)) attrs | _ => true end.
Fixpoint protocol_b (s : st) (toks : list (token * N)) : bool :=
  match toks with
  | [] => true
  | (tk, line) :: r =>
    token_ok_b s tk && scalar_token_b tk &&
    match process_token tk line s with Ok _ s' => protocol_b s' r | _ => true end
  end.

Lemma token_ok_b_sound s tk : token_ok_b s tk = true -> token_ok s tk.
Proof.
  unfold token_ok_b, token_ok. intros H Em. rewrite Em in H. simpl in H.
  destruct tk as [n p y f|k n sc a d|x|x| | |]; try discriminate H; try exact Logic.I.
  destruct k; [discriminate H | reflexivity].
Qed.
Lemma scalar_token_b_sound tk : scalar_token_b tk = true -> scalar_token tk.
Proof.
  destruct tk as [n p y f|k n sc a d|x|x| | |]; simpl; intro H; try exact Logic.I.
  rewrite forallb_forall in H. apply Forall_forall. intros q Hq. specialize (H q Hq).
  unfold Utf8.scalars. apply Forall_forall. rewrite forallb_forall in H. exact H.
Qed.
Lemma protocol_b_sound : forall toks s, protocol_b s toks = true -> protocol s toks.
Proof.
  induction toks as [|[tk line] r IH]; intros s H; cbn [protocol protocol_b] in *; [exact Logic.I|].
  apply andb_true_iff in H. destruct H as [H H3]. apply andb_true_iff in H. destruct H as [H1 H2].
  split; [apply token_ok_b_sound; exact H1 | split; [apply scalar_token_b_sound; exact H2|]].
  destruct (process_token tk line s); [apply IH; exact H3 | exact Logic.I | exact Logic.I].
Qed.

Example ex_protocol : protocol (init_state ex_opts) ex_tokens.
Proof. apply protocol_b_sound. vm_compute. reflexivity. Qed.

(* the theorem applies to the example run, and the run really is RunOk *)
Example ex_no_panic :
  match run_tokens (init_state ex_opts) ex_tokens [] with RunOk s' _ => TInv s' | _ => False end.
Proof.
  pose proof (tree_no_panic_document_partial ex_opts ex_tokens ex_protocol) as H.
  pose proof ex_run_ok as R.
  destruct (run_tokens (init_state ex_opts) ex_tokens []); [exact H | contradiction | contradiction].
Qed.

(* the precondition of the theorem can fail: a start tag is not a token the tokenizer may deliver in "text"
   mode, and the model then does reach a Panic site (42, rules.rs:1032) *)
Example ex_protocol_needed :
  run_tokens (init_state ex_opts)
    [ (TTag StartTag (nm "title") false [] false, 1%N); (TTag StartTag (nm "b") false [] false, 1%N) ] [] = RunPanic 42%N.
Proof. vm_compute. reflexivity. Qed.

(* the Panic sites the theorem excludes are real: the unwrap of `context_elem` (site 1) fires without a context *)
Example ex_site_reachable :
  match tokenizer_state_for_context_elem true (init_state ex_opts) with Panic n => n = 1%N | _ => False end.
Proof. vm_compute. reflexivity. Qed.
