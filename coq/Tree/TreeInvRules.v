(* ========================================================================
   TreeInvRules.v - every arm of every insertion mode (and of the foreign-
   content rules) preserves [TInv] and reaches no Panic site, under the shape
   assumption [Hshape] (TreeModel.hshape_b) for the few arms that need it.
   ======================================================================== *)
From Coq Require Import List NArith Bool Arith Lia String.
From HV Require Import Dom.DomSpec Tree.TreeTypes Tree.TreeTables Tree.TreeModelHelpers Tree.TreeModelRules
  Tree.TreeModel Tree.TreeHoare Tree.TreeInvBasic Tree.TreeInvDefs Tree.TreeInvSetters Tree.TreeInvPrims
  Tree.TreeInvHelpers Tree.TreeInvAAA Tree.TreeInvDispatch.
Import ListNotations.
Open Scope string_scope.
Open Scope list_scope.
Notation length := List.length (only parsing).

(* ---------- pre- and postconditions of a step ---------- *)
Definition Hshape (s : st) : Prop := hshape_b s = true.

Definition is_text_tok (t : tok) : bool :=
  match t with KChars _ _ | KEof => true | KTag g => tagkind_eqb (tg_kind g) EndTag | _ => false end.
(* what the tokenizer can deliver while the tree builder is in "text" mode *)
Definition tok_ok (s : st) (t : tok) : Prop := mode s = Text -> is_text_tok t = true.
Definition scalar_tok (t : tok) : Prop := match t with KTag g => scalar_tag g | _ => True end.

Definition is_reprocess (r : presult) : bool := match r with Reprocess _ _ => true | _ => false end.

(* the EncodingIndicator result (C19): [enc_from t l] - the token is a start tag of the charset / http-equiv arm of
   the "in head" rules and l is the label it declares *)
Definition enc_from (t : tok) (l : str) : Prop :=
  exists g, t = KTag g /\ tg_kind g = StartTag /\ head_matches t (nth 4 heads_in_head []) = true /\ model_label g = Some l.

Definition is_enc_probe (ev : event) : bool :=
  match ev with EvArm 30 49 | EvArm 30 50 => true | _ => false end.
(* [enc_tail t s l]: the most recent indicator probe of the trace comes right after the insertion of the HTML element
   created for the tag t, with its name and attributes (the name is meta unless deviation 7 is on) *)
Definition enc_tail (t : tok) (s : st) (l : str) : Prop :=
  exists post k h name attrs,
    name = qn_elem ns_html (tname t) /\ attrs = tg_attrs (tk_tag t) /\
    (exists older, out s = post ++ EvArm 30 k :: older /\
       exists ins mid tm ip dup older', older = EvOp ins :: mid ++ EvOp (OpCreateElement h name attrs tm ip dup) :: older' /\
                                        inserts ins (inl h)) /\
    forallb (fun ev => negb (is_enc_probe ev)) post = true /\ (k = 49 \/ k = 50) /\
    (dev_on s 7 = false -> tname t = nm "meta").

(* a reprocessed token is the token itself (every arm of rules.rs passes its `token` on) *)
Definition same_tok (t : tok) (r : presult) : Prop :=
  match r with Reprocess _ t' | ReprocessForeign t' => t' = t | PEncoding l => enc_from t l | _ => True end.
(* results a character token can produce (the asserts of process_to_completion rest on it) *)
Definition chars_ok (t : tok) (r : presult) : Prop :=
  is_chars t = true ->
  match r with
  | Done | SplitWhitespace _ | Reprocess _ _ => True
  | _ => False
  end.
Definition res_ok (t : tok) (r : presult) : Prop := same_tok t r /\ chars_ok t r.

(* the invariant after the step, read with the mode the loop is about to set *)
Definition TInvR (t : tok) (r : presult) (s' : st) : Prop :=
  match r with
  | Reprocess m _ => TInv (set_mode m s') /\ m <> Text
  | ReprocessForeign _ => False
  | PEncoding l => TInv s' /\ enc_tail t s' l
  | _ => TInv s'
  end.

Definition step_post (t : tok) (r : presult) (s' : st) : Prop := TInvR t r s' /\ res_ok t r.

(* ---------- enumeration of the arms ---------- *)
Lemma wp_arm_dispatch mid heads bodies t (Q : presult -> st -> Prop) s :
  total_heads heads -> aligned heads bodies ->
  (forall k b, first_match heads t = k -> nth_error bodies k = Some b ->
       head_matches t (nth k heads []) = true ->
       (forall j, j < k -> head_matches t (nth j heads []) = false) ->
       wp (b t) Q (set_out (EvArm mid k :: out s) s)) ->
  wp (arm_dispatch mid heads bodies t) Q s.
Proof.
  intros T A H. destruct (arm_dispatch_body mid heads bodies t T A) as (b & Eb & Ed).
  rewrite Ed. rewrite wp_bind, wp_log_arm.
  pose proof (T t) as Lk. destruct (first_match_sound heads t _ eq_refl Lk) as [Hm Hn].
  eapply H; [reflexivity | exact Eb | exact Hm | exact Hn].
Qed.

(* one goal per arm: [k] is replaced by the arm number, [b] by the arm body *)
Ltac arm_cases k Eb :=
  destruct k as [|k];
  [ simpl in Eb; injection Eb as <-
  | simpl in Eb; first [ solve [destruct k; discriminate Eb] | arm_cases k Eb ] ].

(* dispatch through a table of per-arm specifications (keeps proof terms small) *)
Lemma In_combine_seq_nth {A} (l : list A) : forall a k x, nth_error l k = Some x -> In (a + k, x) (combine (seq a (length l)) l).
Proof.
  induction l as [|y t IH]; intros a k x E; [destruct k; discriminate|].
  destruct k as [|k]; simpl in *.
  - injection E as <-. left. rewrite Nat.add_0_r. reflexivity.
  - right. replace (a + S k) with (S a + k) by lia. apply IH. exact E.
Qed.

Lemma wp_dispatch_specs mid heads bodies (spec : nat -> body -> Prop) t (Q : presult -> st -> Prop) s :
  total_heads heads -> aligned heads bodies ->
  Forall (fun kb => spec (fst kb) (snd kb)) (combine (seq 0 (length bodies)) bodies) ->
  (forall k b, spec k b -> first_match heads t = k ->
       head_matches t (nth k heads []) = true ->
       (forall j, j < k -> head_matches t (nth j heads []) = false) ->
       wp (b t) Q (set_out (EvArm mid k :: out s) s)) ->
  wp (arm_dispatch mid heads bodies t) Q s.
Proof.
  intros T A F H. apply wp_arm_dispatch; [exact T | exact A |].
  intros k b Ek Eb Hm Hn. apply (H k b); try assumption.
  rewrite Forall_forall in F. apply (F (k, b)). apply (In_combine_seq_nth bodies 0 k b Eb).
Qed.

Lemma res_ok_done t : res_ok t Done. Proof. split; [exact Logic.I | intros _; exact Logic.I]. Qed.
Lemma res_ok_nonchars t r : is_chars t = false -> same_tok t r -> res_ok t r.
Proof. intros E S. split; [exact S | intro C; congruence]. Qed.
Lemma res_ok_reprocess t m : res_ok t (Reprocess m t).
Proof. split; [reflexivity | intros _; exact Logic.I]. Qed.
Lemma res_ok_split t b : res_ok t (SplitWhitespace b).
Proof. split; [exact Logic.I | intros _; exact Logic.I]. Qed.

Lemma keeps_arm s mid k : TInv s -> keeps s (set_out (EvArm mid k :: out s) s).
Proof. intro I. (apply keeps_set_out; [|reflexivity]). apply keeps_refl. exact I. Qed.

(* ---------- shared arm bodies ---------- *)
Definition done_post (s0 : st) (r : presult) (s' : st) : Prop := keeps s0 s' /\ r = Done.

Lemma step_post_keeps s0 t r s' : keeps s0 s' -> r = Done -> step_post t r s'.
Proof. intros [I _] ->. split; [exact I | apply res_ok_done]. Qed.

Lemma wp_b_split s t (Q : presult -> st -> Prop) : Q (SplitWhitespace (tk_text t)) s -> wp (b_split t) Q s.
Proof. intro H. unfold b_split. rewrite wp_ret. exact H. Qed.

(* ---------- Initial ---------- *)
Lemma TInv_set_mode_early s m : TInv s -> early_mode (mode s) = true -> early_mode m = true -> TInv (set_mode m s).
Proof.
  intros [I1 I2 I3 I4 I5 I6 I7 I8 I9 I10 I11] E Em. constructor; try assumption.
  - unfold root_ok in *. simpl. rewrite Em. rewrite E in I3. exact I3.
  - unfold orig_ok in *. simpl. destruct (orig_mode s) as [o|].
    + destruct I4 as (A & _). destruct (mode s); discriminate.
    + destruct m; try discriminate; reflexivity.
  - unfold pending_ok in *. simpl. intros _. apply I5. destruct (mode s); discriminate.
  - unfold head_ok in *. simpl. intros [A|A]; [destruct m; discriminate | apply I8; right; exact A].
Qed.

Lemma early_cases m : early_mode m = true -> m = Initial \/ m = BeforeHtml.
Proof. destruct m; simpl; intro H; try discriminate; auto. Qed.

Lemma keeps_TInv s0 s : keeps s0 s -> TInv s. Proof. intros [I _]; exact I. Qed.

Lemma step_initial_ok s t : TInv s -> mode s = Initial -> wp (step_initial t) (step_post t) s.
Proof.
  intros I Em. unfold step_initial. apply wp_arm_dispatch; [apply total_initial | apply (aligned_all b_done b_done b_done) |].
  intros k b Ek Eb Hm Hn. pose proof (keeps_arm s (mode_id Initial) k I) as K.
  set (s1 := set_out _ s) in *. assert (E1 : mode s1 = Initial) by exact Em.
  arm_cases k Eb.
  - apply wp_b_split. split; [exact (keeps_TInv _ _ K) | apply res_ok_split].
  - unfold b_done. rewrite wp_ret. eapply step_post_keeps; [exact K | reflexivity].
  - unfold b_comment_to_doc. eapply wp_append_comment_to_doc; [exact K|]. intros s' K' _. eapply step_post_keeps; [exact K' | reflexivity].
  - rewrite wp_bind, wp_get, wp_bind.
    assert (Fin : forall s2, keeps s s2 -> wp (ret (Reprocess BeforeHtml t)) (step_post t) s2).
    { intros s2 K2. rewrite wp_ret. split.
      - split; [|discriminate]. apply TInv_set_mode_early; [exact (keeps_TInv _ _ K2) | | reflexivity].
        destruct K2 as [_ S2]. rewrite (st_mode _ _ S2), Em. reflexivity.
      - apply res_ok_reprocess. }
    destruct (negb (o_iframe_srcdoc (opts s1))).
    + rewrite wp_bind, wp_parse_error. unfold do_set_quirks. rewrite wp_bind, wp_modify, wp_emit.
      apply Fin. (apply keeps_set_out; [|reflexivity]). apply keeps_set_quirks_mode. (apply keeps_set_out; [|reflexivity]). exact K.
    + rewrite wp_ret. apply Fin. exact K.
Qed.

(* ---------- generic arm bodies under a late mode ---------- *)
Definition is_done (r : presult) (s' : st) : Prop := TInv s' /\ r = Done.

Lemma is_done_post t r s' : is_done r s' -> step_post t r s'.
Proof. intros [I ->]. split; [exact I | apply res_ok_done]. Qed.

Lemma armd_done s t : TInv s -> wp (b_done t) is_done s.
Proof. intro I. unfold b_done. rewrite wp_ret. split; [exact I | reflexivity]. Qed.
Lemma armd_unexpected s t : TInv s -> wp (b_unexpected t) is_done s.
Proof.
  intro I. unfold b_unexpected. apply wp_unexpected. split; [eapply TInv_core_eq; [(apply core_eq_set_out; reflexivity) | exact I] | reflexivity].
Qed.
Lemma armd_append_text s t : TInv s -> late s -> wp (b_append_text t) is_done s.
Proof.
  intros I L. unfold b_append_text. eapply wp_append_text; [apply keeps_refl; exact I | exact L |].
  intros s' K' _. split; [exact (keeps_TInv _ _ K') | reflexivity].
Qed.
Lemma armd_append_comment s t : TInv s -> late s -> wp (b_append_comment t) is_done s.
Proof.
  intros I L. unfold b_append_comment. eapply wp_append_comment; [apply keeps_refl; exact I | exact L |].
  intros s' K' _. split; [exact (keeps_TInv _ _ K') | reflexivity].
Qed.
Lemma armd_comment_to_doc s t : TInv s -> wp (b_comment_to_doc t) is_done s.
Proof.
  intros I. unfold b_comment_to_doc. eapply wp_append_comment_to_doc; [apply keeps_refl; exact I|].
  intros s' K' _. split; [exact (keeps_TInv _ _ K') | reflexivity].
Qed.
Lemma armd_comment_to_html s t : TInv s -> late s -> wp (b_comment_to_html t) is_done s.
Proof.
  intros I L. unfold b_comment_to_html. eapply wp_append_comment_to_html; [apply keeps_refl; exact I | exact L |].
  intros s' K' _. split; [exact (keeps_TInv _ _ K') | reflexivity].
Qed.

Lemma arm_split s t : TInv s -> wp (b_split t) (step_post t) s.
Proof. intro I. apply wp_b_split. split; [exact I | apply res_ok_split]. Qed.
Lemma arm_done s t : TInv s -> wp (b_done t) (step_post t) s.
Proof. intro I. eapply wp_mono; [apply armd_done; exact I | intros; apply is_done_post; assumption]. Qed.
Lemma arm_unexpected s t : TInv s -> wp (b_unexpected t) (step_post t) s.
Proof. intro I. eapply wp_mono; [apply armd_unexpected; exact I | intros; apply is_done_post; assumption]. Qed.
Lemma arm_append_text s t : TInv s -> late s -> wp (b_append_text t) (step_post t) s.
Proof. intros I L. eapply wp_mono; [apply armd_append_text; assumption | intros; apply is_done_post; assumption]. Qed.
Lemma arm_append_comment s t : TInv s -> late s -> wp (b_append_comment t) (step_post t) s.
Proof. intros I L. eapply wp_mono; [apply armd_append_comment; assumption | intros; apply is_done_post; assumption]. Qed.
Lemma arm_comment_to_doc s t : TInv s -> wp (b_comment_to_doc t) (step_post t) s.
Proof. intros I. eapply wp_mono; [apply armd_comment_to_doc; assumption | intros; apply is_done_post; assumption]. Qed.
Lemma arm_comment_to_html s t : TInv s -> late s -> wp (b_comment_to_html t) (step_post t) s.
Proof. intros I L. eapply wp_mono; [apply armd_comment_to_html; assumption | intros; apply is_done_post; assumption]. Qed.

Lemma TInv_arm s mid k : TInv s -> TInv (set_out (EvArm mid k :: out s) s).
Proof. intro I. eapply TInv_core_eq; [(apply core_eq_set_out; reflexivity) | exact I]. Qed.
Lemma late_arm s mid k : late s -> late (set_out (EvArm mid k :: out s) s).
Proof. intro L. exact L. Qed.

(* ---------- BeforeHtml ---------- *)
(* creating the root from the empty stack and moving to a late mode *)
Lemma TInv_root_created s h m :
  TInv s -> early_mode (mode s) = true -> known s h -> ename_of s h = html_html ->
  early_mode m = false -> saving_mode m = false -> head_needed m = false ->
  TInv (set_mode m (set_open_elems (vpush (open_elems s) h) s)).
Proof.
  intros I E K N Em Sm Hm. pose proof I as [I1 I2 I3 I4 I5 I6 I7 I8 I9 I10 I11].
  assert (Es : open_elems s = []) by (unfold root_ok in I3; rewrite E in I3; exact I3).
  assert (Eo : orig_mode s = None).
  { unfold orig_ok in I4. destruct (orig_mode s); [|reflexivity]. destruct I4 as (A & _). destruct (mode s); discriminate. }
  constructor; try assumption.
  - destruct I2 as [A B]. split; [|exact B]. unfold state_handles in *. simpl. rewrite Es in *. simpl in *.
    pose proof A as A1. constructor; assumption.
  - unfold root_ok. simpl. rewrite Em, Es. exists h, []. split; [reflexivity | exact N].
  - unfold orig_ok. simpl. rewrite Eo. exact Sm.
  - unfold pending_ok in *. simpl. intros _. apply I5. destruct (mode s); discriminate.
  - unfold tm_ok, tcount in *.
    change (open_elems (set_mode m (set_open_elems (vpush (open_elems s) h) s))) with (vpush (open_elems s) h).
    change (context_elem (set_mode m (set_open_elems (vpush (open_elems s) h) s))) with (context_elem s).
    change (template_modes (set_mode m (set_open_elems (vpush (open_elems s) h) s))) with (template_modes s).
    change (is_template (set_mode m (set_open_elems (vpush (open_elems s) h) s))) with (is_template s).
    rewrite Es in *. unfold vpush. cbn [app filter].
    assert (Ht : is_template s h = false).
    { unfold is_template, html_elem_named_b. rewrite N. reflexivity. }
    rewrite Ht. exact I7.
  - unfold head_ok in *. simpl. rewrite Eo. intros [A|(m' & A & _)]; [congruence | discriminate].
  - unfold headstack_ok in *.
    change (open_elems (set_mode m (set_open_elems (vpush (open_elems s) h) s))) with (vpush (open_elems s) h).
    rewrite Es. unfold vpush. cbn [app]. intros (x & [<-|[]] & B).
    assert (X : forall st' y, ename_of (set_mode m (set_open_elems st' s)) y = ename_of s y) by reflexivity.
    rewrite X, N in B. discriminate.
Qed.

Lemma wp_create_root s attrs m (Q : unit -> st -> Prop) :
  TInv s -> early_mode (mode s) = true ->
  early_mode m = false -> saving_mode m = false -> head_needed m = false ->
  (forall s', TInv (set_mode m s') -> Q tt s') ->
  wp (create_root attrs) Q s.
Proof.
  intros I E Em Sm Hm H. unfold create_root. rewrite wp_bind. unfold wp at 1. rewrite sink_create_element_eq.
  set (h := next_handle s). set (s1 := new_elem_state _ _ _ s).
  assert (K1 : keeps s s1) by (apply new_elem_keeps; apply keeps_refl; exact I).
  rewrite wp_bind. unfold push. rewrite wp_modify, wp_emit. apply H.
  pose proof (TInv_root_created s1 h m (keeps_TInv _ _ K1) E (new_elem_known _ _ _ _) (new_elem_name _ _ _ _) Em Sm Hm) as IX.
  set (X := set_mode m (set_open_elems (vpush (open_elems s1) h) s1)) in *.
  assert (KX : known X h) by apply new_elem_known.
  assert (Ok : op_okb (sv X) (OpAppend 0 (inl h)) = true).
  { cbn [op_okb]. pose proof (known_child_ok X h IX KX) as C. unfold child_ok in C. rewrite C. reflexivity. }
  pose proof (TInv_emit X (OpAppend 0 (inl h)) IX eq_refl eq_refl Ok) as I3.
  eapply TInv_core_eq; [|exact I3]. repeat split.
Qed.

Lemma step_before_html_ok s t : TInv s -> mode s = BeforeHtml -> wp (step_before_html t) (step_post t) s.
Proof.
  intros I Em. unfold step_before_html. apply wp_arm_dispatch; [apply total_before_html | apply (aligned_all b_done b_done b_done) |].
  intros k b Ek Eb Hm Hn. pose proof (TInv_arm s (mode_id BeforeHtml) k I) as I1.
  set (s1 := set_out _ s) in *. assert (E1 : mode s1 = BeforeHtml) by exact Em.
  assert (AE : wp (before_html_anything_else t) (step_post t) s1).
  { unfold before_html_anything_else. rewrite wp_bind.
    apply (wp_create_root s1 [] BeforeHead); [exact I1 | rewrite E1; reflexivity | reflexivity | reflexivity | reflexivity |].
    intros s' I'. rewrite wp_ret. split; [split; [exact I' | discriminate] | apply res_ok_reprocess]. }
  arm_cases k Eb.
  - apply arm_comment_to_doc; exact I1.
  - apply arm_split; exact I1.
  - apply arm_done; exact I1.
  - rewrite wp_bind. apply (wp_create_root s1 _ BeforeHead); [exact I1 | rewrite E1; reflexivity | reflexivity | reflexivity | reflexivity |].
    intros s' I'. unfold set_mode_m. rewrite wp_bind, wp_modify, wp_ret. split; [exact I' | apply res_ok_done].
  - exact AE.
  - apply arm_unexpected; exact I1.
  - exact AE.
Qed.

(* ---------- names of tags in arms ---------- *)
Definition safe_name (n : str) : bool := negb (is_n n "html") && negb (is_n n "head") && negb (is_n n "template").
Lemma is_n_eq n x : is_n n x = true -> n = nm x. Proof. apply str_eqb_eq. Qed.
Lemma is_n_false n x : is_n n x = false -> n <> nm x.
Proof. intros E X. subst. unfold is_n in E. rewrite str_eqb_refl in E. discriminate. Qed.
Lemma safe_name_props n : safe_name n = true ->
  n <> nm "html" /\ (ns_html, n) <> (ns_html, nm "head") /\ (ns_html, n) <> (ns_html, nm "template").
Proof.
  unfold safe_name. intro H. apply andb_true_iff in H. destruct H as [H H3]. apply andb_true_iff in H. destruct H as [H1 H2].
  apply negb_true_iff in H1, H2, H3. apply is_n_false in H1, H2, H3.
  repeat split; [exact H1 | intro E; injection E; exact H2 | intro E; injection E; exact H3].
Qed.

(* a tag matching a head all of whose names are safe *)
Lemma head_safe h t : forallb (atom_names safe_name false) h = true -> head_matches t h = true ->
  exists g, t = KTag g /\ tg_name g <> nm "html" /\ (ns_html, tg_name g) <> (ns_html, nm "head") /\
            (ns_html, tg_name g) <> (ns_html, nm "template").
Proof.
  intros F M. destruct (head_named_prop _ _ _ F M) as (g & -> & P). exists g. split; [reflexivity|]. apply safe_name_props. exact P.
Qed.

(* ---------- the stack of template insertion modes ---------- *)
Lemma wp_pop_until_strong s0 s pred (Q : nat -> st -> Prop) :
  keeps s0 s -> late s -> pred html_html = false ->
  (exists x, In x (open_elems s) /\ pred (ename_of s x) = true) ->
  (forall n s', keeps s0 s' -> active_formatting s' = active_formatting s ->
      (exists k e, 1 <= k /\ open_elems s' = firstn k (open_elems s) /\ nth_error (open_elems s) k = Some e /\
                   pred (ename_of s e) = true) -> Q n s') ->
  wp (pop_until pred) Q s.
Proof.
  intros K L Hs (x & Hin & Hx) H. pose proof K as [I S].
  unfold pop_until. rewrite wp_bind, wp_get.
  destruct (pop_until_l s pred (rev (open_elems s)) 0) as [n rest] eqn:E.
  destruct (pop_until_l_suffix _ _ _ _ _ _ E) as (pre & e & A & Pe).
  { exists x. split; [apply in_rev in Hin; exact Hin | exact Hx]. }
  destruct (TInv_stack_nonempty _ I L) as (r & tl & Er & Nr).
  assert (Lr : 1 <= length rest).
  { destruct rest as [|y rest']; [|simpl; lia]. exfalso.
    rewrite Er, rev_root in A. apply (f_equal (@rev _)) in A. rewrite !rev_app_distr in A. simpl in A.
    injection A as A _. subst e. rewrite Nr in Pe. congruence. }
  assert (A' : rev (open_elems s) = (pre ++ [e]) ++ rest) by (rewrite <- app_assoc; exact A).
  pose proof (rev_suffix_prefix _ _ _ A') as P.
  rewrite wp_bind, wp_modify, wp_ret. apply H; [rewrite P; apply keeps_shrink; assumption | reflexivity |].
  exists (length rest), e. repeat split; [exact Lr | exact P | | exact Pe].
  (* open_elems s = rev rest ++ e :: rev pre *)
  apply (f_equal (@rev _)) in A. rewrite rev_involutive in A. rewrite A.
  rewrite rev_app_distr. simpl. rewrite <- app_assoc. rewrite nth_error_app2; [|rewrite rev_length; lia].
  rewrite rev_length, Nat.sub_diag. reflexivity.
Qed.

Lemma filter_length_firstn_lt {A} (f : A -> bool) (l : list A) k e :
  nth_error l k = Some e -> f e = true -> length (filter f (firstn k l)) + 1 <= length (filter f l).
Proof.
  intros E F. rewrite <- (firstn_skipn k l) at 2. rewrite filter_length_app.
  assert (1 <= length (filter f (skipn k l))); [|lia].
  destruct (skipn k l) as [|z r] eqn:Es.
  - pose proof (nth_error_skipn_add l k 0) as X. rewrite Es, Nat.add_0_r, E in X. discriminate.
  - pose proof (nth_error_skipn_add l k 0) as X. rewrite Es, Nat.add_0_r, E in X. simpl in X. injection X as ->.
    simpl. rewrite F. simpl. lia.
Qed.

(* popping the stack to below a template, then the stack of template modes *)
Lemma TInv_pop_template_mode s :
  TInv s -> tcount s + 1 <= length (template_modes s) ->
  TInv (set_template_modes (vpop (template_modes s)) s).
Proof.
  intros [I1 I2 I3 I4 I5 I6 I7 I8 I9 I10 I11] T. constructor; try assumption.
  - unfold tm_ok, tcount in *. cbn [open_elems context_elem template_modes set_template_modes].
    change (is_template (set_template_modes (vpop (template_modes s)) s)) with (is_template s).
    unfold vpop. rewrite removelast_firstn, firstn_length. lia.
  - unfold tmodes_ok in *. cbn [template_modes set_template_modes]. unfold vpop. rewrite removelast_firstn.
    rewrite Forall_forall in *. intros m Hm. apply I11. eapply In_firstn; exact Hm.
Qed.
