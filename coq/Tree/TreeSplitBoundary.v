(* ========================================================================
   TreeSplitBoundary.v - C03, tree-builder side, the modes that cut character tokens into runs (SplitWhitespace):
   a cut AT A RUN BOUNDARY, for text of any kind.  Steps 0-2 (boundary case) of the plan in TreeSplitEarly.v.

   [run_boundary_split]: p is a state whose NotSplit character arm answers SplitWhitespace and where the token is not
   foreign; x = r1 ++ rest with r1 the first maximal run of x (white space or not) and rest not empty.  If
       process_to_completion on x from p,  process_to_completion on r1 from p,  process_token on rest from the state
       sa the second leaves
   all answer Ok, then the second answers SContinue, the first and the third give the same answer, and the final
   states have the same core and the same DOM.  Side conditions (decidable, they only run the model): [plain] for the
   run token - it answers Reprocess ... Done, never SplitWhitespace - from the two states the cut leaves, and
   ignore_lf sa = false.  The statement is conditional on the Ok answers because the three loops get different fuel
   (TreeLoop.v: an answer does not depend on the fuel; termination of the loop is open, TreeFuel.v).
   NOT done: the cut inside a run and the induction over the runs (TreeSplitEarly.v header, steps 2-6), so this
   theorem is not part of the side condition of TreeSplitRun.tree_split_run_partial.
   ======================================================================== *)
From Coq Require Import List NArith Bool Arith Lia String.
From HV Require Import Dom.DomSpec Dom.DomLemmas SinkSpec.Contract SinkSpec.ContractProofs.
From HV Require Import Tree.TreeTypes Tree.TreeTables Tree.TreeModelHelpers Tree.TreeModelRules Tree.TreeModel
  Tree.TreeHoare Tree.TreeInvBasic Tree.TreeInvDefs Tree.TreeInvSetters Tree.TreeInvPrims Tree.TreeInvHelpers Tree.TreeInvDispatch
  Tree.TreeInvRules Tree.TreeInvModes Tree.TreeInvMain Tree.TreeContract Tree.TreeSkeleton Tree.TreeContractRun
  Tree.TreeFrame Tree.TreeSplit Tree.TreeSplitBody Tree.TreeLoop.
Import ListNotations.
Open Scope string_scope.
Open Scope list_scope.
Notation length := List.length (only parsing).

Definition run_tok (w : bool) (r1 : str) : tok := KChars (if w then Whitespace else NotWhitespace) r1.
Definition cut_state (s0 : st) (rest : str) : st :=
  match rest with [] => s0 | _ :: _ => set_out (EvArm 30 43 :: out s0) s0 end.
Definition cut_queue (rest : str) : list tok := match rest with [] => [] | _ :: _ => [KChars NotSplit rest] end.

(* the first iteration: the token is cut *)
Lemma ptc_first_split s x k0 F r1 w rest :
  Hshape s -> is_foreign (KChars NotSplit x) s = Ok false s ->
  step (mode s) (KChars NotSplit x) s = Ok (SplitWhitespace x) (alog (mode s) k0 s) ->
  pop_front_char_run x = Some (r1, w, rest) ->
  ptc_loop (S F) (KChars NotSplit x) [] s =
  ptc_loop F (run_tok w r1) (cut_queue rest) (cut_state (alog (mode s) k0 s) rest).
Proof.
  intros Sh Fo E1 Pp. cbn [ptc_loop]. unfold ptc_iter at 1. cbv zeta.
  unfold bind at 1. unfold bind at 1. unfold bind at 1. rewrite (shape_check_ok s Sh).
  unfold bind at 1. rewrite Fo. unfold bind at 1. unfold bind at 1. unfold get. rewrite E1, Pp.
  destruct rest; reflexivity.
Qed.

Lemma ptc_as_loop t s : process_to_completion t s = ptc_loop (ptc_fuel s t) t [] s.
Proof. reflexivity. Qed.

Lemma ptc_fuel_S s t : exists F, ptc_fuel s t = S F.
Proof. unfold ptc_fuel. eexists. reflexivity. Qed.

Lemma answered_ok {A} (m : res A) a s : m = Ok a s -> answered m.
Proof. intros ->. exact I. Qed.

Theorem run_boundary_split p x k0 r1 w rest f line' r sx ra sa rb sb :
  Hshape p ->
  (forall y, is_foreign (KChars NotSplit y) p = Ok false p) ->
  (forall y, step (mode p) (KChars NotSplit y) p = Ok (SplitWhitespace y) (alog (mode p) k0 p)) ->
  x = r1 ++ rest -> rest <> [] ->
  pop_front_char_run x = Some (r1, w, rest) -> pop_front_char_run r1 = Some (r1, w, []) ->
  plain f (run_tok w r1) (alog (mode p) k0 p) ->
  plain f (run_tok w r1) (cut_state (alog (mode p) k0 p) rest) ->
  process_to_completion (KChars NotSplit x) p = Ok r sx ->
  process_to_completion (KChars NotSplit r1) p = Ok ra sa ->
  ignore_lf sa = false ->
  process_token (TChars rest) line' sa = Ok rb sb ->
  ra = SContinue /\ rb = r /\ same_core sx sb /\ dom_of sx = dom_of sb.
Proof.
  intros Sh Fo St Ex Nr Px P1 Pl0 Pl1 Rx Ra Il Rb.
  set (s0 := alog (mode p) k0 p) in *. set (s0' := cut_state s0 rest) in *. set (t := run_tok w r1) in *.
  (* the run of r1 alone *)
  rewrite ptc_as_loop in Ra. destruct (ptc_fuel_S p (KChars NotSplit r1)) as (Fa & EFa). rewrite EFa in Ra.
  rewrite (ptc_first_split p r1 k0 Fa r1 w [] Sh (Fo r1) (St r1) P1) in Ra. cbn [cut_queue cut_state] in Ra. fold s0 t in Ra.
  destruct (loop_queue (KChars NotSplit rest) f t s0 Pl0) as (k & s1 & Lk & H1 & _).
  pose proof (ptc_loop_mono Fa t [] s0 (answered_ok _ _ _ Ra) k) as Ma. rewrite Ra in Ma.
  rewrite Nat.add_comm, H1 in Ma. injection Ma as <- <-.
  split; [reflexivity|].
  (* the run of x *)
  rewrite ptc_as_loop in Rx. destruct (ptc_fuel_S p (KChars NotSplit x)) as (Fx & EFx). rewrite EFx in Rx.
  rewrite (ptc_first_split p x k0 Fx r1 w rest Sh (Fo x) (St x) Px) in Rx. fold s0 s0' t in Rx.
  assert (Eq : cut_queue rest = [KChars NotSplit rest]) by (destruct rest; [contradiction | reflexivity]).
  rewrite Eq in Rx.
  destruct (loop_queue (KChars NotSplit rest) f t s0' Pl1) as (k' & s1' & Lk' & H1' & H2').
  pose proof (ptc_loop_mono Fx t [KChars NotSplit rest] s0' (answered_ok _ _ _ Rx) k') as Mx. rewrite Rx in Mx.
  rewrite Nat.add_comm, H2' in Mx.
  (* the two runs of the run token end in states with the same core and DOM *)
  assert (C0 : same_core s0 s0' /\ dom_of s0 = dom_of s0').
  { unfold s0', cut_state. destruct rest; [contradiction|]. split; [reflexivity|].
    unfold dom_of. cbn [out set_out]. rewrite chron_cons, run_from_app. simpl. reflexivity. }
  destruct C0 as [C0 D0].
  pose proof (frame_same_core_dom _ (Frame_ptc_loop (k + k') t []) s0 s0' C0 D0) as Fr.
  rewrite (H1 k') in Fr. rewrite (Nat.add_comm k k'), (H1' k) in Fr. destruct Fr as (_ & C1 & D1).
  (* the rest: continuing the loop against a fresh token *)
  rewrite process_token_chars, Il, strip_lf_false in Rb.
  destruct rest as [|c rr]; [contradiction|]. rewrite ptc_as_loop in Rb.
  set (q := prelude_state s1 line' (c :: rr)) in *.
  assert (Cq : same_core q s1' /\ dom_of q = dom_of s1').
  { split.
    - unfold same_core in *. rewrite <- C1. unfold q. apply (prelude_state_cases s1 line' (c :: rr)). intro evs.
      rewrite (set_ignore_lf_same s1 Il). reflexivity.
    - rewrite <- D1. apply dom_prelude_state. }
  destruct Cq as [Cq Dq].
  set (Fr' := ptc_fuel q (KChars NotSplit (c :: rr))) in *.
  pose proof (ptc_loop_mono Fr' _ [] q (answered_ok _ _ _ Rb) Fx) as Mb. rewrite Rb in Mb.
  assert (Ax : answered (ptc_loop Fx (KChars NotSplit (c :: rr)) [] s1')) by (rewrite Mx; exact I).
  pose proof (ptc_loop_mono Fx _ [] s1' Ax Fr') as Mx'. rewrite Mx in Mx'. rewrite Nat.add_comm in Mx'.
  pose proof (frame_same_core_dom _ (Frame_ptc_loop (Fr' + Fx) (KChars NotSplit (c :: rr)) []) q s1' Cq Dq) as Fr2.
  rewrite Mb, Mx' in Fr2. destruct Fr2 as (Er & C2 & D2).
  split; [exact Er|]. unfold same_core in *. split; congruence.
Qed.
