(* ========================================================================
   TreeSplitRun.v - C03, tree-builder side, whole token lists: splitting character tokens does not change the DOM,
   as long as every split happens in a covered state.

   [splits_cov s toks toks']: toks' is toks with some character tokens cut in two or more pieces ([TreeSplit.splits])
   and every token that is cut is processed - in the run of toks' from s - in a state satisfying [covered_at] for the
   text x of the whole token: the shape assumption of TreeModelRules.shape_check holds (it only says something in
   "in head", "in head noscript", "text", "in cell" and "in table body"), and
     EITHER foster parenting is off, the current node is not a template element, and
         - the insertion mode is "text", or
         - the insertion mode is "in body", "in caption", "in template" or "in cell" (the last three delegate
           character tokens to "in body") and the adjusted current node is an HTML element, or
         - the insertion mode is "after body", "after after body" or "after after frameset", x is white space only
           (these modes hand white space to "in body") and the adjusted current node is an HTML element, or
         - the token is handled by the foreign-content rules (any insertion mode; [TreeSplitForeign.foreignb] of
           the adjusted current node),
     OR x is white space only, the token is not handled by the foreign rules and the insertion mode is one of
         "initial", "before html", "before head" (white space ignored), "in head", "in head noscript", "after head",
         "in column group", "in frameset", "after frameset" (white space appended: then also foster parenting off and
         a current node that is not a template element).
   [covered_atb] is the boolean version, [splits_covb] a checker for the whole side condition.

   [tree_split_run_partial]: under that side condition (and the tokenizer protocol for toks') the two runs end in
   states with the same core and the same DOM, or stop at the same Panic site / both out of fuel.
   Ingredients: TreeSplit.log_irrelevant_holds (the event log is write-only, TreeFrame.v), the line number of a
   token is irrelevant ([process_token_line]), TreeSplit.text_mode_split_gen, TreeSplitBody.body_mode_split,
   TreeSplitForeign.foreign_mode_split, TreeSplitEarly.early_mode_split.

   NOT covered (a split in such a state is not allowed by [splits_cov]):
     - "in table" and the table-text modes (also reached from "in table body", "in row" and, for other characters, "in
       column group"): the characters are queued in pending_table_text and flushed by the next token (proved: the
       white-space test over the queue and the flush of a white-space-only queue, TreeSplitTable.v);
     - tokens with a non-white-space character in the modes whose character arm answers SplitWhitespace (initial,
       before html, before head, in head, in head noscript, after head, in column group, after body, after after body,
       in frameset, after frameset, after after frameset): the runs of a ++ b are not those of a followed by those
       of b; plan in the header of TreeSplitEarly.v (proved of it, outside this side condition: the cut at the end of
       the first run, TreeSplitBoundary.v);
     - a template element as the current node: same argument as "in body" with the two closed forms of
       sink_get_template_contents (first fetch: the sink view grows by one entry, so ename_of / named / adjusted_ns /
       hshape_b of the later states need nth (l ++ [None]) lemmas instead of conversion; later fetches: found in
       sv_tmpl); the second OpGetTemplateContents is a no-op in DomSpec because its result is already named
       (Sim.sim_tdom + sim_len); not carried out;
     - foster parenting on: the text goes through OpAppendBasedOnParent, i.e. DomSpec.before_text before the table;
       before_text (before_text d sib a) sib b = before_text d sib (a ++ b) needs parent_of / prev_of / insert_before
       lemmas under the unique-parent invariant of the DOM; not carried out.
   ======================================================================== *)
From Coq Require Import List NArith Bool Arith Lia String.
From HV Require Import Dom.DomSpec Dom.DomLemmas SinkSpec.Contract SinkSpec.ContractProofs.
From HV Require Import Tree.TreeTypes Tree.TreeTables Tree.TreeModelHelpers Tree.TreeModelRules Tree.TreeModel
  Tree.TreeHoare Tree.TreeInvBasic Tree.TreeInvDefs Tree.TreeInvSetters Tree.TreeInvPrims Tree.TreeInvHelpers Tree.TreeInvDispatch
  Tree.TreeInvRules Tree.TreeInvModes Tree.TreeInvMain Tree.TreeContract Tree.TreeSkeleton Tree.TreeContractRun
  Tree.TreeFrame Tree.TreeSplit Tree.TreeSplitBody Tree.TreeSplitForeign Tree.TreeSplitEarly.
Import ListNotations.
Open Scope string_scope.
Open Scope list_scope.
Notation length := List.length (only parsing).

(* ---------- the line number of a token is irrelevant ---------- *)
Lemma process_token_line_1 tk l s : process_token tk l s = process_token tk 1 (line_state l s).
Proof.
  unfold process_token, pt_prelude, line_state. unfold bind at 1 2 5 6. unfold when.
  destruct (negb (N.eqb l 1)); reflexivity.
Qed.

Lemma line_state_core l s : same_core (line_state l s) s /\ dom_of (line_state l s) = dom_of s.
Proof.
  unfold line_state. destruct (negb (N.eqb l 1)); [|split; reflexivity]. split; [reflexivity|].
  unfold dom_of. cbn [out set_out]. rewrite chron_cons, run_from_app. simpl. reflexivity.
Qed.

Definition tok_sim (r1 r2 : res sink_result) : Prop :=
  match r1, r2 with
  | Ok a t, Ok a' t' => a = a' /\ same_core t t' /\ dom_of t = dom_of t'
  | Panic n, Panic n' => n = n'
  | OutOfFuel, OutOfFuel => True
  | _, _ => False
  end.

Theorem process_token_line tk l l' s s' : same_core s s' -> dom_of s = dom_of s' ->
  tok_sim (process_token tk l s) (process_token tk l' s').
Proof.
  intros C D. rewrite (process_token_line_1 tk l s), (process_token_line_1 tk l' s').
  destruct (line_state_core l s) as [C1 D1], (line_state_core l' s') as [C2 D2].
  apply (frame_same_core_dom _ (process_token_frame tk 1)).
  - unfold same_core in *. congruence.
  - congruence.
Qed.

(* ---------- the covered states (for a character token with text x) ---------- *)
Definition curnt (s : st) : Prop := exists h, vlast (open_elems s) = Some h /\ named s h "template" = false.

Definition late_cov (s : st) (x : str) : Prop :=
  mode s = Text \/
  (dmode (mode s) /\ xok (mode s) x /\ adjusted_ns s = ns_html) \/
  (exists h, adjusted_node s = Some h /\ foreignb s h = true).

Definition early_cov (s : st) (x : str) : Prop :=
  nfchars s /\ any_not_whitespace x = false /\
  exists evs app, ws_info (mode s) = Some (evs, app) /\ (app = true -> foster_parenting s = false /\ curnt s).

Definition covered_at (s : st) (x : str) : Prop :=
  hshape_b s = true /\
  ((foster_parenting s = false /\ curnt s /\ late_cov s x) \/ early_cov s x).

Definition curntb (s : st) : bool :=
  match vlast (open_elems s) with Some h => negb (named s h "template") | None => false end.
Definition xokb (m : imode) (x : str) : bool :=
  match m with
  | AfterBody | AfterAfterBody | AfterAfterFrameset => negb (is_nil x) && negb (any_not_whitespace x)
  | _ => true
  end.
Definition dmodeb (m : imode) : bool :=
  match m with
  | InBody | InCaption | InTemplate | InCell | AfterBody | AfterAfterBody | AfterAfterFrameset => true
  | _ => false
  end.
Definition late_covb (s : st) (x : str) : bool :=
  mode_eqb (mode s) Text ||
  (dmodeb (mode s) && xokb (mode s) x && str_eqb (adjusted_ns s) ns_html) ||
  match adjusted_node s with Some h => foreignb s h | None => false end.
Definition nfcharsb (s : st) : bool :=
  match adjusted_node s with Some h => negb (foreignb s h) | None => is_nil (open_elems s) end.
Definition early_covb (s : st) (x : str) : bool :=
  nfcharsb s && negb (any_not_whitespace x) &&
  match ws_info (mode s) with
  | Some (_, app) => if app then negb (foster_parenting s) && curntb s else true
  | None => false
  end.
Definition covered_atb (s : st) (x : str) : bool :=
  hshape_b s && ((negb (foster_parenting s) && curntb s && late_covb s x) || early_covb s x).

Lemma negb_true_false b : negb b = true -> b = false.
Proof. destruct b; [discriminate | reflexivity]. Qed.

Lemma curntb_sound s : curntb s = true -> curnt s.
Proof.
  unfold curntb, curnt. destruct (vlast (open_elems s)) as [h|]; [|discriminate]. intro H. exists h.
  split; [reflexivity | apply negb_true_false; exact H].
Qed.

Lemma dmodeb_sound m : dmodeb m = true -> dmode m.
Proof. unfold dmode. destruct m; cbn [dmodeb]; intro H; try discriminate; tauto. Qed.

Lemma xokb_sound m x : xokb m x = true -> xok m x.
Proof.
  destruct m; cbn [xokb xok]; intro H; try exact Logic.I; apply andb_true_iff in H; destruct H as [A B];
    (split; [destruct x; [discriminate | discriminate] | apply negb_true_false; exact B]).
Qed.

Lemma late_covb_sound s x : late_covb s x = true -> late_cov s x.
Proof.
  unfold late_covb, late_cov. intro H. apply orb_true_iff in H. destruct H as [H|H]; [apply orb_true_iff in H; destruct H as [H|H]|].
  - left. apply mode_eqb_eq. exact H.
  - right. left. apply andb_true_iff in H. destruct H as [H C]. apply andb_true_iff in H. destruct H as [A B].
    split; [apply dmodeb_sound; exact A|]. split; [apply xokb_sound; exact B | apply TreeInvPrims.str_eqb_eq; exact C].
  - right. right. destruct (adjusted_node s) as [h|]; [|discriminate]. exists h. split; [reflexivity | exact H].
Qed.

Lemma early_covb_sound s x : early_covb s x = true -> early_cov s x.
Proof.
  unfold early_covb, early_cov. intro H. apply andb_true_iff in H. destruct H as [H C]. apply andb_true_iff in H. destruct H as [A B].
  split.
  - unfold nfcharsb, nfchars in *. destruct (adjusted_node s); [apply negb_true_false; exact A|].
    destruct (open_elems s); [reflexivity | discriminate].
  - split; [apply negb_true_false; exact B|].
    destruct (ws_info (mode s)) as [[evs app]|]; [|discriminate]. exists evs, app. split; [reflexivity|].
    intro Ea. subst app. apply andb_true_iff in C. destruct C as [C1 C2].
    split; [apply negb_true_false; exact C1 | apply curntb_sound; exact C2].
Qed.

Lemma covered_atb_sound s x : covered_atb s x = true -> covered_at s x.
Proof.
  unfold covered_atb, covered_at. intro H. apply andb_true_iff in H. destruct H as [Sh H]. split; [exact Sh|].
  apply orb_true_iff in H. destruct H as [H|H]; [left | right; apply early_covb_sound; exact H].
  apply andb_true_iff in H. destruct H as [H C]. apply andb_true_iff in H. destruct H as [A B].
  split; [apply negb_true_false; exact A|]. split; [apply curntb_sound; exact B | apply late_covb_sound; exact C].
Qed.

Theorem covered_split s line line' a b :
  TInv s -> covered_at s (a ++ b) -> a <> [] -> b <> [] ->
  exists s1 sa s2,
    process_token (TChars (a ++ b)) line s = Ok SContinue s1 /\
    process_token (TChars a) line s = Ok SContinue sa /\
    process_token (TChars b) line' sa = Ok SContinue s2 /\
    same_core s1 s2 /\ dom_of s1 = dom_of s2 /\ TInv s1 /\ TInv s2.
Proof.
  intros I (Sh & [(Fp & (h & V & Nt) & [Em | [[Em [X A]] | F]]) | (Nf & Ws & evs & app & Wi & Ha)]) Na Nb.
  - apply (text_mode_split_gen s line line' a b h); assumption.
  - apply body_mode_split; [|exact X | exact Na | exact Nb].
    split; [exact I|]. split; [exact Em|]. split; [exact Sh|]. split; [exact Fp|]. split; [exact A|]. exists h. split; assumption.
  - apply foreign_mode_split; [|exact Na | exact Nb].
    split; [exact I|]. split; [exact Sh|]. split; [exact Fp|]. split; [exact F|]. exists h. split; assumption.
  - apply early_mode_split; [|exact Ws | exact Na | exact Nb].
    split; [exact I|]. split; [exact Sh|]. split; [exact Nf|]. exists evs, app. split; [exact Wi | exact Ha].
Qed.

(* ---------- token lists ---------- *)
Inductive splits_cov : st -> list (token * N) -> list (token * N) -> Prop :=
| sc_nil s : splits_cov s [] []
| sc_same s tk l r r' :
    splits r r' ->
    (forall res s1, process_token tk l s = Ok res s1 -> splits_cov s1 r r') ->
    splits_cov s ((tk, l) :: r) ((tk, l) :: r')
| sc_chars s a b l l1 l2 r r' :
    a <> [] -> b <> [] -> splits ((TChars b, l2) :: r) r' ->
    covered_at s (a ++ b) ->
    (forall sa, process_token (TChars a) l1 s = Ok SContinue sa -> splits_cov sa ((TChars b, l2) :: r) r') ->
    splits_cov s ((TChars (a ++ b), l) :: r) ((TChars a, l1) :: r').

Lemma splits_cov_splits s l l' : splits_cov s l l' -> splits l l'.
Proof. intro H. destruct H; [apply splits_nil | apply splits_same; assumption | eapply splits_chars; eassumption]. Qed.

Lemma protocol_next s tk l r res s1 : protocol s ((tk, l) :: r) -> process_token tk l s = Ok res s1 -> protocol s1 r.
Proof. intros (_ & _ & P) E. rewrite E in P. exact P. Qed.

Lemma TInv_next s tk l r res s1 : TInv s -> protocol s ((tk, l) :: r) -> process_token tk l s = Ok res s1 -> TInv s1.
Proof.
  intros I (TO & Sc & _) E. pose proof (process_token_ok s tk l I TO Sc) as W. unfold wps in W. rewrite E in W. exact W.
Qed.

Theorem split_run_gen sR l l' : splits_cov sR l l' ->
  forall sL accL accR, same_core sL sR -> dom_of sL = dom_of sR -> TInv sR -> protocol sR l' ->
  run_sim (run_tokens sL l accL) (run_tokens sR l' accR).
Proof.
  induction 1 as [s | s tk l r r' Sp Hc IH | s a b l l1 l2 r r' Na Nb Sp Cov Hc IH]; intros sL accL accR C D I P.
  - cbn [run_tokens]. split; assumption.
  - cbn [run_tokens]. pose proof (log_irrelevant_holds tk l sL s C D) as H.
    destruct (process_token tk l sL) as [x t | n |], (process_token tk l s) as [x' t' | n' |] eqn:E; try exact H; try contradiction.
    destruct H as (_ & Ct & Dt).
    apply (IH x' t' eq_refl); [exact Ct | exact Dt | exact (TInv_next _ _ _ _ _ _ I P E) | exact (protocol_next _ _ _ _ _ _ P E)].
  - destruct (covered_split s l1 l2 a b I Cov Na Nb) as (s1 & sa & s2 & E1 & Ea & E2 & C12 & D12 & I1 & I2).
    cbn [run_tokens]. rewrite Ea.
    pose proof (process_token_line (TChars (a ++ b)) l l1 sL s C D) as H. rewrite E1 in H.
    destruct (process_token (TChars (a ++ b)) l sL) as [x t | n |]; try contradiction.
    destruct H as (_ & Ct & Dt).
    apply (run_sim_trans _ (run_tokens s2 r (SContinue :: SContinue :: accR))).
    + apply run_tokens_same_core; [unfold same_core in *; congruence | congruence].
    + assert (IHa := IH sa Ea sa (SContinue :: accR) (SContinue :: accR) eq_refl eq_refl
                        (TInv_next _ _ _ _ _ _ I P Ea) (protocol_next _ _ _ _ _ _ P Ea)).
      cbn [run_tokens] in IHa. rewrite E2 in IHa. exact IHa.
Qed.

(* C03, tree-builder side: whole runs *)
Theorem tree_split_run_partial o toks toks' :
  protocol (init_state o) toks' -> splits_cov (init_state o) toks toks' ->
  run_sim (run_tokens (init_state o) toks []) (run_tokens (init_state o) toks' []).
Proof.
  intros P H. apply (split_run_gen _ _ _ H); [reflexivity | reflexivity | apply TInv_init | exact P].
Qed.

(* ---------- a checker for the side condition (sound, not complete: it answers false when the run of toks' stops) ---------- *)
Definition token_eq_dec (a b : token) : {a = b} + {a <> b}.
Proof. repeat decide equality. Defined.

Fixpoint strip_prefix (a x : str) : option str :=
  match a, x with
  | [], _ => Some x
  | c :: a', d :: x' => if N.eqb c d then strip_prefix a' x' else None
  | _ :: _, [] => None
  end.
Lemma strip_prefix_spec a : forall x b, strip_prefix a x = Some b -> x = a ++ b.
Proof.
  induction a as [|c a IH]; intros x b H; simpl in H; [injection H as <-; reflexivity|].
  destruct x as [|d x]; [discriminate|]. destruct (N.eqb c d) eqn:E; [|discriminate].
  apply N.eqb_eq in E. subst d. rewrite (IH x b H). reflexivity.
Qed.

(* the rest of a cut token takes the line number of the next piece *)
Definition next_line (r' : list (token * N)) (d : N) : N := match r' with (_, l) :: _ => l | [] => d end.

Fixpoint splits_covb (s : st) (l l' : list (token * N)) {struct l'} : bool :=
  match l' with
  | [] => match l with [] => true | _ :: _ => false end
  | (tk', l1) :: r' =>
    match l with
    | [] => false
    | (tk, ln) :: r =>
      if token_eq_dec tk tk' then
        N.eqb ln l1 &&
        match process_token tk ln s with Ok _ s1 => splits_covb s1 r r' | _ => false end
      else
        match tk, tk' with
        | TChars x, TChars a =>
          match strip_prefix a x with
          | Some b =>
            negb (is_nil a) && negb (is_nil b) && covered_atb s x &&
            match process_token (TChars a) l1 s with
            | Ok SContinue sa => splits_covb sa ((TChars b, next_line r' ln) :: r) r'
            | _ => false
            end
          | None => false
          end
        | _, _ => false
        end
    end
  end.

Lemma splits_covb_sound l' : forall s l, splits_covb s l l' = true -> splits_cov s l l'.
Proof.
  induction l' as [|[tk' l1] r' IH]; intros s l H; cbn [splits_covb] in H.
  - destruct l; [apply sc_nil | discriminate].
  - destruct l as [|[tk ln] r]; [discriminate|].
    destruct (token_eq_dec tk tk') as [<-|N].
    + apply andb_true_iff in H. destruct H as [El H]. apply N.eqb_eq in El. subst l1.
      destruct (process_token tk ln s) as [res s1 | n |] eqn:E; try discriminate.
      pose proof (IH s1 r H) as C. apply sc_same; [exact (splits_cov_splits _ _ _ C)|].
      intros res' s1' E'. rewrite E in E'. injection E' as <- <-. exact C.
    + destruct tk as [| | | x | | |]; try discriminate. destruct tk' as [| | | a | | |]; try discriminate.
      destruct (strip_prefix a x) as [b|] eqn:Sp; [|discriminate]. apply strip_prefix_spec in Sp. subst x.
      apply andb_true_iff in H. destruct H as [H Hp]. apply andb_true_iff in H. destruct H as [H Hc].
      apply andb_true_iff in H. destruct H as [Ha Hb].
      assert (Na : a <> []) by (destruct a; [discriminate | discriminate]).
      assert (Nb : b <> []) by (destruct b; [discriminate | discriminate]).
      destruct (process_token (TChars a) l1 s) as [res sa | n |] eqn:E; try discriminate.
      destruct res; try discriminate.
      pose proof (IH sa _ Hp) as C.
      apply (sc_chars s a b ln l1 (next_line r' ln) r r' Na Nb (splits_cov_splits _ _ _ C) (covered_atb_sound s _ Hc)).
      intros sa' E'. rewrite E in E'. injection E' as <-. exact C.
Qed.

(* the side condition is satisfiable: <!DOCTYPE html><title>xy</title><p>abc with "xy" cut in "text" mode and "abc" cut
   twice in "in body" *)
Definition ex_split_whole : list (token * N) :=
  [ (TDoctype (Some (nm "html")) None None false, 1%N);
    (TTag StartTag (nm "title") false [] false, 1%N);
    (TChars (nm "xy"), 1%N);
    (TTag EndTag (nm "title") false [] false, 1%N);
    (TTag StartTag (nm "p") false [] false, 1%N);
    (TChars (nm "abc"), 2%N);
    (TEof, 2%N) ].
Definition ex_split_pieces : list (token * N) :=
  [ (TDoctype (Some (nm "html")) None None false, 1%N);
    (TTag StartTag (nm "title") false [] false, 1%N);
    (TChars (nm "x"), 1%N);
    (TChars (nm "y"), 1%N);
    (TTag EndTag (nm "title") false [] false, 1%N);
    (TTag StartTag (nm "p") false [] false, 1%N);
    (TChars (nm "a"), 2%N);
    (TChars (nm "b"), 2%N);
    (TChars (nm "c"), 2%N);
    (TEof, 2%N) ].
Example ex_split_covered : splits_cov (init_state ex_opts) ex_split_whole ex_split_pieces.
Proof. apply splits_covb_sound. vm_compute. reflexivity. Qed.
Example ex_split_same_dom :
  run_sim (run_tokens (init_state ex_opts) ex_split_whole []) (run_tokens (init_state ex_opts) ex_split_pieces []).
Proof. apply tree_split_run_partial; [apply protocol_b_sound; vm_compute; reflexivity | exact ex_split_covered]. Qed.

(* <!DOCTYPE html><table><td>yz<svg>uv with "yz" cut in "in cell" and "uv" cut in foreign content *)
Definition ex_split_whole2 : list (token * N) :=
  [ (TDoctype (Some (nm "html")) None None false, 1%N);
    (TTag StartTag (nm "table") false [] false, 1%N);
    (TTag StartTag (nm "td") false [] false, 1%N);
    (TChars (nm "yz"), 1%N);
    (TTag StartTag (nm "svg") false [] false, 1%N);
    (TChars (nm "uv"), 1%N);
    (TEof, 1%N) ].
Definition ex_split_pieces2 : list (token * N) :=
  [ (TDoctype (Some (nm "html")) None None false, 1%N);
    (TTag StartTag (nm "table") false [] false, 1%N);
    (TTag StartTag (nm "td") false [] false, 1%N);
    (TChars (nm "y"), 1%N);
    (TChars (nm "z"), 1%N);
    (TTag StartTag (nm "svg") false [] false, 1%N);
    (TChars (nm "u"), 1%N);
    (TChars (nm "v"), 1%N);
    (TEof, 1%N) ].
Example ex_split_covered2 : splits_cov (init_state ex_opts) ex_split_whole2 ex_split_pieces2.
Proof. apply splits_covb_sound. vm_compute. reflexivity. Qed.

(* <!DOCTYPE html> LF LF <html> LF SP <head> LF SP </head> LF SP <body>x</body> LF LF </html> LF LF: every run of white space
   between the tags cut in two (before html, before head, in head, after head, after body, after after body) *)
Definition ex_ws : str := [10%N; 32%N].
Definition ex_ws1 : str := [10%N].
Definition ex_ws2 : str := [32%N].
Definition ex_tag (k : tagkind) (n : string) : token * N := (TTag k (nm n) false [] false, 1%N).
Definition ex_split_whole3 : list (token * N) :=
  [ (TDoctype (Some (nm "html")) None None false, 1%N); (TChars ex_ws, 1%N);
    ex_tag StartTag "html"; (TChars ex_ws, 2%N);
    ex_tag StartTag "head"; (TChars ex_ws, 3%N);
    ex_tag EndTag "head"; (TChars ex_ws, 4%N);
    ex_tag StartTag "body"; (TChars (nm "x"), 5%N);
    ex_tag EndTag "body"; (TChars ex_ws, 5%N);
    ex_tag EndTag "html"; (TChars ex_ws, 6%N);
    (TEof, 7%N) ].
Definition ex_split_pieces3 : list (token * N) :=
  [ (TDoctype (Some (nm "html")) None None false, 1%N); (TChars ex_ws1, 1%N); (TChars ex_ws2, 2%N);
    ex_tag StartTag "html"; (TChars ex_ws1, 2%N); (TChars ex_ws2, 3%N);
    ex_tag StartTag "head"; (TChars ex_ws1, 3%N); (TChars ex_ws2, 4%N);
    ex_tag EndTag "head"; (TChars ex_ws1, 4%N); (TChars ex_ws2, 5%N);
    ex_tag StartTag "body"; (TChars (nm "x"), 5%N);
    ex_tag EndTag "body"; (TChars ex_ws1, 5%N); (TChars ex_ws2, 6%N);
    ex_tag EndTag "html"; (TChars ex_ws1, 6%N); (TChars ex_ws2, 7%N);
    (TEof, 7%N) ].
Example ex_split_covered3 : splits_cov (init_state ex_opts) ex_split_whole3 ex_split_pieces3.
Proof. apply splits_covb_sound. vm_compute. reflexivity. Qed.
