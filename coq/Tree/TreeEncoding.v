(* ========================================================================
   TreeEncoding.v - C19 over the tree-builder model: when process_token
   answers with the EncodingIndicator result, for which tokens, with which
   label, and what the sink has seen by then.
   ======================================================================== *)
From Coq Require Import List NArith Bool Arith Lia String.
From HV Require Import Dom.DomSpec Tree.TreeTypes Tree.TreeTables Tree.TreeModelHelpers Tree.TreeModelRules
  Tree.TreeModel Tree.TreeHoare Tree.TreeInvBasic Tree.TreeInvDefs Tree.TreeInvSetters Tree.TreeInvPrims
  Tree.TreeInvHelpers Tree.TreeInvAAA Tree.TreeInvDispatch Tree.TreeInvRules Tree.TreeInvHead Tree.TreeInvBody
  Tree.TreeInvLevels Tree.TreeInvModes Tree.TreeInvMain.
From HV Require Meta.MetaSpec.
Import ListNotations.
Open Scope string_scope.
Open Scope list_scope.
Notation length := List.length (only parsing).

(* ---------- the label is the one of property C19 (coq/Meta/MetaSpec.meta_label_spec) ---------- *)
Lemma str_eqb_meta a b : MetaSpec.str_eqb a b = DomSpec.str_eqb a b.
Proof. reflexivity. Qed.

Lemma get_attribute_conv k name sc attrs dup n :
  get_attribute (tag_of_token k name sc attrs dup) n = MetaSpec.attribute attrs n.
Proof.
  unfold get_attribute, tag_of_token, conv_attrs. cbn [tg_attrs].
  induction attrs as [|[a v] t IH]; simpl; [reflexivity|].
  unfold attr_is at 1. cbn [d_name q_ns q_local qn_plain fst snd].
  change (str_eqb ns_none ns_none) with true. cbn [andb].
  change (MetaSpec.str_eqb a n) with (str_eqb a n).
  destruct (str_eqb a n); [reflexivity | exact IH].
Qed.

Lemma ci_match_model : forall a b, eq_ignore_ascii_case a b = MetaSpec.ci_match a b.
Proof. reflexivity. Qed.

Theorem model_label_is_meta_label_spec k name sc attrs dup :
  model_label (tag_of_token k name sc attrs dup) = MetaSpec.meta_label_spec attrs.
Proof.
  unfold model_label, MetaSpec.meta_label_spec. rewrite !get_attribute_conv.
  change (nm "charset") with MetaSpec.word_charset. change (nm "http-equiv") with MetaSpec.w_http_equiv.
  change (nm "content") with MetaSpec.w_content. change (nm "content-type") with MetaSpec.w_content_type.
  destruct (MetaSpec.attribute attrs MetaSpec.word_charset); [reflexivity|].
  destruct (MetaSpec.attribute attrs MetaSpec.w_http_equiv) as [h|]; [|reflexivity].
  rewrite ci_match_model. destruct (MetaSpec.attribute attrs MetaSpec.w_content); [reflexivity|].
  destruct (MetaSpec.ci_match h MetaSpec.w_content_type); reflexivity.
Qed.

(* ---------- (a) soundness ---------- *)
(* what the sink has seen when the indicator is returned: the creation of an HTML element with the tag's name and
   attributes, its insertion, and since then nothing that is another indicator *)
Definition meta_in_tree (s' : st) (name : str) (attrs : list dattr) : Prop :=
  exists post k h ins mid tm ip dup older,
    out s' = post ++ EvArm 30 k :: EvOp ins :: mid ++ EvOp (OpCreateElement h (qn_elem ns_html name) attrs tm ip dup) :: older /\
    inserts ins (inl h) /\ forallb (fun ev => negb (is_enc_probe ev)) post = true /\ (k = 49 \/ k = 50).

Theorem indicator_sound s tk line :
  TInv s -> token_ok s tk -> scalar_token tk ->
  match process_token tk line s with
  | Ok (SEncoding l) s' =>
    exists name sc attrs dup,
      tk = TTag StartTag name sc attrs dup /\
      (* handled by the charset / http-equiv arm of the "in head" rules, whatever the current mode *)
      first_match heads_in_head (KTag (tag_of_token StartTag name sc attrs dup)) = 4 /\
      (dev_on s' 7 = false -> name = nm "meta") /\
      MetaSpec.meta_label_spec attrs = Some l /\
      meta_in_tree s' name (conv_attrs attrs) /\ TInv s'
  | Ok _ s' => TInv s'
  | Panic n => n = shape_site
  | OutOfFuel => True
  end.
Proof.
  intros I TO Sc. pose proof (process_token_enc_ok s tk line I TO Sc) as W. unfold wps in W.
  destruct (process_token tk line s) as [res s' | n |]; [|exact W | exact Logic.I].
  destruct W as [I' En]. destruct res; try exact I'.
  destruct (En l eq_refl) as (k & name & sc & attrs & dup & -> & (g & Eg & Kg & Hm & Ml) & Et).
  injection Eg as <-. cbn [tg_kind tag_of_token] in Kg. subst k.
  exists name, sc, attrs, dup. split; [reflexivity|].
  destruct Et as (post & kk & h & nm0 & at0 & -> & -> & (older & Eo & ins & mid & tm & ip & dup' & older' & -> & Ins) & Fp & Kk & Dm).
  split.
  { assert (X : forallb (lands heads_in_head [4]) (nth 4 heads_in_head []) = true) by reflexivity.
    destruct (lands_sound _ _ _ _ X Hm) as [Y|[]]. symmetry. exact Y. }
  split; [exact Dm|]. split; [rewrite <- model_label_is_meta_label_spec with (k := StartTag) (name := name) (sc := sc) (dup := dup); exact Ml|].
  split; [|exact I'].
  exists post, kk, h, ins, mid, tm, ip, dup', older'. split; [exact Eo | split; [exact Ins | split; [exact Fp | exact Kk]]].
Qed.

(* for all tokens of a run *)
Fixpoint indicators_sound (s : st) (toks : list (token * N)) : Prop :=
  match toks with
  | [] => True
  | (tk, line) :: r =>
    match process_token tk line s with
    | Ok res s' =>
      (forall l, res = SEncoding l ->
         exists name sc attrs dup, tk = TTag StartTag name sc attrs dup /\
           first_match heads_in_head (KTag (tag_of_token StartTag name sc attrs dup)) = 4 /\
           (dev_on s' 7 = false -> name = nm "meta") /\ MetaSpec.meta_label_spec attrs = Some l /\
           meta_in_tree s' name (conv_attrs attrs)) /\
      indicators_sound s' r
    | _ => True
    end
  end.

Theorem indicator_sound_run : forall toks s, TInv s -> protocol s toks -> indicators_sound s toks.
Proof.
  induction toks as [|[tk line] r IH]; intros s I P; simpl; [exact Logic.I|].
  destruct P as (TO & Sc & P). pose proof (indicator_sound s tk line I TO Sc) as H.
  destruct (process_token tk line s) as [res s' | n |]; [|exact Logic.I | exact Logic.I].
  assert (I' : TInv s') by (destruct res; try exact H; destruct H as (? & ? & ? & ? & _ & _ & _ & _ & _ & X); exact X).
  split; [|apply IH; assumption].
  intros l ->. destruct H as (name & sc & attrs & dup & A & B & C & D & E & _). exists name, sc, attrs, dup. tauto.
Qed.

(* ---------- (b) completeness: the arm yields the indicator whenever there is a label ---------- *)
Theorem in_head_meta_arm_complete (in_body : body) s g l :
  TInv s -> late s -> scalar_tag g ->
  first_match heads_in_head (KTag g) = 4 ->
  (dev_on s 7 || is_n (tg_name g) "meta") = true ->
  model_label g = Some l ->
  wp (step_in_head_gen in_body (KTag g)) (fun r s' => r = PEncoding l /\ TInv s') s.
Proof.
  intros I L Sc E Dm Ml. unfold step_in_head_gen.
  eapply (wp_arm_dispatch_at _ _ _ _ 4); [exact E | reflexivity |].
  set (s1 := set_out _ s). assert (K1 : keeps s1 s1) by (apply keeps_refl; apply TInv_arm; exact I).
  cbn [tk_tag]. rewrite wp_bind. unfold insert_and_pop_element_for.
  eapply (wp_insert_element_gen s1); [exact K1 | exact L |].
  intros h s2 K2 _ _ _ _. cbv iota. rewrite wp_bind, wp_get.
  assert (D2 : dev_on s2 7 = dev_on s 7) by (unfold dev_on; rewrite (st_opts _ _ (proj2 K2)); reflexivity).
  unfold tname. cbn [tk_tag]. rewrite D2, Dm.
  eapply (wp_meta_like_result_out s1); [exact K2 | exact Sc |].
  intros r s3 K3 [(_ & Mn & _)|(l' & k & -> & Ml' & _)]; [rewrite Ml in Mn; discriminate Mn|].
  rewrite Ml in Ml'. injection Ml' as <-. split; [reflexivity | exact (keeps_TInv _ _ K3)].
Qed.
(* ... and nothing else when there is none *)
Theorem in_head_meta_arm_silent (in_body : body) s g :
  TInv s -> late s -> scalar_tag g ->
  first_match heads_in_head (KTag g) = 4 -> model_label g = None ->
  wp (step_in_head_gen in_body (KTag g)) (fun r s' => r = DoneAckSelfClosing /\ TInv s') s.
Proof.
  intros I L Sc E Mn. unfold step_in_head_gen.
  eapply (wp_arm_dispatch_at _ _ _ _ 4); [exact E | reflexivity |].
  set (s1 := set_out _ s). assert (K1 : keeps s1 s1) by (apply keeps_refl; apply TInv_arm; exact I).
  cbn [tk_tag]. rewrite wp_bind. unfold insert_and_pop_element_for.
  eapply (wp_insert_element_gen s1); [exact K1 | exact L |].
  intros h s2 K2 _ _ _ _. cbv iota. rewrite wp_bind, wp_get.
  destruct (dev_on s2 7 || is_n (tname (KTag g)) "meta").
  - eapply (wp_meta_like_result_out s1); [exact K2 | exact Sc |].
    intros r s3 K3 [(-> & _)|(l' & k & _ & Ml' & _)]; [split; [reflexivity | exact (keeps_TInv _ _ K3)]|].
    rewrite Mn in Ml'. discriminate Ml'.
  - rewrite wp_ret. split; [reflexivity | exact (keeps_TInv _ _ K2)].
Qed.

(* which arm of which insertion mode a `meta` start tag selects (vm_compute over the dispatch tables regenerated
   from rules.rs); what those arms do, in the model:
     Initial 3, BeforeHtml 6, BeforeHead 7, AfterBody 6, AfterAfterBody 5 : "anything else" - Reprocess in the
        next mode (ends in InHead / InBody);
     InHead 4 : the meta arm itself;  InHeadNoscript 5, InBody 4, InTemplate 2 : delegate to the "in head" rules;
     AfterHead 6 : push the head element back, "in head" rules, remove it again;
     InTable 14, InTableBody 5, InRow 5 : "anything else" of "in table" - foster-parented "in body" rules (-> in head);
     InCaption 2, InCell 4 : "in body" rules (-> in head);  InTableText 2 : flush the pending text, Reprocess;
     InColumnGroup 9 : pop the colgroup and Reprocess in "in table", or ignore the token;
     InFrameset 9, AfterFrameset 7, AfterAfterFrameset 6 : parse error, token IGNORED - no element, no indicator;
     Text 3 : cannot occur (the tokenizer does not deliver start tags in "text" mode; Panic site 42);
     foreign content 3 : meta is a break-out tag - pop to an HTML element / integration point, then the current mode. *)
Definition meta_start : tok := rep_tag StartTag (nm "meta").
Theorem meta_dispatch_table :
  map (fun hs => first_match hs meta_start)
    [heads_initial; heads_before_html; heads_before_head; heads_in_head; heads_in_head_noscript; heads_after_head;
     heads_in_body; heads_text; heads_in_table; heads_in_table_text; heads_in_caption; heads_in_column_group;
     heads_in_table_body; heads_in_row; heads_in_cell; heads_in_template; heads_after_body; heads_in_frameset;
     heads_after_frameset; heads_after_after_body; heads_after_after_frameset; heads_foreign]
  = [3; 6; 7; 4; 5; 6; 4; 3; 14; 2; 2; 9; 5; 5; 4; 2; 6; 9; 7; 5; 6; 3].
Proof. vm_compute. reflexivity. Qed.

(* the three modes in which a meta start tag is dropped: one parse error, result Done, nothing else *)
Theorem meta_ignored_in_frameset_modes s g :
  tg_kind g = StartTag -> tg_name g = nm "meta" ->
  (mode s = InFrameset \/ mode s = AfterFrameset \/ mode s = AfterAfterFrameset) ->
  exists k, step (mode s) (KTag g) s =
            Ok Done (set_out (EvOp OpParseError :: EvArm (mode_id (mode s)) k :: out s) s).
Proof.
  intros Kg Ng M.
  assert (E : forall hs, first_match hs (KTag g) = first_match hs meta_start).
  { intro hs. rewrite first_match_tag_ext, Kg, Ng. reflexivity. }
  destruct M as [M|[M|M]]; rewrite M; cbn [step];
    [exists 9; unfold step_in_frameset | exists 7; unfold step_after_frameset | exists 6; unfold step_after_after_frameset];
    unfold arm_dispatch; cbv zeta; rewrite E;
    match goal with |- context [first_match ?hs meta_start] =>
      let v := eval vm_compute in (first_match hs meta_start) in change (first_match hs meta_start) with v end;
    reflexivity.
Qed.

(* ---------- (c) transparency ---------- *)
(* computing the indicator touches nothing but the coverage log: the builder state after an EncodingIndicator is,
   up to one coverage marker (pseudo-arm 30.49 / 30.50, not a sink call), the state the same token leaves when
   it declares no encoding; and process_to_completion returns the PEncoding / DoneAckSelfClosing result without a
   further state change (TreeModel.ptc_iter: `ret (inl (SEncoding e))` / `ret (inl SContinue)` with an empty
   queue, which is the case for a tag token).  Whether the driver acts on the indicator cannot influence the tree
   builder: the result is only a return value. *)
Theorem meta_like_result_transparent t s : scalar_tag t ->
  exists r, (meta_like_result t s = Ok r s /\ r = DoneAckSelfClosing) \/
            (exists k l, meta_like_result t s = Ok (PEncoding l) (set_out (EvArm 30 k :: out s) s) /\ r = PEncoding l).
Proof.
  intro Sc. unfold meta_like_result.
  destruct (get_attribute t (nm "charset")) as [cs|].
  { exists (PEncoding cs). right. exists 49, cs. split; reflexivity. }
  destruct (match get_attribute t (nm "http-equiv") with Some v => _ | None => false end);
    [|exists DoneAckSelfClosing; left; split; reflexivity].
  destruct (get_attribute t (nm "content")) as [c|] eqn:Ec; [|exists DoneAckSelfClosing; left; split; reflexivity].
  assert (Scc : Utf8.scalars c) by (eapply get_attribute_scalars; eassumption).
  assert (X : extract_encoding c s = Ok (MetaSpec.extract_spec c) s).
  { pose proof (wp_extract_encoding s c (fun r s' => r = MetaSpec.extract_spec c /\ s' = s) Scc (conj eq_refl eq_refl)) as W.
    unfold wp in W. destruct (extract_encoding c s) as [a s'| |]; try contradiction. destruct W as [-> ->]. reflexivity. }
  destruct (MetaSpec.extract_spec c) as [e|].
  - exists (PEncoding e). right. exists 50, e. split; [unfold bind; rewrite X; reflexivity | reflexivity].
  - exists DoneAckSelfClosing. left. split; [unfold bind; rewrite X; reflexivity | reflexivity].
Qed.

(* ---------- non-vacuity ---------- *)
(* <meta charset=x> as the first token of a document, <svg><meta charset=x>, and <frameset> then <meta charset=x>:
   an indicator with label x in the first two cases (in foreign content the tag breaks out), none in the third *)
Definition meta_tok : token := TTag StartTag (nm "meta") false [(nm "charset", nm "x")] false.
Example ex_indicator :
  match run_tokens (init_state ex_opts) [(meta_tok, 1%N)] [] with
  | RunOk _ res => res = [SEncoding (nm "x")] | _ => False end /\
  match run_tokens (init_state ex_opts) [(TTag StartTag (nm "svg") false [] false, 1%N); (meta_tok, 1%N)] [] with
  | RunOk _ res => res = [SContinue; SEncoding (nm "x")] | _ => False end /\
  match run_tokens (init_state ex_opts) [(TTag StartTag (nm "frameset") false [] false, 1%N); (meta_tok, 1%N)] [] with
  | RunOk _ res => res = [SContinue; SContinue] | _ => False end.
Proof. vm_compute. repeat split. Qed.
