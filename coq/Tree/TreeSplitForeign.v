(* ========================================================================
   TreeSplitForeign.v - C03, tree-builder side, character tokens handled by the foreign-content rules
   (rules.rs:1615, arm 1 of step_foreign): frameset_ok := false when the text holds a non-white-space character;
   append the text at the appropriate place.  NUL characters are separate tokens (TNull), not part of TChars.

   PROVED
     * [is_foreign_chars_val]: for a character token the test of process_to_completion (is the token handled by the
       foreign rules?) is a pure function [foreignb] of the adjusted current node.
     * [ptc_foreign]: the closed form of a character token that is handled by the foreign rules.
     * [foreign_mode_split]: TChars (a ++ b) against TChars a followed by TChars b: same answers, same core, same
       DOM.  Any insertion mode; hypotheses: TInv, the shape assumption of the mode, foster parenting off, the
       adjusted current node is foreign for character tokens, the current node is not a template element
       (it cannot be: it is not an HTML element unless the fragment context is the foreign one).
   ======================================================================== *)
From Coq Require Import List NArith Bool Arith Lia String.
From HV Require Import Dom.DomSpec Dom.DomLemmas SinkSpec.Contract SinkSpec.ContractProofs.
From HV Require Import Tree.TreeTypes Tree.TreeTables Tree.TreeModelHelpers Tree.TreeModelRules Tree.TreeModel
  Tree.TreeHoare Tree.TreeInvBasic Tree.TreeInvDefs Tree.TreeInvSetters Tree.TreeInvPrims Tree.TreeInvHelpers Tree.TreeInvDispatch
  Tree.TreeInvRules Tree.TreeInvModes Tree.TreeInvMain Tree.TreeContract Tree.TreeSkeleton Tree.TreeContractRun
  Tree.TreeFrame Tree.TreeSplit Tree.TreeSplitBody.
Import ListNotations.
Open Scope string_scope.
Open Scope list_scope.
Notation length := List.length (only parsing).

(* ---------- the foreign test on character tokens ---------- *)
Definition adjusted_node (s : st) : option handle :=
  match open_elems s, context_elem s with
  | [_], Some ctx => Some ctx
  | l, _ => vlast l
  end.

Definition foreignb (s : st) (h : handle) : bool :=
  let name := ename_of s h in
  if str_eqb (fst name) ns_html then false
  else if in_set mathml_text_integration_point name then false
  else if in_set svg_html_integration_point name then false
  else if ename_eqb name (ns_mathml, nm "annotation-xml") then negb (is_mathml_ip s h)
  else true.

Lemma adjusted_current_node_val s h : adjusted_node s = Some h -> adjusted_current_node s = Ok h s.
Proof.
  unfold adjusted_node, adjusted_current_node, bind, get, current_node, unwrap.
  destruct (open_elems s) as [|a [|b l]] eqn:E.
  - discriminate.
  - destruct (context_elem s); [intro H; injection H as <-; reflexivity|].
    unfold bind, get. rewrite E. intros ->. reflexivity.
  - destruct (context_elem s); unfold bind, get; rewrite E; intros ->; reflexivity.
Qed.

Lemma is_foreign_chars_val s sp x h : adjusted_node s = Some h -> is_foreign (KChars sp x) s = Ok (foreignb s h) s.
Proof.
  intro A. unfold is_foreign, bind, get.
  destruct (open_elems s) as [|a l] eqn:E; [unfold adjusted_node in A; rewrite E in A; discriminate|].
  rewrite (adjusted_current_node_val s h A). unfold foreignb. cbn [is_chars_or_null is_start_tag orb andb].
  destruct (str_eqb (fst (ename_of s h)) ns_html); [reflexivity|].
  destruct (in_set mathml_text_integration_point (ename_of s h)); [reflexivity|].
  destruct (in_set svg_html_integration_point (ename_of s h)); [reflexivity|].
  destruct (ename_eqb (ename_of s h) (ns_mathml, nm "annotation-xml")); reflexivity.
Qed.

(* ---------- closed form ---------- *)
Definition foreignhyp (s : st) : Prop :=
  TInv s /\ Hshape s /\ foster_parenting s = false /\
  (exists h, adjusted_node s = Some h /\ foreignb s h = true) /\
  exists t, vlast (open_elems s) = Some t /\ named s t "template" = false.

Definition farm_state (s : st) : st := set_out (EvArm foreign_id 1 :: out s) s.

Lemma first_match_foreign_chars sp x : first_match heads_foreign (KChars sp x) = 1.
Proof. rewrite (first_match_chars_ext _ sp x []). destruct sp; reflexivity. Qed.

Lemma ptc_foreign s x h target :
  Hshape s -> adjusted_node s = Some h -> foreignb s h = true ->
  foster_parenting s = false -> vlast (open_elems s) = Some target -> named s target "template" = false ->
  process_to_completion (KChars NotSplit x) s = Ok SContinue (body_fin x (farm_state s) target).
Proof.
  intros Sh A Fb Fp V Nt.
  unfold process_to_completion. unfold bind at 1. unfold get.
  unfold ptc_fuel. change (64 + 4 * length (tk_text (KChars NotSplit x)) + 4 * length (open_elems s) + 4 * length (template_modes s))
    with (S (63 + 4 * length (tk_text (KChars NotSplit x)) + 4 * length (open_elems s) + 4 * length (template_modes s))).
  cbn [ptc_loop]. unfold ptc_iter. cbv zeta.
  unfold bind at 1. unfold bind at 1. rewrite (shape_check_ok s Sh).
  unfold bind at 1. rewrite (is_foreign_chars_val s NotSplit x h A), Fb.
  unfold bind at 1. unfold step_foreign, arm_dispatch. cbv zeta. rewrite first_match_foreign_chars.
  unfold bind at 1. unfold log_arm, modify. cbn [nth bodies_foreign]. cbn [tk_text]. fold (farm_state s).
  rewrite (body_tail_eq (farm_state s) x target Fp V Nt). reflexivity.
Qed.

Lemma foreignhyp_prelude s line x : foreignhyp s -> foreignhyp (prelude_state s line x) /\ ignore_lf (prelude_state s line x) = false.
Proof.
  intros (I & Sh & Fp & A & Nt).
  destruct (prelude_state_ok s line x I Sh) as [I' Sh'].
  revert I' Sh'. apply prelude_state_cases. intros evs I' Sh'. split; [|reflexivity].
  split; [exact I'|]. split; [exact Sh'|]. split; [exact Fp|]. split; [exact A | exact Nt].
Qed.

Lemma foreign_closed q : foreignhyp q ->
  exists target, vlast (open_elems q) = Some target /\ named q target "template" = false /\
    forall x, process_to_completion (KChars NotSplit x) q = Ok SContinue (body_fin x (farm_state q) target).
Proof.
  intros (I & Sh & Fp & (h & A & Fb) & (t & V & Nt)). exists t. split; [exact V|]. split; [exact Nt|].
  intro x. apply (ptc_foreign q x h t); assumption.
Qed.

(* ---------- the second piece ---------- *)
Definition fsecond_state (a b : str) (q : st) (target : handle) (line' : N) : st :=
  body_fin b (farm_state (prelude_state (body_fin a (farm_state q) target) line' b)) target.

Lemma fsecond_state_core a b q target line' : ignore_lf q = false ->
  same_core (body_fin (a ++ b) (farm_state q) target) (fsecond_state a b q target line').
Proof.
  intro Il. unfold fsecond_state.
  apply (prelude_state_cases (body_fin a (farm_state q) target) line' b
           (fun p => same_core (body_fin (a ++ b) (farm_state q) target) (body_fin b (farm_state p) target))).
  intro evs. unfold same_core, body_fin, farm_state. rewrite any_not_whitespace_app.
  destruct q as [o m om tm ptt qm oe af he fe ce fo il fp v ou]. cbn [ignore_lf] in Il. subst il.
  destruct (any_not_whitespace a), (any_not_whitespace b); reflexivity.
Qed.

Lemma dom_farm_state s : dom_of (farm_state s) = dom_of s.
Proof. unfold dom_of, farm_state. cbn [out set_out]. rewrite chron_cons, run_from_app. simpl. reflexivity. Qed.

Lemma fsecond_state_dom a b q target line' :
  dom_of (fsecond_state a b q target line') =
  DomSpec.apply (DomSpec.apply (dom_of q) (OpAppend target (inr a))) (OpAppend target (inr b)).
Proof.
  unfold fsecond_state. rewrite dom_body_fin. f_equal.
  rewrite dom_farm_state, dom_prelude_state, dom_body_fin, dom_farm_state. reflexivity.
Qed.

Lemma foreignhyp_body_fin a q target : foreignhyp q -> TInv (body_fin a (farm_state q) target) ->
  foreignhyp (body_fin a (farm_state q) target).
Proof.
  intros (I & Sh & Fp & A & Nt) I'. unfold body_fin, farm_state in *.
  destruct (any_not_whitespace a); (split; [exact I'|]); (split; [|split; [exact Fp | split; [exact A | exact Nt]]]).
  - apply Hshape_set_out. unfold Hshape. rewrite hshape_b_set_frameset_ok. apply Hshape_set_out. exact Sh.
  - apply Hshape_set_out. apply Hshape_set_out. exact Sh.
Qed.

Theorem foreign_mode_split s line line' a b :
  foreignhyp s -> a <> [] -> b <> [] ->
  exists s1 sa s2,
    process_token (TChars (a ++ b)) line s = Ok SContinue s1 /\
    process_token (TChars a) line s = Ok SContinue sa /\
    process_token (TChars b) line' sa = Ok SContinue s2 /\
    same_core s1 s2 /\ dom_of s1 = dom_of s2 /\ TInv s1 /\ TInv s2.
Proof.
  intros Hs Na Nb. pose proof Hs as (I & _).
  destruct (foreignhyp_prelude s line a Hs) as [Hp Ilp]. set (p := prelude_state s line a) in *.
  destruct (foreign_closed p Hp) as (target & V & Nt & G). pose proof Hp as (Ip & _).
  assert (Core : exists s1 sa s2,
    process_token (TChars (a ++ b)) line s = Ok SContinue s1 /\
    process_token (TChars a) line s = Ok SContinue sa /\
    process_token (TChars b) line' sa = Ok SContinue s2 /\
    same_core s1 s2 /\ dom_of s1 = dom_of s2).
  2:{ destruct Core as (s1 & sa & s2 & E1 & Ea & E2 & C & D). exists s1, sa, s2.
      repeat (split; [assumption|]). split.
      - exact (TInv_after_chars _ _ _ _ _ I E1).
      - exact (TInv_after_chars _ _ _ _ _ (TInv_after_chars _ _ _ _ _ I Ea) E2). }
  destruct b as [|cb rb]; [contradiction|].
  rewrite !process_token_chars, (strip_lf_app _ a _ Na), (prelude_state_app _ _ a _ Na). fold p.
  destruct (strip_lf (ignore_lf s) a) as [|c r'] eqn:Ea.
  - (* the first piece is a line feed that is dropped *)
    cbn [app]. exists (body_fin (cb :: rb) (farm_state p) target), p.
    rewrite process_token_chars, Ilp, strip_lf_false.
    destruct (foreignhyp_prelude p line' (cb :: rb) Hp) as [Hp2 _]. set (p2 := prelude_state p line' (cb :: rb)) in *.
    destruct (foreign_closed p2 Hp2) as (target2 & V2 & _ & G2).
    assert (Et : target2 = target).
    { revert V2. unfold p2. apply (prelude_state_cases p line' (cb :: rb)). intros evs V2.
      cbn [open_elems set_out set_ignore_lf] in V2. congruence. }
    subst target2. exists (body_fin (cb :: rb) (farm_state p2) target).
    split; [apply G|]. split; [reflexivity|]. split; [apply G2|].
    split.
    + apply same_core_body_fin. unfold p2. apply (prelude_state_cases p line' (cb :: rb)). intro evs.
      unfold same_core, farm_state.
      destruct p as [o m om tm ptt qm oe af he fe ce fo il fp v ou]. cbn [ignore_lf] in Ilp. subst il. reflexivity.
    + rewrite !dom_body_fin, !dom_farm_state. unfold p2. rewrite dom_prelude_state. reflexivity.
  - (* the general case *)
    cbn [app]. change (c :: r' ++ cb :: rb) with ((c :: r') ++ (cb :: rb)).
    set (a' := c :: r') in *. set (b := cb :: rb) in *.
    set (sa := body_fin a' (farm_state p) target).
    exists (body_fin (a' ++ b) (farm_state p) target), sa, (fsecond_state a' b p target line').
    split; [apply G|]. split; [apply G|].
    assert (Isa : TInv sa).
    { apply (TInv_after_chars s line a SContinue sa I). rewrite process_token_chars, Ea. apply G. }
    pose proof (foreignhyp_body_fin a' p target Hp Isa) as Hsa. fold sa in Hsa.
    assert (Ilsa : ignore_lf sa = false) by (unfold sa, body_fin; destruct (any_not_whitespace a'); exact Ilp).
    destruct (foreignhyp_prelude sa line' b Hsa) as [Hp2 _]. set (p2 := prelude_state sa line' b) in *.
    destruct (foreign_closed p2 Hp2) as (target2 & V2 & _ & G2).
    assert (Et : target2 = target).
    { revert V2. unfold p2. apply (prelude_state_cases sa line' b). intros evs V2.
      unfold sa, body_fin in V2. destruct (any_not_whitespace a'); cbn [open_elems set_out set_ignore_lf set_frameset_ok farm_state] in V2; congruence. }
    subst target2.
    split.
    { rewrite process_token_chars, Ilsa, strip_lf_false. unfold b at 1. fold b. fold p2.
      unfold fsecond_state. fold sa. fold p2. apply G2. }
    split; [apply fsecond_state_core; exact Ilp|].
    rewrite fsecond_state_dom, dom_body_fin, dom_farm_state. symmetry. apply apply_append_text_twice.
    intros n Rn. exact (sim_bound _ _ (TInv_sim p Ip) target n Rn).
Qed.

Theorem foreign_mode_split_explicit s line line' a b h target :
  TInv s -> Hshape s -> foster_parenting s = false ->
  adjusted_node s = Some h -> foreignb s h = true ->
  vlast (open_elems s) = Some target -> is_template_node s target = false ->
  a <> [] -> b <> [] ->
  exists s1 sa s2,
    process_token (TChars (a ++ b)) line s = Ok SContinue s1 /\
    process_token (TChars a) line s = Ok SContinue sa /\
    process_token (TChars b) line' sa = Ok SContinue s2 /\
    same_core s1 s2 /\ dom_of s1 = dom_of s2 /\ TInv s1 /\ TInv s2.
Proof.
  intros I Sh Fp A Fb V Nt Na Nb. apply foreign_mode_split; [|exact Na | exact Nb].
  split; [exact I|]. split; [exact Sh|]. split; [exact Fp|]. split; [exists h; split; assumption|]. exists target. split; assumption.
Qed.
