(* ========================================================================
   TreeInvModes.v - the remaining insertion modes: every arm preserves [TInv]
   and reaches no Panic site (under the shape assumption where needed).
   ======================================================================== *)
From Coq Require Import List NArith Bool Arith Lia String.
From HV Require Import Dom.DomSpec Tree.TreeTypes Tree.TreeTables Tree.TreeModelHelpers Tree.TreeModelRules
  Tree.TreeModel Tree.TreeHoare Tree.TreeInvBasic Tree.TreeInvDefs Tree.TreeInvSetters Tree.TreeInvPrims
  Tree.TreeInvHelpers Tree.TreeInvAAA Tree.TreeInvDispatch Tree.TreeInvRules Tree.TreeInvHead Tree.TreeInvBody
  Tree.TreeInvLevels.
Import ListNotations.
Open Scope string_scope.
Open Scope list_scope.
Notation length := List.length (only parsing).

(* ---------- more state-change lemmas ---------- *)
Lemma TInvR_core_eq r s s' : core_eq s s' -> TInvR r s -> TInvR r s'.
Proof.
  intros C H. destruct r; simpl in *; try (eapply TInv_core_eq; eassumption); try exact H.
  destruct H as [H N]. split; [|exact N]. eapply TInv_core_eq; [|exact H].
  destruct C as (A1&A2&A3&A4&A5&A6&A7&A8&A9&A10). repeat split; simpl; assumption.
Qed.

(* leaving Text / InTableText for the saved mode *)
Lemma TInv_leave_saving s om :
  TInv s -> late s -> orig_mode s = Some om -> pending_table_text s = [] ->
  TInv (set_mode om (set_orig_mode None s)).
Proof.
  intros I L Eo Ep. pose proof I as [I1 I2 I3 I4 I5 I6 I7 I8 I9 I10 I11].
  unfold orig_ok in I4. rewrite Eo in I4. destruct I4 as (Sv & Som & Eom).
  constructor; try assumption.
  - unfold root_ok in *. cbn [mode open_elems set_mode set_orig_mode]. rewrite Eom.
    change (ename_of (set_mode om (set_orig_mode None s))) with (ename_of s).
    unfold late in L. rewrite L in I3. exact I3.
  - unfold pending_ok. cbn. intros _. exact Ep.
  - unfold head_ok in *. cbn [mode orig_mode head_elem set_mode set_orig_mode]. intros [A|(m & E & _)]; [|discriminate].
    apply I8. right. exists om. split; assumption.
Qed.

(* entering InTableText *)
Lemma TInv_enter_table_text s :
  TInv s -> late s -> saving_mode (mode s) = false ->
  TInv (set_mode InTableText (set_orig_mode (Some (mode s)) s)).
Proof.
  intros I L N. pose proof I as [I1 I2 I3 I4 I5 I6 I7 I8 I9 I10 I11]. constructor; try assumption.
  - unfold root_ok in *. cbn [mode open_elems set_mode set_orig_mode]. cbn [early_mode].
    change (ename_of (set_mode InTableText (set_orig_mode (Some (mode s)) s))) with (ename_of s).
    unfold late in L. rewrite L in I3. exact I3.
  - unfold orig_ok. cbn. split; [reflexivity | split; [exact N | exact L]].
  - unfold pending_ok. cbn. intro X. exfalso. apply X. reflexivity.
  - unfold head_ok in *. cbn [mode orig_mode head_elem set_mode set_orig_mode]. intros [A|(m & E & Hm)]; [discriminate|].
    injection E as <-. apply I8. left. exact Hm.
Qed.

(* pushing a known element that is not a template; a head only if the head pointer is set *)
Lemma TInv_push_gen s h :
  TInv s -> late s -> known s h ->
  (ename_of s h = (ns_html, nm "head") -> head_elem s <> None) -> ename_of s h <> (ns_html, nm "template") ->
  TInv (set_open_elems (vpush (open_elems s) h) s).
Proof.
  intros I L K NH NT. pose proof I as [I1 I2 I3 I4 I5 I6 I7 I8 I9 I10 I11].
  destruct (TInv_stack_nonempty _ I L) as (r & rest & E & N).
  apply TInv_set_stack; try assumption.
  - rewrite E. unfold vpush. simpl. eauto.
  - destruct I2 as [A _]. unfold handles_of in A. inversion A as [|x l _ A1]; subst.
    apply Forall_app in A1. destruct A1 as [A1 _]. unfold vpush. apply Forall_app. split; [exact A1 | constructor; [exact K | constructor]].
  - unfold tm_ok, tcount in I7. unfold tcount_of, vpush. rewrite filter_length_app. cbn [filter].
    assert (Ht : is_template s h = false).
    { unfold is_template, html_elem_named_b. destruct (ename_eqb (ename_of s h) (ns_html, nm "template")) eqn:Eq; [|reflexivity].
      apply ename_eqb_eq in Eq. contradiction. }
    rewrite Ht. cbn [List.length]. lia.
  - intros (x & A & B). unfold vpush in A. apply in_app_or in A. destruct A as [A|[<-|[]]].
    + apply I9. exists x. split; assumption.
    + apply NH. exact B.
Qed.

(* a head element was inserted and becomes the head pointer *)
Lemma TInv_set_head_elem s h :
  TInv s -> known s h -> ename_of s h = (ns_html, nm "head") -> TInv (set_head_elem (Some h) s).
Proof.
  intros [I1 I2 I3 I4 I5 I6 I7 I8 I9 I10 I11] K N. constructor; try assumption.
  - destruct I2 as [A B]. split; [|exact B]. unfold handles_of in *. cbn [open_elems active_formatting head_elem form_elem context_elem set_head_elem].
    inversion A as [|x l A0 A1]; subst. constructor; [exact A0|].
    apply Forall_app in A1. destruct A1 as [A1 A2]. apply Forall_app in A2. destruct A2 as [A2 A3].
    apply Forall_app in A3. destruct A3 as [_ A4].
    apply Forall_app; split; [exact A1|]. apply Forall_app; split; [exact A2|].
    apply Forall_app; split; [constructor; [exact K | constructor] | exact A4].
  - unfold head_ok. cbn. intros _. discriminate.
  - unfold headstack_ok. cbn. intros _. discriminate.
  - destruct I10 as [A B]. split; [|exact B]. cbn [head_elem set_head_elem]. intros x E. injection E as <-. exact N.
Qed.

(* ---------- table scope versus the "clear the stack back to ..." contexts ---------- *)
(* if some element other than the root is in the context set, the walk stops above the root *)
Lemma drop_until_in_not_root s set r tl rest :
  drop_until_in s set (rev (r :: tl)) = Some rest ->
  (exists x, In x tl /\ set (ename_of s x) = true) ->
  exists e rest', rest = e :: rest' /\ rest' <> [] /\ set (ename_of s e) = true.
Proof.
  rewrite rev_root. intros D (x & Hin & Hx). apply in_rev in Hin. revert Hin D. generalize (rev tl) as l.
  induction l as [|a t IH]; intros Hx' D; [contradiction|]. simpl in D.
  destruct (set (ename_of s a)) eqn:Sa.
  - injection D as <-. exists a, (t ++ [r]). repeat split; [destruct t; discriminate | exact Sa].
  - destruct Hx' as [->|Hx']; [rewrite Hx in Sa; discriminate | apply IH; assumption].
Qed.

(* ---------- reading the shape assumption ---------- *)
Lemma mode_eqb_eq a b : mode_eqb a b = true -> a = b.
Proof. destruct a, b; simpl; intro H; try discriminate; reflexivity. Qed.
Lemma is_mode_refl m : is_mode m m = true. Proof. destruct m; reflexivity. Qed.

Lemma Hshape_depth s : Hshape s -> (mode s = InHead \/ mode s = InHeadNoscript \/ mode s = Text) -> 2 <= length (open_elems s).
Proof.
  unfold Hshape, hshape_b. intros H M. apply andb_true_iff in H. destruct H as [H _]. apply andb_true_iff in H. destruct H as [H _].
  apply andb_true_iff in H. destruct H as [H _].
  destruct M as [M|[M|M]]; rewrite M in H; simpl in H;
    destruct (open_elems s) as [|a [|b l]]; try discriminate H; simpl; lia.
Qed.
Lemma Hshape_text s : Hshape s -> mode s = Text -> exists h, vlast (open_elems s) = Some h /\ fst (ename_of s h) = ns_html.
Proof.
  unfold Hshape, hshape_b. intros H M. apply andb_true_iff in H. destruct H as [H _]. apply andb_true_iff in H. destruct H as [H _].
  apply andb_true_iff in H. destruct H as [_ H]. rewrite M in H. simpl in H.
  destruct (vlast (open_elems s)) as [h|]; [|discriminate]. exists h. split; [reflexivity | apply str_eqb_eq; exact H].
Qed.
Lemma Hshape_cell s : Hshape s -> mode s = InCell -> exists x, In x (open_elems s) /\ in_set td_th (ename_of s x) = true.
Proof.
  unfold Hshape, hshape_b. intros H M. apply andb_true_iff in H. destruct H as [H _]. apply andb_true_iff in H. destruct H as [_ H].
  rewrite M in H. simpl in H. apply existsb_exists in H. exact H.
Qed.
Definition section_names : list ename := html_names ["tbody"; "tfoot"; "thead"; "template"].
Lemma Hshape_tbody s : Hshape s -> mode s = InTableBody -> dev_on s 11 = true ->
  in_scope s table_scope (fun e => in_set table_outer_body (ename_of s e)) = true ->
  exists x, In x (open_elems s) /\ in_set section_names (ename_of s x) = true.
Proof.
  unfold Hshape, hshape_b. intros H M D Sc. apply andb_true_iff in H. destruct H as [_ H].
  rewrite M, D, Sc in H. simpl in H. apply existsb_exists in H. exact H.
Qed.

(* ---------- BeforeHead ---------- *)
Lemma before_head_facts :
  forallb (lands heads_in_body [3]) (nth 3 heads_before_head []) = true /\
  forallb (atom_names (fun n => is_n n "head") false) (nth 4 heads_before_head []) = true.
Proof. split; reflexivity. Qed.

Lemma TInv_head_pushed s h :
  TInv s -> late s -> saving_mode (mode s) = false -> known s h -> ename_of s h = (ns_html, nm "head") ->
  TInv (set_mode InHead (set_head_elem (Some h) (set_open_elems (vpush (open_elems s) h) s))).
Proof.
  intros I L NS K N.
  assert (I1 : TInv (set_head_elem (Some h) s)) by (apply TInv_set_head_elem; assumption).
  assert (I2 : TInv (set_open_elems (vpush (open_elems s) h) (set_head_elem (Some h) s))).
  { apply (TInv_push_gen (set_head_elem (Some h) s)); [exact I1 | exact L | exact K | intros _; discriminate |].
    change (ename_of (set_head_elem (Some h) s) h) with (ename_of s h). rewrite N. discriminate. }
  set (s2 := set_open_elems (vpush (open_elems s) h) (set_head_elem (Some h) s)) in *.
  assert (I3 : TInv (set_mode InHead s2)).
  { apply (keeps_set_mode s2 s2 InHead); [apply keeps_refl; exact I2 | exact L | exact NS | reflexivity | reflexivity | intros _; discriminate]. }
  eapply TInv_core_eq; [|exact I3]. repeat split.
Qed.

Lemma step_before_head_ok s t : TInv s -> mode s = BeforeHead -> scalar_tok t ->
  wp (step_before_head step_in_body t) (step_post t) s.
Proof.
  intros I Em Sc. assert (L : late s) by (unfold late; rewrite Em; reflexivity).
  assert (NS : saving_mode (mode s) = false) by (rewrite Em; reflexivity).
  unfold step_before_head. apply wp_arm_dispatch; [apply total_before_head | apply (aligned_all step_in_body b_done b_done) |].
  intros k b Ek Eb Hm Hn. pose proof (TInv_arm s (mode_id BeforeHead) k I) as I1. set (s1 := set_out _ s) in *.
  assert (L1 : late s1) by exact L. assert (NS1 : saving_mode (mode s1) = false) by exact NS.
  destruct before_head_facts as [F3 F4].
  assert (AE : wp (before_head_anything_else t) (step_post t) s1).
  { unfold before_head_anything_else. rewrite wp_bind. unfold insert_phantom.
    eapply (wp_insert_element s1); [apply keeps_refl; exact I1 | exact L1 |].
    intros h s2 K2 _ Kn En. rewrite wp_bind, wp_modify, wp_ret. pose proof K2 as [I2 S2].
    split; [|intro C; exact C]. split; [|discriminate].
    eapply TInv_core_eq; [|apply (TInv_head_pushed s2 h); [exact I2 | exact (keeps_late _ _ K2 L1) | rewrite (st_mode _ _ S2); exact NS1 | exact Kn | exact En]].
    repeat split. }
  arm_cases k Eb.
  - apply arm_split; exact I1.
  - apply arm_done; exact I1.
  - apply arm_append_comment; assumption.
  - eapply wp_mono; [apply (in_body_html s1 t _ I1 L1 Sc F3 Hm)|]. intros r s' [P _]. exact P.
  - destruct (head_named_prop _ _ _ F4 Hm) as (g & -> & Nh). apply is_n_eq in Nh. cbn [tk_tag].
    rewrite wp_bind. unfold insert_element_for.
    eapply (wp_insert_element s1); [apply keeps_refl; exact I1 | exact L1 |].
    intros h s2 K2 _ Kn En. unfold set_mode_m. rewrite wp_bind, wp_modify, wp_bind, wp_modify, wp_ret. pose proof K2 as [I2 S2].
    apply step_post_done.
    eapply TInv_core_eq; [|apply (TInv_head_pushed s2 h); [exact I2 | exact (keeps_late _ _ K2 L1) | rewrite (st_mode _ _ S2); exact NS1 | exact Kn | rewrite En, Nh; reflexivity]].
    repeat split.
  - exact AE.
  - apply arm_unexpected; exact I1.
  - exact AE.
Qed.

(* ---------- small facts ---------- *)
Lemma TInv_head_set s : TInv s -> head_needed (mode s) = true -> head_elem s <> None.
Proof. intros I H. apply (inv_head _ I). left. exact H. Qed.

Lemma TInv_orig_some s : TInv s -> saving_mode (mode s) = true ->
  exists om, orig_mode s = Some om /\ saving_mode om = false /\ early_mode om = false.
Proof.
  intros I H. pose proof (inv_orig _ I) as O. unfold orig_ok in O.
  destruct (orig_mode s) as [om|]; [exists om; tauto | rewrite H in O; discriminate].
Qed.

Lemma nonsaving_not_text m : saving_mode m = false -> m <> Text.
Proof. intros H X. subst m. discriminate. Qed.

(* the result of a Reprocess towards a mode that needs nothing *)
Lemma reprocess_post s0 s m t :
  keeps s0 s -> late s0 -> saving_mode (mode s0) = false ->
  early_mode m = false -> saving_mode m = false -> (head_needed m = true -> head_elem s <> None) ->
  step_post t (Reprocess m t) s.
Proof.
  intros K L NS Em Sm Hm. pose proof K as [I S]. split; [|intro C; exact C]. split; [|apply nonsaving_not_text; exact Sm].
  apply (keeps_set_mode s0 s m); [exact K | eapply keeps_late; eassumption | rewrite (st_mode _ _ S); exact NS | exact Em | exact Sm | exact Hm].
Qed.

Lemma set_mode_done_post s0 s m t :
  keeps s0 s -> late s0 -> saving_mode (mode s0) = false ->
  early_mode m = false -> saving_mode m = false -> (head_needed m = true -> head_elem s <> None) ->
  wp (set_mode_m m ;; ret Done) (step_post t) s.
Proof.
  intros K L NS Em Sm Hm. pose proof K as [I S]. unfold set_mode_m. rewrite wp_bind, wp_modify, wp_ret. apply step_post_done.
  apply (keeps_set_mode s0 s m); [exact K | eapply keeps_late; eassumption | rewrite (st_mode _ _ S); exact NS | exact Em | exact Sm | exact Hm].
Qed.

(* ---------- characters through "in body" ---------- *)
Lemma step_in_body_chars_keeps s t : TInv s -> late s -> is_chars t = true ->
  wp (step_in_body t) (fun r s' => keeps s s' /\ r = Done) s.
Proof.
  intros I L C. destruct t as [g|c|sp c| |]; try discriminate.
  assert (E : first_match heads_in_body (KChars sp c) = 1).
  { rewrite (first_match_chars_ext _ sp c []). destruct sp; reflexivity. }
  unfold step_in_body, step_in_body_gen.
  eapply (wp_arm_dispatch_at _ _ _ _ 1); [exact E | reflexivity |].
  unfold ib_arm_1. set (s1 := set_out _ s).
  assert (K1 : keeps s s1) by (apply keeps_arm; exact I).
  rewrite wp_bind. eapply (wp_reconstruct s); [exact K1 | exact L |]. intros s2 K2.
  rewrite wp_bind, wp_when.
  assert (Fin : forall s3, keeps s s3 -> wp (append_text (tk_text (KChars sp c))) (fun r s' => keeps s s' /\ r = Done) s3).
  { intros s3 K3. eapply (wp_append_text s); [exact K3 | eapply keeps_late; eassumption |]. intros s4 K4 _. split; [exact K4 | reflexivity]. }
  destruct (any_not_whitespace _).
  - eapply (wp_set_frameset_not_ok s); [exact K2|]. intros s3 K3 _. apply Fin. exact K3.
  - apply Fin. exact K2.
Qed.

(* delegation to "in head" of tokens that reach neither the popping arms nor <noscript> *)
Definition ih_plain : list nat := [0; 1; 2; 3; 4; 5; 6; 7; 10; 11; 12].
Lemma in_head_delegated s t h : TInv s -> late s -> saving_mode (mode s) = false -> scalar_tok t ->
  forallb (lands heads_in_head ih_plain) h = true -> forallb (atom_names not_noscript true) h = true ->
  head_matches t h = true -> wp (step_in_head t) (step_post t) s.
Proof.
  intros I L NS Sc A B M. eapply wp_mono; [apply step_in_head_ok; try assumption; apply (ih_pre_of_lands s t h A B M)|].
  intros r s' [P _]. exact P.
Qed.

(* ---------- InHeadNoscript ---------- *)
Lemma head_noscript_facts :
  forallb (lands heads_in_body [3]) (nth 0 heads_in_head_noscript []) = true /\
  forallb (lands heads_in_head ih_plain) (nth 3 heads_in_head_noscript []) = true /\
  forallb (atom_names not_noscript true) (nth 3 heads_in_head_noscript []) = true /\
  forallb (lands heads_in_head ih_plain) (nth 4 heads_in_head_noscript []) = true /\
  forallb (atom_names not_noscript true) (nth 4 heads_in_head_noscript []) = true /\
  forallb (lands heads_in_head ih_plain) (nth 5 heads_in_head_noscript []) = true /\
  forallb (atom_names not_noscript true) (nth 5 heads_in_head_noscript []) = true.
Proof. repeat split; reflexivity. Qed.

Lemma step_in_head_noscript_ok s t : TInv s -> Hshape s -> mode s = InHeadNoscript -> scalar_tok t ->
  wp (step_in_head_noscript step_in_head step_in_body t) (step_post t) s.
Proof.
  intros I Sh Em Sc. assert (L : late s) by (unfold late; rewrite Em; reflexivity).
  assert (NS : saving_mode (mode s) = false) by (rewrite Em; reflexivity).
  assert (Len : 2 <= length (open_elems s)) by (apply Hshape_depth; auto).
  assert (Hd : head_elem s <> None) by (apply TInv_head_set; [exact I | rewrite Em; reflexivity]).
  unfold step_in_head_noscript.
  apply wp_arm_dispatch; [apply total_in_head_noscript | apply (aligned_all step_in_head step_in_body b_done) |].
  intros k b Ek Eb Hm Hn. pose proof (TInv_arm s (mode_id InHeadNoscript) k I) as I1. set (s1 := set_out _ s) in *.
  assert (L1 : late s1) by exact L. assert (NS1 : saving_mode (mode s1) = false) by exact NS.
  assert (K1 : keeps s1 s1) by (apply keeps_refl; exact I1).
  assert (Len1 : 2 <= length (open_elems s1)) by exact Len.
  assert (Hd1 : head_elem s1 <> None) by exact Hd.
  destruct head_noscript_facts as (F0 & F3 & N3 & F4 & N4 & F5 & N5).
  assert (AE : wp (in_head_noscript_anything_else t) (step_post t) s1).
  { unfold in_head_noscript_anything_else. rewrite wp_bind, wp_parse_error, wp_bind.
    eapply (wp_pop s1); [apply keeps_set_out; exact K1 | exact L1 | exact Len1 |].
    intros e s2 K2 _ _ _. rewrite wp_ret. pose proof K2 as [I2 S2].
    apply (reprocess_post s1); [exact K2 | exact L1 | exact NS1 | reflexivity | reflexivity |].
    intros _. rewrite (st_head _ _ S2). exact Hd1. }
  arm_cases k Eb.
  - eapply wp_mono; [apply (in_body_html s1 t _ I1 L1 Sc F0 Hm)|]. intros r s' [P _]. exact P.
  - rewrite wp_bind. eapply (wp_pop s1); [exact K1 | exact L1 | exact Len1 |].
    intros e s2 K2 _ _ _. pose proof K2 as [I2 S2].
    apply (set_mode_done_post s1); [exact K2 | exact L1 | exact NS1 | reflexivity | reflexivity |].
    intros _. rewrite (st_head _ _ S2). exact Hd1.
  - apply arm_split; exact I1.
  - apply (in_head_delegated s1 t _ I1 L1 NS1 Sc F3 N3 Hm).
  - apply (in_head_delegated s1 t _ I1 L1 NS1 Sc F4 N4 Hm).
  - apply (in_head_delegated s1 t _ I1 L1 NS1 Sc F5 N5 Hm).
  - exact AE.
  - apply arm_unexpected; exact I1.
  - exact AE.
Qed.

(* ---------- AfterHead ---------- *)
Lemma after_head_facts :
  forallb (lands heads_in_body [3]) (nth 3 heads_after_head []) = true /\
  forallb (atom_names safe_name false) (nth 4 heads_after_head []) = true /\
  forallb (atom_names safe_name false) (nth 5 heads_after_head []) = true /\
  forallb (lands heads_in_head ih_plain) (nth 6 heads_after_head []) = true /\
  forallb (lands heads_in_head [4; 5; 6; 7; 10]) (nth 6 heads_after_head []) = true /\
  forallb (atom_names not_noscript true) (nth 6 heads_after_head []) = true /\
  forallb (lands heads_in_head ih_plain) (nth 7 heads_after_head []) = true /\
  forallb (atom_names not_noscript true) (nth 7 heads_after_head []) = true.
Proof. repeat split; reflexivity. Qed.

Lemma head_not_html : nm "head" <> nm "html". Proof. discriminate. Qed.

Lemma step_after_head_ok s t : TInv s -> mode s = AfterHead -> scalar_tok t ->
  wp (step_after_head step_in_head step_in_body t) (step_post t) s.
Proof.
  intros I Em Sc. assert (L : late s) by (unfold late; rewrite Em; reflexivity).
  assert (NS : saving_mode (mode s) = false) by (rewrite Em; reflexivity).
  assert (Hd : head_elem s <> None) by (apply TInv_head_set; [exact I | rewrite Em; reflexivity]).
  unfold step_after_head.
  apply wp_arm_dispatch; [apply total_after_head | apply (aligned_all step_in_head step_in_body b_done) |].
  intros k b Ek Eb Hm Hn. pose proof (TInv_arm s (mode_id AfterHead) k I) as I1. set (s1 := set_out _ s) in *.
  assert (L1 : late s1) by exact L. assert (NS1 : saving_mode (mode s1) = false) by exact NS.
  assert (K1 : keeps s1 s1) by (apply keeps_refl; exact I1).
  assert (Hd1 : head_elem s1 <> None) by exact Hd.
  destruct after_head_facts as (F3 & F4 & F5 & F6 & F6k & N6 & F7 & N7).
  assert (AE : wp (after_head_anything_else t) (step_post t) s1).
  { unfold after_head_anything_else, insert_phantom. rewrite wp_bind.
    eapply (wp_insert_element_std s1); [exact K1 | exact L1 | discriminate | discriminate |].
    intros h s2 K2 _ _ _ _. rewrite wp_ret.
    apply (reprocess_post s1); [exact K2 | exact L1 | exact NS1 | reflexivity | reflexivity | intro X; discriminate X]. }
  arm_cases k Eb.
  - apply arm_split; exact I1.
  - apply arm_append_text; assumption.
  - apply arm_append_comment; assumption.
  - eapply wp_mono; [apply (in_body_html s1 t _ I1 L1 Sc F3 Hm)|]. intros r s' [P _]. exact P.
  - (* 4 <body> *)
    destruct (head_safe _ _ F4 Hm) as (g & -> & N0 & N1 & N2). cbn [tk_tag]. rewrite wp_bind. unfold insert_element_for.
    eapply (wp_insert_element_std s1); [exact K1 | exact L1 | exact N1 | exact N2 |].
    intros h s2 K2 _ _ _ _. rewrite wp_bind. eapply (wp_set_frameset_not_ok s1); [exact K2|]. intros s3 K3 _.
    apply (set_mode_done_post s1); [exact K3 | exact L1 | exact NS1 | reflexivity | reflexivity | intro X; discriminate X].
  - (* 5 <frameset> *)
    destruct (head_safe _ _ F5 Hm) as (g & -> & N0 & N1 & N2). cbn [tk_tag]. rewrite wp_bind. unfold insert_element_for.
    eapply (wp_insert_element_std s1); [exact K1 | exact L1 | exact N1 | exact N2 |].
    intros h s2 K2 _ _ _ _.
    apply (set_mode_done_post s1); [exact K2 | exact L1 | exact NS1 | reflexivity | reflexivity | intro X; discriminate X].
  - (* 6 head-level start tags *)
    rewrite wp_bind, wp_parse_error, wp_bind, wp_get, wp_bind, wp_unwrap.
    set (s2 := set_out _ s1).
    assert (I2 : TInv s2) by (eapply TInv_core_eq; [apply core_eq_set_out | exact I1]).
    destruct (head_elem s2) as [hd|] eqn:Eh; [|exfalso; apply Hd1; exact Eh].
    exists hd. split; [reflexivity|].
    rewrite wp_bind. unfold push. rewrite wp_modify.
    set (s3 := set_open_elems _ s2).
    assert (Kh : known s2 hd) by (eapply known_handles_in; [apply inv_known; exact I2 | apply in_handles_head; exact Eh]).
    assert (Nh : ename_of s2 hd = (ns_html, nm "head")) by (apply (proj1 (inv_ptr _ I2)); exact Eh).
    assert (I3 : TInv s3).
    { apply TInv_push_gen; [exact I2 | exact L1 | exact Kh | intros _; rewrite Eh; discriminate | rewrite Nh; discriminate]. }
    assert (L3 : late s3) by exact L1. assert (NS3 : saving_mode (mode s3) = false) by exact NS1.
    pose proof (lands_sound _ _ _ _ F6k Hm) as Hk.
    rewrite wp_bind. eapply wp_mono.
    { apply wp_conj.
      - apply (step_in_head_ok s3 t I3 L3 NS3 Sc). apply (ih_pre_of_lands s3 t _ F6 N6 Hm).
      - apply (step_in_head_gen_head_kept step_in_body_0 s3 t I3 L3 NS3 Sc Hk). }
    intros r s' [[[TR RO] Hr] [Hh Ls']].
    assert (Nr : is_reprocess r = false).
    { destruct (is_reprocess r) eqn:Er; [|reflexivity]. exfalso. specialize (Hr eq_refl).
      destruct Hk as [X|[X|[X|[X|[X|[]]]]]]; rewrite <- X in Hr; simpl in Hr; intuition discriminate. }
    assert (Is' : TInv s') by (destruct r; simpl in TR, Nr; try exact TR; [discriminate Nr | destruct TR]).
    assert (Eh' : head_elem s' = Some hd) by (rewrite Hh; exact Eh).
    assert (Nh' : ename_of s' hd = (ns_html, nm "head")) by (apply (proj1 (inv_ptr _ Is')); exact Eh').
    rewrite wp_bind.
    eapply (wp_remove_from_stack_named s' s' hd (nm "head")); [apply keeps_refl; exact Is' | exact Ls' | exact Nh' | exact head_not_html |].
    intros s'' K''. rewrite wp_ret. split; [|exact RO].
    destruct r; simpl in Nr |- *; try exact (keeps_TInv _ _ K''); [discriminate Nr | destruct TR].
  - (* 7 </template> *) apply (in_head_delegated s1 t _ I1 L1 NS1 Sc F7 N7 Hm).
  - exact AE.
  - apply arm_unexpected; exact I1.
  - exact AE.
Qed.

(* ---------- the current node ---------- *)
Lemma wp_current_node_in s set (Q : bool -> st -> Prop) : TInv s -> late s ->
  (forall h, vlast (open_elems s) = Some h -> Q (set (ename_of s h)) s) -> wp (current_node_in set) Q s.
Proof.
  intros I L H. unfold current_node_in. rewrite wp_bind. apply wp_current_node; [exact I | exact L |].
  intros h V. rewrite wp_bind, wp_get, wp_ret. apply H. exact V.
Qed.
Lemma wp_current_node_named s n (Q : bool -> st -> Prop) : TInv s -> late s ->
  (forall h, vlast (open_elems s) = Some h -> Q (html_elem_named_b s h n) s) -> wp (current_node_named n) Q s.
Proof.
  intros I L H. unfold current_node_named. rewrite wp_bind. apply wp_current_node; [exact I | exact L |].
  intros h V. rewrite wp_bind, wp_get, wp_ret. apply H. exact V.
Qed.

(* ---------- leaving Text / InTableText ---------- *)
Lemma leave_saving_state s0 s : keeps s0 s -> late s0 -> saving_mode (mode s0) = true -> pending_table_text s = [] ->
  exists om, orig_mode s = Some om /\ saving_mode om = false /\ TInv (set_mode om (set_orig_mode None s)).
Proof.
  intros K L Sv P. pose proof K as [I S].
  destruct (TInv_orig_some s I) as (om & Eo & So & _); [rewrite (st_mode _ _ S); exact Sv|].
  exists om. split; [exact Eo|]. split; [exact So|].
  apply TInv_leave_saving; [exact I | eapply keeps_late; eassumption | exact Eo | exact P].
Qed.

(* ---------- Text ---------- *)
Lemma text_facts : forallb atom_is_tag (nth 2 heads_text []) = true.
Proof. reflexivity. Qed.

Lemma step_text_ok s t : TInv s -> Hshape s -> mode s = Text -> tok_ok s t -> wp (step_text t) (step_post t) s.
Proof.
  intros I Sh Em TO. assert (L : late s) by (unfold late; rewrite Em; reflexivity).
  assert (Len : 2 <= length (open_elems s)) by (apply Hshape_depth; auto).
  unfold step_text. apply wp_arm_dispatch; [apply total_text | apply (aligned_all b_done b_done b_done) |].
  intros k b Ek Eb Hm Hn. pose proof (TInv_arm s (mode_id Text) k I) as I1. set (s1 := set_out _ s) in *.
  assert (L1 : late s1) by exact L. assert (Em1 : mode s1 = Text) by exact Em.
  assert (K1 : keeps s1 s1) by (apply keeps_refl; exact I1).
  assert (Len1 : 2 <= length (open_elems s1)) by exact Len.
  assert (Pend : forall s4, keeps s1 s4 -> pending_table_text s4 = []).
  { intros s4 K4. apply (inv_pending _ (keeps_TInv _ _ K4)). pose proof K4 as [_ S4]. rewrite (st_mode _ _ S4), Em1. discriminate. }
  arm_cases k Eb.
  - apply arm_append_text; assumption.
  - (* Eof *)
    rewrite wp_bind, wp_parse_error, wp_bind. set (s2 := set_out _ s1).
    assert (K2 : keeps s1 s2) by (apply keeps_set_out; exact K1).
    assert (Rest : forall s3, keeps s1 s3 -> open_elems s3 = open_elems s1 ->
       wp (_e <- pop ;; s <- get ;; om <- unwrap (orig_mode s) 39 ;; modify (set_orig_mode None) ;; ret (Reprocess om t))
          (step_post t) s3).
    { intros s3 K3 E3. rewrite wp_bind.
      eapply (wp_pop s1 s3); [exact K3 | eapply keeps_late; eassumption | rewrite E3; exact Len1 |].
      intros e s4 K4 _ _ _. rewrite wp_bind, wp_get, wp_bind, wp_unwrap.
      destruct (leave_saving_state s1 s4 K4 L1) as (om & Eo & So & Io); [rewrite Em1; reflexivity | apply Pend; exact K4 |].
      exists om. split; [exact Eo|]. rewrite wp_bind, wp_modify, wp_ret.
      split; [split; [exact Io | apply nonsaving_not_text; exact So] | intro C; exact C]. }
    apply wp_current_node_named; [exact (keeps_TInv _ _ K2) | exact L1 |]. intros h V. rewrite wp_bind.
    destruct (html_elem_named_b s2 h (nm "script")).
    + rewrite wp_bind, wp_get, wp_bind, wp_unwrap. exists h. split; [exact V|]. rewrite wp_emit.
      apply Rest; [apply keeps_set_out; exact K2 | reflexivity].
    + rewrite wp_ret. apply Rest; [exact K2 | reflexivity].
  - (* end tag *)
    rewrite wp_bind. eapply (wp_pop s1 s1); [exact K1 | exact L1 | exact Len1 |].
    intros node s4 K4 _ _ _. rewrite wp_bind, wp_get, wp_bind, wp_unwrap.
    destruct (leave_saving_state s1 s4 K4 L1) as (om & Eo & So & Io); [rewrite Em1; reflexivity | apply Pend; exact K4 |].
    exists om. split; [exact Eo|]. rewrite wp_bind, wp_modify. unfold set_mode_m. rewrite wp_bind, wp_modify.
    assert (C : is_chars t = false) by exact (head_tag_not_chars _ _ text_facts Hm).
    destruct (is_n (tname t) "script"); rewrite wp_ret; (split; [exact Io | apply res_ok_nonchars; exact C]).
  - (* unreachable: the tokenizer only delivers characters, end tags and EOF in this mode *)
    exfalso. specialize (TO Em).
    pose proof (Hn 0 ltac:(lia)) as H0. pose proof (Hn 1 ltac:(lia)) as H1. pose proof (Hn 2 ltac:(lia)) as H2.
    destruct t as [g|c|sp c| |]; simpl in TO; try discriminate TO.
    + unfold head_matches in H2. simpl in H2. rewrite TO in H2. discriminate H2.
    + unfold head_matches in H0. simpl in H0. discriminate H0.
    + unfold head_matches in H1. simpl in H1. discriminate H1.
Qed.

(* ---------- InTableText ---------- *)
Lemma TInv_set_pending s p : TInv s -> (mode s <> InTableText -> p = []) -> TInv (set_pending_table_text p s).
Proof.
  intros [I1 I2 I3 I4 I5 I6 I7 I8 I9 I10 I11] H. constructor; assumption.
Qed.

Lemma foster_parent_in_body_ok s t : TInv s -> late s -> (saving_mode (mode s) = false \/ is_chars t = true) -> scalar_tok t ->
  wp (foster_parent_in_body t) (ib_post t) s.
Proof.
  intros I L NSC Sc. unfold foster_parent_in_body. rewrite wp_bind, wp_modify, wp_bind.
  eapply wp_mono; [apply step_in_body_ok; [eapply TInv_core_eq; [apply core_eq_set_foster_parenting | exact I] | exact L | exact NSC | exact Sc]|].
  intros r s' [[TR RO] Cd]. rewrite wp_bind, wp_modify, wp_ret. split; [split; [|exact RO] | exact Cd].
  eapply TInvR_core_eq; [apply core_eq_set_foster_parenting | exact TR].
Qed.

Lemma foster_chars_keeps s t : TInv s -> late s -> is_chars t = true ->
  wp (foster_parent_in_body t) (fun r s' => keeps s s' /\ r = Done) s.
Proof.
  intros I L C. unfold foster_parent_in_body. rewrite wp_bind, wp_modify, wp_bind.
  set (s1 := set_foster_parenting true s).
  assert (K1 : keeps s s1) by (apply keeps_set_foster_parenting; apply keeps_refl; exact I).
  eapply wp_mono; [apply (step_in_body_chars_keeps s1 t); [exact (keeps_TInv _ _ K1) | exact L | exact C]|].
  intros r s' [K' ->]. rewrite wp_bind, wp_modify, wp_ret. split; [|reflexivity].
  apply keeps_set_foster_parenting. eapply keeps_trans; eassumption.
Qed.

Lemma step_in_table_text_ok s t : TInv s -> mode s = InTableText -> wp (step_in_table_text t) (step_post t) s.
Proof.
  intros I Em. assert (L : late s) by (unfold late; rewrite Em; reflexivity).
  unfold step_in_table_text. apply wp_arm_dispatch; [apply total_in_table_text | apply (aligned_all b_done b_done b_done) |].
  intros k b Ek Eb Hm Hn. pose proof (TInv_arm s (mode_id InTableText) k I) as I1. set (s1 := set_out _ s) in *.
  assert (L1 : late s1) by exact L. assert (Em1 : mode s1 = InTableText) by exact Em.
  arm_cases k Eb.
  - apply arm_unexpected; exact I1.
  - rewrite wp_bind, wp_modify, wp_ret. apply step_post_done. apply TInv_set_pending; [exact I1|].
    intro X. exfalso. apply X. exact Em1.
  - rewrite wp_bind, wp_get, wp_bind, wp_modify.
    set (s2 := set_pending_table_text [] s1). set (pending := pending_table_text s1).
    assert (I2 : TInv s2) by (apply TInv_set_pending; [exact I1 | reflexivity]).
    assert (L2 : late s2) by exact L1.
    assert (Tail : forall s3, keeps s2 s3 ->
       wp (s <- get ;; om <- unwrap (orig_mode s) 41 ;; modify (set_orig_mode None) ;; ret (Reprocess om t)) (step_post t) s3).
    { intros s3 K3. rewrite wp_bind, wp_get, wp_bind, wp_unwrap.
      destruct (leave_saving_state s2 s3 K3 L2) as (om & Eo & So & Io); [change (saving_mode (mode s1) = true); rewrite Em1; reflexivity | pose proof K3 as [_ S3]; rewrite (st_pending _ _ S3); reflexivity |].
      exists om. split; [exact Eo|]. rewrite wp_bind, wp_modify, wp_ret.
      split; [split; [exact Io | apply nonsaving_not_text; exact So] | intro C; exact C]. }
    rewrite wp_bind. destruct (pending_contains_nonspace pending).
    + rewrite wp_bind. apply wp_probe. rewrite wp_bind, wp_parse_error.
      eapply wp_mono.
      { apply (wp_mapM_ _ pending (fun s' => keeps s2 s')).
        - do 2 apply keeps_set_out. apply keeps_refl. exact I2.
        - intros x s0 _ K0. rewrite wp_bind.
          eapply wp_mono; [apply (foster_chars_keeps s0); [exact (keeps_TInv _ _ K0) | eapply keeps_late; eassumption | reflexivity]|].
          intros r s' [K' ->]. rewrite wp_ret. eapply keeps_trans; eassumption. }
      intros _u s3 K3. apply Tail. exact K3.
    + rewrite wp_bind. apply wp_probe.
      eapply wp_mono.
      { apply (wp_mapM_ _ pending (fun s' => keeps s2 s')).
        - apply keeps_set_out. apply keeps_refl. exact I2.
        - intros x s0 _ K0. rewrite wp_bind.
          eapply (wp_append_text s2); [exact K0 | eapply keeps_late; eassumption |]. intros s' K' _. rewrite wp_ret. exact K'. }
      intros _u s3 K3. apply Tail. exact K3.
Qed.
