(* ========================================================================
   TreeInvModes.v - the remaining insertion modes: every arm preserves [TInv]
   and reaches no Panic site (under the shape assumption where needed).
   ======================================================================== *)
From Coq Require Import List NArith Bool Arith Lia String.
From HV Require Import Dom.DomSpec Tree.TreeTypes Tree.TreeTables Tree.TreeModelHelpers Tree.TreeModelRules
  Tree.TreeModel Tree.TreeHoare Tree.TreeInvBasic Tree.TreeInvDefs Tree.TreeInvSetters Tree.TreeInvPrims
  Tree.TreeInvHelpers Tree.TreeInvAAA Tree.TreeInvDispatch Tree.TreeInvRules Tree.TreeInvHead Tree.TreeInvBody
  Tree.TreeInvLevels.
Import ListNotations.
Open Scope string_scope.
Open Scope list_scope.
Notation length := List.length (only parsing).

(* ---------- more state-change lemmas ---------- *)
Lemma TInvR_set_foster v t r s : TInvR t r s -> TInvR t r (set_foster_parenting v s).
Proof.
  assert (X : forall s0, TInv s0 -> TInv (set_foster_parenting v s0)).
  { intros s0 I. eapply TInv_core_eq; [apply core_eq_set_foster_parenting | exact I]. }
  intro H. destruct r; simpl in *; try (apply X; exact H); try exact H.
  - destruct H as [H N]. split; [|exact N]. eapply TInv_core_eq; [|exact (X _ H)]. repeat split.
  - destruct H as [H E]. split; [apply X; exact H | exact E].
Qed.

(* leaving Text / InTableText for the saved mode *)
Lemma TInv_leave_saving s om :
  TInv s -> late s -> orig_mode s = Some om -> pending_table_text s = [] ->
  TInv (set_mode om (set_orig_mode None s)).
Proof.
  intros I L Eo Ep. pose proof I as [I1 I2 I3 I4 I5 I6 I7 I8 I9 I10 I11].
  unfold orig_ok in I4. rewrite Eo in I4. destruct I4 as (Sv & Som & Eom).
  constructor; try assumption.
  - unfold root_ok in *. cbn [mode open_elems set_mode set_orig_mode]. rewrite Eom.
    change (ename_of (set_mode om (set_orig_mode None s))) with (ename_of s).
    unfold late in L. rewrite L in I3. exact I3.
  - unfold pending_ok. cbn. intros _. exact Ep.
  - unfold head_ok in *. cbn [mode orig_mode head_elem set_mode set_orig_mode]. intros [A|(m & E & _)]; [|discriminate].
    apply I8. right. exists om. split; assumption.
Qed.

(* entering InTableText *)
Lemma TInv_enter_table_text s :
  TInv s -> late s -> saving_mode (mode s) = false ->
  TInv (set_mode InTableText (set_orig_mode (Some (mode s)) s)).
Proof.
  intros I L N. pose proof I as [I1 I2 I3 I4 I5 I6 I7 I8 I9 I10 I11]. constructor; try assumption.
  - unfold root_ok in *. cbn [mode open_elems set_mode set_orig_mode]. cbn [early_mode].
    change (ename_of (set_mode InTableText (set_orig_mode (Some (mode s)) s))) with (ename_of s).
    unfold late in L. rewrite L in I3. exact I3.
  - unfold orig_ok. cbn. split; [reflexivity | split; [exact N | exact L]].
  - unfold pending_ok. cbn. intro X. exfalso. apply X. reflexivity.
  - unfold head_ok in *. cbn [mode orig_mode head_elem set_mode set_orig_mode]. intros [A|(m & E & Hm)]; [discriminate|].
    injection E as <-. apply I8. left. exact Hm.
Qed.

(* pushing a known element that is not a template; a head only if the head pointer is set *)
Lemma TInv_push_gen s h :
  TInv s -> late s -> known s h ->
  (ename_of s h = (ns_html, nm "head") -> head_elem s <> None) -> ename_of s h <> (ns_html, nm "template") ->
  TInv (set_open_elems (vpush (open_elems s) h) s).
Proof.
  intros I L K NH NT. pose proof I as [I1 I2 I3 I4 I5 I6 I7 I8 I9 I10 I11].
  destruct (TInv_stack_nonempty _ I L) as (r & rest & E & N).
  apply TInv_set_stack; try assumption.
  - rewrite E. unfold vpush. simpl. eauto.
  - destruct I2 as [A _]. unfold state_handles in A. pose proof A as A1.
    apply Forall_app in A1. destruct A1 as [A1 _]. unfold vpush. apply Forall_app. split; [exact A1 | constructor; [exact K | constructor]].
  - unfold tm_ok, tcount in I7. unfold tcount_of, vpush. rewrite filter_length_app. cbn [filter].
    assert (Ht : is_template s h = false).
    { unfold is_template, html_elem_named_b. destruct (ename_eqb (ename_of s h) (ns_html, nm "template")) eqn:Eq; [|reflexivity].
      apply ename_eqb_eq in Eq. contradiction. }
    rewrite Ht. cbn [List.length]. lia.
  - intros (x & A & B). unfold vpush in A. apply in_app_or in A. destruct A as [A|[<-|[]]].
    + apply I9. exists x. split; assumption.
    + apply NH. exact B.
Qed.

(* a head element was inserted and becomes the head pointer *)
Lemma TInv_set_head_elem s h :
  TInv s -> known s h -> ename_of s h = (ns_html, nm "head") -> TInv (set_head_elem (Some h) s).
Proof.
  intros [I1 I2 I3 I4 I5 I6 I7 I8 I9 I10 I11] K N. constructor; try assumption.
  - destruct I2 as [A B]. split; [|exact B]. unfold state_handles in *. cbn [open_elems active_formatting head_elem form_elem context_elem set_head_elem].
    pose proof A as A1.
    apply Forall_app in A1. destruct A1 as [A1 A2]. apply Forall_app in A2. destruct A2 as [A2 A3].
    apply Forall_app in A3. destruct A3 as [_ A4].
    apply Forall_app; split; [exact A1|]. apply Forall_app; split; [exact A2|].
    apply Forall_app; split; [constructor; [exact K | constructor] | exact A4].
  - unfold head_ok. cbn. intros _. discriminate.
  - unfold headstack_ok. cbn. intros _. discriminate.
  - destruct I10 as [A B]. split; [|exact B]. cbn [head_elem set_head_elem]. intros x E. injection E as <-. exact N.
Qed.

(* ---------- table scope versus the "clear the stack back to ..." contexts ---------- *)
(* if some element other than the root is in the context set, the walk stops above the root *)
Lemma drop_until_in_not_root s set r tl rest :
  drop_until_in s set (rev (r :: tl)) = Some rest ->
  (exists x, In x tl /\ set (ename_of s x) = true) ->
  exists e rest', rest = e :: rest' /\ rest' <> [] /\ set (ename_of s e) = true.
Proof.
  rewrite rev_root. intros D (x & Hin & Hx). apply in_rev in Hin. revert Hin D. generalize (rev tl) as l.
  induction l as [|a t IH]; intros Hx' D; [contradiction|]. simpl in D.
  destruct (set (ename_of s a)) eqn:Sa.
  - injection D as <-. exists a, (t ++ [r]). repeat split; [destruct t; discriminate | exact Sa].
  - destruct Hx' as [->|Hx']; [rewrite Hx in Sa; discriminate | apply IH; assumption].
Qed.

(* ---------- reading the shape assumption ---------- *)
Lemma mode_eqb_eq a b : mode_eqb a b = true -> a = b.
Proof. destruct a, b; simpl; intro H; try discriminate; reflexivity. Qed.
Lemma is_mode_refl m : is_mode m m = true. Proof. destruct m; reflexivity. Qed.

Lemma Hshape_depth s : Hshape s -> (mode s = InHead \/ mode s = InHeadNoscript \/ mode s = Text) -> 2 <= length (open_elems s).
Proof.
  unfold Hshape, hshape_b. intros H M. apply andb_true_iff in H. destruct H as [H _]. apply andb_true_iff in H. destruct H as [H _].
  apply andb_true_iff in H. destruct H as [H _].
  destruct M as [M|[M|M]]; rewrite M in H; simpl in H;
    destruct (open_elems s) as [|a [|b l]]; try discriminate H; simpl; lia.
Qed.
Lemma Hshape_text s : Hshape s -> mode s = Text -> exists h, vlast (open_elems s) = Some h /\ fst (ename_of s h) = ns_html.
Proof.
  unfold Hshape, hshape_b. intros H M. apply andb_true_iff in H. destruct H as [H _]. apply andb_true_iff in H. destruct H as [H _].
  apply andb_true_iff in H. destruct H as [_ H]. rewrite M in H. simpl in H.
  destruct (vlast (open_elems s)) as [h|]; [|discriminate]. exists h. split; [reflexivity | apply str_eqb_eq; exact H].
Qed.
Lemma Hshape_cell s : Hshape s -> mode s = InCell -> exists x, In x (open_elems s) /\ in_set td_th (ename_of s x) = true.
Proof.
  unfold Hshape, hshape_b. intros H M. apply andb_true_iff in H. destruct H as [H _]. apply andb_true_iff in H. destruct H as [_ H].
  rewrite M in H. simpl in H. apply existsb_exists in H. exact H.
Qed.
Definition section_names : list ename := html_names ["tbody"; "tfoot"; "thead"; "template"].
Lemma Hshape_tbody s : Hshape s -> mode s = InTableBody -> dev_on s 11 = true ->
  in_scope s table_scope (fun e => in_set table_outer_body (ename_of s e)) = true ->
  exists x, In x (open_elems s) /\ in_set section_names (ename_of s x) = true.
Proof.
  unfold Hshape, hshape_b. intros H M D Sc. apply andb_true_iff in H. destruct H as [_ H].
  rewrite M, D, Sc in H. simpl in H. apply existsb_exists in H. exact H.
Qed.

(* the shape assumption does not read the emitted events *)
Lemma in_scope_l_ext s s' scope pred l :
  (forall h, ename_of s' h = ename_of s h) -> in_scope_l s' scope pred l = in_scope_l s scope pred l.
Proof.
  intro E. induction l as [|n r IH]; simpl; [reflexivity|]. rewrite E, IH. reflexivity.
Qed.
Lemma hshape_b_set_out v s : hshape_b (set_out v s) = hshape_b s.
Proof.
  unfold hshape_b, in_scope.
  change (mode (set_out v s)) with (mode s). change (open_elems (set_out v s)) with (open_elems s).
  change (dev_on (set_out v s) 11) with (dev_on s 11). change (ename_of (set_out v s)) with (ename_of s).
  change (scope_for (set_out v s)) with (scope_for s).
  rewrite (in_scope_l_ext s (set_out v s)); [reflexivity | intro h; reflexivity].
Qed.
Lemma Hshape_set_out v s : Hshape s -> Hshape (set_out v s).
Proof. unfold Hshape. rewrite hshape_b_set_out. exact (fun H => H). Qed.

(* ---------- BeforeHead ---------- *)
Lemma before_head_facts :
  forallb (lands heads_in_body [3]) (nth 3 heads_before_head []) = true /\
  forallb (atom_names (fun n => is_n n "head") false) (nth 4 heads_before_head []) = true.
Proof. split; reflexivity. Qed.

Lemma TInv_head_pushed s h :
  TInv s -> late s -> saving_mode (mode s) = false -> known s h -> ename_of s h = (ns_html, nm "head") ->
  TInv (set_mode InHead (set_head_elem (Some h) (set_open_elems (vpush (open_elems s) h) s))).
Proof.
  intros I L NS K N.
  assert (I1 : TInv (set_head_elem (Some h) s)) by (apply TInv_set_head_elem; assumption).
  assert (I2 : TInv (set_open_elems (vpush (open_elems s) h) (set_head_elem (Some h) s))).
  { apply (TInv_push_gen (set_head_elem (Some h) s)); [exact I1 | exact L | exact K | intros _; discriminate |].
    change (ename_of (set_head_elem (Some h) s) h) with (ename_of s h). rewrite N. discriminate. }
  set (s2 := set_open_elems (vpush (open_elems s) h) (set_head_elem (Some h) s)) in *.
  assert (I3 : TInv (set_mode InHead s2)).
  { apply (keeps_set_mode s2 s2 InHead); [apply keeps_refl; exact I2 | exact L | exact NS | reflexivity | reflexivity | intros _; discriminate]. }
  eapply TInv_core_eq; [|exact I3]. repeat split.
Qed.

Lemma step_before_head_ok s t : TInv s -> mode s = BeforeHead -> scalar_tok t ->
  wp (step_before_head step_in_body t) (step_post t) s.
Proof.
  intros I Em Sc. assert (L : late s) by (unfold late; rewrite Em; reflexivity).
  assert (NS : saving_mode (mode s) = false) by (rewrite Em; reflexivity).
  unfold step_before_head. apply wp_arm_dispatch; [apply total_before_head | apply (aligned_all step_in_body b_done b_done) |].
  intros k b Ek Eb Hm Hn. pose proof (TInv_arm s (mode_id BeforeHead) k I) as I1. set (s1 := set_out _ s) in *.
  assert (L1 : late s1) by exact L. assert (NS1 : saving_mode (mode s1) = false) by exact NS.
  destruct before_head_facts as [F3 F4].
  assert (AE : wp (before_head_anything_else t) (step_post t) s1).
  { unfold before_head_anything_else. rewrite wp_bind. unfold insert_phantom.
    eapply (wp_insert_element s1); [apply keeps_refl; exact I1 | exact L1 |].
    intros h s2 K2 _ Kn En. rewrite wp_bind, wp_modify, wp_ret. pose proof K2 as [I2 S2].
    split; [|apply res_ok_reprocess]. split; [|discriminate].
    eapply TInv_core_eq; [|apply (TInv_head_pushed s2 h); [exact I2 | exact (keeps_late _ _ K2 L1) | rewrite (st_mode _ _ S2); exact NS1 | exact Kn | exact En]].
    repeat split. }
  arm_cases k Eb.
  - apply arm_split; exact I1.
  - apply arm_done; exact I1.
  - apply arm_append_comment; assumption.
  - eapply wp_mono; [apply (in_body_html s1 t _ I1 L1 Sc F3 Hm)|]. intros r s' [P _]. exact P.
  - destruct (head_named_prop _ _ _ F4 Hm) as (g & -> & Nh). apply is_n_eq in Nh. cbn [tk_tag].
    rewrite wp_bind. unfold insert_element_for.
    eapply (wp_insert_element s1); [apply keeps_refl; exact I1 | exact L1 |].
    intros h s2 K2 _ Kn En. unfold set_mode_m. rewrite wp_bind, wp_modify, wp_bind, wp_modify, wp_ret. pose proof K2 as [I2 S2].
    apply step_post_done.
    eapply TInv_core_eq; [|apply (TInv_head_pushed s2 h); [exact I2 | exact (keeps_late _ _ K2 L1) | rewrite (st_mode _ _ S2); exact NS1 | exact Kn | rewrite En, Nh; reflexivity]].
    repeat split.
  - exact AE.
  - apply arm_unexpected; exact I1.
  - exact AE.
Qed.

(* ---------- small facts ---------- *)
Lemma TInv_head_set s : TInv s -> head_needed (mode s) = true -> head_elem s <> None.
Proof. intros I H. apply (inv_head _ I). left. exact H. Qed.

Lemma TInv_orig_some s : TInv s -> saving_mode (mode s) = true ->
  exists om, orig_mode s = Some om /\ saving_mode om = false /\ early_mode om = false.
Proof.
  intros I H. pose proof (inv_orig _ I) as O. unfold orig_ok in O.
  destruct (orig_mode s) as [om|]; [exists om; tauto | rewrite H in O; discriminate].
Qed.

Lemma nonsaving_not_text m : saving_mode m = false -> m <> Text.
Proof. intros H X. subst m. discriminate. Qed.

(* the result of a Reprocess towards a mode that needs nothing *)
Lemma reprocess_post s0 s m t :
  keeps s0 s -> late s0 -> saving_mode (mode s0) = false ->
  early_mode m = false -> saving_mode m = false -> (head_needed m = true -> head_elem s <> None) ->
  step_post t (Reprocess m t) s.
Proof.
  intros K L NS Em Sm Hm. pose proof K as [I S]. split; [|apply res_ok_reprocess]. split; [|apply nonsaving_not_text; exact Sm].
  apply (keeps_set_mode s0 s m); [exact K | eapply keeps_late; eassumption | rewrite (st_mode _ _ S); exact NS | exact Em | exact Sm | exact Hm].
Qed.

Lemma set_mode_done_post s0 s m t :
  keeps s0 s -> late s0 -> saving_mode (mode s0) = false ->
  early_mode m = false -> saving_mode m = false -> (head_needed m = true -> head_elem s <> None) ->
  wp (set_mode_m m ;; ret Done) (step_post t) s.
Proof.
  intros K L NS Em Sm Hm. pose proof K as [I S]. unfold set_mode_m. rewrite wp_bind, wp_modify, wp_ret. apply step_post_done.
  apply (keeps_set_mode s0 s m); [exact K | eapply keeps_late; eassumption | rewrite (st_mode _ _ S); exact NS | exact Em | exact Sm | exact Hm].
Qed.

(* ---------- characters through "in body" ---------- *)
Lemma step_in_body_chars_keeps s t : TInv s -> late s -> is_chars t = true ->
  wp (step_in_body t) (fun r s' => keeps s s' /\ r = Done) s.
Proof.
  intros I L C. destruct t as [g|c|sp c| |]; try discriminate.
  assert (E : first_match heads_in_body (KChars sp c) = 1).
  { rewrite (first_match_chars_ext _ sp c []). destruct sp; reflexivity. }
  unfold step_in_body, step_in_body_gen.
  eapply (wp_arm_dispatch_at _ _ _ _ 1); [exact E | reflexivity |].
  unfold ib_arm_1. set (s1 := set_out _ s).
  assert (K1 : keeps s s1) by (apply keeps_arm; exact I).
  rewrite wp_bind. eapply (wp_reconstruct s); [exact K1 | exact L |]. intros s2 K2.
  rewrite wp_bind, wp_when.
  assert (Fin : forall s3, keeps s s3 -> wp (append_text (tk_text (KChars sp c))) (fun r s' => keeps s s' /\ r = Done) s3).
  { intros s3 K3. eapply (wp_append_text s); [exact K3 | eapply keeps_late; eassumption |]. intros s4 K4 _. split; [exact K4 | reflexivity]. }
  destruct (any_not_whitespace _).
  - eapply (wp_set_frameset_not_ok s); [exact K2|]. intros s3 K3 _. apply Fin. exact K3.
  - apply Fin. exact K2.
Qed.

(* delegation to "in head" of tokens that reach neither the popping arms nor <noscript> *)
Definition ih_plain : list nat := [0; 1; 2; 3; 4; 5; 6; 7; 10; 11; 12].
Lemma in_head_delegated s t h : TInv s -> late s -> saving_mode (mode s) = false -> scalar_tok t ->
  forallb (lands heads_in_head ih_plain) h = true -> forallb (atom_names not_noscript true) h = true ->
  head_matches t h = true -> wp (step_in_head t) (step_post t) s.
Proof.
  intros I L NS Sc A B M. eapply wp_mono; [apply step_in_head_ok; try assumption; apply (ih_pre_of_lands s t h A B M)|].
  intros r s' [P _]. exact P.
Qed.

(* ---------- InHeadNoscript ---------- *)
Lemma head_noscript_facts :
  forallb (lands heads_in_body [3]) (nth 0 heads_in_head_noscript []) = true /\
  forallb (lands heads_in_head ih_plain) (nth 3 heads_in_head_noscript []) = true /\
  forallb (atom_names not_noscript true) (nth 3 heads_in_head_noscript []) = true /\
  forallb (lands heads_in_head ih_plain) (nth 4 heads_in_head_noscript []) = true /\
  forallb (atom_names not_noscript true) (nth 4 heads_in_head_noscript []) = true /\
  forallb (lands heads_in_head ih_plain) (nth 5 heads_in_head_noscript []) = true /\
  forallb (atom_names not_noscript true) (nth 5 heads_in_head_noscript []) = true.
Proof. repeat split; reflexivity. Qed.

Lemma step_in_head_noscript_ok s t : TInv s -> Hshape s -> mode s = InHeadNoscript -> scalar_tok t ->
  wp (step_in_head_noscript step_in_head step_in_body t) (step_post t) s.
Proof.
  intros I Sh Em Sc. assert (L : late s) by (unfold late; rewrite Em; reflexivity).
  assert (NS : saving_mode (mode s) = false) by (rewrite Em; reflexivity).
  assert (Len : 2 <= length (open_elems s)) by (apply Hshape_depth; auto).
  assert (Hd : head_elem s <> None) by (apply TInv_head_set; [exact I | rewrite Em; reflexivity]).
  unfold step_in_head_noscript.
  apply wp_arm_dispatch; [apply total_in_head_noscript | apply (aligned_all step_in_head step_in_body b_done) |].
  intros k b Ek Eb Hm Hn. pose proof (TInv_arm s (mode_id InHeadNoscript) k I) as I1. set (s1 := set_out _ s) in *.
  assert (L1 : late s1) by exact L. assert (NS1 : saving_mode (mode s1) = false) by exact NS.
  assert (K1 : keeps s1 s1) by (apply keeps_refl; exact I1).
  assert (Len1 : 2 <= length (open_elems s1)) by exact Len.
  assert (Hd1 : head_elem s1 <> None) by exact Hd.
  destruct head_noscript_facts as (F0 & F3 & N3 & F4 & N4 & F5 & N5).
  assert (AE : wp (in_head_noscript_anything_else t) (step_post t) s1).
  { unfold in_head_noscript_anything_else. rewrite wp_bind, wp_parse_error, wp_bind.
    eapply (wp_pop s1); [(apply keeps_set_out; [|reflexivity]); exact K1 | exact L1 | exact Len1 |].
    intros e s2 K2 _ _ _. rewrite wp_ret. pose proof K2 as [I2 S2].
    apply (reprocess_post s1); [exact K2 | exact L1 | exact NS1 | reflexivity | reflexivity |].
    intros _. rewrite (st_head _ _ S2). exact Hd1. }
  arm_cases k Eb.
  - eapply wp_mono; [apply (in_body_html s1 t _ I1 L1 Sc F0 Hm)|]. intros r s' [P _]. exact P.
  - rewrite wp_bind. eapply (wp_pop s1); [exact K1 | exact L1 | exact Len1 |].
    intros e s2 K2 _ _ _. pose proof K2 as [I2 S2].
    apply (set_mode_done_post s1); [exact K2 | exact L1 | exact NS1 | reflexivity | reflexivity |].
    intros _. rewrite (st_head _ _ S2). exact Hd1.
  - apply arm_split; exact I1.
  - apply (in_head_delegated s1 t _ I1 L1 NS1 Sc F3 N3 Hm).
  - apply (in_head_delegated s1 t _ I1 L1 NS1 Sc F4 N4 Hm).
  - apply (in_head_delegated s1 t _ I1 L1 NS1 Sc F5 N5 Hm).
  - exact AE.
  - apply arm_unexpected; exact I1.
  - exact AE.
Qed.

(* events emitted after an indicator result do not hide it *)
Lemma enc_tail_prepend s s' l evs : out s' = evs ++ out s -> forallb (fun ev => negb (is_enc_probe ev)) evs = true ->
  opts s' = opts s -> forall t, enc_tail t s l -> enc_tail t s' l.
Proof.
  intros O F Op t (post & k & h & name & attrs & En & Ea & (older & Eo & Rest) & Fp & Kk & Dm).
  exists (evs ++ post), k, h, name, attrs. split; [exact En | split; [exact Ea|]].
  split; [exists older; split; [rewrite O, Eo, app_assoc; reflexivity | exact Rest]|].
  split; [rewrite forallb_app, F, Fp; reflexivity|]. split; [exact Kk|].
  intro D. apply Dm. unfold dev_on in *. rewrite <- Op. exact D.
Qed.

Lemma wp_remove_from_stack_named_out s node name (Q : unit -> st -> Prop) :
  TInv s -> late s -> ename_of s node = (ns_html, name) -> name <> nm "html" ->
  (forall s', keeps s s' -> (exists evs, out s' = evs ++ out s /\ forallb (fun ev => negb (is_enc_probe ev)) evs = true) -> Q tt s') ->
  wp (remove_from_stack node) Q s.
Proof.
  intros I L En N H. assert (K : keeps s s) by (apply keeps_refl; exact I).
  unfold remove_from_stack. rewrite wp_bind, wp_get.
  destruct (rposition (same_node node) (open_elems s)) as [p|] eqn:Ep; [|rewrite wp_ret; apply H; [exact K | exists []; split; reflexivity]].
  apply rposition_some in Ep. destruct Ep as (y & Ey & Sy). unfold same_node in Sy. apply Nat.eqb_eq in Sy. subst y.
  destruct (TInv_stack_nonempty _ I L) as (r & rest & Est & Nr).
  assert (Lp : 1 <= p) by (eapply named_not_root; eassumption).
  rewrite wp_bind, wp_modify, wp_emit. apply H; [|exists [EvOp (OpPop node)]; split; reflexivity].
  apply keeps_emit; [apply keeps_vremove_stack; assumption | reflexivity | reflexivity |]. cbn [op_okb].
  apply known_v_elem. change (known s node). eapply TInv_stack_known; [exact I | eapply nth_error_In; exact Ey].
Qed.

(* ---------- AfterHead ---------- *)
Lemma after_head_facts :
  forallb (lands heads_in_body [3]) (nth 3 heads_after_head []) = true /\
  forallb (atom_names safe_name false) (nth 4 heads_after_head []) = true /\
  forallb (atom_names safe_name false) (nth 5 heads_after_head []) = true /\
  forallb (lands heads_in_head ih_plain) (nth 6 heads_after_head []) = true /\
  forallb (lands heads_in_head [4; 5; 6; 7; 10]) (nth 6 heads_after_head []) = true /\
  forallb (atom_names not_noscript true) (nth 6 heads_after_head []) = true /\
  forallb (lands heads_in_head ih_plain) (nth 7 heads_after_head []) = true /\
  forallb (atom_names not_noscript true) (nth 7 heads_after_head []) = true.
Proof. repeat split; reflexivity. Qed.

Lemma head_not_html : nm "head" <> nm "html". Proof. discriminate. Qed.

Lemma step_after_head_ok s t : TInv s -> mode s = AfterHead -> scalar_tok t ->
  wp (step_after_head step_in_head step_in_body t) (step_post t) s.
Proof.
  intros I Em Sc. assert (L : late s) by (unfold late; rewrite Em; reflexivity).
  assert (NS : saving_mode (mode s) = false) by (rewrite Em; reflexivity).
  assert (Hd : head_elem s <> None) by (apply TInv_head_set; [exact I | rewrite Em; reflexivity]).
  unfold step_after_head.
  apply wp_arm_dispatch; [apply total_after_head | apply (aligned_all step_in_head step_in_body b_done) |].
  intros k b Ek Eb Hm Hn. pose proof (TInv_arm s (mode_id AfterHead) k I) as I1. set (s1 := set_out _ s) in *.
  assert (L1 : late s1) by exact L. assert (NS1 : saving_mode (mode s1) = false) by exact NS.
  assert (K1 : keeps s1 s1) by (apply keeps_refl; exact I1).
  assert (Hd1 : head_elem s1 <> None) by exact Hd.
  destruct after_head_facts as (F3 & F4 & F5 & F6 & F6k & N6 & F7 & N7).
  assert (AE : wp (after_head_anything_else t) (step_post t) s1).
  { unfold after_head_anything_else, insert_phantom. rewrite wp_bind.
    eapply (wp_insert_element_std s1); [exact K1 | exact L1 | discriminate | discriminate |].
    intros h s2 K2 _ _ _ _. rewrite wp_ret.
    apply (reprocess_post s1); [exact K2 | exact L1 | exact NS1 | reflexivity | reflexivity | intro X; discriminate X]. }
  arm_cases k Eb.
  - apply arm_split; exact I1.
  - apply arm_append_text; assumption.
  - apply arm_append_comment; assumption.
  - eapply wp_mono; [apply (in_body_html s1 t _ I1 L1 Sc F3 Hm)|]. intros r s' [P _]. exact P.
  - (* 4 <body> *)
    destruct (head_safe _ _ F4 Hm) as (g & -> & N0 & N1 & N2). cbn [tk_tag]. rewrite wp_bind. unfold insert_element_for.
    eapply (wp_insert_element_std s1); [exact K1 | exact L1 | exact N1 | exact N2 |].
    intros h s2 K2 _ _ _ _. rewrite wp_bind. eapply (wp_set_frameset_not_ok s1); [exact K2|]. intros s3 K3 _.
    apply (set_mode_done_post s1); [exact K3 | exact L1 | exact NS1 | reflexivity | reflexivity | intro X; discriminate X].
  - (* 5 <frameset> *)
    destruct (head_safe _ _ F5 Hm) as (g & -> & N0 & N1 & N2). cbn [tk_tag]. rewrite wp_bind. unfold insert_element_for.
    eapply (wp_insert_element_std s1); [exact K1 | exact L1 | exact N1 | exact N2 |].
    intros h s2 K2 _ _ _ _.
    apply (set_mode_done_post s1); [exact K2 | exact L1 | exact NS1 | reflexivity | reflexivity | intro X; discriminate X].
  - (* 6 head-level start tags *)
    rewrite wp_bind, wp_parse_error, wp_bind, wp_get, wp_bind, wp_unwrap.
    set (s2 := set_out _ s1).
    assert (I2 : TInv s2) by (eapply TInv_core_eq; [(apply core_eq_set_out; reflexivity) | exact I1]).
    destruct (head_elem s2) as [hd|] eqn:Eh; [|exfalso; apply Hd1; exact Eh].
    exists hd. split; [reflexivity|].
    rewrite wp_bind. unfold push. rewrite wp_modify.
    set (s3 := set_open_elems _ s2).
    assert (Kh : known s2 hd) by (eapply known_handles_in; [apply inv_known; exact I2 | apply in_handles_head; exact Eh]).
    assert (Nh : ename_of s2 hd = (ns_html, nm "head")) by (apply (proj1 (inv_ptr _ I2)); exact Eh).
    assert (I3 : TInv s3).
    { apply TInv_push_gen; [exact I2 | exact L1 | exact Kh | intros _; rewrite Eh; discriminate | rewrite Nh; discriminate]. }
    assert (L3 : late s3) by exact L1. assert (NS3 : saving_mode (mode s3) = false) by exact NS1.
    pose proof (lands_sound _ _ _ _ F6k Hm) as Hk.
    rewrite wp_bind. eapply wp_mono.
    { apply wp_conj.
      - apply (step_in_head_ok s3 t I3 L3 NS3 Sc). apply (ih_pre_of_lands s3 t _ F6 N6 Hm).
      - apply (step_in_head_gen_head_kept step_in_body_0 s3 t I3 L3 NS3 Sc Hk). }
    intros r s' [[[TR RO] Hr] [Hh Ls']].
    assert (Nr : is_reprocess r = false).
    { destruct (is_reprocess r) eqn:Er; [|reflexivity]. exfalso. specialize (Hr eq_refl).
      destruct Hk as [X|[X|[X|[X|[X|[]]]]]]; rewrite <- X in Hr; simpl in Hr; intuition discriminate. }
    assert (Is' : TInv s') by (destruct r; simpl in TR, Nr; try exact TR; [discriminate Nr | destruct TR | exact (proj1 TR)]).
    assert (Eh' : head_elem s' = Some hd) by (rewrite Hh; exact Eh).
    assert (Nh' : ename_of s' hd = (ns_html, nm "head")) by (apply (proj1 (inv_ptr _ Is')); exact Eh').
    rewrite wp_bind.
    eapply (wp_remove_from_stack_named_out s' hd (nm "head")); [exact Is' | exact Ls' | exact Nh' | exact head_not_html |].
    intros s'' K'' (evs & Oe & Fe). rewrite wp_ret. split; [|exact RO].
    destruct r; simpl in Nr, TR |- *; try exact (keeps_TInv _ _ K''); [discriminate Nr | destruct TR |].
    split; [exact (keeps_TInv _ _ K'')|]. eapply enc_tail_prepend; [exact Oe | exact Fe | exact (st_opts _ _ (proj2 K'')) | exact (proj2 TR)].
  - (* 7 </template> *) apply (in_head_delegated s1 t _ I1 L1 NS1 Sc F7 N7 Hm).
  - exact AE.
  - apply arm_unexpected; exact I1.
  - exact AE.
Qed.

(* ---------- the current node ---------- *)
Lemma wp_current_node_in s set (Q : bool -> st -> Prop) : TInv s -> late s ->
  (forall h, vlast (open_elems s) = Some h -> Q (set (ename_of s h)) s) -> wp (current_node_in set) Q s.
Proof.
  intros I L H. unfold current_node_in. rewrite wp_bind. apply wp_current_node; [exact I | exact L |].
  intros h V. rewrite wp_bind, wp_get, wp_ret. apply H. exact V.
Qed.
Lemma wp_current_node_named s n (Q : bool -> st -> Prop) : TInv s -> late s ->
  (forall h, vlast (open_elems s) = Some h -> Q (html_elem_named_b s h n) s) -> wp (current_node_named n) Q s.
Proof.
  intros I L H. unfold current_node_named. rewrite wp_bind. apply wp_current_node; [exact I | exact L |].
  intros h V. rewrite wp_bind, wp_get, wp_ret. apply H. exact V.
Qed.

(* ---------- leaving Text / InTableText ---------- *)
Lemma leave_saving_state s0 s : keeps s0 s -> late s0 -> saving_mode (mode s0) = true -> pending_table_text s = [] ->
  exists om, orig_mode s = Some om /\ saving_mode om = false /\ TInv (set_mode om (set_orig_mode None s)).
Proof.
  intros K L Sv P. pose proof K as [I S].
  destruct (TInv_orig_some s I) as (om & Eo & So & _); [rewrite (st_mode _ _ S); exact Sv|].
  exists om. split; [exact Eo|]. split; [exact So|].
  apply TInv_leave_saving; [exact I | eapply keeps_late; eassumption | exact Eo | exact P].
Qed.

(* ---------- Text ---------- *)
Lemma text_facts : forallb atom_is_tag (nth 2 heads_text []) = true.
Proof. reflexivity. Qed.

Lemma step_text_ok s t : TInv s -> Hshape s -> mode s = Text -> tok_ok s t -> wp (step_text t) (step_post t) s.
Proof.
  intros I Sh Em TO. assert (L : late s) by (unfold late; rewrite Em; reflexivity).
  assert (Len : 2 <= length (open_elems s)) by (apply Hshape_depth; auto).
  unfold step_text. apply wp_arm_dispatch; [apply total_text | apply (aligned_all b_done b_done b_done) |].
  intros k b Ek Eb Hm Hn. pose proof (TInv_arm s (mode_id Text) k I) as I1. set (s1 := set_out _ s) in *.
  assert (L1 : late s1) by exact L. assert (Em1 : mode s1 = Text) by exact Em.
  assert (K1 : keeps s1 s1) by (apply keeps_refl; exact I1).
  assert (Len1 : 2 <= length (open_elems s1)) by exact Len.
  assert (Pend : forall s4, keeps s1 s4 -> pending_table_text s4 = []).
  { intros s4 K4. apply (inv_pending _ (keeps_TInv _ _ K4)). pose proof K4 as [_ S4]. rewrite (st_mode _ _ S4), Em1. discriminate. }
  arm_cases k Eb.
  - apply arm_append_text; assumption.
  - (* Eof *)
    rewrite wp_bind, wp_parse_error, wp_bind. set (s2 := set_out _ s1).
    assert (K2 : keeps s1 s2) by ((apply keeps_set_out; [|reflexivity]); exact K1).
    assert (Rest : forall s3, keeps s1 s3 -> open_elems s3 = open_elems s1 ->
       wp (_e <- pop ;; s <- get ;; om <- unwrap (orig_mode s) 39 ;; modify (set_orig_mode None) ;; ret (Reprocess om t))
          (step_post t) s3).
    { intros s3 K3 E3. rewrite wp_bind.
      eapply (wp_pop s1 s3); [exact K3 | eapply keeps_late; eassumption | rewrite E3; exact Len1 |].
      intros e s4 K4 _ _ _. rewrite wp_bind, wp_get, wp_bind, wp_unwrap.
      destruct (leave_saving_state s1 s4 K4 L1) as (om & Eo & So & Io); [rewrite Em1; reflexivity | apply Pend; exact K4 |].
      exists om. split; [exact Eo|]. rewrite wp_bind, wp_modify, wp_ret.
      split; [split; [exact Io | apply nonsaving_not_text; exact So] | apply res_ok_reprocess]. }
    apply wp_current_node_named; [exact (keeps_TInv _ _ K2) | exact L1 |]. intros h V. rewrite wp_bind.
    destruct (html_elem_named_b s2 h (nm "script")) eqn:Ns.
    + rewrite wp_bind, wp_get, wp_bind, wp_unwrap. exists h. split; [exact V|]. rewrite wp_emit.
      assert (Kh : known s2 h) by (eapply TInv_stack_known; [exact (keeps_TInv _ _ K2) | apply vlast_In; exact V]).
      apply Rest; [apply keeps_emit; [exact K2 | reflexivity | reflexivity |] | reflexivity].
      cbn [op_okb]. rewrite (v_named_ename s2 h _ Kh). unfold html_elem_named_b in Ns. apply ename_eqb_eq in Ns. rewrite Ns. reflexivity.
    + rewrite wp_ret. apply Rest; [exact K2 | reflexivity].
  - (* end tag *)
    rewrite wp_bind. eapply (wp_pop s1 s1); [exact K1 | exact L1 | exact Len1 |].
    intros node s4 K4 _ _ _. rewrite wp_bind, wp_get, wp_bind, wp_unwrap.
    destruct (leave_saving_state s1 s4 K4 L1) as (om & Eo & So & Io); [rewrite Em1; reflexivity | apply Pend; exact K4 |].
    exists om. split; [exact Eo|]. rewrite wp_bind, wp_modify. unfold set_mode_m. rewrite wp_bind, wp_modify.
    assert (C : is_chars t = false) by exact (head_tag_not_chars _ _ text_facts Hm).
    destruct (is_n (tname t) "script"); rewrite wp_ret; (split; [exact Io | apply res_ok_nonchars; [exact C | exact Logic.I]]).
  - (* unreachable: the tokenizer only delivers characters, end tags and EOF in this mode *)
    exfalso. specialize (TO Em).
    pose proof (Hn 0 ltac:(lia)) as H0. pose proof (Hn 1 ltac:(lia)) as H1. pose proof (Hn 2 ltac:(lia)) as H2.
    destruct t as [g|c|sp c| |]; simpl in TO; try discriminate TO.
    + unfold head_matches in H2. simpl in H2. rewrite TO in H2. discriminate H2.
    + unfold head_matches in H0. simpl in H0. discriminate H0.
    + unfold head_matches in H1. simpl in H1. discriminate H1.
Qed.

(* ---------- InTableText ---------- *)
Lemma TInv_set_pending s p : TInv s -> (mode s <> InTableText -> p = []) -> TInv (set_pending_table_text p s).
Proof.
  intros [I1 I2 I3 I4 I5 I6 I7 I8 I9 I10 I11] H. constructor; assumption.
Qed.

Lemma foster_parent_in_body_ok s t : TInv s -> late s -> (saving_mode (mode s) = false \/ is_chars t = true) -> scalar_tok t ->
  wp (foster_parent_in_body t) (ib_post t) s.
Proof.
  intros I L NSC Sc. unfold foster_parent_in_body. rewrite wp_bind, wp_modify, wp_bind.
  eapply wp_mono; [apply step_in_body_ok; [eapply TInv_core_eq; [apply core_eq_set_foster_parenting | exact I] | exact L | exact NSC | exact Sc]|].
  intros r s' [[TR RO] Cd]. rewrite wp_bind, wp_modify, wp_ret. split; [split; [|exact RO] | exact Cd].
  apply TInvR_set_foster. exact TR.
Qed.

Lemma foster_chars_keeps s t : TInv s -> late s -> is_chars t = true ->
  wp (foster_parent_in_body t) (fun r s' => keeps s s' /\ r = Done) s.
Proof.
  intros I L C. unfold foster_parent_in_body. rewrite wp_bind, wp_modify, wp_bind.
  set (s1 := set_foster_parenting true s).
  assert (K1 : keeps s s1) by (apply keeps_set_foster_parenting; apply keeps_refl; exact I).
  eapply wp_mono; [apply (step_in_body_chars_keeps s1 t); [exact (keeps_TInv _ _ K1) | exact L | exact C]|].
  intros r s' [K' ->]. rewrite wp_bind, wp_modify, wp_ret. split; [|reflexivity].
  apply keeps_set_foster_parenting. eapply keeps_trans; eassumption.
Qed.

Lemma step_in_table_text_ok s t : TInv s -> mode s = InTableText -> wp (step_in_table_text t) (step_post t) s.
Proof.
  intros I Em. assert (L : late s) by (unfold late; rewrite Em; reflexivity).
  unfold step_in_table_text. apply wp_arm_dispatch; [apply total_in_table_text | apply (aligned_all b_done b_done b_done) |].
  intros k b Ek Eb Hm Hn. pose proof (TInv_arm s (mode_id InTableText) k I) as I1. set (s1 := set_out _ s) in *.
  assert (L1 : late s1) by exact L. assert (Em1 : mode s1 = InTableText) by exact Em.
  arm_cases k Eb.
  - apply arm_unexpected; exact I1.
  - rewrite wp_bind, wp_modify, wp_ret. apply step_post_done. apply TInv_set_pending; [exact I1|].
    intro X. exfalso. apply X. exact Em1.
  - rewrite wp_bind, wp_get, wp_bind, wp_modify.
    set (s2 := set_pending_table_text [] s1). set (pending := pending_table_text s1).
    assert (I2 : TInv s2) by (apply TInv_set_pending; [exact I1 | reflexivity]).
    assert (L2 : late s2) by exact L1.
    assert (Tail : forall s3, keeps s2 s3 ->
       wp (s <- get ;; om <- unwrap (orig_mode s) 41 ;; modify (set_orig_mode None) ;; ret (Reprocess om t)) (step_post t) s3).
    { intros s3 K3. rewrite wp_bind, wp_get, wp_bind, wp_unwrap.
      destruct (leave_saving_state s2 s3 K3 L2) as (om & Eo & So & Io); [change (saving_mode (mode s1) = true); rewrite Em1; reflexivity | pose proof K3 as [_ S3]; rewrite (st_pending _ _ S3); reflexivity |].
      exists om. split; [exact Eo|]. rewrite wp_bind, wp_modify, wp_ret.
      split; [split; [exact Io | apply nonsaving_not_text; exact So] | apply res_ok_reprocess]. }
    rewrite wp_bind. destruct (pending_contains_nonspace pending).
    + rewrite wp_bind. apply wp_probe. rewrite wp_bind, wp_parse_error.
      eapply wp_mono.
      { apply (wp_mapM_ _ pending (fun s' => keeps s2 s')).
        - do 2 (apply keeps_set_out; [|reflexivity]). apply keeps_refl. exact I2.
        - intros x s0 _ K0. rewrite wp_bind.
          eapply wp_mono; [apply (foster_chars_keeps s0); [exact (keeps_TInv _ _ K0) | eapply keeps_late; eassumption | reflexivity]|].
          intros r s' [K' ->]. rewrite wp_ret. eapply keeps_trans; eassumption. }
      intros _u s3 K3. apply Tail. exact K3.
    + rewrite wp_bind. apply wp_probe.
      eapply wp_mono.
      { apply (wp_mapM_ _ pending (fun s' => keeps s2 s')).
        - (apply keeps_set_out; [|reflexivity]). apply keeps_refl. exact I2.
        - intros x s0 _ K0. rewrite wp_bind.
          eapply (wp_append_text s2); [exact K0 | eapply keeps_late; eassumption |]. intros s' K' _. rewrite wp_ret. exact K'. }
      intros _u s3 K3. apply Tail. exact K3.
Qed.

(* ---------- "clear the stack back to a ... context" ---------- *)
Lemma wp_pop_until_current_eq s0 s set (Q : unit -> st -> Prop) :
  keeps s0 s -> late s -> in_set set html_html = true ->
  (forall s' rest, keeps s0 s' -> shrunk s s' ->
      drop_until_in s (in_set set) (rev (open_elems s)) = Some rest -> open_elems s' = rev rest -> Q tt s') ->
  wp (pop_until_current set) Q s.
Proof.
  intros K L Hs H. pose proof K as [I S].
  unfold pop_until_current. rewrite wp_bind, wp_get.
  destruct (TInv_stack_nonempty _ I L) as (r & tl & Er & Nr).
  destruct (drop_until_in_some s (in_set set) (rev (open_elems s))) as [rest E].
  { exists r. split; [rewrite Er, rev_root; apply in_or_app; right; left; reflexivity | rewrite Nr; exact Hs]. }
  rewrite E. destruct (drop_until_in_suffix _ _ _ _ E) as [[pre A] (e & r' & B & Se)].
  pose proof (rev_suffix_prefix _ _ _ A) as P.
  rewrite wp_modify. apply (H _ rest); [| | exact E | reflexivity].
  - rewrite P. apply keeps_shrink; [exact K | exact L | subst rest; simpl; lia].
  - exists (length rest). simpl. repeat split; [subst rest; simpl; lia | | exact P].
    apply (f_equal (@length _)) in A. rewrite rev_length, app_length in A. lia.
Qed.

(* (A) some element other than the root is in the context set: the walk stops above the root *)
Lemma wp_pop_until_current_above_root s0 s set (Q : unit -> st -> Prop) :
  keeps s0 s -> late s -> in_set set html_html = true ->
  (exists x, In x (open_elems s) /\ in_set set (ename_of s x) = true /\ ename_of s x <> html_html) ->
  (forall s', keeps s0 s' -> shrunk s s' -> 2 <= length (open_elems s') -> Q tt s') ->
  wp (pop_until_current set) Q s.
Proof.
  intros K L Hs (x & Hin & Hx & Nx) H. pose proof K as [I _].
  destruct (TInv_stack_nonempty _ I L) as (r & tl & Er & Nr).
  eapply wp_pop_until_current_eq; [exact K | exact L | exact Hs |].
  intros s' rest K' Sh D E'. apply H; [exact K' | exact Sh |].
  rewrite Er in D. destruct (drop_until_in_not_root s (in_set set) r tl rest D) as (e & rest' & -> & Ne & _).
  { exists x. split; [|exact Hx]. rewrite Er in Hin. destruct Hin as [<-|Hin]; [contradiction | exact Hin]. }
  rewrite E'. simpl. rewrite app_length, rev_length. simpl. destruct rest'; [contradiction | simpl; lia].
Qed.

(* (B) the walk of has_in_table_scope and the walk of pop_until_current stop at the same element *)
Lemma scope_stop s (scope : ename -> bool) (pred : handle -> bool) (ctx : ename -> bool) :
  (forall e, pred e = true -> ctx (ename_of s e) = true) ->
  (forall e, ctx (ename_of s e) = true -> scope (ename_of s e) = true \/ pred e = true) ->
  forall l, in_scope_l s scope pred l = true -> exists e r', drop_until_in s ctx l = Some (e :: r') /\ pred e = true.
Proof.
  intros H1 H2. induction l as [|n r IH]; intro S; simpl in S; [discriminate|]. simpl.
  destruct (pred n) eqn:Pn.
  - rewrite (H1 _ Pn). exists n, r. split; [reflexivity | exact Pn].
  - destruct (scope (ename_of s n)) eqn:Sn; [discriminate|].
    destruct (ctx (ename_of s n)) eqn:Cn; [|apply IH; exact S].
    destruct (H2 _ Cn) as [X|X]; congruence.
Qed.

Lemma in_set_cases set (P : ename -> Prop) : Forall P set -> forall n, in_set set n = true -> P n.
Proof.
  intros F n H. unfold in_set in H. apply existsb_exists in H. destruct H as (a & Hin & E).
  apply ename_eqb_eq in E. subst a. rewrite Forall_forall in F. apply F. exact Hin.
Qed.

Lemma scope_for_table s : scope_for s table_scope = table_scope.
Proof.
  unfold scope_for. replace (in_set table_scope (ns_mathml, nm "mi")) with false by reflexivity.
  rewrite andb_false_r. reflexivity.
Qed.

Lemma row_context_cases n : in_set table_row_context n = true ->
  in_set table_scope n = true \/ ename_eqb n (ns_html, nm "tr") = true.
Proof.
  apply (in_set_cases table_row_context (fun n => in_set table_scope n = true \/ ename_eqb n (ns_html, nm "tr") = true)).
  unfold table_row_context. repeat (apply Forall_cons; [first [left; reflexivity | right; reflexivity]|]). apply Forall_nil.
Qed.

Lemma tr_not_html : (ns_html, nm "tr") <> html_html. Proof. discriminate. Qed.

Lemma wp_close_row s (Q : unit -> st -> Prop) :
  TInv s -> late s -> in_scope_named s table_scope (nm "tr") = true ->
  (forall s', keeps s s' -> shrunk s s' -> Q tt s') -> wp close_row Q s.
Proof.
  intros I L Sc H. unfold close_row. rewrite wp_bind.
  eapply (wp_pop_until_current_eq s s); [apply keeps_refl; exact I | exact L | reflexivity |].
  intros s1 rest K1 Sh1 D E1.
  unfold in_scope_named, in_scope in Sc. rewrite scope_for_table in Sc.
  destruct (scope_stop s (in_set table_scope) (fun h => html_elem_named_b s h (nm "tr")) (in_set table_row_context)) with (l := rev (open_elems s))
    as (e & r' & D' & Pe).
  { intros e Pe. apply ename_eqb_eq in Pe. rewrite Pe. reflexivity. }
  { intros e Ce. apply row_context_cases in Ce. exact Ce. }
  { exact Sc. }
  rewrite D in D'. injection D' as ->.
  assert (V1 : vlast (open_elems s1) = Some e) by (rewrite E1; simpl; apply vlast_app).
  apply ename_eqb_eq in Pe.
  assert (Ke : known s e).
  { eapply TInv_stack_known; [exact I|]. eapply shrunk_In; [exact Sh1|]. apply vlast_In. exact V1. }
  pose proof K1 as [I1 S1]. assert (L1 : late s1) by (eapply keeps_late; eassumption).
  assert (N1 : ename_of s1 e = (ns_html, nm "tr")) by (rewrite (keeps_name _ _ _ K1 Ke); exact Pe).
  assert (Len1 : 2 <= length (open_elems s1)).
  { destruct (TInv_stack_nonempty _ I1 L1) as (r & rest0 & Er & Nr). rewrite Er. destruct rest0; [|simpl; lia].
    exfalso. rewrite Er in V1. simpl in V1. injection V1 as <-. rewrite Nr in N1. discriminate N1. }
  rewrite wp_bind. eapply (wp_pop s s1); [exact K1 | exact L1 | exact Len1 |].
  intros e' s2 K2 V E2 _. rewrite V1 in V. injection V as <-.
  rewrite wp_bind, wp_get, wp_assert. split.
  - unfold named, html_elem_named_b. rewrite (keeps_name _ _ _ K2 Ke), Pe. apply ename_eqb_refl.
  - apply H; [exact K2|]. eapply shrunk_trans; [exact Sh1|].
    exists (length (open_elems s1) - 1). repeat split; [lia | lia | exact E2].
Qed.

(* ---------- InTable ---------- *)
Lemma process_chars_in_table_ok s t : TInv s -> late s -> saving_mode (mode s) = false -> scalar_tok t ->
  wp (process_chars_in_table t) (step_post t) s.
Proof.
  intros I L NS Sc. unfold process_chars_in_table. rewrite wp_bind, wp_get, wp_bind.
  apply wp_current_node_in; [exact I | exact L |]. intros h V.
  match goal with |- wp (if ?b then _ else _) _ _ => destruct b end.
  - rewrite wp_bind, wp_get, wp_bind, wp_assert. split.
    + rewrite (pending_nil_of_nonsaving s I NS). reflexivity.
    + rewrite wp_bind, wp_modify, wp_ret.
      split; [split; [apply TInv_enter_table_text; assumption | discriminate] | apply res_ok_reprocess].
  - rewrite wp_bind, wp_parse_error.
    eapply wp_mono; [apply foster_parent_in_body_ok; [eapply TInv_core_eq; [(apply core_eq_set_out; reflexivity) | exact I] | exact L | left; exact NS | exact Sc]|].
    intros r s' [P _]. exact P.
Qed.

Definition form_name (n : str) : bool := is_n n "form".

Lemma in_table_facts :
  forallb (atom_names safe_name false) (nth 2 heads_in_table []) = true /\
  forallb (atom_names safe_name false) (nth 3 heads_in_table []) = true /\
  forallb (atom_names safe_name false) (nth 5 heads_in_table []) = true /\
  forallb (lands heads_in_head ih_plain) (nth 10 heads_in_table []) = true /\
  forallb (atom_names not_noscript true) (nth 10 heads_in_table []) = true /\
  forallb (atom_names safe_name false) (nth 11 heads_in_table []) = true /\
  forallb (atom_names form_name false) (nth 12 heads_in_table []) = true /\
  forallb atom_is_tag (nth 8 heads_in_table []) = true.
Proof. repeat split; reflexivity. Qed.

Lemma table_not_html : nm "table" <> nm "html". Proof. discriminate. Qed.

(* clear the stack back to a table context, insert, switch *)
Lemma table_insert_switch s g m t (marker : bool) :
  TInv s -> late s -> saving_mode (mode s) = false ->
  (ns_html, tg_name g) <> (ns_html, nm "head") -> (ns_html, tg_name g) <> (ns_html, nm "template") ->
  early_mode m = false -> saving_mode m = false -> head_needed m = false ->
  wp (pop_until_current table_scope ;; (if marker then push_marker else ret tt) ;;
      _e <- insert_element_for g ;; set_mode_m m ;; ret Done) (step_post t) s.
Proof.
  intros I L NS N1 N2 Em Sm Hm. assert (K : keeps s s) by (apply keeps_refl; exact I).
  rewrite wp_bind. eapply (wp_pop_until_current s); [exact K | exact L | reflexivity |]. intros s2 K2 _ _. rewrite wp_bind.
  assert (Rest : forall s3, keeps s s3 -> wp (_e <- insert_element_for g ;; set_mode_m m ;; ret Done) (step_post t) s3).
  { intros s3 K3. rewrite wp_bind. unfold insert_element_for.
    eapply (wp_insert_element_std s); [exact K3 | eapply keeps_late; eassumption | exact N1 | exact N2 |].
    intros h s4 K4 _ _ _ _.
    apply (set_mode_done_post s); [exact K4 | exact L | exact NS | exact Em | exact Sm | rewrite Hm; discriminate]. }
  destruct marker.
  - eapply (wp_push_marker s); [exact K2|]. intros s3 K3 _. apply Rest. exact K3.
  - rewrite wp_ret. apply Rest. exact K2.
Qed.

Lemma table_phantom_reprocess s name m t :
  TInv s -> late s -> saving_mode (mode s) = false ->
  (ns_html, name) <> (ns_html, nm "head") -> (ns_html, name) <> (ns_html, nm "template") ->
  early_mode m = false -> saving_mode m = false -> head_needed m = false ->
  wp (pop_until_current table_scope ;; _e <- insert_phantom name ;; ret (Reprocess m t)) (step_post t) s.
Proof.
  intros I L NS N1 N2 Em Sm Hm. assert (K : keeps s s) by (apply keeps_refl; exact I).
  rewrite wp_bind. eapply (wp_pop_until_current s); [exact K | exact L | reflexivity |]. intros s2 K2 _ _.
  rewrite wp_bind. unfold insert_phantom.
  eapply (wp_insert_element_std s); [exact K2 | eapply keeps_late; eassumption | exact N1 | exact N2 |].
  intros h s4 K4 _ _ _ _. rewrite wp_ret.
  apply (reprocess_post s); [exact K4 | exact L | exact NS | exact Em | exact Sm | rewrite Hm; discriminate].
Qed.

(* pop to the table element and reset the insertion mode *)
Lemma wp_close_table s0 s (Q : imode -> st -> Prop) :
  keeps s0 s -> late s -> in_scope_named s table_scope (nm "table") = true ->
  (forall m s', keeps s0 s' -> early_mode m = false -> saving_mode m = false ->
                (head_needed m = true -> head_elem s' <> None) -> Q m s') ->
  wp (_n <- pop_until_named (nm "table") ;; reset_insertion_mode) Q s.
Proof.
  intros K L Sc H. rewrite wp_bind.
  eapply (wp_pop_until_named s0 s); [exact K | exact L | exact table_not_html | apply in_scope_named_In in Sc; exact Sc |].
  intros n s3 K3 Sh3.
  eapply (wp_reset_insertion_mode s0 s3); [exact K3 | eapply keeps_late; [exact K3|] |].
  - pose proof K as [_ S]. unfold late in *. rewrite <- (st_mode _ _ S). exact L.
  - intros m s' K' _ Em Sm Hm. apply H; [exact K' | exact Em | exact Sm |].
    intro X. pose proof K' as [_ S']. pose proof K3 as [_ S3]. rewrite (st_head _ _ S'), <- (st_head _ _ S3). apply Hm. exact X.
Qed.

Lemma step_in_table_ok s t : TInv s -> late s -> saving_mode (mode s) = false -> scalar_tok t ->
  wp (step_in_table t) (step_post t) s.
Proof.
  intros I L NS Sc. unfold step_in_table.
  apply wp_arm_dispatch; [apply total_in_table | apply (aligned_all b_done b_done b_done) |].
  intros k b Ek Eb Hm Hn. pose proof (TInv_arm s (mode_id InTable) k I) as I1. set (s1 := set_out _ s) in *.
  assert (L1 : late s1) by exact L. assert (NS1 : saving_mode (mode s1) = false) by exact NS.
  assert (K1 : keeps s1 s1) by (apply keeps_refl; exact I1).
  destruct in_table_facts as (F2 & F3 & F5 & F10 & N10 & F11 & F12 & F8).
  assert (Foster : forall s2, keeps s1 s2 -> wp (foster_parent_in_body t) (step_post t) s2).
  { intros s2 K2. pose proof K2 as [I2 S2].
    eapply wp_mono; [apply foster_parent_in_body_ok; [exact I2 | eapply keeps_late; eassumption | left; rewrite (st_mode _ _ S2); exact NS1 | exact Sc]|].
    intros r s' [P _]. exact P. }
  arm_cases k Eb.
  - (* 0 *) apply process_chars_in_table_ok; assumption.
  - (* 1 *) apply arm_append_comment; assumption.
  - (* 2 <caption> *)
    destruct (head_safe _ _ F2 Hm) as (g & -> & N0 & N1 & N2). cbn [tk_tag].
    apply (table_insert_switch s1 g InCaption (KTag g) true); try assumption; reflexivity.
  - (* 3 <colgroup> *)
    destruct (head_safe _ _ F3 Hm) as (g & -> & N0 & N1 & N2). cbn [tk_tag].
    pose proof (table_insert_switch s1 g InColumnGroup (KTag g) false I1 L1 NS1 N1 N2 eq_refl eq_refl eq_refl) as X.
    rewrite wp_bind in X. rewrite wp_bind. eapply wp_mono; [exact X|]. intros u s' Y. rewrite wp_bind, wp_ret in Y. exact Y.
  - (* 4 <col> *)
    apply (table_phantom_reprocess s1 (nm "colgroup") InColumnGroup t); try assumption; try reflexivity; discriminate.
  - (* 5 <tbody> <tfoot> <thead> *)
    destruct (head_safe _ _ F5 Hm) as (g & -> & N0 & N1 & N2). cbn [tk_tag].
    pose proof (table_insert_switch s1 g InTableBody (KTag g) false I1 L1 NS1 N1 N2 eq_refl eq_refl eq_refl) as X.
    rewrite wp_bind in X. rewrite wp_bind. eapply wp_mono; [exact X|]. intros u s' Y. rewrite wp_bind, wp_ret in Y. exact Y.
  - (* 6 <td> <th> <tr> *)
    apply (table_phantom_reprocess s1 (nm "tbody") InTableBody t); try assumption; try reflexivity; discriminate.
  - (* 7 <table> *)
    rewrite wp_bind, wp_parse_error, wp_bind, wp_get. set (s2 := set_out _ s1).
    assert (K2 : keeps s1 s2) by ((apply keeps_set_out; [|reflexivity]); exact K1).
    destruct (in_scope_named s2 table_scope (nm "table")) eqn:Sc2.
    + rewrite wp_assoc. rewrite wp_bind.
      eapply (wp_close_table s1 s2); [exact K2 | exact L1 | exact Sc2 |].
      intros m s' K' Em Sm Hd. rewrite wp_ret. apply (reprocess_post s1); assumption.
    + rewrite wp_ret. apply step_post_done. exact (keeps_TInv _ _ K2).
  - (* 8 </table> *)
    rewrite wp_bind, wp_get.
    destruct (in_scope_named s1 table_scope (nm "table")) eqn:Sc2.
    + rewrite wp_assoc. rewrite wp_bind.
      eapply (wp_close_table s1 s1); [exact K1 | exact L1 | exact Sc2 |].
      intros m s' K' Em Sm Hd. apply (set_mode_done_post s1); assumption.
    + rewrite wp_bind, wp_parse_error, wp_ret. apply step_post_done. eapply TInv_core_eq; [(apply core_eq_set_out; reflexivity) | exact I1].
  - (* 9 *) apply arm_unexpected; exact I1.
  - (* 10 *) apply (in_head_delegated s1 t _ I1 L1 NS1 Sc F10 N10 Hm).
  - (* 11 <input> *)
    destruct (head_safe _ _ F11 Hm) as (g & -> & N0 & N1 & N2). cbn [tk_tag].
    rewrite wp_bind, wp_parse_error. set (s2 := set_out _ s1).
    assert (K2 : keeps s1 s2) by ((apply keeps_set_out; [|reflexivity]); exact K1).
    destruct (is_type_hidden g).
    + rewrite wp_bind. unfold insert_and_pop_element_for.
      eapply (wp_insert_element_std s1); [exact K2 | exact L1 | exact N1 | exact N2 |].
      intros h s3 K3 _ _ _ _. rewrite wp_ret. split; [exact (keeps_TInv _ _ K3) | apply res_ok_nonchars; [reflexivity | exact Logic.I]].
    + apply Foster. exact K2.
  - (* 12 <form> *)
    destruct (head_named_prop _ _ _ F12 Hm) as (g & -> & Nf). apply is_n_eq in Nf. cbn [tk_tag].
    rewrite wp_bind, wp_parse_error, wp_bind, wp_get. set (s2 := set_out _ s1).
    assert (K2 : keeps s1 s2) by ((apply keeps_set_out; [|reflexivity]); exact K1).
    rewrite wp_bind.
    match goal with |- wp (if ?b then _ else _) _ _ => destruct b end.
    + rewrite wp_bind. unfold insert_and_pop_element_for.
      eapply (wp_insert_element_std s1); [exact K2 | exact L1 | rewrite Nf; discriminate | rewrite Nf; discriminate |].
      intros e s3 K3 _ _ Kn En. rewrite wp_modify, wp_ret. apply step_post_done.
      apply (keeps_set_form_elem s1 s3); [exact K3|]. intros x X. injection X as <-. split; [exact Kn | rewrite En, Nf; reflexivity].
    + rewrite wp_ret, wp_ret. apply step_post_done. exact (keeps_TInv _ _ K2).
  - (* 13 Eof *)
    eapply wp_mono; [apply step_in_body_ok; [exact I1 | exact L1 | left; exact NS1 | exact Sc]|]. intros r s' [P _]. exact P.
  - (* 14 *) rewrite wp_bind, wp_parse_error. apply Foster. (apply keeps_set_out; [|reflexivity]). exact K1.
Qed.

(* ---------- InCaption ---------- *)
Lemma caption_not_html : nm "caption" <> nm "html". Proof. discriminate. Qed.

Lemma step_in_caption_ok s t : TInv s -> mode s = InCaption -> scalar_tok t -> wp (step_in_caption t) (step_post t) s.
Proof.
  intros I Em Sc. assert (L : late s) by (unfold late; rewrite Em; reflexivity).
  assert (NS : saving_mode (mode s) = false) by (rewrite Em; reflexivity).
  unfold step_in_caption. apply wp_arm_dispatch; [apply total_in_caption | apply (aligned_all b_done b_done b_done) |].
  intros k b Ek Eb Hm Hn. pose proof (TInv_arm s (mode_id InCaption) k I) as I1. set (s1 := set_out _ s) in *.
  assert (L1 : late s1) by exact L. assert (NS1 : saving_mode (mode s1) = false) by exact NS.
  assert (K1 : keeps s1 s1) by (apply keeps_refl; exact I1).
  arm_cases k Eb.
  - rewrite wp_bind, wp_get.
    destruct (in_scope_named s1 table_scope (nm "caption")) eqn:Sc1; [|apply arm_unexpected; exact I1].
    rewrite wp_assoc. rewrite wp_bind.
    eapply (wp_implied_then_close s1 s1); [exact K1 | exact L1 | apply cursory_html | reflexivity | exact caption_not_html
                                          | apply in_scope_named_In in Sc1; exact Sc1 |].
    intros s2 K2 _. rewrite wp_bind.
    eapply (wp_clear_active_formatting_to_marker s1); [exact K2|]. intros s3 K3 _.
    match goal with |- wp (if ?b then _ else _) _ _ => destruct b end.
    + apply (set_mode_done_post s1); [exact K3 | exact L1 | exact NS1 | reflexivity | reflexivity | intro X; discriminate X].
    + rewrite wp_ret. apply (reprocess_post s1); [exact K3 | exact L1 | exact NS1 | reflexivity | reflexivity | intro X; discriminate X].
  - apply arm_unexpected; exact I1.
  - eapply wp_mono; [apply step_in_body_ok; [exact I1 | exact L1 | left; exact NS1 | exact Sc]|]. intros r s' [P _]. exact P.
Qed.

(* ---------- InColumnGroup ---------- *)
Lemma column_group_facts :
  forallb (lands heads_in_body [3]) (nth 3 heads_in_column_group []) = true /\
  forallb (atom_names safe_name false) (nth 4 heads_in_column_group []) = true /\
  forallb (lands heads_in_head ih_plain) (nth 7 heads_in_column_group []) = true /\
  forallb (atom_names not_noscript true) (nth 7 heads_in_column_group []) = true.
Proof. repeat split; reflexivity. Qed.

Lemma colgroup_ne : (ns_html, nm "colgroup") <> html_html. Proof. discriminate. Qed.

Lemma step_in_column_group_ok s t : TInv s -> mode s = InColumnGroup -> scalar_tok t ->
  wp (step_in_column_group t) (step_post t) s.
Proof.
  intros I Em Sc. assert (L : late s) by (unfold late; rewrite Em; reflexivity).
  assert (NS : saving_mode (mode s) = false) by (rewrite Em; reflexivity).
  unfold step_in_column_group. apply wp_arm_dispatch; [apply total_in_column_group | apply (aligned_all b_done b_done b_done) |].
  intros k b Ek Eb Hm Hn. pose proof (TInv_arm s (mode_id InColumnGroup) k I) as I1. set (s1 := set_out _ s) in *.
  assert (L1 : late s1) by exact L. assert (NS1 : saving_mode (mode s1) = false) by exact NS.
  assert (K1 : keeps s1 s1) by (apply keeps_refl; exact I1).
  destruct column_group_facts as (F3 & F4 & F7 & N7).
  assert (InBody : wp (step_in_body t) (step_post t) s1).
  { eapply wp_mono; [apply step_in_body_ok; [exact I1 | exact L1 | left; exact NS1 | exact Sc]|]. intros r s' [P _]. exact P. }
  assert (PopColgroup : forall h (Q : handle -> st -> Prop), vlast (open_elems s1) = Some h -> html_elem_named_b s1 h (nm "colgroup") = true ->
            (forall e s', keeps s1 s' -> Q e s') -> wp pop Q s1).
  { intros h Q V Nh H. eapply (wp_pop_current_not_root s1 s1); [exact K1 | exact L1 | |].
    - exists h. split; [exact V|]. apply ename_eqb_eq in Nh. rewrite Nh. exact colgroup_ne.
    - intros e s' K' _. apply H. exact K'. }
  arm_cases k Eb.
  - apply arm_split; exact I1.
  - apply arm_append_text; assumption.
  - apply arm_append_comment; assumption.
  - eapply wp_mono; [apply (in_body_html s1 t _ I1 L1 Sc F3 Hm)|]. intros r s' [P _]. exact P.
  - (* <col> *)
    destruct (head_safe _ _ F4 Hm) as (g & -> & N0 & N1 & N2). cbn [tk_tag]. rewrite wp_bind. unfold insert_and_pop_element_for.
    eapply (wp_insert_element_std s1); [exact K1 | exact L1 | exact N1 | exact N2 |].
    intros h s3 K3 _ _ _ _. rewrite wp_ret. split; [exact (keeps_TInv _ _ K3) | apply res_ok_nonchars; [reflexivity | exact Logic.I]].
  - (* </colgroup> *)
    rewrite wp_bind. apply wp_current_node_named; [exact I1 | exact L1 |]. intros h V.
    destruct (html_elem_named_b s1 h (nm "colgroup")) eqn:Nh.
    + rewrite wp_bind. apply (PopColgroup h _ V Nh). intros e s' K'.
      apply (set_mode_done_post s1); [exact K' | exact L1 | exact NS1 | reflexivity | reflexivity | intro X; discriminate X].
    + rewrite wp_bind, wp_parse_error, wp_ret. apply step_post_done. eapply TInv_core_eq; [(apply core_eq_set_out; reflexivity) | exact I1].
  - apply arm_unexpected; exact I1.
  - apply (in_head_delegated s1 t _ I1 L1 NS1 Sc F7 N7 Hm).
  - exact InBody.
  - rewrite wp_bind. apply wp_current_node_named; [exact I1 | exact L1 |]. intros h V.
    destruct (html_elem_named_b s1 h (nm "colgroup")) eqn:Nh; [|apply arm_unexpected; exact I1].
    rewrite wp_bind. apply (PopColgroup h _ V Nh). intros e s' K'. rewrite wp_ret.
    apply (reprocess_post s1); [exact K' | exact L1 | exact NS1 | reflexivity | reflexivity | intro X; discriminate X].
Qed.

(* ---------- InTableBody ---------- *)
Definition section_name (n : str) : bool := in_set table_body_context (ns_html, n) && negb (is_n n "html").
Lemma section_name_props n : section_name n = true -> in_set table_body_context (ns_html, n) = true /\ (ns_html, n) <> html_html.
Proof.
  unfold section_name. intro H. apply andb_true_iff in H. destruct H as [A B]. split; [exact A|].
  apply negb_true_iff in B. apply is_n_false in B. intro E. injection E. exact B.
Qed.

Lemma table_body_facts :
  forallb (atom_names safe_name false) (nth 0 heads_in_table_body []) = true /\
  forallb (atom_names section_name false) (nth 2 heads_in_table_body []) = true.
Proof. split; reflexivity. Qed.

Lemma section_names_cases n : in_set section_names n = true -> in_set table_body_context n = true /\ n <> html_html.
Proof.
  apply (in_set_cases section_names (fun n => in_set table_body_context n = true /\ n <> html_html)).
  unfold section_names, html_names. cbn [map]. repeat (apply Forall_cons; [split; [reflexivity | discriminate]|]). apply Forall_nil.
Qed.
Lemma section_names_cases' n : in_set (html_names ["tbody"; "thead"; "tfoot"]) n = true -> in_set table_body_context n = true /\ n <> html_html.
Proof.
  apply (in_set_cases (html_names ["tbody"; "thead"; "tfoot"]) (fun n => in_set table_body_context n = true /\ n <> html_html)).
  unfold html_names. cbn [map]. repeat (apply Forall_cons; [split; [reflexivity | discriminate]|]). apply Forall_nil.
Qed.

(* clear the stack back to a table body context, then pop the section element *)
Lemma wp_close_section s0 s (Q : handle -> st -> Prop) :
  keeps s0 s -> late s ->
  (exists x, In x (open_elems s) /\ in_set table_body_context (ename_of s x) = true /\ ename_of s x <> html_html) ->
  (forall e s', keeps s0 s' -> Q e s') ->
  wp (pop_until_current table_body_context ;; pop) Q s.
Proof.
  intros K L X H. rewrite wp_bind.
  eapply (wp_pop_until_current_above_root s0 s); [exact K | exact L | reflexivity | exact X |].
  intros s2 K2 _ Len2.
  eapply (wp_pop s0 s2); [exact K2 | | exact Len2 |].
  - pose proof K as [_ S]. pose proof K2 as [_ S2]. unfold late in *. rewrite (st_mode _ _ S2), <- (st_mode _ _ S). exact L.
  - intros e s3 K3 _ _ _. apply H. exact K3.
Qed.

Lemma step_in_table_body_ok s t : TInv s -> Hshape s -> mode s = InTableBody -> scalar_tok t ->
  wp (step_in_table_body t) (step_post t) s.
Proof.
  intros I Sh Em Sc. assert (L : late s) by (unfold late; rewrite Em; reflexivity).
  assert (NS : saving_mode (mode s) = false) by (rewrite Em; reflexivity).
  unfold step_in_table_body. apply wp_arm_dispatch; [apply total_in_table_body | apply (aligned_all b_done b_done b_done) |].
  intros k b Ek Eb Hm Hn. pose proof (TInv_arm s (mode_id InTableBody) k I) as I1. set (s1 := set_out _ s) in *.
  assert (L1 : late s1) by exact L. assert (NS1 : saving_mode (mode s1) = false) by exact NS.
  assert (Em1 : mode s1 = InTableBody) by exact Em. assert (Sh1 : Hshape s1) by (apply Hshape_set_out; exact Sh).
  assert (K1 : keeps s1 s1) by (apply keeps_refl; exact I1).
  destruct table_body_facts as (F0 & F2).
  arm_cases k Eb.
  - (* <tr> *)
    destruct (head_safe _ _ F0 Hm) as (g & -> & N0 & N1 & N2). cbn [tk_tag]. rewrite wp_bind.
    eapply (wp_pop_until_current s1); [exact K1 | exact L1 | reflexivity |]. intros s2 K2 _ _.
    rewrite wp_bind. unfold insert_element_for.
    eapply (wp_insert_element_std s1); [exact K2 | eapply keeps_late; eassumption | exact N1 | exact N2 |].
    intros h s4 K4 _ _ _ _.
    apply (set_mode_done_post s1); [exact K4 | exact L1 | exact NS1 | reflexivity | reflexivity | intro X; discriminate X].
  - (* <th> <td> *)
    rewrite wp_bind, wp_parse_error, wp_bind.
    eapply (wp_pop_until_current s1); [(apply keeps_set_out; [|reflexivity]); exact K1 | exact L1 | reflexivity |]. intros s2 K2 _ _.
    rewrite wp_bind. unfold insert_phantom.
    eapply (wp_insert_element_std s1); [exact K2 | eapply keeps_late; eassumption | discriminate | discriminate |].
    intros h s4 K4 _ _ _ _. rewrite wp_ret.
    apply (reprocess_post s1); [exact K4 | exact L1 | exact NS1 | reflexivity | reflexivity | intro X; discriminate X].
  - (* </tbody> </tfoot> </thead> *)
    destruct (head_named_prop _ _ _ F2 Hm) as (g & -> & Ns). apply section_name_props in Ns. destruct Ns as [Ns1 Ns2].
    rewrite wp_bind, wp_get.
    destruct (in_scope_named s1 table_scope (tname (KTag g))) eqn:Sc1; [|apply arm_unexpected; exact I1].
    apply in_scope_named_In in Sc1. destruct Sc1 as (x & Hin & Nx). unfold tname in Nx. cbn [tk_tag] in Nx.
    rewrite wp_assoc, wp_bind.
    eapply (wp_close_section s1 s1); [exact K1 | exact L1 | exists x; rewrite Nx; auto |].
    intros e s3 K3.
    apply (set_mode_done_post s1); [exact K3 | exact L1 | exact NS1 | reflexivity | reflexivity | intro X; discriminate X].
  - (* table-level start tags, </table> *)
    rewrite wp_bind, wp_get.
    match goal with |- wp (if ?b then _ else _) _ _ => destruct b eqn:Sc1 end; [|apply arm_unexpected; exact I1].
    assert (X : exists x, In x (open_elems s1) /\ in_set table_body_context (ename_of s1 x) = true /\ ename_of s1 x <> html_html).
    { destruct (dev_on s1 11) eqn:D.
      - destruct (Hshape_tbody s1 Sh1 Em1 D Sc1) as (x & Hin & Hx). exists x. split; [exact Hin|]. apply section_names_cases. exact Hx.
      - apply in_scope_In in Sc1. destruct Sc1 as (x & Hin & Hx). exists x. split; [exact Hin|]. apply section_names_cases'. exact Hx. }
    rewrite wp_assoc, wp_bind.
    eapply (wp_close_section s1 s1); [exact K1 | exact L1 | exact X |].
    intros e s3 K3. rewrite wp_ret.
    apply (reprocess_post s1); [exact K3 | exact L1 | exact NS1 | reflexivity | reflexivity | intro Y; discriminate Y].
  - apply arm_unexpected; exact I1.
  - apply step_in_table_ok; assumption.
Qed.

(* ---------- InRow ---------- *)
Lemma row_facts : forallb (atom_names safe_name false) (nth 0 heads_in_row []) = true.
Proof. reflexivity. Qed.

Lemma step_in_row_ok s t : TInv s -> mode s = InRow -> scalar_tok t -> wp (step_in_row t) (step_post t) s.
Proof.
  intros I Em Sc. assert (L : late s) by (unfold late; rewrite Em; reflexivity).
  assert (NS : saving_mode (mode s) = false) by (rewrite Em; reflexivity).
  unfold step_in_row. apply wp_arm_dispatch; [apply total_in_row | apply (aligned_all b_done b_done b_done) |].
  intros k b Ek Eb Hm Hn. pose proof (TInv_arm s (mode_id InRow) k I) as I1. set (s1 := set_out _ s) in *.
  assert (L1 : late s1) by exact L. assert (NS1 : saving_mode (mode s1) = false) by exact NS.
  assert (K1 : keeps s1 s1) by (apply keeps_refl; exact I1).
  assert (CloseRe : in_scope_named s1 table_scope (nm "tr") = true ->
            wp (close_row ;; ret (Reprocess InTableBody t)) (step_post t) s1).
  { intro Sc1. rewrite wp_bind. apply wp_close_row; [exact I1 | exact L1 | exact Sc1 |]. intros s2 K2 _. rewrite wp_ret.
    apply (reprocess_post s1); [exact K2 | exact L1 | exact NS1 | reflexivity | reflexivity | intro X; discriminate X]. }
  arm_cases k Eb.
  - (* <th> <td> *)
    destruct (head_safe _ _ row_facts Hm) as (g & -> & N0 & N1 & N2). cbn [tk_tag]. rewrite wp_bind.
    eapply (wp_pop_until_current s1); [exact K1 | exact L1 | reflexivity |]. intros s2 K2 _ _.
    rewrite wp_bind. unfold insert_element_for.
    eapply (wp_insert_element_std s1); [exact K2 | eapply keeps_late; eassumption | exact N1 | exact N2 |].
    intros h s4 K4 _ _ _ _. unfold set_mode_m. rewrite wp_bind, wp_modify.
    set (s5 := set_mode InCell s4).
    assert (I5 : TInv s5).
    { pose proof K4 as [_ S4]. apply (keeps_set_mode s1 s4 InCell); [exact K4 | eapply keeps_late; eassumption | rewrite (st_mode _ _ S4); exact NS1
                                                                      | reflexivity | reflexivity | intro X; discriminate X]. }
    rewrite wp_bind. eapply (wp_push_marker s5); [apply keeps_refl; exact I5|]. intros s6 K6 _. rewrite wp_ret.
    apply step_post_done. exact (keeps_TInv _ _ K6).
  - (* </tr> *)
    rewrite wp_bind, wp_get.
    destruct (in_scope_named s1 table_scope (nm "tr")) eqn:Sc1.
    + rewrite wp_bind. apply wp_close_row; [exact I1 | exact L1 | exact Sc1 |]. intros s2 K2 _.
      apply (set_mode_done_post s1); [exact K2 | exact L1 | exact NS1 | reflexivity | reflexivity | intro X; discriminate X].
    + rewrite wp_bind, wp_parse_error, wp_ret. apply step_post_done. eapply TInv_core_eq; [(apply core_eq_set_out; reflexivity) | exact I1].
  - rewrite wp_bind, wp_get.
    destruct (in_scope_named s1 table_scope (nm "tr")) eqn:Sc1; [apply CloseRe; reflexivity | apply arm_unexpected; exact I1].
  - rewrite wp_bind, wp_get.
    destruct (in_scope_named s1 table_scope (tname t)); [|apply arm_unexpected; exact I1].
    destruct (in_scope_named s1 table_scope (nm "tr")) eqn:Sc1; [apply CloseRe; reflexivity | apply arm_done; exact I1].
  - apply arm_unexpected; exact I1.
  - apply step_in_table_ok; assumption.
Qed.

(* ---------- InCell ---------- *)
Lemma cell_facts : forallb (atom_names end_block_name false) (nth 0 heads_in_cell []) = true.
Proof. reflexivity. Qed.

Lemma step_in_cell_ok s t : TInv s -> Hshape s -> mode s = InCell -> scalar_tok t -> wp (step_in_cell t) (step_post t) s.
Proof.
  intros I Sh Em Sc. assert (L : late s) by (unfold late; rewrite Em; reflexivity).
  assert (NS : saving_mode (mode s) = false) by (rewrite Em; reflexivity).
  unfold step_in_cell. apply wp_arm_dispatch; [apply total_in_cell | apply (aligned_all b_done b_done b_done) |].
  intros k b Ek Eb Hm Hn. pose proof (TInv_arm s (mode_id InCell) k I) as I1. set (s1 := set_out _ s) in *.
  assert (L1 : late s1) by exact L. assert (NS1 : saving_mode (mode s1) = false) by exact NS.
  assert (Em1 : mode s1 = InCell) by exact Em. assert (Sh1 : Hshape s1) by (apply Hshape_set_out; exact Sh).
  assert (K1 : keeps s1 s1) by (apply keeps_refl; exact I1).
  assert (CloseRe : (exists x, In x (open_elems s1) /\ in_set td_th (ename_of s1 x) = true) ->
            wp (close_the_cell ;; ret (Reprocess InRow t)) (step_post t) s1).
  { intro X. rewrite wp_bind. eapply (wp_close_the_cell s1 s1); [exact K1 | exact L1 | exact X |]. intros s2 K2 _. rewrite wp_ret.
    apply (reprocess_post s1); [exact K2 | exact L1 | exact NS1 | reflexivity | reflexivity | intro Y; discriminate Y]. }
  arm_cases k Eb.
  - (* </td> </th> *)
    destruct (head_named_prop _ _ _ cell_facts Hm) as (g & -> & Nn). apply end_block_name_props in Nn. destruct Nn as [Nn1 Nn2].
    rewrite wp_bind, wp_get.
    destruct (in_scope_named s1 table_scope (tname (KTag g))) eqn:Sc1; [|apply arm_unexpected; exact I1].
    apply in_scope_named_In in Sc1. unfold tname in *. cbn [tk_tag] in *.
    rewrite wp_assoc, wp_bind.
    eapply (wp_implied_then_close s1 s1); [exact K1 | exact L1 | apply cursory_html | exact Nn2 | exact Nn1 | exact Sc1 |].
    intros s2 K2 _. rewrite wp_bind.
    eapply (wp_clear_active_formatting_to_marker s1); [exact K2|]. intros s3 K3 _.
    apply (set_mode_done_post s1); [exact K3 | exact L1 | exact NS1 | reflexivity | reflexivity | intro X; discriminate X].
  - rewrite wp_bind, wp_get.
    match goal with |- wp (if ?b then _ else _) _ _ => destruct b eqn:Sc1 end; [|apply arm_unexpected; exact I1].
    apply CloseRe. apply in_scope_In in Sc1. exact Sc1.
  - apply arm_unexpected; exact I1.
  - rewrite wp_bind, wp_get.
    destruct (in_scope_named s1 table_scope (tname t)); [|apply arm_unexpected; exact I1].
    apply CloseRe. apply (Hshape_cell s1 Sh1 Em1).
  - eapply wp_mono; [apply step_in_body_ok; [exact I1 | exact L1 | left; exact NS1 | exact Sc]|]. intros r s' [P _]. exact P.
Qed.

(* ---------- AfterBody, InFrameset, AfterFrameset, AfterAfterBody, AfterAfterFrameset ---------- *)
Lemma in_body_delegated s t : TInv s -> late s -> saving_mode (mode s) = false -> scalar_tok t ->
  wp (step_in_body t) (step_post t) s.
Proof.
  intros I L NS Sc. eapply wp_mono; [apply step_in_body_ok; [exact I | exact L | left; exact NS | exact Sc]|]. intros r s' [P _]. exact P.
Qed.

Lemma error_reprocess_in_body s t : TInv s -> late s -> saving_mode (mode s) = false ->
  wp (parse_error ;; ret (Reprocess InBody t)) (step_post t) s.
Proof.
  intros I L NS. rewrite wp_bind, wp_parse_error, wp_ret.
  apply (reprocess_post s); [(apply keeps_set_out; [|reflexivity]); apply keeps_refl; exact I | exact L | exact NS | reflexivity | reflexivity | intro X; discriminate X].
Qed.

Lemma step_after_body_ok s t : TInv s -> mode s = AfterBody -> scalar_tok t -> wp (step_after_body t) (step_post t) s.
Proof.
  intros I Em Sc. assert (L : late s) by (unfold late; rewrite Em; reflexivity).
  assert (NS : saving_mode (mode s) = false) by (rewrite Em; reflexivity).
  unfold step_after_body. apply wp_arm_dispatch; [apply total_after_body | apply (aligned_all b_done b_done b_done) |].
  intros k b Ek Eb Hm Hn. pose proof (TInv_arm s (mode_id AfterBody) k I) as I1. set (s1 := set_out _ s) in *.
  assert (L1 : late s1) by exact L. assert (NS1 : saving_mode (mode s1) = false) by exact NS.
  assert (K1 : keeps s1 s1) by (apply keeps_refl; exact I1).
  arm_cases k Eb.
  - apply arm_split; exact I1.
  - apply in_body_delegated; assumption.
  - apply arm_comment_to_html; assumption.
  - apply in_body_delegated; assumption.
  - rewrite wp_bind, wp_get, wp_bind. destruct (is_fragment s1).
    + rewrite wp_parse_error, wp_ret. apply step_post_done. eapply TInv_core_eq; [(apply core_eq_set_out; reflexivity) | exact I1].
    + unfold set_mode_m. rewrite wp_modify, wp_ret. apply step_post_done.
      apply (keeps_set_mode s1 s1 AfterAfterBody); [exact K1 | exact L1 | exact NS1 | reflexivity | reflexivity | intro X; discriminate X].
  - apply arm_done; exact I1.
  - apply error_reprocess_in_body; assumption.
Qed.

Lemma frameset_facts :
  forallb (atom_names safe_name false) (nth 4 heads_in_frameset []) = true /\
  forallb (atom_names safe_name false) (nth 6 heads_in_frameset []) = true /\
  forallb (lands heads_in_head ih_plain) (nth 7 heads_in_frameset []) = true /\
  forallb (atom_names not_noscript true) (nth 7 heads_in_frameset []) = true.
Proof. repeat split; reflexivity. Qed.

Lemma step_in_frameset_ok s t : TInv s -> mode s = InFrameset -> scalar_tok t -> wp (step_in_frameset t) (step_post t) s.
Proof.
  intros I Em Sc. assert (L : late s) by (unfold late; rewrite Em; reflexivity).
  assert (NS : saving_mode (mode s) = false) by (rewrite Em; reflexivity).
  unfold step_in_frameset. apply wp_arm_dispatch; [apply total_in_frameset | apply (aligned_all b_done b_done b_done) |].
  intros k b Ek Eb Hm Hn. pose proof (TInv_arm s (mode_id InFrameset) k I) as I1. set (s1 := set_out _ s) in *.
  assert (L1 : late s1) by exact L. assert (NS1 : saving_mode (mode s1) = false) by exact NS.
  assert (K1 : keeps s1 s1) by (apply keeps_refl; exact I1).
  destruct frameset_facts as (F4 & F6 & F7 & N7).
  arm_cases k Eb.
  - apply arm_split; exact I1.
  - apply arm_append_text; assumption.
  - apply arm_append_comment; assumption.
  - apply in_body_delegated; assumption.
  - destruct (head_safe _ _ F4 Hm) as (g & -> & N0 & N1 & N2). cbn [tk_tag].
    eapply wp_mono; [apply (insert_done_ok s1 s1 (KTag g)); [exact K1 | exact L1 | exact N1 | exact N2]|].
    intros r s' D. apply is_done_post. exact D.
  - (* </frameset> *)
    rewrite wp_bind, wp_get, wp_bind.
    destruct (Nat.eqb (length (open_elems s1)) 1) eqn:E1.
    + rewrite wp_parse_error, wp_ret. apply step_post_done. eapply TInv_core_eq; [(apply core_eq_set_out; reflexivity) | exact I1].
    + apply Nat.eqb_neq in E1. rewrite wp_bind.
      eapply (wp_pop s1 s1); [exact K1 | exact L1 | |].
      { destruct (TInv_stack_nonempty _ I1 L1) as (r & rest & Er & _). rewrite Er in *. simpl in *. lia. }
      intros e s2 K2 _ _ _. rewrite wp_bind, wp_get. pose proof K2 as [I2 S2].
      destruct (is_fragment s2).
      * rewrite wp_ret, wp_ret. apply step_post_done. exact I2.
      * rewrite wp_bind. apply wp_current_node_named; [exact I2 | eapply keeps_late; eassumption |]. intros h V.
        destruct (negb (html_elem_named_b s2 h (nm "frameset"))).
        -- unfold set_mode_m. rewrite wp_modify, wp_ret. apply step_post_done.
           apply (keeps_set_mode s1 s2 AfterFrameset); [exact K2 | eapply keeps_late; eassumption | rewrite (st_mode _ _ S2); exact NS1
                                                         | reflexivity | reflexivity | intro X; discriminate X].
        -- rewrite wp_ret, wp_ret. apply step_post_done. exact I2.
  - (* <frame> *)
    destruct (head_safe _ _ F6 Hm) as (g & -> & N0 & N1 & N2). cbn [tk_tag]. rewrite wp_bind. unfold insert_and_pop_element_for.
    eapply (wp_insert_element_std s1); [exact K1 | exact L1 | exact N1 | exact N2 |].
    intros h s3 K3 _ _ _ _. rewrite wp_ret. split; [exact (keeps_TInv _ _ K3) | apply res_ok_nonchars; [reflexivity | exact Logic.I]].
  - apply (in_head_delegated s1 t _ I1 L1 NS1 Sc F7 N7 Hm).
  - rewrite wp_bind, wp_get, wp_bind, wp_when.
    destruct (negb (Nat.eqb (length (open_elems s1)) 1)).
    + rewrite wp_parse_error, wp_ret. apply step_post_done. eapply TInv_core_eq; [(apply core_eq_set_out; reflexivity) | exact I1].
    + rewrite wp_ret. apply step_post_done. exact I1.
  - apply arm_unexpected; exact I1.
Qed.

Lemma after_frameset_facts :
  forallb (lands heads_in_head ih_plain) (nth 5 heads_after_frameset []) = true /\
  forallb (atom_names not_noscript true) (nth 5 heads_after_frameset []) = true.
Proof. split; reflexivity. Qed.

Lemma step_after_frameset_ok s t : TInv s -> mode s = AfterFrameset -> scalar_tok t -> wp (step_after_frameset t) (step_post t) s.
Proof.
  intros I Em Sc. assert (L : late s) by (unfold late; rewrite Em; reflexivity).
  assert (NS : saving_mode (mode s) = false) by (rewrite Em; reflexivity).
  unfold step_after_frameset. apply wp_arm_dispatch; [apply total_after_frameset | apply (aligned_all b_done b_done b_done) |].
  intros k b Ek Eb Hm Hn. pose proof (TInv_arm s (mode_id AfterFrameset) k I) as I1. set (s1 := set_out _ s) in *.
  assert (L1 : late s1) by exact L. assert (NS1 : saving_mode (mode s1) = false) by exact NS.
  assert (K1 : keeps s1 s1) by (apply keeps_refl; exact I1).
  destruct after_frameset_facts as (F5 & N5).
  arm_cases k Eb.
  - apply arm_split; exact I1.
  - apply arm_append_text; assumption.
  - apply arm_append_comment; assumption.
  - apply in_body_delegated; assumption.
  - apply (set_mode_done_post s1); [exact K1 | exact L1 | exact NS1 | reflexivity | reflexivity | intro X; discriminate X].
  - apply (in_head_delegated s1 t _ I1 L1 NS1 Sc F5 N5 Hm).
  - apply arm_done; exact I1.
  - apply arm_unexpected; exact I1.
Qed.

Lemma step_after_after_body_ok s t : TInv s -> mode s = AfterAfterBody -> scalar_tok t ->
  wp (step_after_after_body t) (step_post t) s.
Proof.
  intros I Em Sc. assert (L : late s) by (unfold late; rewrite Em; reflexivity).
  assert (NS : saving_mode (mode s) = false) by (rewrite Em; reflexivity).
  unfold step_after_after_body. apply wp_arm_dispatch; [apply total_after_after_body | apply (aligned_all b_done b_done b_done) |].
  intros k b Ek Eb Hm Hn. pose proof (TInv_arm s (mode_id AfterAfterBody) k I) as I1. set (s1 := set_out _ s) in *.
  assert (L1 : late s1) by exact L. assert (NS1 : saving_mode (mode s1) = false) by exact NS.
  arm_cases k Eb.
  - apply arm_split; exact I1.
  - apply in_body_delegated; assumption.
  - apply arm_comment_to_doc; exact I1.
  - apply in_body_delegated; assumption.
  - apply arm_done; exact I1.
  - apply error_reprocess_in_body; assumption.
Qed.

Lemma after_after_frameset_facts :
  forallb (lands heads_in_head ih_plain) (nth 5 heads_after_after_frameset []) = true /\
  forallb (atom_names not_noscript true) (nth 5 heads_after_after_frameset []) = true.
Proof. split; reflexivity. Qed.

Lemma step_after_after_frameset_ok s t : TInv s -> mode s = AfterAfterFrameset -> scalar_tok t ->
  wp (step_after_after_frameset t) (step_post t) s.
Proof.
  intros I Em Sc. assert (L : late s) by (unfold late; rewrite Em; reflexivity).
  assert (NS : saving_mode (mode s) = false) by (rewrite Em; reflexivity).
  unfold step_after_after_frameset. apply wp_arm_dispatch; [apply total_after_after_frameset | apply (aligned_all b_done b_done b_done) |].
  intros k b Ek Eb Hm Hn. pose proof (TInv_arm s (mode_id AfterAfterFrameset) k I) as I1. set (s1 := set_out _ s) in *.
  assert (L1 : late s1) by exact L. assert (NS1 : saving_mode (mode s1) = false) by exact NS.
  destruct after_after_frameset_facts as (F5 & N5).
  arm_cases k Eb.
  - apply arm_split; exact I1.
  - apply in_body_delegated; assumption.
  - apply arm_comment_to_doc; exact I1.
  - apply in_body_delegated; assumption.
  - apply arm_done; exact I1.
  - apply (in_head_delegated s1 t _ I1 L1 NS1 Sc F5 N5 Hm).
  - apply arm_unexpected; exact I1.
Qed.

(* ---------- InHead as the current mode ---------- *)
Lemma step_in_head_mode_ok s t : TInv s -> Hshape s -> mode s = InHead -> scalar_tok t ->
  wp (step_in_head_gen step_in_body t) (step_post t) s.
Proof.
  intros I Sh Em Sc. assert (L : late s) by (unfold late; rewrite Em; reflexivity).
  assert (NS : saving_mode (mode s) = false) by (rewrite Em; reflexivity).
  assert (Len : 2 <= length (open_elems s)) by (apply Hshape_depth; auto).
  assert (Hd : head_elem s <> None) by (apply TInv_head_set; [exact I | rewrite Em; reflexivity]).
  eapply wp_mono.
  - apply (step_in_head_top_ok step_in_body); [|exact I | exact L | exact NS | exact Sc |].
    + intros s0 t0 I0 L0 Hm0.
      assert (E : first_match heads_in_body t0 = 3).
      { apply In_singleton. apply (lands_sound heads_in_body [3] (nth 3 heads_in_head []) t0); [reflexivity | exact Hm0]. }
      unfold step_in_body, step_in_body_gen.
      eapply (wp_arm_dispatch_at _ _ _ _ 3); [exact E | reflexivity |].
      eapply wp_mono; [apply ib_3_ok; [eapply TInv_core_eq; [(apply core_eq_set_out; reflexivity) | exact I0] | exact L0]|].
      intros r s' [Is ->]. split; [apply step_post_done; exact Is | reflexivity].
    + unfold ih_pre. cbv zeta. split; [intros _; split; assumption | intros _ _; exact Hd].
  - intros r s' [P _]. exact P.
Qed.

(* ---------- every insertion mode ---------- *)
Theorem step_ok s t :
  TInv s -> Hshape s -> tok_ok s t -> scalar_tok t -> wp (step (mode s) t) (step_post t) s.
Proof.
  intros I Sh TO Sc. destruct (mode s) eqn:Em; cbn [step].
  - apply step_initial_ok; assumption.
  - apply step_before_html_ok; assumption.
  - apply step_before_head_ok; assumption.
  - apply step_in_head_mode_ok; assumption.
  - apply step_in_head_noscript_ok; assumption.
  - apply step_after_head_ok; assumption.
  - apply in_body_delegated; [exact I | unfold late; rewrite Em; reflexivity | rewrite Em; reflexivity | exact Sc].
  - apply step_text_ok; assumption.
  - apply step_in_table_ok; [exact I | unfold late; rewrite Em; reflexivity | rewrite Em; reflexivity | exact Sc].
  - apply step_in_table_text_ok; assumption.
  - apply step_in_caption_ok; assumption.
  - apply step_in_column_group_ok; assumption.
  - apply step_in_table_body_ok; assumption.
  - apply step_in_row_ok; assumption.
  - apply step_in_cell_ok; assumption.
  - apply step_in_template_ok; [exact I | unfold late; rewrite Em; reflexivity | left; rewrite Em; reflexivity | exact Sc].
  - apply step_after_body_ok; assumption.
  - apply step_in_frameset_ok; assumption.
  - apply step_after_frameset_ok; assumption.
  - apply step_after_after_body_ok; assumption.
  - apply step_after_after_frameset_ok; assumption.
Qed.
