(* ========================================================================
   TreeInvPrims.v - specifications (weakest preconditions) of the primitive
   operations and of the simple helpers of TreeModelHelpers.v with respect to
   the invariant [TInv]:  under TInv (and a non-early mode) they do not panic,
   re-establish TInv, and leave the "mode part" of the state alone ([stable]).
   ======================================================================== *)
From Coq Require Import List NArith Bool Arith Lia String.
From HV Require Import Dom.DomSpec Tree.TreeTypes Tree.TreeTables Tree.TreeModelHelpers Tree.TreeModelRules
  Tree.TreeModel Tree.TreeHoare Tree.TreeInvDefs Tree.TreeInvSetters.
Import ListNotations.
Open Scope string_scope.
Open Scope list_scope.
Notation length := List.length (only parsing).

(* ---------- [stable]: modes, pointers, template modes, pending text untouched; the sink view only grows ---------- *)
Record stable (s s' : st) : Prop := {
  st_mode : mode s' = mode s ;
  st_orig : orig_mode s' = orig_mode s ;
  st_tm : template_modes s' = template_modes s ;
  st_pending : pending_table_text s' = pending_table_text s ;
  st_head : head_elem s' = head_elem s ;
  st_form : form_elem s' = form_elem s ;
  st_ctx : context_elem s' = context_elem s ;
  st_opts : opts s' = opts s ;
  st_sv : exists l, sv_elems (sv s') = sv_elems (sv s) ++ l ;
  (* template contents are only registered under fresh handles *)
  st_tmpl : exists l, sv_tmpl (sv s') = l ++ sv_tmpl (sv s) /\ Forall (fun p => length (sv_elems (sv s)) <= snd p) l
}.

(* nothing but the stack, the formatting list, the flags and the output differs *)
Lemma stable_eqs s s' :
  mode s' = mode s -> orig_mode s' = orig_mode s -> template_modes s' = template_modes s ->
  pending_table_text s' = pending_table_text s -> head_elem s' = head_elem s -> form_elem s' = form_elem s ->
  context_elem s' = context_elem s -> opts s' = opts s -> sv s' = sv s -> stable s s'.
Proof.
  intros E1 E2 E3 E4 E5 E6 E7 E8 E9. constructor; try assumption.
  - exists []. rewrite E9, app_nil_r. reflexivity.
  - exists []. rewrite E9. split; [reflexivity | constructor].
Qed.

Lemma stable_refl s : stable s s.
Proof. apply stable_eqs; reflexivity. Qed.

Lemma stable_trans a b c : stable a b -> stable b c -> stable a c.
Proof.
  intros [A1 A2 A3 A4 A5 A6 A7 A8 [l1 A9] [m1 [A10 A11]]] [B1 B2 B3 B4 B5 B6 B7 B8 [l2 B9] [m2 [B10 B11]]].
  constructor; try congruence.
  - exists (l1 ++ l2). rewrite B9, A9, app_assoc. reflexivity.
  - exists (m2 ++ m1). split; [rewrite B10, A10, app_assoc; reflexivity|]. apply Forall_app. split; [|exact A11].
    eapply Forall_impl; [|exact B11]. intros p Hp. rewrite A9, app_length in Hp. lia.
Qed.

Lemma stable_einfo s s' h : stable s s' -> known s h -> einfo_of s' h = einfo_of s h.
Proof.
  intros [_ _ _ _ _ _ _ _ [l E]] K. apply known_lt in K. unfold next_handle, einfo_of in *. rewrite E.
  rewrite app_nth1; [reflexivity | exact K].
Qed.
Lemma stable_known s s' h : stable s s' -> known s h -> known s' h.
Proof. intros S K. pose proof K as [e He]. exists e. rewrite (stable_einfo _ _ _ S K). exact He. Qed.
Lemma stable_ename s s' h : stable s s' -> known s h -> ename_of s' h = ename_of s h.
Proof. intros S K. unfold ename_of. rewrite (stable_einfo _ _ _ S K). reflexivity. Qed.

Lemma stable_core_eq s s' : core_eq s s' -> opts s' = opts s -> stable s s'.
Proof.
  intros (A1 & A2 & A3 & A4 & A5 & A6 & A7 & A8 & A9 & A10 & A11) O.
  apply stable_eqs; assumption.
Qed.

Definition late (s : st) : Prop := early_mode (mode s) = false.
Lemma stable_late s s' : stable s s' -> late s -> late s'.
Proof. intros S L. unfold late in *. rewrite (st_mode _ _ S). exact L. Qed.

(* the usual postcondition *)
Definition keeps (s : st) : st -> Prop := fun s' => TInv s' /\ stable s s'.

Lemma keeps_refl s : TInv s -> keeps s s.
Proof. intro I. split; [exact I | apply stable_refl]. Qed.
Lemma keeps_trans s s1 s2 : keeps s s1 -> keeps s1 s2 -> keeps s s2.
Proof. intros [_ S1] [I2 S2]. split; [exact I2 | eapply stable_trans; eassumption]. Qed.

(* setters outside the core *)
Lemma keeps_set_out s0 s v : keeps s0 s -> sig v = sig (out s) -> keeps s0 (set_out v s).
Proof.
  intros [I S] E. split.
  - eapply TInv_core_eq; [apply core_eq_set_out; exact E | exact I].
  - eapply stable_trans; [exact S|]. apply stable_core_eq; [apply core_eq_set_out; exact E | reflexivity].
Qed.
(* an operation with handle arguments: it must pass the check of the moment *)
Lemma stable_set_out s v : stable s (set_out v s).
Proof. apply stable_eqs; reflexivity. Qed.
Lemma keeps_emit s0 s op : keeps s0 s -> significant (EvOp op) = true -> ev_sv (EvOp op) (sv s) = sv s ->
  op_okb (sv s) op = true -> keeps s0 (set_out (EvOp op :: out s) s).
Proof.
  intros [I S] Sg Esv Ok. split; [apply TInv_emit; assumption|].
  eapply stable_trans; [exact S | apply stable_set_out].
Qed.
Lemma keeps_set_frameset_ok s0 s v : keeps s0 s -> keeps s0 (set_frameset_ok v s).
Proof.
  intros [I S]. split.
  - eapply TInv_core_eq; [apply core_eq_set_frameset_ok | exact I].
  - eapply stable_trans; [exact S|]. apply stable_core_eq; [apply core_eq_set_frameset_ok | reflexivity].
Qed.
Lemma keeps_set_ignore_lf s0 s v : keeps s0 s -> keeps s0 (set_ignore_lf v s).
Proof.
  intros [I S]. split.
  - eapply TInv_core_eq; [apply core_eq_set_ignore_lf | exact I].
  - eapply stable_trans; [exact S|]. apply stable_core_eq; [apply core_eq_set_ignore_lf | reflexivity].
Qed.
Lemma keeps_set_foster_parenting s0 s v : keeps s0 s -> keeps s0 (set_foster_parenting v s).
Proof.
  intros [I S]. split.
  - eapply TInv_core_eq; [apply core_eq_set_foster_parenting | exact I].
  - eapply stable_trans; [exact S|]. apply stable_core_eq; [apply core_eq_set_foster_parenting | reflexivity].
Qed.
Lemma keeps_set_quirks_mode s0 s v : keeps s0 s -> keeps s0 (set_quirks_mode v s).
Proof.
  intros [I S]. split.
  - eapply TInv_core_eq; [apply core_eq_set_quirks_mode | exact I].
  - eapply stable_trans; [exact S|]. apply stable_core_eq; [apply core_eq_set_quirks_mode | reflexivity].
Qed.

(* ---------- facts read off TInv ---------- *)
Lemma TInv_stack_nonempty s : TInv s -> late s -> exists r rest, open_elems s = r :: rest /\ ename_of s r = html_html.
Proof. intros I L. pose proof (inv_root _ I) as R. unfold root_ok in R. unfold late in L. rewrite L in R. exact R. Qed.

Lemma TInv_vlast s : TInv s -> late s -> exists h, vlast (open_elems s) = Some h.
Proof.
  intros I L. destruct (TInv_stack_nonempty _ I L) as (r & rest & E & _).
  destruct (vlast (open_elems s)) eqn:V; [eauto|]. apply vlast_none in V. congruence.
Qed.

Lemma TInv_stack_known s h : TInv s -> In h (open_elems s) -> known s h.
Proof. intros I H. eapply known_handles_in; [apply inv_known; exact I | apply in_handles_stack; exact H]. Qed.

Lemma vlast_In {A} (l : list A) x : vlast l = Some x -> In x l.
Proof. intro H. rewrite (vlast_some_split _ _ H). apply in_or_app. right. left. reflexivity. Qed.

(* ---------- simple operations ---------- *)
Lemma wp_current_node s (Q : handle -> st -> Prop) :
  TInv s -> late s -> (forall h, vlast (open_elems s) = Some h -> Q h s) -> wp current_node Q s.
Proof.
  intros I L H. destruct (TInv_vlast _ I L) as [h V].
  unfold current_node. rewrite wp_bind, wp_get, wp_unwrap. exists h. split; [exact V | apply H; exact V].
Qed.

Lemma wp_unexpected s (Q : presult -> st -> Prop) :
  Q Done (set_out (EvOp OpParseError :: out s) s) -> wp unexpected Q s.
Proof. intro H. unfold unexpected. rewrite wp_bind, wp_parse_error, wp_ret. exact H. Qed.

Lemma wp_probe k s (Q : unit -> st -> Prop) : Q tt (set_out (EvArm 30 k :: out s) s) -> wp (probe k) Q s.
Proof. intro H. unfold probe. rewrite wp_log_arm. exact H. Qed.

(* sink_create_element: the new handle is the next one, it is an element with the given name *)
Definition new_elem_state (name : qualname) (attrs : list dattr) (dup : bool) (s : st) : st :=
  let en := (q_ns name, q_local name) in
  let is_t := ename_eqb en (ns_html, nm "template") in
  let ip := ename_eqb en (ns_mathml, nm "annotation-xml") &&
            existsb (fun a => attr_is (nm "encoding") a &&
                              (eq_ignore_ascii_case (d_value a) (nm "text/html") ||
                               eq_ignore_ascii_case (d_value a) (nm "application/xhtml+xml"))) attrs in
  let s1 := set_out (EvOp (OpCreateElement (next_handle s) name attrs is_t ip dup) :: out s) s in
  set_sv (sv_push (Some {| e_ns := q_ns name ; e_local := q_local name ; e_ip := ip ; e_tmpl := is_t |}) (sv s1)) s1.

Lemma sink_create_element_eq name attrs dup s :
  sink_create_element name attrs dup s = Ok (next_handle s) (new_elem_state name attrs dup s).
Proof. reflexivity. Qed.

Lemma new_elem_keeps s0 s name attrs dup :
  keeps s0 s -> keeps s0 (new_elem_state name attrs dup s).
Proof.
  intros [I S]. unfold new_elem_state. cbv zeta. split.
  - eapply TInv_sv_ext; [exact I | unfold sv_extends, sv_push; simpl; reflexivity | | reflexivity | reflexivity |].
    + intros e' E. injection E as <-. reflexivity.
    + unfold op_okb, next_handle. rewrite Nat.eqb_refl. unfold template_name, annotation_xml_name, in_set. cbn [existsb].
      rewrite !orb_false_r, eqb_reflx. cbn [andb].
      destruct (ename_eqb (q_ns name, q_local name) (ns_mathml, nm "annotation-xml")); [|reflexivity].
      cbn [andb]. destruct (existsb _ attrs); reflexivity.
  - eapply stable_trans; [exact S|]. constructor; try reflexivity; [eexists; unfold sv_push; simpl; reflexivity|].
    exists []. split; [reflexivity | constructor].
Qed.

Lemma new_elem_stable s name attrs dup : stable s (new_elem_state name attrs dup s).
Proof.
  constructor; try reflexivity; [eexists; unfold new_elem_state, sv_push; simpl; reflexivity|].
  exists []. split; [reflexivity | constructor].
Qed.
Lemma new_elem_name s name attrs dup :
  ename_of (new_elem_state name attrs dup s) (next_handle s) = (q_ns name, q_local name).
Proof.
  unfold new_elem_state, ename_of, einfo_of, sv_push, next_handle. simpl.
  rewrite app_nth2; [|lia]. rewrite Nat.sub_diag. reflexivity.
Qed.
Lemma new_elem_known s name attrs dup : known (new_elem_state name attrs dup s) (next_handle s).
Proof.
  unfold known, new_elem_state, einfo_of, next_handle, sv_push. simpl. eexists.
  rewrite app_nth2; [|lia]. rewrite Nat.sub_diag. reflexivity.
Qed.
Lemma new_elem_stack s name attrs dup : open_elems (new_elem_state name attrs dup s) = open_elems s.
Proof. reflexivity. Qed.
Lemma new_elem_af s name attrs dup : active_formatting (new_elem_state name attrs dup s) = active_formatting s.
Proof. reflexivity. Qed.
Lemma new_elem_next s name attrs dup : next_handle (new_elem_state name attrs dup s) = S (next_handle s).
Proof. unfold new_elem_state, next_handle, sv_push. simpl. rewrite app_length. simpl. lia. Qed.

(* sink_create_comment *)
Definition new_comment_state (text : str) (s : st) : st :=
  let s1 := set_out (EvOp (OpCreateComment (next_handle s) text) :: out s) s in
  set_sv (sv_push None (sv s1)) s1.
Lemma sink_create_comment_eq text s : sink_create_comment text s = Ok (next_handle s) (new_comment_state text s).
Proof. reflexivity. Qed.
Lemma new_comment_keeps s0 s text : keeps s0 s -> keeps s0 (new_comment_state text s).
Proof.
  intros [I S]. unfold new_comment_state. cbv zeta. split.
  - eapply TInv_sv_ext; [exact I | unfold sv_extends, sv_push; simpl; reflexivity | intros e' E; discriminate
                         | reflexivity | reflexivity |].
    unfold op_okb, next_handle. apply Nat.eqb_refl.
  - eapply stable_trans; [exact S|]. constructor; try reflexivity; [eexists; unfold sv_push; simpl; reflexivity|].
    exists []. split; [reflexivity | constructor].
Qed.
Lemma new_comment_stack s text : open_elems (new_comment_state text s) = open_elems s.
Proof. reflexivity. Qed.

(* a name equal to (html, template) has the template flag *)
Lemma str_eqb_eq x y : str_eqb x y = true -> x = y.
Proof.
  revert y. induction x as [|c x IH]; destruct y as [|d y]; simpl; intro H; try discriminate; [reflexivity|].
  apply andb_true_iff in H. destruct H as [H1 H2]. apply N.eqb_eq in H1. subst. f_equal. apply IH. exact H2.
Qed.
Lemma str_eqb_refl x : str_eqb x x = true.
Proof. induction x as [|c x IH]; simpl; [reflexivity|]. rewrite N.eqb_refl, IH. reflexivity. Qed.
Lemma ename_eqb_eq a b : ename_eqb a b = true -> a = b.
Proof.
  destruct a, b. unfold ename_eqb. simpl. intro H. apply andb_true_iff in H. destruct H as [H1 H2].
  apply str_eqb_eq in H1. apply str_eqb_eq in H2. subst. reflexivity.
Qed.
Lemma ename_eqb_refl a : ename_eqb a a = true.
Proof. destruct a. unfold ename_eqb. simpl. rewrite !str_eqb_refl. reflexivity. Qed.
Lemma named_ename s h n : named s h n = true -> ename_of s h = (ns_html, nm n).
Proof. unfold named, html_elem_named_b. apply ename_eqb_eq. Qed.

Lemma sync_tmpl_lt s p : TInv s -> In p (sv_tmpl (sv s)) -> snd p < length (sv_elems (sv s)).
Proof.
  intros I H. pose proof (inv_sync _ I) as Sy. pose proof (inv_trace _ I) as Tr. unfold sync_ok, trace_ok in *.
  rewrite <- Sy in *. apply tsv_tmpl_lt; assumption.
Qed.

Lemma wp_sink_get_template_contents s0 s t (Q : handle -> st -> Prop) :
  keeps s0 s -> named s t "template" = true ->
  (forall r s', keeps s0 s' -> stable s s' -> open_elems s' = open_elems s -> active_formatting s' = active_formatting s ->
                v_contents (sv s') r = true -> Q r s') ->
  wp (sink_get_template_contents t) Q s.
Proof.
  intros K N H. pose proof K as [I S].
  unfold sink_get_template_contents. rewrite wp_bind, wp_get.
  pose proof (named_ename _ _ _ N) as En. unfold ename_of in En.
  destruct (einfo_of s t) as [e|] eqn:E.
  2:{ exfalso. injection En as A B. unfold ns_html in A. discriminate. }
  pose proof (inv_sv _ I _ _ E) as F. injection En as A B.
  rewrite A, B, ename_eqb_refl in F. rewrite F.
  assert (Nm : v_named (sv s) t template_name = true).
  { eapply v_named_of; [exact E|]. rewrite A, B. reflexivity. }
  destruct (find _ _) as [p|] eqn:Ef.
  - rewrite wp_bind, wp_emit, wp_ret. pose proof (find_some _ _ Ef) as [Hin Hp].
    pose proof (sync_tmpl_lt s p I Hin) as Lt.
    apply H; [| apply stable_set_out | reflexivity | reflexivity |].
    + apply keeps_emit; [exact K | reflexivity | |].
      * cbn [ev_sv]. replace (Nat.eqb (snd p) (length (sv_elems (sv s)))) with false; [reflexivity|].
        symmetry. apply Nat.eqb_neq. intro X. exact (Nat.lt_irrefl _ (eq_rect _ (fun n => n < length (sv_elems (sv s))) Lt _ X)).
      * cbn [op_okb]. rewrite Nm, Ef, Nat.eqb_refl. reflexivity.
    + cbn [sv set_out]. unfold v_contents. apply existsb_exists. exists p. split; [exact Hin | apply Nat.eqb_refl].
  - rewrite wp_bind, wp_emit, wp_bind, wp_modify, wp_ret.
    assert (St : stable s (set_sv {| sv_elems := sv_elems (sv s) ++ [None]; sv_tmpl := (t, next_handle s) :: sv_tmpl (sv s) |}
                                  (set_out (EvOp (OpGetTemplateContents t (next_handle s)) :: out s) s))).
    { constructor; try reflexivity; [eexists; simpl; reflexivity|].
      exists [(t, next_handle s)]. split; [reflexivity | constructor; [apply Nat.le_refl | constructor]]. }
    apply H; [| exact St | reflexivity | reflexivity |].
    + split.
      * eapply TInv_sv_ext; [exact I | unfold sv_extends; simpl; reflexivity | intros e' E'; discriminate | reflexivity | |].
        -- cbn [ev_sv]. unfold next_handle. rewrite Nat.eqb_refl. reflexivity.
        -- cbn [op_okb]. rewrite Nm, Ef. unfold next_handle. rewrite Nat.eqb_refl. reflexivity.
      * eapply stable_trans; [exact S | exact St].
    + cbn. rewrite Nat.eqb_refl. reflexivity.
Qed.

(* ---------- appropriate place for inserting a node ---------- *)
(* the stack, the formatting list and the pointers are not touched: *)
Definition same_lists (s s' : st) : Prop :=
  open_elems s' = open_elems s /\ active_formatting s' = active_formatting s.
Lemma same_lists_refl s : same_lists s s. Proof. split; reflexivity. Qed.
Lemma same_lists_trans a b c : same_lists a b -> same_lists b c -> same_lists a c.
Proof. intros [A1 A2] [B1 B2]. split; congruence. Qed.

Lemma named_core_eq s s' h n : core_eq s s' -> named s' h n = named s h n.
Proof. intro C. unfold named, html_elem_named_b. rewrite (core_eq_ename _ _ _ C). reflexivity. Qed.

Lemma lt_eq_absurd (a b : nat) : a < b -> a = b -> False. Proof. intros; lia. Qed.
Lemma le_lt_eq_absurd (a b c : nat) : a <= b -> c < a -> b = c -> False. Proof. intros; lia. Qed.
(* ----- what is handed to the insertion methods ----- *)
Definition child_ok (s : st) (c : child) : Prop := v_child (sv s) c = true.

Lemma known_not_contents s h : TInv s -> known s h -> v_contents (sv s) h = false.
Proof.
  intros I [e He]. apply not_true_is_false. intro C.
  apply v_contents_true in C. destruct C as (p & Hin & Hp). subst h.
  pose proof (inv_sync _ I) as Sy. pose proof (inv_trace _ I) as Tr. unfold sync_ok, trace_ok in *.
  pose proof (tsv_tmpl_none _ Tr p) as X. rewrite Sy in X. specialize (X Hin).
  unfold einfo_of in He. assert (Y : Some e = None) by (rewrite <- He; exact X). discriminate Y.
Qed.
Lemma known_nonzero s h : TInv s -> known s h -> h <> 0.
Proof.
  intros I [e He] ->. pose proof (inv_sync _ I) as Sy. unfold sync_ok in Sy.
  destruct (tsv_head (sig (out s))) as [l E]. rewrite Sy in E. unfold einfo_of in He. rewrite E in He. discriminate.
Qed.
Lemma known_child_ok s h : TInv s -> known s h -> child_ok s (inl h).
Proof.
  intros I K. unfold child_ok, v_child, v_created.
  rewrite (known_v_known _ _ K), (known_not_contents _ _ I K).
  destruct (Nat.eqb h 0) eqn:E; [apply Nat.eqb_eq in E; exfalso; exact (known_nonzero _ _ I K E) | reflexivity].
Qed.
Lemma text_child_ok s t : child_ok s (inr t). Proof. reflexivity. Qed.
(* a comment, right after its creation *)
Lemma new_comment_child_ok s text : TInv s -> child_ok (new_comment_state text s) (inl (next_handle s)).
Proof.
  intro I. unfold child_ok, v_child, v_created, v_known, new_comment_state, sv_push. cbn [sv set_sv set_out sv_elems sv_tmpl].
  rewrite app_length. cbn [List.length]. unfold next_handle.
  replace (Nat.ltb (length (sv_elems (sv s))) (length (sv_elems (sv s)) + 1)) with true by (symmetry; apply Nat.ltb_lt; lia).
  pose proof (proj2 (inv_known _ I)) as P. unfold next_handle in P.
  replace (Nat.eqb (length (sv_elems (sv s))) 0) with false by (symmetry; apply Nat.eqb_neq; lia).
  cbn [andb negb]. apply negb_true_iff. apply not_true_is_false. intro X.
  apply v_contents_true in X. cbn [sv_tmpl] in X. destruct X as (q & Hin & Hq).
  pose proof (sync_tmpl_lt s q I Hin) as Lt. exact (lt_eq_absurd _ _ Lt Hq).
Qed.
(* the check of a child survives the growth of the sink view *)
Lemma child_ok_stable s s' c : stable s s' -> child_ok s c -> child_ok s' c.
Proof.
  intros S. destruct c as [h|t]; [|intros _; reflexivity]. unfold child_ok, v_child, v_created.
  intro H. apply andb_true_iff in H. destruct H as [H H3]. apply andb_true_iff in H. destruct H as [H1 H2].
  destruct (st_sv _ _ S) as [l E]. destruct (st_tmpl _ _ S) as (m & Em & Fm).
  unfold v_known in *. apply Nat.ltb_lt in H1.
  replace (Nat.ltb h (length (sv_elems (sv s')))) with true by (symmetry; apply Nat.ltb_lt; rewrite E, app_length; lia).
  rewrite H2. cbn [andb]. apply negb_true_iff. apply negb_true_iff in H3.
  apply not_true_is_false. intro X. apply v_contents_true in X. destruct X as (q & Hin & Hq).
  rewrite Em in Hin. apply in_app_or in Hin. destruct Hin as [Hin|Hin].
  - rewrite Forall_forall in Fm. specialize (Fm q Hin). exact (le_lt_eq_absurd _ _ _ Fm H1 Hq).
  - exact (v_contents_false _ _ H3 q Hin Hq).
Qed.

(* insertion points: [need] = a contents fragment is only returned when a template is open *)
Definition ip_ok (s : st) (need : bool) (ip : ipoint) : Prop :=
  match ip with
  | LastChild p => known s p \/ (v_contents (sv s) p = true /\ (need = true -> in_html_elem_named s (nm "template") = true))
  | BeforeSibling _ => False
  | TableFoster e p => known s e /\ known s p
  end.

Lemma existsb_ext_in' {A} (f g : A -> bool) l : (forall a, In a l -> f a = g a) -> existsb f l = existsb g l.
Proof.
  induction l as [|x t IH]; intro H; simpl; [reflexivity|].
  rewrite (H x (or_introl eq_refl)), IH; [reflexivity|]. intros a Ha. apply H. right. exact Ha.
Qed.
Lemma v_named_ename s h names : known s h -> v_named (sv s) h names = in_set names (ename_of s h).
Proof. intros [e He]. unfold v_named, ename_of. rewrite v_info_einfo, He. reflexivity. Qed.

Lemma in_html_elem_named_stable s s' n : TInv s -> stable s s' -> open_elems s' = open_elems s ->
  in_html_elem_named s' n = in_html_elem_named s n.
Proof.
  intros I S E. unfold in_html_elem_named. rewrite E. apply existsb_ext_in'.
  intros h Hh. unfold html_elem_named_b. rewrite (stable_ename _ _ _ S); [reflexivity|].
  destruct (inv_known _ I) as [A _]. rewrite Forall_forall in A. apply A. unfold state_handles. apply in_or_app. left. exact Hh.
Qed.
Lemma v_contents_stable s s' h : stable s s' -> v_contents (sv s) h = true -> v_contents (sv s') h = true.
Proof.
  intros S C. apply v_contents_true in C. destruct C as (q & Hin & Hq). destruct (st_tmpl _ _ S) as (m & Em & _).
  apply (v_contents_intro _ _ q); [rewrite Em; apply in_or_app; right; exact Hin | exact Hq].
Qed.
Lemma ip_ok_stable s s' need ip : TInv s -> stable s s' -> open_elems s' = open_elems s -> ip_ok s need ip -> ip_ok s' need ip.
Proof.
  intros I S E. destruct ip as [p|sb|e p]; simpl.
  - intros [K|[C N]]; [left; eapply stable_known; eassumption | right].
    split; [eapply v_contents_stable; eassumption|]. intro X. rewrite (in_html_elem_named_stable s s' _ I S E). apply N. exact X.
  - intros [].
  - intros [A B]. split; eapply stable_known; eassumption.
Qed.

Lemma in_rev_stack s pre e rest : rev (open_elems s) = pre ++ e :: rest -> In e (open_elems s).
Proof. intro E. apply in_rev. rewrite E. apply in_or_app. right. left. reflexivity. Qed.

Lemma core_eq_sym_TInv sn s : core_eq sn s -> TInv s -> TInv sn.
Proof.
  intros C I. eapply TInv_core_eq; [|exact I].
  destruct C as (A1&A2&A3&A4&A5&A6&A7&A8&A9&A10&A11). repeat split; congruence.
Qed.

Lemma wp_foster_search s0 sn l (Q : ipoint -> st -> Prop) :
  forall s, keeps s0 s -> core_eq sn s -> late s ->
  (exists pre, rev (open_elems sn) = pre ++ l) ->
  (forall ip s', keeps s0 s' -> same_lists s s' -> ip_ok s' true ip -> Q ip s') ->
  wp (foster_search sn l) Q s.
Proof.
  induction l as [|e rest IH]; intros s K C L [pre E] H; simpl.
  - rewrite wp_bind. apply wp_probe. rewrite wp_bind, wp_unwrap.
    destruct K as [I S].
    assert (I' : TInv sn) by (eapply core_eq_sym_TInv; eassumption).
    assert (L' : late sn) by (unfold late in *; destruct C as (A1 & _); rewrite <- A1; exact L).
    destruct (TInv_stack_nonempty _ I' L') as (r & rs & Er & _).
    exists r. split; [rewrite Er; reflexivity|]. rewrite wp_ret.
    assert (K1 : keeps s0 (set_out (EvArm 30 5 :: out s) s)) by ((apply keeps_set_out; [|reflexivity]); split; assumption).
    apply H; [exact K1 | split; reflexivity |]. left.
    assert (Kr : known sn r) by (eapply TInv_stack_known; [exact I' | rewrite Er; left; reflexivity]).
    destruct Kr as [er Hr]. exists er. change (einfo_of s r = Some er). rewrite (core_eq_einfo _ _ _ C). exact Hr.
  - assert (Ine : In e (open_elems sn)) by (eapply in_rev_stack; exact E).
    assert (Es : open_elems s = open_elems sn) by (destruct C as (_&_&_&_&X&_); exact X).
    destruct (named sn e "template") eqn:Nt.
    + rewrite wp_bind. apply wp_probe. rewrite wp_bind.
      assert (Nt1 : named (set_out (EvArm 30 3 :: out s) s) e "template" = true).
      { rewrite (named_core_eq sn); [exact Nt|]. eapply core_eq_trans; [exact C | (apply core_eq_set_out; reflexivity)]. }
      eapply wp_sink_get_template_contents; [(apply keeps_set_out; [|reflexivity]); exact K | exact Nt1 |].
      intros r s' K' St' E1 E2 Cr. rewrite wp_ret. apply H; [exact K' | split; assumption |].
      right. split; [exact Cr|]. intros _.
      unfold in_html_elem_named. apply existsb_exists. exists e. split; [rewrite E1; cbn [open_elems set_out]; rewrite Es; exact Ine|].
      (* the name of e is the same in s' *)
      pose proof K as [I S]. pose proof K' as [I' S'].
      assert (Ke : known s e) by (eapply TInv_stack_known; [exact I | rewrite Es; exact Ine]).
      unfold html_elem_named_b. rewrite (stable_ename _ s' e St'); [|exact Ke].
      unfold named, html_elem_named_b in Nt1. exact Nt1.
    + destruct (named sn e "table") eqn:Ntb.
      * destruct rest as [|p rest'].
        -- exfalso.
           destruct K as [I S].
           assert (I' : TInv sn) by (eapply core_eq_sym_TInv; eassumption).
           assert (L' : late sn) by (unfold late in *; destruct C as (A1 & _); rewrite <- A1; exact L).
           destruct (TInv_stack_nonempty _ I' L') as (r & rs & Er & Nr).
           rewrite Er in E. simpl in E.
           assert (e = r).
           { apply (f_equal (@rev _)) in E. rewrite rev_app_distr, rev_involutive in E. simpl in E.
             rewrite rev_app_distr in E. simpl in E. injection E as E _. auto. }
           subst e. apply named_ename in Ntb. rewrite Nr in Ntb. unfold html_html in Ntb. injection Ntb as X.
           vm_compute in X. discriminate.
        -- rewrite wp_bind. apply wp_probe. rewrite wp_ret.
           apply H; [(apply keeps_set_out; [|reflexivity]); exact K | split; reflexivity |].
           pose proof K as [I S].
           assert (Inp : In p (open_elems sn)).
           { apply in_rev. rewrite E. apply in_or_app. right. right. left. reflexivity. }
           split; (eapply TInv_stack_known; [eapply TInv_core_eq; [(apply core_eq_set_out; reflexivity) | exact I] | cbn [open_elems set_out]; rewrite Es; assumption]).
      * apply IH; try assumption. exists (pre ++ [e]). rewrite <- app_assoc. exact E.
Qed.

Lemma wp_appropriate_place s0 s o (Q : ipoint -> st -> Prop) :
  keeps s0 s -> late s -> (forall t, o = Some t -> known s t) ->
  (forall ip s', keeps s0 s' -> same_lists s s' -> ip_ok s' (match o with None => true | Some _ => false end) ip -> Q ip s') ->
  wp (appropriate_place o) Q s.
Proof.
  intros K L Ko H. unfold appropriate_place. rewrite wp_bind.
  assert (X : forall s1 target, keeps s0 s1 -> same_lists s s1 -> late s1 -> known s1 target ->
            (o = None -> In target (open_elems s1)) ->
            wp (s2 <- get ;;
                (if negb (foster_parenting s2 && in_set foster_target (ename_of s2 target))
                 then if named s2 target "template"
                      then probe 1 ;; c <- sink_get_template_contents target ;; ret (LastChild c)
                      else probe 2 ;; ret (LastChild target)
                 else foster_search s2 (rev (open_elems s2)))) Q s1).
  { intros s1 target K1 SL L1 Kt Ht. rewrite wp_bind, wp_get.
    destruct (negb _).
    - destruct (named s1 target "template") eqn:Nt.
      + rewrite wp_bind. apply wp_probe. rewrite wp_bind.
        eapply wp_sink_get_template_contents; [(apply keeps_set_out; [|reflexivity]); exact K1 | exact Nt |].
        intros r s' K' St' E1 E2 Cr. rewrite wp_ret. apply H; [exact K' | |].
        * eapply same_lists_trans; [exact SL | split; assumption].
        * right. split; [exact Cr|]. destruct o as [t|]; [discriminate|]. intros _.
          unfold in_html_elem_named. apply existsb_exists. exists target. split; [rewrite E1; exact (Ht eq_refl)|].
          unfold html_elem_named_b. rewrite (stable_ename _ s' target St'); [|exact Kt].
          unfold named, html_elem_named_b in Nt. exact Nt.
      + rewrite wp_bind. apply wp_probe. rewrite wp_ret. apply H; [(apply keeps_set_out; [|reflexivity]); exact K1| |].
        * eapply same_lists_trans; [exact SL | split; reflexivity].
        * left. exact Kt.
    - eapply wp_foster_search; [exact K1 | apply core_eq_refl | exact L1 | exists []; reflexivity |].
      intros ip s' K' SL' Ok'. apply H; [exact K' | eapply same_lists_trans; eassumption |].
      destruct ip as [p|sb|e p]; try exact Ok'. destruct Ok' as [A|[A B]]; [left; exact A | right; split; [exact A|]].
      intros _. apply B. reflexivity. }
  destruct o as [t|].
  - rewrite wp_bind. apply wp_probe. rewrite wp_ret.
    apply X; [(apply keeps_set_out; [|reflexivity]); exact K | split; reflexivity | exact L | exact (Ko t eq_refl) | discriminate].
  - destruct K as [I S]. apply wp_current_node; [exact I | exact L |]. intros h V.
    apply X; [split; assumption | apply same_lists_refl | exact L | | intros _; apply vlast_In; exact V].
    eapply TInv_stack_known; [exact I | apply vlast_In; exact V].
Qed.

Lemma ip_ok_container s need p : ip_ok s need (LastChild p) -> v_container (sv s) p = true.
Proof.
  intros [K|[C _]]; unfold v_container; [rewrite (known_v_elem _ _ K) | rewrite C]; rewrite ?orb_true_r; reflexivity.
Qed.

(* the operation that hands [c] to the sink *)
Definition inserts (op : sinkop) (c : child) : Prop :=
  match op with
  | OpAppend _ c' | OpAppendBeforeSibling _ c' | OpAppendBasedOnParent _ _ c' => c' = c
  | _ => False
  end.

Lemma wp_insert_at s0 s need ip c (Q : unit -> st -> Prop) :
  keeps s0 s -> ip_ok s need ip -> child_ok s c ->
  (forall s', keeps s0 s' -> same_lists s s' -> (exists ins, out s' = EvOp ins :: out s /\ inserts ins c) -> Q tt s') ->
  wp (insert_at ip c) Q s.
Proof.
  intros K Ok Ch H. unfold child_ok in Ch.
  destruct ip as [p|sb|e p]; simpl; rewrite wp_emit; (apply H; [|split; reflexivity | eexists; split; reflexivity]);
    (apply keeps_emit; [exact K | reflexivity | reflexivity |]); cbn [op_okb].
  - rewrite (ip_ok_container _ _ _ Ok), Ch. reflexivity.
  - destruct Ok.
  - destruct Ok as [A B]. rewrite (known_v_elem _ _ A), (known_v_elem _ _ B), Ch. reflexivity.
Qed.

Lemma wp_insert_appropriately s0 s c o (Q : unit -> st -> Prop) :
  keeps s0 s -> late s -> child_ok s c -> (forall t, o = Some t -> known s t) ->
  (forall s', keeps s0 s' -> same_lists s s' -> Q tt s') ->
  wp (insert_appropriately c o) Q s.
Proof.
  intros K L Ch Ko H. unfold insert_appropriately. rewrite wp_bind.
  eapply (wp_appropriate_place s s); [apply keeps_refl; exact (proj1 K) | exact L | exact Ko |]. intros ip s1 K1 SL1 Ok1.
  assert (K1' : keeps s0 s1) by (eapply keeps_trans; eassumption).
  eapply wp_insert_at; [exact K1' | exact Ok1 | eapply child_ok_stable; [exact (proj2 K1) | exact Ch] |].
  intros s2 K2 SL2 _. apply H; [exact K2 | eapply same_lists_trans; eassumption].
Qed.

Lemma wp_append_text s0 s text (Q : presult -> st -> Prop) :
  keeps s0 s -> late s -> (forall s', keeps s0 s' -> same_lists s s' -> Q Done s') -> wp (append_text text) Q s.
Proof.
  intros K L H. unfold append_text. rewrite wp_bind.
  eapply wp_insert_appropriately; [exact K | exact L | reflexivity | discriminate |]. intros s1 K1 SL. rewrite wp_ret. apply H; assumption.
Qed.

Lemma late_keeps s0 s : keeps s0 s -> late s0 -> late s.
Proof. intros [_ S] L. eapply stable_late; eassumption. Qed.

Lemma wp_append_comment s0 s text (Q : presult -> st -> Prop) :
  keeps s0 s -> late s -> (forall s', keeps s0 s' -> same_lists s s' -> Q Done s') -> wp (append_comment text) Q s.
Proof.
  intros K L H. unfold append_comment. rewrite wp_bind. unfold wp at 1. rewrite sink_create_comment_eq.
  rewrite wp_bind. eapply wp_insert_appropriately; [apply new_comment_keeps; exact K | exact L | apply new_comment_child_ok; exact (proj1 K) | discriminate |].
  intros s1 K1 [E1 E2]. rewrite wp_ret. apply H; [exact K1 | split; [rewrite E1 | rewrite E2]; reflexivity].
Qed.

Lemma wp_append_comment_to_doc s0 s text (Q : presult -> st -> Prop) :
  keeps s0 s -> (forall s', keeps s0 s' -> same_lists s s' -> Q Done s') -> wp (append_comment_to_doc text) Q s.
Proof.
  intros K H. unfold append_comment_to_doc. rewrite wp_bind. unfold wp at 1. rewrite sink_create_comment_eq.
  rewrite wp_bind, wp_emit, wp_ret. apply H; [|split; reflexivity].
  apply keeps_emit; [apply new_comment_keeps; exact K | reflexivity | reflexivity |].
  cbn [op_okb]. pose proof (new_comment_child_ok s text (proj1 K)) as C. unfold child_ok in C. rewrite C. reflexivity.
Qed.

Lemma wp_append_comment_to_html s0 s text (Q : presult -> st -> Prop) :
  keeps s0 s -> late s -> (forall s', keeps s0 s' -> same_lists s s' -> Q Done s') -> wp (append_comment_to_html text) Q s.
Proof.
  intros K L H. unfold append_comment_to_html. rewrite wp_bind, wp_get, wp_bind, wp_unwrap.
  destruct K as [I S]. destruct (TInv_stack_nonempty _ I L) as (r & rs & Er & _).
  exists r. split; [rewrite Er; reflexivity|].
  rewrite wp_bind. unfold wp at 1. rewrite sink_create_comment_eq.
  rewrite wp_bind, wp_emit, wp_ret. apply H; [|split; reflexivity].
  assert (K : keeps s0 s) by (split; assumption).
  apply keeps_emit; [apply new_comment_keeps; exact K | reflexivity | reflexivity |].
  cbn [op_okb]. pose proof (new_comment_child_ok s text I) as C. unfold child_ok in C. rewrite C.
  assert (Kr : known s r) by (eapply TInv_stack_known; [exact I | rewrite Er; left; reflexivity]).
  pose proof (new_comment_keeps s s text (keeps_refl _ I)) as [_ Sc].
  unfold v_container. rewrite (known_v_elem _ _ (stable_known _ _ _ Sc Kr)), orb_true_r. reflexivity.
Qed.

(* ---------- modes ---------- *)
Lemma TInv_set_mode s m :
  TInv s -> early_mode m = false ->
  (exists r rest, open_elems s = r :: rest /\ ename_of s r = html_html) ->
  match orig_mode s with Some _ => saving_mode m = true | None => saving_mode m = false end ->
  (m <> InTableText -> pending_table_text s = []) ->
  (head_needed m = true -> head_elem s <> None) ->
  TInv (set_mode m s).
Proof.
  intros [I1 I2 I3 I4 I5 I6 I7 I8 I9 I10 I11] Em R O P H. constructor; try assumption.
  - unfold root_ok. simpl. rewrite Em. exact R.
  - unfold orig_ok in *. simpl. destruct (orig_mode s) as [o|].
    + destruct I4 as (_ & A & B). repeat split; assumption.
    + exact O.
  - unfold head_ok in *. simpl. intros [A|A]; [apply H; exact A | apply I8; right; exact A].
Qed.

Lemma orig_none_of_nonsaving s : TInv s -> saving_mode (mode s) = false -> orig_mode s = None.
Proof.
  intros I N. pose proof (inv_orig _ I) as O. unfold orig_ok in O.
  destruct (orig_mode s); [destruct O as (A & _); congruence | reflexivity].
Qed.

Lemma pending_nil_of_nonsaving s : TInv s -> saving_mode (mode s) = false -> pending_table_text s = [].
Proof. intros I N. apply (inv_pending _ I). intro E. rewrite E in N. discriminate. Qed.

(* the common case: from a non-saving mode to a mode that needs nothing *)
Lemma keeps_set_mode s0 s m :
  keeps s0 s -> late s -> saving_mode (mode s) = false ->
  early_mode m = false -> saving_mode m = false -> (head_needed m = true -> head_elem s <> None) ->
  TInv (set_mode m s).
Proof.
  intros [I S] L N Em Sm H. apply TInv_set_mode; try assumption.
  - apply TInv_stack_nonempty; assumption.
  - rewrite (orig_none_of_nonsaving _ I N). exact Sm.
  - intros _. apply pending_nil_of_nonsaving; assumption.
Qed.

(* ---------- stack walks: the remaining stack is a prefix that keeps the root ---------- *)
Lemma rev_suffix_prefix {A} (l pre rest : list A) : rev l = pre ++ rest -> rev rest = firstn (length rest) l.
Proof.
  intro E. apply (f_equal (@rev A)) in E. rewrite rev_involutive, rev_app_distr in E. rewrite E.
  rewrite <- (rev_length rest). rewrite firstn_app, Nat.sub_diag, firstn_all. simpl. rewrite app_nil_r. reflexivity.
Qed.

Lemma removelast_firstn {A} (l : list A) : removelast l = firstn (length l - 1) l.
Proof.
  induction l as [|a t IH]; [reflexivity|]. destruct t as [|b t']; [reflexivity|].
  change (removelast (a :: b :: t')) with (a :: removelast (b :: t')). rewrite IH. simpl. rewrite Nat.sub_0_r. reflexivity.
Qed.

(* a stack whose bottom is the root, seen from the top *)
Lemma rev_root {A} (r : A) rest : rev (r :: rest) = rev rest ++ [r].
Proof. reflexivity. Qed.

Lemma firstn_firstn_le {A} (l : list A) i j : i <= j -> firstn i (firstn j l) = firstn i l.
Proof. intro L. rewrite firstn_firstn. rewrite Nat.min_l; [reflexivity | exact L]. Qed.

(* pop *)
Lemma wp_pop s0 s (Q : handle -> st -> Prop) :
  keeps s0 s -> late s -> 2 <= length (open_elems s) ->
  (forall e s', keeps s0 s' -> vlast (open_elems s) = Some e ->
                open_elems s' = firstn (length (open_elems s) - 1) (open_elems s) ->
                active_formatting s' = active_formatting s -> Q e s') ->
  wp pop Q s.
Proof.
  intros K L Len H. pose proof K as [I S]. destruct (TInv_vlast _ I L) as [e V].
  unfold pop. rewrite wp_bind, wp_get, wp_bind, wp_unwrap. exists e. split; [exact V|].
  rewrite wp_bind, wp_modify, wp_bind, wp_emit, wp_ret.
  apply H; [| exact V | simpl; unfold vpop; apply removelast_firstn | reflexivity].
  assert (Ke : known s e) by (eapply TInv_stack_known; [exact I | apply vlast_In; exact V]).
  apply keeps_emit; [| reflexivity | reflexivity | cbn [op_okb]; exact (known_v_elem _ _ Ke)]. split.
  - unfold vpop. rewrite removelast_firstn. apply TInv_truncate; [exact I | exact L | lia].
  - eapply stable_trans; [exact S|]. apply stable_eqs; reflexivity.
Qed.

(* the prefix form of a shrunk stack *)
Definition shrunk (s s' : st) : Prop :=
  exists k, 1 <= k /\ k <= length (open_elems s) /\ open_elems s' = firstn k (open_elems s).

Lemma shrunk_refl s : late s -> TInv s -> shrunk s s.
Proof.
  intros L I. destruct (TInv_stack_nonempty _ I L) as (r & rest & E & _).
  exists (length (open_elems s)). repeat split; try lia; [rewrite E; simpl; lia | rewrite firstn_all; reflexivity].
Qed.
Lemma shrunk_trans a b c : shrunk a b -> shrunk b c -> shrunk a c.
Proof.
  intros (k1 & A1 & A2 & A3) (k2 & B1 & B2 & B3).
  exists k2. rewrite A3 in B2, B3. rewrite firstn_length in B2.
  repeat split; try lia. rewrite B3. apply firstn_firstn_le. lia.
Qed.
Lemma shrunk_stack_eq a b c : shrunk a b -> open_elems c = open_elems b -> shrunk a c.
Proof. intros (k & A1 & A2 & A3) B1. exists k. repeat split; try lia; congruence. Qed.
Lemma shrunk_same a b c : shrunk a b -> same_lists b c -> shrunk a c.
Proof. intros Sh [B1 _]. eapply shrunk_stack_eq; eassumption. Qed.
Lemma same_shrunk a b c : same_lists a b -> shrunk b c -> shrunk a c.
Proof. intros [B1 B2] (k & A1 & A2 & A3). exists k. rewrite B1 in A2, A3. repeat split; try lia; congruence. Qed.

Lemma keeps_shrink s0 s k :
  keeps s0 s -> late s -> 1 <= k -> keeps s0 (set_open_elems (firstn k (open_elems s)) s).
Proof.
  intros [I S] L K. split.
  - apply TInv_truncate; assumption.
  - eapply stable_trans; [exact S|]. apply stable_eqs; reflexivity.
Qed.

(* the list of pops emitted for a list of elements: only `out` changes *)
Lemma wp_mapM_pops s0 s (l : list handle) (Q : unit -> st -> Prop) :
  keeps s0 s -> Forall (known s) l -> (forall s', keeps s0 s' -> same_lists s s' -> Q tt s') ->
  wp (mapM_ (fun e => emit (OpPop e)) l) Q s.
Proof.
  revert s. induction l as [|e t IH]; intros s K F H; simpl.
  - rewrite wp_ret. apply H; [exact K | apply same_lists_refl].
  - inversion F as [|x y Fe Ft]; subst. rewrite wp_bind, wp_emit.
    apply IH; [apply keeps_emit; [exact K | reflexivity | reflexivity | cbn [op_okb]; exact (known_v_elem _ _ Fe)] | exact Ft |].
    intros s' K' SL. apply H; [exact K'|]. eapply same_lists_trans; [|exact SL]. split; reflexivity.
Qed.

(* generate_implied_end_tags *)
Lemma implied_split_app s set l : forall p q, implied_split s set l = (p, q) ->
  l = p ++ q /\ Forall (fun h => set (ename_of s h) = true) p.
Proof.
  induction l as [|e r IH]; intros p q E; simpl in E.
  - injection E as <- <-. split; [reflexivity | constructor].
  - destruct (set (ename_of s e)) eqn:Se.
    + destruct (implied_split s set r) as [p' q'] eqn:E'. injection E as <- <-.
      destruct (IH _ _ eq_refl) as [A B]. split; [simpl; rewrite A; reflexivity | constructor; assumption].
    + injection E as <- <-. split; [reflexivity | constructor].
Qed.

Lemma suffix_keeps_root {A} (P : A -> Prop) (r : A) tl p q :
  rev (r :: tl) = p ++ q -> Forall P p -> ~ P r -> 1 <= length q.
Proof.
  intros E F N. destruct q as [|x q']; [|simpl; lia]. exfalso. rewrite app_nil_r in E.
  rewrite rev_root in E. rewrite <- E in F. apply Forall_app in F. destruct F as [_ F]. inversion F; subst. contradiction.
Qed.

Lemma wp_generate_implied_end_tags s0 s set (Q : unit -> st -> Prop) :
  keeps s0 s -> late s -> set html_html = false ->
  (forall s', keeps s0 s' -> shrunk s s' ->
      (forall h, In h (open_elems s) -> set (ename_of s h) = false -> In h (open_elems s')) -> Q tt s') ->
  wp (generate_implied_end_tags set) Q s.
Proof.
  intros K L Hs H. pose proof K as [I S].
  unfold generate_implied_end_tags. rewrite wp_bind, wp_get.
  destruct (implied_split s set (rev (open_elems s))) as [popped rest] eqn:E.
  destruct (implied_split_app _ _ _ _ _ E) as [A B].
  destruct (TInv_stack_nonempty _ I L) as (r & tl & Er & Nr).
  assert (Lq : 1 <= length rest).
  { rewrite Er in A. eapply (suffix_keeps_root (fun h => set (ename_of s h) = true)); [exact A | exact B |].
    rewrite Nr, Hs. discriminate. }
  pose proof (rev_suffix_prefix _ _ _ A) as P.
  rewrite wp_bind, wp_modify.
  assert (Kr : keeps s0 (set_open_elems (rev rest) s)) by (rewrite P; apply keeps_shrink; assumption).
  assert (Fp : Forall (known (set_open_elems (rev rest) s)) popped).
  { apply Forall_forall. intros h Hh. change (known s h). eapply TInv_stack_known; [exact I|].
    apply in_rev. rewrite A. apply in_or_app. left. exact Hh. }
  eapply wp_mapM_pops; [exact Kr | exact Fp |]. intros s' K' [E1 E2]. apply H; [exact K' | |].
  - exists (length rest). simpl in E1, E2. repeat split; [exact Lq | | rewrite E1; exact P].
    apply (f_equal (@length _)) in A. rewrite rev_length, app_length in A. lia.
  - intros h Hin Hset. rewrite E1. simpl. apply in_rev in Hin. rewrite A in Hin.
    apply in_app_or in Hin. destruct Hin as [Hin|Hin].
    + rewrite Forall_forall in B. apply B in Hin. congruence.
    + apply in_rev. rewrite rev_involutive. exact Hin.
Qed.

(* pop_until_current: the set contains html, so the walk stops at the root at the latest *)
Lemma drop_until_in_suffix s set l : forall r, drop_until_in s set l = Some r ->
  (exists pre, l = pre ++ r) /\ (exists e r', r = e :: r' /\ set (ename_of s e) = true).
Proof.
  induction l as [|e t IH]; intros r E; simpl in E; [discriminate|].
  destruct (set (ename_of s e)) eqn:Se.
  - injection E as <-. split; [exists []; reflexivity | exists e, t; split; [reflexivity | exact Se]].
  - destruct (IH _ E) as [[pre A] B]. split; [exists (e :: pre); rewrite A; reflexivity | exact B].
Qed.
Lemma drop_until_in_some s set l : (exists x, In x l /\ set (ename_of s x) = true) -> exists r, drop_until_in s set l = Some r.
Proof.
  induction l as [|e t IH]; intros (x & Hin & Hx); [contradiction|]. simpl.
  destruct (set (ename_of s e)) eqn:Se; [eauto|]. destruct Hin as [->|Hin]; [congruence|]. apply IH. eauto.
Qed.

Lemma wp_pop_until_current s0 s set (Q : unit -> st -> Prop) :
  keeps s0 s -> late s -> in_set set html_html = true ->
  (forall s', keeps s0 s' -> shrunk s s' ->
      (exists e, vlast (open_elems s') = Some e /\ in_set set (ename_of s e) = true) -> Q tt s') ->
  wp (pop_until_current set) Q s.
Proof.
  intros K L Hs H. pose proof K as [I S].
  unfold pop_until_current. rewrite wp_bind, wp_get.
  destruct (TInv_stack_nonempty _ I L) as (r & tl & Er & Nr).
  destruct (drop_until_in_some s (in_set set) (rev (open_elems s))) as [rest E].
  { exists r. split; [rewrite Er, rev_root; apply in_or_app; right; left; reflexivity | rewrite Nr; exact Hs]. }
  rewrite E. destruct (drop_until_in_suffix _ _ _ _ E) as [[pre A] (e & r' & B & Se)].
  pose proof (rev_suffix_prefix _ _ _ A) as P.
  rewrite wp_modify. apply H.
  - rewrite P. apply keeps_shrink; [exact K | exact L | subst rest; simpl; lia].
  - exists (length rest). simpl. repeat split; [subst rest; simpl; lia | | exact P].
    apply (f_equal (@length _)) in A. rewrite rev_length, app_length in A. lia.
  - exists e. simpl. split; [|exact Se]. subst rest. simpl. rewrite vlast_app. reflexivity.
Qed.

(* ---------- scopes ---------- *)
Lemma in_scope_l_In s scope pred l : in_scope_l s scope pred l = true -> exists x, In x l /\ pred x = true.
Proof.
  induction l as [|n r IH]; simpl; [discriminate|].
  destruct (pred n) eqn:P; [intros _; exists n; split; [left; reflexivity | exact P]|].
  destruct (scope (ename_of s n)); [discriminate|]. intro H. destruct (IH H) as (x & A & B). exists x. split; [right; exact A | exact B].
Qed.
Lemma in_scope_In s scope pred : in_scope s scope pred = true -> exists x, In x (open_elems s) /\ pred x = true.
Proof. unfold in_scope. intro H. apply in_scope_l_In in H. destruct H as (x & A & B). exists x. split; [apply in_rev; exact A | exact B]. Qed.
Lemma in_scope_named_In s scope name :
  in_scope_named s scope name = true -> exists x, In x (open_elems s) /\ ename_of s x = (ns_html, name).
Proof.
  unfold in_scope_named. intro H. apply in_scope_In in H. destruct H as (x & A & B). exists x. split; [exact A|].
  apply ename_eqb_eq. exact B.
Qed.

(* ---------- pop_until ---------- *)
Lemma pop_until_l_suffix s pred l : forall n n' rest, pop_until_l s pred l n = (n', rest) ->
  (exists x, In x l /\ pred (ename_of s x) = true) ->
  exists pre e, l = pre ++ e :: rest /\ pred (ename_of s e) = true.
Proof.
  induction l as [|e t IH]; intros n n' rest E (x & Hin & Hx); [contradiction|]. simpl in E.
  destruct (pred (ename_of s e)) eqn:Pe.
  - injection E as _ <-. exists [], e. split; [reflexivity | exact Pe].
  - destruct Hin as [->|Hin]; [congruence|].
    destruct (IH _ _ _ E (ex_intro _ x (conj Hin Hx))) as (pre & e' & A & B).
    exists (e :: pre), e'. split; [rewrite A; reflexivity | exact B].
Qed.

Lemma wp_pop_until s0 s pred (Q : nat -> st -> Prop) :
  keeps s0 s -> late s -> pred html_html = false ->
  (exists x, In x (open_elems s) /\ pred (ename_of s x) = true) ->
  (forall n s', keeps s0 s' -> shrunk s s' -> Q n s') ->
  wp (pop_until pred) Q s.
Proof.
  intros K L Hs (x & Hin & Hx) H. pose proof K as [I S].
  unfold pop_until. rewrite wp_bind, wp_get.
  destruct (pop_until_l s pred (rev (open_elems s)) 0) as [n rest] eqn:E.
  destruct (pop_until_l_suffix _ _ _ _ _ _ E) as (pre & e & A & Pe).
  { exists x. split; [apply in_rev in Hin; exact Hin | exact Hx]. }
  destruct (TInv_stack_nonempty _ I L) as (r & tl & Er & Nr).
  assert (Lr : 1 <= length rest).
  { destruct rest as [|y rest']; [|simpl; lia]. exfalso.
    rewrite Er, rev_root in A. apply (f_equal (@rev _)) in A. rewrite !rev_app_distr in A. simpl in A.
    injection A as A _. subst e. rewrite Nr in Pe. congruence. }
  replace (pre ++ e :: rest) with ((pre ++ [e]) ++ rest) in A by (rewrite <- app_assoc; reflexivity).
  pose proof (rev_suffix_prefix _ _ _ A) as P.
  rewrite wp_bind, wp_modify, wp_ret. apply H.
  - rewrite P. apply keeps_shrink; assumption.
  - exists (length rest). simpl. repeat split; [exact Lr | | exact P].
    apply (f_equal (@length _)) in A. rewrite rev_length, app_length in A. lia.
Qed.

Lemma wp_pop_until_named s0 s name (Q : nat -> st -> Prop) :
  keeps s0 s -> late s -> name <> nm "html" ->
  (exists x, In x (open_elems s) /\ ename_of s x = (ns_html, name)) ->
  (forall n s', keeps s0 s' -> shrunk s s' -> Q n s') ->
  wp (pop_until_named name) Q s.
Proof.
  intros K L N (x & Hin & Hx) H. unfold pop_until_named.
  eapply wp_pop_until; [exact K | exact L | | | exact H].
  - cbv beta. unfold html_html, ename_eqb. cbn [fst snd].
    destruct (str_eqb (nm "html") name) eqn:E; [apply str_eqb_eq in E; congruence | apply andb_false_r].
  - exists x. split; [exact Hin|]. rewrite Hx. apply ename_eqb_refl.
Qed.

Lemma wp_expect_to_close s0 s name (Q : unit -> st -> Prop) :
  keeps s0 s -> late s -> name <> nm "html" ->
  (exists x, In x (open_elems s) /\ ename_of s x = (ns_html, name)) ->
  (forall s', keeps s0 s' -> shrunk s s' -> Q tt s') ->
  wp (expect_to_close name) Q s.
Proof.
  intros K L N X H. unfold expect_to_close. rewrite wp_bind.
  eapply wp_pop_until_named; [exact K | exact L | exact N | exact X |].
  intros n s' K' Sh. rewrite wp_when. destruct (negb (Nat.eqb n 1)).
  - rewrite wp_parse_error. apply H; [(apply keeps_set_out; [|reflexivity]); exact K' | eapply shrunk_same; [exact Sh | split; reflexivity]].
  - apply H; assumption.
Qed.

(* names are stable along [keeps] for elements of the original stack *)
Lemma keeps_ename s0 s h : TInv s0 -> keeps s0 s -> In h (open_elems s0) -> ename_of s h = ename_of s0 h.
Proof. intros I0 [_ S] H. apply stable_ename; [exact S | eapply TInv_stack_known; eassumption]. Qed.

Lemma shrunk_In s s' h : shrunk s s' -> In h (open_elems s') -> In h (open_elems s).
Proof. intros (k & _ & _ & E) H. rewrite E in H. eapply In_firstn; exact H. Qed.

Lemma html_ne (n : string) : n <> "html" -> nm n <> nm "html".
Proof.
  intros N E. apply N. clear N. revert E. generalize "html". induction n as [|c n IH]; intros [|d m] E; simpl in E; try discriminate; [reflexivity|].
  injection E as E1 E2. f_equal; [|apply IH; exact E2].
  rewrite <- (Ascii.ascii_N_embedding c), <- (Ascii.ascii_N_embedding d), E1. reflexivity.
Qed.
