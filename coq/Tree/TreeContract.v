(* ========================================================================
   TreeContract.v - C05 for the html tree builder: the operations the model
   emits pass the part of the TreeSink contract (SinkSpec.Contract.check_op)
   that does not depend on the shape of the tree.

   TInv carries [trace_ok]: every emitted operation passed [op_okb] in the sink
   view of its moment (TreeInvDefs.v).  This file relates the sink view to the
   abstract DOM [DomSpec.run] builds from the same operations ([Sim]) and shows
   that an operation accepted by [op_okb] can only be rejected by
   [Contract.check_op] for one of the clauses that are NOT covered:
     CDuplicateAttribute, CChildHasParent, CCycle, CSecondDoctype,
     CDoctypeAfterElement, CCloneModel.
   Covered (never reported on a trace of the model): CUnknownHandle,
   CHandleNumbering, CTemplateFlag, CMathmlIpFlag, CNotElement, CNotTemplate,
   CNotForm, CNotAssociatable, CNotScript, CNotOption, CParentNotContainer,
   CChildNotCreated, CSiblingIsText, CSiblingNoParent (the model never calls
   append_before_sibling, and append_based_on_parent_node takes the "before"
   branch only for an element that has a parent).
   ======================================================================== *)
From Coq Require Import List NArith Bool Arith Lia String.
From HV Require Import Dom.DomSpec Dom.DomLemmas SinkSpec.Contract SinkSpec.ContractProofs.
From HV Require Import Tree.TreeTypes Tree.TreeTables Tree.TreeModelHelpers Tree.TreeModelRules Tree.TreeModel
  Tree.TreeInvDefs.
Import ListNotations.
Open Scope list_scope.
Notation length := List.length (only parsing).

(* ---------- what an operation can change in the arena ---------- *)
(* the kind of a node: its data without the payload that operations may rewrite *)
Definition kind (x : data) : data :=
  match x with
  | Element nm _ tm ip => Element nm [] tm ip
  | DomSpec.Text _ => DomSpec.Text []
  | Comment _ => Comment []
  | Doctype _ _ _ => Doctype [] [] []
  | PI _ _ => PI [] []
  | Document => Document
  end.

(* [d'] extends [d]: same handle table, old nodes keep their kind *)
Definition ext (d d' : dom) : Prop :=
  size d <= size d' /\ d_names d' = d_names d /\ forall n, n < size d -> kind (data_of d' n) = kind (data_of d n).

Lemma ext_refl d : ext d d. Proof. repeat split; auto. Qed.
Lemma ext_trans a b c : ext a b -> ext b c -> ext a c.
Proof.
  intros (A1 & A2 & A3) (B1 & B2 & B3). repeat split; [lia | congruence|].
  intros n H. rewrite B3 by lia. apply A3. exact H.
Qed.

Lemma data_set_kids d n l m : data_of (set_kids d n l) m = data_of d m.
Proof.
  unfold data_of, set_kids, set_nodes. simpl.
  destruct (Nat.eq_dec n m) as [->|N].
  - destruct (Nat.lt_ge_cases m (length (d_nodes d))) as [L|G].
    + rewrite nth_upd_eq by exact L. reflexivity.
    + rewrite upd_oob by exact G. reflexivity.
  - rewrite nth_upd_neq by exact N. reflexivity.
Qed.
Lemma size_set_kids d n l : size (set_kids d n l) = size d.
Proof. unfold size, set_kids, set_nodes. simpl. apply upd_length. Qed.
Lemma ext_set_kids d n l : ext d (set_kids d n l).
Proof. repeat split; [rewrite size_set_kids; lia | intros m _; rewrite data_set_kids; reflexivity]. Qed.

Lemma size_set_data d n x : size (set_data d n x) = size d.
Proof. unfold size, set_data, set_nodes. simpl. apply upd_length. Qed.
Lemma data_set_data d n x m : data_of (set_data d n x) m = if Nat.eqb m n && Nat.ltb n (size d) then x else data_of d m.
Proof.
  unfold data_of, set_data, set_nodes, size. simpl.
  destruct (Nat.eq_dec n m) as [->|N].
  - rewrite Nat.eqb_refl. simpl. destruct (Nat.lt_ge_cases m (length (d_nodes d))) as [L|G].
    + rewrite nth_upd_eq by exact L. replace (Nat.ltb m (length (d_nodes d))) with true by (symmetry; apply Nat.ltb_lt; exact L). reflexivity.
    + rewrite upd_oob by exact G. replace (Nat.ltb m (length (d_nodes d))) with false by (symmetry; apply Nat.ltb_ge; exact G). reflexivity.
  - rewrite nth_upd_neq by exact N. replace (Nat.eqb m n) with false by (symmetry; apply Nat.eqb_neq; auto). reflexivity.
Qed.
Lemma ext_set_data d n x : kind x = kind (data_of d n) -> ext d (set_data d n x).
Proof.
  intro K. repeat split; [rewrite size_set_data; lia|]. intros m _. rewrite data_set_data.
  destruct (Nat.eqb m n && Nat.ltb n (size d)) eqn:E; [|reflexivity].
  apply andb_true_iff in E. destruct E as [E _]. apply Nat.eqb_eq in E. subst m. exact K.
Qed.

Lemma size_alloc d x ks : size (alloc d x ks) = S (size d).
Proof. unfold size, alloc, set_nodes. simpl. rewrite app_length. simpl. lia. Qed.
Lemma data_alloc_old d x ks m : m < size d -> data_of (alloc d x ks) m = data_of d m.
Proof. intro H. unfold data_of, alloc, set_nodes. simpl. rewrite app_nth1 by exact H. reflexivity. Qed.
Lemma data_alloc_new d x ks : data_of (alloc d x ks) (size d) = x.
Proof. unfold data_of, alloc, set_nodes, size. simpl. rewrite app_nth2 by lia. rewrite Nat.sub_diag. reflexivity. Qed.
Lemma ext_alloc d x ks : ext d (alloc d x ks).
Proof. repeat split; [rewrite size_alloc; lia | intros m H; rewrite data_alloc_old by exact H; reflexivity]. Qed.

Lemma ext_detach d n : ext d (detach d n).
Proof. unfold detach. destruct (parent_of d n); [apply ext_set_kids | apply ext_refl]. Qed.
Lemma ext_append_node d p c : ext d (append_node d p c). Proof. apply ext_set_kids. Qed.
Lemma ext_append_text d p s : ext d (DomSpec.append_text d p s).
Proof.
  unfold DomSpec.append_text.
  assert (F : ext d (append_node (alloc d (DomSpec.Text s) []) p (size d))) by (eapply ext_trans; [apply ext_alloc | apply ext_append_node]).
  destruct (last _ None) as [l|]; [|exact F].
  destruct (data_of d l) eqn:E; try exact F. apply ext_set_data. rewrite E. reflexivity.
Qed.
Lemma ext_before_node d sb c : ext d (before_node d sb c).
Proof.
  unfold before_node. eapply ext_trans; [apply ext_detach|].
  destruct (parent_of _ sb); [apply ext_set_kids | apply ext_refl].
Qed.
Lemma ext_before_text d sb s : ext d (before_text d sb s).
Proof.
  unfold before_text. destruct (parent_of d sb) as [p|]; [|apply ext_refl].
  assert (F : ext d (set_kids (alloc d (DomSpec.Text s) []) p (insert_before sb (size d) (kids d p)))) by (eapply ext_trans; [apply ext_alloc | apply ext_set_kids]).
  destruct (prev_of sb (kids d p)) as [q|]; [|exact F].
  destruct (data_of d q) eqn:E; try exact F. apply ext_set_data. rewrite E. reflexivity.
Qed.
Lemma ext_do_append d p c : ext d (do_append d p c).
Proof. destruct c; [apply ext_append_node | apply ext_append_text]. Qed.
Lemma ext_do_before d sb c : ext d (do_before d sb c).
Proof. destruct c; [apply ext_before_node | apply ext_before_text]. Qed.
Lemma ext_reparent d a b : ext d (reparent d a b).
Proof. unfold reparent. eapply ext_trans; apply ext_set_kids. Qed.

(* deep copies only allocate *)
Lemma ext_fold_copy (f : dom -> nid -> dom * nid) :
  (forall d k, ext d (fst (f d k))) ->
  forall l d acc, ext d (fst (fold_left (fun (a : dom * list nid) k => let '(d', k') := f (fst a) k in (d', snd a ++ [k'])) l (d, acc))).
Proof.
  intros H. induction l as [|k t IH]; intros d acc; simpl; [apply ext_refl|].
  specialize (H d k). destruct (f d k) as [d' k'] eqn:E. simpl in H. eapply ext_trans; [exact H | apply IH].
Qed.
Lemma ext_copy : forall fuel d n, ext d (fst (copy fuel d n)).
Proof.
  induction fuel as [|f IH]; intros d n; simpl; [apply ext_refl|].
  pose proof (ext_fold_copy (copy f) IH (kids d n) d []) as F.
  destruct (fold_left _ (kids d n) (d, [])) as [d1 ks] eqn:E. simpl in F.
  destruct (data_of d n) as [| | | |nm at_ tm ip|] eqn:Ed; try (simpl; eapply ext_trans; [exact F | apply ext_alloc]).
  destruct tm as [t|]; [|simpl; eapply ext_trans; [exact F | apply ext_alloc]].
  pose proof (IH d1 t) as G. destruct (copy f d1 t) as [d2 t'] eqn:E2. simpl in G |- *.
  eapply ext_trans; [exact F | eapply ext_trans; [exact G | apply ext_alloc]].
Qed.
Lemma ext_copy_all d l : ext d (fst (copy_all d l)).
Proof. unfold copy_all. apply (ext_fold_copy (copy (S (size d)))). intros d0 k. apply ext_copy. Qed.
Lemma ext_clone_option d o : ext d (clone_option d o).
Proof.
  unfold clone_option. destruct (nearest_select _ _ _ _) as [sel|]; [|apply ext_refl].
  destruct (has_attr_local _ _); [apply ext_refl|].
  destruct (first_in_tree_order _ _ _ _) as [sc|]; [|apply ext_refl].
  destruct (has_attr_local _ _); [|apply ext_refl].
  pose proof (ext_copy_all d (kids d o)) as F. destruct (copy_all d (kids d o)) as [d1 ks]. simpl in F.
  eapply ext_trans; [exact F | apply ext_set_kids].
Qed.

Lemma ext_with1 d h k : (forall n, ext d (k n)) -> ext d (with1 d h k).
Proof. intro H. unfold with1. destruct (resolve d h); [apply H | apply ext_refl]. Qed.
Lemma ext_with_child d c k : (forall x, ext d (k x)) -> ext d (with_child d c k).
Proof. intro H. unfold with_child. destruct c as [h|s]; [destruct (resolve d h); [apply H | apply ext_refl] | apply H]. Qed.

(* the operations that hand out no new handle *)
Definition names_op (op : sinkop) : bool :=
  match op with
  | OpCreateElement _ _ _ _ _ _ | OpCreateComment _ _ | OpCreatePi _ _ _ | OpGetTemplateContents _ _ => true
  | _ => false
  end.
Lemma ext_apply d op : names_op op = false -> ext d (apply d op).
Proof.
  destruct op; simpl; intro H; try discriminate; try apply ext_refl.
  - apply ext_with1. intro pn. apply ext_with_child. intro x. apply ext_do_append.
  - apply ext_with1. intro sn. apply ext_with_child. intro x. apply ext_do_before.
  - apply ext_with1. intro en. apply ext_with1. intro pn. apply ext_with_child. intro x.
    destruct (parent_of d en); [apply ext_do_before | apply ext_do_append].
  - eapply ext_trans; [apply ext_alloc | apply ext_append_node].
  - apply ext_with1. intro tn. destruct (data_of d tn) eqn:E; try apply ext_refl.
    apply ext_set_data. rewrite E. reflexivity.
  - apply ext_with1. intro n. apply ext_detach.
  - apply ext_with1. intro an. apply ext_with1. intro bn. apply ext_reparent.
  - repeat split; auto.
  - apply ext_with1. intro n. apply ext_clone_option.
Qed.

(* ---------- the sink view and the abstract DOM ---------- *)
Lemma kind_elem d' d n nm at_ tm ip : kind (data_of d' n) = kind (data_of d n) -> data_of d n = Element nm at_ tm ip ->
  exists at', data_of d' n = Element nm at' tm ip.
Proof. intros K E. rewrite E in K. destruct (data_of d' n); simpl in K; try discriminate. injection K as -> -> ->. eauto. Qed.
Lemma kind_doc d' d n : kind (data_of d' n) = kind (data_of d n) -> data_of d n = Document -> data_of d' n = Document.
Proof. intros K E. rewrite E in K. destruct (data_of d' n); simpl in K; try discriminate. reflexivity. Qed.
Lemma kind_flags x y : kind x = kind y -> is_created x = is_created y /\ is_element x = is_element y /\ is_container x = is_container y.
Proof. destruct x, y; simpl; intro H; try discriminate; auto. Qed.

Lemma index_of_app_old c l x : In c l -> index_of c (l ++ [x]) = index_of c l.
Proof.
  induction l as [|y t IH]; simpl; [contradiction|]. intro H.
  destruct (Nat.eqb y c) eqn:E; [reflexivity|]. destruct H as [->|H]; [rewrite Nat.eqb_refl in E; discriminate|].
  rewrite IH by exact H. reflexivity.
Qed.
Lemma index_of_app_other c l x : x <> c -> ~ In c l -> index_of c (l ++ [x]) = None.
Proof.
  induction l as [|y t IH]; simpl; intros N H.
  - replace (Nat.eqb x c) with false by (symmetry; apply Nat.eqb_neq; exact N). reflexivity.
  - destruct (Nat.eqb y c) eqn:E; [apply Nat.eqb_eq in E; exfalso; apply H; left; exact E|].
    rewrite IH; [reflexivity | exact N | intro X; apply H; right; exact X].
Qed.
Lemma index_of_app_new c l : ~ In c l -> index_of c (l ++ [c]) = Some (length l).
Proof.
  induction l as [|y t IH]; simpl; intro H; [rewrite Nat.eqb_refl; reflexivity|].
  destruct (Nat.eqb y c) eqn:E; [apply Nat.eqb_eq in E; exfalso; apply H; left; exact E|].
  rewrite IH; [reflexivity | intro X; apply H; right; exact X].
Qed.
Lemma index_of_app_any c l x : (In c l \/ x <> c) -> index_of c (l ++ [x]) = index_of c l.
Proof.
  intros [H|H]; [apply index_of_app_old; exact H|].
  destruct (index_of c l) as [i|] eqn:E.
  - rewrite index_of_app_old; [exact E | apply index_of_Some in E; tauto].
  - apply index_of_app_other; [exact H | apply index_of_None; exact E].
Qed.

Definition tfind (t : handle) (l : list (handle * handle)) : option (handle * handle) :=
  find (fun p => Nat.eqb (fst p) t) l.

Record Sim (d : dom) (v : sview) : Prop := {
  sim_len : length (d_names d) = length (sv_elems v) ;
  sim_bound : forall h n, nth_error (d_names d) h = Some n -> n < size d ;
  sim_nodup : NoDup (d_names d) ;
  sim_doc : nth_error (d_names d) 0 = Some 0 /\ data_of d 0 = Document /\ nth 0 (sv_elems v) None = None ;
  sim_elem : forall h e, nth h (sv_elems v) None = Some e ->
    exists n nm at_ tm, nth_error (d_names d) h = Some n /\ data_of d n = Element nm at_ tm (e_ip e) /\
      q_ns nm = e_ns e /\ q_local nm = e_local e /\
      (in_set template_name (e_ns e, e_local e) = true <-> exists c, tm = Some c) ;
  sim_none : forall h, 0 < h -> h < length (sv_elems v) -> nth h (sv_elems v) None = None ->
    exists n, nth_error (d_names d) h = Some n /\
      (if v_contents v h then data_of d n = Document
       else is_created (data_of d n) = true /\ is_element (data_of d n) = false) ;
  sim_tdom : forall p, In p (sv_tmpl v) -> fst p < length (sv_elems v) /\ snd p < length (sv_elems v) ;
  sim_tmpl : forall t n nm at_ c ip, nth_error (d_names d) t = Some n -> data_of d n = Element nm at_ (Some c) ip ->
    c < size d /\ data_of d c = Document /\ index_of c (d_names d) = option_map snd (tfind t (sv_tmpl v)) ;
  sim_inj : forall t1 t2 n1 n2 nm1 a1 ip1 nm2 a2 ip2 c,
    nth_error (d_names d) t1 = Some n1 -> nth_error (d_names d) t2 = Some n2 ->
    data_of d n1 = Element nm1 a1 (Some c) ip1 -> data_of d n2 = Element nm2 a2 (Some c) ip2 -> t1 = t2
}.

Lemma Sim_init : Sim DomSpec.init init_sv.
Proof.
  constructor; simpl.
  - reflexivity.
  - intros [|h] n H; simpl in H; [injection H as <-; unfold size; simpl; lia | destruct h; discriminate].
  - constructor; [intros [] | constructor].
  - repeat split; reflexivity.
  - intros [|[|h]] e H; discriminate H.
  - intros h H0 H1. simpl in H1. lia.
  - intros p [].
  - intros [|[|t]] n nm at_ c ip H E; simpl in H; try discriminate. injection H as <-. discriminate E.
  - intros [|[|t1]] t2 n1 n2 nm1 a1 ip1 nm2 a2 ip2 c H1 H2 E1; simpl in H1; try discriminate. injection H1 as <-. discriminate E1.
Qed.

(* operations that name nothing keep the relation *)
Lemma Sim_ext d d' v : ext d d' -> Sim d v -> Sim d' v.
Proof.
  intros (E1 & E2 & E3) [S1 S2 S3 S4 S5 S6 S7 S8 S9].
  assert (B : forall h n, nth_error (d_names d) h = Some n -> n < size d) by exact S2.
  constructor; rewrite ?E2; try assumption.
  - intros h n H. specialize (S2 h n H). lia.
  - destruct S4 as (A & A' & A''). repeat split; [exact A | | exact A''].
    apply (kind_doc d' d 0); [apply E3; apply (B 0 0 A) | exact A'].
  - intros h e H. destruct (S5 h e H) as (n & nm & at_ & tm & N & D & R).
    destruct (kind_elem d' d n nm at_ tm (e_ip e) (E3 n (B h n N)) D) as [at' D'].
    exists n, nm, at', tm. split; [exact N | split; [exact D' | exact R]].
  - intros h H0 H1 H2. destruct (S6 h H0 H1 H2) as (n & N & R). exists n. split; [exact N|].
    pose proof (E3 n (B h n N)) as K. destruct (v_contents v h).
    + apply (kind_doc d' d n K R).
    + destruct (kind_flags _ _ K) as (F1 & F2 & _). rewrite F1, F2. exact R.
  - intros t n nm at_ c ip N D.
    pose proof (E3 n (B t n N)) as K. rewrite D in K.
    destruct (data_of d n) as [| | | |nm0 at0 tm0 ip0|] eqn:D0; simpl in K; try discriminate. injection K as <- <- <-.
    destruct (S8 t n nm at0 c ip N D0) as (C1 & C2 & C3). split; [lia | split; [|exact C3]].
    apply (kind_doc d' d c (E3 c C1) C2).
  - intros t1 t2 n1 n2 nm1 a1 ip1 nm2 a2 ip2 c N1 N2 D1 D2.
    pose proof (E3 n1 (B t1 n1 N1)) as K1. rewrite D1 in K1. pose proof (E3 n2 (B t2 n2 N2)) as K2. rewrite D2 in K2.
    destruct (data_of d n1) eqn:X1; simpl in K1; try discriminate. injection K1 as <- <- <-.
    destruct (data_of d n2) eqn:X2; simpl in K2; try discriminate. injection K2 as <- <- <-.
    eapply (S9 t1 t2 n1 n2); eassumption.
Qed.

(* ---------- a creating operation ---------- *)
Lemma nth_error_app_last {A} (l : list A) x h y : nth_error (l ++ [x]) h = Some y ->
  (h < length l /\ nth_error l h = Some y) \/ (h = length l /\ y = x).
Proof.
  intro H. destruct (Nat.lt_ge_cases h (length l)) as [L|G].
  - left. split; [exact L|]. rewrite nth_error_app1 in H by exact L. exact H.
  - right. rewrite nth_error_app2 in H by exact G. destruct (h - length l) as [|k] eqn:E; simpl in H.
    + injection H as <-. split; [lia | reflexivity].
    + destruct k; discriminate H.
Qed.
Lemma nth_app_last {A} (l : list A) x h d0 : nth h (l ++ [x]) d0 =
  if Nat.ltb h (length l) then nth h l d0 else if Nat.eqb h (length l) then x else d0.
Proof.
  destruct (Nat.ltb h (length l)) eqn:E.
  - apply Nat.ltb_lt in E. apply app_nth1. exact E.
  - apply Nat.ltb_ge in E. rewrite app_nth2 by exact E. destruct (Nat.eqb h (length l)) eqn:E2.
    + apply Nat.eqb_eq in E2. rewrite E2, Nat.sub_diag. reflexivity.
    + apply Nat.eqb_neq in E2. destruct (h - length l) as [|k] eqn:E3; [lia|]. simpl. destruct k; reflexivity.
Qed.

Lemma NoDup_snoc {A} (l : list A) x : NoDup l -> ~ In x l -> NoDup (l ++ [x]).
Proof.
  induction l as [|y t IH]; simpl; intros N H; [constructor; [intros [] | constructor]|].
  inversion N as [|a b Ny Nt]; subst. constructor.
  - intro X. apply in_app_or in X. destruct X as [X|[X|[]]]; [exact (Ny X) | apply H; left; symmetry; exact X].
  - apply IH; [exact Nt | intro X; apply H; right; exact X].
Qed.
Lemma tfind_none_fresh t l : (forall p, In p l -> fst p < t) -> tfind t l = None.
Proof.
  intro H. unfold tfind. destruct (find _ l) as [p|] eqn:E; [|reflexivity].
  apply find_some in E. destruct E as [Hin Hp]. apply Nat.eqb_eq in Hp. specialize (H p Hin). lia.
Qed.
Lemma v_contents_fresh v h : (forall p, In p (sv_tmpl v) -> snd p < h) -> v_contents v h = false.
Proof.
  intro H. apply not_true_is_false. intro C. apply v_contents_true in C. destruct C as (q & Hin & Hq). specialize (H q Hin). lia.
Qed.

Definition new_node_ok (d d1 : dom) (n' : nid) (e : option einfo) : Prop :=
  match e with
  | Some ei =>
    exists nm at_ tm, data_of d1 n' = Element nm at_ tm (e_ip ei) /\ q_ns nm = e_ns ei /\ q_local nm = e_local ei /\
      (in_set template_name (e_ns ei, e_local ei) = true <-> exists c, tm = Some c) /\
      (forall c, tm = Some c -> size d <= c /\ c < size d1 /\ c <> n' /\ data_of d1 c = Document)
  | None => is_created (data_of d1 n') = true /\ is_element (data_of d1 n') = false
  end.

Lemma Sim_add d d1 v n' e :
  Sim d v -> ext d d1 -> size d <= n' -> n' < size d1 -> new_node_ok d d1 n' e ->
  Sim (add_name d1 n') (sv_push e v).
Proof.
  intros S0 X Lo Hi New. pose proof (Sim_ext d d1 v X S0) as S1.
  destruct X as (X1 & X2 & X3).
  destruct S0 as [O1 O2 O3 O4 O5 O6 O7 O8 O9]. destruct S1 as [S1 S2 S3 S4 S5 S6 S7 S8 S9].
  assert (Old : forall h n, nth_error (d_names d1) h = Some n -> n < size d) by (intros h n H; rewrite X2 in H; eapply O2; exact H).
  assert (Fresh : ~ In n' (d_names d1)).
  { intro H. apply In_nth_error in H. destruct H as [h H]. specialize (Old h n' H). lia. }
  assert (Len1 : 1 <= length (sv_elems v)).
  { destruct S4 as (A & _). rewrite <- S1. destruct (d_names d1); [discriminate A | simpl; lia]. }
  assert (DN : forall m, data_of (add_name d1 n') m = data_of d1 m) by reflexivity.
  assert (SZ : size (add_name d1 n') = size d1) by reflexivity.
  constructor; unfold add_name, sv_push; cbn [d_names sv_elems sv_tmpl].
  - rewrite !app_length, S1. reflexivity.
  - intros h n H. change (n < size d1). apply nth_error_app_last in H. destruct H as [[L H]|[_ ->]]; [eapply S2; exact H | exact Hi].
  - apply NoDup_snoc; [exact S3 | exact Fresh].
  - destruct S4 as (A & A' & A''). repeat split.
    + rewrite nth_error_app1; [exact A | rewrite S1; lia].
    + exact A'.
    + rewrite app_nth1 by lia. exact A''.
  - intros h ei H. rewrite nth_app_last in H.
    destruct (Nat.ltb h (length (sv_elems v))) eqn:E.
    + apply Nat.ltb_lt in E. destruct (S5 h ei H) as (n & nm & at_ & tm & N & R).
      exists n, nm, at_, tm. split; [rewrite nth_error_app1; [exact N | rewrite S1; exact E] | exact R].
    + destruct (Nat.eqb h (length (sv_elems v))) eqn:E2; [|discriminate H]. apply Nat.eqb_eq in E2. subst e.
      simpl in New. destruct New as (nm & at_ & tm & D & R1 & R2 & R3 & _).
      exists n', nm, at_, tm. split; [rewrite nth_error_app2; [rewrite S1, E2, Nat.sub_diag; reflexivity | rewrite S1; lia]|].
      split; [exact D | repeat split; tauto].
  - intros h H0 H1 H2. rewrite app_length in H1. simpl in H1. rewrite nth_app_last in H2.
    change (v_contents {| sv_elems := sv_elems v ++ [e]; sv_tmpl := sv_tmpl v |} h) with (v_contents v h).
    destruct (Nat.ltb h (length (sv_elems v))) eqn:E.
    + apply Nat.ltb_lt in E. destruct (S6 h H0 E H2) as (n & N & R). exists n.
      split; [rewrite nth_error_app1; [exact N | rewrite S1; exact E] | exact R].
    + apply Nat.ltb_ge in E. assert (h = length (sv_elems v)) by lia. subst h. rewrite Nat.eqb_refl in H2. subst e.
      exists n'. split; [rewrite nth_error_app2; [rewrite S1, Nat.sub_diag; reflexivity | rewrite S1; lia]|].
      rewrite v_contents_fresh; [exact New | intros p Hp; apply S7; exact Hp].
  - intros p Hp. destruct (S7 p Hp) as [A B]. rewrite app_length. simpl. lia.
  - intros t n nm at_ c ip N D.
    change (c < size d1 /\ data_of d1 c = Document /\ index_of c (d_names d1 ++ [n']) = option_map snd (tfind t (sv_tmpl v))).
    change (data_of d1 n = Element nm at_ (Some c) ip) in D.
    apply nth_error_app_last in N. destruct N as [[L N]|[Et ->]].
    + destruct (S8 t n nm at_ c ip N D) as (C1 & C2 & C3). split; [exact C1 | split; [exact C2|]].
      rewrite index_of_app_any; [exact C3|]. right.
      (* c is an old node: below size d *)
      pose proof (X3 n (Old t n N)) as K. rewrite D in K.
      destruct (data_of d n) as [| | | |nm0 at0 tm0 ip0|] eqn:D0; simpl in K; try discriminate. injection K as <- <- <-.
      rewrite X2 in N. destruct (O8 t n nm at0 c ip N D0) as (C0 & _). lia.
    + destruct e as [ei|]; simpl in New.
      * destruct New as (nm0 & at0 & tm0 & D0 & _ & _ & _ & Cn). rewrite D0 in D. injection D as -> -> -> _.
        destruct (Cn c eq_refl) as (C1 & C2 & C3 & C4). split; [exact C2 | split; [exact C4|]].
        rewrite index_of_app_other; [| intro Y; apply C3; symmetry; exact Y |].
        -- rewrite tfind_none_fresh; [reflexivity|]. intros p Hp. destruct (S7 p Hp) as [A _]. rewrite Et, S1. exact A.
        -- intro H. apply In_nth_error in H. destruct H as [h H]. specialize (Old h c H). lia.
      * destruct New as [_ New]. rewrite D in New. discriminate New.
  - intros t1 t2 n1 n2 nm1 a1 ip1 nm2 a2 ip2 c N1 N2 D1 D2.
    assert (OldC : forall t n nm a ip, t < length (d_names d1) -> nth_error (d_names d1) t = Some n -> data_of d1 n = Element nm a (Some c) ip -> c < size d).
    { intros t n nm a ip _ N D. pose proof (X3 n (Old t n N)) as K. rewrite D in K.
      destruct (data_of d n) as [| | | |nm0 at0 tm0 ip0|] eqn:D0; simpl in K; try discriminate. injection K as <- <- <-.
      rewrite X2 in N. destruct (O8 t n nm at0 c ip N D0) as (C0 & _). exact C0. }
    assert (NewC : forall nm a ip, data_of d1 n' = Element nm a (Some c) ip -> size d <= c).
    { intros nm a ip D. destruct e as [ei|]; simpl in New.
      - destruct New as (nm0 & at0 & tm0 & D0 & _ & _ & _ & Cn). rewrite D0 in D. injection D as _ _ -> _. destruct (Cn c eq_refl) as (C1 & _). exact C1.
      - destruct New as [_ New]. rewrite D in New. discriminate New. }
    apply nth_error_app_last in N1. apply nth_error_app_last in N2.
    destruct N1 as [[L1 N1]|[E1 ->]], N2 as [[L2 N2]|[E2 ->]].
    + eapply (S9 t1 t2 n1 n2); eassumption.
    + pose proof (OldC _ _ _ _ _ L1 N1 D1). pose proof (NewC _ _ _ D2). lia.
    + pose proof (OldC _ _ _ _ _ L2 N2 D2). pose proof (NewC _ _ _ D1). lia.
    + congruence.
Qed.

(* ---------- every operation accepted by op_okb keeps the relation ---------- *)
Lemma lt_eq_absurd' (a b : nat) : a < b -> a = b -> False. Proof. intros; lia. Qed.
Lemma ev_sv_plain op v : names_op op = false -> ev_sv (EvOp op) v = v.
Proof. destruct op; simpl; intro H; try discriminate; reflexivity. Qed.

Lemma v_info_nth v h : v_info v h = nth h (sv_elems v) None. Proof. reflexivity. Qed.

Lemma sim_apply_create_element d v h nm at_ tmpl ip dup :
  Sim d v -> op_okb v (OpCreateElement h nm at_ tmpl ip dup) = true ->
  Sim (DomSpec.apply d (OpCreateElement h nm at_ tmpl ip dup)) (ev_sv (EvOp (OpCreateElement h nm at_ tmpl ip dup)) v).
Proof.
  intros Sm Ok. cbn [op_okb] in Ok. apply andb_true_iff in Ok. destruct Ok as [Ok _]. apply andb_true_iff in Ok. destruct Ok as [_ Tm].
  apply eqb_prop in Tm. cbn [DomSpec.apply ev_sv]. destruct tmpl.
  - set (d0 := alloc d Document []). set (d1 := alloc d0 (Element nm at_ (Some (size d)) ip) []).
    assert (Z0 : size d0 = S (size d)) by apply size_alloc.
    apply (Sim_add d d1 v (size d0)); [exact Sm | eapply ext_trans; apply ext_alloc | lia | unfold d1; rewrite size_alloc; lia |].
    simpl. exists nm, at_, (Some (size d)). split; [apply data_alloc_new|]. repeat split; try reflexivity.
    + intros _. eauto.
    + intros _. symmetry. exact Tm.
    + injection H as <-. lia.
    + injection H as <-. unfold d1. rewrite size_alloc. lia.
    + injection H as <-. lia.
    + injection H as <-. unfold d1. rewrite data_alloc_old by lia. apply data_alloc_new.
  - set (d1 := alloc d (Element nm at_ None ip) []).
    apply (Sim_add d d1 v (size d)); [exact Sm | apply ext_alloc | lia | unfold d1; rewrite size_alloc; lia |].
    simpl. exists nm, at_, None. split; [apply data_alloc_new|]. repeat split; try reflexivity.
    + intro X. cbn [e_ns e_local] in X. assert (Y : false = true) by (rewrite Tm; exact X). discriminate Y.
    + intros [c X]. discriminate X.
    + discriminate H.
    + discriminate H.
    + discriminate H.
    + discriminate H.
Qed.

Lemma sim_apply_gtc d v t r :
  Sim d v -> op_okb v (OpGetTemplateContents t r) = true ->
  Sim (DomSpec.apply d (OpGetTemplateContents t r)) (ev_sv (EvOp (OpGetTemplateContents t r)) v).
Proof.
  intros S Ok. cbn [op_okb] in Ok. apply andb_true_iff in Ok. destruct Ok as [Nm Fr].
  unfold v_named in Nm. rewrite v_info_nth in Nm. destruct (nth t (sv_elems v) None) as [e|] eqn:Ee; [|discriminate].
  pose proof S as [S1 S2 S3 S4 S5 S6 S7 S8 S9].
  destruct (S5 t e Ee) as (tn & nm & at_ & tm & N & D & _ & _ & Tiff).
  destruct (proj1 Tiff Nm) as [c ->].
  destruct (S8 t tn nm at_ c (e_ip e) N D) as (C1 & C2 & C3).
  cbn [DomSpec.apply ev_sv]. unfold with1, resolve. rewrite N, D.
  fold (tfind t (sv_tmpl v)) in Fr. destruct (tfind t (sv_tmpl v)) as [p|] eqn:Ef.
  - (* the contents already have a handle *)
    apply Nat.eqb_eq in Fr. subst r.
    pose proof (find_some _ _ Ef) as [Hin _]. destruct (S7 p Hin) as [_ B].
    match goal with |- Sim (if ?a then _ else _) _ => destruct a eqn:X1 end.
    { apply Nat.eqb_eq in X1. exfalso. rewrite S1 in X1. exact (lt_eq_absurd' _ _ B X1). }
    match goal with |- Sim _ (if ?b then _ else _) => destruct b eqn:X2 end.
    { apply Nat.eqb_eq in X2. exfalso. exact (lt_eq_absurd' _ _ B X2). }
    exact S.
  - apply Nat.eqb_eq in Fr. subst r. rewrite S1, !Nat.eqb_refl. simpl in C3.
    assert (Fresh : ~ In c (d_names d)) by (apply index_of_None; exact C3).
    assert (Len1 : 1 <= length (sv_elems v)).
    { destruct S4 as (A & _). rewrite <- S1. destruct (d_names d); [discriminate A | simpl; lia]. }
    constructor; unfold add_name; cbn [d_names sv_elems sv_tmpl].
    + rewrite !app_length, S1. reflexivity.
    + intros h n H. change (n < size d). apply nth_error_app_last in H. destruct H as [[L H]|[_ ->]]; [eapply S2; exact H | exact C1].
    + apply NoDup_snoc; assumption.
    + destruct S4 as (A & A' & A''). repeat split; [rewrite nth_error_app1; [exact A | rewrite S1; lia] | exact A' | rewrite app_nth1 by lia; exact A''].
    + intros h ei H. rewrite nth_app_last in H. destruct (Nat.ltb h (length (sv_elems v))) eqn:E.
      * apply Nat.ltb_lt in E. destruct (S5 h ei H) as (n & nm0 & at0 & tm0 & N0 & R).
        exists n, nm0, at0, tm0. split; [rewrite nth_error_app1; [exact N0 | rewrite S1; exact E] | exact R].
      * destruct (Nat.eqb h (length (sv_elems v))); discriminate H.
    + intros h H0 H1 H2. rewrite app_length in H1. simpl in H1. rewrite nth_app_last in H2.
      unfold v_contents. cbn [sv_tmpl existsb snd].
      destruct (Nat.ltb h (length (sv_elems v))) eqn:E.
      * apply Nat.ltb_lt in E. destruct (S6 h H0 E H2) as (n & N0 & R). exists n.
        split; [rewrite nth_error_app1; [exact N0 | rewrite S1; exact E]|].
        replace (Nat.eqb (length (sv_elems v)) h) with false by (symmetry; apply Nat.eqb_neq; lia). exact R.
      * apply Nat.ltb_ge in E. assert (h = length (sv_elems v)) by lia. subst h. rewrite Nat.eqb_refl. cbn [orb].
        exists c. split; [rewrite nth_error_app2; [rewrite S1, Nat.sub_diag; reflexivity | rewrite S1; lia] | exact C2].
    + intros p [<-|Hp]; simpl; rewrite app_length; simpl.
      * split; [|lia]. assert (t < length (d_names d)) by (apply nth_error_Some; rewrite N; discriminate). lia.
      * destruct (S7 p Hp). lia.
    + intros t2 n2 nm2 at2 c2 ip2 N2 D2.
      change (c2 < size d /\ data_of d c2 = Document /\
              index_of c2 (d_names d ++ [c]) = option_map snd (tfind t2 ((t, length (sv_elems v)) :: sv_tmpl v))).
      change (data_of d n2 = Element nm2 at2 (Some c2) ip2) in D2.
      apply nth_error_app_last in N2. destruct N2 as [[L2 N2]|[E2 ->]].
      * destruct (S8 t2 n2 nm2 at2 c2 ip2 N2 D2) as (B1 & B2 & B3). split; [exact B1 | split; [exact B2|]].
        unfold tfind. cbn [find fst]. destruct (Nat.eqb t t2) eqn:Et.
        -- apply Nat.eqb_eq in Et. subst t2. rewrite N in N2. injection N2 as <-. rewrite D in D2. injection D2 as _ _ <- _.
           rewrite index_of_app_new by exact Fresh. simpl. f_equal. exact S1.
        -- apply Nat.eqb_neq in Et. fold (tfind t2 (sv_tmpl v)). rewrite index_of_app_any; [exact B3|].
           right. intro X. subst c2. apply Et. eapply (S9 t t2 tn n2); eassumption.
      * rewrite C2 in D2. discriminate D2.
    + intros t1 t2 n1 n2 nm1 a1 ip1 nm2 a2 ip2 c0 N1 N2 D1 D2.
      change (data_of d n1 = Element nm1 a1 (Some c0) ip1) in D1. change (data_of d n2 = Element nm2 a2 (Some c0) ip2) in D2.
      apply nth_error_app_last in N1. apply nth_error_app_last in N2.
      destruct N1 as [[L1 N1]|[E1 ->]]; [|rewrite C2 in D1; discriminate D1].
      destruct N2 as [[L2 N2]|[E2 ->]]; [|rewrite C2 in D2; discriminate D2].
      eapply (S9 t1 t2 n1 n2); eassumption.
Qed.

Theorem sim_apply d v op : Sim d v -> op_okb v op = true -> Sim (DomSpec.apply d op) (ev_sv (EvOp op) v).
Proof.
  intros S Ok. destruct (names_op op) eqn:Nop.
  - destruct op; try discriminate Nop.
    + apply sim_apply_create_element; assumption.
    + cbn [DomSpec.apply ev_sv]. apply (Sim_add d (alloc d (Comment s) []) v (size d)); [exact S | apply ext_alloc | lia | rewrite size_alloc; lia |].
      simpl. rewrite data_alloc_new. split; reflexivity.
    + cbn [DomSpec.apply ev_sv]. apply (Sim_add d (alloc d (PI target d0) []) v (size d)); [exact S | apply ext_alloc | lia | rewrite size_alloc; lia |].
      simpl. rewrite data_alloc_new. split; reflexivity.
    + apply sim_apply_gtc; assumption.
  - rewrite (ev_sv_plain op v Nop). eapply Sim_ext; [apply ext_apply; exact Nop | exact S].
Qed.

(* ---------- the clauses an accepted operation cannot break ---------- *)
Definition covered (c : clause) : bool :=
  match c with
  | CUnknownHandle | CHandleNumbering | CTemplateFlag | CMathmlIpFlag | CNotElement | CNotTemplate | CNotForm
  | CNotAssociatable | CNotScript | CNotOption | CParentNotContainer | CChildNotCreated
  | CSiblingIsText | CSiblingNoParent => true
  | _ => false
  end.

Lemma names_agree :
  ns_html = s_ns_html /\ ns_mathml = s_ns_mathml /\ nm "template" = s_template /\ nm "script" = s_script /\
  nm "form" = s_form /\ nm "option" = s_option /\ nm "annotation-xml" = s_annotation_xml.
Proof. repeat split; reflexivity. Qed.

Lemma in_set_single ns loc a b : in_set [(ns, loc)] (a, b) = true -> a = ns /\ b = loc.
Proof.
  unfold in_set. simpl. rewrite orb_false_r. unfold ename_eqb. simpl. intro H. apply andb_true_iff in H. destruct H as [A B].
  apply DomLemmas.str_eqb_eq in A. apply DomLemmas.str_eqb_eq in B. auto.
Qed.
Lemma in_set_single_eq ns loc a b : in_set [(ns, loc)] (a, b) = DomSpec.str_eqb a ns && DomSpec.str_eqb b loc.
Proof. unfold in_set. simpl. rewrite orb_false_r. reflexivity. Qed.

Lemma str_eqb_refl' x : DomSpec.str_eqb x x = true. Proof. apply DomLemmas.str_eqb_eq. reflexivity. Qed.

Lemma assoc_table_ok :
  forallb (fun en => DomSpec.str_eqb (fst en) s_ns_html && existsb (DomSpec.str_eqb (snd en)) Contract.form_associatable)
          TreeTables.form_associatable = true.
Proof. vm_compute. reflexivity. Qed.
Lemma assoc_ok nm a tm ip : in_set TreeTables.form_associatable (q_ns nm, q_local nm) = true ->
  is_html_any (Element nm a tm ip) Contract.form_associatable = true.
Proof.
  intro H. unfold in_set in H. apply existsb_exists in H. destruct H as (en & Hin & He).
  unfold ename_eqb in He. simpl in He. apply andb_true_iff in He. destruct He as [A B].
  apply DomLemmas.str_eqb_eq in A. apply DomLemmas.str_eqb_eq in B.
  pose proof assoc_table_ok as T. rewrite forallb_forall in T. specialize (T en Hin).
  apply andb_true_iff in T. destruct T as [T1 T2]. apply existsb_exists in T2. destruct T2 as (loc & Hl & El).
  unfold is_html_any. apply existsb_exists. exists loc. split; [exact Hl|].
  unfold is_html. rewrite A, B, T1, El. reflexivity.
Qed.

Section Resolve.
Context (d : dom) (v : sview) (S : Sim d v).

Lemma sim_res_known h : v_known v h = true -> exists n, resolve d h = Some n.
Proof.
  unfold v_known. intro H. apply Nat.ltb_lt in H. rewrite <- (sim_len _ _ S) in H.
  unfold resolve. destruct (nth_error (d_names d) h) as [n|] eqn:E; [eauto|]. apply nth_error_None in E. lia.
Qed.
Lemma sim_res_named h names : v_named v h names = true ->
  exists n nm at_ tm ip, resolve d h = Some n /\ data_of d n = Element nm at_ tm ip /\
    in_set names (q_ns nm, q_local nm) = true /\
    (in_set template_name (q_ns nm, q_local nm) = true -> exists c, tm = Some c).
Proof.
  unfold v_named. rewrite v_info_nth. destruct (nth h (sv_elems v) None) as [e|] eqn:E; [|discriminate]. intro H.
  destruct (sim_elem _ _ S h e E) as (n & nm & at_ & tm & N & D & R1 & R2 & R3).
  exists n, nm, at_, tm, (e_ip e). rewrite R1, R2. split; [exact N | split; [exact D | split; [exact H | apply R3]]].
Qed.
Lemma sim_res_elem h : v_elem v h = true -> exists n, resolve d h = Some n /\ is_element (data_of d n) = true.
Proof.
  unfold v_elem. rewrite v_info_nth. destruct (nth h (sv_elems v) None) as [e|] eqn:E; [|discriminate]. intros _.
  destruct (sim_elem _ _ S h e E) as (n & nm & at_ & tm & N & D & _). exists n. split; [exact N | rewrite D; reflexivity].
Qed.
Lemma sim_res_zero : resolve d 0 = Some 0 /\ data_of d 0 = Document.
Proof. destruct (sim_doc _ _ S) as (A & B & _). split; assumption. Qed.
Lemma sim_res_container h : v_container v h = true -> exists n, resolve d h = Some n /\ is_container (data_of d n) = true.
Proof.
  unfold v_container. intro H. apply orb_true_iff in H. destruct H as [H|H]; [apply orb_true_iff in H; destruct H as [H|H]|].
  - apply Nat.eqb_eq in H. subst h. destruct sim_res_zero as [A B]. exists 0. split; [exact A | rewrite B; reflexivity].
  - destruct (sim_res_elem h H) as (n & N & E). exists n. split; [exact N|]. destruct (data_of d n); try discriminate; reflexivity.
  - pose proof H as C. apply v_contents_true in H. destruct H as (q & Hin & Hq). destruct (sim_tdom _ _ S q Hin) as [_ B].
    rewrite Hq in B.
    destruct (Nat.eq_dec h 0) as [->|Nz].
    + destruct sim_res_zero as [A B']. exists 0. split; [exact A | rewrite B'; reflexivity].
    + destruct (nth h (sv_elems v) None) as [e|] eqn:E.
      * destruct (sim_elem _ _ S h e E) as (n & nm & at_ & tm & N & D & _). exists n. split; [exact N | rewrite D; reflexivity].
      * destruct (sim_none _ _ S h ltac:(lia) B E) as (n & N & R). rewrite C in R. exists n. split; [exact N | rewrite R; reflexivity].
Qed.
Lemma sim_res_created h : v_created v h = true -> exists n, resolve d h = Some n /\ is_created (data_of d n) = true.
Proof.
  unfold v_created. intro H. apply andb_true_iff in H. destruct H as [H H3]. apply andb_true_iff in H. destruct H as [H1 H2].
  unfold v_known in H1. apply Nat.ltb_lt in H1. apply negb_true_iff in H2, H3. apply Nat.eqb_neq in H2.
  destruct (nth h (sv_elems v) None) as [e|] eqn:E.
  - destruct (sim_elem _ _ S h e E) as (n & nm & at_ & tm & N & D & _). exists n. split; [exact N | rewrite D; reflexivity].
  - destruct (sim_none _ _ S h ltac:(lia) H1 E) as (n & N & R). rewrite H3 in R. exists n. split; [exact N | tauto].
Qed.

Ltac finish :=
  let c := fresh "c" in let Hc := fresh "Hc" in
  intros c Hc; unfold guard in Hc;
  repeat match type of Hc with
         | context [if ?b then _ else _] => destruct b
         | context [match ?x with _ => _ end] => destruct x
         end;
  try discriminate Hc; injection Hc as <-; reflexivity.

Lemma check_child_uncovered p c : v_child v c = true -> forall cl, check_child d p c = Some cl -> covered cl = false.
Proof.
  destruct c as [h|s]; simpl; [|intros _ cl H; discriminate H]. intro H.
  destruct (sim_res_created h H) as (n & N & Cr). unfold with_node. rewrite N. unfold guard at 1. rewrite Cr. finish.
Qed.
Lemma check_append_uncovered pn c : is_container (data_of d pn) = true -> v_child v c = true ->
  forall cl, check_append d pn c = Some cl -> covered cl = false.
Proof. intros C H. unfold check_append, guard. rewrite C. apply check_child_uncovered. exact H. Qed.
Lemma check_before_uncovered sn c : is_element (data_of d sn) = true -> has_parent d sn = true -> v_child v c = true ->
  forall cl, check_before d sn c = Some cl -> covered cl = false.
Proof.
  intros E P H cl. unfold check_before, guard.
  replace (negb (is_text (data_of d sn))) with true by (destruct (data_of d sn); try discriminate E; reflexivity).
  unfold has_parent in P. destruct (parent_of d sn) as [p|]; [apply check_child_uncovered; exact H | discriminate P].
Qed.

Theorem sim_check op : op_okb v op = true -> forall c, check_op d op = Some c -> covered c = false.
Proof.
  destruct names_agree as (Eh & Em & Et & Es & Ef & Eo & Ea).
  destruct op; cbn [op_okb check_op]; intro Ok.
  - (* create_element *)
    apply andb_true_iff in Ok. destruct Ok as [Ok Ip]. apply andb_true_iff in Ok. destruct Ok as [Hn Tm].
    apply Nat.eqb_eq in Hn. subst h. unfold fresh_h. rewrite (sim_len _ _ S), Nat.eqb_refl.
    unfold guard at 1. cbn iota.
    assert (T : Bool.eqb template (name_is name s_ns_html s_template) = true).
    { unfold name_is. rewrite <- Eh, <- Et. unfold template_name in Tm. rewrite in_set_single_eq in Tm. exact Tm. }
    assert (P : implb mathml_ip (name_is name s_ns_mathml s_annotation_xml) = true).
    { unfold name_is. rewrite <- Em, <- Ea. unfold annotation_xml_name in Ip. rewrite in_set_single_eq in Ip. exact Ip. }
    unfold guard. rewrite T, P. finish.
  - apply Nat.eqb_eq in Ok. subst h. unfold fresh_h. rewrite (sim_len _ _ S), Nat.eqb_refl. finish.
  - apply Nat.eqb_eq in Ok. subst h. unfold fresh_h. rewrite (sim_len _ _ S), Nat.eqb_refl. finish.
  - (* append *)
    apply andb_true_iff in Ok. destruct Ok as [Cp Cc]. destruct (sim_res_container parent Cp) as (pn & N & C).
    unfold with_node. rewrite N. apply check_append_uncovered; assumption.
  - discriminate Ok.
  - apply andb_true_iff in Ok. destruct Ok as [Ok Cc]. apply andb_true_iff in Ok. destruct Ok as [Ee Ep].
    destruct (sim_res_elem element Ee) as (en & Ne & Ie). destruct (sim_res_elem prev_element Ep) as (pn & Np & Ipn).
    unfold check_elem, with_node. rewrite Ne. unfold guard at 1. rewrite Ie. rewrite Np. unfold guard at 1. rewrite Ipn.
    destruct (has_parent d en) eqn:Hp; [apply check_before_uncovered; assumption|].
    apply check_append_uncovered; [destruct (data_of d pn); try discriminate; reflexivity | exact Cc].
  - finish.
  - destruct (sim_res_elem target Ok) as (n & N & E). unfold check_elem, with_node. rewrite N. unfold guard at 1. rewrite E. finish.
  - destruct (sim_res_known target Ok) as (n & N). unfold with_node. rewrite N. intros c H. discriminate H.
  - apply andb_true_iff in Ok. destruct Ok as [A B].
    destruct (sim_res_elem nd A) as (an & Na & Ia). destruct (sim_res_elem new_parent B) as (bn & Nb & Ib).
    unfold with_node. rewrite Na, Nb.
    assert (Ca : is_container (data_of d an) = true) by (destruct (data_of d an); try discriminate; reflexivity).
    assert (Cb : is_container (data_of d bn) = true) by (destruct (data_of d bn); try discriminate; reflexivity).
    unfold guard. rewrite Ca, Cb. cbn [andb]. finish.
  - (* get_template_contents *)
    apply andb_true_iff in Ok. destruct Ok as [Nt Fr].
    destruct (sim_res_named target template_name Nt) as (tn & nm0 & at_ & tm & ip & N & D & Inm & Tm).
    destruct (Tm Inm) as [c ->].
    unfold with_node. rewrite N, D.
    apply in_set_single in Inm. destruct Inm as [A B]. cbn [fst snd] in A, B.
    unfold guard at 1. unfold is_html. rewrite A, B, Eh, Et, !str_eqb_refl'. cbn [andb].
    destruct (sim_tmpl _ _ S target tn nm0 at_ c ip N D) as (_ & _ & Ix). rewrite Ix.
    fold (tfind target (sv_tmpl v)) in Fr. destruct (tfind target (sv_tmpl v)) as [p|]; simpl.
    + unfold guard. match goal with |- forall c0, (if ?b then _ else _) = _ -> _ => replace b with true by (symmetry; exact Fr) end.
      intros c0 H. discriminate H.
    + unfold guard, fresh_h. rewrite (sim_len _ _ S).
      match goal with |- forall c0, (if ?b then _ else _) = _ -> _ => replace b with true by (symmetry; exact Fr) end.
      intros c0 H. discriminate H.
  - destruct (sim_res_named h script_name Ok) as (n & nm0 & at_ & tm & ip & N & D & Inm & _).
    unfold with_node. rewrite N, D. apply in_set_single in Inm. destruct Inm as [A B]. cbn [fst snd] in A, B.
    unfold guard, is_html. rewrite A, B, Eh, Es, !str_eqb_refl'. intros c H. discriminate H.
  - destruct (sim_res_elem h Ok) as (n & N & E). unfold check_elem, with_node. rewrite N. unfold guard. rewrite E. intros c H. discriminate H.
  - finish.
  - finish.
  - (* associate_with_form *)
    apply andb_true_iff in Ok. destruct Ok as [Ok Pe]. apply andb_true_iff in Ok. destruct Ok as [Ok Ee].
    apply andb_true_iff in Ok. destruct Ok as [Ta Fo].
    destruct (sim_res_named target _ Ta) as (tn & nmt & att & tmt & ipt & Nt & Dt & It & _).
    destruct (sim_res_named form _ Fo) as (fn & nmf & atf & tmf & ipf & Nf & Df & If & _).
    destruct (sim_res_elem element Ee) as (en & Ne & Ie).
    unfold with_node, check_elem. rewrite Nt, Dt. unfold guard at 1. rewrite (assoc_ok _ _ _ _ It).
    rewrite Nf, Df. apply in_set_single in If. destruct If as [A B]. cbn [fst snd] in A, B.
    unfold guard at 1. unfold is_html. rewrite A, B, Eh, Ef, !str_eqb_refl'. cbn [andb].
    unfold with_node. rewrite Ne. unfold guard at 1. rewrite Ie.
    destruct prev as [x|]; [|intros c H; discriminate H].
    destruct (sim_res_elem x Pe) as (xn & Nx & Ix). unfold with_node. rewrite Nx. unfold guard. rewrite Ix. intros c H. discriminate H.
  - (* clone option *)
    destruct (sim_res_named opt option_name Ok) as (n & nm0 & at_ & tm & ip & N & D & Inm & _).
    unfold with_node. rewrite N. apply in_set_single in Inm. destruct Inm as [A B]. cbn [fst snd] in A, B.
    unfold guard at 1. rewrite D. unfold is_html. rewrite A, B, Eh, Eo, !str_eqb_refl'. cbn [andb]. finish.
  - destruct (sim_res_elem h Ok) as (n & N & E). unfold check_elem, with_node. rewrite N. unfold guard. rewrite E. intros c H. discriminate H.
  - destruct (sim_res_elem h Ok) as (n & N & E). unfold check_elem, with_node. rewrite N. unfold guard. rewrite E. intros c H. discriminate H.
  - intros c H. discriminate H.
Qed.
End Resolve.

(* ---------- whole traces ---------- *)
Lemma insig_ev ev v : significant ev = false -> ev_sv ev v = v /\ ev_okb v ev = true.
Proof. destruct ev as [op|a b]; [destruct op|]; simpl; intro H; try discriminate; split; reflexivity. Qed.

Lemma tsv_sig : forall evs, tsv (sig evs) = tsv evs.
Proof.
  induction evs as [|ev r IH]; [reflexivity|]. destruct (significant ev) eqn:E.
  - rewrite sig_cons_sig by exact E. simpl. rewrite IH. reflexivity.
  - rewrite sig_cons_insig by exact E. simpl. rewrite (proj1 (insig_ev ev _ E)). exact IH.
Qed.
Lemma trace_okb_sig : forall evs, trace_okb (sig evs) = trace_okb evs.
Proof.
  induction evs as [|ev r IH]; [reflexivity|]. destruct (significant ev) eqn:E.
  - rewrite sig_cons_sig by exact E. simpl. rewrite IH, tsv_sig. reflexivity.
  - rewrite sig_cons_insig by exact E. simpl. rewrite (proj2 (insig_ev ev _ E)). exact IH.
Qed.

(* the operations in the order in which they were emitted ([evs] is newest first, like the `out` field) *)
Definition chron (evs : list event) : list sinkop := TreeModel.ops_of (rev evs).

Lemma chron_cons ev r : chron (ev :: r) = chron r ++ match ev with EvOp op => [op] | EvArm _ _ => [] end.
Proof. unfold chron, TreeModel.ops_of. simpl. rewrite flat_map_app. simpl. rewrite app_nil_r. reflexivity. Qed.

Lemma run_from_app d l1 l2 : run_from d (l1 ++ l2) = run_from (run_from d l1) l2.
Proof. unfold run_from. apply fold_left_app. Qed.

Theorem trace_sim : forall evs, trace_okb evs = true -> Sim (run_from DomSpec.init (chron evs)) (tsv evs).
Proof.
  induction evs as [|ev r IH]; intro T.
  - exact Sim_init.
  - simpl in T. apply andb_true_iff in T. destruct T as [Te Tr]. specialize (IH Tr).
    rewrite chron_cons, run_from_app. destruct ev as [op|a b]; simpl.
    + apply sim_apply; assumption.
    + exact IH.
Qed.

Lemma monitor_all_app : forall l1 l2 d k,
  monitor_all k d (l1 ++ l2) = monitor_all k d l1 ++ monitor_all (k + length l1) (run_calls d l1) l2.
Proof.
  induction l1 as [|c t IH]; intros l2 d k; simpl.
  - rewrite Nat.add_0_r. reflexivity.
  - rewrite IH. replace (S k + length t) with (k + S (length t)) by lia.
    destruct (check_call d c); reflexivity.
Qed.
Lemma run_calls_map_op : forall l d, run_calls d (map Op l) = run_from d l.
Proof. induction l as [|op t IH]; intro d; simpl; [reflexivity | apply IH]. Qed.

(* every breach the judge can report on a checked trace is a breach of an uncovered clause *)
Theorem trace_contract : forall evs, trace_okb evs = true ->
  forall k c, In (k, c) (monitor_all 0 DomSpec.init (map Op (chron evs))) -> covered c = false.
Proof.
  induction evs as [|ev r IH]; intros T k c H; [contradiction|].
  simpl in T. apply andb_true_iff in T. destruct T as [Te Tr].
  rewrite chron_cons, map_app, monitor_all_app in H. apply in_app_or in H. destruct H as [H|H]; [exact (IH Tr k c H)|].
  rewrite run_calls_map_op in H. destruct ev as [op|a b]; simpl in H; [|contradiction].
  destruct (check_op (run_from DomSpec.init (chron r)) op) as [cl|] eqn:E; [|contradiction].
  destruct H as [H|[]]. injection H as _ <-.
  exact (sim_check _ _ (trace_sim r Tr) op Te cl E).
Qed.

Corollary trace_contract_first : forall evs, trace_okb evs = true ->
  forall k c, monitor DomSpec.init (map Op (chron evs)) = Some (k, c) -> covered c = false.
Proof.
  intros evs T k c H. unfold monitor in H. rewrite <- ContractProofs.monitor_all_head in H.
  destruct (monitor_all 0 DomSpec.init (map Op (chron evs))) as [|x l] eqn:E; [discriminate H|].
  simpl in H. injection H as ->. apply (trace_contract evs T k c). rewrite E. left. reflexivity.
Qed.

(* the invariant of the tree-builder model gives a checked trace *)
Theorem TInv_trace_okb s : TInv s -> trace_okb (out s) = true.
Proof. intro I. rewrite <- trace_okb_sig. exact (inv_trace _ I). Qed.
